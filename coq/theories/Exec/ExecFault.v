(** C20 -- scheduler query faults never corrupt step states.
    Single-poll facts about the generated decision logic (ExecGen.v) and their
    lifting to every executed poll of every run.

    Part 1: the executed polls of a run ([run_steps]) and its induction principle.
    Part 2: QERROR aborts before any mutation; QNOJOBS ignores the reports.
    Part 3: erasure -- a report that is [None] or a non-terminal non-RUNNING
            state is a no-op of the dispatch fold, so it can be deleted.
    Part 4: frame -- a tracked step whose report is quiet (or absent) keeps its
            record and its place in the sets through the whole poll. *)
From Coq Require Import Lia Relations.
From MWF Require Import Base.Util Base.UtilLemmas Exec.ExecBase Exec.ExecGen Exec.ExecRun Exec.ExecTrace
  Exec.ExecGraph Exec.ExecInv.

Arguments bfs_subtree : simpl never.
Arguments submit_attempts : simpl never.
Arguments mark_failed_list : simpl never.
Arguments mark_cancelled_list : simpl never.

(** * Part 1: the executed polls of a run *)
Definition step := (st * pin * st * SStatus)%type.
Definition st_pre (t : step) : st := fst (fst (fst t)).
Definition st_pin (t : step) : pin := snd (fst (fst t)).
Definition st_post (t : step) : st := snd (fst t).
Definition st_res (t : step) : SStatus := snd t.

Fixpoint run_steps (c : cfg) (g : graph) (s : st) (ps : list pin) : list step :=
  match ps with
  | [] => []
  | p :: ps' =>
    let '(s1, r) := poll c g s p in
    match r with
    | SRUNNING => (s, p, s1, r) :: run_steps c g s1 ps'
    | _ => [(s, p, s1, r)]
    end
  end.

Definition obs_of_step (t : step) : obs := (rev (evs (st_post t)), rows_of (st_post t), st_res t).

Lemma run_steps_run c g ps : forall s, run c g s ps = map obs_of_step (run_steps c g s ps).
Proof.
  induction ps as [|p ps IH]; intros s; cbn; auto.
  destruct (poll c g s p) as [s1 r] eqn:E. destruct r; cbn; try reflexivity.
  rewrite IH. reflexivity.
Qed.

Lemma run_steps_states c g ps : forall s,
  run_states c g s ps = map (fun t => (st_post t, st_res t)) (run_steps c g s ps).
Proof.
  induction ps as [|p ps IH]; intros s; cbn; auto.
  destruct (poll c g s p) as [s1 r] eqn:E. destruct r; cbn; try reflexivity.
  rewrite IH. reflexivity.
Qed.

Lemma run_steps_length c g ps : forall s, length (run_steps c g s ps) <= length ps.
Proof.
  induction ps as [|p ps IH]; intros s; cbn; auto.
  destruct (poll c g s p) as [s1 r]. destruct r; cbn; try lia. specialize (IH s1). lia.
Qed.

(** every executed poll is a [poll] of its pre-state, with a pin of the history *)
Lemma run_steps_poll c g ps : forall s t, In t (run_steps c g s ps) ->
  poll c g (st_pre t) (st_pin t) = (st_post t, st_res t) /\ In (st_pin t) ps.
Proof.
  induction ps as [|p ps IH]; intros s t H; cbn in H; [contradiction|].
  destruct (poll c g s p) as [s1 r] eqn:E.
  assert (H0 : t = (s, p, s1, r) -> poll c g (st_pre t) (st_pin t) = (st_post t, st_res t) /\ In (st_pin t) (p :: ps)).
  { intros ->. cbn. split; auto. }
  destruct r; cbn in H; try (destruct H as [H|[]]; auto; fail).
  destruct H as [H|H]; auto. destruct (IH _ _ H). split; auto. right. assumption.
Qed.

(** induction principle: a property of the start state that every RUNNING poll
    preserves holds of the pre-state of every executed poll *)
Lemma run_steps_pre (P : st -> Prop) c g :
  (forall s p s1, P s -> poll c g s p = (s1, SRUNNING) -> P s1) ->
  forall ps s t, P s -> In t (run_steps c g s ps) -> P (st_pre t).
Proof.
  intros Hstep. induction ps as [|p ps IH]; intros s t Hs H; cbn in H; [contradiction|].
  destruct (poll c g s p) as [s1 r] eqn:E.
  destruct r; cbn in H; try (destruct H as [<-|[]]; exact Hs).
  destruct H as [<-|H]; [exact Hs|]. eapply IH; [|exact H]. eapply Hstep; eauto.
Qed.

(** same, with a side condition on the pins (e.g. "no cancel request") *)
Lemma run_steps_pre_pins (P : st -> Prop) (K : pin -> Prop) c g :
  (forall s p s1, P s -> K p -> poll c g s p = (s1, SRUNNING) -> P s1) ->
  forall ps s t, Forall K ps -> P s -> In t (run_steps c g s ps) -> P (st_pre t).
Proof.
  intros Hstep. induction ps as [|p ps IH]; intros s t HK Hs H; cbn in H; [contradiction|].
  inversion HK; subst.
  destruct (poll c g s p) as [s1 r] eqn:E.
  destruct r; cbn in H; try (destruct H as [<-|[]]; exact Hs).
  destruct H as [<-|H]; [exact Hs|]. eapply IH; [assumption| |exact H]. eapply Hstep; eauto.
Qed.

(** only the last executed poll can have a status other than RUNNING *)
Lemma run_steps_running c g ps : forall s pre t post, run_steps c g s ps = pre ++ t :: post ->
  post <> [] -> st_res t = SRUNNING.
Proof.
  induction ps as [|p ps IH]; intros s pre t post H Hp; cbn in H.
  - destruct pre; discriminate.
  - destruct (poll c g s p) as [s1 r] eqn:E.
    destruct r; cbn in H;
      try (destruct pre as [|a pre]; cbn in H; inversion H; subst;
           [exfalso; apply Hp; reflexivity | destruct pre; discriminate]).
    destruct pre as [|a pre]; cbn in H; inversion H; subst; [reflexivity|].
    eapply IH; eauto.
Qed.

(** * Part 2: QERROR and QNOJOBS *)

(** the adapter calls of a poll whose query fails *)
Definition fault_events (s : st) (p : pin) : list event :=
  (if cancel_req p then [ECancel (map (lastjob s) (inprog s))] else []) ++ [ECheck (map (lastjob s) (inprog s))].

(** QERROR: the poll IS the pre-state with this poll's scripted outcomes loaded,
    the cancel flag of a simultaneous cancel request, and the two adapter calls *)
Lemma poll_error c g s p : dry c = false -> qcode p = QERROR ->
  poll c g s p =
  (set_evs (set_subs (if cancel_req p then set_canceled s true else s) (psubs p)) (rev (fault_events s p)), SABORT).
Proof.
  intros Hd Hq. unfold poll, execute_ready_steps_gen, cancel_study_gen, fault_events.
  rewrite Hd, Hq. destruct (cancel_req p); reflexivity.
Qed.

Definition is_submit_or_gen (e : event) : bool :=
  match e with ESubmit _ _ _ _ | EGen _ => true | _ => false end.

Lemma poll_error_fields c g s p : dry c = false -> qcode p = QERROR ->
  let s' := fst (poll c g s p) in
  snd (poll c g s p) = SABORT /\
  recs s' = recs s /\ completed s' = completed s /\ inprog s' = inprog s /\ failed s' = failed s /\
  cancelled s' = cancelled s /\ ready s' = ready s /\ deps s' = deps s /\ next_job s' = next_job s /\
  canceled s' = (cancel_req p || canceled s) /\
  rev (evs s') = fault_events s p /\
  forallb (fun e => negb (is_submit_or_gen e)) (evs s') = true.
Proof.
  intros Hd Hq. rewrite (poll_error c g s p Hd Hq). cbn [fst snd].
  unfold fault_events. destruct (cancel_req p); cbn; repeat split; reflexivity.
Qed.

(** the converse: only a failed query of a real run aborts *)
Lemma completion_not_abort g s : completion_gen g s <> SABORT.
Proof.
  unfold completion_gen.
  destruct (canceled s && is_nil (inprog s)); [discriminate|].
  destruct (subset _ _); [|discriminate].
  destruct (negb (is_nil (cancelled s))); [discriminate|].
  destruct (negb (is_nil (failed s))); discriminate.
Qed.

Lemma poll_abort_iff c g s p :
  snd (poll c g s p) = SABORT <-> (dry c = false /\ qcode p = QERROR).
Proof.
  split.
  - unfold poll, execute_ready_steps_gen. destruct (dry c); cbn [negb qcode_eqb].
    + intros H. exfalso. eapply completion_not_abort. exact H.
    + destruct (qcode p); cbn [qcode_eqb]; intros H; auto; exfalso; eapply completion_not_abort; exact H.
  - intros [Hd Hq]. rewrite poll_error; auto.
Qed.

(** QNOJOBS: the reports are not looked at *)
Definition with_reports (p : pin) (r : list (nat * option State)) : pin :=
  {| cancel_req := cancel_req p; qcode := qcode p; reports := r; psubs := psubs p |}.
Definition with_query (p : pin) (q : QCode) (r : list (nat * option State)) : pin :=
  {| cancel_req := cancel_req p; qcode := q; reports := r; psubs := psubs p |}.

Lemma dispatch_nil c g s : dispatch_gen c g [] s = s.
Proof. reflexivity. Qed.

Lemma poll_nojobs c g s p : qcode p = QNOJOBS -> poll c g s p = poll c g s (with_reports p []).
Proof.
  intros Hq. unfold poll, execute_ready_steps_gen, with_reports. cbn [cancel_req qcode reports psubs].
  rewrite Hq. destruct (dry c); reflexivity.
Qed.

(** ... and the poll is the one an OK query with an empty answer would give *)
Lemma poll_nojobs_ok c g s p : qcode p = QNOJOBS -> poll c g s p = poll c g s (with_query p QOK []).
Proof.
  intros Hq. unfold poll, execute_ready_steps_gen, with_query. cbn [cancel_req qcode reports psubs].
  rewrite Hq. destruct (dry c); reflexivity.
Qed.

(** the part of a poll after the query: staging, launching, completion check *)
Definition stage_launch (c : cfg) (g : graph) (s : st) : st * SStatus :=
  let s := fold_left (stage_node_gen g) (seq 0 (length g)) s in
  let s := Nat.iter (available_gen c s) (launch_body_gen c g) s in
  (s, completion_gen g s).

(** the state at the time of the query *)
Definition at_query (c : cfg) (s : st) (p : pin) : st :=
  let s := set_evs (set_subs s (psubs p)) [] in
  let s := if cancel_req p then cancel_study_gen s else s in
  if negb (dry c) then emit (ECheck (map (lastjob s) (inprog s))) s else s.

(** reports that reach the dispatch *)
Definition delivered (c : cfg) (p : pin) : list (nat * option State) :=
  if dry c then [] else match qcode p with QOK => reports p | _ => [] end.

Lemma poll_phases c g s p : (dry c = false -> qcode p <> QERROR) ->
  poll c g s p = stage_launch c g (dispatch_gen c g (delivered c p) (at_query c s p)).
Proof.
  intros H. unfold poll, execute_ready_steps_gen, stage_launch, at_query, delivered.
  destruct (dry c); cbn [negb qcode_eqb].
  - reflexivity.
  - destruct (qcode p); cbn [qcode_eqb]; try reflexivity. exfalso. apply H; reflexivity.
Qed.

Lemma at_query_fields c s p :
  let s' := at_query c s p in
  recs s' = recs s /\ completed s' = completed s /\ inprog s' = inprog s /\ failed s' = failed s /\
  cancelled s' = cancelled s /\ ready s' = ready s /\ deps s' = deps s /\ next_job s' = next_job s /\
  canceled s' = (cancel_req p || canceled s) /\ subs s' = psubs p.
Proof.
  unfold at_query, cancel_study_gen. destruct (cancel_req p), (dry c); cbn; repeat split; reflexivity.
Qed.

Lemma poll_nojobs_explicit c g s p : qcode p = QNOJOBS ->
  poll c g s p = stage_launch c g (at_query c s p).
Proof.
  intros Hq. rewrite poll_phases by (rewrite Hq; discriminate).
  unfold delivered. rewrite Hq. destruct (dry c); reflexivity.
Qed.

(** * Part 3: erasure of quiet reports *)
Definition quiet (o : option State) : bool :=
  match o with None => true | Some v => negb (terminal v) && negb (state_eqb v RUNNING) end.

Lemma handle_quiet c g acc x o : quiet o = true -> handle_report_gen c g acc (x, o) = acc.
Proof.
  intros H. destruct acc as [[s cl] ca]. destruct o as [v|]; [destruct v|]; try discriminate; reflexivity.
Qed.

Lemma fold_erase c g (keep : nat * option State -> bool) reps :
  (forall r, In r reps -> keep r = false -> quiet (snd r) = true) ->
  forall acc, fold_left (handle_report_gen c g) reps acc = fold_left (handle_report_gen c g) (filter keep reps) acc.
Proof.
  induction reps as [|r reps IH]; intros H acc; cbn; auto.
  destruct (keep r) eqn:E; cbn.
  - apply IH. intros r' Hr. apply H. right. exact Hr.
  - destruct r as [x o]. rewrite handle_quiet by (apply (H (x, o)); [left; reflexivity | exact E]).
    apply IH. intros r' Hr. apply H. right. exact Hr.
Qed.

Lemma dispatch_erase c g keep reps s :
  (forall r, In r reps -> keep r = false -> quiet (snd r) = true) ->
  dispatch_gen c g reps s = dispatch_gen c g (filter keep reps) s.
Proof. intros H. unfold dispatch_gen. rewrite (fold_erase c g keep reps H). reflexivity. Qed.

Lemma poll_erase c g keep s p :
  (forall r, In r (reports p) -> keep r = false -> quiet (snd r) = true) ->
  poll c g s p = poll c g s (with_reports p (filter keep (reports p))).
Proof.
  intros H. unfold poll, execute_ready_steps_gen, with_reports. cbn [cancel_req qcode reports psubs].
  destruct (dry c); cbn [negb]; [reflexivity|].
  destruct (qcode p); cbn [qcode_eqb]; try reflexivity.
  rewrite (dispatch_erase c g keep (reports p)) by exact H. reflexivity.
Qed.

Definition loud (r : nat * option State) : bool := negb (quiet (snd r)).

Lemma poll_erase_all_quiet c g s p :
  poll c g s p = poll c g s (with_reports p (filter loud (reports p))).
Proof.
  apply poll_erase. intros r _ H. unfold loud in H. apply negb_false_iff in H. exact H.
Qed.

(** C20 -- scheduler query faults never corrupt step states.
    Single-poll facts about the generated decision logic (ExecGen.v) and their
    lifting to every executed poll of every run.

    Part 1: the executed polls of a run ([run_steps]) and its induction principle.
    Part 2: QERROR aborts before any mutation; QNOJOBS ignores the reports.
    Part 3: erasure -- a report that is [None] or a non-terminal non-RUNNING
            state is a no-op of the dispatch fold, so it can be deleted.
    Part 4: frame -- a tracked step whose report is quiet (or absent) keeps its
            record and its place in the sets through the whole poll. *)
From Coq Require Import Lia Relations.
From MWF Require Import Base.Util Base.UtilLemmas Exec.ExecBase Exec.ExecGen Exec.ExecRun Exec.ExecTrace
  Exec.ExecGraph Exec.ExecInv.

Arguments bfs_subtree : simpl never.
Arguments submit_attempts : simpl never.
Arguments mark_failed_list : simpl never.
Arguments mark_cancelled_list : simpl never.

(** * Part 1: the executed polls of a run *)
Definition step := (st * pin * st * SStatus)%type.
Definition st_pre (t : step) : st := fst (fst (fst t)).
Definition st_pin (t : step) : pin := snd (fst (fst t)).
Definition st_post (t : step) : st := snd (fst t).
Definition st_res (t : step) : SStatus := snd t.

Fixpoint run_steps (c : cfg) (g : graph) (s : st) (ps : list pin) : list step :=
  match ps with
  | [] => []
  | p :: ps' =>
    let '(s1, r) := poll c g s p in
    match r with
    | SRUNNING => (s, p, s1, r) :: run_steps c g s1 ps'
    | _ => [(s, p, s1, r)]
    end
  end.

Definition obs_of_step (t : step) : obs := (rev (evs (st_post t)), rows_of (st_post t), st_res t).

Lemma run_steps_run c g ps : forall s, run c g s ps = map obs_of_step (run_steps c g s ps).
Proof.
  induction ps as [|p ps IH]; intros s; cbn; auto.
  destruct (poll c g s p) as [s1 r] eqn:E. destruct r; cbn; try reflexivity.
  rewrite IH. reflexivity.
Qed.

Lemma run_steps_states c g ps : forall s,
  run_states c g s ps = map (fun t => (st_post t, st_res t)) (run_steps c g s ps).
Proof.
  induction ps as [|p ps IH]; intros s; cbn; auto.
  destruct (poll c g s p) as [s1 r] eqn:E. destruct r; cbn; try reflexivity.
  rewrite IH. reflexivity.
Qed.

Lemma run_steps_length c g ps : forall s, length (run_steps c g s ps) <= length ps.
Proof.
  induction ps as [|p ps IH]; intros s; cbn; auto.
  destruct (poll c g s p) as [s1 r]. destruct r; cbn; try lia. specialize (IH s1). lia.
Qed.

(** every executed poll is a [poll] of its pre-state, with a pin of the history *)
Lemma run_steps_poll c g ps : forall s t, In t (run_steps c g s ps) ->
  poll c g (st_pre t) (st_pin t) = (st_post t, st_res t) /\ In (st_pin t) ps.
Proof.
  induction ps as [|p ps IH]; intros s t H; cbn in H; [contradiction|].
  destruct (poll c g s p) as [s1 r] eqn:E.
  assert (H0 : t = (s, p, s1, r) -> poll c g (st_pre t) (st_pin t) = (st_post t, st_res t) /\ In (st_pin t) (p :: ps)).
  { intros ->. cbn. split; auto. }
  destruct r; cbn in H; try (destruct H as [H|[]]; auto; fail).
  destruct H as [H|H]; auto. destruct (IH _ _ H). split; auto. right. assumption.
Qed.

(** induction principle: a property of the start state that every RUNNING poll
    preserves holds of the pre-state of every executed poll *)
Lemma run_steps_pre (P : st -> Prop) c g :
  (forall s p s1, P s -> poll c g s p = (s1, SRUNNING) -> P s1) ->
  forall ps s t, P s -> In t (run_steps c g s ps) -> P (st_pre t).
Proof.
  intros Hstep. induction ps as [|p ps IH]; intros s t Hs H; cbn in H; [contradiction|].
  destruct (poll c g s p) as [s1 r] eqn:E.
  destruct r; cbn in H; try (destruct H as [<-|[]]; exact Hs).
  destruct H as [<-|H]; [exact Hs|]. eapply IH; [|exact H]. eapply Hstep; eauto.
Qed.

(** same, with a side condition on the pins (e.g. "no cancel request") *)
Lemma run_steps_pre_pins (P : st -> Prop) (K : pin -> Prop) c g :
  (forall s p s1, P s -> K p -> poll c g s p = (s1, SRUNNING) -> P s1) ->
  forall ps s t, Forall K ps -> P s -> In t (run_steps c g s ps) -> P (st_pre t).
Proof.
  intros Hstep. induction ps as [|p ps IH]; intros s t HK Hs H; cbn in H; [contradiction|].
  inversion HK; subst.
  destruct (poll c g s p) as [s1 r] eqn:E.
  destruct r; cbn in H; try (destruct H as [<-|[]]; exact Hs).
  destruct H as [<-|H]; [exact Hs|]. eapply IH; [assumption| |exact H]. eapply Hstep; eauto.
Qed.

(** only the last executed poll can have a status other than RUNNING *)
Lemma run_steps_running c g ps : forall s pre t post, run_steps c g s ps = pre ++ t :: post ->
  post <> [] -> st_res t = SRUNNING.
Proof.
  induction ps as [|p ps IH]; intros s pre t post H Hp; cbn in H.
  - destruct pre; discriminate.
  - destruct (poll c g s p) as [s1 r] eqn:E.
    destruct r; cbn in H;
      try (destruct pre as [|a pre]; cbn in H; inversion H; subst;
           [exfalso; apply Hp; reflexivity | destruct pre; discriminate]).
    destruct pre as [|a pre]; cbn in H; inversion H; subst; [reflexivity|].
    eapply IH; eauto.
Qed.

(** * Part 2: QERROR and QNOJOBS *)

(** the adapter calls of a poll whose query fails *)
Definition fault_events (s : st) (p : pin) : list event :=
  (if cancel_req p then [ECancel (map (lastjob s) (inprog s))] else []) ++ [ECheck (map (lastjob s) (inprog s))].

(** QERROR: the poll IS the pre-state with this poll's scripted outcomes loaded,
    the cancel flag of a simultaneous cancel request, and the two adapter calls *)
Lemma poll_error c g s p : dry c = false -> qcode p = QERROR ->
  poll c g s p =
  (set_evs (set_subs (if cancel_req p then set_canceled s true else s) (psubs p)) (rev (fault_events s p)), SABORT).
Proof.
  intros Hd Hq. unfold poll, execute_ready_steps_gen, cancel_study_gen, fault_events.
  rewrite Hd, Hq. destruct (cancel_req p); reflexivity.
Qed.

Definition is_submit_or_gen (e : event) : bool :=
  match e with ESubmit _ _ _ _ | EGen _ => true | _ => false end.

Lemma poll_error_fields c g s p : dry c = false -> qcode p = QERROR ->
  let s' := fst (poll c g s p) in
  snd (poll c g s p) = SABORT /\
  recs s' = recs s /\ completed s' = completed s /\ inprog s' = inprog s /\ failed s' = failed s /\
  cancelled s' = cancelled s /\ ready s' = ready s /\ deps s' = deps s /\ next_job s' = next_job s /\
  canceled s' = (cancel_req p || canceled s) /\
  rev (evs s') = fault_events s p /\
  forallb (fun e => negb (is_submit_or_gen e)) (evs s') = true.
Proof.
  intros Hd Hq. rewrite (poll_error c g s p Hd Hq). cbn [fst snd].
  unfold fault_events. destruct (cancel_req p); cbn; repeat split; reflexivity.
Qed.

(** the converse: only a failed query of a real run aborts *)
Lemma completion_not_abort g s : completion_gen g s <> SABORT.
Proof.
  unfold completion_gen.
  destruct (canceled s && is_nil (inprog s)); [discriminate|].
  destruct (subset _ _); [|discriminate].
  destruct (negb (is_nil (cancelled s))); [discriminate|].
  destruct (negb (is_nil (failed s))); discriminate.
Qed.

Lemma poll_abort_iff c g s p :
  snd (poll c g s p) = SABORT <-> (dry c = false /\ qcode p = QERROR).
Proof.
  split.
  - unfold poll, execute_ready_steps_gen. destruct (dry c); cbn [negb qcode_eqb].
    + intros H. exfalso. eapply completion_not_abort. exact H.
    + destruct (qcode p); cbn [qcode_eqb]; intros H; auto; exfalso; eapply completion_not_abort; exact H.
  - intros [Hd Hq]. rewrite poll_error; auto.
Qed.

(** QNOJOBS: the reports are not looked at *)
Definition with_reports (p : pin) (r : list (nat * option State)) : pin :=
  {| cancel_req := cancel_req p; qcode := qcode p; reports := r; psubs := psubs p |}.
Definition with_query (p : pin) (q : QCode) (r : list (nat * option State)) : pin :=
  {| cancel_req := cancel_req p; qcode := q; reports := r; psubs := psubs p |}.

Lemma dispatch_nil c g s : dispatch_gen c g [] s = s.
Proof. reflexivity. Qed.

Lemma poll_nojobs c g s p : qcode p = QNOJOBS -> poll c g s p = poll c g s (with_reports p []).
Proof.
  intros Hq. unfold poll, execute_ready_steps_gen, with_reports. cbn [cancel_req qcode reports psubs].
  rewrite Hq. destruct (dry c); reflexivity.
Qed.

(** ... and the poll is the one an OK query with an empty answer would give *)
Lemma poll_nojobs_ok c g s p : qcode p = QNOJOBS -> poll c g s p = poll c g s (with_query p QOK []).
Proof.
  intros Hq. unfold poll, execute_ready_steps_gen, with_query. cbn [cancel_req qcode reports psubs].
  rewrite Hq. destruct (dry c); reflexivity.
Qed.

(** the part of a poll after the query: staging, launching, completion check *)
Definition stage_launch (c : cfg) (g : graph) (s : st) : st * SStatus :=
  let s := fold_left (stage_node_gen g) (seq 0 (length g)) s in
  let s := Nat.iter (available_gen c s) (launch_body_gen c g) s in
  (s, completion_gen g s).

(** the state at the time of the query *)
Definition at_query (c : cfg) (s : st) (p : pin) : st :=
  let s := set_evs (set_subs s (psubs p)) [] in
  let s := if cancel_req p then cancel_study_gen s else s in
  if negb (dry c) then emit (ECheck (map (lastjob s) (inprog s))) s else s.

(** reports that reach the dispatch *)
Definition delivered (c : cfg) (p : pin) : list (nat * option State) :=
  if dry c then [] else match qcode p with QOK => reports p | _ => [] end.

Lemma poll_phases c g s p : (dry c = false -> qcode p <> QERROR) ->
  poll c g s p = stage_launch c g (dispatch_gen c g (delivered c p) (at_query c s p)).
Proof.
  intros H. unfold poll, execute_ready_steps_gen, stage_launch, at_query, delivered.
  destruct (dry c); cbn [negb qcode_eqb].
  - reflexivity.
  - destruct (qcode p); cbn [qcode_eqb]; try reflexivity. exfalso. apply H; reflexivity.
Qed.

Lemma at_query_fields c s p :
  let s' := at_query c s p in
  recs s' = recs s /\ completed s' = completed s /\ inprog s' = inprog s /\ failed s' = failed s /\
  cancelled s' = cancelled s /\ ready s' = ready s /\ deps s' = deps s /\ next_job s' = next_job s /\
  canceled s' = (cancel_req p || canceled s) /\ subs s' = psubs p.
Proof.
  unfold at_query, cancel_study_gen. destruct (cancel_req p), (dry c); cbn; repeat split; reflexivity.
Qed.

Lemma poll_nojobs_explicit c g s p : qcode p = QNOJOBS ->
  poll c g s p = stage_launch c g (at_query c s p).
Proof.
  intros Hq. rewrite poll_phases by (rewrite Hq; discriminate).
  unfold delivered. rewrite Hq. destruct (dry c); reflexivity.
Qed.

(** * Part 3: erasure of quiet reports *)
Definition quiet (o : option State) : bool :=
  match o with None => true | Some v => negb (terminal v) && negb (state_eqb v RUNNING) end.

Lemma handle_quiet c g acc x o : quiet o = true -> handle_report_gen c g acc (x, o) = acc.
Proof.
  intros H. destruct acc as [[s cl] ca]. destruct o as [v|]; [destruct v|]; try discriminate; reflexivity.
Qed.

Lemma fold_erase c g (keep : nat * option State -> bool) reps :
  (forall r, In r reps -> keep r = false -> quiet (snd r) = true) ->
  forall acc, fold_left (handle_report_gen c g) reps acc = fold_left (handle_report_gen c g) (filter keep reps) acc.
Proof.
  induction reps as [|r reps IH]; intros H acc; cbn; auto.
  destruct (keep r) eqn:E; cbn.
  - apply IH. intros r' Hr. apply H. right. exact Hr.
  - destruct r as [x o]. rewrite handle_quiet by (apply (H (x, o)); [left; reflexivity | exact E]).
    apply IH. intros r' Hr. apply H. right. exact Hr.
Qed.

Lemma dispatch_erase c g keep reps s :
  (forall r, In r reps -> keep r = false -> quiet (snd r) = true) ->
  dispatch_gen c g reps s = dispatch_gen c g (filter keep reps) s.
Proof. intros H. unfold dispatch_gen. rewrite (fold_erase c g keep reps H). reflexivity. Qed.

Lemma poll_erase c g keep s p :
  (forall r, In r (reports p) -> keep r = false -> quiet (snd r) = true) ->
  poll c g s p = poll c g s (with_reports p (filter keep (reports p))).
Proof.
  intros H. unfold poll, execute_ready_steps_gen, with_reports. cbn [cancel_req qcode reports psubs].
  destruct (dry c); cbn [negb]; [reflexivity|].
  destruct (qcode p); cbn [qcode_eqb]; try reflexivity.
  rewrite (dispatch_erase c g keep (reports p)) by exact H. reflexivity.
Qed.

Definition loud (r : nat * option State) : bool := negb (quiet (snd r)).

Lemma poll_erase_all_quiet c g s p :
  poll c g s p = poll c g s (with_reports p (filter loud (reports p))).
Proof.
  apply poll_erase. intros r _ H. unfold loud in H. apply negb_false_iff in H. exact H.
Qed.

(** * Part 4: frame -- what a poll does not touch *)
Lemma state_eqb_eq a b : state_eqb a b = true -> a = b.
Proof. destruct a, b; cbn; intros H; try discriminate; reflexivity. Qed.
Lemma state_eqb_refl a : state_eqb a a = true.
Proof. destruct a; reflexivity. Qed.

Lemma In_set_union z l acc : In z (set_union l acc) <-> In z l \/ In z acc.
Proof.
  unfold set_union. revert acc. induction l as [|a l IH]; intros acc; cbn; [tauto|].
  rewrite IH, In_sadd. intuition.
Qed.

Lemma bfs_subtree_outside g a : length g <= a -> bfs_subtree g a = [a].
Proof.
  intros H. unfold bfs_subtree. cbn [bfs_go]. unfold attr. rewrite nth_overflow by exact H. cbn.
  destruct (length g); reflexivity.
Qed.

Section Frame.
  Variable g : graph.
  Variable x : nat.
  (** [lax = false]: the record of [x] is untouched; [lax = true]: its job ids and restart
      count are untouched and its status is the old one or RUNNING (a RUNNING report) *)
  Variable lax : bool.

  Definition recrel (r r' : rec) : Prop :=
    if lax then jobs r' = jobs r /\ restarts r' = restarts r /\ (status r' = status r \/ status r' = RUNNING)
    else r' = r.
  Lemma recrel_refl r : recrel r r.
  Proof. unfold recrel. destruct lax; auto. Qed.
  Lemma recrel_eq r r' : r' = r -> recrel r r'.
  Proof. intros ->. apply recrel_refl. Qed.
  Lemma recrel_trans a b d : recrel a b -> recrel b d -> recrel a d.
  Proof.
    unfold recrel. destruct lax; [|congruence].
    intros (A1 & A2 & A3) (B1 & B2 & B3). splits; try congruence.
    destruct B3 as [B3|B3]; [rewrite B3; exact A3 | right; exact B3].
  Qed.
  Lemma recrel_status a b : recrel a b -> status a <> INITIALIZED -> status b <> INITIALIZED.
  Proof.
    unfold recrel. destruct lax; [|congruence]. intros (_ & _ & [A|A]) H; rewrite A; [exact H|discriminate].
  Qed.

  (** [y] may be executed / swept without touching [x] *)
  Definition away (y : nat) : Prop := y <> x /\ ~ In x (bfs_subtree g y).

  (** [s'] agrees with [s] on everything that concerns [x]; completed steps stay
      completed; whatever was queued is away from [x] *)
  Record ok_step (s s' : st) : Prop := {
    os_rec : recrel (getrec s x) (getrec s' x);
    os_comp : In x (completed s') <-> In x (completed s);
    os_inp : In x (inprog s') <-> In x (inprog s);
    os_fail : In x (failed s') <-> In x (failed s);
    os_canc : In x (cancelled s') <-> In x (cancelled s);
    os_ready : In x (ready s') <-> In x (ready s);
    os_mono : incl (completed s) (completed s');
    os_new : forall z, In z (ready s') -> In z (ready s) \/ away z }.

  Lemma ok_step_refl s : ok_step s s.
  Proof. constructor; try tauto; auto using incl_refl, recrel_refl. Qed.

  Lemma ok_step_trans a b d : ok_step a b -> ok_step b d -> ok_step a d.
  Proof.
    intros [A1 A2 A3 A4 A5 A6 A7 A8] [B1 B2 B3 B4 B5 B6 B7 B8]. constructor; try tauto.
    - eapply recrel_trans; eauto.
    - eapply incl_tran; eauto.
    - intros z Hz. destruct (B8 z Hz); auto.
  Qed.

  (** elementary combinators *)
  Lemma os_recs_only s s' : getrec s' x = getrec s x ->
    completed s' = completed s -> inprog s' = inprog s -> failed s' = failed s -> cancelled s' = cancelled s ->
    ready s' = ready s -> ok_step s s'.
  Proof.
    intros E0 E1 E2 E3 E4 E5. constructor; rewrite ?E1, ?E2, ?E3, ?E4, ?E5; try tauto; auto using incl_refl, recrel_eq.
  Qed.

  Lemma os_set_status y v s : y <> x -> ok_step s (rec_set_status y v s).
  Proof. intros H. apply os_recs_only; try reflexivity. apply getrec_set_status_neq; exact H. Qed.
  Lemma os_inc_restarts y s : y <> x -> ok_step s (rec_inc_restarts y s).
  Proof.
    intros H. apply os_recs_only; try reflexivity. unfold getrec, rec_inc_restarts. cbn. apply nth_upd_neq; exact H.
  Qed.
  Lemma os_push_job y j s : y <> x -> ok_step s (rec_push_job y j s).
  Proof.
    intros H. apply os_recs_only; try reflexivity. unfold getrec, rec_push_job. cbn. apply nth_upd_neq; exact H.
  Qed.
  Lemma os_emit e s : ok_step s (emit e s).
  Proof. apply os_recs_only; reflexivity. Qed.
  Lemma os_set_next_job v s : ok_step s (set_next_job s v).
  Proof. apply os_recs_only; reflexivity. Qed.
  Lemma os_set_subs v s : ok_step s (set_subs s v).
  Proof. apply os_recs_only; reflexivity. Qed.
  Lemma os_deps_prune y s : ok_step s (deps_prune y s).
  Proof. apply os_recs_only; reflexivity. Qed.
  Lemma os_next_sub s : ok_step s (snd (next_sub s)).
  Proof. unfold next_sub. destruct (subs s); cbn; [apply ok_step_refl | apply os_set_subs]. Qed.

  Lemma os_completed_add y s : y <> x -> ok_step s (completed_add y s).
  Proof.
    intros H. constructor; unfold completed_add; sp; try apply recrel_refl; try tauto.
    - setsimp. intuition congruence.
    - intros z Hz. setsimp. auto.
  Qed.
  Lemma os_inprog_add y s : y <> x -> ok_step s (inprog_add y s).
  Proof.
    intros H. constructor; unfold inprog_add; sp; try apply recrel_refl; try tauto; auto using incl_refl.
    setsimp. intuition congruence.
  Qed.
  Lemma os_inprog_remove y s : y <> x -> ok_step s (inprog_remove y s).
  Proof.
    intros H. constructor; unfold inprog_remove; sp; try apply recrel_refl; try tauto; auto using incl_refl.
    setsimp. intuition congruence.
  Qed.
  Lemma os_failed_add y s : y <> x -> ok_step s (failed_add y s).
  Proof.
    intros H. constructor; unfold failed_add; sp; try apply recrel_refl; try tauto; auto using incl_refl.
    setsimp. intuition congruence.
  Qed.
  Lemma os_cancelled_add y s : y <> x -> ok_step s (cancelled_add y s).
  Proof.
    intros H. constructor; unfold cancelled_add; sp; try apply recrel_refl; try tauto; auto using incl_refl.
    setsimp. intuition congruence.
  Qed.
  Lemma os_ready_push y s : away y -> ok_step s (ready_push y s).
  Proof.
    intros H. pose proof H as [H1 H2]. constructor; unfold ready_push; sp; try apply recrel_refl; try tauto; auto using incl_refl.
    - setsimp. intuition congruence.
    - intros z Hz. setsimp. destruct Hz as [Hz|[->|[]]]; auto.
  Qed.
  Lemma os_pop y rest s : ready s = y :: rest -> y <> x -> ok_step s (set_ready s rest).
  Proof.
    intros E H. constructor; sp; try apply recrel_refl; try tauto; auto using incl_refl; rewrite E; cbn.
    - intuition.
    - auto.
  Qed.

  Ltac oks :=
    repeat first
      [ apply ok_step_refl
      | eapply ok_step_trans; [|apply os_set_status; solve [auto]]
      | eapply ok_step_trans; [|apply os_inc_restarts; solve [auto]]
      | eapply ok_step_trans; [|apply os_push_job; solve [auto]]
      | eapply ok_step_trans; [|apply os_emit]
      | eapply ok_step_trans; [|apply os_set_next_job]
      | eapply ok_step_trans; [|apply os_set_subs]
      | eapply ok_step_trans; [|apply os_deps_prune]
      | eapply ok_step_trans; [|apply os_completed_add; solve [auto]]
      | eapply ok_step_trans; [|apply os_inprog_add; solve [auto]]
      | eapply ok_step_trans; [|apply os_inprog_remove; solve [auto]]
      | eapply ok_step_trans; [|apply os_failed_add; solve [auto]]
      | eapply ok_step_trans; [|apply os_cancelled_add; solve [auto]]
      | eapply ok_step_trans; [|apply os_ready_push; solve [auto]] ].

  (** the two sweep loops, away from [x] *)
  Lemma os_mark_failed_list l : ~ In x l -> forall s, ok_step s (mark_failed_list l s).
  Proof.
    unfold mark_failed_list. induction l as [|a l IH]; intros H s; cbn [fold_left]; [apply ok_step_refl|].
    assert (a <> x) by (intros ->; apply H; left; reflexivity).
    eapply ok_step_trans; [|apply IH; intros Hc; apply H; right; exact Hc]. oks.
  Qed.
  Lemma os_mark_cancelled_list l : ~ In x l -> forall s, ok_step s (mark_cancelled_list l s).
  Proof.
    unfold mark_cancelled_list. induction l as [|a l IH]; intros H s; cbn [fold_left]; [apply ok_step_refl|].
    assert (a <> x) by (intros ->; apply H; left; reflexivity).
    eapply ok_step_trans; [|apply IH; intros Hc; apply H; right; exact Hc]. oks.
  Qed.

  (** the submission loop of another step *)
  Lemma submit_attempts_S y restart n s :
    submit_attempts g y restart (S n) s =
    let s1 := if restart then emit (EGen y) s else rec_set_status y PENDING s in
    let s2 := if scheduled (attr g y) then s1 else rec_set_status y RUNNING s1 in
    let b := fst (next_sub s2) in
    let s3 := snd (next_sub s2) in
    let k := if restart then Restart else Main in
    if b then
      (true, emit (ESubmit y k (scheduled (attr g y)) (Some (next_job s3)))
                  (rec_push_job y (next_job s3) (set_next_job s3 (S (next_job s3)))))
    else submit_attempts g y restart n (emit (ESubmit y k (scheduled (attr g y)) None) s3).
  Proof.
    cbv zeta. unfold submit_attempts; fold submit_attempts. destruct (next_sub _). reflexivity.
  Qed.

  Lemma os_submit_attempts y restart n : y <> x -> forall s, ok_step s (snd (submit_attempts g y restart n s)).
  Proof.
    intros H. induction n as [|n IH]; intros s.
    - apply ok_step_refl.
    - rewrite submit_attempts_S. cbv zeta.
      set (s1 := if restart then emit (EGen y) s else rec_set_status y PENDING s).
      set (s2 := if scheduled (attr g y) then s1 else rec_set_status y RUNNING s1).
      assert (A1 : ok_step s s1) by (subst s1; destruct restart; oks).
      assert (A2 : ok_step s1 s2) by (subst s2; destruct (scheduled (attr g y)); oks).
      assert (A3 : ok_step s2 (snd (next_sub s2))) by apply os_next_sub.
      assert (A : ok_step s (snd (next_sub s2))) by (eapply ok_step_trans; [eapply ok_step_trans|]; eassumption).
      destruct (fst (next_sub s2)); cbn [snd].
      + eapply ok_step_trans; [exact A|]. oks.
      + eapply ok_step_trans; [|apply IH]. eapply ok_step_trans; [exact A|]. oks.
  Qed.

  Lemma os_execute_record c y restart s : away y -> ok_step s (execute_record_gen c g y restart s).
  Proof.
    intros [H1 H2]. unfold execute_record_gen.
    set (s0 := if negb restart then emit (EGen y) s else s).
    assert (A0 : ok_step s s0) by (subst s0; destruct (negb restart); oks).
    destruct (dry c).
    - eapply ok_step_trans; [exact A0|]. oks.
    - pose proof (os_submit_attempts y restart (attempts c) H1 s0) as A1.
      destruct (submit_attempts g y restart (attempts c) s0) as [ok s1]. cbn [snd] in A1.
      assert (A : ok_step s s1) by (eapply ok_step_trans; eassumption).
      destruct ok.
      + destruct (negb (scheduled (attr g y))); (eapply ok_step_trans; [exact A|]); oks.
      + eapply ok_step_trans; [|apply os_mark_failed_list; exact H2].
        eapply ok_step_trans; [exact A|]. oks.
  Qed.

  (** one report: quiet if it is [x]'s own, else about a step away from [x] *)
  Definition rep_ok (r : nat * option State) : Prop :=
    (fst r = x -> quiet (snd r) = true \/ (lax = true /\ snd r = Some RUNNING)) /\
    (fst r <> x -> ~ In x (bfs_subtree g (fst r))).

  Lemma os_set_running s : lax = true -> ok_step s (rec_set_status x RUNNING s).
  Proof.
    intros L. constructor; try (cbn; tauto); auto using incl_refl.
    unfold recrel. rewrite L. splits.
    - apply jobs_set_status.
    - apply restarts_set_status.
    - apply status_set_status.
  Qed.

  Lemma os_handle_report c s cl ca r : rep_ok r -> ~ In x cl -> ~ In x ca ->
    let '(s', cl', ca') := handle_report_gen c g (s, cl, ca) r in
    ok_step s s' /\ ~ In x cl' /\ ~ In x ca'.
  Proof.
    intros [R1 R2] Hcl Hca. destruct r as [y o]. cbn [fst snd] in *.
    destruct (Nat.eq_dec y x) as [->|Hn].
    { destruct (R1 eq_refl) as [Q|[L ->]].
      - rewrite handle_quiet by auto. split; [apply ok_step_refl|auto].
      - cbn. split; [apply os_set_running; exact L|auto]. }
    specialize (R2 Hn).
    assert (Hu : forall l, ~ In x l -> ~ In x (set_union (bfs_subtree g y) l)).
    { intros l Hl. rewrite In_set_union. tauto. }
    assert (Hw : away y) by (split; assumption).
    destruct o as [v|]; [destruct v|]; cbn [handle_report_gen oeqb state_eqb];
      try (split; [apply ok_step_refl|auto]; fail);
      try (split; [oks|auto]; fail).
    - (* TIMEDOUT *)
      destruct (has_restart (attr g y) && negb (canceled s)).
      + unfold mark_restart_gen.
        destruct ((rlimit (attr g y) =? 0) || (restarts (getrec (rec_set_status y TIMEDOUT s) y) <? rlimit (attr g y))).
        * split; [|auto]. eapply ok_step_trans; [|apply os_execute_record; exact Hw]. oks.
        * split; [oks|auto].
      + split; [oks|]. split; auto. rewrite In_srem. intros [_ Hc]. revert Hc. apply Hu. exact Hcl.
  Qed.

  Lemma os_fold_reports c reps : Forall rep_ok reps -> forall s cl ca, ~ In x cl -> ~ In x ca ->
    let '(s', cl', ca') := fold_left (handle_report_gen c g) reps (s, cl, ca) in
    ok_step s s' /\ ~ In x cl' /\ ~ In x ca'.
  Proof.
    induction 1 as [|r reps Hr Hreps IH]; intros s cl ca Hcl Hca; cbn [fold_left].
    - split; [apply ok_step_refl|auto].
    - pose proof (os_handle_report c s cl ca r Hr Hcl Hca) as A.
      destruct (handle_report_gen c g (s, cl, ca) r) as [[s1 cl1] ca1]. destruct A as (A1 & A2 & A3).
      specialize (IH s1 cl1 ca1 A2 A3).
      destruct (fold_left (handle_report_gen c g) reps (s1, cl1, ca1)) as [[s2 cl2] ca2].
      destruct IH as (B1 & B2 & B3). split; [eapply ok_step_trans; eassumption|auto].
  Qed.

  Lemma os_dispatch c reps s : Forall rep_ok reps -> ok_step s (dispatch_gen c g reps s).
  Proof.
    intros H. unfold dispatch_gen.
    pose proof (os_fold_reports c reps H s [] [] (fun f => f) (fun f => f)) as A.
    destruct (fold_left (handle_report_gen c g) reps (s, [], [])) as [[s1 cl] ca]. destruct A as (A1 & A2 & A3).
    eapply ok_step_trans; [exact A1|].
    eapply ok_step_trans; [apply os_mark_failed_list; exact A2 | apply os_mark_cancelled_list; exact A3].
  Qed.

  (** what staging and launching need to know about the state *)
  Record guard (s : st) : Prop := {
    g_st : status (getrec s x) <> INITIALIZED;
    g_anc : forall a, a <> x -> In x (bfs_subtree g a) -> In a (completed s);
    g_ready : forall y, In y (ready s) -> away y }.

  Lemma guard_step s s' : guard s -> ok_step s s' -> guard s'.
  Proof.
    intros [A B C] O. constructor.
    - eapply recrel_status; [apply (os_rec _ _ O)|exact A].
    - intros a Ha Hx. apply (os_mono _ _ O). auto.
    - intros y Hy. destruct (os_new _ _ O y Hy); auto.
  Qed.

  Lemma os_stage_node s y : guard s -> ok_step s (stage_node_gen g s y).
  Proof.
    intros G. unfold stage_node_gen.
    destruct (mem y (completed s)) eqn:Ec; [apply ok_step_refl|].
    destruct (state_eqb (status (getrec s y)) INITIALIZED) eqn:Es; [|apply ok_step_refl].
    apply state_eqb_eq in Es.
    assert (Hn : y <> x) by (intros ->; exact (g_st s G Es)).
    assert (Hw : away y).
    { split; auto. intros Hx. apply mem_false in Ec. apply Ec. apply (g_anc s G); auto. }
    destruct (is_nil (getdeps (deps_prune y s) y)); [|oks].
    destruct (negb (mem y (ready (deps_prune y s)))); oks.
  Qed.

  Lemma os_stage_fold l : forall s, guard s -> ok_step s (fold_left (stage_node_gen g) l s).
  Proof.
    induction l as [|y l IH]; intros s G; cbn [fold_left]; [apply ok_step_refl|].
    pose proof (os_stage_node s y G) as A. eapply ok_step_trans; [exact A|].
    apply IH. eapply guard_step; eauto.
  Qed.

  Lemma os_launch_body c s : guard s -> ok_step s (launch_body_gen c g s).
  Proof.
    intros G. unfold launch_body_gen. destruct (ready s) as [|y rest] eqn:E; [apply ok_step_refl|].
    assert (Hw : away y) by (apply (g_ready s G); rewrite E; left; reflexivity).
    pose proof Hw as [Hn _].
    pose proof (os_pop y rest s E Hn) as A.
    destruct (canceled (set_ready s rest)).
    - eapply ok_step_trans; [exact A|]. oks.
    - eapply ok_step_trans; [exact A|]. apply os_execute_record. exact Hw.
  Qed.

  Lemma os_launch_iter c n : forall s, guard s -> ok_step s (Nat.iter n (launch_body_gen c g) s).
  Proof.
    induction n as [|n IH]; intros s G; cbn [Nat.iter nat_rect]; [apply ok_step_refl|].
    specialize (IH s G). eapply ok_step_trans; [exact IH|].
    apply os_launch_body. eapply guard_step; eauto.
  Qed.

  Lemma os_stage_launch c s : guard s -> ok_step s (fst (stage_launch c g s)).
  Proof.
    intros G. unfold stage_launch. cbn [fst].
    pose proof (os_stage_fold (seq 0 (length g)) s G) as A.
    eapply ok_step_trans; [exact A|]. apply os_launch_iter. eapply guard_step; eauto.
  Qed.

  Lemma os_at_query c s p : ok_step s (at_query c s p).
  Proof.
    unfold at_query, cancel_study_gen.
    destruct (cancel_req p), (negb (dry c)); apply os_recs_only; reflexivity.
  Qed.

  (** the whole poll *)
  Lemma os_poll c s p : guard s -> Forall rep_ok (delivered c p) -> ok_step s (fst (poll c g s p)).
  Proof.
    intros G R.
    destruct (dry c) eqn:Hd; [|destruct (qcode_eqb (qcode p) QERROR) eqn:Hq].
    - rewrite poll_phases by congruence.
      pose proof (os_at_query c s p) as A. pose proof (os_dispatch c _ (at_query c s p) R) as B.
      eapply ok_step_trans; [exact A|]. eapply ok_step_trans; [exact B|].
      apply os_stage_launch. eapply guard_step; [|exact B]. eapply guard_step; eauto.
    - assert (qcode p = QERROR) by (destruct (qcode p); try discriminate; reflexivity).
      rewrite poll_error by assumption. cbn [fst]. destruct (cancel_req p); apply os_recs_only; reflexivity.
    - rewrite poll_phases by (intros _ E; rewrite E in Hq; discriminate).
      pose proof (os_at_query c s p) as A. pose proof (os_dispatch c _ (at_query c s p) R) as B.
      eapply ok_step_trans; [exact A|]. eapply ok_step_trans; [exact B|].
      apply os_stage_launch. eapply guard_step; [|exact B]. eapply guard_step; eauto.
  Qed.
End Frame.

(** the invariant supplies the guard for every tracked step *)
Lemma Inv_guard g s x : WF g -> Inv g s -> In x (inprog s) -> guard g x s.
Proof.
  intros W I Hx.
  assert (Hanc : forall a, a <> x -> In x (bfs_subtree g a) -> In a (completed s)).
  { intros a Ha Hin. destruct (Nat.lt_ge_cases a (length g)) as [Hl|Hl].
    - eapply anc_completed; eauto. apply bfs_subtree_sound; auto.
    - rewrite bfs_subtree_outside in Hin by exact Hl. destruct Hin as [->|[]]. congruence. }
  constructor.
  - apply (i_init g s I). auto.
  - exact Hanc.
  - intros y Hy. split.
    + intros ->. exact (i_dj_ir g s I x Hx Hy).
    + intros Hin. destruct (Nat.eq_dec y x) as [->|Hn]; [exact (i_dj_ir g s I x Hx Hy)|].
      exact (i_dj_cr g s I y (Hanc y Hn Hin) Hy).
Qed.

Lemma Inv_rep_ok g s x lax reps : WF g -> Inv g s -> In x (inprog s) ->
  (forall r, In r reps -> In (fst r) (inprog s)) ->
  (forall o, In (x, o) reps -> quiet o = true \/ (lax = true /\ o = Some RUNNING)) ->
  Forall (rep_ok g x lax) reps.
Proof.
  intros W I Hx Hv Hq. apply Forall_forall. intros [y o] Hr. split; cbn [fst snd].
  - intros ->. apply Hq. exact Hr.
  - intros Hn Hin. specialize (Hv _ Hr). cbn in Hv.
    assert (In y (completed s)).
    { destruct (Nat.lt_ge_cases y (length g)) as [Hl|Hl].
      - eapply anc_completed; eauto. apply bfs_subtree_sound; auto.
      - rewrite bfs_subtree_outside in Hin by exact Hl. destruct Hin as [->|[]]. congruence. }
    exact (i_dj_ci g s I y H Hv).
Qed.

(** [valid_reports]: the adapters key their answer by the queried job ids *)
Definition valid_reports (s : st) (p : pin) : Prop := forall r, In r (reports p) -> In (fst r) (inprog s).

Lemma delivered_incl c p r : In r (delivered c p) -> In r (reports p).
Proof. unfold delivered. destruct (dry c); [intros []|]. destruct (qcode p); auto; intros []. Qed.

Lemma poll_ok_step c g s p x lax : WF g -> Inv g s -> valid_reports s p -> In x (inprog s) ->
  (forall o, In (x, o) (delivered c p) -> quiet o = true \/ (lax = true /\ o = Some RUNNING)) ->
  ok_step g x lax s (fst (poll c g s p)).
Proof.
  intros W I V Hx Hq. apply os_poll; [apply Inv_guard; auto|].
  eapply Inv_rep_ok; eauto. intros r Hr. apply V. eapply delivered_incl; eauto.
Qed.

Lemma ok_step_sets g x lax s s' : Inv g s -> In x (inprog s) -> ok_step g x lax s s' ->
  In x (inprog s') /\ ~ In x (completed s') /\ ~ In x (failed s') /\ ~ In x (cancelled s') /\ ~ In x (ready s').
Proof.
  intros I Hx [_ O2 O3 O4 O5 O6 _ _]. rewrite O2, O3, O4, O5, O6. splits; auto.
  - intros H. exact (i_dj_ci g s I x H Hx).
  - intros H. destruct (i_dj_fc g s I x (or_introl H)) as (_ & A & _). auto.
  - intros H. destruct (i_dj_fc g s I x (or_intror H)) as (_ & A & _). auto.
  - exact (i_dj_ir g s I x Hx).
Qed.

Theorem poll_frame c g s p x : WF g -> Inv g s -> valid_reports s p -> In x (inprog s) ->
  (forall o, In (x, o) (delivered c p) -> quiet o = true) ->
  let s' := fst (poll c g s p) in
  getrec s' x = getrec s x /\ In x (inprog s') /\
  ~ In x (completed s') /\ ~ In x (failed s') /\ ~ In x (cancelled s') /\ ~ In x (ready s').
Proof.
  intros W I V Hx Hq.
  assert (O : ok_step g x false s (fst (poll c g s p))) by (apply poll_ok_step; auto).
  cbv zeta. split; [exact (os_rec _ _ _ _ _ O) | eapply ok_step_sets; eauto].
Qed.

(** RUNNING reports: the tracked step x whose delivered entries are quiet or RUNNING, at least
    one of them RUNNING, ends the poll with status RUNNING, the same job ids and restart
    count, still tracked and in none of the resolved sets *)
Lemma fold_reports_running c g x reps : Forall (rep_ok g x true) reps -> forall s cl ca,
  x < length (recs s) -> ~ In x cl -> ~ In x ca ->
  status (getrec s x) = RUNNING \/ In (x, Some RUNNING) reps ->
  status (getrec (fst (fst (fold_left (handle_report_gen c g) reps (s, cl, ca)))) x) = RUNNING.
Proof.
  induction 1 as [|r reps Hr Hreps IH]; intros s cl ca Hl Hcl Hca H; cbn [fold_left].
  - destruct H as [H|[]]. exact H.
  - pose proof (os_handle_report g x true c s cl ca r Hr Hcl Hca) as A.
    destruct (handle_report_gen c g (s, cl, ca) r) as [[s1 cl1] ca1] eqn:E. destruct A as (A1 & A2 & A3).
    assert (L1 : length (recs s1) = length (recs s)).
    { pose proof (os_rec _ _ _ _ _ A1) as R. clear - E. revert E. destruct r as [y o].
      (* every branch of the dispatch keeps the number of records *)
      assert (Lmfl : forall l t, length (recs (mark_failed_list l t)) = length (recs t)).
      { unfold mark_failed_list. induction l as [|a l IHl]; intros t; cbn [fold_left]; [reflexivity|].
        rewrite IHl. cbn. apply length_upd. }
      assert (Lsa : forall n r t, length (recs (snd (submit_attempts g y r n t))) = length (recs t)).
      { induction n as [|n IHn]; intros r t; [reflexivity|]. rewrite submit_attempts_S. cbv zeta.
        set (t2 := if scheduled (attr g y) then _ else _).
        assert (E2 : length (recs t2) = length (recs t)).
        { subst t2. destruct r, (scheduled (attr g y)); cbn; rewrite ?length_upd; reflexivity. }
        assert (E3 : length (recs (snd (next_sub t2))) = length (recs t2)) by (unfold next_sub; destruct (subs t2); reflexivity).
        destruct (fst (next_sub t2)); cbn [snd].
        - cbn. rewrite length_upd. congruence.
        - rewrite IHn. cbn. congruence. }
      assert (Ler : forall r t, length (recs (execute_record_gen c g y r t)) = length (recs t)).
      { intros r t. unfold execute_record_gen.
        set (t0 := if negb r then emit (EGen y) t else t).
        assert (E0 : length (recs t0) = length (recs t)) by (subst t0; destruct (negb r); reflexivity).
        destruct (dry c); [cbn; rewrite length_upd; exact E0|].
        pose proof (Lsa (attempts c) r t0) as E1.
        destruct (submit_attempts g y r (attempts c) t0) as [ok t1]. cbn [snd] in E1.
        destruct ok.
        - destruct (negb (scheduled (attr g y))); cbn; rewrite ?length_upd; congruence.
        - rewrite Lmfl. cbn. congruence. }
      destruct o as [v|]; [destruct v|]; cbn [handle_report_gen oeqb state_eqb]; intros E;
        try (inversion E; subst; cbn; rewrite ?length_upd; reflexivity).
      destruct (has_restart (attr g y) && negb (canceled s)).
      - unfold mark_restart_gen in E.
        destruct ((rlimit (attr g y) =? 0) || (restarts (getrec (rec_set_status y TIMEDOUT s) y) <? rlimit (attr g y)));
          inversion E; subst; rewrite ?Ler; cbn; rewrite ?length_upd; reflexivity.
      - inversion E; subst. cbn. rewrite length_upd. reflexivity. }
    specialize (IH s1 cl1 ca1). rewrite L1 in IH. apply IH; auto.
    destruct H as [H|[H|H]].
    + left. pose proof (os_rec _ _ _ _ _ A1) as R. unfold recrel in R. destruct R as (_ & _ & [R|R]); congruence.
    + left. subst r. cbn in E. inversion E; subst. rewrite getrec_set_status_eq by exact Hl. reflexivity.
    + right. exact H.
Qed.

Theorem poll_running c g s p x : WF g -> Inv g s -> valid_reports s p -> In x (inprog s) ->
  (forall o, In (x, o) (delivered c p) -> quiet o = true \/ o = Some RUNNING) ->
  In (x, Some RUNNING) (delivered c p) ->
  let s' := fst (poll c g s p) in
  status (getrec s' x) = RUNNING /\ jobs (getrec s' x) = jobs (getrec s x) /\
  restarts (getrec s' x) = restarts (getrec s x) /\ In x (inprog s') /\
  ~ In x (completed s') /\ ~ In x (failed s') /\ ~ In x (cancelled s') /\ ~ In x (ready s').
Proof.
  intros W I V Hx Hq Hr.
  assert (Hq' : forall o, In (x, o) (delivered c p) -> quiet o = true \/ (true = true /\ o = Some RUNNING)).
  { intros o Ho. destruct (Hq o Ho); auto. }
  assert (O : ok_step g x true s (fst (poll c g s p))) by (apply poll_ok_step; auto).
  cbv zeta. pose proof (os_rec _ _ _ _ _ O) as R. unfold recrel in R. destruct R as (R1 & R2 & R3).
  splits; auto; try (eapply ok_step_sets; eauto; fail).
  (* the status: RUNNING after the dispatch, kept by the rest of the poll *)
  assert (Hne : delivered c p <> []) by (intros E; rewrite E in Hr; destruct Hr).
  assert (Hph : dry c = false -> qcode p <> QERROR).
  { intros Hd E. unfold delivered in Hne. rewrite Hd, E in Hne. congruence. }
  rewrite poll_phases by exact Hph. rewrite poll_phases in O by exact Hph.
  set (s0 := at_query c s p) in *.
  assert (RO : Forall (rep_ok g x true) (delivered c p)).
  { eapply Inv_rep_ok; eauto. intros r Hr'. apply V. eapply delivered_incl; eauto. }
  assert (G0 : guard g x s0).
  { eapply guard_step; [apply Inv_guard; eauto | apply (os_at_query g x true c s p)]. }
  assert (Hl : x < length (recs s0)).
  { replace (length (recs s0)) with (length (recs s)) by (symmetry; f_equal; apply at_query_fields).
    rewrite (i_len_recs g s I). apply (i_bound g s I). auto. }
  pose proof (os_dispatch g x true c (delivered c p) s0 RO) as OD.
  assert (SD : status (getrec (dispatch_gen c g (delivered c p) s0) x) = RUNNING).
  { unfold dispatch_gen.
    pose proof (fold_reports_running c g x (delivered c p) RO s0 [] [] Hl (fun f => f) (fun f => f) (or_intror Hr)) as F.
    pose proof (os_fold_reports g x true c (delivered c p) RO s0 [] [] (fun f => f) (fun f => f)) as B.
    destruct (fold_left (handle_report_gen c g) (delivered c p) (s0, [], [])) as [[s1 cl] ca]. cbn [fst] in F.
    destruct B as (_ & B2 & B3).
    pose proof (os_mark_failed_list g x true cl B2 s1) as M1.
    pose proof (os_mark_cancelled_list g x true ca B3 (mark_failed_list cl s1)) as M2.
    pose proof (os_rec _ _ _ _ _ (ok_step_trans g x true _ _ _ M1 M2)) as R. unfold recrel in R.
    destruct R as (_ & _ & [R|R]); congruence. }
  assert (GD : guard g x (dispatch_gen c g (delivered c p) s0)) by (eapply guard_step; eauto).
  pose proof (os_stage_launch g x true c _ GD) as OS.
  pose proof (os_rec _ _ _ _ _ OS) as R. unfold recrel in R. destruct R as (_ & _ & [R|R]); congruence.
Qed.

(** * Run-level corollaries: every executed poll of every run *)

(** a failed query ends the run with the state it found *)
Theorem run_error c g s ps t : dry c = false -> In t (run_steps c g s ps) -> qcode (st_pin t) = QERROR ->
  st_res t = SABORT /\ rows_of (st_post t) = rows_of (st_pre t) /\
  completed (st_post t) = completed (st_pre t) /\ inprog (st_post t) = inprog (st_pre t) /\
  failed (st_post t) = failed (st_pre t) /\ cancelled (st_post t) = cancelled (st_pre t) /\
  ready (st_post t) = ready (st_pre t) /\ deps (st_post t) = deps (st_pre t) /\
  rev (evs (st_post t)) = fault_events (st_pre t) (st_pin t).
Proof.
  intros Hd Ht Hq. destruct (run_steps_poll c g ps s t Ht) as [E _].
  pose proof (poll_error_fields c g (st_pre t) (st_pin t) Hd Hq) as F. rewrite E in F. cbn [fst snd] in F.
  destruct F as (F0 & F1 & F2 & F3 & F4 & F5 & F6 & F7 & F8 & F9 & F10 & F11).
  splits; auto. unfold rows_of. rewrite F1. reflexivity.
Qed.

Theorem run_error_last c g s ps pre t post : dry c = false ->
  run_steps c g s ps = pre ++ t :: post -> qcode (st_pin t) = QERROR -> post = [].
Proof.
  intros Hd E Hq. destruct post as [|u post]; auto. exfalso.
  assert (Ht : In t (run_steps c g s ps)) by (rewrite E; apply in_app_iff; right; left; reflexivity).
  destruct (run_error c g s ps t Hd Ht Hq) as [A _].
  rewrite (run_steps_running c g ps s pre t (u :: post) E) in A by discriminate. discriminate.
Qed.

(** the run aborts only on a failed query *)
Theorem run_abort_only_on_error c g s ps t : In t (run_steps c g s ps) ->
  (st_res t = SABORT <-> dry c = false /\ qcode (st_pin t) = QERROR).
Proof.
  intros Ht. destruct (run_steps_poll c g ps s t Ht) as [E _].
  rewrite <- poll_abort_iff with (g := g) (s := st_pre t). rewrite E. reflexivity.
Qed.

Theorem run_nojobs c g s ps t : In t (run_steps c g s ps) -> qcode (st_pin t) = QNOJOBS ->
  (st_post t, st_res t) = stage_launch c g (at_query c (st_pre t) (st_pin t)).
Proof.
  intros Ht Hq. destruct (run_steps_poll c g ps s t Ht) as [E _]. rewrite <- E. apply poll_nojobs_explicit. exact Hq.
Qed.

(** deleting every quiet report from every poll input changes nothing observable *)
Definition erase_quiet (p : pin) : pin := with_reports p (filter loud (reports p)).

Theorem run_erase c g ps : forall s, run c g s ps = run c g s (map erase_quiet ps).
Proof.
  induction ps as [|p ps IH]; intros s; cbn [run map]; auto.
  unfold erase_quiet at 1. rewrite <- poll_erase_all_quiet.
  destruct (poll c g s p) as [s1 r]. destruct r; try reflexivity. rewrite IH. reflexivity.
Qed.

(** a faulty NOJOBS answer likewise: its reports may be dropped *)
Definition drop_nojobs (p : pin) : pin := match qcode p with QNOJOBS => with_reports p [] | _ => p end.

Theorem run_drop_nojobs c g ps : forall s, run c g s ps = run c g s (map drop_nojobs ps).
Proof.
  induction ps as [|p ps IH]; intros s; cbn [run map]; auto.
  assert (E : poll c g s (drop_nojobs p) = poll c g s p).
  { unfold drop_nojobs. destruct (qcode p) eqn:Hq; auto. symmetry. apply poll_nojobs. exact Hq. }
  rewrite E. destruct (poll c g s p) as [s1 r]. destruct r; try reflexivity. rewrite IH. reflexivity.
Qed.

(** the frame along a run, given that polls preserve the invariant *)
Section RunFrame.
  Variable c : cfg.
  Variable g : graph.
  Hypothesis poll_Inv : forall s p s1 r, Inv g s -> valid_reports s p -> poll c g s p = (s1, r) -> Inv g s1.

  Lemma run_steps_Inv ps : forall s, Inv g s ->
    (forall t, In t (run_steps c g s ps) -> valid_reports (st_pre t) (st_pin t)) ->
    forall t, In t (run_steps c g s ps) -> Inv g (st_pre t).
  Proof.
    induction ps as [|p ps IH]; intros s I V t Ht; cbn [run_steps] in *; [contradiction|].
    destruct (poll c g s p) as [s1 r] eqn:E.
    assert (V0 : valid_reports s p).
    { apply (V (s, p, s1, r)). destruct r; left; reflexivity. }
    pose proof (poll_Inv s p s1 r I V0 E) as I1.
    destruct r; try (destruct Ht as [<-|[]]; exact I).
    destruct Ht as [<-|Ht]; [exact I|].
    apply (IH s1 I1); auto. intros u Hu. apply V. right. exact Hu.
  Qed.

  Theorem run_frame ps s x t : WF g -> Inv g s ->
    (forall t, In t (run_steps c g s ps) -> valid_reports (st_pre t) (st_pin t)) ->
    In t (run_steps c g s ps) -> In x (inprog (st_pre t)) ->
    (forall o, In (x, o) (delivered c (st_pin t)) -> quiet o = true) ->
    getrec (st_post t) x = getrec (st_pre t) x /\ In x (inprog (st_post t)) /\
    ~ In x (completed (st_post t)) /\ ~ In x (failed (st_post t)) /\ ~ In x (cancelled (st_post t)).
  Proof.
    intros W I V Ht Hx Hq.
    pose proof (run_steps_Inv ps s I V t Ht) as It.
    destruct (run_steps_poll c g ps s t Ht) as [E _].
    pose proof (poll_frame c g (st_pre t) (st_pin t) x W It (V t Ht) Hx Hq) as F.
    rewrite E in F. cbn [fst] in F. tauto.
  Qed.
End RunFrame.

(** * A boolean reading of the invariant (for concrete examples) *)
Definition inv_b (g : graph) (s : st) : bool :=
  (length (recs s) =? length g) && (length (deps s) =? length g) &&
  forallb (fun x => x <? length g) (completed s ++ inprog s ++ ready s ++ failed s ++ cancelled s) &&
  nodupb (inprog s) && nodupb (ready s) &&
  disj (completed s) (inprog s) && disj (completed s) (ready s) && disj (inprog s) (ready s) &&
  disj (failed s ++ cancelled s) (completed s ++ inprog s ++ ready s) &&
  forallb (fun x => subset (parents (attr g x)) (completed s)) (completed s ++ inprog s ++ ready s) &&
  forallb (fun x => forallb (fun p => mem p (getdeps s x) || mem p (completed s)) (parents (attr g x)))
          (seq 0 (length g)) &&
  forallb (fun x => negb (state_eqb (status (getrec s x)) INITIALIZED)) (inprog s ++ failed s ++ cancelled s).

Lemma inv_b_sound g s : inv_b g s = true -> Inv g s.
Proof.
  unfold inv_b. rewrite !andb_true_iff.
  intros [[[[[[[[[[[H1 H2] H3] H4] H5] H6] H7] H8] H9] H10] H11] H12].
  apply Nat.eqb_eq in H1, H2. rewrite forallb_forall in H3, H10, H11, H12.
  apply nodupb_NoDup in H4, H5. rewrite disj_spec in H6, H7, H8, H9.
  constructor; auto.
  - intros x Hx. apply Nat.ltb_lt. apply H3. rewrite !in_app_iff. tauto.
  - intros x Hx. specialize (H9 x). rewrite !in_app_iff in H9. tauto.
  - intros x Hx. apply subset_incl. apply H10. rewrite !in_app_iff. tauto.
  - intros x p Hx Hp. specialize (H11 x). rewrite In_seq_lt in H11. specialize (H11 Hx).
    rewrite forallb_forall in H11. specialize (H11 p Hp). apply orb_true_iff in H11.
    rewrite !mem_In in H11. exact H11.
  - intros x Hx Hs. specialize (H12 x). rewrite !in_app_iff in H12. specialize (H12 Hx).
    rewrite Hs in H12. discriminate.
Qed.

(** * Concrete instances (non-vacuity of the hypotheses above) *)
Module FaultEx.
  Definition nd (par ch : list nat) (sched : bool) : sattr :=
    {| parents := par; children := ch; scheduled := sched; has_restart := false; rlimit := 0 |}.
  (** 0 -> 2 <- 1, all scheduled *)
  Definition g3 : graph := [nd [] [2] true; nd [] [2] true; nd [0; 1] [] true].
  Definition c0 : cfg := {| throttle := 0; attempts := 1; dry := false |}.
  Definition pin_of q reps := {| cancel_req := false; qcode := q; reports := reps; psubs := [] |}.
  (** after the first poll steps 0 and 1 are in progress *)
  Definition s1 : st := fst (poll c0 g3 (init g3) (pin_of QOK [])).

  Lemma wf_g3 : WF g3.
  Proof. apply wf_graph_WF. vm_compute. reflexivity. Qed.
  Lemma inv_s1 : Inv g3 s1.
  Proof. apply inv_b_sound. vm_compute. reflexivity. Qed.
  Lemma inprog_s1 : inprog s1 = [0; 1].
  Proof. vm_compute. reflexivity. Qed.

  (** step 1 finishes, step 0's entry is missing / None / PENDING *)
  Definition p_partial : pin := pin_of QOK [(1, Some FINISHED); (0, None); (0, Some PENDING)].
  Lemma valid_partial : valid_reports s1 p_partial.
  Proof. intros r [<-|[<-|[<-|[]]]]; vm_compute; tauto. Qed.
  Lemma quiet_partial : forall o, In (0, o) (delivered c0 p_partial) -> quiet o = true.
  Proof. intros o [H|[H|[H|[]]]]; inversion H; reflexivity. Qed.
  Lemma tracked_0 : In 0 (inprog s1).
  Proof. vm_compute. tauto. Qed.
End FaultEx.

Lemma nojobs_keeps c g s p : qcode p = QNOJOBS ->
  poll c g s p = poll c g s {| cancel_req := cancel_req p; qcode := QNOJOBS; reports := []; psubs := psubs p |} /\
  poll c g s p = poll c g s {| cancel_req := cancel_req p; qcode := QOK; reports := []; psubs := psubs p |} /\
  poll c g s p = stage_launch c g (at_query c s p) /\
  recs (at_query c s p) = recs s /\ completed (at_query c s p) = completed s /\
  inprog (at_query c s p) = inprog s /\ failed (at_query c s p) = failed s /\
  cancelled (at_query c s p) = cancelled s /\ ready (at_query c s p) = ready s /\ deps (at_query c s p) = deps s.
Proof.
  intros Hq. splits.
  - rewrite (poll_nojobs c g s p Hq). unfold with_reports. rewrite Hq. reflexivity.
  - apply poll_nojobs_ok. exact Hq.
  - apply poll_nojobs_explicit. exact Hq.
  - apply at_query_fields.
  - apply at_query_fields.
  - apply at_query_fields.
  - apply at_query_fields.
  - apply at_query_fields.
  - apply at_query_fields.
  - apply at_query_fields.
Qed.

(** * The monitor codes 201, 202, 203 are silent on every model trace *)
Lemma In_ck k b n : In k (ck b n) -> k = n /\ b = false.
Proof. unfold ck. destruct b; cbn; intuition. Qed.

Ltac in_cks H :=
  repeat (apply in_app_or in H; destruct H as [H|H]);
  try (apply In_ck in H; destruct H as [H ?]; try discriminate H).

Lemma leqb_refl l : leqb l l = true.
Proof. induction l as [|a l IH]; cbn; [reflexivity|]. rewrite Nat.eqb_refl. exact IH. Qed.
Lemma row_eqb_refl r : row_eqb r r = true.
Proof. destruct r as [[s j] n]. cbn. rewrite state_eqb_refl, leqb_refl, Nat.eqb_refl. reflexivity. Qed.
Lemma rows_eqb_refl l : list_eqb row_eqb l l = true.
Proof. induction l as [|a l IH]; cbn; [reflexivity|]. rewrite row_eqb_refl. exact IH. Qed.

Lemma prev_deliver m r : prev (deliver m r) = prev m.
Proof.
  destruct r as [x [v|]]; [|reflexivity]. destruct v; reflexivity.
Qed.
Lemma prev_fold_deliver reps : forall m, prev (fold_left deliver reps m) = prev m.
Proof. induction reps as [|r reps IH]; intros m; cbn [fold_left]; [reflexivity|]. rewrite IH. apply prev_deliver. Qed.

Lemma prev_step_base c g p b e : prev (step_base c g p b e) = prev b.
Proof.
  destruct e as [js|js|x|x k sched res]; cbn [step_base]; try reflexivity.
  - destruct (qcode p); cbn; rewrite ?prev_fold_deliver; reflexivity.
  - destruct res as [j|]; [|reflexivity]. destruct sched; reflexivity.
Qed.

Lemma prev_fold_ev c g p es : forall m, prev (mb (fold_left (step_ev c g p) es m)) = prev (mb m).
Proof.
  induction es as [|e es IH]; intros m; cbn [fold_left]; [reflexivity|]. rewrite IH. cbn. apply prev_step_base.
Qed.

Definition c20_code (k : nat) : Prop := k = 201 \/ k = 202 \/ k = 203.

(** per adapter call: only 201 can be raised, and only by EGen/ESubmit after a failed query *)
Lemma flags_ev_c20 c g p b e k : c20_code k -> In k (flags_ev c g p b e) ->
  k = 201 /\ qcode p = QERROR /\ dry c = false /\ is_submit_or_gen e = true.
Proof.
  intros Hk H. destruct e as [js|js|x|x kd sched res]; cbn [flags_ev] in H.
  - exfalso. in_cks H; destruct Hk as [-> | [-> | ->]]; discriminate.
  - exfalso. in_cks H; destruct Hk as [-> | [-> | ->]]; discriminate.
  - apply In_ck in H. destruct H as [-> H]. splits; auto.
    + destruct (qcode p); cbn in H; try discriminate; reflexivity.
    + destruct (dry c); [|reflexivity]. rewrite orb_true_r in H. discriminate.
  - assert (T : negb (qcode_eqb (qcode p) QERROR) || dry c = false -> qcode p = QERROR /\ dry c = false).
    { intros H'. apply orb_false_iff in H'. destruct H' as [H1 H2]. split; auto.
      destruct (qcode p); cbn in H1; try discriminate; reflexivity. }
    cbn [is_submit_or_gen].
    destruct kd, res as [j|]; in_cks H; auto.
    all: try (exfalso; destruct Hk as [-> | [-> | ->]]; discriminate).
    all: try (match goal with E : negb _ || _ = false |- _ => destruct (T E) end; auto; fail).
    all: try (exfalso; exact H).
Qed.

(** end of poll: 203 iff the status contradicts the query code; 202 iff rows changed after a failed query *)
Lemma flags_end_c20 c g p b rows stat k : c20_code k -> In k (flags_end c g p b rows stat) ->
  (k = 203 /\ Bool.eqb (qcode_eqb (qcode p) QERROR && negb (dry c)) (sstatus_eqb stat SABORT) = false) \/
  (k = 202 /\ qcode_eqb (qcode p) QERROR && negb (dry c) = true /\ list_eqb row_eqb rows (prev b) = false).
Proof.
  intros Hk H. unfold flags_end in H. cbv zeta in H.
  in_cks H; try (exfalso; destruct Hk as [-> | [-> | ->]]; discriminate).
  - left. auto.
  - right. match goal with E : negb _ || _ = false |- _ => apply orb_false_iff in E; destruct E as [E1 E2] end.
    apply negb_false_iff in E1. auto.
Qed.

Lemma zip_cons_nil {A B} (a : A) l : zip (a :: l) (@nil B) = [].
Proof. reflexivity. Qed.

Lemma pre_poll_prev p es m : prev (mb (pre_poll p es m)) = prev (mb m).
Proof. unfold pre_poll. destruct (cancel_req p); reflexivity. Qed.

Lemma pre_poll_viol p es m k : c20_code k -> ~ In k (viol m) -> ~ In k (viol (pre_poll p es m)).
Proof.
  intros Hk Hv. unfold pre_poll. destruct (cancel_req p); [|exact Hv]. cbn. rewrite in_app_iff.
  intros [H|H]; [exact (Hv H)|]. apply In_ck in H. destruct H as [H _].
  destruct Hk as [-> | [-> | ->]]; discriminate.
Qed.

Theorem monitor_c20_silent c g k : c20_code k -> forall ps s m,
  prev (mb m) = rows_of s -> ~ In k (viol m) ->
  ~ In k (viol (fold_left (step_poll c g) (zip ps (run c g s ps)) m)).
Proof.
  intros Hk. induction ps as [|p ps IH]; intros s m Hp Hv; [exact Hv|].
  cbn [run]. destruct (poll c g s p) as [s1 r] eqn:E.
  set (o := (rev (evs s1), rows_of s1, r)).
  set (m1 := fold_left (step_ev c g p) (rev (evs s1)) (pre_poll p (rev (evs s1)) m)).
  assert (P1 : prev (mb m1) = rows_of s) by (unfold m1; rewrite prev_fold_ev, pre_poll_prev; exact Hp).
  assert (V1 : ~ In k (viol m1)).
  { unfold m1. clear P1 m1.
    assert (G : forall es m0, (forall e, In e es -> forall b, ~ In k (flags_ev c g p b e)) ->
                ~ In k (viol m0) -> ~ In k (viol (fold_left (step_ev c g p) es m0))).
    { induction es as [|e es IHes]; intros m0 He Hm0; cbn [fold_left]; [exact Hm0|].
      apply IHes; [intros e' He'; apply He; right; exact He'|].
      cbn. rewrite in_app_iff. intros [H|H]; [exact (Hm0 H)|]. exact (He e (or_introl eq_refl) _ H). }
    apply G; [|apply pre_poll_viol; assumption]. intros e He b Hin.
    destruct (flags_ev_c20 c g p b e k Hk Hin) as (_ & Hq & Hd & Hs).
    pose proof (poll_error_fields c g s p Hd Hq) as F. rewrite E in F. cbn [fst snd] in F.
    destruct F as (_ & _ & _ & _ & _ & _ & _ & _ & _ & _ & _ & F).
    rewrite forallb_forall in F. apply in_rev in He. specialize (F e He). rewrite Hs in F. discriminate. }
  assert (Step : prev (mb (step_poll c g m (p, o))) = rows_of s1 /\ ~ In k (viol (step_poll c g m (p, o)))).
  { unfold step_poll, o. fold m1. cbn [mb viol end_base prev]. split; [reflexivity|].
    rewrite in_app_iff. intros [H|H]; [exact (V1 H)|].
    destruct (flags_end_c20 c g p (mb m1) (rows_of s1) r k Hk H) as [[_ A]|(_ & A & B)].
    - assert (Iff : r = SABORT <-> dry c = false /\ qcode p = QERROR).
      { rewrite <- (poll_abort_iff c g s p), E. reflexivity. }
      destruct (qcode_eqb (qcode p) QERROR && negb (dry c)) eqn:Q.
      + apply andb_true_iff in Q. destruct Q as [Q1 Q2]. apply negb_true_iff in Q2.
        assert (r = SABORT) by (apply Iff; split; auto; destruct (qcode p); try discriminate; reflexivity).
        subst r. discriminate.
      + destruct r; try discriminate. destruct Iff as [Iff _]. destruct (Iff eq_refl) as [Hd Hq].
        rewrite Hd, Hq in Q. discriminate.
    - apply andb_true_iff in A. destruct A as [Q1 Q2]. apply negb_true_iff in Q2.
      assert (Hq : qcode p = QERROR) by (destruct (qcode p); try discriminate; reflexivity).
      pose proof (poll_error_fields c g s p Q2 Hq) as F. rewrite E in F. cbn [fst snd] in F.
      destruct F as (_ & F1 & _). rewrite P1 in B. unfold rows_of in B. rewrite F1, rows_eqb_refl in B. discriminate. }
  destruct Step as [S1 S2].
  destruct r; try (cbn [zip fold_left]; destruct ps; exact S2).
  cbn [zip fold_left]. apply IH; assumption.
Qed.

Corollary model_trace_c20_codes c g ps k : c20_code k -> ~ In k (viol_of c g ps (run c g (init g) ps)).
Proof.
  intros Hk. unfold viol_of, monitor. apply monitor_c20_silent; auto.
  cbn. unfold rows_of. cbn. rewrite map_map. reflexivity.
Qed.

(** Two concrete histories used as non-vacuity witnesses by Props/C02.v and Props/C06.v. *)
From MWF Require Import Base.Util Exec.ExecBase Exec.ExecGen Exec.ExecRun Exec.ExecTrace Exec.ExecPoll
  Exec.ExecPoll3 Exec.ExecHist.

Definition mk_attr p ch sc hr rl : sattr :=
  {| parents := p; children := ch; scheduled := sc; has_restart := hr; rlimit := rl |}.
Definition mk_pin cr q r sb : pin := {| cancel_req := cr; qcode := q; reports := r; psubs := sb |}.
Definition ex_cfg : cfg := {| throttle := 0; attempts := 1; dry := false |}.

(** chain 0 -> 1 -> 2 plus an independent step 3; step 0 has a restart command, limit 1.
    poll 1 submits 0 and 3; poll 2 delivers TIMEDOUT to 0 (restarted: job 2); poll 3 delivers
    TIMEDOUT to 0 again (budget used up -> FAILED, 1 and 2 swept) and FAILED to 3. *)
Definition ex6_g : graph :=
  [mk_attr [] [1] true true 1; mk_attr [0] [2] true false 0; mk_attr [1] [] true false 0; mk_attr [] [] true false 0].
Definition ex6_ps : list pin :=
  [ mk_pin false QOK [] [true; true];
    mk_pin false QOK [(0, Some TIMEDOUT); (3, Some RUNNING)] [true];
    mk_pin false QOK [(0, Some TIMEDOUT); (3, Some FAILED)] [] ].

(** 0 -> 1 plus an independent step 2.  poll 1 submits 0 and 2; poll 2 delivers FAILED to 0
    (1 swept); poll 3 keeps 2 running -- nothing is submitted; poll 4 finishes 2. *)
Definition ex2_g : graph :=
  [mk_attr [] [1] true false 0; mk_attr [0] [] true false 0; mk_attr [] [] true false 0].
Definition ex2_ps : list pin :=
  [ mk_pin false QOK [] [true; true];
    mk_pin false QOK [(0, Some FAILED); (2, Some RUNNING)] [];
    mk_pin false QOK [(2, Some RUNNING)] [];
    mk_pin false QOK [(2, Some FINISHED)] [] ].

(** observations of the k-th poll of a history *)
Definition post_of (c : cfg) (g : graph) (ps : list pin) (k : nat) : st :=
  match nth_error (run_trace c g (init g) ps) k with Some e => e_post e | None => init g end.
Definition is_submit (x : nat) (e : event) : bool :=
  match e with ESubmit y _ _ _ => Nat.eqb x y | _ => false end.
Definition status_is (s : st) (x : nat) (v : State) : bool := state_eqb (status (getrec s x)) v.

(** Coupling of the state invariant with the trace ledger, part 3: the monitor
    over the model's own observable trace stays silent for the event-level
    codes 1, 3, 4, 40, 41, 7, 71 -- for every graph, configuration and list of
    valid poll inputs (induction over the poll list). *)
From Coq Require Import Lia Relations.
From MWF Require Import Base.Util Base.UtilLemmas Exec.ExecBase Exec.ExecGen Exec.ExecRun Exec.ExecTrace
  Exec.ExecGraph Exec.ExecInv Exec.ExecLedger Exec.ExecLedger2.

(** valid poll inputs along a run: each pin is valid for the state it is applied to *)
Fixpoint valid_run (c : cfg) (g : graph) (s : st) (ps : list pin) : bool :=
  match ps with
  | [] => true
  | p :: ps' =>
    valid_pin s p &&
    (let '(s1, r) := poll c g s p in
     match r with SRUNNING => valid_run c g s1 ps' | _ => true end)
  end.

(** * Initial state *)
Lemma Inv_init g : Inv g (init g).
Proof.
  constructor; cbn; try (now intros); try (intros; tauto); try (now constructor).
  - apply map_length.
  - apply map_length.
  - intros x q Hx Hq. left. unfold attr in Hq.
    change (@nil nat) with (parents dflt_attr). rewrite map_nth. exact Hq.
Qed.

Lemma Thr_init c g : Thr c (init g).
Proof. intros _. cbn. lia. Qed.

Lemma J_init d g : J d none none (init g) (base0 g).
Proof.
  split.
  - constructor; cbn; [|constructor|reflexivity]. intros x j. split; [intros []|intros [[] _]].
  - constructor; cbn; auto; intros x []; tauto.
Qed.

(** * The monitor over the events of one poll *)
Lemma step_ev_fold c g p es : forall m,
  mb (fold_left (step_ev c g p) es m) = fold_left (step_base c g p) es (mb m) /\
  (forall k, In k famA -> ~ In k (viol m) -> evsA c g p (mb m) es ->
             ~ In k (viol (fold_left (step_ev c g p) es m))).
Proof.
  induction es as [|e es IH]; intros m; cbn [fold_left]; [split; auto|].
  destruct (IH (step_ev c g p m e)) as [A B]. split; [exact A|].
  intros k Hk Hv [E1 E2]. apply B; auto.
  cbn [step_ev viol]. rewrite in_app_iff. intros [H|H]; [contradiction|].
  exact (evA_flags c g p (mb m) e k E1 Hk H).
Qed.

Lemma ck_codes b k j : In j (ck b k) -> j = k.
Proof. intros H. apply ck_In in H. tauto. Qed.

(** the end-of-poll verdicts raise none of the event-level codes *)
Lemma flags_end_famA c g p m rows stat k : In k famA -> ~ In k (flags_end c g p m rows stat).
Proof.
  intros Hk Hin. unfold flags_end in Hin. cbv zeta in Hin.
  repeat (apply in_app_iff in Hin; destruct Hin as [Hin|Hin];
          [apply ck_codes in Hin; subst k; cbn in Hk; intuition discriminate|]).
  apply ck_codes in Hin. subst k. cbn in Hk. intuition discriminate.
Qed.

(** * One poll of the model under the monitor *)

(** The monitor registers a cancel REQUEST before the first adapter call of the
    poll ([pre_poll]); the model sets its flag in cancel_study, the first thing
    the poll does.  For the coupling we therefore look at the model state with
    the flag already set: the poll does not read the old value. *)
Definition req_state (p : pin) (s : st) : st := if cancel_req p then set_canceled s true else s.

Lemma poll_req_state c g s p : poll c g (req_state p s) p = poll c g s p.
Proof.
  unfold req_state, poll. destruct (cancel_req p) eqn:E; reflexivity.
Qed.

Lemma pre_poll_mb p es m : mb (pre_poll p es m) = if cancel_req p then set_cseen (mb m) true else mb m.
Proof. unfold pre_poll. destruct (cancel_req p); reflexivity. Qed.

Lemma pre_poll_famA p es m : (forall k, In k famA -> ~ In k (viol m)) ->
  forall k, In k famA -> ~ In k (viol (pre_poll p es m)).
Proof.
  intros H k Hk. unfold pre_poll. destruct (cancel_req p); [|auto].
  cbn [viol]. rewrite in_app_iff. intros [Hi|Hi]; [exact (H k Hk Hi)|].
  apply ck_codes in Hi. subst k. cbn in Hk. intuition discriminate.
Qed.

Lemma req_state_inv c g d p es s m : Inv g s -> Thr c s -> J d none none s (mb m) -> valid_pin s p = true ->
  Inv g (req_state p s) /\ Thr c (req_state p s) /\ J d none none (req_state p s) (mb (pre_poll p es m)) /\
  valid_pin (req_state p s) p = true.
Proof.
  intros I T [Jl Js] V. rewrite pre_poll_mb. unfold req_state. destruct (cancel_req p); [|split; [exact I|split; [exact T|split; [split; assumption|exact V]]]].
  split; [eapply Inv_fields; [| | | | | | |exact I]; reflexivity|]. split; [exact T|]. split; [|exact V].
  split.
  - destruct Jl as [A B C]. constructor; auto.
  - eapply JS_frame; [| |exact Js]; [intros y; reflexivity|reflexivity].
Qed.

Lemma step_poll_silent c g m p s :
  WF g -> Inv g s -> Thr c s -> J (dry c) none none s (mb m) -> valid_pin s p = true ->
  (forall k, In k famA -> ~ In k (viol m)) ->
  let s1 := fst (poll c g s p) in
  let m' := step_poll c g m (p, (rev (evs s1), rows_of s1, snd (poll c g s p))) in
  Inv g s1 /\ Thr c s1 /\ J (dry c) none none s1 (mb m') /\ (forall k, In k famA -> ~ In k (viol m')).
Proof.
  intros W I T Jh V Hv. cbv zeta.
  set (s1 := fst (poll c g s p)).
  destruct (req_state_inv c g (dry c) p (rev (evs s1)) s m I T Jh V) as (I0 & T0 & J0 & V0).
  pose proof (pre_poll_famA p (rev (evs s1)) m Hv) as Hv0.
  set (m0 := pre_poll p (rev (evs s1)) m) in *.
  destruct (poll_spec c g p (mb m0) W (dry c) (req_state p s) eq_refl I0 T0 J0 V0) as [(I1 & Cl1 & J1) T1].
  rewrite poll_req_state in *. fold s1 in I1, Cl1, J1, T1.
  cbn [step_poll]. fold m0.
  destruct (step_ev_fold c g p (rev (evs s1)) m0) as [A B].
  set (mm := fold_left (step_ev c g p) (rev (evs s1)) m0) in *.
  split; [exact I1|]. split; [exact T1|]. split.
  - cbn [mb]. unfold led in J1. rewrite <- A in J1. destruct J1 as [Jl Js]. split.
    + eapply JL_frame; [| | | | |exact Jl]; auto; tauto.
    + eapply JS_frame; [| |exact Js]; auto; tauto.
  - intros k Hk. cbn [viol]. rewrite in_app_iff. intros [H|H].
    + exact (B k Hk (Hv0 k Hk) Cl1 H).
    + exact (flags_end_famA c g p (mb mm) (rows_of s1) (snd (poll c g s p)) k Hk H).
Qed.

(** * The whole run *)
Lemma run_silent c g : WF g -> forall ps s m,
  Inv g s -> Thr c s -> J (dry c) none none s (mb m) -> valid_run c g s ps = true ->
  (forall k, In k famA -> ~ In k (viol m)) ->
  forall k, In k famA -> ~ In k (viol (fold_left (step_poll c g) (zip ps (run c g s ps)) m)).
Proof.
  intros W. induction ps as [|p ps IH]; intros s m I T Jh V Hv; [exact Hv|].
  cbn [valid_run] in V. apply andb_true_iff in V. destruct V as [V1 V2].
  pose proof (step_poll_silent c g m p s W I T Jh V1 Hv) as SP. cbv zeta in SP.
  cbn [run]. destruct (poll c g s p) as [s1 r]. cbn [fst snd] in SP.
  destruct SP as (I1 & T1 & J1 & Hv1).
  destruct r; cbn [zip fold_left].
  2:{ apply IH; auto. }
  all: destruct ps; cbn [zip fold_left]; exact Hv1.
Qed.

Theorem famA_silent c g ps :
  wf_graph g = true -> valid_run c g (init g) ps = true ->
  forall k, In k famA -> ~ In k (viol_of c g ps (run c g (init g) ps)).
Proof.
  intros Hw V. unfold viol_of, monitor.
  apply run_silent; auto.
  - apply wf_graph_WF. exact Hw.
  - apply Inv_init.
  - apply Thr_init.
  - apply J_init.
Qed.

(** the states reached by a valid run satisfy the invariant (poll boundaries) *)
Lemma run_states_inv c g : WF g -> forall ps s L,
  Inv g s -> Thr c s -> J (dry c) none none s L -> valid_run c g s ps = true ->
  forall s' r, In (s', r) (run_states c g s ps) -> Inv g s' /\ Thr c s'.
Proof.
  intros W. induction ps as [|p ps IH]; intros s L I T Jh V s' r Hin; [destruct Hin|].
  cbn [valid_run] in V. apply andb_true_iff in V. destruct V as [V1 V2].
  destruct (poll_spec c g p L W (dry c) s eq_refl I T Jh V1) as [(I1 & Cl1 & J1) T1].
  cbn [run_states] in Hin. destruct (poll c g s p) as [s1 r1]. cbn [fst] in *.
  destruct r1; cbn [In] in Hin.
  2:{ destruct Hin as [E|Hin]; [inversion E; subst; auto|]. eapply IH; eauto. }
  all: destruct Hin as [E|[]]; inversion E; subst; auto.
Qed.

(** * The property monitors that consist of event-level codes only *)
Lemma prop_ok_of_codes pid c g ps os :
  (forall k, In k (family pid) -> ~ In k (viol_of c g ps os)) -> prop_ok pid c g ps os = true.
Proof.
  intros H. unfold prop_ok. apply forallb_forall. intros k Hk. apply negb_true_iff, mem_false. auto.
Qed.

Lemma C01_code c g ps : wf_graph g = true -> valid_run c g (init g) ps = true ->
  ~ In 1 (viol_of c g ps (run c g (init g) ps)).
Proof. intros Hw V. apply famA_silent; auto. cbn. tauto. Qed.

Lemma C01_holds c g ps : wf_graph g = true -> valid_run c g (init g) ps = true ->
  prop_ok 1 c g ps (run c g (init g) ps) = true.
Proof.
  intros Hw V. apply prop_ok_of_codes. intros k [<-|[]]. apply C01_code; auto.
Qed.

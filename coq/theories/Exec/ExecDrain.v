(** C07, liveness half: after a cancel request the study ends CANCELLED once the
    live jobs drain.  Built on the termination theorem of Exec/ExecLive.v
    (potential argument) and the verdict characterisation of Exec/ExecVerdict.v. *)
From Coq Require Import Lia.
From MWF Require Import Base.Util Base.UtilLemmas Exec.ExecBase Exec.ExecGen Exec.ExecRun Exec.ExecTrace
  Exec.ExecGraph Exec.ExecInv Exec.ExecVerdict Exec.ExecPoll Exec.ExecLive.
#[local] Arguments bfs_subtree : simpl never.
#[local] Arguments submit_attempts : simpl never.
#[local] Arguments mark_failed_list : simpl never.
#[local] Arguments mark_cancelled_list : simpl never.
#[local] Arguments set_union : simpl never.

(** * [canceled] is set by a cancel request and never reset *)
Lemma fold_hr_canceled c g reps : forall s cl ca s' cl' ca',
  fold_left (handle_report_gen c g) reps (s, cl, ca) = (s', cl', ca') -> canceled s' = canceled s.
Proof.
  induction reps as [|[x o] reps IH]; intros s cl ca s' cl' ca' E; cbn [fold_left] in E.
  - injection E as <- <- <-. reflexivity.
  - destruct (handle_report_gen c g (s, cl, ca) (x, o)) as [[s1 cl1] ca1] eqn:E1.
    rewrite (IH _ _ _ _ _ _ E). eapply as_canceled. eapply hr_astep. exact E1.
Qed.

Lemma dispatch_canceled c g reps s : canceled (dispatch_gen c g reps s) = canceled s.
Proof.
  unfold dispatch_gen.
  destruct (fold_left (handle_report_gen c g) reps (s, [], [])) as [[s1 cl] ca] eqn:E.
  rewrite (sw_canceled _ _ _ _ (sweep_facts g s1 cl ca)). eapply fold_hr_canceled; eauto.
Qed.

Theorem poll_canceled c g s p : canceled (fst (poll c g s p)) = cancel_req p || canceled s.
Proof.
  rewrite poll_eq. destruct (pre_state_view c p s) as (_ & _ & _ & _ & _ & _ & _ & K).
  destruct (aborts c p); cbn [fst]; [exact K|].
  unfold launch_state, stage_state.
  rewrite (ms_canceled _ _ _ _ _ _ (launch_iter_ms c g _ _)), (ms_canceled _ _ _ _ _ _ (stage_fold_ms g _ _)).
  unfold disp_state. destruct (dry c); [exact K|]. destruct (qcode_eqb (qcode p) QOK); [|exact K].
  rewrite dispatch_canceled. exact K.
Qed.

Lemma canceled_mono c g s ps n : canceled s = true -> canceled (state_at c g s ps n) = true.
Proof.
  intros H. induction n as [|n IH]; [exact H|]. cbn [state_at]. rewrite poll_canceled, IH. apply orb_true_r.
Qed.

Lemma canceled_after_request c g s ps n : cancel_req (ps 0) = true \/ canceled s = true ->
  canceled (state_at c g s ps (S n)) = true.
Proof.
  intros H. rewrite (state_at_shift c g s ps n). apply canceled_mono. rewrite poll_canceled.
  destruct H as [-> | ->]; [reflexivity | apply orb_true_r].
Qed.

(** * the first poll that does not return RUNNING *)
Lemma first_stop c g s ps n :
  running_upto c g s ps n \/ exists m, m < n /\ running_upto c g s ps m /\ status_at c g s ps m <> SRUNNING.
Proof.
  induction n as [|n [IH|(m & A & B & C)]]; [left; intros k Hk; lia| |right; exists m; splits; auto].
  destruct (status_dec (status_at c g s ps n)) as [R|R].
  - left. apply running_upto_S; auto.
  - right. exists n. splits; auto.
Qed.

Lemma first_stop_of c g s ps : (exists n, status_at c g s ps n <> SRUNNING) ->
  exists m, running_upto c g s ps m /\ status_at c g s ps m <> SRUNNING.
Proof.
  intros [n H]. destruct (first_stop c g s ps n) as [R|(m & _ & A & B)]; eauto.
Qed.

(** a stop (not RUNNING) on a non-aborting poll, after a processed cancel request, is CANCELLED *)
Lemma stop_is_cancelled c g s p : WF g -> Inv g s -> Thr c s -> valid_pin s p = true ->
  aborts c p = false -> canceled (fst (poll c g s p)) = true -> snd (poll c g s p) <> SRUNNING ->
  snd (poll c g s p) = SCANCELLED.
Proof.
  intros W I T V A K R. rewrite poll_status, A in *.
  destruct (poll_Inv c g s p W I T V) as [I' _].
  apply verdict_cancelled. left. split; auto. eapply verdict_final_idle; eauto.
Qed.

(** * Draining: the loop stops, and it stops with CANCELLED *)
Theorem drains c g s ps : WF g -> reach_st c g s ->
  cancel_req (ps 0) = true \/ canceled s = true ->
  valid_stream c g s ps -> no_error c g s ps -> fair c g s ps -> quiet c g ps ->
  exists n, running_upto c g s ps n /\ status_at c g s ps n = SCANCELLED.
Proof.
  intros W R C V NE F Q.
  destruct (first_stop_of c g s ps (terminates_reachable c g s ps W R V NE F Q)) as (m & Rm & Sm).
  exists m. split; auto.
  destruct (reach_st_inv c g s W R) as (I & T & L & _).
  destruct (stream_inv c g s ps W I T L V m Rm) as (Im & Tm & _).
  unfold status_at in *. apply stop_is_cancelled; auto.
  change (fst (poll c g (state_at c g s ps m) (ps m))) with (state_at c g s ps (S m)).
  apply canceled_after_request. exact C.
Qed.

(** * Non-vacuity: two independent jobs in flight, a cancel request, late reports *)
Definition dr_g : graph :=
  [ {| parents := []; children := []; scheduled := true; has_restart := false; rlimit := 0 |};
    {| parents := []; children := []; scheduled := true; has_restart := true; rlimit := 2 |} ].
Definition dr_c : cfg := {| throttle := 0; attempts := 1; dry := false |}.
Definition dr_pin (cr : bool) (reps : list (nat * option State)) : pin :=
  {| cancel_req := cr; qcode := QOK; reports := reps; psubs := [true; true] |}.
(** the state after the first poll: both jobs submitted and in progress *)
Definition dr_s : st := fst (poll dr_c dr_g (init dr_g) (dr_pin false [])).
(** cancel request while both run; then job 0 reports FINISHED, then job 1 TIMEDOUT (it has a
    restart script and budget left: no restart after the request) *)
Definition dr_ps (n : nat) : pin :=
  match n with
  | 0 => dr_pin true [(0, Some RUNNING); (1, Some RUNNING)]
  | 1 => dr_pin false [(0, Some FINISHED)]
  | 2 => dr_pin false [(1, Some TIMEDOUT)]
  | _ => dr_pin false []
  end.

Lemma dr_wf : WF dr_g.
Proof. apply wf_graph_WF. vm_compute. reflexivity. Qed.
Lemma dr_reach : reach_st dr_c dr_g dr_s.
Proof. apply rs_poll; [constructor | vm_compute; reflexivity | vm_compute; reflexivity]. Qed.
Lemma dr_statuses :
  inprog dr_s = [0; 1] /\
  map (status_at dr_c dr_g dr_s dr_ps) (seq 0 3) = [SRUNNING; SRUNNING; SCANCELLED] /\
  map (fun n => inprog (state_at dr_c dr_g dr_s dr_ps n)) (seq 0 4) = [[0; 1]; [0; 1]; [1]; []] /\
  map (fun n => Phi dr_g (state_at dr_c dr_g dr_s dr_ps n)) (seq 0 4) = [4; 4; 3; 0].
Proof. vm_compute. repeat split; reflexivity. Qed.

Lemma dr_stopped n : running_upto dr_c dr_g dr_s dr_ps (3 + n) -> False.
Proof. intros R. assert (H : status_at dr_c dr_g dr_s dr_ps 2 = SRUNNING) by (apply R; lia). vm_compute in H. discriminate. Qed.

Ltac dr_cases n := destruct n as [|[|[|n]]]; [| | | change (S (S (S n))) with (3 + n) in * ].

Lemma dr_valid : valid_stream dr_c dr_g dr_s dr_ps.
Proof. intros n R. dr_cases n; [vm_compute; reflexivity ..|]. destruct (dr_stopped n R). Qed.
Lemma dr_no_error : no_error dr_c dr_g dr_s dr_ps.
Proof. intros n R. dr_cases n; [reflexivity ..|]. destruct (dr_stopped n R). Qed.
Lemma dr_fair : fair dr_c dr_g dr_s dr_ps.
Proof.
  intros n R H. dr_cases n.
  - exists 1. split; [lia|]. intros _. vm_compute. reflexivity.
  - exists 1. split; [lia|]. intros _. vm_compute. reflexivity.
  - exists 2. split; [lia|]. intros _. vm_compute. reflexivity.
  - destruct (dr_stopped n R).
Qed.
Lemma dr_quiet : quiet dr_c dr_g dr_ps.
Proof. exists 0. intros m _. dr_cases m; reflexivity. Qed.
Lemma dr_request : cancel_req (dr_ps 0) = true \/ canceled dr_s = true.
Proof. left. reflexivity. Qed.
Lemma dr_drains : exists n, running_upto dr_c dr_g dr_s dr_ps n /\ status_at dr_c dr_g dr_s dr_ps n = SCANCELLED.
Proof. exact (drains dr_c dr_g dr_s dr_ps dr_wf dr_reach dr_request dr_valid dr_no_error dr_fair dr_quiet). Qed.

(** The extended state invariant [Inv2] of the polling loop:
      I5  [failed] is closed under [children] into failed + cancelled; so is
          [cancelled] while no cancel was requested; a cancelled node whose
          children are not swept has all its parents completed (it was popped
          from the ready queue after a cancel request);
      I6  restart counters stay within the configured limit, and are 0 for steps
          without a restart command;
      I9  status of completed nodes is FINISHED/DRYRUN, status of failed and
          cancelled nodes is FAILED/CANCELLED/TIMEDOUT (TIMEDOUT only for a node
          that is in [failed] and whose parents all completed).
    Inside a poll the closure is pending in the two sweep accumulators; the
    step invariant [J2] carries them.

    Exported: Ext, PC, Inv2, init_Inv2, poll_Inv2, run_states_Inv2,
              closed_desc (descendants of a failed node are failed/cancelled),
              desc_status (their status is FAILED or CANCELLED). *)
From Coq Require Import Lia Relations.
From MWF Require Import Base.Util Base.UtilLemmas Exec.ExecBase Exec.ExecGen Exec.ExecRun Exec.ExecGraph Exec.ExecInv
  Exec.ExecPoll Exec.ExecSteps.

#[local] Arguments bfs_subtree : simpl never.
#[local] Arguments submit_attempts : simpl never.
#[local] Arguments mark_failed_list : simpl never.
#[local] Arguments mark_cancelled_list : simpl never.
#[local] Arguments set_union : simpl never.

Definition st_fc (v : State) : Prop := v = FAILED \/ v = CANCELLED \/ v = TIMEDOUT.
Definition st_done (v : State) : Prop := v = FINISHED \/ v = DRYRUN.
Definition fc_status (v : State) : Prop := v = FAILED \/ v = CANCELLED.

Record Ext (g : graph) (t : st) : Prop := {
  e_rl : forall x, 0 < rlimit (attr g x) -> restarts (getrec t x) <= rlimit (attr g x);
  e_nr : forall x, has_restart (attr g x) = false -> restarts (getrec t x) = 0;
  e_sc : forall x, In x (completed t) -> st_done (status (getrec t x));
  e_sf : forall x, In x (failed t) \/ In x (cancelled t) -> st_fc (status (getrec t x));
  e_to : forall x, In x (failed t) \/ In x (cancelled t) -> status (getrec t x) = TIMEDOUT ->
                   In x (failed t) /\ incl (parents (attr g x)) (completed t) }.

(** generic transfer of [Ext] along a transition *)
Lemma Ext_step g t t' :
  (forall y, restarts (getrec t' y) = restarts (getrec t y)) ->
  (forall y, In y (completed t) -> In y (completed t')) ->
  (forall y, In y (completed t') ->
     (In y (completed t) /\ status (getrec t' y) = status (getrec t y)) \/ st_done (status (getrec t' y))) ->
  (forall y, In y (failed t') \/ In y (cancelled t') ->
     ((In y (failed t) \/ In y (cancelled t)) /\ status (getrec t' y) = status (getrec t y) /\
      (In y (failed t) -> In y (failed t'))) \/
     status (getrec t' y) = FAILED \/ status (getrec t' y) = CANCELLED \/
     (status (getrec t' y) = TIMEDOUT /\ In y (failed t') /\ incl (parents (attr g y)) (completed t'))) ->
  Ext g t -> Ext g t'.
Proof.
  intros Hr Hc Hsc Hsf [A B C D E]. constructor.
  - intros x Hx. rewrite Hr. auto.
  - intros x Hx. rewrite Hr. auto.
  - intros x Hx. destruct (Hsc x Hx) as [[H1 H2]|H]; auto. rewrite H2. auto.
  - intros x Hx. destruct (Hsf x Hx) as [(H1 & H2 & H3)|[H|[H|(H & _)]]]; unfold st_fc; try rewrite H; auto.
    rewrite H2. apply D. exact H1.
  - intros x Hx Ht. destruct (Hsf x Hx) as [(H1 & H2 & H3)|[H|[H|(H & H1 & H2)]]]; try congruence; auto.
    rewrite H2 in Ht. destruct (E x H1 Ht) as [E1 E2]. split; auto. intros z Hz. auto.
Qed.

(** transitions that leave records and the three result sets alone *)
Lemma Ext_frame g t t' : recs t' = recs t -> completed t' = completed t -> failed t' = failed t ->
  cancelled t' = cancelled t -> Ext g t -> Ext g t'.
Proof.
  intros E1 E2 E3 E4 [A B C D E]. constructor; unfold getrec in *; rewrite ?E1, ?E2, ?E3, ?E4; auto.
Qed.

(** a status write on a node outside completed/failed/cancelled *)
Lemma Ext_set_status g x v t : ~ In x (completed t) -> ~ In x (failed t) -> ~ In x (cancelled t) ->
  Ext g t -> Ext g (rec_set_status x v t).
Proof.
  intros H1 H2 H3. apply Ext_step.
  - intros y. apply restarts_set_status.
  - auto.
  - intros y Hy. left. split; auto. destruct (Nat.eq_dec x y) as [->|Hn]; [contradiction|].
    rewrite getrec_set_status_neq; auto.
  - intros y Hy. left. split; auto. split; auto. destruct (Nat.eq_dec x y) as [->|Hn]; [cbn in Hy; tauto|].
    rewrite getrec_set_status_neq; auto.
Qed.

Lemma Ext_inc_restarts g x t : x < length (recs t) -> has_restart (attr g x) = true ->
  ((rlimit (attr g x) =? 0) || (restarts (getrec t x) <? rlimit (attr g x))) = true ->
  Ext g t -> Ext g (rec_inc_restarts x t).
Proof.
  intros Hl Hh Hb [A B C D E].
  assert (S : forall y, status (getrec (rec_inc_restarts x t) y) = status (getrec t y)) by (intros; apply status_inc_restarts).
  constructor; try (intros y; rewrite S; auto; fail).
  - intros y Hy. destruct (Nat.eq_dec x y) as [->|Hn]; [|rewrite getrec_inc_restarts_neq; auto].
    rewrite restarts_inc_restarts_eq by exact Hl.
    apply orb_true_iff in Hb. destruct Hb as [Hb|Hb]; [apply Nat.eqb_eq in Hb; lia|apply Nat.ltb_lt in Hb; lia].
  - intros y Hy. destruct (Nat.eq_dec x y) as [->|Hn]; [congruence|rewrite getrec_inc_restarts_neq; auto].
Qed.

(** * Closure under children, with the sweeps still pending *)
Definition U (t : st) (cl ca : list nat) (y : nat) : Prop :=
  In y (failed t) \/ In y (cancelled t) \/ In y cl \/ In y ca.

Record PC (g : graph) (t : st) (cl ca : list nat) : Prop := {
  pc_f : forall x, In x (failed t) \/ In x cl \/ In x ca ->
                   forall ch, In ch (children (attr g x)) -> U t cl ca ch;
  pc_c : forall x, In x (cancelled t) -> canceled t = false ->
                   forall ch, In ch (children (attr g x)) -> U t cl ca ch;
  pc_p : forall x, In x (cancelled t) ->
                   incl (parents (attr g x)) (completed t) \/
                   forall ch, In ch (children (attr g x)) -> U t cl ca ch }.

(** generic transfer: the union only grows, nothing new needs closing *)
Lemma PC_mono g t cl ca t' cl' ca' :
  (forall y, U t cl ca y -> U t' cl' ca' y) ->
  (forall y, In y (completed t) -> In y (completed t')) ->
  (canceled t' = false -> canceled t = false) ->
  (forall x, In x (failed t') \/ In x cl' \/ In x ca' ->
     In x (failed t) \/ In x cl \/ In x ca \/ forall ch, In ch (children (attr g x)) -> U t' cl' ca' ch) ->
  (forall x, In x (cancelled t') ->
     In x (cancelled t) \/ (canceled t' = true /\ incl (parents (attr g x)) (completed t')) \/
     forall ch, In ch (children (attr g x)) -> U t' cl' ca' ch) ->
  PC g t cl ca -> PC g t' cl' ca'.
Proof.
  intros HU Hc Hcan Hf Hcc [A B C]. constructor.
  - intros x Hx ch Hch. destruct (Hf x Hx) as [H|[H|[H|H]]]; auto; apply HU; eapply A; eauto.
  - intros x Hx Hn ch Hch. destruct (Hcc x Hx) as [H|[[H _]|H]]; auto; [|congruence].
    apply HU. eapply B; eauto.
  - intros x Hx. destruct (Hcc x Hx) as [H|[[_ H]|H]]; auto.
    destruct (C x H) as [H1|H1]; [left; intros z Hz; auto|right; intros ch Hch; auto].
Qed.

(** the sub-tree collected by bfs_subtree is closed *)
Lemma bfs_closed_in g x y ch : WF g -> x < length g ->
  In y (bfs_subtree g x) -> In ch (children (attr g y)) -> In ch (bfs_subtree g x) /\ ch <> x.
Proof.
  intros W Hx Hy Hc. split; [eapply bfs_subtree_closed; eauto|].
  assert (Hyl : y < length g) by (eapply bfs_subtree_lt; eauto).
  pose proof (child_neq g y ch W Hyl Hc).
  pose proof (reach_le g x y W (bfs_subtree_sound g x y W Hx Hy)). lia.
Qed.

(** * Effects of _execute_record on records and on [failed] *)
Lemma execute_record_recs c g x r s : WF g -> Inv g s -> x < length g ->
  let s' := execute_record_gen c g x r s in
  (forall y, restarts (getrec s' y) = restarts (getrec s y)) /\
  (forall y, getrec s' y = getrec s y \/ y = x \/
             (In y (bfs_subtree g x) /\ In y (failed s') /\ status (getrec s' y) = FAILED)) /\
  (In x (completed s') -> ~ In x (completed s) -> st_done (status (getrec s' x))) /\
  (forall y, In y (failed s') -> ~ In y (failed s) -> status (getrec s' y) = FAILED) /\
  ((forall y, In y (failed s') <-> In y (failed s)) \/
   (forall y, In y (failed s') <-> In y (bfs_subtree g x) \/ In y (failed s))).
Proof.
  intros W I Hx. cbv zeta. unfold execute_record_gen.
  set (s1 := if negb r then emit (EGen x) s else s).
  assert (G1 : forall y, getrec s1 y = getrec s y) by (subst s1; destruct (negb r); reflexivity).
  assert (S1 : same_sets s s1) by (subst s1; destruct (negb r); repeat split).
  assert (L1 : length (recs s1) = length g).
  { rewrite <- (i_len_recs g s I). subst s1; destruct (negb r); reflexivity. }
  destruct S1 as (E1 & E2 & E3 & E4 & E5 & E6 & E7).
  destruct (dry c).
  - splits.
    + intros y. change (restarts (getrec (rec_set_status x DRYRUN s1) y) = restarts (getrec s y)).
      rewrite restarts_set_status, G1. reflexivity.
    + intros y. destruct (Nat.eq_dec y x) as [->|Hn]; auto. left.
      change (getrec (rec_set_status x DRYRUN s1) y = getrec s y). rewrite getrec_set_status_neq, G1; auto.
    + intros _ _. change (st_done (status (getrec (rec_set_status x DRYRUN s1) x))).
      rewrite getrec_set_status_eq by lia. right. reflexivity.
    + intros y. unfold completed_add, rec_set_status. sp. rewrite E4. tauto.
    + left. intros y. unfold completed_add, rec_set_status. sp. rewrite E4. tauto.
  - destruct (submit_attempts g x r (attempts c) s1) as [ok s2] eqn:E.
    apply submit_attempts_spec in E. destruct E as [R _ _ _].
    destruct R as [SS RL RO RR RS].
    destruct SS as (F1 & F2 & F3 & F4 & F5 & F6 & F7).
    assert (R2 : forall y, restarts (getrec s2 y) = restarts (getrec s y)).
    { intros y. destruct (Nat.eq_dec y x) as [->|Hn]; [rewrite RR, G1|rewrite RO, G1]; auto. }
    destruct ok.
    + destruct (negb (scheduled (attr g x))).
      * splits.
        -- intros y. change (restarts (getrec (rec_set_status x FINISHED (inprog_add x s2)) y) = restarts (getrec s y)).
           rewrite restarts_set_status. apply R2.
        -- intros y. destruct (Nat.eq_dec y x) as [->|Hn]; auto. left.
           change (getrec (rec_set_status x FINISHED (inprog_add x s2)) y = getrec s y).
           rewrite getrec_set_status_neq by auto. change (getrec s2 y = getrec s y). rewrite RO, G1; auto.
        -- intros _ _. change (st_done (status (getrec (rec_set_status x FINISHED (inprog_add x s2)) x))).
           rewrite getrec_set_status_eq; [left; reflexivity|]. unfold inprog_add. sp. lia.
        -- intros y. unfold inprog_remove, completed_add, rec_set_status, inprog_add. sp. rewrite F4, E4. tauto.
        -- left. intros y. unfold inprog_remove, completed_add, rec_set_status, inprog_add. sp. rewrite F4, E4. tauto.
      * splits.
        -- intros y. apply R2.
        -- intros y. destruct (Nat.eq_dec y x) as [->|Hn]; auto. left.
           change (getrec s2 y = getrec s y). rewrite RO, G1; auto.
        -- unfold inprog_add. sp. rewrite F1, E1. tauto.
        -- intros y. unfold inprog_add. sp. rewrite F4, E4. tauto.
        -- left. intros y. unfold inprog_add. sp. rewrite F4, E4. tauto.
    + set (s3 := inprog_remove x s2).
      assert (L3 : length (recs s3) = length g) by (unfold s3, inprog_remove; sp; lia).
      assert (FF : forall y, In y (failed (mark_failed_list (bfs_subtree g x) s3)) <-> In y (bfs_subtree g x) \/ In y (failed s)).
      { intros y. rewrite mfl_failed. unfold s3, inprog_remove. sp. rewrite F4, E4. tauto. }
      splits.
      * intros y. rewrite mfl_restarts. apply R2.
      * intros y. destruct (Nat.eq_dec y x) as [->|Hn]; auto.
        destruct (in_dec Nat.eq_dec y (bfs_subtree g x)) as [Hb|Hb].
        -- right. right. splits; auto; [apply FF; auto|].
           apply mfl_status_in; auto. rewrite L3. eapply bfs_subtree_lt; eauto.
        -- left. rewrite mfl_getrec_notin by auto. change (getrec s2 y = getrec s y). rewrite RO, G1; auto.
      * destruct (mfl_frame (bfs_subtree g x) s3) as (M1 & _). rewrite M1.
        unfold s3, inprog_remove. sp. rewrite F1, E1. tauto.
      * intros y Hy Hn. apply FF in Hy. destruct Hy as [Hy|Hy]; [|contradiction].
        apply mfl_status_in; auto. rewrite L3. eapply bfs_subtree_lt; eauto.
      * right. exact FF.
Qed.

(** * [Ext] along the elementary set transitions *)
Lemma Ext_completed_add g x t : st_done (status (getrec t x)) -> Ext g t -> Ext g (completed_add x t).
Proof.
  intros Hs. apply Ext_step.
  - reflexivity.
  - intros y. unfold completed_add. sp. rewrite In_sadd. tauto.
  - intros y. unfold completed_add. sp. rewrite In_sadd. intros [->|H]; [right; exact Hs|left; auto].
  - intros y Hy. left. auto.
Qed.

Lemma Ext_failed_add g x t :
  (status (getrec t x) = FAILED \/ status (getrec t x) = CANCELLED \/
   (status (getrec t x) = TIMEDOUT /\ incl (parents (attr g x)) (completed t))) ->
  Ext g t -> Ext g (failed_add x t).
Proof.
  intros Hs. apply Ext_step.
  - reflexivity.
  - auto.
  - intros y Hy. left. auto.
  - intros y. unfold failed_add. sp. rewrite In_sadd. intros [[->|H]|H]; intuition auto.
Qed.

Lemma Ext_cancelled_add g x t :
  (status (getrec t x) = FAILED \/ status (getrec t x) = CANCELLED) ->
  Ext g t -> Ext g (cancelled_add x t).
Proof.
  intros Hs. apply Ext_step.
  - reflexivity.
  - auto.
  - intros y Hy. left. auto.
  - intros y. unfold cancelled_add. sp. rewrite In_sadd. intros [H|[->|H]]; intuition auto.
Qed.

Lemma Ext_inprog_remove g x t : Ext g t -> Ext g (inprog_remove x t).
Proof. apply Ext_frame; reflexivity. Qed.
Lemma Ext_ready_push g x t : Ext g t -> Ext g (ready_push x t).
Proof. apply Ext_frame; reflexivity. Qed.

Lemma Ext_execute_record c g x r s : WF g -> Inv g s -> x < length g ->
  ~ In x (completed s) -> ~ In x (failed s) -> ~ In x (cancelled s) ->
  Ext g s -> Ext g (execute_record_gen c g x r s).
Proof.
  intros W I Hx Hc Hf Hca.
  destruct (execute_record_recs c g x r s W I Hx) as (R1 & R2 & R3 & R4 & R5).
  pose proof (execute_record_sets c g x r s) as ES.
  apply Ext_step.
  - exact R1.
  - apply (er_c1 _ _ _ _ ES).
  - intros y Hy. destruct (er_c2 _ _ _ _ ES y Hy) as [->|H]; [right; auto|].
    left. split; auto. destruct (R2 y) as [E|[->|(B & _)]]; [rewrite E; auto|contradiction|].
    exfalso. destruct (Nat.eq_dec x y) as [->|Hn]; [contradiction|].
    destruct (desc_untracked g s x y W I (bfs_subtree_sound g x y W Hx B) Hn Hc) as (A & _). contradiction.
  - intros y Hy. rewrite (er_cancelled _ _ _ _ ES) in Hy.
    destruct (in_dec Nat.eq_dec y (failed s)) as [Hi|Hni].
    + destruct (R2 y) as [E|[->|(_ & _ & B)]]; [|contradiction|auto].
      left. splits; auto; [rewrite E; reflexivity|]. intros _. apply (er_f1 _ _ _ _ ES). exact Hi.
    + destruct Hy as [Hy|Hy]; [right; left; apply R4; auto|].
      destruct (R2 y) as [E|[->|(_ & _ & B)]]; [|contradiction|auto].
      left. splits; auto; [rewrite E; reflexivity|contradiction].
Qed.

(** * [PC] along the transitions *)
Lemma PC_frame g t t' cl ca : failed t' = failed t -> cancelled t' = cancelled t -> canceled t' = canceled t ->
  (forall y, In y (completed t) -> In y (completed t')) -> PC g t cl ca -> PC g t' cl ca.
Proof.
  intros E1 E2 E3 Hc. apply PC_mono; unfold U; rewrite ?E1, ?E2, ?E3; auto; intros x; tauto.
Qed.

Lemma PC_add_cl g x t cl ca : WF g -> x < length g -> PC g t cl ca -> PC g t (set_union (bfs_subtree g x) cl) ca.
Proof.
  intros W Hx. apply PC_mono; unfold U; auto.
  - intros y. rewrite In_set_union. tauto.
  - intros y. rewrite In_set_union. intros [H|[[H|H]|H]]; auto.
    right. right. right. intros ch Hch. right. right. left. apply In_set_union. left.
    eapply bfs_subtree_closed; eauto.
Qed.

Lemma PC_add_ca g x t cl ca : WF g -> x < length g -> PC g t cl ca -> PC g t cl (set_union (bfs_subtree g x) ca).
Proof.
  intros W Hx. apply PC_mono; unfold U; auto.
  - intros y. rewrite In_set_union. tauto.
  - intros y. rewrite In_set_union. intros [H|[H|[H|H]]]; auto.
    right. right. right. intros ch Hch. right. right. right. apply In_set_union. left.
    eapply bfs_subtree_closed; eauto.
Qed.

Lemma PC_execute_record c g x r s cl ca : WF g -> Inv g s -> x < length g ->
  PC g s cl ca -> PC g (execute_record_gen c g x r s) cl ca.
Proof.
  intros W I Hx.
  destruct (execute_record_recs c g x r s W I Hx) as (_ & _ & _ & _ & R5).
  pose proof (execute_record_sets c g x r s) as ES.
  apply PC_mono; unfold U; rewrite ?(er_cancelled _ _ _ _ ES), ?(er_canceled _ _ _ _ ES); auto.
  - intros y [H|H]; auto. left. apply (er_f1 _ _ _ _ ES). exact H.
  - apply (er_c1 _ _ _ _ ES).
  - intros y [H|H]; [|tauto]. destruct R5 as [R5|R5]; [apply R5 in H; tauto|].
    apply R5 in H. destruct H as [H|H]; [|tauto].
    right. right. right. intros ch Hch. left. apply R5. left. eapply bfs_subtree_closed; eauto.
Qed.

(** * The step invariant *)
Definition J2 (g : graph) (a : conf) : Prop :=
  let '(t, cl, ca, _) := a in Ext g t /\ PC g t cl ca.

Lemma J2_report c g t cl ca x o t' cl' ca' : WF g -> Inv g t -> Pend g t cl ca -> In x (inprog t) ->
  handle_report_gen c g (t, cl, ca) (x, o) = (t', cl', ca') ->
  Ext g t -> PC g t cl ca -> Ext g t' /\ PC g t' cl' ca'.
Proof.
  intros W I P Hx E X C.
  destruct (inprog_facts g t x I Hx) as (Hl & Hc & Hr & Hf & Hca & Hp & Hi).
  assert (Hlr : x < length (recs t)) by (rewrite (i_len_recs g t I); exact Hl).
  unfold handle_report_gen in E.
  destruct o as [[]|]; cbn [oeqb state_eqb] in E; try (inversion E; subst; split; assumption).
  - (* RUNNING *)
    inversion E; subst t' cl' ca'; clear E. split; [apply Ext_set_status; auto|].
    revert C; apply PC_frame; auto.
  - (* FINISHED *)
    inversion E; subst t' cl' ca'; clear E. split.
    + apply Ext_inprog_remove, Ext_completed_add; [|apply Ext_set_status; auto].
      rewrite getrec_set_status_eq by exact Hlr. left. reflexivity.
    + revert C; apply PC_frame; auto.
      intros y. unfold inprog_remove, completed_add, rec_set_status. sp. rewrite In_sadd. tauto.
  - (* FAILED *)
    inversion E; subst t' cl' ca'; clear E. split.
    + apply Ext_set_status; auto. apply Ext_inprog_remove. exact X.
    + apply PC_add_cl; auto. revert C; apply PC_frame; auto.
  - (* HWFAILURE *)
    inversion E; subst t' cl' ca'; clear E. split.
    + apply Ext_ready_push, Ext_inprog_remove. exact X.
    + revert C; apply PC_frame; auto.
  - (* TIMEDOUT *)
    destruct (has_restart (attr g x) && negb (canceled t)) eqn:HR.
    + apply andb_true_iff in HR. destruct HR as [HR1 HR2].
      unfold mark_restart_gen in E.
      set (s1 := rec_set_status x TIMEDOUT t) in E.
      assert (I1 : Inv g s1) by (apply Inv_set_status; [discriminate|auto]).
      assert (X1 : Ext g s1) by (apply Ext_set_status; auto).
      assert (C1 : PC g s1 cl ca) by (revert C; apply PC_frame; auto).
      destruct ((rlimit (attr g x) =? 0) || (restarts (getrec s1 x) <? rlimit (attr g x))) eqn:B.
      * inversion E; subst t' cl' ca'; clear E.
        assert (I2 : Inv g (rec_inc_restarts x s1)) by (apply Inv_inc_restarts; auto).
        split.
        -- apply Ext_execute_record; auto. apply Ext_inc_restarts; auto.
           unfold s1. rewrite len_recs_set_status. exact Hlr.
        -- apply PC_execute_record; auto. revert C1; apply PC_frame; auto.
      * inversion E; subst t' cl' ca'; clear E. split; [apply Ext_inprog_remove; auto|].
        apply PC_add_cl; auto. revert C1; apply PC_frame; auto.
    + inversion E; subst t' cl' ca'; clear E.
      set (s1 := rec_set_status x TIMEDOUT t).
      split.
      * apply Ext_failed_add; [|apply Ext_inprog_remove, Ext_set_status; auto].
        right. right. change (status (getrec s1 x) = TIMEDOUT /\ incl (parents (attr g x)) (completed t)).
        unfold s1. rewrite getrec_set_status_eq by exact Hlr. split; auto.
      * assert (C1 : PC g (inprog_remove x s1) (set_union (bfs_subtree g x) cl) ca).
        { apply PC_add_cl; auto. revert C; apply PC_frame; auto. }
        revert C1. apply PC_mono; unfold U, failed_add, inprog_remove, s1, rec_set_status; sp; auto.
        -- intros y. rewrite In_sadd, In_srem. destruct (Nat.eq_dec y x); tauto.
        -- intros y. rewrite In_sadd, In_srem, In_set_union. intros [[->|H]|[H|H]]; try tauto.
           right. right. right. intros ch Hch.
           destruct (bfs_closed_in g x x ch W Hl (bfs_subtree_root g x) Hch) as [A B].
           right. right. left. rewrite In_srem, In_set_union. tauto.
  - (* UNKNOWN *)
    inversion E; subst t' cl' ca'; clear E. split.
    + apply Ext_inprog_remove. apply Ext_set_status; auto.
    + apply PC_add_cl; auto. revert C; apply PC_frame; auto.
  - (* CANCELLED *)
    inversion E; subst t' cl' ca'; clear E. split.
    + apply Ext_set_status; auto. apply Ext_inprog_remove. exact X.
    + apply PC_add_ca; auto. revert C; apply PC_frame; auto.
Qed.

Lemma J2_step c g p a b : WF g -> pstep c g p a b -> J2 g a -> J2 g b.
Proof.
  intros W St. destruct St as [t Cq I Ev0|t D I Ev0|t cl ca done x o t' cl' ca' D Q Hin Hnd Hinc I P Hx Cr Nm E
                              |t a cl ca done I P|t a ca done I P|t x done Hx I|t done I Cr]; unfold J2.
  - intros [X C]. split; [revert X; apply Ext_frame; reflexivity|].
    revert C. apply PC_mono; unfold cancel_study_gen, U; sp; auto; try discriminate; intros ?; tauto.
  - intros [X C]. split; [revert X; apply Ext_frame; reflexivity|].
    revert C. apply PC_frame; auto.
  - intros [X C]. eapply J2_report; eauto.
  - intros [X C]. destruct (P a) as (Al & Ac & Ai & Ar); [left; left; reflexivity|].
    assert (Hlr : a < length (recs t)) by (rewrite (i_len_recs g t I); exact Al).
    split.
    + revert X. apply Ext_step.
      * intros y. rewrite restarts_set_status. reflexivity.
      * auto.
      * intros y Hy. left. split; auto. rewrite getrec_set_status_neq; auto. intros ->. contradiction.
      * intros y Hy. destruct (Nat.eq_dec a y) as [->|Hn].
        -- right. left. change (status (getrec (rec_set_status y FAILED (failed_add y t)) y) = FAILED).
           rewrite getrec_set_status_eq; auto.
        -- left. unfold rec_set_status, failed_add in *. sp. rewrite In_sadd in *.
           rewrite nth_upd_neq by auto. splits; auto. destruct Hy as [[Hy|Hy]|Hy]; auto. congruence.
    + revert C. apply PC_mono; unfold U, rec_set_status, failed_add; sp; auto.
      * intros y. rewrite In_sadd. cbn [In]. intuition (subst; auto 6).
      * intros y. rewrite In_sadd. cbn [In]. intuition (subst; auto 6).
  - intros [X C]. destruct (P a) as (Al & Ac & Ai & Ar); [right; left; reflexivity|].
    assert (Hlr : a < length (recs t)) by (rewrite (i_len_recs g t I); exact Al).
    split.
    + revert X. apply Ext_step.
      * intros y. rewrite restarts_set_status. reflexivity.
      * auto.
      * intros y Hy. left. split; auto. rewrite getrec_set_status_neq; auto. intros ->. contradiction.
      * intros y Hy. destruct (Nat.eq_dec a y) as [->|Hn].
        -- right. right. left. change (status (getrec (rec_set_status y CANCELLED (cancelled_add y t)) y) = CANCELLED).
           rewrite getrec_set_status_eq; auto.
        -- left. unfold rec_set_status, cancelled_add in *. sp. rewrite In_sadd in *.
           rewrite nth_upd_neq by auto. splits; auto. destruct Hy as [Hy|[Hy|Hy]]; auto. congruence.
    + pose proof (pc_f _ _ _ _ C a (or_intror (or_intror (or_introl eq_refl)))) as Ca.
      revert C. apply PC_mono; unfold U, rec_set_status, cancelled_add in *; sp; auto.
      * intros y. rewrite In_sadd. cbn [In]. intuition (subst; auto 6).
      * intros y. cbn [In]. intuition (subst; auto 6).
      * intros y. rewrite In_sadd. intros [->|H]; auto.
        right. right. intros ch Hch. specialize (Ca ch Hch). rewrite In_sadd. cbn [In] in Ca. intuition (subst; auto 6).
  - intros [X C]. destruct (stage_node_frame g t x) as (F1 & F2 & F3 & F4 & F5 & F6 & _). split.
    + revert X. apply Ext_frame; auto.
    + revert C. apply PC_frame; auto. rewrite F1. auto.
  - intros [X C]. unfold launch_body_gen. destruct (ready t) as [|x rest] eqn:E; [split; auto|].
    destruct (ready_head_facts g t x rest I E) as (Hl & Hc & Hi & Hr & Hf & Hca & Hp).
    pose proof (Inv_pop g x rest t I E) as I1.
    assert (X1 : Ext g (set_ready t rest)) by (revert X; apply Ext_frame; reflexivity).
    assert (C1 : PC g (set_ready t rest) [] []) by (revert C; apply PC_frame; auto).
    change (canceled (set_ready t rest)) with (canceled t). destruct (canceled t) eqn:Cn.
    + split.
      * apply Ext_cancelled_add; [|apply Ext_set_status; auto].
        right. rewrite getrec_set_status_eq; auto. sp. rewrite (i_len_recs g t I). exact Hl.
      * revert C1. apply PC_mono; unfold U, rec_set_status, cancelled_add; sp; auto.
        -- intros y. rewrite In_sadd. tauto.
        -- intros y. tauto.
        -- intros y. rewrite In_sadd. intros [->|H]; auto.
    + split; [apply Ext_execute_record; auto|apply PC_execute_record; auto].
Qed.

(** * The extended invariant at poll boundaries *)
Record Inv2 (g : graph) (s : st) : Prop := {
  i2_inv : Inv g s;
  i2_ext : Ext g s;
  i2_pc : PC g s [] [] }.

Lemma init_Ext g : Ext g (init g).
Proof.
  assert (R : forall x, getrec (init g) x = dflt_rec).
  { intros x. unfold getrec, init. cbn. revert x. induction g as [|a g' IH]; intros [|x]; cbn; auto. }
  constructor; intros x; rewrite ?R; cbn; try tauto; lia.
Qed.

Lemma init_Inv2 g : Inv2 g (init g).
Proof.
  constructor; [apply init_Inv|apply init_Ext|].
  constructor; cbn; tauto.
Qed.

Theorem poll_Inv2 c g s p : WF g -> Inv2 g s -> Thr c s -> valid_pin s p = true ->
  Inv2 g (fst (poll c g s p)).
Proof.
  intros W [I X C] T V.
  pose proof (poll_reach c g p W s I V) as R.
  assert (J0 : J2 g (conf0 s p)).
  { unfold conf0, J2, poll_start. split; [revert X; apply Ext_frame; reflexivity|revert C; apply PC_frame; auto]. }
  pose proof (psteps_ind_inv c g p (J2 g) (fun a b St => J2_step c g p a b W St) _ _ R J0) as JF.
  destruct JF as [X' C']. constructor; auto. apply poll_Inv; auto.
Qed.

Theorem run_states_Inv2 c g ps : forall s, WF g -> Inv2 g s -> Thr c s -> valid_pins c g s ps = true ->
  forall s' r, In (s', r) (run_states c g s ps) -> Inv2 g s' /\ Thr c s'.
Proof.
  induction ps as [|p ps IH]; intros s W I T V s' r Hin; cbn [run_states] in Hin; [destruct Hin|].
  cbn [valid_pins] in V. apply andb_true_iff in V. destruct V as [V1 V2].
  pose proof (poll_Inv2 c g s p W I T V1) as H.
  pose proof (poll_Inv c g s p W (i2_inv g s I) T V1) as [_ H'].
  destruct (poll c g s p) as [s1 r1]. cbn [fst] in H, H'.
  destruct r1; try (destruct Hin as [Hin|[]]; inversion Hin; subst; split; assumption).
  destruct Hin as [Hin|Hin]; [inversion Hin; subst; split; assumption|].
  eapply IH; eauto.
Qed.

(** * Consequences at poll boundaries *)
Definition FC (s : st) (y : nat) : Prop := In y (failed s) \/ In y (cancelled s).

(** all strict ancestors of a node whose parents are completed are completed *)
Lemma anc_of_enabled g s u d : WF g -> Inv g s -> incl (parents (attr g d)) (completed s) ->
  reach g u d -> u <> d -> In u (completed s).
Proof.
  intros W I Hp R Hne. destruct (reach_last g u d R Hne) as [z [Rz [Hzl Hzc]]].
  assert (Hz : In z (completed s)) by (apply Hp; eapply wf_child_par; eauto).
  destruct (Nat.eq_dec u z) as [->|Hn]; auto.
  eapply anc_completed; eauto.
Qed.

(** a swept node keeps its whole sub-tree swept *)
Lemma closed_desc g s u : WF g -> Inv2 g s ->
  (In u (failed s) \/ (In u (cancelled s) /\ (canceled s = false \/ ~ incl (parents (attr g u)) (completed s)))) ->
  forall d, reach g u d -> FC s d.
Proof.
  intros W [I X C] Hu d. induction d as [d IH] using (well_founded_induction lt_wf). intros R.
  destruct (Nat.eq_dec u d) as [<-|Hne]; [unfold FC; tauto|].
  destruct (reach_last g u d R Hne) as [z [Rz [Hzl Hzc]]].
  assert (Hlt : z < d) by (eapply child_neq; eauto).
  pose proof (IH z Hlt Rz) as Fz.
  assert (Cl : forall ch, In ch (children (attr g z)) -> U s [] [] ch -> FC s ch).
  { intros ch _ [H|[H|[[]|[]]]]; unfold FC; auto. }
  destruct (in_dec Nat.eq_dec z (failed s)) as [Hf|Hnf].
  - apply (Cl d Hzc). eapply (pc_f _ _ _ _ C); eauto.
  - destruct Fz as [Hf|Hc]; [contradiction|].
    destruct (canceled s) eqn:Cn; [|apply (Cl d Hzc); eapply (pc_c _ _ _ _ C); eauto].
    destruct (pc_p _ _ _ _ C z Hc) as [Hp|Hcl]; [|apply (Cl d Hzc); auto].
    exfalso. destruct (Nat.eq_dec u z) as [->|Hnz].
    + destruct Hu as [Hu|[_ [Hu|Hu]]]; [contradiction|discriminate|contradiction].
    + destruct (reach_last g u z Rz Hnz) as [z' [Rz' [Hzl' Hzc']]].
      assert (Hlt' : z' < z) by (eapply child_neq; eauto).
      assert (Fz' : FC s z') by (apply IH; auto; lia).
      assert (Hz' : In z' (completed s)) by (apply Hp; eapply wf_child_par; eauto).
      destruct (i_dj_fc g s I z' Fz') as [A _]. contradiction.
Qed.

(** strict descendants of a failed/cancelled node are never merely TIMEDOUT *)
Lemma desc_status g s u d : WF g -> Inv2 g s -> FC s u -> reach g u d -> u <> d -> FC s d ->
  status (getrec s d) = FAILED \/ status (getrec s d) = CANCELLED.
Proof.
  intros W [I X C] Hu R Hne Hd.
  destruct (e_sf g s X d Hd) as [H|[H|H]]; auto.
  exfalso. destruct (e_to g s X d Hd H) as [_ Hp].
  pose proof (anc_of_enabled g s u d W I Hp R Hne) as Huc.
  destruct (i_dj_fc g s I u Hu) as [A _]. contradiction.
Qed.

(** a completed node has only completed ancestors, so nothing above it failed *)
Lemma FC_not_anc g s u x : WF g -> Inv g s -> FC s u ->
  (In x (completed s) \/ In x (inprog s) \/ In x (ready s)) -> ~ reach g u x.
Proof.
  intros W I Hu Hx R. destruct (i_dj_fc g s I u Hu) as (A & B & D).
  destruct (Nat.eq_dec u x) as [->|Hne]; [tauto|].
  apply A. eapply anc_completed; eauto.
Qed.

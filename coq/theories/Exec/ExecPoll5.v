(** Further step invariants of a poll, used to show that the monitor family of C02 is silent on
    the model trace (ExecMon2.v):
      - the event log of a poll is [ECancel?; ECheck?] followed by script generations/submissions;
      - outcome of submissions: a failed submission without a successful one leaves the node failed,
        a successful one leaves it in progress or completed;
      - provenance of completed nodes (FINISHED report, successful local submission, dry run);
      - status FAILED/CANCELLED implies membership in failed/cancelled; an own-cancelled node keeps
        status CANCELLED. *)
From Coq Require Import Lia Relations.
From MWF Require Import Base.Util Base.UtilLemmas Exec.ExecBase Exec.ExecGen Exec.ExecRun Exec.ExecGraph Exec.ExecInv
  Exec.ExecPoll Exec.ExecSteps Exec.ExecPoll2 Exec.ExecPoll3 Exec.ExecPoll4.

#[local] Arguments bfs_subtree : simpl never.
#[local] Arguments submit_attempts : simpl never.
#[local] Arguments mark_failed_list : simpl never.
#[local] Arguments mark_cancelled_list : simpl never.
#[local] Arguments set_union : simpl never.

(** * More about _execute_record *)
Lemma execute_record_some c g x r s new :
  evs (execute_record_gen c g x r s) = new ++ evs s ->
  (exists k sc j, In (ESubmit x k sc (Some j)) new) ->
  In x (inprog (execute_record_gen c g x r s)) \/ In x (completed (execute_record_gen c g x r s)).
Proof.
  unfold execute_record_gen.
  set (s1 := if negb r then emit (EGen x) s else s).
  assert (E1 : evs s1 = (if negb r then [EGen x] else []) ++ evs s) by (subst s1; destruct (negb r); reflexivity).
  destruct (dry c).
  - intros _ _. right. unfold completed_add, rec_set_status. sp. apply In_sadd. auto.
  - destruct (submit_attempts g x r (attempts c) s1) as [ok s2] eqn:E.
    apply submit_attempts_spec in E. destruct E as [_ _ _ (new2 & V1 & V2 & V3 & V4)].
    destruct ok.
    + intros _ _. destruct (negb (scheduled (attr g x))).
      * right. unfold inprog_remove, completed_add, rec_set_status, inprog_add. sp. apply In_sadd. auto.
      * left. unfold inprog_add. sp. apply In_sadd. auto.
    + intros En (k & sc & j & H). exfalso.
      destruct (mfl_frame (bfs_subtree g x) (inprog_remove x s2)) as (_ & _ & _ & _ & _ & _ & M & _).
      rewrite M in En. change (evs (inprog_remove x s2)) with (evs s2) in En. rewrite V1, E1, app_assoc in En.
      apply app_inv_tail in En. subst new. apply in_app_iff in H. destruct H as [H|H].
      * specialize (V4 eq_refl _ _ _ H). discriminate.
      * destruct (negb r); [destruct H as [H|[]]; discriminate|destruct H].
Qed.

Lemma submit_attempts_ok_new g x r n : forall s s',
  submit_attempts g x r n s = (true, s') ->
  exists j new, evs s' = new ++ evs s /\ In (ESubmit x (kind_of r) (scheduled (attr g x)) (Some j)) new.
Proof.
  induction n as [|n IH]; intros s s' E.
  - rewrite submit_attempts_O in E. discriminate.
  - rewrite submit_attempts_S in E. cbv zeta in E.
    set (s1 := if r then emit (EGen x) s else rec_set_status x PENDING s) in E.
    set (s2 := if scheduled (attr g x) then s1 else rec_set_status x RUNNING s1) in E.
    assert (Ev2 : evs s2 = (if r then [EGen x] else []) ++ evs s).
    { subst s2 s1. destruct r, (scheduled (attr g x)); reflexivity. }
    destruct (next_sub s2) as [b s3] eqn:En. destruct (next_sub_spec _ _ _ En) as [l ->].
    destruct b.
    + inversion E; subst s'. exists (next_job (set_subs s2 l)).
      eexists (ESubmit x (kind_of r) (scheduled (attr g x)) (Some _) :: (if r then [EGen x] else [])).
      split; [cbn; rewrite Ev2; destruct r; reflexivity|left; destruct r; reflexivity].
    + apply IH in E. destruct E as (j & new & E1 & E2). exists j.
      exists (new ++ ESubmit x (if r then Restart else Main) (scheduled (attr g x)) None :: (if r then [EGen x] else [])).
      split; [rewrite E1; cbn; rewrite Ev2, <- app_assoc; reflexivity|apply in_app_iff; auto].
Qed.

Lemma execute_record_completed c g x r s new :
  evs (execute_record_gen c g x r s) = new ++ evs s ->
  In x (completed (execute_record_gen c g x r s)) -> ~ In x (completed s) -> x < length (recs s) ->
  status (getrec (execute_record_gen c g x r s) x) = DRYRUN \/
  exists k j, In (ESubmit x k false (Some j)) new.
Proof.
  unfold execute_record_gen.
  set (s1 := if negb r then emit (EGen x) s else s).
  assert (E1 : evs s1 = (if negb r then [EGen x] else []) ++ evs s) by (subst s1; destruct (negb r); reflexivity).
  assert (L1 : length (recs s1) = length (recs s)) by (subst s1; destruct (negb r); reflexivity).
  assert (C1 : completed s1 = completed s) by (subst s1; destruct (negb r); reflexivity).
  destruct (dry c).
  - intros _ _ _ Hl. left. change (status (getrec (rec_set_status x DRYRUN s1) x) = DRYRUN).
    rewrite getrec_set_status_eq by lia. reflexivity.
  - destruct (submit_attempts g x r (attempts c) s1) as [ok s2] eqn:E.
    destruct ok.
    + destruct (submit_attempts_ok_new g x r _ _ _ E) as (j & new2 & V1 & V2).
      apply submit_attempts_spec in E. destruct E as [[SS _ _ _ _] _ _ _]. destruct SS as (F1 & _).
      destruct (negb (scheduled (attr g x))) eqn:Sc.
      * intros En _ _ _. right. apply negb_true_iff in Sc. rewrite Sc in V2.
        change (evs s2 = new ++ evs s) in En. rewrite V1, E1, app_assoc in En. apply app_inv_tail in En.
        subst new. exists (kind_of r), j. apply in_app_iff. left. exact V2.
      * intros _ Hc Hn _. exfalso. apply Hn. unfold inprog_add in Hc. sp. rewrite F1, C1 in Hc. exact Hc.
    + apply submit_attempts_spec in E. destruct E as [[SS _ _ _ _] _ _ _]. destruct SS as (F1 & _).
      intros _ Hc Hn _. exfalso. apply Hn.
      destruct (mfl_frame (bfs_subtree g x) (inprog_remove x s2)) as (M & _). rewrite M in Hc.
      unfold inprog_remove in Hc. sp. rewrite F1, C1 in Hc. exact Hc.
Qed.

Lemma execute_record_outcome_new c g x r s : dry c = false ->
  let s' := execute_record_gen c g x r s in
  exists new, evs s' = new ++ evs s /\
    ((exists j, In (ESubmit x (kind_of r) (scheduled (attr g x)) (Some j)) new) \/
     In x (failed s')).
Proof.
  intros D. cbv zeta. unfold execute_record_gen. rewrite D.
  set (s1 := if negb r then emit (EGen x) s else s).
  assert (E1 : evs s1 = (if negb r then [EGen x] else []) ++ evs s) by (subst s1; destruct (negb r); reflexivity).
  destruct (submit_attempts g x r (attempts c) s1) as [ok s2] eqn:E. destruct ok.
  - destruct (submit_attempts_ok_new g x r _ _ _ E) as (j & new2 & V1 & V2).
    exists (new2 ++ (if negb r then [EGen x] else [])). split.
    + destruct (negb (scheduled (attr g x)));
        [change (evs s2 = (new2 ++ (if negb r then [EGen x] else [])) ++ evs s)
        |change (evs s2 = (new2 ++ (if negb r then [EGen x] else [])) ++ evs s)];
        rewrite V1, E1, app_assoc; reflexivity.
    + left. exists j. apply in_app_iff. auto.
  - apply submit_attempts_spec in E. destruct E as [_ _ _ (new2 & V1 & _)].
    destruct (mfl_frame (bfs_subtree g x) (inprog_remove x s2)) as (_ & _ & _ & _ & _ & _ & M & _).
    exists (new2 ++ (if negb r then [EGen x] else [])). split.
    + rewrite M. change (evs (inprog_remove x s2)) with (evs s2). rewrite V1, E1, app_assoc. reflexivity.
    + right. apply mfl_failed. left. apply bfs_subtree_root.
Qed.

(** * The event log of a poll *)
Definition subm_ev (e : event) : Prop :=
  (exists x, e = EGen x) \/ (exists x k sc res, e = ESubmit x k sc res).

Section Evs.
Variables (c : cfg) (g : graph) (p : pin) (L : list event).
Hypothesis Lc : cancel_req p = true -> exists js, In (ECancel js) L.
Hypothesis Lk : dry c = false -> exists js, In (ECheck js) L.

Definition Japp (a : conf) : Prop :=
  let '(t, _, _, _) := a in exists new, evs t = new ++ L /\ forall e, In e new -> subm_ev e.

Lemma sub_ev_subm x r e : sub_ev g x r e -> subm_ev e.
Proof. intros [->|[res ->]]; [left; eauto|right; eauto]. Qed.

Lemma Japp_step a b : pstep c g p a b -> Japp a -> Japp b.
Proof.
  intros St. destruct St as [t Cq I Ev0|t D I Ev0|t cl ca done x o t' cl' ca' D Q Hin Hnd Hinc I P Hx Cr Nm E
                            |t a cl ca done I P|t a ca done I P|t x done Hx I|t done I Cr]; unfold Japp.
  - intros (new & E & _). exfalso. destruct (Lc Cq) as [js Hjs]. rewrite Ev0 in E.
    destruct new; [cbn in E; subst L; destruct Hjs|discriminate].
  - intros (new & E & Hn). exfalso. destruct (Lk D) as [js Hjs].
    assert (H : In (ECheck js) (evs t)) by (rewrite E; apply in_app_iff; auto).
    destruct (Ev0 _ H) as [js' H']. discriminate.
  - intros (new & En & Hn).
    assert (Hlr : x < length (recs t)) by (rewrite (i_len_recs g t I); apply (i_bound g t I); auto).
    destruct (hr_frame c g t cl ca x o t' cl' ca' Hlr E) as [(Ev & _)|(_ & _ & _ & Et)].
    + exists new. rewrite Ev. auto.
    + destruct (execute_record_evs c g x true (rec_inc_restarts x (rec_set_status x TIMEDOUT t))) as (nw & V1 & V2 & _).
      rewrite <- Et in V1. change (evs (rec_inc_restarts x (rec_set_status x TIMEDOUT t))) with (evs t) in V1.
      exists (nw ++ new). split; [rewrite V1, En, app_assoc; reflexivity|].
      intros e He. apply in_app_iff in He. destruct He as [He|He]; auto. eapply sub_ev_subm; eauto.
  - intros H. exact H.
  - intros H. exact H.
  - intros (new & En & Hn). destruct (stage_node_frame g t x) as (_ & _ & _ & _ & _ & _ & F7 & _).
    exists new. rewrite F7. auto.
  - intros (new & En & Hn). unfold launch_body_gen. destruct (ready t) as [|x rest]; [eauto|].
    change (canceled (set_ready t rest)) with (canceled t). destruct (canceled t); [exists new; auto|].
    destruct (execute_record_evs c g x false (set_ready t rest)) as (nw & V1 & V2 & _).
    change (evs (set_ready t rest)) with (evs t) in V1.
    exists (nw ++ new). split; [rewrite V1, En, app_assoc; reflexivity|].
    intros e He. apply in_app_iff in He. destruct He as [He|He]; auto. eapply sub_ev_subm; eauto.
Qed.
End Evs.

(** the adapter calls of a poll: an optional cancel, the status query unless it is a dry run,
    then script generations and submissions only *)
Theorem poll_evs c g s p : WF g -> Inv g s -> valid_pin s p = true ->
  exists new, evs (fst (poll c g s p)) = new ++ evs (poll_mid c p s) /\ forall e, In e new -> subm_ev e.
Proof.
  intros W I V. destruct (poll_reach_mid c g p W s I V) as [_ R].
  assert (Lc : cancel_req p = true -> exists js, In (ECancel js) (evs (poll_mid c p s))).
  { intros Cq. unfold poll_mid. rewrite Cq. destruct (negb (dry c)); cbn; eauto. }
  assert (Lk : dry c = false -> exists js, In (ECheck js) (evs (poll_mid c p s))).
  { intros D. unfold poll_mid. rewrite D. cbn. eauto. }
  assert (J0 : Japp (evs (poll_mid c p s)) (poll_mid c p s, [], [], [])) by (exists []; split; [reflexivity|intros ? []]).
  exact (psteps_ind_inv c g p (Japp (evs (poll_mid c p s))) (Japp_step c g p _ Lc Lk) _ _ R J0).
Qed.

(** * Outcome of the submissions of a poll *)
Section Subs.
Variables (c : cfg) (g : graph) (p : pin).
Hypothesis W : WF g.

Definition has_ok (x : nat) (es : list event) : Prop := exists k sc j, In (ESubmit x k sc (Some j)) es.

Record Jb (t : st) (done : list report) : Prop := {
  jb_r : forall x sc res, In (ESubmit x Restart sc res) (evs t) -> In x (map fst done);
  jb_none : forall x k sc, In (ESubmit x k sc None) (evs t) -> has_ok x (evs t) \/ In x (failed t);
  jb_some : forall x, has_ok x (evs t) -> In x (inprog t) \/ In x (completed t) }.
Definition Jbc (a : conf) : Prop := let '(t, _, _, done) := a in Jb t done.

(** events of one _execute_record call, classified *)
Lemma er_events x r t :
  let t' := execute_record_gen c g x r t in
  exists new, evs t' = new ++ evs t /\ (forall e, In e new -> sub_ev g x r e) /\
    (forall k sc, In (ESubmit x k sc None) new -> has_ok x new \/ In x (failed t')) /\
    (has_ok x new -> In x (inprog t') \/ In x (completed t')).
Proof.
  cbv zeta. destruct (execute_record_evs c g x r t) as (new & V1 & V2 & V3 & _).
  exists new. splits; auto.
  - intros k sc H.
    assert (D : dry c = false).
    { destruct (dry c) eqn:D; auto. specialize (V3 eq_refl _ H). discriminate. }
    destruct (execute_record_outcome_new c g x r t D) as (new' & V1' & [[j Hj]|Hf]); auto.
    left. rewrite V1 in V1'. apply app_inv_tail in V1'. subst new'. unfold has_ok. eauto.
  - intros H. eapply execute_record_some; eauto.
Qed.

Lemma has_ok_app x a b : has_ok x (a ++ b) <-> has_ok x a \/ has_ok x b.
Proof.
  unfold has_ok. split.
  - intros (k & sc & j & H). apply in_app_iff in H. destruct H; eauto 6.
  - intros [(k & sc & j & H)|(k & sc & j & H)]; exists k, sc, j; apply in_app_iff; auto.
Qed.

Lemma has_ok_other x y r new : (forall e, In e new -> sub_ev g x r e) -> has_ok y new -> y = x.
Proof. intros H (k & sc & j & Hin). destruct (H _ Hin) as [E|[res E]]; inversion E; auto. Qed.

Lemma Jb_step a b : pstep c g p a b -> Jbc a -> Jbc b.
Proof.
  intros St. destruct St as [t Cq I Ev0|t D I Ev0|t cl ca done x o t' cl' ca' D Q Hin Hnd Hinc I P Hx Cr Nm E
                            |t a cl ca done I P|t a ca done I P|t x done Hx I|t done I Cr]; unfold Jbc.
  - intros [A1 A2 A3]. constructor.
    + intros x sc res [H|H]; [discriminate|eauto].
    + intros x k sc [H|H]; [discriminate|]. destruct (A2 x k sc H) as [(k' & sc' & j & B)|B]; auto.
      left. exists k', sc', j. right. exact B.
    + intros x (k & sc & j & [H|H]); [discriminate|]. apply A3. unfold has_ok. eauto.
  - intros [A1 A2 A3]. constructor.
    + intros x sc res [H|H]; [discriminate|eauto].
    + intros x k sc [H|H]; [discriminate|]. destruct (A2 x k sc H) as [(k' & sc' & j & B)|B]; auto.
      left. exists k', sc', j. right. exact B.
    + intros x (k & sc & j & [H|H]); [discriminate|]. apply A3. unfold has_ok. eauto.
  - intros [A1 A2 A3].
    assert (Hlr : x < length (recs t)) by (rewrite (i_len_recs g t I); apply (i_bound g t I); auto).
    (* all submissions so far are Restart submissions of nodes already dispatched *)
    assert (Old : forall y, has_ok y (evs t) -> y <> x).
    { intros y (k & sc & j & H) ->. destruct k; [exact (Nm x sc (Some j) H)|].
      apply Hnd. eapply A1; eauto. }
    destruct (hr_frame c g t cl ca x o t' cl' ca' Hlr E)
      as [(Ev & Rs & Ff & Cc & Kk & Rd & Ip & _)|(RB & -> & -> & Et)].
    + constructor; rewrite ?Ev.
      * intros y sc res H. rewrite map_app, in_app_iff. left. eauto.
      * intros y k sc H. destruct (A2 y k sc H); auto.
      * intros y H. destruct (A3 y H) as [B|B]; [left; apply Ip; auto|right; auto].
    + set (t1 := rec_inc_restarts x (rec_set_status x TIMEDOUT t)) in *.
      pose proof (execute_record_sets c g x true t1) as ES. rewrite <- Et in ES.
      destruct (er_events x true t1) as (new & V1 & V2 & V3 & V4). rewrite <- Et in V1, V3, V4.
      change (evs t1) with (evs t) in V1.
      constructor; rewrite ?V1.
      * intros y sc res H. rewrite map_app, in_app_iff. apply in_app_iff in H. destruct H as [H|H]; [|left; eauto].
        right. destruct (V2 _ H) as [B|[r B]]; inversion B. left. reflexivity.
      * intros y k sc H. apply in_app_iff in H. destruct H as [H|H].
        -- assert (y = x) by (destruct (V2 _ H) as [B|[r B]]; inversion B; auto). subst y.
           destruct (V3 k sc H) as [B|B]; auto. left. apply has_ok_app. auto.
        -- destruct (A2 y k sc H) as [B|B]; [left; apply has_ok_app; auto|right; apply (er_f1 _ _ _ _ ES); auto].
      * intros y H. apply has_ok_app in H. destruct H as [H|H].
        -- assert (y = x) by (eapply has_ok_other; eauto). subst y. auto.
        -- destruct (A3 y H) as [B|B]; [left; apply (er_i1 _ _ _ _ ES); auto|right; apply (er_c1 _ _ _ _ ES); auto].
  - intros [A1 A2 A3]. constructor; auto.
    intros x k sc H. destruct (A2 x k sc H) as [B|B]; auto. right.
    unfold rec_set_status, failed_add. sp. apply In_sadd. auto.
  - intros [A1 A2 A3]. constructor; auto.
  - intros [A1 A2 A3]. destruct (stage_node_frame g t x) as (F1 & F2 & F3 & _ & _ & _ & F7 & _).
    constructor; rewrite ?F1, ?F2, ?F3, ?F7; auto.
  - intros [A1 A2 A3]. unfold launch_body_gen. destruct (ready t) as [|x rest] eqn:E; [constructor; auto|].
    destruct (ready_head_facts g t x rest I E) as (Hl & Hc & Hi & Hr & Hf & Hca & Hp).
    change (canceled (set_ready t rest)) with (canceled t). destruct (canceled t) eqn:Cn; [constructor; auto|].
    set (t1 := set_ready t rest).
    pose proof (execute_record_sets c g x false t1) as ES.
    destruct (er_events x false t1) as (new & V1 & V2 & V3 & V4). change (evs t1) with (evs t) in V1.
    assert (Old : forall y, has_ok y (evs t) -> y <> x).
    { intros y H ->. destruct (A3 x H); contradiction. }
    constructor; rewrite ?V1.
    + intros y sc res H. apply in_app_iff in H. destruct H as [H|H]; [|eauto].
      destruct (V2 _ H) as [B|[r B]]; inversion B.
    + intros y k sc H. apply in_app_iff in H. destruct H as [H|H].
      * assert (y = x) by (destruct (V2 _ H) as [B|[r B]]; inversion B; auto). subst y.
        destruct (V3 k sc H) as [B|B]; auto. left. apply has_ok_app. auto.
      * destruct (A2 y k sc H) as [B|B]; [left; apply has_ok_app; auto|right; apply (er_f1 _ _ _ _ ES); auto].
    + intros y H. apply has_ok_app in H. destruct H as [H|H].
      * assert (y = x) by (eapply has_ok_other; eauto). subst y. auto.
      * destruct (A3 y H) as [B|B]; [left; apply (er_i1 _ _ _ _ ES); auto|right; apply (er_c1 _ _ _ _ ES); auto].
Qed.
End Subs.

Theorem poll_subs c g s p : WF g -> Inv g s -> valid_pin s p = true ->
  let s' := fst (poll c g s p) in
  (forall x k sc, In (ESubmit x k sc None) (evs s') -> has_ok x (evs s') \/ In x (failed s')) /\
  (forall x, has_ok x (evs s') -> In x (inprog s') \/ In x (completed s')).
Proof.
  intros W I V. cbv zeta. pose proof (poll_reach c g p W s I V) as R.
  assert (J0 : Jbc (conf0 s p)) by (unfold Jbc, conf0, poll_start; constructor; cbn; [intros ? ? ? []|intros ? ? ? []|intros ? (? & ? & ? & [])]).
  pose proof (psteps_ind_inv c g p Jbc (Jb_step c g p) _ _ R J0) as [A1 A2 A3]. auto.
Qed.

(** * Records touched by _execute_record, once more *)
Lemma execute_record_recs2 c g x r s : WF g -> Inv g s -> x < length g ->
  let s' := execute_record_gen c g x r s in
  (forall y, y <> x -> getrec s' y = getrec s y \/
     (In y (bfs_subtree g x) /\ status (getrec s' y) = FAILED /\ forall z, In z (bfs_subtree g x) -> In z (failed s'))) /\
  (fc_status (status (getrec s' x)) -> fc_status (status (getrec s x)) \/ In x (failed s')).
Proof.
  intros W I Hx. cbv zeta. unfold execute_record_gen.
  set (s1 := if negb r then emit (EGen x) s else s).
  assert (G1 : forall y, getrec s1 y = getrec s y) by (subst s1; destruct (negb r); reflexivity).
  assert (L1 : length (recs s1) = length g).
  { rewrite <- (i_len_recs g s I). subst s1; destruct (negb r); reflexivity. }
  destruct (dry c).
  - split.
    + intros y Hn. left. change (getrec (rec_set_status x DRYRUN s1) y = getrec s y).
      rewrite getrec_set_status_neq, G1; auto.
    + change (fc_status (status (getrec (rec_set_status x DRYRUN s1) x)) -> fc_status (status (getrec s x)) \/ In x (failed (completed_add x (rec_set_status x DRYRUN s1)))).
      rewrite getrec_set_status_eq by lia. cbn. intros [H|H]; discriminate.
  - destruct (submit_attempts g x r (attempts c) s1) as [ok s2] eqn:E.
    apply submit_attempts_spec in E. destruct E as [R _ _ _]. destruct R as [SS RL RO RR RS].
    assert (St2 : fc_status (status (getrec s2 x)) -> fc_status (status (getrec s x))).
    { rewrite <- G1. destruct RS as [E|[E|E]]; rewrite E; auto; intros [H|H]; discriminate. }
    destruct ok.
    + destruct (negb (scheduled (attr g x))).
      * split.
        -- intros y Hn. left. change (getrec (rec_set_status x FINISHED (inprog_add x s2)) y = getrec s y).
           rewrite getrec_set_status_neq by auto. change (getrec s2 y = getrec s y). rewrite RO, G1; auto.
        -- change (fc_status (status (getrec (rec_set_status x FINISHED (inprog_add x s2)) x)) -> fc_status (status (getrec s x)) \/
                   In x (failed (inprog_remove x (completed_add x (rec_set_status x FINISHED (inprog_add x s2)))))).
           rewrite getrec_set_status_eq by (unfold inprog_add; sp; lia). cbn. intros [H|H]; discriminate.
      * split.
        -- intros y Hn. left. change (getrec s2 y = getrec s y). rewrite RO, G1; auto.
        -- intros H. left. apply St2. exact H.
    + set (s3 := inprog_remove x s2).
      assert (L3 : length (recs s3) = length g) by (unfold s3, inprog_remove; sp; lia).
      split.
      * intros y Hn. destruct (in_dec Nat.eq_dec y (bfs_subtree g x)) as [Hb|Hb].
        -- right. splits; auto.
           ++ apply mfl_status_in; auto. rewrite L3. eapply bfs_subtree_lt; eauto.
           ++ intros z Hz. apply mfl_failed. auto.
        -- left. rewrite mfl_getrec_notin by auto. change (getrec s2 y = getrec s y). rewrite RO, G1; auto.
      * intros _. right. apply mfl_failed. left. apply bfs_subtree_root.
Qed.

(** * Provenance of completed nodes *)
Section Comp.
Variables (c : cfg) (g : graph) (p : pin) (s : st).
Hypothesis W : WF g.

Definition prov (t : st) (done : list report) (x : nat) : Prop :=
  In (x, Some FINISHED) done \/ (exists k j, In (ESubmit x k false (Some j)) (evs t)) \/
  status (getrec t x) = DRYRUN.

Record Jc (t : st) (done : list report) : Prop := {
  jc_mono : forall x, In x (completed s) -> In x (completed t);
  jc_keep : forall x, In x (completed s) -> getrec t x = getrec s x;
  jc_prov : forall x, In x (completed t) -> In x (completed s) \/ prov t done x }.
Definition Jcc (a : conf) : Prop := let '(t, _, _, done) := a in Jc t done.

Lemma Jc_next t done t' done' :
  (forall x, In x (completed t) -> getrec t' x = getrec t x) ->
  (forall x, In x (completed t) -> In x (completed t')) ->
  (forall e, In e (evs t) -> In e (evs t')) -> incl done done' ->
  (forall x, In x (completed t') -> In x (completed t) \/ prov t' done' x) ->
  Jc t done -> Jc t' done'.
Proof.
  intros K M E D N [A1 A2 A3]. constructor.
  - auto.
  - intros x Hx. rewrite K; auto.
  - intros x Hx. destruct (N x Hx) as [H|H]; auto.
    destruct (A3 x H) as [B|[B|[(k & j & B)|B]]]; auto; right; unfold prov.
    + left. auto.
    + right. left. exists k, j. auto.
    + right. right. rewrite K; auto.
Qed.

Lemma Jc_step a b : pstep c g p a b -> Jcc a -> Jcc b.
Proof.
  intros St. destruct St as [t Cq I Ev0|t D I Ev0|t cl ca done x o t' cl' ca' D Q Hin Hnd Hinc I P Hx Cr Nm E
                            |t a cl ca done I P|t a ca done I P|t x done Hx I|t done I Cr]; unfold Jcc.
  - apply Jc_next; auto; try apply incl_refl. intros e He. right. exact He.
  - apply Jc_next; auto; try apply incl_refl. intros e He. right. exact He.
  - destruct (inprog_facts g t x I Hx) as (Hl & Hc & Hr & Hf & Hca & Hp & Hi).
    assert (Hlr : x < length (recs t)) by (rewrite (i_len_recs g t I); exact Hl).
    destruct (hr_mono c g t cl ca x o t' cl' ca' I P Hx E) as (M1 & M2 & M3 & M4 & M5).
    destruct (hr_bounds c g t cl ca x o t' cl' ca' W I Hx E) as (B1 & B2 & B3 & B4 & B5 & B6).
    apply Jc_next; auto.
    + intros y Hy. apply B4. intros Hb. destruct (pend_bfs g t x W I Hx y Hb) as (_ & A & _). contradiction.
    + intros z Hz. apply in_app_iff. auto.
    + (* new completed members *)
      intros y Hy. unfold handle_report_gen in E.
      destruct o as [[]|]; cbn [oeqb state_eqb] in E; try (inversion E; subst t' cl' ca'; left; exact Hy).
      * inversion E; subst t' cl' ca'; clear E.
        unfold inprog_remove, completed_add, rec_set_status in Hy. sp. apply In_sadd in Hy.
        destruct Hy as [->|Hy]; auto. right. left. apply in_app_iff. right. left. reflexivity.
      * destruct (has_restart (attr g x) && negb (canceled t)); [|inversion E; subst t' cl' ca'; left; exact Hy].
        unfold mark_restart_gen in E.
        destruct ((rlimit (attr g x) =? 0) || (restarts (getrec (rec_set_status x TIMEDOUT t) x) <? rlimit (attr g x)));
          [|inversion E; subst t' cl' ca'; left; exact Hy].
        inversion E; subst t' cl' ca'; clear E.
        set (t1 := rec_inc_restarts x (rec_set_status x TIMEDOUT t)) in *.
        pose proof (execute_record_sets c g x true t1) as ES.
        destruct (er_c2 _ _ _ _ ES y Hy) as [->|Hy']; [|left; exact Hy'].
        destruct (execute_record_evs c g x true t1) as (new & V1 & _).
        assert (Hl1 : x < length (recs t1)) by (unfold t1; rewrite len_recs_inc_restarts, len_recs_set_status; exact Hlr).
        destruct (execute_record_completed c g x true t1 new V1 Hy Hc Hl1) as [Hd|(k & j & Hk)].
        -- right. right. right. exact Hd.
        -- right. right. left. exists k, j. rewrite V1. apply in_app_iff. auto.
  - destruct (P a) as (Al & Ac & Ai & Ar); [left; left; reflexivity|].
    apply Jc_next; auto; try apply incl_refl.
    intros y Hy. rewrite getrec_set_status_neq; [reflexivity|]. intros ->. contradiction.
  - destruct (P a) as (Al & Ac & Ai & Ar); [right; left; reflexivity|].
    apply Jc_next; auto; try apply incl_refl.
    intros y Hy. rewrite getrec_set_status_neq; [reflexivity|]. intros ->. contradiction.
  - destruct (stage_node_frame g t x) as (F1 & _ & _ & _ & F5 & _ & F7 & _).
    apply Jc_next; unfold getrec; rewrite ?F1, ?F5, ?F7; auto; try apply incl_refl.
  - unfold launch_body_gen. destruct (ready t) as [|x rest] eqn:E; auto.
    destruct (ready_head_facts g t x rest I E) as (Hl & Hc & Hi & Hr & Hf & Hca & Hp).
    pose proof (Inv_pop g x rest t I E) as I1.
    change (canceled (set_ready t rest)) with (canceled t). destruct (canceled t) eqn:Cn.
    + apply Jc_next; auto; try apply incl_refl.
      intros y Hy. change (getrec (rec_set_status x CANCELLED t) y = getrec t y).
      rewrite getrec_set_status_neq; [reflexivity|]. intros ->. contradiction.
    + set (t1 := set_ready t rest).
      pose proof (execute_record_sets c g x false t1) as ES.
      destruct (execute_record_evs c g x false t1) as (new & V1 & _).
      destruct (execute_record_recs2 c g x false t1 W I1 Hl) as (R2 & _).
      apply Jc_next; try apply incl_refl.
      * intros y Hy. assert (Hne : y <> x) by (intros ->; contradiction).
        destruct (R2 y Hne) as [R|(B & _)]; [exact R|]. exfalso.
        destruct (desc_untracked g t x y W I (bfs_subtree_sound g x y W Hl B) (fun E' => Hne (eq_sym E')) Hc) as (A & _).
        contradiction.
      * apply (er_c1 _ _ _ _ ES).
      * intros e He. rewrite V1. apply in_app_iff. right. exact He.
      * intros y Hy. destruct (er_c2 _ _ _ _ ES y Hy) as [->|Hy']; [|left; exact Hy'].
        assert (Hl1 : x < length (recs t1)) by (unfold t1; sp; rewrite (i_len_recs g t I); exact Hl).
        destruct (execute_record_completed c g x false t1 new V1 Hy Hc Hl1) as [Hd|(k & j & Hk)].
        -- right. right. right. exact Hd.
        -- right. right. left. exists k, j. rewrite V1. apply in_app_iff. auto.
Qed.

Lemma Jc_start : Jcc (conf0 s p).
Proof. unfold Jcc, conf0, poll_start. constructor; auto. Qed.
End Comp.

Theorem poll_completed c g s p : WF g -> Inv g s -> valid_pin s p = true ->
  let s' := fst (poll c g s p) in
  (forall x, In x (completed s) -> getrec s' x = getrec s x) /\
  (forall x, In x (completed s') -> In x (completed s) \/ prov s' (done_final c p) x).
Proof.
  intros W I V. cbv zeta. pose proof (poll_reach c g p W s I V) as R.
  pose proof (psteps_ind_inv c g p (Jcc s) (Jc_step c g p s W) _ _ R (Jc_start p s)) as [A1 A2 A3]. auto.
Qed.

(** * Status FAILED/CANCELLED means failed/cancelled; own-cancelled nodes keep their status *)
Ltac gsn5 := unfold getrec, inprog_remove, failed_add, completed_add, rec_set_status; sp; apply nth_upd_neq; auto.

Lemma hr_ja c g t cl ca x o t' cl' ca' : WF g -> Inv g t -> Pend g t cl ca -> In x (inprog t) ->
  ~ fc_status (status (getrec t x)) ->
  handle_report_gen c g (t, cl, ca) (x, o) = (t', cl', ca') ->
  (forall y, y <> x -> getrec t' y = getrec t y \/
     (In y (bfs_subtree g x) /\ status (getrec t' y) = FAILED /\ forall z, In z (bfs_subtree g x) -> In z (failed t'))) /\
  (fc_status (status (getrec t' x)) -> In x (failed t') \/ In x cl' \/ In x ca') /\
  (In x ca' -> status (getrec t' x) = CANCELLED) /\
  (In x cl' -> ~ In x ca').
Proof.
  intros W I P Hx Hnf E.
  destruct (inprog_facts g t x I Hx) as (Hl & Hc & Hr & Hf & Hca & Hp & Hi).
  assert (Hlr : x < length (recs t)) by (rewrite (i_len_recs g t I); exact Hl).
  assert (Pcl : ~ In x cl) by (intros H; destruct (P x) as (_ & _ & A & _); auto).
  assert (Pca : ~ In x ca) by (intros H; destruct (P x) as (_ & _ & A & _); auto).
  assert (Oth : forall v s0, (forall y, getrec s0 y = getrec t y) ->
            forall y, y <> x -> getrec (rec_set_status x v s0) y = getrec t y \/
              (In y (bfs_subtree g x) /\ status (getrec (rec_set_status x v s0) y) = FAILED /\
               forall z, In z (bfs_subtree g x) -> In z (failed (rec_set_status x v s0)))).
  { intros v s0 H0 y Hn. left. rewrite getrec_set_status_neq by auto. apply H0. }
  assert (Stx : forall v s0, length (recs s0) = length (recs t) -> status (getrec (rec_set_status x v s0) x) = v).
  { intros v s0 H0. rewrite getrec_set_status_eq by (rewrite H0; exact Hlr). reflexivity. }
  unfold handle_report_gen in E.
  destruct o as [[]|]; cbn [oeqb state_eqb] in E;
    try (inversion E; subst t' cl' ca'; clear E; splits; [intros y Hn; left; reflexivity|tauto|tauto|tauto]).
  - (* RUNNING *)
    inversion E; subst t' cl' ca'; clear E. splits; [intros y Hn; left; gsn5| |tauto|tauto].
    rewrite Stx by reflexivity. intros [H|H]; discriminate.
  - (* FINISHED *)
    inversion E; subst t' cl' ca'; clear E. splits; [intros y Hn; left; gsn5| |tauto|tauto].
    change (fc_status (status (getrec (rec_set_status x FINISHED t) x)) -> In x (failed t) \/ In x cl \/ In x ca).
    rewrite Stx by reflexivity. intros [H|H]; discriminate.
  - (* FAILED *)
    inversion E; subst t' cl' ca'; clear E. splits; [intros y Hn; left; gsn5| |tauto|tauto].
    intros _. right. left. apply In_set_union. left. apply bfs_subtree_root.
  - (* TIMEDOUT *)
    destruct (has_restart (attr g x) && negb (canceled t)).
    + unfold mark_restart_gen in E.
      destruct ((rlimit (attr g x) =? 0) || (restarts (getrec (rec_set_status x TIMEDOUT t) x) <? rlimit (attr g x))).
      * inversion E; subst t' cl' ca'; clear E.
        set (t1 := rec_inc_restarts x (rec_set_status x TIMEDOUT t)) in *.
        assert (I1 : Inv g t1) by (apply Inv_inc_restarts, Inv_set_status; [discriminate|auto]).
        destruct (execute_record_recs2 c g x true t1 W I1 Hl) as (R2 & R3).
        splits; [| |tauto|tauto].
        -- intros y Hn. destruct (R2 y Hn) as [R|R]; [left|right; exact R].
           rewrite R. unfold t1. rewrite getrec_inc_restarts_neq by auto. apply getrec_set_status_neq. auto.
        -- intros H. destruct (R3 H) as [H'|H']; auto. exfalso. unfold t1 in H'.
           rewrite status_inc_restarts, Stx in H' by reflexivity. destruct H'; discriminate.
      * inversion E; subst t' cl' ca'; clear E. splits; [intros y Hn; left; gsn5| |tauto|tauto].
        change (fc_status (status (getrec (rec_set_status x TIMEDOUT t) x)) ->
                In x (failed t) \/ In x (set_union (bfs_subtree g x) cl) \/ In x ca).
        rewrite Stx by reflexivity. intros [H|H]; discriminate.
    + inversion E; subst t' cl' ca'; clear E. splits; [intros y Hn; left; gsn5| |tauto|].
      * change (fc_status (status (getrec (rec_set_status x TIMEDOUT t) x)) -> In x (failed (failed_add x (inprog_remove x (rec_set_status x TIMEDOUT t)))) \/
                In x (srem x (set_union (bfs_subtree g x) cl)) \/ In x ca).
        rewrite Stx by reflexivity. intros [H|H]; discriminate.
      * rewrite In_srem. tauto.
  - (* UNKNOWN *)
    inversion E; subst t' cl' ca'; clear E. splits; [intros y Hn; left; gsn5| |tauto|tauto].
    change (fc_status (status (getrec (rec_set_status x UNKNOWN t) x)) -> In x (failed t) \/ In x (set_union (bfs_subtree g x) cl) \/ In x ca).
    rewrite Stx by reflexivity. intros [H|H]; discriminate.
  - (* CANCELLED *)
    inversion E; subst t' cl' ca'; clear E. splits; [intros y Hn; left; gsn5| | |tauto].
    + intros _. right. right. apply In_set_union. left. apply bfs_subtree_root.
    + intros _. apply Stx. reflexivity.
Qed.

Section Ja.
Variables (c : cfg) (g : graph) (p : pin).
Hypothesis W : WF g.

Definition blocked (t : st) (cl ca : list nat) (a : nat) : Prop :=
  exists q, In q (parents (attr g a)) /\ U t cl ca q.

Record Ja (t : st) (cl ca : list nat) : Prop := {
  ja_conv : forall x, fc_status (status (getrec t x)) -> U t cl ca x;
  ja_blk : forall a, In a cl -> In a (cancelled t) \/ In a ca -> blocked t cl ca a;
  ja_e6 : forall x, In x (cancelled t) \/ In x ca -> status (getrec t x) = CANCELLED \/ blocked t cl ca x }.
Definition Jac (a : conf) : Prop := let '(t, cl, ca, _) := a in Ja t cl ca.

Lemma blocked_mono t cl ca t' cl' ca' a :
  (forall y, U t cl ca y -> U t' cl' ca' y) -> blocked t cl ca a -> blocked t' cl' ca' a.
Proof. intros H (q & A & B). exists q. auto. Qed.

(** strict members of a collected sub-tree are blocked once the whole sub-tree is pending/failed *)
Lemma bfs_blocked t cl ca x y : x < length g -> In y (bfs_subtree g x) -> y <> x ->
  (forall z, In z (bfs_subtree g x) -> U t cl ca z) -> blocked t cl ca y.
Proof. intros Hx Hy Hn H. exact (bfs_member_parent g x y (U t cl ca) W Hx Hy Hn H). Qed.

Lemma Ja_report t cl ca x o t' cl' ca' : Inv g t -> Pend g t cl ca -> In x (inprog t) ->
  handle_report_gen c g (t, cl, ca) (x, o) = (t', cl', ca') -> Ja t cl ca -> Ja t' cl' ca'.
Proof.
  intros I P Hx E [A1 A2 A3].
  destruct (inprog_facts g t x I Hx) as (Hl & Hc & Hr & Hf & Hca & Hp & Hi).
  assert (Pcl : ~ In x cl) by (intros H; destruct (P x) as (_ & _ & A & _); auto).
  assert (Pca : ~ In x ca) by (intros H; destruct (P x) as (_ & _ & A & _); auto).
  assert (Hnf : ~ fc_status (status (getrec t x))).
  { intros H. destruct (A1 x H) as [B|[B|[B|B]]]; contradiction. }
  destruct (hr_ja c g t cl ca x o t' cl' ca' W I P Hx Hnf E) as (H1 & H2 & H3 & H4).
  destruct (hr_mono c g t cl ca x o t' cl' ca' I P Hx E) as (M1 & M2 & M3 & M4 & M5).
  destruct (hr_bounds c g t cl ca x o t' cl' ca' W I Hx E) as (B1 & B2 & B3 & B4 & B5 & B6).
  (* whenever something new is collected, the whole sub-tree of x is pending or failed *)
  assert (Whole : (cl' <> cl \/ ca' <> ca \/ exists z, In z (failed t') /\ ~ In z (failed t)) ->
                  forall z, In z (bfs_subtree g x) -> U t' cl' ca' z).
  { intros Hd. destruct B6 as [(E1 & E2 & E3)|[_ Ball]].
    - exfalso. destruct Hd as [Hd|[Hd|(z & Z1 & Z2)]]; [congruence|congruence|]. apply Z2, E3, Z1.
    - intros z Hz. unfold U. destruct (Ball z Hz) as [H|[H|H]]; auto. }
  assert (NewCl : forall a, In a cl' -> ~ In a cl -> In a (bfs_subtree g x) /\ cl' <> cl).
  { intros a Ha Hn. destruct (B1 a Ha) as [H|H]; [contradiction|]. split; auto. intros E'. rewrite E' in Ha. contradiction. }
  assert (NewCa : forall a, In a ca' -> ~ In a ca -> In a (bfs_subtree g x) /\ ca' <> ca).
  { intros a Ha Hn. destruct (B2 a Ha) as [H|H]; [contradiction|]. split; auto. intros E'. rewrite E' in Ha. contradiction. }
  constructor.
  - (* status FAILED/CANCELLED -> pending or failed/cancelled *)
    intros y Hy. destruct (Nat.eq_dec y x) as [->|Hn].
    + unfold U. destruct (H2 Hy) as [H|[H|H]]; auto.
    + destruct (H1 y Hn) as [R|(Hb & Hs & Hw)].
      * apply M1. apply A1. rewrite <- R. exact Hy.
      * unfold U. left. apply Hw. exact Hb.
  - (* members of both accumulators are blocked *)
    intros a Ha Hc'. rewrite M5 in Hc'.
    destruct (in_dec Nat.eq_dec a cl) as [Hic|Hni].
    + destruct Hc' as [Hc'|Hc'].
      * eapply blocked_mono; [exact M1|]. apply A2; auto.
      * destruct (in_dec Nat.eq_dec a ca) as [Hj|Hnj]; [eapply blocked_mono; [exact M1|]; apply A2; auto|].
        destruct (NewCa a Hc' Hnj) as [Hb Hd].
        apply (bfs_blocked t' cl' ca' x a Hl Hb); [intros ->; contradiction|]. apply Whole. auto.
    + destruct (NewCl a Ha Hni) as [Hb Hd].
      assert (Hne : a <> x).
      { intros ->. destruct Hc' as [Hc'|Hc']; [contradiction|]. exact (H4 Ha Hc'). }
      apply (bfs_blocked t' cl' ca' x a Hl Hb Hne). apply Whole. auto.
  - (* cancelled nodes: CANCELLED or blocked *)
    intros y Hy. rewrite M5 in Hy.
    destruct (Nat.eq_dec y x) as [->|Hn].
    + destruct Hy as [Hy|Hy]; [contradiction|]. left. auto.
    + assert (Old : In y (cancelled t) \/ In y ca -> status (getrec t' y) = CANCELLED \/ blocked t' cl' ca' y).
      { intros Ho. destruct (A3 y Ho) as [Hs|Hb]; [|right; eapply blocked_mono; [exact M1|exact Hb]].
        destruct (H1 y Hn) as [R|(Hb & _ & Hw)]; [left; rewrite R; exact Hs|].
        right. apply (bfs_blocked t' cl' ca' x y Hl Hb Hn). intros z Hz. unfold U. left. auto. }
      destruct Hy as [Hy|Hy]; [auto|].
      destruct (in_dec Nat.eq_dec y ca) as [Hj|Hnj]; [auto|].
      destruct (NewCa y Hy Hnj) as [Hb Hd]. right.
      apply (bfs_blocked t' cl' ca' x y Hl Hb Hn). apply Whole. auto.
Qed.

Lemma Ja_step a b : pstep c g p a b -> Jac a -> Jac b.
Proof.
  intros St. destruct St as [t Cq I Ev0|t D I Ev0|t cl ca done x o t' cl' ca' D Q Hin Hnd Hinc I P Hx Cr Nm E
                            |t a cl ca done I P|t a ca done I P|t x done Hx I|t done I Cr]; unfold Jac.
  - intros [A1 A2 A3]. constructor; auto.
  - intros [A1 A2 A3]. constructor; auto.
  - eapply Ja_report; eauto.
  - (* sweep failed *)
    intros [A1 A2 A3]. destruct (P a) as (Al & Ac & Ai & Ar); [left; left; reflexivity|].
    assert (Hlr : a < length (recs t)) by (rewrite (i_len_recs g t I); exact Al).
    assert (MU : forall y, U t (a :: cl) ca y -> U (rec_set_status a FAILED (failed_add a t)) cl ca y).
    { intros y. unfold U, rec_set_status, failed_add. sp. rewrite In_sadd. cbn [In]. intuition (subst; auto 6). }
    constructor.
    + intros y Hy. destruct (Nat.eq_dec a y) as [->|Hn].
      * unfold U, rec_set_status, failed_add. sp. left. apply In_sadd. auto.
      * apply MU. apply A1. rewrite getrec_set_status_neq in Hy by auto. exact Hy.
    + intros a' Ha' Hc'. eapply blocked_mono; [exact MU|]. apply A2; [right; exact Ha'|exact Hc'].
    + intros y Hy. destruct (Nat.eq_dec a y) as [->|Hn].
      * right. eapply blocked_mono; [exact MU|]. apply A2; [left; reflexivity|exact Hy].
      * rewrite getrec_set_status_neq by auto. destruct (A3 y Hy) as [H|H]; auto.
        right. eapply blocked_mono; [exact MU|exact H].
  - (* sweep cancelled *)
    intros [A1 A2 A3]. destruct (P a) as (Al & Ac & Ai & Ar); [right; left; reflexivity|].
    assert (Hlr : a < length (recs t)) by (rewrite (i_len_recs g t I); exact Al).
    assert (MU : forall y, U t [] (a :: ca) y -> U (rec_set_status a CANCELLED (cancelled_add a t)) [] ca y).
    { intros y. unfold U, rec_set_status, cancelled_add. sp. rewrite In_sadd. cbn [In]. intuition (subst; auto 6). }
    constructor.
    + intros y Hy. destruct (Nat.eq_dec a y) as [->|Hn].
      * unfold U, rec_set_status, cancelled_add. sp. right. left. apply In_sadd. auto.
      * apply MU. apply A1. rewrite getrec_set_status_neq in Hy by auto. exact Hy.
    + intros a' [].
    + intros y Hy. destruct (Nat.eq_dec a y) as [->|Hn].
      * left. change (status (getrec (rec_set_status y CANCELLED (cancelled_add y t)) y) = CANCELLED).
        rewrite getrec_set_status_eq; auto.
      * rewrite getrec_set_status_neq by auto.
        assert (Hy' : In y (cancelled t) \/ In y (a :: ca)).
        { unfold rec_set_status, cancelled_add in Hy. sp. rewrite In_sadd in Hy. cbn [In]. intuition. }
        destruct (A3 y Hy') as [H|H]; auto. right. eapply blocked_mono; [exact MU|exact H].
  - (* stage *)
    intros [A1 A2 A3]. destruct (stage_node_frame g t x) as (F1 & F2 & F3 & F4 & F5 & _).
    constructor; unfold blocked, U, getrec in *; rewrite ?F3, ?F4, ?F5; auto.
  - (* launch *)
    intros J. unfold launch_body_gen. destruct (ready t) as [|x rest] eqn:E; auto.
    destruct (ready_head_facts g t x rest I E) as (Hl & Hc & Hi & Hr & Hf & Hca & Hp).
    pose proof (Inv_pop g x rest t I E) as I1.
    destruct J as [A1 A2 A3].
    assert (Hlr : x < length (recs t)) by (rewrite (i_len_recs g t I); exact Hl).
    assert (Hnf : ~ fc_status (status (getrec t x))).
    { intros H. destruct (A1 x H) as [B|[B|[[]|[]]]]; contradiction. }
    change (canceled (set_ready t rest)) with (canceled t). destruct (canceled t) eqn:Cn.
    + assert (MU : forall y, U t [] [] y -> U (cancelled_add x (rec_set_status x CANCELLED (set_ready t rest))) [] [] y).
      { intros y. unfold U, rec_set_status, cancelled_add. sp. rewrite In_sadd. tauto. }
      constructor.
      * intros y Hy. destruct (Nat.eq_dec x y) as [->|Hn].
        -- unfold U, rec_set_status, cancelled_add. sp. right. left. apply In_sadd. auto.
        -- apply MU. apply A1. change (fc_status (status (getrec (rec_set_status x CANCELLED t) y))) in Hy.
           rewrite getrec_set_status_neq in Hy by auto. exact Hy.
      * intros a [].
      * intros y Hy. destruct (Nat.eq_dec x y) as [->|Hn].
        -- left. change (status (getrec (rec_set_status y CANCELLED t) y) = CANCELLED).
           rewrite getrec_set_status_eq; auto.
        -- change (status (getrec (rec_set_status x CANCELLED t) y) = CANCELLED \/ blocked (cancelled_add x (rec_set_status x CANCELLED (set_ready t rest))) [] [] y).
           rewrite getrec_set_status_neq by auto.
           assert (Hy' : In y (cancelled t) \/ In y []).
           { unfold rec_set_status, cancelled_add in Hy. sp. rewrite In_sadd in Hy.
             destruct Hy as [[Hy|Hy]|[]]; [congruence|auto]. }
           destruct (A3 y Hy') as [H|H]; auto. right. eapply blocked_mono; [exact MU|exact H].
    + set (t1 := set_ready t rest).
      pose proof (execute_record_sets c g x false t1) as ES.
      destruct (execute_record_recs2 c g x false t1 W I1 Hl) as (R2 & R3).
      assert (MU : forall y, U t [] [] y -> U (execute_record_gen c g x false t1) [] [] y).
      { intros y [H|[H|H]]; unfold U; rewrite ?(er_cancelled _ _ _ _ ES); auto.
        left. apply (er_f1 _ _ _ _ ES). exact H. }
      constructor.
      * intros y Hy. destruct (Nat.eq_dec y x) as [->|Hn].
        -- destruct (R3 Hy) as [H|H]; [contradiction|]. unfold U. auto.
        -- destruct (R2 y Hn) as [R|(Hb & _ & Hw)].
           ++ apply MU. apply A1. change (getrec t1 y) with (getrec t y) in R. rewrite <- R. exact Hy.
           ++ unfold U. left. auto.
      * intros a [].
      * intros y Hy. rewrite (er_cancelled _ _ _ _ ES) in Hy. change (cancelled t1) with (cancelled t) in Hy.
        assert (Hn : y <> x) by (intros ->; destruct Hy as [Hy|[]]; contradiction).
        destruct (A3 y Hy) as [Hs|Hb]; [|right; eapply blocked_mono; [exact MU|exact Hb]].
        destruct (R2 y Hn) as [R|(Hb & _ & Hw)]; [left; rewrite R; exact Hs|].
        right. apply (bfs_blocked _ [] [] x y Hl Hb Hn). intros z Hz. unfold U. left. auto.
Qed.

Lemma Ja_boundary t : Inv g t -> Ja t [] [] ->
  (forall x, fc_status (status (getrec t x)) -> FC t x) /\
  (forall x, In x (cancelled t) -> incl (parents (attr g x)) (completed t) -> status (getrec t x) = CANCELLED).
Proof.
  intros I [A1 A2 A3]. split.
  - intros x Hx. destruct (A1 x Hx) as [H|[H|[[]|[]]]]; unfold FC; auto.
  - intros x Hx Hp. destruct (A3 x (or_introl Hx)) as [H|(q & Q1 & Q2)]; auto. exfalso.
    assert (Fq : In q (failed t) \/ In q (cancelled t)) by (destruct Q2 as [H|[H|[[]|[]]]]; auto).
    destruct (i_dj_fc g t I q Fq) as [A _]. apply A. apply Hp. exact Q1.
Qed.
End Ja.

(** the invariant holds in every state after every poll once it holds before *)
Theorem poll_Ja c g s p : WF g -> Inv g s -> valid_pin s p = true -> Ja g s [] [] ->
  Ja g (fst (poll c g s p)) [] [].
Proof.
  intros W I V J. pose proof (poll_reach c g p W s I V) as R.
  assert (J0 : Jac g (conf0 s p)).
  { unfold Jac, conf0, poll_start. destruct J as [A1 A2 A3]. constructor; auto. }
  exact (psteps_ind_inv c g p (Jac g) (Ja_step c g p W) _ _ R J0).
Qed.

Lemma init_Ja g : Ja g (init g) [] [].
Proof.
  assert (R : forall x, getrec (init g) x = dflt_rec).
  { intros x. unfold getrec, init. cbn. revert x. induction g as [|a g' IH]; intros [|x]; cbn; auto. }
  constructor.
  - intros x. rewrite R. cbn. intros [H|H]; discriminate.
  - intros a [].
  - intros x [[]|[]].
Qed.

(** * The cancel flag after a poll *)
Section Can.
Variables (c : cfg) (g : graph) (p : pin) (L : list event) (cm : bool).
Hypothesis Lc : cancel_req p = true -> exists js, In (ECancel js) L.
Hypothesis Lk : dry c = false -> exists js, In (ECheck js) L.

Definition Jcan (a : conf) : Prop := Japp L a /\ let '(t, _, _, _) := a in canceled t = cm.

Lemma Jcan_step a b : pstep c g p a b -> Jcan a -> Jcan b.
Proof.
  intros St [JA JC]. split; [exact (Japp_step c g p L Lc Lk a b St JA)|].
  destruct St as [t Cq I Ev0|t D I Ev0|t cl ca done x o t' cl' ca' D Q Hin Hnd Hinc I P Hx Cr Nm E
                 |t a cl ca done I P|t a ca done I P|t x done Hx I|t done I Cr].
  - exfalso. destruct JA as (new & E & _). destruct (Lc Cq) as [js Hjs]. rewrite Ev0 in E.
    destruct new; [cbn in E; subst L; destruct Hjs|discriminate].
  - exact JC.
  - rewrite (hr_canceled _ _ _ _ _ _ _ _ _ _ E). exact JC.
  - exact JC.
  - exact JC.
  - destruct (stage_node_frame g t x) as (_ & _ & _ & _ & _ & F6 & _). rewrite F6. exact JC.
  - rewrite launch_body_canceled. exact JC.
Qed.
End Can.

Theorem poll_canceled c g s p : WF g -> Inv g s -> valid_pin s p = true ->
  canceled (fst (poll c g s p)) = canceled s || cancel_req p.
Proof.
  intros W I V. destruct (poll_reach_mid c g p W s I V) as [_ R].
  assert (Lc : cancel_req p = true -> exists js, In (ECancel js) (evs (poll_mid c p s))).
  { intros Cq. unfold poll_mid. rewrite Cq. destruct (negb (dry c)); cbn; eauto. }
  assert (Lk : dry c = false -> exists js, In (ECheck js) (evs (poll_mid c p s))).
  { intros D. unfold poll_mid. rewrite D. cbn. eauto. }
  assert (J0 : Jcan (evs (poll_mid c p s)) (canceled (poll_mid c p s)) (poll_mid c p s, [], [], [])).
  { split; [exists []; split; [reflexivity|intros ? []]|reflexivity]. }
  pose proof (psteps_ind_inv c g p _ (Jcan_step c g p _ (canceled (poll_mid c p s)) Lc Lk) _ _ R J0) as [_ JC].
  rewrite JC. unfold poll_mid, poll_start. destruct (cancel_req p), (negb (dry c)); cbn; rewrite ?orb_true_r, ?orb_false_r; reflexivity.
Qed.

(** the event log at the query point *)
Lemma poll_mid_evs c p s :
  evs (poll_mid c p s) =
    (if negb (dry c) then [ECheck (map (lastjob (if cancel_req p then cancel_study_gen (poll_start s p) else poll_start s p))
                                        (inprog (if cancel_req p then cancel_study_gen (poll_start s p) else poll_start s p)))] else []) ++
    (if cancel_req p then [ECancel (map (lastjob (poll_start s p)) (inprog (poll_start s p)))] else []).
Proof. unfold poll_mid. destruct (negb (dry c)), (cancel_req p); reflexivity. Qed.

(** Further step invariants of a poll, used to show that the monitor family of C02 is silent on
    the model trace (ExecMon2.v):
      - the event log of a poll is [ECancel?; ECheck?] followed by script generations/submissions;
      - outcome of submissions: a failed submission without a successful one leaves the node failed,
        a successful one leaves it in progress or completed;
      - provenance of completed nodes (FINISHED report, successful local submission, dry run);
      - status FAILED/CANCELLED implies membership in failed/cancelled; an own-cancelled node keeps
        status CANCELLED. *)
From Coq Require Import Lia Relations.
From MWF Require Import Base.Util Base.UtilLemmas Exec.ExecBase Exec.ExecGen Exec.ExecRun Exec.ExecGraph Exec.ExecInv
  Exec.ExecPoll Exec.ExecSteps Exec.ExecPoll2 Exec.ExecPoll3 Exec.ExecPoll4.

#[local] Arguments bfs_subtree : simpl never.
#[local] Arguments submit_attempts : simpl never.
#[local] Arguments mark_failed_list : simpl never.
#[local] Arguments mark_cancelled_list : simpl never.
#[local] Arguments set_union : simpl never.

(** * More about _execute_record *)
Lemma execute_record_some c g x r s new :
  evs (execute_record_gen c g x r s) = new ++ evs s ->
  (exists k sc j, In (ESubmit x k sc (Some j)) new) ->
  In x (inprog (execute_record_gen c g x r s)) \/ In x (completed (execute_record_gen c g x r s)).
Proof.
  unfold execute_record_gen.
  set (s1 := if negb r then emit (EGen x) s else s).
  assert (E1 : evs s1 = (if negb r then [EGen x] else []) ++ evs s) by (subst s1; destruct (negb r); reflexivity).
  destruct (dry c).
  - intros _ _. right. unfold completed_add, rec_set_status. sp. apply In_sadd. auto.
  - destruct (submit_attempts g x r (attempts c) s1) as [ok s2] eqn:E.
    apply submit_attempts_spec in E. destruct E as [_ _ _ (new2 & V1 & V2 & V3 & V4)].
    destruct ok.
    + intros _ _. destruct (negb (scheduled (attr g x))).
      * right. unfold inprog_remove, completed_add, rec_set_status, inprog_add. sp. apply In_sadd. auto.
      * left. unfold inprog_add. sp. apply In_sadd. auto.
    + intros En (k & sc & j & H). exfalso.
      destruct (mfl_frame (bfs_subtree g x) (inprog_remove x s2)) as (_ & _ & _ & _ & _ & _ & M & _).
      rewrite M in En. change (evs (inprog_remove x s2)) with (evs s2) in En. rewrite V1, E1, app_assoc in En.
      apply app_inv_tail in En. subst new. apply in_app_iff in H. destruct H as [H|H].
      * specialize (V4 eq_refl _ _ _ H). discriminate.
      * destruct (negb r); [destruct H as [H|[]]; discriminate|destruct H].
Qed.

Lemma submit_attempts_ok_new g x r n : forall s s',
  submit_attempts g x r n s = (true, s') ->
  exists j new, evs s' = new ++ evs s /\ In (ESubmit x (kind_of r) (scheduled (attr g x)) (Some j)) new.
Proof.
  induction n as [|n IH]; intros s s' E.
  - rewrite submit_attempts_O in E. discriminate.
  - rewrite submit_attempts_S in E. cbv zeta in E.
    set (s1 := if r then emit (EGen x) s else rec_set_status x PENDING s) in E.
    set (s2 := if scheduled (attr g x) then s1 else rec_set_status x RUNNING s1) in E.
    assert (Ev2 : evs s2 = (if r then [EGen x] else []) ++ evs s).
    { subst s2 s1. destruct r, (scheduled (attr g x)); reflexivity. }
    destruct (next_sub s2) as [b s3] eqn:En. destruct (next_sub_spec _ _ _ En) as [l ->].
    destruct b.
    + inversion E; subst s'. exists (next_job (set_subs s2 l)).
      eexists (ESubmit x (kind_of r) (scheduled (attr g x)) (Some _) :: (if r then [EGen x] else [])).
      split; [cbn; rewrite Ev2; destruct r; reflexivity|left; destruct r; reflexivity].
    + apply IH in E. destruct E as (j & new & E1 & E2). exists j.
      exists (new ++ ESubmit x (if r then Restart else Main) (scheduled (attr g x)) None :: (if r then [EGen x] else [])).
      split; [rewrite E1; cbn; rewrite Ev2, <- app_assoc; reflexivity|apply in_app_iff; auto].
Qed.

Lemma execute_record_completed c g x r s new :
  evs (execute_record_gen c g x r s) = new ++ evs s ->
  In x (completed (execute_record_gen c g x r s)) -> ~ In x (completed s) -> x < length (recs s) ->
  status (getrec (execute_record_gen c g x r s) x) = DRYRUN \/
  exists k j, In (ESubmit x k false (Some j)) new.
Proof.
  unfold execute_record_gen.
  set (s1 := if negb r then emit (EGen x) s else s).
  assert (E1 : evs s1 = (if negb r then [EGen x] else []) ++ evs s) by (subst s1; destruct (negb r); reflexivity).
  assert (L1 : length (recs s1) = length (recs s)) by (subst s1; destruct (negb r); reflexivity).
  assert (C1 : completed s1 = completed s) by (subst s1; destruct (negb r); reflexivity).
  destruct (dry c).
  - intros _ _ _ Hl. left. change (status (getrec (rec_set_status x DRYRUN s1) x) = DRYRUN).
    rewrite getrec_set_status_eq by lia. reflexivity.
  - destruct (submit_attempts g x r (attempts c) s1) as [ok s2] eqn:E.
    destruct ok.
    + destruct (submit_attempts_ok_new g x r _ _ _ E) as (j & new2 & V1 & V2).
      apply submit_attempts_spec in E. destruct E as [[SS _ _ _ _] _ _ _]. destruct SS as (F1 & _).
      destruct (negb (scheduled (attr g x))) eqn:Sc.
      * intros En _ _ _. right. apply negb_true_iff in Sc. rewrite Sc in V2.
        change (evs s2 = new ++ evs s) in En. rewrite V1, E1, app_assoc in En. apply app_inv_tail in En.
        subst new. exists (kind_of r), j. apply in_app_iff. left. exact V2.
      * intros _ Hc Hn _. exfalso. apply Hn. unfold inprog_add in Hc. sp. rewrite F1, C1 in Hc. exact Hc.
    + apply submit_attempts_spec in E. destruct E as [[SS _ _ _ _] _ _ _]. destruct SS as (F1 & _).
      intros _ Hc Hn _. exfalso. apply Hn.
      destruct (mfl_frame (bfs_subtree g x) (inprog_remove x s2)) as (M & _). rewrite M in Hc.
      unfold inprog_remove in Hc. sp. rewrite F1, C1 in Hc. exact Hc.
Qed.

(** Proofs for Exec/ExecDryProcs.v: reflection of the boolean checks, and the checks themselves
    by vm_compute over the REGENERATED tables of Gen/CtorEffects.v (a constructor or a
    write_script that gains a call of start_process / Popen / submit / ... makes the
    computation return false and this file stop compiling: a broken obligation of C17). *)
From Coq Require Import Bool List.
From MWF Require Import Base.Str Gen.CtorEffects Exec.ExecDryProcs.
Import ListNotations.

Lemma str_eqb_eq : forall a b, str_eqb a b = true <-> a = b.
Proof.
  induction a as [|x a IH]; destruct b as [|y b]; simpl; split; intro H; try reflexivity; try discriminate.
  - apply andb_true_iff in H. destruct H as [H1 H2]. apply N.eqb_eq in H1. apply IH in H2. subst. reflexivity.
  - inversion H; subst. apply andb_true_iff. split. apply N.eqb_refl. apply IH. reflexivity.
Qed.

Lemma smem_In : forall x l, smem x l = true <-> In x l.
Proof.
  intros x l. unfold smem. rewrite existsb_exists. split.
  - intros [y [Hy He]]. apply str_eqb_eq in He. subst. exact Hy.
  - intro H. exists x. split. exact H. apply str_eqb_eq. reflexivity.
Qed.

Lemma table_ok_spec : forall t, table_ok t = true ->
  forall k cs n, In (k, cs) t -> In n cs -> ~ In n forbidden.
Proof.
  intros t H k cs n Hk Hn Hf. unfold table_ok in H. rewrite forallb_forall in H.
  specialize (H _ Hk). cbn beta iota delta [fst snd] in H. unfold effect_free in H. rewrite forallb_forall in H.
  specialize (H _ Hn). apply negb_true_iff in H. apply smem_In in Hf. rewrite Hf in H. discriminate.
Qed.

Lemma reads_ok_spec : forall t, reads_ok t = true ->
  forall k cs n, In (k, cs) t -> In n cs -> In n broker_reads -> k = s "flux".
Proof.
  intros t H k cs n Hk Hn Hr. unfold reads_ok in H. rewrite forallb_forall in H.
  specialize (H _ Hk). cbn beta iota delta [fst snd] in H. rewrite forallb_forall in H. specialize (H _ Hn).
  apply smem_In in Hr. rewrite Hr in H. simpl in H. apply str_eqb_eq in H. exact H.
Qed.

Lemma forbidden_split : forall n, ~ In n forbidden ->
  ~ In n proc_doors /\ ~ In n proc_handle_calls /\ ~ In n engine_calls /\ ~ In n broker_calls /\ ~ In n dynamic_calls.
Proof.
  intros n H. unfold forbidden in H. repeat split; intro Hi; apply H; repeat (apply in_or_app; auto; right); auto.
  all: repeat (apply in_or_app; first [left; exact Hi | right]).
Qed.

(** effects_of is empty on names that are neither forbidden nor broker reads *)
Lemma classify_none : forall n, ~ In n forbidden -> ~ In n broker_reads -> classify n = None.
Proof.
  intros n Hf Hr. apply forbidden_split in Hf. destruct Hf as [H1 [H2 [H3 [H4 H5]]]].
  unfold classify.
  assert (E : forall l, ~ In n l -> smem n l = false).
  { intros l Hl. destruct (smem n l) eqn:E; [apply smem_In in E; contradiction | reflexivity]. }
  rewrite (E _ H1), (E _ H2), (E _ H3), (E _ H4), (E _ Hr), (E _ H5). reflexivity.
Qed.

(** ---- the regenerated tables ------------------------------------------------------- *)
Lemma ctor_table_ok : table_ok gen_ctor_callees = true.
Proof. vm_compute. reflexivity. Qed.

Lemma scriptgen_table_ok : table_ok gen_scriptgen_callees = true.
Proof. vm_compute. reflexivity. Qed.

Lemma ctor_reads_ok : reads_ok gen_ctor_callees = true.
Proof. vm_compute. reflexivity. Qed.

Lemma scriptgen_reads_none :
  forallb (fun kc => forallb (fun n => negb (smem n broker_reads)) (snd kc)) gen_scriptgen_callees = true.
Proof. vm_compute. reflexivity. Qed.

Lemma keys_ok_true : keys_ok = true.
Proof. vm_compute. reflexivity. Qed.

Lemma ctor_effect_free : forall k cs n, In (k, cs) gen_ctor_callees -> In n cs ->
  ~ In n proc_doors /\ ~ In n proc_handle_calls /\ ~ In n engine_calls /\ ~ In n broker_calls /\ ~ In n dynamic_calls.
Proof. intros k cs n Hk Hn. apply forbidden_split. exact (table_ok_spec _ ctor_table_ok k cs n Hk Hn). Qed.

Lemma scriptgen_effect_free : forall k cs n, In (k, cs) gen_scriptgen_callees -> In n cs ->
  ~ In n proc_doors /\ ~ In n proc_handle_calls /\ ~ In n engine_calls /\ ~ In n broker_calls /\ ~ In n dynamic_calls /\
  ~ In n broker_reads.
Proof.
  intros k cs n Hk Hn.
  destruct (forbidden_split n (table_ok_spec _ scriptgen_table_ok k cs n Hk Hn)) as [H1 [H2 [H3 [H4 H5]]]].
  repeat split; try assumption.
  intro Hr. pose proof scriptgen_reads_none as H. rewrite forallb_forall in H. specialize (H _ Hk). cbn beta iota delta [fst snd] in H.
  rewrite forallb_forall in H. specialize (H _ Hn). apply smem_In in Hr. rewrite Hr in H. discriminate.
Qed.

Lemma ctor_broker_read_only_flux : forall k cs n, In (k, cs) gen_ctor_callees -> In n cs -> In n broker_reads ->
  k = s "flux".
Proof. exact (reads_ok_spec _ ctor_reads_ok). Qed.

(** the effect lists of the small model, for EVERY adapter key (registered or not) *)
Lemma effects_of_app : forall a b, effects_of (a ++ b) = effects_of a ++ effects_of b.
Proof.
  induction a as [|n a IH]; intro b; simpl. reflexivity.
  destruct (classify n); simpl; rewrite IH; reflexivity.
Qed.

Lemma effects_of_nil : forall cs, (forall n, In n cs -> classify n = None) -> effects_of cs = [].
Proof.
  induction cs as [|n cs IH]; intro H; simpl. reflexivity.
  rewrite (H n (or_introl eq_refl)). apply IH. intros m Hm. apply H. right. exact Hm.
Qed.

Lemma lookup_effects_nil : forall t k,
  (forall k' cs n, In (k', cs) t -> In n cs -> k' = k -> classify n = None) ->
  effects_of (lookup t k) = [].
Proof.
  induction t as [|[k' cs] t IH]; intros k H; unfold lookup; simpl. reflexivity.
  rewrite effects_of_app. fold (lookup t k). rewrite IH.
  - rewrite app_nil_r. destruct (str_eqb k' k) eqn:E; [|reflexivity].
    apply effects_of_nil. intros n Hn. apply (H k' cs n (or_introl eq_refl) Hn). apply str_eqb_eq. exact E.
  - intros k2 cs2 n H1 H2 H3. exact (H k2 cs2 n (or_intror H1) H2 H3).
Qed.

Lemma scriptgen_effects_nil : forall k, scriptgen_effects k = [].
Proof.
  intro k. unfold scriptgen_effects. apply lookup_effects_nil. intros k' cs n Hk Hn _.
  destruct (scriptgen_effect_free k' cs n Hk Hn) as [H1 [H2 [H3 [H4 [H5 H6]]]]].
  apply classify_none; [|exact H6].
  unfold forbidden. intro Hi. repeat (apply in_app_or in Hi; destruct Hi as [Hi|Hi]); contradiction.
Qed.

Lemma ctor_effects_nil : forall k, k <> s "flux" -> ctor_effects k = [].
Proof.
  intros k Hk. unfold ctor_effects. apply lookup_effects_nil. intros k' cs n Hin Hn Heq. subst k'.
  apply classify_none.
  - exact (table_ok_spec _ ctor_table_ok k cs n Hin Hn).
  - intro Hr. apply Hk. exact (ctor_broker_read_only_flux k cs n Hin Hn Hr).
Qed.

Lemma ctor_effects_flux : ctor_effects (s "flux") = [CBrokerRead (s "get_flux_version")].
Proof. vm_compute. reflexivity. Qed.

(** Coupling, part 11: two invariants of one poll proved over the macro-step
    replay of the poll (ExecSteps.v):
      - after the status query the poll only emits script generations and submissions;
      - the ledger's [jc] flag (a CANCELLED report was delivered) against the
        [cancelled] set (codes 53, 54). *)
From Coq Require Import Lia Relations.
From MWF Require Import Base.Util Base.UtilLemmas Exec.ExecBase Exec.ExecGen Exec.ExecRun Exec.ExecTrace
  Exec.ExecGraph Exec.ExecInv Exec.ExecPoll Exec.ExecSteps Exec.ExecLocal
  Exec.ExecLedger Exec.ExecLedger2 Exec.ExecLedger4 Exec.ExecLedger5.

(** quiet events leave [jc], [lchk], [cseen], [npolls] alone; [tried] only grows *)
Lemma quiet_fold2 c g p l : Forall quiet_ev l -> forall L,
  jc (fold_left (step_base c g p) l L) = jc L /\ lchk (fold_left (step_base c g p) l L) = lchk L /\
  cseen (fold_left (step_base c g p) l L) = cseen L.
Proof.
  induction 1 as [|e l He Hl IH]; intros L; cbn [fold_left]; [auto|].
  destruct (IH (step_base c g p L e)) as (A & B & C).
  assert (E : jc (step_base c g p L e) = jc L /\ lchk (step_base c g p L e) = lchk L /\
              cseen (step_base c g p L e) = cseen L).
  { destruct e as [js|js|x|x k sched res]; cbn in He; try contradiction; cbn [step_base]; auto.
    destruct res as [j|]; [destruct sched|]; cbn; auto. }
  destruct E as (E1 & E2 & E3). repeat split; congruence.
Qed.

Lemma quiet_led2 c g p L0 s s' : ext s s' ->
  jc (led c g p L0 s') = jc (led c g p L0 s) /\ lchk (led c g p L0 s') = lchk (led c g p L0 s) /\
  cseen (led c g p L0 s') = cseen (led c g p L0 s).
Proof.
  intros [l [E Q]]. rewrite (led_ext c g p L0 s s' l E). apply quiet_fold2. apply Forall_rev. exact Q.
Qed.

Lemma sub_ev_quiet g x r e : sub_ev g x r e -> quiet_ev e.
Proof. intros [->|[res ->]]; exact I. Qed.

(** which accumulator a report feeds *)
Lemma hr_ca c g t cl ca x o t' cl' ca' : handle_report_gen c g (t, cl, ca) (x, o) = (t', cl', ca') ->
  forall y, In y ca' <-> In y ca \/ (o = Some CANCELLED /\ In y (bfs_subtree g x)).
Proof.
  unfold handle_report_gen. intros E y.
  destruct o as [[]|]; cbn [oeqb state_eqb] in E;
    try (inversion E; subst; split; [tauto|intros [H|[H _]]; [exact H|discriminate]]).
  - destruct (has_restart (attr g x) && negb (canceled t)).
    + destruct (mark_restart_gen g x t) as [b t1]. destruct b; inversion E; subst;
        (split; [tauto|intros [H|[H _]]; [exact H|discriminate]]).
    + inversion E; subst. split; [tauto|intros [H|[H _]]; [exact H|discriminate]].
  - inversion E; subst. rewrite ExecLedger2.In_set_union. split; [intros [H|H]; auto|intros [H|[_ H]]; auto].
Qed.

Lemma jc_deliver_fold reps : forall m,
  jc (fold_left deliver reps m) = true <-> jc m = true \/ exists x, In (x, Some CANCELLED) reps.
Proof.
  induction reps as [|r reps IH]; intros m; cbn [fold_left].
  - split; auto. intros [H|[x []]]; auto.
  - rewrite IH. destruct r as [x [v|]].
    + assert (E : jc (deliver m (x, Some v)) = if state_eqb v CANCELLED then true else jc m) by (destruct v; reflexivity).
      rewrite E. destruct (state_eqb v CANCELLED) eqn:Ev.
      * apply ExecLedger2.state_eqb_eq in Ev. subst v. split; [intros _; right; exists x; left; reflexivity|auto].
      * split.
        -- intros [H|[y H]]; auto. right. exists y. right. exact H.
        -- intros [H|[y [H|H]]]; auto; [|right; exists y; exact H].
           inversion H; subst. discriminate.
    + change (jc (deliver m (x, None))) with (jc m). split.
      * intros [H|[y H]]; auto. right. exists y. right. exact H.
      * intros [H|[y [H|H]]]; auto; [discriminate|right; exists y; exact H].
Qed.

Lemma NoDup_fst_inj {A} (l : list (nat * A)) a b b' :
  NoDup (map fst l) -> In (a, b) l -> In (a, b') l -> b = b'.
Proof.
  induction l as [|[x y] l IH]; cbn; intros N H1 H2; [destruct H1|]. inversion N as [|? ? N1 N2]; subst.
  destruct H1 as [E1|H1], H2 as [E2|H2].
  - congruence.
  - inversion E1; subst. exfalso. apply N1. apply in_map_iff. exists (a, b'). auto.
  - inversion E2; subst. exfalso. apply N1. apply in_map_iff. exists (a, b). auto.
  - apply IH; auto.
Qed.

Lemma launch_body_cancelled c g t :
  (forall y, In y (cancelled t) -> In y (cancelled (launch_body_gen c g t))) /\
  (forall y, In y (cancelled (launch_body_gen c g t)) -> In y (cancelled t) \/ canceled t = true).
Proof.
  unfold launch_body_gen. destruct (ready t) as [|x rest]; [auto|].
  change (canceled (set_ready t rest)) with (canceled t). destruct (canceled t) eqn:E.
  - unfold cancelled_add, rec_set_status. cbn [cancelled set_cancelled set_recs set_ready]. split; intros y; rewrite In_sadd; auto.
  - rewrite (er_cancelled _ _ _ _ (execute_record_sets c g x false _)). cbn [cancelled set_ready]. auto.
Qed.

Section Steps.
Variables (c : cfg) (g : graph) (p : pin) (L0 : base) (s : st).
Hypothesis W : WF g.
Hypothesis I0 : Inv g s.
Hypothesis V0 : ExecPoll.valid_pin s p = true.
Notation ledS := (led c g p L0).
Notation mid := (poll_mid c p s).

Lemma evs_mid : evs mid =
  (if negb (dry c) then [ECheck (map (lastjob s) (inprog s))] else []) ++
  (if cancel_req p then [ECancel (map (lastjob s) (inprog s))] else []).
Proof.
  unfold poll_mid, poll_start, cancel_study_gen. destruct (cancel_req p), (negb (dry c)); reflexivity.
Qed.

(** * After the query only generations and submissions *)
Definition JE (a : conf) : Prop := let '(t, _, _, _) := a in ext mid t.

Lemma JE_step a b : pstep c g p a b -> JE a -> JE b.
Proof.
  intros St. destruct St as [t Cq It Ev|t D It Ev|t cl ca done x o t' cl' ca' D Q Hin Hnd Hinc It Pt Hx Cr Nm E
                            |t a cl ca done It Pt|t a ca done It Pt|t x done Hx It|t done It Cr]; unfold JE.
  - intros [l [El _]]. exfalso. rewrite Ev in El. symmetry in El. apply app_eq_nil in El. destruct El as [_ El].
    rewrite evs_mid, Cq in El. apply app_eq_nil in El. destruct El as [_ El]. discriminate.
  - intros [l [El _]]. exfalso. rewrite evs_mid, D in El. cbn [negb app] in El.
    destruct (Ev (ECheck (map (lastjob s) (inprog s)))) as [js Hjs]; [|discriminate].
    rewrite El. apply in_app_iff. right. left. reflexivity.
  - intros Ex. eapply ext_trans; [exact Ex|].
    assert (Hl : x < length (recs t)) by (rewrite (i_len_recs g t It); apply (i_bound g t It); auto).
    destruct (hr_frame c g t cl ca x o t' cl' ca' Hl E) as [(Ev & _)|(_ & _ & _ & Et)].
    + apply ext_same. exact Ev.
    + destruct (execute_record_evs c g x true (rec_inc_restarts x (rec_set_status x TIMEDOUT t))) as (new & V1 & V2 & _).
      rewrite <- Et in V1. exists new. split; [exact V1|]. apply Forall_forall. intros e He.
      eapply sub_ev_quiet. apply V2. exact He.
  - intros Ex. eapply ext_trans; [exact Ex|]. apply ext_same. reflexivity.
  - intros Ex. eapply ext_trans; [exact Ex|]. apply ext_same. reflexivity.
  - intros Ex. eapply ext_trans; [exact Ex|]. apply ext_same.
    destruct (stage_node_frame g t x) as (_ & _ & _ & _ & _ & _ & F & _). exact F.
  - intros Ex. eapply ext_trans; [exact Ex|].
    destruct (launch_order c g t It) as (new & E1 & E2). exists new. split; [exact E1|].
    apply Forall_forall. intros e He. destruct (E2 e He) as (y & Hy & _).
    destruct e; cbn in Hy; try discriminate; exact I.
Qed.

Lemma poll_ext : ext mid (fst (poll c g s p)).
Proof.
  destruct (poll_reach_mid c g p W s I0 V0) as [_ R].
  exact (psteps_ind_inv c g p JE (fun a b St Ja => JE_step a b St Ja) _ _ R (ext_refl _)).
Qed.

(** the ledger at the end of the poll agrees with the ledger right after the query on jc, lchk *)
Lemma poll_led_mid :
  jc (ledS (fst (poll c g s p))) = jc (ledS mid) /\ lchk (ledS (fst (poll c g s p))) = lchk (ledS mid).
Proof. destruct (quiet_led2 c g p L0 mid _ poll_ext) as (A & B & _). auto. Qed.

(** * The [jc] flag of the ledger and the [cancelled] set *)
Definition pendC (done : list report) (x : nat) : Prop :=
  dry c = false /\ qcode p = QOK /\ In (x, Some CANCELLED) (reports p) /\ ~ In x (map fst done).

Definition JCI (a : conf) : Prop :=
  let '(t, cl, ca, done) := a in
  ext mid t /\
  (forall x, In x (cancelled t) \/ In x ca -> canceled t = true \/ jc (ledS mid) = true) /\
  (jc (ledS mid) = true -> (exists x, In x (cancelled t) \/ In x ca) \/ exists x, pendC done x).

Lemma ledS_mid_jc : jc (ledS mid) = true <->
  jc L0 = true \/ (dry c = false /\ qcode p = QOK /\ exists x, In (x, Some CANCELLED) (reports p)).
Proof.
  unfold led. rewrite evs_mid, rev_app_distr.
  set (La := fold_left (step_base c g p) (rev (if cancel_req p then [ECancel (map (lastjob s) (inprog s))] else [])) L0).
  assert (Ea : jc La = jc L0) by (unfold La; destruct (cancel_req p); reflexivity).
  rewrite fold_left_app. fold La. destruct (dry c); cbn [negb rev app fold_left].
  - rewrite Ea. split; auto. intros [H|(H & _)]; auto; discriminate.
  - cbn [step_base]. destruct (qcode p) eqn:Q; cbn [jc set_check].
    + rewrite jc_deliver_fold. cbn [jc set_check]. rewrite Ea. split; [intros [H|H]; auto|intros [H|(_ & _ & H)]; auto].
    + rewrite Ea. split; auto. intros [H|(_ & H & _)]; auto; discriminate.
    + rewrite Ea. split; auto. intros [H|(_ & H & _)]; auto; discriminate.
Qed.

Lemma JCI_step a b : pstep c g p a b -> JCI a -> JCI b.
Proof.
  intros St Ja.
  assert (Eb : JE b) by (eapply JE_step; [exact St|]; destruct a as [[[t cl] ca] done]; apply Ja).
  destruct St as [t Cq It Ev|t D It Ev|t cl ca done x o t' cl' ca' D Q Hin Hnd Hinc It Pt Hx Cr Nm E
                 |t a cl ca done It Pt|t a ca done It Pt|t x done Hx It|t done It Cr]; unfold JCI, JE in *.
  - (* cancel_study cannot occur after the query point *)
    destruct Ja as ([l [El _]] & _). exfalso. rewrite Ev in El. symmetry in El. apply app_eq_nil in El.
    destruct El as [_ El]. rewrite evs_mid, Cq in El. apply app_eq_nil in El. destruct El as [_ El]. discriminate.
  - destruct Ja as ([l [El _]] & _). exfalso. rewrite evs_mid, D in El. cbn [negb app] in El.
    destruct (Ev (ECheck (map (lastjob s) (inprog s)))) as [js Hjs]; [|discriminate].
    rewrite El. apply in_app_iff. right. left. reflexivity.
  - destruct Ja as (_ & J1 & J2). split; [exact Eb|].
    assert (Hl : x < length (recs t)) by (rewrite (i_len_recs g t It); apply (i_bound g t It); auto).
    assert (Ec : cancelled t' = cancelled t).
    { destruct (hr_frame c g t cl ca x o t' cl' ca' Hl E) as [(_ & _ & _ & Ec & _)|(_ & _ & _ & Et)]; [exact Ec|].
      rewrite Et. rewrite (er_cancelled _ _ _ _ (execute_record_sets c g x true _)). reflexivity. }
    pose proof (hr_canceled _ _ _ _ _ _ _ _ _ _ E) as Ecn.
    pose proof (hr_ca c g t cl ca x o t' cl' ca' E) as Hca.
    split.
    + intros y Hy. rewrite Ec in Hy. rewrite Ecn. destruct Hy as [Hy|Hy]; [apply (J1 y); auto|].
      apply Hca in Hy. destruct Hy as [Hy|[Eo _]]; [apply (J1 y); auto|].
      right. apply ledS_mid_jc. right. split; [exact D|]. split; [exact Q|]. exists x. rewrite <- Eo. exact Hin.
    + intros Hj. destruct (J2 Hj) as [[y Hy]|[y (P1 & P2 & P3 & P4)]].
      * left. exists y. rewrite Ec. destruct Hy as [Hy|Hy]; auto. right. apply Hca. auto.
      * destruct (Nat.eq_dec y x) as [->|Hn].
        -- left. exists x. right. apply Hca. right. split; [|apply bfs_subtree_root].
           apply ExecPoll.valid_pin_spec in V0. destruct V0 as [Vn _].
           apply (NoDup_fst_inj (reports p) x o (Some CANCELLED) Vn Hin P3).
        -- right. exists y. split; [exact P1|]. split; [exact P2|]. split; [exact P3|].
           rewrite map_app, in_app_iff. cbn [map fst In]. intros [H|[H|[]]]; [contradiction|congruence].
  - destruct Ja as (_ & J1 & J2). split; [exact Eb|]. split; [exact J1|exact J2].
  - destruct Ja as (_ & J1 & J2). split; [exact Eb|].
    unfold cancelled_add, rec_set_status. cbn [cancelled set_cancelled set_recs canceled]. split.
    + intros y Hy. apply (J1 y). rewrite In_sadd in Hy. cbn [In]. destruct Hy as [[->|Hy]|Hy]; auto.
    + intros Hj. destruct (J2 Hj) as [[y Hy]|H]; [|right; exact H].
      left. exists y. rewrite In_sadd. cbn [In] in Hy. destruct Hy as [Hy|[<-|Hy]]; auto.
  - destruct Ja as (_ & J1 & J2). split; [exact Eb|].
    destruct (stage_node_frame g t x) as (_ & _ & _ & F4 & _ & F6 & _). rewrite F4, F6. split; [exact J1|exact J2].
  - destruct Ja as (_ & J1 & J2). split; [exact Eb|].
    destruct (launch_body_cancelled c g t) as [C1 C2]. rewrite launch_body_canceled. split.
    + intros y [Hy|[]]. destruct (C2 y Hy) as [H|H]; auto. apply (J1 y). auto.
    + intros Hj. destruct (J2 Hj) as [[y [Hy|[]]]|H]; [|right; exact H]. left. exists y. left. auto.
Qed.

(** boundary form *)
Definition JCB (s' : st) (L : base) : Prop :=
  (forall x, In x (cancelled s') -> canceled s' = true \/ jc L = true) /\
  (jc L = true -> exists x, In x (cancelled s')).

Lemma poll_JCB : JCB s L0 -> JCB (fst (poll c g s p)) (ledS (fst (poll c g s p))).
Proof.
  intros [B1 B2].
  destruct (poll_reach_mid c g p W s I0 V0) as [_ R].
  assert (Em : cancelled mid = cancelled s /\ (canceled s = true -> canceled mid = true)).
  { unfold poll_mid, poll_start, cancel_study_gen. destruct (cancel_req p), (negb (dry c)); cbn; auto. }
  destruct Em as [Em1 Em2].
  assert (J0 : JCI (mid, [], [], [])).
  { split; [apply ext_refl|]. rewrite Em1. split.
    - intros x [Hx|[]]. destruct (B1 x Hx) as [H|H]; [left; auto|]. right. apply ledS_mid_jc. auto.
    - intros Hj. apply ledS_mid_jc in Hj. destruct Hj as [Hj|(D & Q & x & Hx)].
      + left. destruct (B2 Hj) as [x Hx]. exists x. auto.
      + right. exists x. split; [exact D|]. split; [exact Q|]. split; [exact Hx|]. intros []. }
  pose proof (psteps_ind_inv c g p JCI JCI_step _ _ R J0) as (_ & J1 & J2).
  destruct (poll_led_mid) as [Ej _]. unfold JCB. rewrite Ej. split.
  - intros x Hx. apply (J1 x). auto.
  - intros Hj. destruct (J2 Hj) as [[x [Hx|[]]]|[x (P1 & P2 & P3 & P4)]]; [exists x; exact Hx|].
    exfalso. apply P4. unfold ExecSteps.delivered. rewrite P1, P2. cbn.
    apply in_map_iff. exists (x, Some CANCELLED). auto.
Qed.

End Steps.

(** Execution model, part 1: types, state and the state combinators that the
    translated decision logic (ExecGen.v) is composed of.  Hand-written, never
    regenerated.  Model of maestrowf/datastructures/core/executiongraph.py
    (_StepRecord, ExecutionGraph) -- see DESIGN.md section 4.2 / Appendix A.

    Nodes are [nat] indices into the instance list in [values] insertion order
    (the [_source] node is left out: it is completed from the start). *)
From MWF Require Export Base.Util.

Inductive State := INITIALIZED | PENDING | WAITING | RUNNING | FINISHING | FINISHED | QUEUED
  | FAILED | INCOMPLETE | HWFAILURE | TIMEDOUT | UNKNOWN | CANCELLED | NOTFOUND | DRYRUN.
Inductive QCode := QOK | QNOJOBS | QERROR.
Inductive SStatus := SFINISHED | SRUNNING | SFAILURE | SCANCELLED | SABORT.
Inductive kind := Main | Restart.

Definition state_eqb (a b : State) : bool :=
  match a, b with
  | INITIALIZED, INITIALIZED | PENDING, PENDING | WAITING, WAITING | RUNNING, RUNNING
  | FINISHING, FINISHING | FINISHED, FINISHED | QUEUED, QUEUED | FAILED, FAILED
  | INCOMPLETE, INCOMPLETE | HWFAILURE, HWFAILURE | TIMEDOUT, TIMEDOUT | UNKNOWN, UNKNOWN
  | CANCELLED, CANCELLED | NOTFOUND, NOTFOUND | DRYRUN, DRYRUN => true
  | _, _ => false
  end.

Definition kind_eqb (a b : kind) : bool :=
  match a, b with Main, Main | Restart, Restart => true | _, _ => false end.

Definition sstatus_eqb (a b : SStatus) : bool :=
  match a, b with
  | SFINISHED, SFINISHED | SRUNNING, SRUNNING | SFAILURE, SFAILURE
  | SCANCELLED, SCANCELLED | SABORT, SABORT => true
  | _, _ => false
  end.

(** Static attributes of an instance. [scheduled] is what the adapter's
    write_script answers (to_be_scheduled); [has_restart] says whether a restart
    script exists (_StepRecord.can_restart); [rlimit] is restart_limit. *)
Record sattr := { parents : list nat; children : list nat; scheduled : bool;
                  has_restart : bool; rlimit : nat }.
Definition graph := list sattr.
Definition dflt_attr := {| parents := []; children := []; scheduled := true;
                           has_restart := false; rlimit := 0 |}.
Definition attr (g : graph) (x : nat) : sattr := nth x g dflt_attr.

(** graph well-formedness assumed by the theorems, checked on every case *)
Definition wf_graph (g : graph) : bool :=
  forallb (fun x => forallb (fun p => (p <? x) && mem x (children (attr g p))) (parents (attr g x)) &&
                    forallb (fun ch => (ch <? length g) && mem x (parents (attr g ch))) (children (attr g x)) &&
                    nodupb (parents (attr g x)) && nodupb (children (attr g x)))
          (seq 0 (length g)).


Record cfg := { throttle : nat; attempts : nat; dry : bool }.

Record rec := { status : State; jobs : list nat; restarts : nat }.
Definition dflt_rec := {| status := INITIALIZED; jobs := []; restarts := 0 |}.

(** Observable events = calls into the scheduler adapter, in emission order. *)
Inductive event :=
| ECancel (js : list nat)                 (* adapter.cancel_jobs(js) *)
| ECheck (js : list nat)                  (* adapter.check_jobs(js) *)
| EGen (x : nat)                          (* adapter.write_script for x *)
| ESubmit (x : nat) (k : kind) (sched : bool) (res : option nat).
                                          (* submit of x's main/restart script through the
                                             scheduler (sched) or the local adapter; result job id *)

Record st := { recs : list rec; completed : list nat; inprog : list nat; failed : list nat;
               cancelled : list nat; ready : list nat; deps : list (list nat);
               canceled : bool; next_job : nat; subs : list bool; evs : list event (* reversed *) }.

Definition set_recs s v := {| recs := v; completed := completed s; inprog := inprog s; failed := failed s;
  cancelled := cancelled s; ready := ready s; deps := deps s; canceled := canceled s;
  next_job := next_job s; subs := subs s; evs := evs s |}.
Definition set_completed s v := {| recs := recs s; completed := v; inprog := inprog s; failed := failed s;
  cancelled := cancelled s; ready := ready s; deps := deps s; canceled := canceled s;
  next_job := next_job s; subs := subs s; evs := evs s |}.
Definition set_inprog s v := {| recs := recs s; completed := completed s; inprog := v; failed := failed s;
  cancelled := cancelled s; ready := ready s; deps := deps s; canceled := canceled s;
  next_job := next_job s; subs := subs s; evs := evs s |}.
Definition set_failed s v := {| recs := recs s; completed := completed s; inprog := inprog s; failed := v;
  cancelled := cancelled s; ready := ready s; deps := deps s; canceled := canceled s;
  next_job := next_job s; subs := subs s; evs := evs s |}.
Definition set_cancelled s v := {| recs := recs s; completed := completed s; inprog := inprog s; failed := failed s;
  cancelled := v; ready := ready s; deps := deps s; canceled := canceled s;
  next_job := next_job s; subs := subs s; evs := evs s |}.
Definition set_ready s v := {| recs := recs s; completed := completed s; inprog := inprog s; failed := failed s;
  cancelled := cancelled s; ready := v; deps := deps s; canceled := canceled s;
  next_job := next_job s; subs := subs s; evs := evs s |}.
Definition set_deps s v := {| recs := recs s; completed := completed s; inprog := inprog s; failed := failed s;
  cancelled := cancelled s; ready := ready s; deps := v; canceled := canceled s;
  next_job := next_job s; subs := subs s; evs := evs s |}.
Definition set_canceled s v := {| recs := recs s; completed := completed s; inprog := inprog s; failed := failed s;
  cancelled := cancelled s; ready := ready s; deps := deps s; canceled := v;
  next_job := next_job s; subs := subs s; evs := evs s |}.
Definition set_next_job s v := {| recs := recs s; completed := completed s; inprog := inprog s; failed := failed s;
  cancelled := cancelled s; ready := ready s; deps := deps s; canceled := canceled s;
  next_job := v; subs := subs s; evs := evs s |}.
Definition set_subs s v := {| recs := recs s; completed := completed s; inprog := inprog s; failed := failed s;
  cancelled := cancelled s; ready := ready s; deps := deps s; canceled := canceled s;
  next_job := next_job s; subs := v; evs := evs s |}.
Definition set_evs s v := {| recs := recs s; completed := completed s; inprog := inprog s; failed := failed s;
  cancelled := cancelled s; ready := ready s; deps := deps s; canceled := canceled s;
  next_job := next_job s; subs := subs s; evs := v |}.

Definition emit (e : event) (s : st) : st := set_evs s (e :: evs s).

Definition getrec (s : st) (x : nat) : rec := nth x (recs s) dflt_rec.
Definition lastjob (s : st) (x : nat) : nat := last (jobs (getrec s x)) 0.

(** record-level combinators: _StepRecord.mark_* / jobid.append / _num_restarts += 1 *)
Definition rec_set_status (x : nat) (v : State) (s : st) : st :=
  set_recs s (upd x (fun r => {| status := v; jobs := jobs r; restarts := restarts r |}) (recs s)).
Definition rec_push_job (x j : nat) (s : st) : st :=
  set_recs s (upd x (fun r => {| status := status r; jobs := jobs r ++ [j]; restarts := restarts r |}) (recs s)).
Definition rec_inc_restarts (x : nat) (s : st) : st :=
  set_recs s (upd x (fun r => {| status := status r; jobs := jobs r; restarts := S (restarts r) |}) (recs s)).

(** set-level combinators *)
Definition completed_add x s := set_completed s (sadd x (completed s)).
Definition inprog_add x s := set_inprog s (sadd x (inprog s)).
Definition inprog_remove x s := set_inprog s (srem x (inprog s)).
Definition failed_add x s := set_failed s (sadd x (failed s)).
Definition cancelled_add x s := set_cancelled s (sadd x (cancelled s)).
Definition ready_push x s := set_ready s (ready s ++ [x]).
(** self._dependencies[key] -= completed *)
Definition deps_prune x s :=
  set_deps s (upd x (filter (fun p => negb (mem p (completed s)))) (deps s)).
Definition getdeps (s : st) (x : nat) : list nat := nth x (deps s) [].
Definition oeqb (o : option State) (v : State) : bool :=
  match o with Some w => state_eqb w v | None => false end.
Definition qcode_eqb (a b : QCode) : bool :=
  match a, b with QOK, QOK | QNOJOBS, QNOJOBS | QERROR, QERROR => true | _, _ => false end.

(** dag.bfs_subtree over the children table (path only). *)
Definition bfs_visit (acc : list nat * list nat) (c : nat) : list nat * list nat :=
  let '(qq, pp) := acc in if mem c pp then (qq, pp) else (qq ++ [c], pp ++ [c]).
Fixpoint bfs_go (g : graph) (fuel : nat) (queue path : list nat) : list nat :=
  match fuel with
  | O => path
  | S f => match queue with
           | [] => path
           | r :: q =>
             let '(q', p') := fold_left bfs_visit (children (attr g r)) (q, path) in
             bfs_go g f q' p'
           end
  end.
Definition bfs_subtree (g : graph) (x : nat) : list nat := bfs_go g (S (length g)) [x] [x].

(** cleanup_steps.update(...) on a list-set *)
Definition set_union (l acc : list nat) : list nat := fold_left (fun a n => sadd n a) l acc.

(** the two sweep loops *)
Definition mark_failed_list (l : list nat) (s : st) : st :=
  fold_left (fun s n => rec_set_status n FAILED (failed_add n s)) l s.
Definition mark_cancelled_list (l : list nat) (s : st) : st :=
  fold_left (fun s n => rec_set_status n CANCELLED (cancelled_add n s)) l s.

(** one adapter.submit / local submit call: consumes one scripted outcome *)
Definition next_sub (s : st) : bool * st :=
  match subs s with
  | [] => (true, s)
  | b :: r => (b, set_subs s r)
  end.

(** The retry loop of _execute_record (structural on the remaining attempts).
    Non-restart: record.execute = mark_submitted; (local: mark_running); submit.
    Restart: generate_script; record.restart = (local: mark_running); submit. *)
Fixpoint submit_attempts (g : graph) (x : nat) (restart : bool) (n : nat) (s : st) : bool * st :=
  match n with
  | O => (false, s)
  | S n' =>
    let s := if restart then emit (EGen x) s else rec_set_status x PENDING s in
    let s := if scheduled (attr g x) then s else rec_set_status x RUNNING s in
    let '(b, s) := next_sub s in
    let k := if restart then Restart else Main in
    if b then
      let j := next_job s in
      (true, emit (ESubmit x k (scheduled (attr g x)) (Some j)) (rec_push_job x j (set_next_job s (S j))))
    else submit_attempts g x restart n' (emit (ESubmit x k (scheduled (attr g x)) None) s)
  end.

Definition is_nil {A} (l : list A) : bool := match l with [] => true | _ => false end.

Definition init (g : graph) : st :=
  {| recs := map (fun _ => dflt_rec) g; completed := []; inprog := []; failed := []; cancelled := [];
     ready := []; deps := map parents g; canceled := false; next_job := 0; subs := []; evs := [] |}.

(** One input of a poll: is the cancel lock present, what does check_jobs
    answer (code and dict in its iteration order), what do the submit calls of
    this poll answer. *)
Record pin := { cancel_req : bool; qcode : QCode; reports : list (nat * option State); psubs : list bool }.

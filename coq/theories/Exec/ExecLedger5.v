(** Coupling, part 5: the second pass at the level of one poll -- rows,
    resolved sets, the shape of the event list, and "every step staged in an
    unthrottled poll leaves INITIALIZED in that poll". *)
From Coq Require Import Lia Relations.
From MWF Require Import Base.Util Base.UtilLemmas Exec.ExecBase Exec.ExecGen Exec.ExecRun Exec.ExecTrace
  Exec.ExecGraph Exec.ExecInv Exec.ExecLedger Exec.ExecLedger2 Exec.ExecLedger3 Exec.ExecLedger4.

(** the rows/sets part of [SR] (no statement about the event list) *)
Record SRr (s s' : st) : Prop := {
  rr_comp : forall y, In y (completed s) -> In y (completed s');
  rr_fc : forall y, In y (failed s) \/ In y (cancelled s) -> In y (failed s') \/ In y (cancelled s');
  rr_row : forall y, In y (failed s) \/ In y (cancelled s) -> fc_row (stat s y) = true -> fc_row (stat s' y) = true;
  rr_ni : forall y, stat s y <> INITIALIZED -> stat s' y <> INITIALIZED;
  rr_deps : forall x, incl (getdeps s' x) (getdeps s x) }.

Lemma SR_SRr s s' : SR s s' -> SRr s s'.
Proof. intros [A1 A2 A3 A4 A5 A6]. constructor; auto. Qed.
Lemma SRr_refl s : SRr s s.
Proof. constructor; auto. intros x. apply incl_refl. Qed.
Lemma SRr_trans a b d : SRr a b -> SRr b d -> SRr a d.
Proof.
  intros [A1 A2 A3 A4 A5] [B1 B2 B3 B4 B5]. constructor; auto. intros x. eapply incl_tran; eauto.
Qed.

(** quiet events leave [sstage] alone and only add to [succ] *)
Lemma quiet_fold c g p l : Forall quiet_ev l -> forall L,
  sstage (fold_left (step_base c g p) l L) = sstage L /\
  (forall y, In y (succ L) -> In y (succ (fold_left (step_base c g p) l L))).
Proof.
  induction 1 as [|e l He Hl IH]; intros L; cbn [fold_left]; [auto|].
  destruct (IH (step_base c g p L e)) as [A B].
  assert (E : sstage (step_base c g p L e) = sstage L /\ (forall y, In y (succ L) -> In y (succ (step_base c g p L e)))).
  { destruct e as [js|js|x|x k sched res]; cbn in He; try contradiction; cbn [step_base]; auto.
    destruct res as [j|]; [|auto]. destruct sched; cbn; auto. split; auto. intros y Hy. apply In_sadd. auto. }
  destruct E as [E1 E2]. split; [rewrite A; exact E1|auto].
Qed.

Lemma led_ext c g p L0 s s' l : evs s' = l ++ evs s ->
  led c g p L0 s' = fold_left (step_base c g p) (rev l) (led c g p L0 s).
Proof. intros E. unfold led. rewrite E, rev_app_distr, fold_left_app. reflexivity. Qed.

Lemma quiet_led c g p L0 s s' : ext s s' ->
  sstage (led c g p L0 s') = sstage (led c g p L0 s) /\
  (forall y, In y (succ (led c g p L0 s)) -> In y (succ (led c g p L0 s'))).
Proof.
  intros [l [E Q]]. rewrite (led_ext c g p L0 s s' l E). apply quiet_fold. apply Forall_rev. exact Q.
Qed.

Section Poll5.
Variables (c : cfg) (g : graph) (p : pin) (L0 : base).
Notation ledS := (led c g p L0).
Notation cleanS := (clean c g p L0).
Hypothesis W : WF g.

Definition F31 (s1 : st) (r : SStatus) : Prop :=
  throttle c = 0 -> dry c = false -> r <> SABORT ->
  forall x, x < length g -> incl (parents (attr g x)) (sstage (ledS s1)) -> stat s1 x <> INITIALIZED.

Lemma X_not_init s y : X c s -> In y (completed s) -> stat s y <> INITIALIZED.
Proof. intros [A B] H. rewrite (B y H). unfold fin_of. destruct (dry c); discriminate. Qed.

(** stage + launch, common to the OK and NOJOBS paths *)
Lemma tail_x d s2 : dry c = d -> qinv c g p L0 d s2 -> Thr c s2 -> X c s2 -> R2 nobody s2 -> Dp g s2 ->
  let s3 := fold_left (stage_node_gen g) (seq 0 (length g)) s2 in
  let s4 := Nat.iter (available_gen c s3) (launch_body_gen c g) s3 in
  X c s4 /\ R2 nobody s4 /\ SRr s2 s4 /\ ext s2 s4 /\
  (throttle c = 0 -> forall x, x < length g -> incl (parents (attr g x)) (completed s2) -> stat s4 x <> INITIALIZED).
Proof.
  intros Hd Q2 T2 X2 R2' D2. cbv zeta.
  destruct (stage_fold_spec c g p L0 d (seq 0 (length g)) (fun x Hx => proj1 (In_seq_lt x (length g)) Hx) s2 Q2)
    as (Q3 & E1 & E2 & E3).
  destruct (stage_fold_x g (seq 0 (length g)) s2) as [SR3 ST3].
  set (s3 := fold_left (stage_node_gen g) (seq 0 (length g)) s2) in *.
  destruct (stage_rel_SR c s2 s3 SR3 X2 R2') as (X3 & R3 & S3).
  assert (AV : throttle c > 0 -> length (inprog s3) + available_gen c s3 <= throttle c).
  { intros Ht. unfold available_gen. destruct (throttle c =? 0) eqn:E; [apply Nat.eqb_eq in E; lia|].
    rewrite E1. specialize (T2 Ht). lia. }
  pose proof (launch_iter_x c g W p L0 d (available_gen c s3) s3 Hd Q3 AV X3 R3) as LI. cbv zeta in LI.
  destruct LI as (X4 & R4 & S4 & E4 & N4).
  set (s4 := Nat.iter (available_gen c s3) (launch_body_gen c g) s3) in *.
  split; [exact X4|]. split; [exact R4|].
  split; [apply SR_SRr; eapply SR_trans; eauto|]. split; [eapply ext_trans; [apply (sr_evs _ _ S3)|apply (sr_evs _ _ S4)]|].
  intros Ht x Hx Hp.
  pose proof SR3 as (A1 & A2 & A3 & A4 & A5 & A6 & A7 & A8).
  destruct (state_eqb (stat s2 x) INITIALIZED) eqn:Hs.
  - apply state_eqb_eq in Hs.
    assert (Hr : In x (ready s3)).
    { apply ST3; auto.
      - apply In_seq_lt. exact Hx.
      - destruct Q2 as (I2 & _). rewrite (i_len_deps g s2 I2). exact Hx.
      - intros Hc. apply (X_not_init s2 x X2 Hc). exact Hs. }
    apply N4. unfold available_gen. rewrite Ht. cbn [Nat.eqb]. rewrite firstn_all. exact Hr.
  - apply (sr_ni _ _ S4). rewrite A1. intros H. rewrite H in Hs. discriminate.
Qed.

Lemma sstage_echeck L js : sstage (step_base c g p L (ECheck js)) = succ (step_base c g p L (ECheck js)).
Proof. cbn [step_base]. destruct (qcode p); reflexivity. Qed.

Lemma execute_ready_steps_x d s : dry c = d -> qinv c g p L0 d s -> Thr c s -> valid_pin s p = true ->
  X c s -> R2 nobody s -> Dp g s ->
  let s1 := fst (execute_ready_steps_gen c g p s) in
  X c s1 /\ R2 nobody s1 /\ SRr s s1 /\ (exists l, evs s1 = l ++ evs s) /\
  F31 s1 (snd (execute_ready_steps_gen c g p s)).
Proof.
  intros Hd Q T V Xs Rs Ds. unfold execute_ready_steps_gen.
  destruct (dry c) eqn:Hdry; cbn [negb]; subst d.
  - cbn [qcode_eqb]. change (dispatch_gen c g [] s) with s. cbn [fst snd].
    pose proof (tail_x true s Hdry Q T Xs Rs Ds) as TX. cbv zeta in TX. destruct TX as (X4 & R4 & S4 & [l [E4 _]] & _).
    split; [exact X4|]. split; [exact R4|]. split; [exact S4|]. split; [exists l; exact E4|].
    intros _ H. rewrite Hdry in H. discriminate.
  - destruct Q as (I & Cl & Jh).
    set (e := ECheck (map (lastjob s) (inprog s))).
    assert (I1 : Inv g (emit e s)) by (eapply Inv_fields; [| | | | | | |exact I]; reflexivity).
    assert (Cl1 : cleanS (emit e s)).
    { apply clean_emit. split; [exact Cl|]. cbn [evA e]. apply same_jobs_J; [apply (i_nd_inprog g s I)|apply Jh]. }
    pose proof (echeck_J c g p s (ledS s) (map (lastjob s) (inprog s)) Jh) as J1.
    fold e in J1. rewrite <- led_emit in J1.
    assert (J1' : J false (tpend (if qcode_eqb (qcode p) QOK then reports p else []))
                    (pfin (if qcode_eqb (qcode p) QOK then reports p else [])) (emit e s) (ledS (emit e s))).
    { destruct J1 as [Jl Js]. split.
      - eapply JL_frame; [| | | | |exact Jl]; auto; tauto.
      - eapply JS_frame; [| |exact Js]; auto; tauto. }
    clear J1. rename J1' into J1.
    assert (Xa : X c (emit e s)) by (apply (X_quiet c s); auto).
    assert (Ra : R2 nobody (emit e s)) by (apply (R2_quiet nobody s); auto).
    assert (Da : Dp g (emit e s)) by exact Ds.
    assert (Sa : SRr s (emit e s)).
    { constructor; auto. intros x. apply incl_refl. }
    assert (SS : sstage (ledS (emit e s)) = succ (ledS (emit e s))) by (rewrite led_emit; apply sstage_echeck).
    assert (NONE : J false (tpend []) (pfin []) (emit e s) (ledS (emit e s)) -> J false none none (emit e s) (ledS (emit e s))).
    { intros [Jl Js]. split.
      - eapply JL_ext; [|exact Jl]. intros y _. split; [intros (v & [] & _)|intros []].
      - eapply JS_ext; [|exact Js]. intros y. split; intros []. }
    assert (FIN : forall s2, qinv c g p L0 false s2 -> Thr c s2 -> X c s2 -> R2 nobody s2 -> SR (emit e s) s2 ->
              let s3 := fold_left (stage_node_gen g) (seq 0 (length g)) s2 in
              let s4 := Nat.iter (available_gen c s3) (launch_body_gen c g) s3 in
              X c s4 /\ R2 nobody s4 /\ SRr s s4 /\ (exists l, evs s4 = l ++ evs s) /\
              (throttle c = 0 -> forall x, x < length g -> incl (parents (attr g x)) (sstage (ledS s4)) ->
                                 stat s4 x <> INITIALIZED)).
    { intros s2 Q2 T2 X2 R2' S2.
      assert (D2 : Dp g s2) by (eapply Dp_SR; eauto).
      pose proof (tail_x false s2 Hdry Q2 T2 X2 R2' D2) as TX. cbv zeta in TX.
      destruct TX as (X4 & R4 & S4 & E4 & F4). cbv zeta.
      set (s4 := Nat.iter (available_gen c (fold_left (stage_node_gen g) (seq 0 (length g)) s2)) (launch_body_gen c g)
                   (fold_left (stage_node_gen g) (seq 0 (length g)) s2)) in *.
      split; [exact X4|]. split; [exact R4|].
      split; [eapply SRr_trans; [exact Sa|]; eapply SRr_trans; [apply SR_SRr; exact S2|exact S4]|].
      split.
      { destruct E4 as [l4 [E4 _]]. destruct (sr_evs _ _ S2) as [l2 [E2 _]].
        exists (l4 ++ l2 ++ [e]). rewrite E4, E2. cbn [evs emit set_evs]. rewrite <- !app_assoc. reflexivity. }
      intros Ht x Hx Hp. apply F4; auto.
      destruct (quiet_led c g p L0 s2 s4 E4) as [G1 _].
      destruct (quiet_led c g p L0 (emit e s) s2 (sr_evs _ _ S2)) as [G2 G3].
      rewrite G1, G2, SS in Hp. intros q Hq. specialize (Hp q Hq). apply G3 in Hp.
      destruct Q2 as (_ & _ & [_ Js2]). destruct (j_succ2 _ _ _ _ Js2 q Hp) as [H|[]]. exact H. }
    destruct (qcode p) eqn:Eq; cbn [qcode_eqb] in *.
    + (* OK *)
      destruct (valid_pin_spec s p V Eq) as [ND RI].
      pose proof (dispatch_spec c g p L0 W Hdry (reports p) (emit e s) I1 T Cl1 J1 ND RI) as DS.
      cbv zeta in DS. destruct DS as (I2 & T2 & Cl2 & J2).
      destruct (dispatch_x c g W p L0 (reports p) (emit e s) Hdry I1 T Cl1 J1 ND RI Xa Ra) as (X2 & R2' & S2).
      cbn [fst snd].
      pose proof (FIN _ (conj I2 (conj Cl2 J2)) T2 X2 R2' S2) as FX. cbv zeta in FX.
      destruct FX as (X4 & R4 & S4 & E4 & F4). repeat (split; [assumption|]).
      intros Ht _ _. apply F4. exact Ht.
    + (* NOJOBS *)
      cbn [fst snd].
      pose proof (FIN _ (conj I1 (conj Cl1 (NONE J1))) T Xa Ra (SR_refl _)) as FX. cbv zeta in FX.
      destruct FX as (X4 & R4 & S4 & E4 & F4). repeat (split; [assumption|]).
      intros Ht _ _. apply F4. exact Ht.
    + (* ERROR *)
      cbn [fst snd]. split; [exact Xa|]. split; [exact Ra|]. split; [exact Sa|].
      split; [exists [e]; reflexivity|]. intros _ _ H. contradiction.
Qed.

(** one iteration of monitor_study *)
Definition poll_start (s : st) (p : pin) : st := set_evs (set_subs s (psubs p)) [].

Lemma poll_x d s : dry c = d -> Inv g s -> Thr c s -> J d none none s L0 -> valid_pin s p = true ->
  X c s -> R2 nobody s -> Dp g s ->
  let s1 := fst (poll c g s p) in
  X c s1 /\ R2 nobody s1 /\ Dp g s1 /\ SRr s s1 /\
  (cancel_req p = true -> exists js l, rev (evs s1) = ECancel js :: l) /\
  F31 s1 (snd (poll c g s p)).
Proof.
  intros Hd I T Jh V Xs Rs Ds. unfold poll.
  set (s0 := set_evs (set_subs s (psubs p)) []).
  assert (Q0 : qinv c g p L0 d s0).
  { split; [eapply Inv_fields; [| | | | | | |exact I]; reflexivity|]. split; [exact Logic.I|].
    change (ledS s0) with L0. destruct Jh as [Jl Js]. split.
    - eapply JL_frame; [| | | | |exact Jl]; auto; tauto.
    - eapply JS_frame; [| |exact Js]; auto; tauto. }
  assert (X0 : X c s0) by (apply (X_quiet c s); auto).
  assert (R0 : R2 nobody s0) by (apply (R2_quiet nobody s); auto).
  assert (S0 : SRr s s0) by (constructor; auto; intros x; apply incl_refl).
  destruct (cancel_req p).
  - destruct (cancel_study_spec c g p L0 d s0 Q0) as [Q1 E1].
    set (s0' := cancel_study_gen s0) in *.
    assert (X1 : X c s0') by (apply (X_quiet c s0); auto).
    assert (R1 : R2 nobody s0') by (apply (R2_quiet nobody s0); auto).
    assert (S1 : SRr s0 s0') by (constructor; auto; intros x; apply incl_refl).
    pose proof (execute_ready_steps_x d s0' Hd Q1 T V X1 R1 Ds) as EX. cbv zeta in EX.
    destruct EX as (X2 & R2' & S2 & [l E2] & F2).
    split; [exact X2|]. split; [exact R2'|].
    split; [intros x; eapply incl_tran; [apply (rr_deps _ _ S2)|apply Ds]|].
    split; [eapply SRr_trans; [exact S0|]; eapply SRr_trans; eauto|].
    split; [|exact F2]. intros _. exists (map (lastjob s0) (inprog s0)), (rev l).
    rewrite E2. unfold s0', cancel_study_gen. cbn [evs emit set_evs set_canceled s0 set_subs].
    rewrite rev_app_distr. reflexivity.
  - pose proof (execute_ready_steps_x d s0 Hd Q0 T V X0 R0 Ds) as EX. cbv zeta in EX.
    destruct EX as (X2 & R2' & S2 & _ & F2).
    split; [exact X2|]. split; [exact R2'|].
    split; [intros x; eapply incl_tran; [apply (rr_deps _ _ S2)|apply Ds]|].
    split; [eapply SRr_trans; eauto|]. split; [discriminate|exact F2].
Qed.

End Poll5.

(** Coupling, part 12: poll-level coupling of the remaining ledger fields
    ([allj], [tried], [lchk], [jc]) and the end-of-poll verdicts 12, 205, 207, 51-55. *)
From Coq Require Import Lia Relations.
From MWF Require Status.ExecJobs Exec.ExecFault.
From MWF Require Import Base.Util Base.UtilLemmas Exec.ExecBase Exec.ExecGen Exec.ExecRun Exec.ExecTrace
  Exec.ExecGraph Exec.ExecInv Exec.ExecPoll Exec.ExecSteps Exec.ExecPoll2 Exec.ExecPoll3 Exec.ExecPoll4
  Exec.ExecHist Exec.ExecVerdict
  Exec.ExecLedger Exec.ExecLedger2 Exec.ExecLedger3 Exec.ExecLedger4 Exec.ExecLedger5 Exec.ExecLedger6
  Exec.ExecLedger11.

Notation subm := ExecJobs.subm.
Notation jobs_of := ExecJobs.jobs_of.

(** * What the events of a poll do to [allj], [tried], [live], [succ] *)
Lemma deliver_fold_keep reps : forall m,
  allj (fold_left deliver reps m) = allj m /\ tried (fold_left deliver reps m) = tried m.
Proof.
  induction reps as [|r reps IH]; intros m; cbn [fold_left]; [auto|].
  destruct (IH (deliver m r)) as [A B]. rewrite A, B. destruct r as [x [v|]]; [destruct v|]; split; reflexivity.
Qed.

Record evfacts (c : cfg) (g : graph) (p : pin) (es : list event) (L L' : base) : Prop := {
  ef_len : length (allj L') = length (allj L);
  ef_allj : forall x, x < length (allj L) -> nth x (allj L') [] = nth x (allj L) [] ++ jobs_of (subm es) x;
  ef_tried : forall x, In x (tried L) -> In x (tried L');
  ef_sub : forall x k sc res, In (ESubmit x k sc res) es -> In x (tried L');
  ef_live : forall x j, In (x, j) (live L') -> In (x, j) (live L) \/ In x (tried L');
  ef_succ : forall x, In x (succ L') -> In x (succ L) \/ In x (tried L') \/
                      (qcode p = QOK /\ In (x, Some FINISHED) (reports p)) }.

Lemma evfacts_nil c g p L : evfacts c g p [] L L.
Proof.
  constructor; auto.
  - intros x Hx. cbn. unfold jobs_of. cbn. rewrite app_nil_r. reflexivity.
  - intros x k sc res [].
Qed.

Lemma evfacts_step c g p e L : evfacts c g p [e] L (step_base c g p L e).
Proof.
  destruct e as [js|js|x|x k sched res].
  - constructor; cbn [step_base]; auto.
    + intros x Hx. cbn. rewrite app_nil_r. reflexivity.
    + intros x k sc res [E|[]]. discriminate.
  - cbn [step_base].
    set (L1 := set_check L (map fst (live L)) (sstage L)).
    assert (F : allj (match qcode p with QOK => fold_left deliver (reports p) L1 | _ => L1 end) = allj L /\
                tried (match qcode p with QOK => fold_left deliver (reports p) L1 | _ => L1 end) = tried L).
    { destruct (qcode p); try (split; reflexivity). apply (deliver_fold_keep (reports p) L1). }
    destruct F as [F1 F2].
    constructor; cbn [allj tried live succ set_check]; rewrite ?F1, ?F2; auto.
    + intros x Hx. cbn. rewrite app_nil_r. reflexivity.
    + intros x k sc res [E|[]]. discriminate.
    + intros x j Hx. left. destruct (qcode p); auto.
      destruct (deliver_fold (reports p) L1) as (A1 & _). apply A1 in Hx. tauto.
    + intros x Hx. destruct (qcode p) eqn:Q; auto.
      destruct (deliver_fold (reports p) L1) as (_ & A2 & _). apply A2 in Hx. destruct Hx as [Hx|Hx]; auto.
  - constructor; cbn [step_base]; auto.
    + intros y Hy. cbn. rewrite app_nil_r. reflexivity.
    + intros y k sc res [E|[]]. discriminate.
  - assert (EA : allj (step_base c g p L (ESubmit x k sched res)) =
                 match res with Some j => upd x (fun l => l ++ [j]) (allj L) | None => allj L end)
      by (destruct res as [j|]; [destruct sched|]; reflexivity).
    assert (ET : tried (step_base c g p L (ESubmit x k sched res)) = sadd x (tried L))
      by (destruct res as [j|]; [destruct sched|]; reflexivity).
    assert (EL : live (step_base c g p L (ESubmit x k sched res)) =
                 match res with Some j => if sched then live L ++ [(x, j)] else live L | None => live L end)
      by (destruct res as [j|]; [destruct sched|]; reflexivity).
    assert (ES : succ (step_base c g p L (ESubmit x k sched res)) =
                 match res with Some j => if sched then succ L else sadd x (succ L) | None => succ L end)
      by (destruct res as [j|]; [destruct sched|]; reflexivity).
    constructor; rewrite ?EA, ?ET, ?EL, ?ES.
    + destruct res; rewrite ?length_upd; reflexivity.
    + intros y Hy. unfold jobs_of. destruct res as [j|]; cbn [subm filter map fst snd].
      * destruct (Nat.eq_dec x y) as [->|Hn].
        -- rewrite nth_upd_eq by exact Hy. rewrite Nat.eqb_refl. reflexivity.
        -- rewrite nth_upd_neq by exact Hn. apply Nat.eqb_neq in Hn. rewrite Hn. cbn. rewrite app_nil_r. reflexivity.
      * cbn. rewrite app_nil_r. reflexivity.
    + intros y Hy. apply In_sadd. auto.
    + intros y k0 sc res0 [E|[]]. inversion E; subst. apply In_sadd. auto.
    + intros y j0 Hy. destruct res as [j|]; [destruct sched|]; auto.
      apply in_app_iff in Hy. destruct Hy as [Hy|[E|[]]]; auto. inversion E; subst. right. apply In_sadd. auto.
    + intros y Hy. destruct res as [j|]; [destruct sched|]; auto.
      apply In_sadd in Hy. destruct Hy as [->|Hy]; auto. right. left. apply In_sadd. auto.
Qed.

Lemma evfacts_trans c g p es1 es2 L1 L2 L3 :
  evfacts c g p es1 L1 L2 -> evfacts c g p es2 L2 L3 -> evfacts c g p (es1 ++ es2) L1 L3.
Proof.
  intros [A1 A2 A3 A4 A5 A6] [B1 B2 B3 B4 B5 B6]. constructor.
  - congruence.
  - intros x Hx. rewrite B2 by (rewrite A1; exact Hx). rewrite A2 by exact Hx.
    rewrite ExecJobs.subm_app, ExecJobs.jobs_of_app, app_assoc. reflexivity.
  - auto.
  - intros x k sc res H. apply in_app_iff in H. destruct H as [H|H]; eauto.
  - intros x j H. destruct (B5 x j H) as [H1|H1]; auto. destruct (A5 x j H1); auto.
  - intros x H. destruct (B6 x H) as [H1|[H1|H1]]; auto. destruct (A6 x H1) as [H2|[H2|H2]]; auto.
Qed.

Lemma evfacts_fold c g p es : forall L, evfacts c g p es L (fold_left (step_base c g p) es L).
Proof.
  induction es as [|e es IH]; intros L; cbn [fold_left]; [apply evfacts_nil|].
  change (e :: es) with ([e] ++ es). eapply evfacts_trans; [apply evfacts_step|apply IH].
Qed.

(** * Small facts about the monitor's helpers *)
Lemma row_jobs_rows s x : row_jobs (rows_of s) x = jobs (getrec s x).
Proof.
  unfold row_jobs, rows_of, getrec.
  change (INITIALIZED, @nil nat, 0) with ((fun r => (status r, jobs r, restarts r)) dflt_rec).
  rewrite map_nth. reflexivity.
Qed.
Lemma row_restarts_rows s x : row_restarts (rows_of s) x = restarts (getrec s x).
Proof.
  unfold row_restarts, rows_of, getrec.
  change (INITIALIZED, @nil nat, 0) with ((fun r => (status r, jobs r, restarts r)) dflt_rec).
  rewrite map_nth. reflexivity.
Qed.
Lemma nth_rows s x : nth x (rows_of s) (INITIALIZED, [], 0) =
  (status (getrec s x), jobs (getrec s x), restarts (getrec s x)).
Proof.
  unfold rows_of, getrec.
  change (INITIALIZED, @nil nat, 0) with ((fun r => (status r, jobs r, restarts r)) dflt_rec).
  rewrite map_nth. reflexivity.
Qed.

Lemma report_of_In reps x o : NoDup (map fst reps) -> In (x, o) reps -> report_of reps x = o.
Proof.
  unfold report_of. induction reps as [|[y o'] reps IH]; intros N H; [destruct H|].
  cbn [map fst] in N. inversion N as [|? ? N1 N2]; subst. cbn [find fst].
  destruct H as [E|H].
  - inversion E; subst. rewrite Nat.eqb_refl. destruct o; reflexivity.
  - destruct (Nat.eqb_spec y x) as [->|Hn]; [|apply IH; auto].
    exfalso. apply N1. apply in_map_iff. exists (x, o). auto.
Qed.

Lemma live_of_true x j L : In (x, j) (live L) -> live_of x L = true.
Proof.
  intros H. unfold live_of. apply existsb_exists. exists (x, j). split; auto. cbn. apply Nat.eqb_refl.
Qed.

Lemma vp_imp s p : ExecPoll.valid_pin s p = true -> ExecLedger2.valid_pin s p = true.
Proof.
  unfold ExecPoll.valid_pin, ExecLedger2.valid_pin. intros H. apply andb_true_iff in H. destruct H as [H1 H2].
  rewrite H1, H2. apply orb_true_r.
Qed.

Lemma vps_imp c g ps : forall s, ExecPoll.valid_pins c g s ps = true -> valid_run c g s ps = true.
Proof.
  induction ps as [|p ps IH]; intros s H; [reflexivity|].
  cbn [ExecPoll.valid_pins valid_run] in *. apply andb_true_iff in H. destruct H as [H1 H2].
  rewrite (vp_imp s p H1). cbn [andb]. destruct (poll c g s p) as [s1 r]. destruct r; auto.
Qed.

(** failed/cancelled is closed under descendants as long as no cancel was requested *)
Lemma FC_closed g t w z : WF g -> canceled t = false -> PC g t [] [] -> FC t w -> reach g w z -> FC t z.
Proof.
  intros W Hc [P1 P2 P3] Hw R. unfold U in *. induction R as [|y z E R IH]; [exact Hw|].
  destruct E as [Hy Hch]. destruct IH as [Hf|Hk].
  - destruct (P1 y (or_introl Hf) z Hch) as [H|[H|[[]|[]]]]; [left|right]; auto.
  - destruct (P2 y Hk Hc z Hch) as [H|[H|[[]|[]]]]; [left|right]; auto.
Qed.

Lemma lchk_deliver_fold reps : forall m, lchk (fold_left deliver reps m) = lchk m.
Proof.
  induction reps as [|r reps IH]; intros m; cbn [fold_left]; auto. rewrite IH.
  destruct r as [x [v|]]; [destruct v|]; reflexivity.
Qed.

(** the ledger right after the status query of a poll: which steps it recorded as live *)
Lemma lchk_mid c g p L0 s : lchk (led c g p L0 (poll_mid c p s)) =
  if dry c then lchk L0 else map fst (live L0).
Proof.
  unfold led. rewrite (evs_mid c p s), rev_app_distr, fold_left_app.
  set (La := fold_left (step_base c g p) (rev (if cancel_req p then [ECancel (map (lastjob s) (inprog s))] else [])) L0).
  assert (Ea : lchk La = lchk L0 /\ live La = live L0) by (unfold La; destruct (cancel_req p); split; reflexivity).
  destruct Ea as [E1 E2]. destruct (dry c); cbn [negb rev app fold_left]; [exact E1|].
  cbn [step_base]. cbn [lchk set_check]. destruct (qcode p); cbn [lchk set_check].
  - rewrite lchk_deliver_fold. cbn. rewrite E2. reflexivity.
  - rewrite E2. reflexivity.
  - rewrite E2. reflexivity.
Qed.

(** * The boundary invariant for the remaining ledger fields *)
Record BZ (c : cfg) (g : graph) (s : st) (L : base) : Prop := {
  z_len : length (allj L) = length g;
  z_allj : forall x, x < length g -> jobs (getrec s x) = nth x (allj L) [];
  z_lchk : lchk L = [];
  z_jc : JCB s L;
  z_t1 : dry c = false -> forall x, In x (inprog s) \/ In x (completed s) -> In x (tried L);
  z_t2 : forall y, FC s y -> In y (tried L) \/ canceled s = true \/
                   exists q, In q (parents (attr g y)) /\ FC s q }.

Lemma BZ_init c g : BZ c g (init g) (base0 g).
Proof.
  constructor; cbn; auto.
  - apply map_length.
  - intros x Hx. unfold getrec. cbn [recs init].
    change dflt_rec with ((fun _ : sattr => dflt_rec) dflt_attr). rewrite map_nth. cbn.
    change (@nil nat) with ((fun _ : sattr => @nil nat) dflt_attr). rewrite map_nth. reflexivity.
  - split; [intros x []|discriminate].
  - intros _ x [[]|[]].
  - intros y [[]|[]].
Qed.

Definition famZ : list nat := [12; 205; 207; 51; 52; 53; 54; 55].

(** what it takes for one of these end-of-poll codes to be raised *)
Lemma flags_end_casesZ c g p m rows stat k : In k (flags_end c g p m rows stat) -> In k famZ ->
  let n := all_nodes g in
  let aborted := sstatus_eqb stat SABORT in
  let allsucc := forallb (fun x => mem x (succ m) || state_eqb (row_status rows x) DRYRUN) n in
  let normal := sstatus_eqb stat SFINISHED || sstatus_eqb stat SFAILURE in
  (k = 12 /\ forallb (fun x => leqb (row_jobs rows x) (nth x (allj m) [])) n = false) \/
  (k = 205 /\ forallb (fun x =>
        let quiet := negb (qcode_eqb (qcode p) QOK) ||
                     match report_of (reports p) x with
                     | None => true
                     | Some v => negb (terminal v) && negb (state_eqb v RUNNING) end in
        impb quiet (row_eqb (nth x rows (INITIALIZED, [], 0)) (nth x (prev m) (INITIALIZED, [], 0)) && live_of x m))
      (lchk m) = false) \/
  (k = 207 /\ forallb (fun x =>
        impb (qcode_eqb (qcode p) QOK && oeqb (report_of (reports p) x) RUNNING)
             (state_eqb (row_status rows x) RUNNING && leqb (row_jobs rows x) (row_jobs (prev m) x) &&
              Nat.eqb (row_restarts rows x) (row_restarts (prev m) x) && live_of x m))
      (lchk m) = false) \/
  (k = 51 /\ negb (sstatus_eqb stat SFINISHED) || (allsucc && negb (cseen m)) = false) \/
  (k = 52 /\ negb (allsucc && negb (cseen m)) || aborted || sstatus_eqb stat SFINISHED = false) \/
  (k = 53 /\ negb (sstatus_eqb stat SCANCELLED) || cseen m || jc m = false) \/
  (k = 54 /\ negb (sstatus_eqb stat SFAILURE) || (negb (cseen m) && negb (jc m) && negb allsucc) = false) \/
  (k = 55 /\ negb normal ||
      forallb (fun x => impb (subset (parents (attr g x)) (succ m))
                             (mem x (tried m) || state_eqb (row_status rows x) DRYRUN)) n = false).
Proof.
  intros Hin Hk. unfold flags_end in Hin. cbv zeta in *.
  repeat rewrite In_ck_app in Hin. rewrite ck_In in Hin.
  cbn in Hk.
  repeat (destruct Hin as [[Hb E]|Hin]; [subst k; try (exfalso; intuition discriminate); tauto|]).
  destruct Hin as [Hb E]. subst k. exfalso. intuition discriminate.
Qed.

(** * The verdict codes *)
Lemma sstatus_eqb_eq a b : sstatus_eqb a b = true <-> a = b.
Proof. destruct a, b; cbn; split; intros H; try reflexivity; discriminate. Qed.

Section Verdict.
Variables (c : cfg) (g : graph) (s1 : st) (L : base) (r : SStatus).
Hypothesis I1 : Inv g s1.
Hypothesis X1 : X c s1.
Hypothesis J1 : ExecLedger.J (dry c) none none s1 L.
Hypothesis JC1 : JCB s1 L.
Hypothesis Hr : r = SABORT \/ r = completion_gen g s1.

Let allsucc := forallb (fun x => mem x (succ L) || state_eqb (row_status (rows_of s1) x) DRYRUN) (all_nodes g).

Lemma allsucc_iff : allsucc = true <-> all_completed g s1.
Proof.
  destruct J1 as [_ [S1 S2 S3 S4]]. destruct X1 as [XA XB].
  unfold allsucc, all_completed, all_nodes. rewrite forallb_forall. split.
  - intros H x Hx. specialize (H x (proj2 (In_seq_lt x (length g)) Hx)). apply orb_true_iff in H.
    destruct H as [H|H].
    + apply mem_In in H. destruct (S2 x H) as [K|[]]. exact K.
    + rewrite row_status_rows in H. apply ExecLedger2.state_eqb_eq in H. apply XA. auto.
  - intros H x Hx. apply In_seq_lt in Hx. specialize (H x Hx). apply orb_true_iff.
    destruct (dry c) eqn:Hd.
    + right. rewrite row_status_rows, (XB x H). unfold fin_of. rewrite Hd. reflexivity.
    + left. apply mem_In. apply S1; auto.
Qed.

Lemma cseen_canceled : cseen L = canceled s1.
Proof. destruct J1 as [[_ _ C] _]. exact C. Qed.

Lemma end_51 : negb (sstatus_eqb r SFINISHED) || (allsucc && negb (cseen L)) = true.
Proof.
  destruct (sstatus_eqb r SFINISHED) eqn:E; [|reflexivity]. cbn [negb orb]. apply sstatus_eqb_eq in E.
  destruct Hr as [H|H]; [congruence|]. rewrite E in H. symmetry in H.
  apply (verdict_finished g s1 I1) in H. destruct H as [Hc Ha].
  rewrite cseen_canceled, Hc. rewrite (proj2 allsucc_iff Ha). reflexivity.
Qed.

Lemma end_52 : negb (allsucc && negb (cseen L)) || sstatus_eqb r SABORT || sstatus_eqb r SFINISHED = true.
Proof.
  destruct (allsucc && negb (cseen L)) eqn:E; [|reflexivity]. cbn [negb orb].
  apply andb_true_iff in E. destruct E as [E1 E2]. apply allsucc_iff in E1.
  apply negb_true_iff in E2. rewrite cseen_canceled in E2.
  destruct Hr as [->| ->]; [reflexivity|].
  rewrite (proj2 (verdict_finished g s1 I1) (conj E2 E1)). reflexivity.
Qed.

Lemma end_53 : negb (sstatus_eqb r SCANCELLED) || cseen L || jc L = true.
Proof.
  destruct (sstatus_eqb r SCANCELLED) eqn:E; [|reflexivity]. cbn [negb orb]. apply sstatus_eqb_eq in E.
  destruct Hr as [H|H]; [congruence|]. rewrite E in H. symmetry in H.
  apply verdict_cancelled in H. rewrite cseen_canceled. destruct H as [[H _]|[_ H]].
  - rewrite H. reflexivity.
  - destruct (cancelled s1) as [|x l] eqn:Ec; [congruence|].
    destruct JC1 as [B1 _]. destruct (B1 x) as [K|K]; [rewrite Ec; left; reflexivity| |]; rewrite K; auto.
    apply orb_true_r.
Qed.

Lemma end_54 : negb (sstatus_eqb r SFAILURE) || (negb (cseen L) && negb (jc L) && negb allsucc) = true.
Proof.
  destruct (sstatus_eqb r SFAILURE) eqn:E; [|reflexivity]. cbn [negb orb]. apply sstatus_eqb_eq in E.
  destruct Hr as [H|H]; [congruence|]. rewrite E in H. symmetry in H.
  apply verdict_failure in H. destruct H as (A & Cn & F & N).
  assert (Hc : canceled s1 = false).
  { destruct (canceled s1) eqn:K; auto. exfalso. apply N. split; auto. apply (all_resolved_inprog_nil g s1 I1 A). }
  rewrite cseen_canceled, Hc. cbn [negb andb].
  assert (Hj : jc L = false).
  { destruct (jc L) eqn:K; auto. destruct JC1 as [_ B2]. destruct (B2 K) as [x Hx]. rewrite Cn in Hx. destruct Hx. }
  rewrite Hj. cbn [negb andb]. apply negb_true_iff.
  destruct allsucc eqn:K; auto. exfalso. apply allsucc_iff in K.
  destruct (failed s1) as [|x l] eqn:Ef; [congruence|].
  assert (Hx : In x (failed s1)) by (rewrite Ef; left; reflexivity).
  destruct (i_dj_fc g s1 I1 x (or_introl Hx)) as (H1 & _). apply H1. apply K. apply (i_bound g s1 I1). auto 6.
Qed.

Hypothesis T1 : dry c = false -> forall x, In x (inprog s1) \/ In x (completed s1) -> In x (tried L).
Hypothesis T2 : forall y, FC s1 y -> In y (tried L) \/ canceled s1 = true \/
                          exists q, In q (parents (attr g y)) /\ FC s1 q.

Lemma end_55 : negb (sstatus_eqb r SFINISHED || sstatus_eqb r SFAILURE) ||
  forallb (fun x => impb (subset (parents (attr g x)) (succ L))
                         (mem x (tried L) || state_eqb (row_status (rows_of s1) x) DRYRUN)) (all_nodes g) = true.
Proof.
  destruct (sstatus_eqb r SFINISHED || sstatus_eqb r SFAILURE) eqn:E; [|reflexivity]. cbn [negb orb].
  assert (Hn : completion_gen g s1 = SFINISHED \/ completion_gen g s1 = SFAILURE).
  { apply orb_true_iff in E. destruct E as [E|E]; apply sstatus_eqb_eq in E; destruct Hr as [H|H]; try congruence;
      rewrite <- H, E; auto. }
  assert (A : all_resolved g s1 /\ cancelled s1 = []).
  { destruct Hn as [H|H]; [apply verdict_finished_raw in H|apply verdict_failure in H]; tauto. }
  destruct A as [A Cn].
  assert (Hc : canceled s1 = false).
  { destruct (canceled s1) eqn:K; auto. exfalso.
    assert (CD : cancel_done s1) by (split; auto; apply (all_resolved_inprog_nil g s1 I1 A)).
    destruct Hn as [H|H]; [apply verdict_finished_raw in H|apply verdict_failure in H]; tauto. }
  destruct J1 as [_ [S1 S2 S3 S4]]. destruct X1 as [XA XB].
  apply forallb_forall. intros x Hx. apply In_seq_lt in Hx.
  destruct (subset (parents (attr g x)) (succ L)) eqn:Hs; [|reflexivity]. cbn [impb negb orb].
  apply subset_incl in Hs. apply orb_true_iff.
  destruct (A x Hx) as [H|[H|H]]; [| |rewrite Cn in H; destruct H].
  - destruct (dry c) eqn:Hd.
    + right. rewrite row_status_rows, (XB x H). unfold fin_of. rewrite Hd. reflexivity.
    + left. apply mem_In. apply T1; auto.
  - left. apply mem_In. destruct (T2 x (or_introl H)) as [K|[K|(q & Hq & Fq)]]; [exact K|congruence|].
    exfalso. specialize (Hs q Hq). destruct (S2 q Hs) as [K|[]].
    destruct (i_dj_fc g s1 I1 q Fq) as (H1 & _). contradiction.
Qed.

End Verdict.

(** * One poll: the boundary invariant [BZ] and the verdicts of [famZ] *)
Lemma pre_poll_fields p es m :
  allj (mb (pre_poll p es m)) = allj (mb m) /\ tried (mb (pre_poll p es m)) = tried (mb m) /\
  live (mb (pre_poll p es m)) = live (mb m) /\ succ (mb (pre_poll p es m)) = succ (mb m) /\
  lchk (mb (pre_poll p es m)) = lchk (mb m) /\ jc (mb (pre_poll p es m)) = jc (mb m) /\
  prev (mb (pre_poll p es m)) = prev (mb m).
Proof. rewrite pre_poll_mb. destruct (cancel_req p); repeat split. Qed.

Lemma poll_Z c g p s m : WF g -> 0 < attempts c -> B c g s m -> BZ c g s (mb m) -> Good c g s ->
  ExecPoll.valid_pin s p = true ->
  let s1 := fst (poll c g s p) in
  let r := snd (poll c g s p) in
  let mm := fold_left (step_ev c g p) (rev (evs s1)) (pre_poll p (rev (evs s1)) m) in
  BZ c g s1 (end_base c g (mb mm) (rows_of s1)) /\
  (forall k, In k famZ -> ~ In k (flags_end c g p (mb mm) (rows_of s1) r)).
Proof.
  intros W Ha (I & T & Jh & Xs & Rs & Ds & Pv) [Z1 Z2 Z3 Z4 Z5 Z6] G V. cbv zeta.
  pose proof (vp_imp s p V) as V'.
  set (s1 := fst (poll c g s p)). set (r := snd (poll c g s p)).
  destruct (req_state_inv c g (dry c) p (rev (evs s1)) s m I T Jh V') as (I0 & T0 & J0 & V0).
  destruct (req_state_x c g p s Xs Rs Ds) as (X0 & R0 & D0 & _ & _).
  set (m0 := pre_poll p (rev (evs s1)) m) in *.
  destruct (pre_poll_fields p (rev (evs s1)) m) as (P1 & P2 & P3 & P4 & P5 & P6 & P7). fold m0 in P1, P2, P3, P4, P5, P6, P7.
  destruct (poll_spec c g p (mb m0) W (dry c) (req_state p s) eq_refl I0 T0 J0 V0) as [(I1 & Cl1 & J1) T1].
  pose proof (poll_x c g p (mb m0) W (dry c) (req_state p s) eq_refl I0 T0 J0 V0 X0 R0 D0) as PX.
  cbv zeta in PX. rewrite poll_req_state in *. fold s1 in I1, Cl1, J1, T1, PX. fold r in PX.
  destruct PX as (X1 & _).
  destruct (step_ev_fold c g p (rev (evs s1)) m0) as [A _].
  set (mm := fold_left (step_ev c g p) (rev (evs s1)) m0) in *.
  assert (EL : mb mm = led c g p (mb m0) s1) by exact A.
  rewrite <- EL in J1.
  pose proof (evfacts_fold c g p (rev (evs s1)) (mb m0)) as EF. fold (led c g p (mb m0) s1) in EF. rewrite <- EL in EF.
  destruct EF as [F1 F2 F3 F4 F5 F6]. rewrite ?P1, ?P2, ?P3, ?P4 in *.
  set (L := mb mm) in *.
  pose proof (Good_poll c g s p W G V) as G1. fold s1 in G1.
  pose proof (poll_status c g s p) as PS. fold s1 r in PS.
  assert (Pm : prev L = rows_of s).
  { rewrite EL. unfold led. rewrite prev_fold, P7. exact Pv. }
  assert (VS := proj1 (ExecPoll.valid_pin_spec s p) V). destruct VS as [Vn Vi].
  assert (VR : ExecFault.valid_reports s p) by (intros [y o] Hr; cbn; eapply Vi; eauto).
  destruct (poll_mono c g s p W I V) as (M1 & M2 & M3 & M4). fold s1 in M1, M2, M3, M4.
  (* jc *)
  assert (JC1 : JCB s1 L).
  { rewrite EL. apply (poll_JCB c g p (mb m0) s W I V). destruct Z4 as [B1 B2]. unfold JCB. rewrite P6. auto. }
  (* lchk *)
  assert (LC : lchk L = if dry c then [] else map fst (live (mb m))).
  { rewrite EL. destruct (poll_led_mid c g p (mb m0) s W I V) as [_ E]. fold s1 in E. rewrite E, lchk_mid, P5, P3, Z3. reflexivity. }
  assert (LCi : forall x, In x (lchk L) -> dry c = false /\ In x (inprog s)).
  { intros x Hx. rewrite LC in Hx. destruct (dry c); [destruct Hx|]. split; auto.
    apply in_map_iff in Hx. destruct Hx as ([x' j] & E & Hi). cbn in E. subst x'.
    destruct Jh as [[JA _ _] _]. apply JA in Hi. tauto. }
  (* tried *)
  assert (T1e : dry c = false -> forall x, In x (inprog s1) \/ In x (completed s1) -> In x (tried L)).
  { intros Hd x Hx. destruct J1 as [[JA _ _] [S1 S2 _ _]]. destruct Jh as [[JA0 _ _] [_ S20 _ _]].
    destruct Hx as [Hx|Hx].
    - assert (Hl : In (x, lastjob s1 x) (live L)) by (apply JA; unfold none; tauto).
      destruct (F5 _ _ Hl) as [H|H]; auto. apply F3. apply Z5; auto. apply JA0 in H. tauto.
    - assert (Hs : In x (succ L)) by (apply S1; auto).
      destruct (F6 x Hs) as [H|[H|[_ H]]]; auto.
      + apply F3. apply Z5; auto. destruct (S20 x H) as [K|[]]. auto.
      + apply F3. apply Z5; auto. left. eapply Vi; eauto. }
  assert (T2e : forall y, FC s1 y -> In y (tried L) \/ canceled s1 = true \/
                          exists q, In q (parents (attr g y)) /\ FC s1 q).
  { intros y Hy. destruct (canceled s1) eqn:Hc; [auto|].
    destruct (poll_exact c g s p W Ha I V y Hy) as [H|[H|(w & Hw & Rw & Fw)]].
    - destruct (Z6 y H) as [K|[K|(q & Hq & Fq)]].
      + left. apply F3. exact K.
      + specialize (M4 K). discriminate.
      + right. right. exists q. split; auto. destruct Fq as [Fq|Fq]; [left|right]; auto.
    - destruct H as (H & _). fold s1 in H. rewrite Hc in H. discriminate.
    - fold s1 in Hw, Fw. destruct (Nat.eq_dec w y) as [->|Hn].
      + left. destruct Hw as [(v & Hv & _)|(k & sc & Hs)].
        * unfold done_final in Hv. destruct (qcode_eqb (qcode p) QERROR && negb (dry c)); [destruct Hv|].
          unfold ExecSteps.delivered in Hv. destruct (negb (dry c) && qcode_eqb (qcode p) QOK) eqn:E; [|destruct Hv].
          apply andb_true_iff in E. destruct E as [E _]. apply negb_true_iff in E.
          apply F3. apply Z5; auto. left. eapply Vi; eauto.
        * apply (F4 y k sc None). apply in_rev in Hs. exact Hs.
      + right. right. destruct (reach_last g w y Rw Hn) as (z & Rz & [Hz Hch]).
        exists z. split; [eapply wf_child_par; eauto|].
        destruct G1 as [[_ _ PCs] _]. eapply FC_closed; eauto. }
  split.
  - (* the boundary invariant after the poll *)
    constructor; cbn [end_base allj lchk jc tried]; auto.
    + rewrite F1. exact Z1.
    + intros x Hx. pose proof (ExecJobs.poll_jobs c g s p x) as PJ. cbv zeta in PJ. fold s1 in PJ.
      rewrite PJ by (rewrite (i_len_recs g s I); exact Hx).
      rewrite F2 by (rewrite Z1; exact Hx). rewrite Z2 by exact Hx. reflexivity.
  - (* the verdicts *)
    intros k Hk Hin. pose proof (flags_end_casesZ c g p L (rows_of s1) r k Hin Hk) as FC. cbv zeta in FC.
    destruct FC as [[_ E]|[[_ E]|[[_ E]|[[_ E]|[[_ E]|[[_ E]|[[_ E]|[_ E]]]]]]]].
    + (* 12 *)
      assert (E' : forallb (fun x => leqb (row_jobs (rows_of s1) x) (nth x (allj L) [])) (all_nodes g) = true); [|congruence].
      apply forallb_forall. intros x Hx. apply In_seq_lt in Hx. rewrite row_jobs_rows.
      pose proof (ExecJobs.poll_jobs c g s p x) as PJ. cbv zeta in PJ. fold s1 in PJ.
      rewrite PJ by (rewrite (i_len_recs g s I); exact Hx).
      rewrite F2 by (rewrite Z1; exact Hx). rewrite Z2 by exact Hx. apply ExecFault.leqb_refl.
    + (* 205 *)
      match type of E with forallb ?f ?l = false => assert (E' : forallb f l = true); [|congruence] end.
      apply forallb_forall. intros x Hx. destruct (LCi x Hx) as [Hd Hxi].
      match goal with |- impb ?q _ = true => destruct q eqn:Q; [|reflexivity] end. cbn [impb negb orb].
      assert (Qd : forall o, In (x, o) (ExecFault.delivered c p) -> ExecFault.quiet o = true).
      { intros o Ho. unfold ExecFault.delivered in Ho. rewrite Hd in Ho. destruct (qcode p) eqn:Eq; try (destruct Ho; fail).
        cbn in Q. rewrite (report_of_In (reports p) x o Vn Ho) in Q. destruct o; exact Q. }
      destruct (ExecFault.poll_frame c g s p x W I VR Hxi Qd) as (R1 & R2 & _). fold s1 in R1, R2.
      rewrite Pm, !nth_rows, R1. rewrite ExecFault.row_eqb_refl. cbn [andb].
      destruct J1 as [[JA _ _] _]. apply (live_of_true x (lastjob s1 x)). apply JA. unfold none. tauto.
    + (* 207 *)
      match type of E with forallb ?f ?l = false => assert (E' : forallb f l = true); [|congruence] end.
      apply forallb_forall. intros x Hx. destruct (LCi x Hx) as [Hd Hxi].
      match goal with |- impb ?q _ = true => destruct q eqn:Q; [|reflexivity] end. cbn [impb negb orb].
      apply andb_true_iff in Q. destruct Q as [Q1 Q2].
      assert (Eq : qcode p = QOK) by (destruct (qcode p); try discriminate; reflexivity).
      assert (Hrun : In (x, Some RUNNING) (reports p)).
      { unfold report_of in Q2. destruct (find (fun r0 => fst r0 =? x) (reports p)) as [[y o]|] eqn:Ef; [|discriminate].
        apply find_some in Ef. destruct Ef as [Ef1 Ef2]. cbn in Ef2. apply Nat.eqb_eq in Ef2. subst y.
        destruct o as [v|]; [|discriminate]. cbn in Q2. apply ExecLedger2.state_eqb_eq in Q2. subst v. exact Ef1. }
      assert (Qd : forall o, In (x, o) (ExecFault.delivered c p) -> ExecFault.quiet o = true \/ o = Some RUNNING).
      { intros o Ho. unfold ExecFault.delivered in Ho. rewrite Hd, Eq in Ho. right.
        apply (NoDup_fst_inj (reports p) x o (Some RUNNING) Vn Ho Hrun). }
      assert (Hr : In (x, Some RUNNING) (ExecFault.delivered c p)).
      { unfold ExecFault.delivered. rewrite Hd, Eq. exact Hrun. }
      destruct (ExecFault.poll_running c g s p x W I VR Hxi Qd Hr) as (R1 & R2 & R3 & R4 & _). fold s1 in R1, R2, R3, R4.
      rewrite Pm, row_status_rows, !row_jobs_rows, !row_restarts_rows. unfold stat. rewrite R1, R2, R3.
      rewrite ExecFault.leqb_refl, Nat.eqb_refl. cbn [state_eqb andb].
      destruct J1 as [[JA _ _] _]. apply (live_of_true x (lastjob s1 x)). apply JA. unfold none. tauto.
    + rewrite (end_51 c g s1 L r I1 X1 J1 PS) in E. discriminate.
    + rewrite (end_52 c g s1 L r I1 X1 J1 PS) in E. discriminate.
    + rewrite (end_53 c g s1 L r J1 JC1 PS) in E. discriminate.
    + rewrite (end_54 c g s1 L r I1 X1 J1 JC1 PS) in E. discriminate.
    + rewrite (end_55 c g s1 L r I1 X1 J1 PS T1e T2e) in E. discriminate.
Qed.

(** Coupling of the state invariant with the trace ledger, part 2: the report
    dispatch, the staging loop, the launch loop, cancel_study and one whole poll. *)
From Coq Require Import Lia Relations.
From MWF Require Import Base.Util Base.UtilLemmas Exec.ExecBase Exec.ExecGen Exec.ExecRun Exec.ExecTrace
  Exec.ExecGraph Exec.ExecInv Exec.ExecLedger.

Lemma In_set_union y l : forall acc, In y (set_union l acc) <-> In y l \/ In y acc.
Proof.
  unfold set_union. induction l as [|a l IH]; intros acc; cbn [fold_left In]; [tauto|].
  rewrite IH, In_sadd. intuition.
Qed.
Arguments set_union : simpl never.

Lemma out_mono g s s' y : (forall z, tracked s' z -> tracked s z) -> out g s y -> out g s' y.
Proof. unfold out, tracked. intros H (A & B & C & D). split; auto. repeat split; intros Hi; specialize (H y); tauto. Qed.

Lemma Inv_inc_restarts g x s : Inv g s -> Inv g (rec_inc_restarts x s).
Proof.
  apply Inv_same; [repeat split|]. split.
  - unfold rec_inc_restarts. cbn. apply length_upd.
  - intros y. rewrite status_inc_restarts. auto.
Qed.

Section Dispatch.
Variables (c : cfg) (g : graph) (p : pin) (L0 : base).
Notation ledS := (led c g p L0).
Notation cleanS := (clean c g p L0).
Hypothesis W : WF g.
Hypothesis Hdry : dry c = false.

(** the dispatch-loop invariant: [rest] = reports already delivered to the
    ledger (at the ECheck) that the state has not processed yet *)
Definition disp_inv (rest : list (nat * option State)) (s : st) (cl ca : list nat) : Prop :=
  Inv g s /\ Thr c s /\ cleanS s /\ J false (tpend rest) (pfin rest) s (ledS s) /\
  NoDup (map fst rest) /\ (forall y, In y (map fst rest) -> In y (inprog s)) /\
  (forall y, In y cl \/ In y ca -> out g s y).

Lemma tpend_cons x o rest y :
  tpend ((x, o) :: rest) y <-> (y = x /\ exists v, o = Some v /\ terminal v = true) \/ tpend rest y.
Proof.
  unfold tpend. cbn [In]. split.
  - intros (v & [E|Hi] & T).
    + inversion E; subst. left. split; auto. exists v. auto.
    + right. exists v. auto.
  - intros [(-> & v & -> & T)|(v & Hi & T)]; exists v; auto.
Qed.

Lemma pfin_cons x o rest y : pfin ((x, o) :: rest) y <-> (y = x /\ o = Some FINISHED) \/ pfin rest y.
Proof.
  unfold pfin. cbn [In]. split.
  - intros [E|Hi]; auto. inversion E; subst. auto.
  - intros [(-> & ->)|Hi]; auto.
Qed.

Lemma tpend_fst rest y : tpend rest y -> In y (map fst rest).
Proof. intros (v & Hi & _). apply in_map_iff. exists (y, Some v). auto. Qed.
Lemma pfin_fst rest y : pfin rest y -> In y (map fst rest).
Proof. intros Hi. apply in_map_iff. exists (y, Some FINISHED). auto. Qed.

(** a report that Maestro does not act on, or RUNNING *)
Lemma disp_keep x o rest s s' cl ca :
  disp_inv ((x, o) :: rest) s cl ca -> (forall v, o = Some v -> terminal v = false) ->
  Inv g s' -> same_sets s s' -> evs s' = evs s -> (forall y, lastjob s' y = lastjob s y) ->
  disp_inv rest s' cl ca.
Proof.
  intros (I & T & Cl & [Jl Js] & ND & RI & AC) Ho I' SS EV LJ.
  pose proof SS as (E1 & E2 & E3 & E4 & E5 & E6 & E7).
  assert (EL : ledS s' = ledS s) by (apply led_frame; exact EV).
  split; [exact I'|]. split; [unfold Thr; rewrite E2; exact T|].
  split; [apply (clean_frame c g p L0 s s' EV); exact Cl|].
  split. { rewrite EL. split.
    - eapply JL_ext; [|eapply JL_frame; [| | | | |exact Jl]]; auto.
      + intros y _. cbn. rewrite tpend_cons. split; auto. intros [(_ & v & Ev & Tv)|H]; auto.
        rewrite (Ho v Ev) in Tv. discriminate.
      + intros y. rewrite E2. tauto.
    - eapply JS_ext; [|eapply JS_frame; [| |exact Js]]; auto.
      + intros y. rewrite pfin_cons. split; auto. intros [(_ & Ev)|H]; auto.
        specialize (Ho FINISHED Ev). discriminate.
      + intros y. rewrite E1. tauto. }
  split; [inversion ND; assumption|].
  split. { intros y Hy. rewrite E2. apply RI. right. exact Hy. }
  intros y Hy. eapply out_mono; [|apply AC; exact Hy]. unfold tracked. rewrite E1, E2, E3. auto.
Qed.

(** a terminal report after which the step leaves the in-progress set *)
Lemma disp_remove x o v rest s s' cl ca cl' ca' :
  disp_inv ((x, o) :: rest) s cl ca -> o = Some v -> terminal v = true ->
  Inv g s' -> evs s' = evs s -> canceled s' = canceled s -> (forall y, lastjob s' y = lastjob s y) ->
  (forall y, In y (inprog s') <-> y <> x /\ In y (inprog s)) ->
  (if state_eqb v FINISHED then forall y, In y (completed s') <-> y = x \/ In y (completed s)
   else forall y, In y (completed s') <-> In y (completed s)) ->
  (forall y, tracked s' y -> tracked s y) ->
  (forall y, In y cl' \/ In y ca' ->
     In y cl \/ In y ca \/ (In y (bfs_subtree g x) /\ (y = x -> ~ In x (completed s') /\ ~ In x (ready s')))) ->
  disp_inv rest s' cl' ca'.
Proof.
  intros (I & T & Cl & [Jl Js] & ND & RI & AC) Eo Tv I' EV EC LJ EI ECo TR AC'.
  assert (EL : ledS s' = ledS s) by (apply led_frame; exact EV).
  assert (Hx : In x (inprog s)) by (apply RI; left; reflexivity).
  assert (Hxr : ~ In x (map fst rest)) by (inversion ND; assumption).
  split; [exact I'|].
  split. { unfold Thr. intros Ht. specialize (T Ht). etransitivity; [|exact T].
    apply NoDup_incl_length_le; [apply (i_nd_inprog g s' I')|]. intros y Hy. apply EI in Hy. tauto. }
  split; [apply (clean_frame c g p L0 s s' EV); exact Cl|].
  split. { rewrite EL. split.
    - eapply (JL_remove (tpend rest) x); [| | | | |eapply JL_ext; [|exact Jl]]; auto.
      intros y _. cbn. rewrite tpend_cons. split; [intros [[H _]|H]; auto|].
      intros [H|H]; auto. left. split; auto. exists v. auto.
    - destruct (state_eqb v FINISHED) eqn:Ev.
      + eapply (JS_finish false (pfin rest) x); [| |eapply JS_ext; [|exact Js]]; auto.
        intros y. rewrite pfin_cons. split; [intros [[H _]|H]; auto|].
        intros [H|H]; auto. left. split; auto. subst o. destruct v; try discriminate. reflexivity.
      + eapply JS_ext; [|eapply JS_frame; [| |exact Js]]; auto.
        intros y. rewrite pfin_cons. split; auto. intros [(_ & E)|H]; auto.
        subst o. inversion E; subst. discriminate. }
  split; [inversion ND; assumption|].
  split. { intros y Hy. apply EI. split; [intros ->; contradiction|]. apply RI. right. exact Hy. }
  intros y Hy. destruct (AC' y Hy) as [H|[H|[H H']]].
  - eapply out_mono; [exact TR|]. apply AC. auto.
  - eapply out_mono; [exact TR|]. apply AC. auto.
  - destruct (Nat.eq_dec y x) as [->|Hn].
    + destruct (H' eq_refl) as [H1 H2]. split; [apply (i_bound g s I); auto|].
      split; [exact H1|]. split; [|exact H2]. intros Hi. apply EI in Hi. tauto.
    + eapply out_mono; [exact TR|]. eapply subtree_out; eauto.
      * apply (i_bound g s I); auto.
      * intros Hc. exact (i_dj_ci g s I x Hc Hx).
Qed.

Ltac keep_tac D I :=
  eapply disp_keep; [exact D|intros v E; inversion E; reflexivity|exact I|apply same_sets_refl|reflexivity|reflexivity].

Lemma handle_report_spec r rest s cl ca :
  disp_inv (r :: rest) s cl ca ->
  let '(s', cl', ca') := handle_report_gen c g (s, cl, ca) r in disp_inv rest s' cl' ca'.
Proof.
  intros D. destruct r as [x o].
  pose proof D as (I & T & Cl & [Jl Js] & ND & RI & AC).
  assert (Hx : In x (inprog s)) by (apply RI; left; reflexivity).
  assert (Hxl : x < length g) by (apply (i_bound g s I); auto).
  assert (Hxc : ~ In x (completed s)) by (intros Hc; exact (i_dj_ci g s I x Hc Hx)).
  assert (Hxr : ~ In x (ready s)) by (exact (i_dj_ir g s I x Hx)).
  assert (Hxf : ~ In x (failed s) /\ ~ In x (cancelled s)).
  { split; intros Hf; destruct (i_dj_fc g s I x); auto; tauto. }
  destruct Hxf as [Hxf Hxk].
  assert (Hxp : incl (parents (attr g x)) (completed s)) by (apply (i_anc g s I); auto).
  assert (Hxs : status (getrec s x) <> INITIALIZED) by (apply (i_init g s I); auto).
  unfold handle_report_gen; destruct o as [v|]; [destruct v|]; cbn [oeqb state_eqb].
  all: try (solve [keep_tac D I]).
  - (* RUNNING *) admit.
  - (* FINISHED *) admit.
  - (* FAILED *) admit.
  - (* HWFAILURE *) admit.
  - (* TIMEDOUT *) admit.
  - (* UNKNOWN *) admit.
  - (* CANCELLED *) admit.
Admitted.

End Dispatch.

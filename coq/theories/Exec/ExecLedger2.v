(** Coupling of the state invariant with the trace ledger, part 2: the report
    dispatch, the staging loop, the launch loop, cancel_study and one whole poll. *)
From Coq Require Import Lia Relations.
From MWF Require Import Base.Util Base.UtilLemmas Exec.ExecBase Exec.ExecGen Exec.ExecRun Exec.ExecTrace
  Exec.ExecGraph Exec.ExecInv Exec.ExecLedger.

Lemma In_set_union y l : forall acc, In y (set_union l acc) <-> In y l \/ In y acc.
Proof.
  unfold set_union. induction l as [|a l IH]; intros acc; cbn [fold_left In]; [tauto|].
  rewrite IH, In_sadd. intuition.
Qed.
Arguments set_union : simpl never.

Lemma out_mono g s s' y : (forall z, tracked s' z -> tracked s z) -> out g s y -> out g s' y.
Proof. unfold out, tracked. intros H (A & B & C & D). split; auto. repeat split; intros Hi; specialize (H y); tauto. Qed.

Lemma Inv_inc_restarts g x s : Inv g s -> Inv g (rec_inc_restarts x s).
Proof.
  apply Inv_same; [repeat split|]. split.
  - unfold rec_inc_restarts. cbn. apply length_upd.
  - intros y. rewrite status_inc_restarts. auto.
Qed.

Section Dispatch.
Variables (c : cfg) (g : graph) (p : pin) (L0 : base).
Notation ledS := (led c g p L0).
Notation cleanS := (clean c g p L0).
Hypothesis W : WF g.
Hypothesis Hdry : dry c = false.

(** the dispatch-loop invariant: [rest] = reports already delivered to the
    ledger (at the ECheck) that the state has not processed yet *)
Definition disp_inv (rest : list (nat * option State)) (s : st) (cl ca : list nat) : Prop :=
  Inv g s /\ Thr c s /\ cleanS s /\ J false (tpend rest) (pfin rest) s (ledS s) /\
  NoDup (map fst rest) /\ (forall y, In y (map fst rest) -> In y (inprog s)) /\
  (forall y, In y cl \/ In y ca -> out g s y).

Lemma tpend_cons x o rest y :
  tpend ((x, o) :: rest) y <-> (y = x /\ exists v, o = Some v /\ terminal v = true) \/ tpend rest y.
Proof.
  unfold tpend. cbn [In]. split.
  - intros (v & [E|Hi] & T).
    + inversion E; subst. left. split; auto. exists v. auto.
    + right. exists v. auto.
  - intros [(-> & v & -> & T)|(v & Hi & T)]; exists v; auto.
Qed.

Lemma pfin_cons x o rest y : pfin ((x, o) :: rest) y <-> (y = x /\ o = Some FINISHED) \/ pfin rest y.
Proof.
  unfold pfin. cbn [In]. split.
  - intros [E|Hi]; auto. inversion E; subst. auto.
  - intros [(-> & ->)|Hi]; auto.
Qed.

Lemma tpend_fst rest y : tpend rest y -> In y (map fst rest).
Proof. intros (v & Hi & _). apply in_map_iff. exists (y, Some v). auto. Qed.
Lemma pfin_fst rest y : pfin rest y -> In y (map fst rest).
Proof. intros Hi. apply in_map_iff. exists (y, Some FINISHED). auto. Qed.

(** a report that Maestro does not act on, or RUNNING *)
Lemma disp_keep x o rest s s' cl ca :
  disp_inv ((x, o) :: rest) s cl ca -> (forall v, o = Some v -> terminal v = false) ->
  Inv g s' -> same_sets s s' -> evs s' = evs s -> (forall y, lastjob s' y = lastjob s y) ->
  disp_inv rest s' cl ca.
Proof.
  intros (I & T & Cl & [Jl Js] & ND & RI & AC) Ho I' SS EV LJ.
  pose proof SS as (E1 & E2 & E3 & E4 & E5 & E6 & E7).
  assert (EL : ledS s' = ledS s) by (apply led_frame; exact EV).
  split; [exact I'|]. split; [unfold Thr; rewrite E2; exact T|].
  split; [apply (clean_frame c g p L0 s s' EV); exact Cl|].
  split. { rewrite EL. split.
    - eapply JL_ext; [|eapply JL_frame; [| | | | |exact Jl]]; auto.
      + intros y _. cbn. rewrite tpend_cons. split; auto. intros [(_ & v & Ev & Tv)|H]; auto.
        rewrite (Ho v Ev) in Tv. discriminate.
      + intros y. rewrite E2. tauto.
    - eapply JS_ext; [|eapply JS_frame; [| |exact Js]]; auto.
      + intros y. rewrite pfin_cons. split; auto. intros [(_ & Ev)|H]; auto.
        specialize (Ho FINISHED Ev). discriminate.
      + intros y. rewrite E1. tauto. }
  split; [inversion ND; assumption|].
  split. { intros y Hy. rewrite E2. apply RI. right. exact Hy. }
  intros y Hy. eapply out_mono; [|apply AC; exact Hy]. unfold tracked. rewrite E1, E2, E3. auto.
Qed.

(** a terminal report after which the step leaves the in-progress set *)
Lemma disp_remove x o v rest s s' cl ca cl' ca' :
  disp_inv ((x, o) :: rest) s cl ca -> o = Some v -> terminal v = true ->
  Inv g s' -> evs s' = evs s -> canceled s' = canceled s -> (forall y, lastjob s' y = lastjob s y) ->
  (forall y, In y (inprog s') <-> y <> x /\ In y (inprog s)) ->
  (if state_eqb v FINISHED then forall y, In y (completed s') <-> y = x \/ In y (completed s)
   else forall y, In y (completed s') <-> In y (completed s)) ->
  (forall y, tracked s' y -> tracked s y) ->
  (forall y, In y cl' \/ In y ca' ->
     In y cl \/ In y ca \/ (In y (bfs_subtree g x) /\ (y = x -> ~ In x (completed s') /\ ~ In x (ready s')))) ->
  disp_inv rest s' cl' ca'.
Proof.
  intros (I & T & Cl & [Jl Js] & ND & RI & AC) Eo Tv I' EV EC LJ EI ECo TR AC'.
  assert (EL : ledS s' = ledS s) by (apply led_frame; exact EV).
  assert (Hx : In x (inprog s)) by (apply RI; left; reflexivity).
  assert (Hxr : ~ In x (map fst rest)) by (inversion ND; assumption).
  split; [exact I'|].
  split. { unfold Thr. intros Ht. specialize (T Ht). etransitivity; [|exact T].
    apply NoDup_incl_length_le; [apply (i_nd_inprog g s' I')|]. intros y Hy. apply EI in Hy. tauto. }
  split; [apply (clean_frame c g p L0 s s' EV); exact Cl|].
  split. { rewrite EL. split.
    - eapply (JL_remove (tpend rest) x); [| | | | |eapply JL_ext; [|exact Jl]]; auto.
      intros y _. cbn. rewrite tpend_cons. split; [intros [[H _]|H]; auto|].
      intros [H|H]; auto. left. split; auto. exists v. auto.
    - destruct (state_eqb v FINISHED) eqn:Ev.
      + eapply (JS_finish false (pfin rest) x); [| |eapply JS_ext; [|exact Js]]; auto.
        intros y. rewrite pfin_cons. split; [intros [[H _]|H]; auto|].
        intros [H|H]; auto. left. split; auto. subst o. destruct v; try discriminate. reflexivity.
      + eapply JS_ext; [|eapply JS_frame; [| |exact Js]]; auto.
        intros y. rewrite pfin_cons. split; auto. intros [(_ & E)|H]; auto.
        subst o. inversion E; subst. discriminate. }
  split; [inversion ND; assumption|].
  split. { intros y Hy. apply EI. split; [intros ->; contradiction|]. apply RI. right. exact Hy. }
  intros y Hy. destruct (AC' y Hy) as [H|[H|[H H']]].
  - eapply out_mono; [exact TR|]. apply AC. auto.
  - eapply out_mono; [exact TR|]. apply AC. auto.
  - destruct (Nat.eq_dec y x) as [->|Hn].
    + destruct (H' eq_refl) as [H1 H2]. split; [apply (i_bound g s I); auto|].
      split; [exact H1|]. split; [|exact H2]. intros Hi. apply EI in Hi. tauto.
    + eapply out_mono; [exact TR|]. eapply subtree_out; eauto.
      * apply (i_bound g s I); auto.
      * intros Hc. exact (i_dj_ci g s I x Hc Hx).
Qed.

Ltac keep_tac D I :=
  eapply disp_keep; [exact D|intros v E; inversion E; reflexivity|exact I|apply same_sets_refl|reflexivity|reflexivity].

Lemma handle_report_spec r rest s cl ca :
  disp_inv (r :: rest) s cl ca ->
  let '(s', cl', ca') := handle_report_gen c g (s, cl, ca) r in disp_inv rest s' cl' ca'.
Proof.
  intros D. destruct r as [x o].
  pose proof D as (I & T & Cl & [Jl Js] & ND & RI & AC).
  assert (Hx : In x (inprog s)) by (apply RI; left; reflexivity).
  assert (Hxl : x < length g) by (apply (i_bound g s I); auto).
  assert (Hxc : ~ In x (completed s)) by (intros Hc; exact (i_dj_ci g s I x Hc Hx)).
  assert (Hxr : ~ In x (ready s)) by (exact (i_dj_ir g s I x Hx)).
  assert (Hxf : ~ In x (failed s) /\ ~ In x (cancelled s)).
  { split; intros Hf; destruct (i_dj_fc g s I x); auto; tauto. }
  destruct Hxf as [Hxf Hxk].
  assert (Hxp : incl (parents (attr g x)) (completed s)) by (apply (i_anc g s I); auto).
  assert (Hxs : status (getrec s x) <> INITIALIZED) by (apply (i_init g s I); auto).
  unfold handle_report_gen; destruct o as [v|]; [destruct v|]; cbn [oeqb state_eqb].
  all: try (solve [keep_tac D I]).
  - (* RUNNING *)
    eapply disp_keep; [exact D|intros v E; inversion E; reflexivity| | | |].
    + apply Inv_set_status; [discriminate|exact I].
    + apply same_sets_set_status.
    + reflexivity.
    + intros y. apply lastjob_set_status.
  - (* FINISHED *)
    eapply (disp_remove x _ FINISHED); [exact D|reflexivity|reflexivity| | | | | | | |].
    + apply Inv_finish; [apply Inv_set_status; [discriminate|exact I]|exact Hx].
    + reflexivity.
    + reflexivity.
    + intros y. change (lastjob (rec_set_status x FINISHED s) y = lastjob s y). apply lastjob_set_status.
    + intros y. unfold inprog_remove, completed_add, rec_set_status; sp. rewrite In_srem. tauto.
    + cbn [state_eqb]. intros y. unfold inprog_remove, completed_add, rec_set_status; sp. rewrite In_sadd. tauto.
    + intros y. unfold tracked, inprog_remove, completed_add, rec_set_status; sp. rewrite In_srem, In_sadd.
      intuition (subst; auto).
    + intros y Hy. tauto.
  - (* FAILED *)
    eapply (disp_remove x _ FAILED); [exact D|reflexivity|reflexivity| | | | | | | |].
    + apply Inv_set_status; [discriminate|]. apply Inv_inprog_remove. exact I.
    + reflexivity.
    + reflexivity.
    + intros y. rewrite lastjob_set_status. reflexivity.
    + intros y. unfold inprog_remove, rec_set_status; sp. rewrite In_srem. tauto.
    + cbn [state_eqb]. intros y. reflexivity.
    + intros y. unfold tracked, inprog_remove, rec_set_status; sp. rewrite In_srem. tauto.
    + intros y. rewrite In_set_union. intros Hy. assert (In y (bfs_subtree g x) \/ In y cl \/ In y ca) as [H1|H1] by tauto; [right; right; split; auto|tauto].
  - (* HWFAILURE *)
    eapply (disp_remove x _ HWFAILURE); [exact D|reflexivity|reflexivity| | | | | | | |].
    + apply Inv_ready_push; auto; [apply Inv_inprog_remove; exact I|].
      unfold inprog_remove; sp. rewrite In_srem. tauto.
    + reflexivity.
    + reflexivity.
    + intros y. reflexivity.
    + intros y. unfold ready_push, inprog_remove; sp. rewrite In_srem. tauto.
    + cbn [state_eqb]. intros y. reflexivity.
    + intros y. unfold tracked, ready_push, inprog_remove; sp. rewrite In_srem, in_app_iff. cbn [In].
      intuition (subst; auto).
    + intros y Hy. tauto.
  - (* TIMEDOUT *)
    destruct (has_restart (attr g x) && negb (canceled s)) eqn:Hr.
    + apply andb_true_iff in Hr. destruct Hr as [Hr Hcan]. apply negb_true_iff in Hcan.
      unfold mark_restart_gen.
      destruct ((rlimit (attr g x) =? 0) || (restarts (getrec (rec_set_status x TIMEDOUT s) x) <? rlimit (attr g x))).
      * (* restart submitted *)
        set (s1 := rec_inc_restarts x (rec_set_status x TIMEDOUT s)).
        assert (I1 : Inv g s1).
        { apply Inv_inc_restarts. apply Inv_set_status; [discriminate|exact I]. }
        assert (LJ1 : forall y, lastjob s1 y = lastjob s y).
        { intros y. unfold s1. rewrite lastjob_inc_restarts. apply lastjob_set_status. }
        assert (Hxr' : ~ In x (map fst rest)) by (inversion ND; assumption).
        assert (Pre : exec_pre c g p L0 false (tpend rest) (pfin rest) x true s1).
        { split; [exact I1|]. split; [exact Cl|]. split; [exact Hxl|].
          split; [exact Hxc|]. split; [exact Hxr|]. split; [exact Hxf|]. split; [exact Hxk|].
          split; [exact Hxp|]. split; [split; [exact Hx|reflexivity]|].
          split. { intros Ht. specialize (T Ht). change (inprog s1) with (inprog s).
                   rewrite (length_srem_in x (inprog s)); [exact T|apply (i_nd_inprog g s I)|exact Hx]. }
          split; [exact Hcan|].
          split. { intros H. apply Hxr'. apply tpend_fst. exact H. }
          split. { intros H. apply Hxr'. apply pfin_fst. exact H. }
          split.
          - eapply JL_ext; [|eapply JL_frame; [| | | | |exact Jl]]; auto; try reflexivity.
            intros y _. cbn. rewrite tpend_cons. split; [intros [[H _]|H]; auto|].
            intros [H|H]; auto. left. split; auto. exists TIMEDOUT. auto.
          - eapply JS_ext; [|eapply JS_frame; [| |exact Js]]; auto; try reflexivity.
            intros y. rewrite pfin_cons. split; auto. intros [(_ & E)|H]; auto. discriminate. }
        pose proof (execute_record_spec c g p L0 W false (tpend rest) (pfin rest) x true s1 Hdry Pre) as ES.
        cbv zeta in ES. destruct ES as (G1 & G2 & G3 & G4 & G5 & G6 & G7 & G8).
        change (inprog s1) with (inprog s) in *.
        assert (TR : forall y, tracked (execute_record_gen c g x true s1) y -> tracked s y).
        { intros y Hy. destruct (G7 y Hy) as [->|H]; [right; left; exact Hx|exact H]. }
        split; [exact G1|].
        split. { intros Ht. specialize (T Ht). etransitivity; [exact G6|].
                 rewrite (length_srem_in x (inprog s)); [exact T|apply (i_nd_inprog g s I)|exact Hx]. }
        split; [exact G2|]. split; [exact G3|]. split; [inversion ND; assumption|].
        split. { intros y Hy. apply G8; [intros ->; contradiction|]. apply RI. right. exact Hy. }
        intros y Hy. eapply out_mono; [exact TR|]. apply AC. exact Hy.
      * (* restart budget exhausted *)
        eapply (disp_remove x _ TIMEDOUT); [exact D|reflexivity|reflexivity| | | | | | | |].
        -- apply Inv_inprog_remove. apply Inv_set_status; [discriminate|exact I].
        -- reflexivity.
        -- reflexivity.
        -- intros y. change (lastjob (rec_set_status x TIMEDOUT s) y = lastjob s y). apply lastjob_set_status.
        -- intros y. unfold inprog_remove, rec_set_status; sp. rewrite In_srem. tauto.
        -- cbn [state_eqb]. intros y. reflexivity.
        -- intros y. unfold tracked, inprog_remove, rec_set_status; sp. rewrite In_srem. tauto.
        -- intros y. rewrite In_set_union.
           intros Hy. assert (In y (bfs_subtree g x) \/ In y cl \/ In y ca) as [H1|H1] by tauto; [right; right; split; auto|tauto].
    + (* no restart: the step itself fails *)
      eapply (disp_remove x _ TIMEDOUT); [exact D|reflexivity|reflexivity| | | | | | | |].
      * apply Inv_failed_add; auto.
        -- apply Inv_inprog_remove. apply Inv_set_status; [discriminate|exact I].
        -- unfold inprog_remove, rec_set_status; sp. rewrite In_srem. tauto.
        -- change (status (getrec (rec_set_status x TIMEDOUT s) x) <> INITIALIZED).
           rewrite getrec_set_status_eq by (rewrite (i_len_recs g s I); exact Hxl). cbn. discriminate.
      * reflexivity.
      * reflexivity.
      * intros y. change (lastjob (rec_set_status x TIMEDOUT s) y = lastjob s y). apply lastjob_set_status.
      * intros y. unfold failed_add, inprog_remove, rec_set_status; sp. rewrite In_srem. tauto.
      * cbn [state_eqb]. intros y. reflexivity.
      * intros y. unfold tracked, failed_add, inprog_remove, rec_set_status; sp. rewrite In_srem. tauto.
      * intros y. rewrite In_srem, In_set_union.
        intros Hy. assert (In y (bfs_subtree g x) \/ In y cl \/ In y ca) as [H1|H1] by tauto; [right; right; split; auto|tauto].
  - (* UNKNOWN *)
    eapply (disp_remove x _ UNKNOWN); [exact D|reflexivity|reflexivity| | | | | | | |].
    + apply Inv_inprog_remove. apply Inv_set_status; [discriminate|exact I].
    + reflexivity.
    + reflexivity.
    + intros y. change (lastjob (rec_set_status x UNKNOWN s) y = lastjob s y). apply lastjob_set_status.
    + intros y. unfold inprog_remove, rec_set_status; sp. rewrite In_srem. tauto.
    + cbn [state_eqb]. intros y. reflexivity.
    + intros y. unfold tracked, inprog_remove, rec_set_status; sp. rewrite In_srem. tauto.
    + intros y. rewrite In_set_union. intros Hy. assert (In y (bfs_subtree g x) \/ In y cl \/ In y ca) as [H1|H1] by tauto; [right; right; split; auto|tauto].
  - (* CANCELLED *)
    eapply (disp_remove x _ CANCELLED); [exact D|reflexivity|reflexivity| | | | | | | |].
    + apply Inv_set_status; [discriminate|]. apply Inv_inprog_remove. exact I.
    + reflexivity.
    + reflexivity.
    + intros y. rewrite lastjob_set_status. reflexivity.
    + intros y. unfold inprog_remove, rec_set_status; sp. rewrite In_srem. tauto.
    + cbn [state_eqb]. intros y. reflexivity.
    + intros y. unfold tracked, inprog_remove, rec_set_status; sp. rewrite In_srem. tauto.
    + intros y. rewrite In_set_union. intros Hy. assert (In y (bfs_subtree g x) \/ In y cl \/ In y ca) as [H1|H1] by tauto; [right; right; split; auto|tauto].
Qed.

End Dispatch.

(** * The whole dispatch: fold over the reports, then the two sweeps *)
Section Dispatch2.
Variables (c : cfg) (g : graph) (p : pin) (L0 : base).
Notation ledS := (led c g p L0).
Notation cleanS := (clean c g p L0).
Hypothesis W : WF g.
Hypothesis Hdry : dry c = false.

Lemma fold_reports_spec : forall reps s cl ca, disp_inv c g p L0 reps s cl ca ->
  let '(s', cl', ca') := fold_left (handle_report_gen c g) reps (s, cl, ca) in disp_inv c g p L0 [] s' cl' ca'.
Proof.
  induction reps as [|r reps IH]; intros s cl ca D; cbn [fold_left]; [exact D|].
  pose proof (handle_report_spec c g p L0 W Hdry r reps s cl ca D) as H.
  destruct (handle_report_gen c g (s, cl, ca) r) as [[s1 cl1] ca1]. apply IH; exact H.
Qed.

Lemma dispatch_spec reps s :
  Inv g s -> Thr c s -> cleanS s -> J false (tpend reps) (pfin reps) s (ledS s) ->
  NoDup (map fst reps) -> (forall y, In y (map fst reps) -> In y (inprog s)) ->
  let s' := dispatch_gen c g reps s in
  Inv g s' /\ Thr c s' /\ cleanS s' /\ J false none none s' (ledS s').
Proof.
  intros I T Cl Jh ND RI. unfold dispatch_gen.
  assert (D0 : disp_inv c g p L0 reps s [] []).
  { repeat (split; [assumption|]). intros y [[]|[]]. }
  pose proof (fold_reports_spec reps s [] [] D0) as FS.
  destruct (fold_left (handle_report_gen c g) reps (s, [], [])) as [[s1 cl] ca].
  destruct FS as (I1 & T1 & Cl1 & [Jl Js] & _ & _ & AC).
  pose proof (mark_failed_list_frame cl s1) as (F1 & F2 & F3 & F4 & F5 & F6 & F7 & F8).
  set (s2 := mark_failed_list cl s1) in *.
  pose proof (mark_cancelled_list_frame ca s2) as (G1 & G2 & G3 & G4 & G5 & G6 & G7 & G8).
  set (s3 := mark_cancelled_list ca s2) in *.
  assert (I2 : Inv g s2) by (apply Inv_mark_failed_list; [exact I1|intros y Hy; apply AC; auto]).
  assert (I3 : Inv g s3).
  { apply Inv_mark_cancelled_list; [exact I2|]. intros y Hy. rewrite F1, F2, F3. apply AC. auto. }
  assert (EL : ledS s3 = ledS s1) by (apply led_frame; congruence).
  split; [exact I3|]. split; [unfold Thr; rewrite G2, F2; exact T1|].
  split; [apply (clean_frame c g p L0 s1 s3); [congruence|exact Cl1]|].
  rewrite EL. split.
  - eapply JL_ext; [|eapply JL_frame; [| | | | |exact Jl]]; auto.
    + intros y _. split; [intros (v & [] & _)|intros []].
    + intros y. rewrite G2, F2. tauto.
    + congruence.
    + intros y _. rewrite G8, F8. reflexivity.
  - eapply JS_ext; [|eapply JS_frame; [| |exact Js]]; auto.
    + intros y. split; [intros []|intros []].
    + intros y. rewrite G1, F1. tauto.
Qed.

End Dispatch2.

(** * Delivery of the reports to the ledger at the ECheck event *)
Lemma deliver_live m r : live (deliver m r) =
  match r with (x, Some v) => if terminal v then drop_live x (live m) else live m | _ => live m end.
Proof. destruct r as [x [v|]]; [destruct v|]; reflexivity. Qed.
Lemma deliver_succ m r : succ (deliver m r) =
  match r with (x, Some v) => if state_eqb v FINISHED then sadd x (succ m) else succ m | _ => succ m end.
Proof. destruct r as [x [v|]]; [destruct v|]; reflexivity. Qed.
Lemma deliver_cseen m r : cseen (deliver m r) = cseen m.
Proof. destruct r as [x [v|]]; [destruct v|]; reflexivity. Qed.

Lemma In_drop_live y j x l : In (y, j) (drop_live x l) <-> In (y, j) l /\ y <> x.
Proof.
  unfold drop_live. rewrite filter_In. cbn [fst]. rewrite negb_true_iff, Nat.eqb_neq. tauto.
Qed.

Lemma NoDup_map_filter {A B} (f : A -> B) (h : A -> bool) l : NoDup (map f l) -> NoDup (map f (filter h l)).
Proof.
  induction l as [|a l IH]; cbn; intros N; [constructor|]. inversion N; subst.
  destruct (h a); cbn; auto. constructor; auto.
  intros Hi. apply H1. apply in_map_iff in Hi. destruct Hi as (b & E & Hb). apply filter_In in Hb.
  apply in_map_iff. exists b. tauto.
Qed.

Lemma deliver_fold reps : forall m,
  (forall y j, In (y, j) (live (fold_left deliver reps m)) <-> In (y, j) (live m) /\ ~ tpend reps y) /\
  (forall y, In y (succ (fold_left deliver reps m)) <-> In y (succ m) \/ pfin reps y) /\
  cseen (fold_left deliver reps m) = cseen m /\
  (NoDup (map fst (live m)) -> NoDup (map fst (live (fold_left deliver reps m)))).
Proof.
  induction reps as [|r reps IH]; intros m; cbn [fold_left].
  - split; [|split; [|split]]; auto.
    + intros y j. split; [intros H; split; auto; intros (v & [] & _)|tauto].
    + intros y. split; auto. intros [H|[]]; auto.
  - destruct (IH (deliver m r)) as (A1 & A2 & A3 & A4). destruct r as [x o].
    split; [|split; [|split]].
    + intros y j. rewrite A1, deliver_live, tpend_cons. destruct o as [v|].
      * destruct (terminal v) eqn:Tv.
        -- rewrite In_drop_live. split.
           ++ intros ((H1 & H2) & H3). split; auto. intros [(E & _)|H]; auto.
           ++ intros (H1 & H2). split; [split; auto|]; intros H; apply H2; auto.
              subst y. left. split; auto. exists v. auto.
        -- split; intros (H1 & H2); split; auto.
           intros [(_ & w & E & Tw)|H]; auto. inversion E; subst. congruence.
      * split; intros (H1 & H2); split; auto. intros [(_ & w & E & _)|H]; auto. discriminate.
    + intros y. rewrite A2, deliver_succ, pfin_cons. destruct o as [v|].
      * destruct (state_eqb v FINISHED) eqn:Ev.
        -- assert (v = FINISHED) by (destruct v; try discriminate; reflexivity). subst v.
           rewrite In_sadd. tauto.
        -- split; [tauto|]. intros [H|[(_ & E)|H]]; auto. inversion E; subst. discriminate.
      * split; [tauto|]. intros [H|[(_ & E)|H]]; auto. discriminate.
    + rewrite A3. apply deliver_cseen.
    + intros N. apply A4. rewrite deliver_live. destruct o as [v|]; auto.
      destruct (terminal v); auto. apply NoDup_map_filter. exact N.
Qed.

Lemma same_jobs_J s L : NoDup (inprog s) -> JL none s L ->
  same_jobs (map (lastjob s) (inprog s)) (live L) = true.
Proof.
  intros N [A B C]. unfold same_jobs. apply andb_true_iff. split.
  - apply seteqb_spec. intros j. rewrite !in_map_iff. split.
    + intros (x & E & Hx). exists (x, j). split; auto. apply A. unfold none. auto.
    + intros ([x j'] & E & Hi). cbn in E. subst j'. apply A in Hi. exists x. destruct Hi as (H1 & H2 & _). auto.
  - apply Nat.eqb_eq. rewrite map_length. rewrite <- (map_length fst (live L)).
    apply Nat.le_antisymm; apply NoDup_incl_length_le; auto.
    + intros x Hx. apply in_map_iff. exists (x, lastjob s x). split; auto. apply A. unfold none. auto.
    + intros x Hx. apply in_map_iff in Hx. destruct Hx as ([x' j] & E & Hi). cbn in E. subst x'.
      apply A in Hi. tauto.
Qed.

(** valid poll input: when the query answers OK, the reports mention only
    in-progress steps, each at most once (the adapters key the dict by the queried ids) *)
Definition valid_pin (s : st) (p : pin) : bool :=
  negb (qcode_eqb (qcode p) QOK) ||
  (forallb (fun r => mem (fst r) (inprog s)) (reports p) && nodupb (map fst (reports p))).

Lemma valid_pin_spec s p : valid_pin s p = true -> qcode p = QOK ->
  NoDup (map fst (reports p)) /\ (forall y, In y (map fst (reports p)) -> In y (inprog s)).
Proof.
  unfold valid_pin. intros H Q. rewrite Q in H. cbn in H. apply andb_true_iff in H. destruct H as [H1 H2].
  split; [apply nodupb_NoDup; exact H2|]. intros y Hy. apply in_map_iff in Hy. destruct Hy as (r & E & Hr).
  rewrite forallb_forall in H1. specialize (H1 r Hr). rewrite E in H1. apply mem_In. exact H1.
Qed.

Lemma state_eqb_eq a b : state_eqb a b = true -> a = b.
Proof. destruct a, b; cbn; intros H; try discriminate; reflexivity. Qed.

Lemma Inv_fields g s s' :
  completed s' = completed s -> inprog s' = inprog s -> ready s' = ready s -> failed s' = failed s ->
  cancelled s' = cancelled s -> deps s' = deps s -> recs s' = recs s -> Inv g s -> Inv g s'.
Proof.
  intros E1 E2 E3 E4 E5 E6 E7 I. dI I.
  constructor; unfold getrec, getdeps in *; rewrite ?E1, ?E2, ?E3, ?E4, ?E5, ?E6, ?E7; auto.
Qed.

(** * Staging loop, launch loop, cancel_study, and one whole poll *)
Section PollSpec.
Variables (c : cfg) (g : graph) (p : pin) (L0 : base).
Notation ledS := (led c g p L0).
Notation cleanS := (clean c g p L0).
Hypothesis W : WF g.

Definition qinv (d : bool) (s : st) : Prop := Inv g s /\ cleanS s /\ J d none none s (ledS s).

Lemma qinv_frame d s s' :
  Inv g s' -> evs s' = evs s -> inprog s' = inprog s -> completed s' = completed s ->
  canceled s' = canceled s -> (forall y, lastjob s' y = lastjob s y) -> qinv d s -> qinv d s'.
Proof.
  intros I' E1 E2 E3 E4 E5 (I & Cl & [Jl Js]).
  split; [exact I'|]. split; [apply (clean_frame c g p L0 s s' E1); exact Cl|].
  rewrite (led_frame c g p L0 s s' E1). split.
  - eapply JL_frame; [| | | | |exact Jl]; auto.
    + intros y. rewrite E2. tauto.
  - eapply JS_frame; [| |exact Js]; auto. intros y. rewrite E3. tauto.
Qed.

Lemma stage_node_spec d s x : x < length g -> qinv d s ->
  let s' := stage_node_gen g s x in
  qinv d s' /\ inprog s' = inprog s /\ completed s' = completed s /\ canceled s' = canceled s.
Proof.
  intros Hx Q. pose proof Q as (I & Cl & Jh). unfold stage_node_gen.
  destruct (mem x (completed s)) eqn:Hc; [split; [exact Q|repeat split]|].
  destruct (state_eqb (status (getrec s x)) INITIALIZED) eqn:Hs; [|split; [exact Q|repeat split]].
  apply state_eqb_eq in Hs. apply mem_false in Hc.
  set (s1 := deps_prune x s).
  assert (I1 : Inv g s1) by (apply Inv_deps_prune; exact I).
  assert (Q1 : qinv d s1) by (apply (qinv_frame d s s1); auto).
  destruct (is_nil (getdeps s1 x)) eqn:Hn; [|split; [exact Q1|repeat split]].
  destruct (mem x (ready s1)) eqn:Hr; cbn [negb]; [split; [exact Q1|repeat split]|].
  apply mem_false in Hr.
  assert (Hnot : ~ (In x (inprog s) \/ In x (failed s) \/ In x (cancelled s))).
  { intros H. apply (i_init g s I x H). exact Hs. }
  split; [|repeat split; auto].
  apply (qinv_frame d s1); auto.
  apply Inv_ready_push; auto; try (change (~ In x (inprog s))); try (change (~ In x (failed s)));
    try (change (~ In x (cancelled s))); try tauto.
  intros q Hq. change (In q (completed s)).
  destruct (in_dec Nat.eq_dec q (completed s)) as [Hi|Hi]; auto. exfalso.
  destruct (i_deps g s I x q Hx Hq) as [Hd|Hd]; [|contradiction].
  assert (Hf : In q (getdeps s1 x)).
  { unfold s1. rewrite getdeps_prune_eq by (rewrite (i_len_deps g s I); exact Hx).
    apply filter_In. split; auto. apply negb_true_iff, mem_false. exact Hi. }
  destruct (getdeps s1 x); [destruct Hf|discriminate].
Qed.

Lemma stage_fold_spec d l : (forall x, In x l -> x < length g) -> forall s, qinv d s ->
  let s' := fold_left (stage_node_gen g) l s in
  qinv d s' /\ inprog s' = inprog s /\ completed s' = completed s /\ canceled s' = canceled s.
Proof.
  induction l as [|x l IH]; intros Hl s Q; cbn [fold_left]; [split; [exact Q|repeat split]|].
  destruct (stage_node_spec d s x (Hl x (or_introl eq_refl)) Q) as (Q1 & E1 & E2 & E3).
  destruct (IH (fun y Hy => Hl y (or_intror Hy)) _ Q1) as (Q2 & F1 & F2 & F3).
  split; [exact Q2|]. repeat split; congruence.
Qed.

Lemma launch_body_spec d s : dry c = d -> qinv d s ->
  (throttle c > 0 -> S (length (inprog s)) <= throttle c) ->
  let s' := launch_body_gen c g s in
  qinv d s' /\ length (inprog s') <= S (length (inprog s)).
Proof.
  intros Hd Q TB. pose proof Q as (I & Cl & [Jl Js]). unfold launch_body_gen.
  destruct (ready s) as [|x rest] eqn:Er; [split; [exact Q|lia]|].
  set (s1 := set_ready s rest).
  assert (I1 : Inv g s1) by (eapply Inv_pop; eauto).
  assert (Q1 : qinv d s1) by (apply (qinv_frame d s s1); auto).
  assert (Hxr : In x (ready s)) by (rewrite Er; left; reflexivity).
  assert (Hx : x < length g) by (apply (i_bound g s I); auto).
  assert (Hxc : ~ In x (completed s)) by (intros H; exact (i_dj_cr g s I x H Hxr)).
  assert (Hxi : ~ In x (inprog s)) by (intros H; exact (i_dj_ir g s I x H Hxr)).
  assert (Hxf : ~ In x (failed s) /\ ~ In x (cancelled s)).
  { split; intros Hf; destruct (i_dj_fc g s I x); auto; tauto. }
  assert (Hxn : ~ In x rest).
  { pose proof (i_nd_ready g s I) as N. rewrite Er in N. inversion N; assumption. }
  change (canceled s1) with (canceled s).
  destruct (canceled s) eqn:Hcan.
  - (* popped after a cancel request: marked cancelled, never submitted *)
    split; [|cbn; lia].
    apply (qinv_frame d s1); auto.
    + apply Inv_cancelled_add; auto.
      * apply Inv_set_status; [discriminate|exact I1].
      * change (status (getrec (rec_set_status x CANCELLED s1) x) <> INITIALIZED).
        rewrite getrec_set_status_eq by (rewrite (i_len_recs g s1 I1); exact Hx). cbn. discriminate.
    + intros y. change (lastjob (rec_set_status x CANCELLED s1) y = lastjob s1 y). apply lastjob_set_status.
  - (* launched *)
    destruct Q1 as (_ & Cl1 & [Jl1 Js1]).
    assert (Pre : exec_pre c g p L0 d none none x false s1).
    { split; [exact I1|]. split; [exact Cl1|]. split; [exact Hx|].
      split; [exact Hxc|]. split; [exact Hxn|]. split; [apply Hxf|]. split; [apply Hxf|].
      split; [apply (i_anc g s I); auto|]. split; [exact Hxi|].
      split. { intros Ht. change (inprog s1) with (inprog s). rewrite srem_notin by exact Hxi. auto. }
      split; [exact Hcan|]. split; [intros []|]. split; [intros []|].
      split; [|exact Js1].
      eapply JL_ext; [|exact Jl1]. intros y Hy. change (In y (inprog s)) in Hy. unfold none.
      split; [tauto|]. intros [->|[]]. contradiction. }
    pose proof (execute_record_spec c g p L0 W d none none x false s1 Hd Pre) as ES.
    cbv zeta in ES. destruct ES as (G1 & G2 & G3 & G4 & G5 & G6 & G7 & G8).
    split; [split; [exact G1|split; [exact G2|exact G3]]|].
    change (inprog s1) with (inprog s) in G6. rewrite srem_notin in G6 by exact Hxi. exact G6.
Qed.

Lemma launch_iter_spec d n : forall s, dry c = d -> qinv d s ->
  (throttle c > 0 -> length (inprog s) + n <= throttle c) ->
  let s' := Nat.iter n (launch_body_gen c g) s in
  qinv d s' /\ length (inprog s') <= length (inprog s) + n.
Proof.
  induction n as [|n IH]; intros s Hd Q TB.
  - cbn. split; [exact Q|lia].
  - change (Nat.iter (S n) (launch_body_gen c g) s) with (launch_body_gen c g (Nat.iter n (launch_body_gen c g) s)).
    destruct (IH s Hd Q ltac:(intros H; specialize (TB H); lia)) as [Q1 B1].
    destruct (launch_body_spec d _ Hd Q1 ltac:(intros H; specialize (TB H); lia)) as [Q2 B2].
    split; [exact Q2|lia].
Qed.

Lemma cancel_study_spec d s : qinv d s ->
  qinv d (cancel_study_gen s) /\ inprog (cancel_study_gen s) = inprog s.
Proof.
  intros (I & Cl & [Jl Js]). unfold cancel_study_gen. split; [|reflexivity].
  set (e := ECancel (map (lastjob s) (inprog s))).
  split; [eapply Inv_fields; [| | | | | | |exact I]; reflexivity|].
  split.
  - apply (clean_frame c g p L0 (emit e s)); [reflexivity|]. apply clean_emit. split; [exact Cl|].
    cbn [evA e]. apply same_jobs_J; [apply (i_nd_inprog g s I)|exact Jl].
  - rewrite (led_frame c g p L0 (emit e s)) by reflexivity. rewrite led_emit. cbn [step_base e]. split.
    + destruct Jl as [A B C]. constructor; auto.
    + eapply JS_frame; [| |exact Js]; [intros y; reflexivity|reflexivity].
Qed.

Lemma echeck_J s L js : J false none none s L ->
  J false (tpend (if qcode_eqb (qcode p) QOK then reports p else []))
          (pfin (if qcode_eqb (qcode p) QOK then reports p else [])) s (step_base c g p L (ECheck js)).
Proof.
  intros [Jl Js]. cbn [step_base].
  assert (NONE : forall L', core_eq L L' -> J false (tpend []) (pfin []) s L').
  { intros L' (E1 & E2 & E3). split.
    - eapply JL_ext; [|eapply JL_frame; [| | | | |exact Jl]]; auto.
      + intros y _. split; [intros []|intros (v & [] & _)].
      + tauto.
    - eapply JS_ext; [|eapply JS_frame; [| |exact Js]]; auto.
      + intros y. split; intros [].
      + tauto. }
  destruct (qcode p); cbn [qcode_eqb]; try (apply NONE; repeat split).
  set (L1 := set_check L (map fst (live L)) (sstage L)).
  destruct (deliver_fold (reports p) L1) as (A1 & A2 & A3 & A4).
  set (L2 := fold_left deliver (reports p) L1) in *.
  change (J false (tpend (reports p)) (pfin (reports p)) s (set_check L2 (lchk L2) (succ L2))).
  destruct Jl as [B1 B2 B3]. destruct Js as [C1 C2 C3 C4]. split.
  - constructor.
    + intros y j. change (In (y, j) (live L2) <-> In y (inprog s) /\ j = lastjob s y /\ ~ tpend (reports p) y).
      rewrite A1. change (live L1) with (live L). rewrite B1. unfold none. tauto.
    + apply A4. exact B2.
    + change (cseen L2 = canceled s). rewrite A3. exact B3.
  - constructor; try discriminate.
    + intros _ y Hy. apply A2. left. apply C1; auto.
    + intros y Hy. apply A2 in Hy. destruct Hy as [Hy|Hy]; auto.
      destruct (C2 y Hy) as [H|[]]; auto.
    + intros y Hy. apply A2. auto.
Qed.

Lemma execute_ready_steps_spec d s : dry c = d -> qinv d s -> Thr c s -> valid_pin s p = true ->
  qinv d (fst (execute_ready_steps_gen c g p s)) /\ Thr c (fst (execute_ready_steps_gen c g p s)).
Proof.
  intros Hd Q T V. unfold execute_ready_steps_gen.
  assert (TAIL : forall s2, qinv d s2 -> Thr c s2 ->
     let s3 := fold_left (stage_node_gen g) (seq 0 (length g)) s2 in
     let s4 := Nat.iter (available_gen c s3) (launch_body_gen c g) s3 in qinv d s4 /\ Thr c s4).
  { intros s2 Q2 T2. cbv zeta.
    destruct (stage_fold_spec d (seq 0 (length g)) (fun x Hx => proj1 (In_seq_lt x (length g)) Hx) s2 Q2)
      as (Q3 & E1 & E2 & E3).
    set (s3 := fold_left (stage_node_gen g) (seq 0 (length g)) s2) in *.
    assert (AV : throttle c > 0 -> length (inprog s3) + available_gen c s3 <= throttle c).
    { intros Ht. unfold available_gen. destruct (throttle c =? 0) eqn:E; [apply Nat.eqb_eq in E; lia|].
      rewrite E1. specialize (T2 Ht). lia. }
    destruct (launch_iter_spec d _ s3 Hd Q3 AV) as [Q4 B4]. split; [exact Q4|].
    intros Ht. specialize (AV Ht). lia. }
  destruct (dry c) eqn:Hdry; cbn [negb]; subst d.
  - cbn [qcode_eqb]. change (dispatch_gen c g [] s) with s. cbn [fst]. apply TAIL; assumption.
  - destruct Q as (I & Cl & Jh).
    set (e := ECheck (map (lastjob s) (inprog s))).
    assert (I1 : Inv g (emit e s)) by (eapply Inv_fields; [| | | | | | |exact I]; reflexivity).
    assert (Cl1 : cleanS (emit e s)).
    { apply clean_emit. split; [exact Cl|]. cbn [evA e]. apply same_jobs_J; [apply (i_nd_inprog g s I)|apply Jh]. }
    pose proof (echeck_J s (ledS s) (map (lastjob s) (inprog s)) Jh) as J1.
    fold e in J1. rewrite <- led_emit in J1.
    assert (J1' : J false (tpend (if qcode_eqb (qcode p) QOK then reports p else []))
                    (pfin (if qcode_eqb (qcode p) QOK then reports p else [])) (emit e s) (ledS (emit e s))).
    { destruct J1 as [Jl Js]. split.
      - eapply JL_frame; [| | | | |exact Jl]; auto; tauto.
      - eapply JS_frame; [| |exact Js]; auto; tauto. }
    clear J1. rename J1' into J1.
    destruct (qcode p) eqn:Eq; cbn [qcode_eqb] in *.
    + (* OK: dispatch, stage, launch *)
      destruct (valid_pin_spec s p V Eq) as [ND RI].
      pose proof (dispatch_spec c g p L0 W Hdry (reports p) (emit e s) I1 T Cl1 J1 ND RI) as DS.
      cbv zeta in DS. destruct DS as (I2 & T2 & Cl2 & J2).
      cbn [fst]. apply TAIL; [split; [exact I2|split; [exact Cl2|exact J2]]|exact T2].
    + (* NOJOBS: reports ignored *)
      cbn [fst]. apply TAIL; [|exact T]. split; [exact I1|]. split; [exact Cl1|].
      destruct J1 as [Jl Js]. split.
      * eapply JL_ext; [|exact Jl]. intros y _. split; [intros (v & [] & _)|intros []].
      * eapply JS_ext; [|exact Js]. intros y. split; intros [].
    + (* ERROR: abort *)
      cbn [fst]. split; [|exact T]. split; [exact I1|]. split; [exact Cl1|].
      destruct J1 as [Jl Js]. split.
      * eapply JL_ext; [|exact Jl]. intros y _. split; [intros (v & [] & _)|intros []].
      * eapply JS_ext; [|exact Js]. intros y. split; intros [].
Qed.

(** one iteration of monitor_study *)
Lemma poll_spec d s : dry c = d -> Inv g s -> Thr c s -> J d none none s L0 -> valid_pin s p = true ->
  qinv d (fst (poll c g s p)) /\ Thr c (fst (poll c g s p)).
Proof.
  intros Hd I T Jh V. unfold poll.
  set (s0 := set_evs (set_subs s (psubs p)) []).
  assert (Q0 : qinv d s0).
  { split; [eapply Inv_fields; [| | | | | | |exact I]; reflexivity|]. split; [exact Logic.I|].
    change (ledS s0) with L0. destruct Jh as [Jl Js]. split.
    - eapply JL_frame; [| | | | |exact Jl]; auto; tauto.
    - eapply JS_frame; [| |exact Js]; auto; tauto. }
  destruct (cancel_req p).
  - destruct (cancel_study_spec d s0 Q0) as [Q1 E1].
    apply execute_ready_steps_spec; auto.
  - apply execute_ready_steps_spec; auto.
Qed.


End PollSpec.

(** Provenance of the adapter calls of one poll, and the restart accounting.

    For one poll  poll c g s p = (s', r)  from a state satisfying the invariant:
      poll_events   every  ESubmit x k sc res  in  evs s'  has sc = scheduled x, happens
                    only outside dry runs, x is neither failed/cancelled in s nor a
                    descendant of such a node; a Restart submission needs a restart
                    command and a TIMEDOUT report for x in this poll (query code OK);
                    a Main submission never follows a TIMEDOUT report of the same poll;
      poll_restarts restarts s' x = restarts s x + (1 if the poll has a Restart submission
                    of x, else 0)            (for attempts >= 1);
      poll_mono     completed / failed / cancelled only grow, canceled is monotone. *)
From Coq Require Import Lia Relations.
From MWF Require Import Base.Util Base.UtilLemmas Exec.ExecBase Exec.ExecGen Exec.ExecRun Exec.ExecGraph Exec.ExecInv
  Exec.ExecPoll Exec.ExecSteps Exec.ExecPoll2.

#[local] Arguments bfs_subtree : simpl never.
#[local] Arguments submit_attempts : simpl never.
#[local] Arguments mark_failed_list : simpl never.
#[local] Arguments mark_cancelled_list : simpl never.
#[local] Arguments set_union : simpl never.

Definition rsub_ev (x : nat) (e : event) : bool :=
  match e with ESubmit y Restart _ _ => Nat.eqb y x | _ => false end.
(** does the event list contain a Restart submission of x *)
Definition rsub_in (x : nat) (es : list event) : bool := existsb (rsub_ev x) es.

Lemma rsub_in_app x a b : rsub_in x (a ++ b) = rsub_in x a || rsub_in x b.
Proof. apply existsb_app. Qed.

Lemma rsub_in_true x es : rsub_in x es = true <-> exists sc res, In (ESubmit x Restart sc res) es.
Proof.
  unfold rsub_in. rewrite existsb_exists. split.
  - intros [e [He Hr]]. destruct e as [| | |y k sc res]; try discriminate. destruct k; try discriminate.
    cbn in Hr. apply Nat.eqb_eq in Hr. subst. eauto.
  - intros (sc & res & H). eexists. split; [exact H|]. cbn. apply Nat.eqb_refl.
Qed.

Lemma rsub_in_new_main g x y new : (forall e, In e new -> sub_ev g x false e) -> rsub_in y new = false.
Proof.
  intros H. destruct (rsub_in y new) eqn:E; auto. apply rsub_in_true in E. destruct E as (sc & res & E).
  destruct (H _ E) as [A|[r A]]; discriminate.
Qed.

Lemma rsub_in_new_other g x y new : (forall e, In e new -> sub_ev g x true e) -> y <> x -> rsub_in y new = false.
Proof.
  intros H Hn. destruct (rsub_in y new) eqn:E; auto. apply rsub_in_true in E. destruct E as (sc & res & E).
  destruct (H _ E) as [A|[r A]]; [discriminate|]. inversion A. congruence.
Qed.

Lemma stage_node_ready g t x y : In y (ready (stage_node_gen g t x)) ->
  In y (ready t) \/ (y = x /\ ~ In x (completed t) /\ status (getrec t x) = INITIALIZED).
Proof.
  unfold stage_node_gen. destruct (mem x (completed t)) eqn:Mc; auto.
  destruct (state_eqb (status (getrec t x)) INITIALIZED) eqn:Es; auto.
  apply state_eqb_eq in Es. apply mem_false in Mc.
  destruct (is_nil (getdeps (deps_prune x t) x)); auto.
  destruct (negb (mem x (ready (deps_prune x t)))); auto.
  unfold ready_push, deps_prune. sp. rewrite in_app_iff. cbn. intuition.
Qed.

Section Prov.
Variables (c : cfg) (g : graph) (p : pin) (s : st).
Hypothesis W : WF g.

Definition tracked (t : st) (cl ca : list nat) (y : nat) : Prop :=
  In y (inprog t) \/ In y (completed t) \/ In y (failed t) \/ In y (cancelled t) \/ In y cl \/ In y ca.

(** what is known about a submission recorded in the event log of the poll *)
Definition sub_ok (done : list report) (x : nat) (k : kind) (sc : bool) : Prop :=
  sc = scheduled (attr g x) /\ dry c = false /\ x < length g /\ ~ FC s x /\ (forall u, FC s u -> ~ reach g u x) /\
  match k with
  | Restart => has_restart (attr g x) = true /\ In (x, Some TIMEDOUT) done
  | Main => ~ In (x, Some TIMEDOUT) done
  end.

Record J3 (t : st) (cl ca : list nat) (done : list report) : Prop := {
  j_f : forall y, In y (failed s) -> In y (failed t);
  j_c : forall y, In y (cancelled s) -> In y (cancelled t);
  j_k : forall y, In y (completed s) -> In y (completed t);
  j_cn : canceled s = true -> canceled t = true;
  j_done : incl done (reports p) /\ (done <> [] -> dry c = false /\ qcode p = QOK);
  j_ev : forall x k sc res, In (ESubmit x k sc res) (evs t) -> sub_ok done x k sc;
  j_to : forall y, In (y, Some TIMEDOUT) done -> ~ In y (ready t) /\ tracked t cl ca y;
  j_r : 0 < attempts c -> forall x, restarts (getrec t x) = restarts (getrec s x) + (if rsub_in x (evs t) then 1 else 0) }.

Definition J3c (a : conf) : Prop := let '(t, cl, ca, done) := a in J3 t cl ca done.

Lemma J3_FC t cl ca done u : J3 t cl ca done -> FC s u -> FC t u.
Proof. intros J [H|H]; [left; apply (j_f _ _ _ _ J)|right; apply (j_c _ _ _ _ J)]; auto. Qed.

(** a node about to be submitted (in progress, or at the head of the queue) is clean *)
Lemma clean_node t cl ca done x : Inv g t -> J3 t cl ca done ->
  (In x (inprog t) \/ In x (ready t)) -> ~ FC s x /\ forall u, FC s u -> ~ reach g u x.
Proof.
  intros I J Hx. split.
  - intros H. apply (J3_FC t cl ca done x J) in H. destruct (i_dj_fc g t I x H) as (_ & A & B). tauto.
  - intros u Hu. apply (FC_not_anc g t u x W I (J3_FC t cl ca done u J Hu)). tauto.
Qed.

Lemma J3_report t cl ca done x o t' cl' ca' :
  dry c = false -> qcode p = QOK -> In (x, o) (reports p) -> ~ In x (map fst done) -> incl done (reports p) ->
  Inv g t -> Pend g t cl ca -> In x (inprog t) -> no_main t ->
  handle_report_gen c g (t, cl, ca) (x, o) = (t', cl', ca') ->
  J3 t cl ca done -> J3 t' cl' ca' (done ++ [(x, o)]).
Proof.
  intros D Q Hin Hnd Hinc I P Hx Nm E J.
  destruct (inprog_facts g t x I Hx) as (Hl & Hc & Hr & Hf & Hca & Hp & Hi).
  assert (Hlr : x < length (recs t)) by (rewrite (i_len_recs g t I); exact Hl).
  assert (Hdone : forall y, In (y, Some TIMEDOUT) (done ++ [(x, o)]) ->
            (In (y, Some TIMEDOUT) done /\ y <> x) \/ (y = x /\ o = Some TIMEDOUT)).
  { intros y Hy. apply in_app_iff in Hy. destruct Hy as [Hy|[Hy|[]]]; [left|right; inversion Hy; auto].
    split; auto. intros ->. apply Hnd. apply in_map_iff. exists (x, Some TIMEDOUT). auto. }
  assert (Evok : forall y k sc res, In (ESubmit y k sc res) (evs t) -> sub_ok (done ++ [(x, o)]) y k sc).
  { intros y k sc res H. destruct k; [exfalso; exact (Nm y sc res H)|].
    destruct (j_ev _ _ _ _ J y Restart sc res H) as (A1 & A2 & A3 & A4 & A5 & A6 & A7).
    unfold sub_ok. splits; auto. apply in_app_iff. auto. }
  assert (Dn : incl (done ++ [(x, o)]) (reports p) /\ (done ++ [(x, o)] <> [] -> dry c = false /\ qcode p = QOK)).
  { split; auto. intros y Hy. apply in_app_iff in Hy. destruct Hy as [Hy|[<-|[]]]; auto. }
  destruct (hr_frame c g t cl ca x o t' cl' ca' Hlr E)
    as [(Ev & Rs & Ff & Cc & Kk & Rd & Ip & Cl & Ca & Tx)|(RB & -> & -> & Et)].
  - (* every branch but the restart *)
    pose proof (hr_canceled _ _ _ _ _ _ _ _ _ _ E) as Ec.
    constructor; auto.
    + intros y Hy. apply Ff. apply (j_f _ _ _ _ J). exact Hy.
    + intros y Hy. rewrite Cc. apply (j_c _ _ _ _ J). exact Hy.
    + intros y Hy. apply Kk. apply (j_k _ _ _ _ J). exact Hy.
    + rewrite Ec. apply (j_cn _ _ _ _ J).
    + rewrite Ev. exact Evok.
    + intros y Hy. destruct (Hdone y Hy) as [[Hy' Hne]|[-> Ho]].
      * destruct (j_to _ _ _ _ J y Hy') as [A B]. split.
        -- intros H. destruct (Rd y H) as [H'|[H' _]]; auto.
        -- unfold tracked in *. rewrite Cc.
           destruct B as [B|[B|[B|[B|[B|B]]]]]; auto 10.
           destruct (Cl y B) as [B'|B']; [contradiction|auto 10].
      * split.
        -- intros H. destruct (Rd x H) as [H'|[_ H']]; [contradiction|congruence].
        -- unfold tracked. destruct (Tx Ho); auto 10.
    + intros Ha y. rewrite Rs, Ev. apply (j_r _ _ _ _ J Ha).
  - (* the restart branch *)
    destruct RB as (Ho & Hh & Hcn & Hb).
    set (t1 := rec_inc_restarts x (rec_set_status x TIMEDOUT t)) in *.
    assert (I1 : Inv g t1) by (apply Inv_inc_restarts, Inv_set_status; [discriminate|auto]).
    pose proof (execute_record_sets c g x true t1) as ES.
    destruct (execute_record_evs c g x true t1) as (new & V1 & V2 & V3 & V4 & V5).
    destruct (execute_record_recs c g x true t1 W I1 Hl) as (R1 & _).
    rewrite <- Et in *. change (evs t1) with (evs t) in V1.
    constructor; auto.
    + intros y Hy. apply (er_f1 _ _ _ _ ES). apply (j_f _ _ _ _ J). exact Hy.
    + intros y Hy. rewrite (er_cancelled _ _ _ _ ES). apply (j_c _ _ _ _ J). exact Hy.
    + intros y Hy. apply (er_c1 _ _ _ _ ES). apply (j_k _ _ _ _ J). exact Hy.
    + rewrite (er_canceled _ _ _ _ ES). apply (j_cn _ _ _ _ J).
    + intros y k sc res H. rewrite V1 in H. apply in_app_iff in H. destruct H as [H|H]; [|eapply Evok; eauto].
      destruct (V2 _ H) as [A|[r A]]; [discriminate|]. inversion A; subst y k sc res.
      destruct (clean_node t cl ca done x I J (or_introl Hx)) as [A1 A2].
      unfold sub_ok. splits; auto. apply in_app_iff. right. left. rewrite Ho. reflexivity.
    + intros y Hy. destruct (Hdone y Hy) as [[Hy' Hne]|[-> _]].
      * destruct (j_to _ _ _ _ J y Hy') as [A B]. split; [rewrite (er_ready _ _ _ _ ES); exact A|].
        unfold tracked in *. rewrite (er_cancelled _ _ _ _ ES).
        destruct B as [B|[B|[B|[B|[B|B]]]]]; auto 10.
        -- left. apply (er_i1 _ _ _ _ ES); auto.
        -- right. left. apply (er_c1 _ _ _ _ ES); auto.
        -- right. right. left. apply (er_f1 _ _ _ _ ES); auto.
      * split; [rewrite (er_ready _ _ _ _ ES); exact Hr|].
        unfold tracked. destruct (execute_record_where c g x true t1) as [A|[A|A]]; rewrite <- Et in A; auto 10.
    + intros Ha y. rewrite R1, V1, rsub_in_app. pose proof (j_r _ _ _ _ J Ha y) as Jr.
      destruct (Nat.eq_dec y x) as [->|Hne].
      * assert (Ex : rsub_in x new = true).
        { apply rsub_in_true. destruct (V4 D Ha) as [res Hres]. eauto. }
        assert (Eo : rsub_in x (evs t) = false).
        { destruct (rsub_in x (evs t)) eqn:Eo; auto. apply rsub_in_true in Eo. destruct Eo as (sc & res & Eo).
          destruct (j_ev _ _ _ _ J x Restart sc res Eo) as (_ & _ & _ & _ & _ & _ & A).
          exfalso. apply Hnd. apply in_map_iff. exists (x, Some TIMEDOUT). auto. }
        rewrite Ex. rewrite Eo in Jr. cbn [orb].
        unfold t1. rewrite restarts_inc_restarts_eq by (rewrite len_recs_set_status; exact Hlr).
        rewrite restarts_set_status. lia.
      * rewrite (rsub_in_new_other g x y new V2 Hne). cbn [orb].
        unfold t1. rewrite getrec_inc_restarts_neq by auto. rewrite restarts_set_status. exact Jr.
Qed.

Lemma J3_step a b : pstep c g p a b -> J3c a -> J3c b.
Proof.
  intros St. destruct St as [t Cq I Ev0|t D I Ev0|t cl ca done x o t' cl' ca' D Q Hin Hnd Hinc I P Hx Cr Nm E
                            |t a cl ca done I P|t a ca done I P|t x done Hx I|t done I Cr]; unfold J3c.
  - (* cancel *)
    intros [A1 A2 A3 A4 A5 A6 A7 A8]. constructor; auto.
    intros y k sc res [H|H]; [discriminate|eauto].
  - (* check *)
    intros [A1 A2 A3 A4 A5 A6 A7 A8]. constructor; auto.
    intros y k sc res [H|H]; [discriminate|eauto].
  - intros J. eapply J3_report; eauto.
  - (* sweep failed *)
    intros [A1 A2 A3 A4 A5 A6 A7 A8]. constructor; auto.
    + intros y Hy. unfold rec_set_status, failed_add. sp. apply In_sadd. auto.
    + intros y Hy. destruct (A7 y Hy) as [B1 B2]. split; auto.
      unfold tracked, rec_set_status, failed_add in *. sp. rewrite In_sadd. cbn [In] in B2. intuition (subst; auto 10).
    + intros Ha y. rewrite restarts_set_status. apply (A8 Ha y).
  - (* sweep cancelled *)
    intros [A1 A2 A3 A4 A5 A6 A7 A8]. constructor; auto.
    + intros y Hy. unfold rec_set_status, cancelled_add. sp. apply In_sadd. auto.
    + intros y Hy. destruct (A7 y Hy) as [B1 B2]. split; auto.
      unfold tracked, rec_set_status, cancelled_add in *. sp. rewrite In_sadd. cbn [In] in B2. intuition (subst; auto 10).
    + intros Ha y. rewrite restarts_set_status. apply (A8 Ha y).
  - (* stage *)
    intros [A1 A2 A3 A4 A5 A6 A7 A8].
    destruct (stage_node_frame g t x) as (F1 & F2 & F3 & F4 & F5 & F6 & F7 & _).
    constructor; unfold getrec; rewrite ?F1, ?F2, ?F3, ?F4, ?F5, ?F6, ?F7; auto.
    intros y Hy. destruct (A7 y Hy) as [B1 B2]. split.
    + intros H. apply stage_node_ready in H. destruct H as [H|(-> & Hc & Hs)]; [contradiction|].
      destruct B2 as [B|[B|[B|[B|[[]|[]]]]]]; try contradiction; apply (i_init g t I x); auto.
    + unfold tracked in *. rewrite F1, F2, F3, F4. exact B2.
  - (* launch *)
    intros J. unfold launch_body_gen. destruct (ready t) as [|x rest] eqn:E; auto.
    destruct (ready_head_facts g t x rest I E) as (Hl & Hc & Hi & Hr & Hf & Hca & Hp).
    assert (Hxr : In x (ready t)) by (rewrite E; left; reflexivity).
    pose proof (Inv_pop g x rest t I E) as I1.
    destruct (clean_node t [] [] done x I J (or_intror Hxr)) as [Cx1 Cx2].
    destruct J as [A1 A2 A3 A4 A5 A6 A7 A8].
    assert (Hrest : forall y, In (y, Some TIMEDOUT) done -> ~ In y rest /\ y <> x).
    { intros y Hy. destruct (A7 y Hy) as [B _]. rewrite E in B. cbn in B. split; [tauto|]. intros ->. tauto. }
    change (canceled (set_ready t rest)) with (canceled t). destruct (canceled t) eqn:Cn.
    + constructor; auto.
      * intros y Hy. unfold rec_set_status, cancelled_add. sp. apply In_sadd. auto.
      * intros y Hy. destruct (A7 y Hy) as [B1 B2]. destruct (Hrest y Hy) as [B3 B4]. split; auto.
        unfold tracked, rec_set_status, cancelled_add in *. sp. rewrite In_sadd. tauto.
      * intros Ha y.
        change (restarts (getrec (rec_set_status x CANCELLED t) y) = restarts (getrec s y) + (if rsub_in y (evs t) then 1 else 0)).
        rewrite restarts_set_status. apply (A8 Ha y).
    + set (t1 := set_ready t rest) in *.
      pose proof (execute_record_sets c g x false t1) as ES.
      destruct (execute_record_evs c g x false t1) as (new & V1 & V2 & V3 & V4 & V5).
      destruct (execute_record_recs c g x false t1 W I1 Hl) as (R1 & _).
      change (evs t1) with (evs t) in V1.
      constructor; auto.
      * intros y Hy. apply (er_f1 _ _ _ _ ES). apply A1. exact Hy.
      * intros y Hy. rewrite (er_cancelled _ _ _ _ ES). apply A2. exact Hy.
      * intros y Hy. apply (er_c1 _ _ _ _ ES). apply A3. exact Hy.
      * intros H. specialize (A4 H). discriminate.
      * intros y k sc res H. rewrite V1 in H. apply in_app_iff in H. destruct H as [H|H]; [|eapply A6; eauto].
        destruct (V2 _ H) as [A|[r A]]; [discriminate|]. inversion A; subst y k sc res.
        assert (Dr : dry c = false).
        { destruct (dry c) eqn:Dr; auto. specialize (V3 eq_refl _ H). discriminate. }
        unfold sub_ok. splits; auto. intros Hy. destruct (Hrest x Hy) as [_ B]. congruence.
      * intros y Hy. destruct (A7 y Hy) as [B1 B2]. destruct (Hrest y Hy) as [B3 B4]. split.
        -- rewrite (er_ready _ _ _ _ ES). exact B3.
        -- unfold tracked in *. rewrite (er_cancelled _ _ _ _ ES).
           destruct B2 as [B|[B|[B|[B|[[]|[]]]]]]; auto 10.
           ++ left. apply (er_i1 _ _ _ _ ES); auto.
           ++ right. left. apply (er_c1 _ _ _ _ ES); auto.
           ++ right. right. left. apply (er_f1 _ _ _ _ ES); auto.
      * intros Ha y. rewrite R1, V1, rsub_in_app, (rsub_in_new_main g x y new V2). cbn [orb]. apply (A8 Ha y).
Qed.

Lemma J3_start : J3c (conf0 s p).
Proof.
  unfold J3c, conf0, poll_start. constructor; auto.
  - split; [intros ? []|congruence].
  - intros ? ? ? ? [].
  - intros ? [].
Qed.
End Prov.

(** * Poll-level statements *)
Definition done_final (c : cfg) (p : pin) : list report :=
  if qcode_eqb (qcode p) QERROR && negb (dry c) then [] else delivered c p.

Theorem poll_J3 c g s p : WF g -> Inv g s -> valid_pin s p = true ->
  J3 c g p s (fst (poll c g s p)) [] [] (done_final c p).
Proof.
  intros W I V. pose proof (poll_reach c g p W s I V) as R.
  exact (psteps_ind_inv c g p (J3c c g p s) (J3_step c g p s W) _ _ R (J3_start c g p s)).
Qed.

Theorem poll_events c g s p : WF g -> Inv g s -> valid_pin s p = true ->
  forall x k sc res, In (ESubmit x k sc res) (evs (fst (poll c g s p))) ->
  sc = scheduled (attr g x) /\ dry c = false /\ x < length g /\ ~ FC s x /\ (forall u, FC s u -> ~ reach g u x) /\
  match k with
  | Restart => has_restart (attr g x) = true /\ qcode p = QOK /\ In (x, Some TIMEDOUT) (reports p) /\ In x (inprog s)
  | Main => qcode p = QOK -> ~ In (x, Some TIMEDOUT) (reports p)
  end.
Proof.
  intros W I V x k sc res H. pose proof (poll_J3 c g s p W I V) as J.
  destruct (j_ev _ _ _ _ _ _ _ _ J x k sc res H) as (A1 & A2 & A3 & A4 & A5 & A6).
  splits; auto. destruct (j_done _ _ _ _ _ _ _ _ J) as [D1 D2]. destruct k.
  - intros Q. unfold done_final, delivered in A6. rewrite A2, Q in A6. exact A6.
  - destruct A6 as [A6 A7]. apply valid_pin_spec in V. destruct V as [_ Vi].
    assert (Hne : done_final c p <> []) by (intros E; rewrite E in A7; destruct A7).
    destruct (D2 Hne) as [_ Q]. splits; auto. eapply Vi; eauto.
Qed.

Theorem poll_restarts c g s p : WF g -> Inv g s -> valid_pin s p = true -> 0 < attempts c ->
  forall x, restarts (getrec (fst (poll c g s p)) x) =
            restarts (getrec s x) + (if rsub_in x (evs (fst (poll c g s p))) then 1 else 0).
Proof. intros W I V Ha. exact (j_r _ _ _ _ _ _ _ _ (poll_J3 c g s p W I V) Ha). Qed.

Theorem poll_mono c g s p : WF g -> Inv g s -> valid_pin s p = true ->
  let s' := fst (poll c g s p) in
  (forall y, In y (failed s) -> In y (failed s')) /\ (forall y, In y (cancelled s) -> In y (cancelled s')) /\
  (forall y, In y (completed s) -> In y (completed s')) /\ (canceled s = true -> canceled s' = true).
Proof.
  intros W I V. pose proof (poll_J3 c g s p W I V) as J. cbv zeta. splits.
  - apply (j_f _ _ _ _ _ _ _ _ J).
  - apply (j_c _ _ _ _ _ _ _ _ J).
  - apply (j_k _ _ _ _ _ _ _ _ J).
  - apply (j_cn _ _ _ _ _ _ _ _ J).
Qed.

(** * Submitted nodes have only completed ancestors (also at the end of the poll) *)
Section Anc.
Variables (c : cfg) (g : graph) (p : pin).
Hypothesis W : WF g.

Definition J3b (t : st) : Prop :=
  forall x k sc res, In (ESubmit x k sc res) (evs t) -> forall a, reach g a x -> a <> x -> In a (completed t).
Definition J3bc (a : conf) : Prop := let '(t, _, _, _) := a in J3b t.

Lemma J3b_mono t t' :
  (forall y, In y (completed t) -> In y (completed t')) ->
  (forall e, In e (evs t') -> In e (evs t) \/
     match e with ESubmit x _ _ _ => forall a, reach g a x -> a <> x -> In a (completed t') | _ => True end) ->
  J3b t -> J3b t'.
Proof.
  intros Hc He J x k sc res H a R Hne. destruct (He _ H) as [H'|H']; [|exact (H' a R Hne)].
  apply Hc. eapply J; eauto.
Qed.

Lemma J3b_step a b : pstep c g p a b -> J3bc a -> J3bc b.
Proof.
  intros St. destruct St as [t Cq I Ev0|t D I Ev0|t cl ca done x o t' cl' ca' D Q Hin Hnd Hinc I P Hx Cr Nm E
                            |t a cl ca done I P|t a ca done I P|t x done Hx I|t done I Cr]; unfold J3bc.
  - apply J3b_mono; auto. intros e [<-|He]; auto.
  - apply J3b_mono; auto. intros e [<-|He]; auto.
  - assert (Hlr : x < length (recs t)) by (rewrite (i_len_recs g t I); apply (i_bound g t I); auto).
    destruct (hr_frame c g t cl ca x o t' cl' ca' Hlr E)
      as [(Ev & Rs & Ff & Cc & Kk & _)|(RB & -> & -> & Et)].
    + apply J3b_mono; auto. rewrite Ev. auto.
    + set (t1 := rec_inc_restarts x (rec_set_status x TIMEDOUT t)) in *.
      pose proof (execute_record_sets c g x true t1) as ES. rewrite <- Et in ES.
      destruct (execute_record_evs c g x true t1) as (new & V1 & V2 & _). rewrite <- Et in V1.
      apply J3b_mono; [apply (er_c1 _ _ _ _ ES)|].
      intros e He. rewrite V1 in He. apply in_app_iff in He. destruct He as [He|He]; [|left; exact He].
      right. destruct (V2 _ He) as [->|[r ->]]; auto.
      intros a R Hne. apply (er_c1 _ _ _ _ ES). change (In a (completed t)).
      eapply anc_completed; eauto.
  - apply J3b_mono; auto.
  - apply J3b_mono; auto.
  - destruct (stage_node_frame g t x) as (F1 & _ & _ & _ & _ & _ & F7 & _).
    apply J3b_mono; rewrite ?F1, ?F7; auto.
  - unfold launch_body_gen. destruct (ready t) as [|x rest] eqn:E; auto.
    change (canceled (set_ready t rest)) with (canceled t). destruct (canceled t) eqn:Cn.
    + apply J3b_mono; auto.
    + set (t1 := set_ready t rest).
      pose proof (execute_record_sets c g x false t1) as ES.
      destruct (execute_record_evs c g x false t1) as (new & V1 & V2 & _).
      apply J3b_mono; [apply (er_c1 _ _ _ _ ES)|].
      intros e He. rewrite V1 in He. apply in_app_iff in He. destruct He as [He|He]; [|left; exact He].
      right. destruct (V2 _ He) as [->|[r ->]]; auto.
      intros a R Hne. apply (er_c1 _ _ _ _ ES). change (In a (completed t)).
      eapply anc_completed; eauto. right. right. rewrite E. left. reflexivity.
Qed.
End Anc.

(** a node submitted in a poll has, at the end of that poll, no failed/cancelled strict ancestor *)
Theorem poll_no_submit_same c g s p : WF g -> Inv g s -> Thr c s -> valid_pin s p = true ->
  forall x k sc res, In (ESubmit x k sc res) (evs (fst (poll c g s p))) ->
  forall u, FC (fst (poll c g s p)) u -> reach g u x -> u = x.
Proof.
  intros W I T V x k sc res H u Fu R.
  pose proof (poll_reach c g p W s I V) as Rp.
  assert (J0 : J3bc g (conf0 s p)) by (unfold J3bc, conf0, poll_start, J3b; cbn; intros ? ? ? ? []).
  pose proof (psteps_ind_inv c g p (J3bc g) (J3b_step c g p W) _ _ Rp J0) as J. unfold J3bc in J.
  destruct (Nat.eq_dec u x) as [E|Hne]; auto. exfalso.
  pose proof (J x k sc res H u R Hne) as Hc.
  destruct (poll_Inv c g s p W I T V) as [I1 _].
  destruct (i_dj_fc g _ I1 u Fu) as [A _]. contradiction.
Qed.

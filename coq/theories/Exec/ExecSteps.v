(** The poll as a sequence of guarded macro-steps.

    One poll of the conductor loop (ExecRun.poll over the generated decision
    logic) is replayed as a path of a small transition system over
    configurations (state, pending clean-up set, pending cancel set, reports
    already dispatched).  Every step carries, as premises, the facts that hold
    when the corresponding piece of code runs (the state invariant [Inv], the
    "pending nodes are untracked" fact [Pend], the branch guards).  Invariants of
    the polling loop are then proved by one case analysis per step instead of
    re-walking the control structure of execute_ready_steps.

    Exported:  conf, conf0, pstep, psteps, psteps_ind_inv,
               poll_reach : WF g -> Inv g s -> valid_pin s p = true ->
                  exists done, psteps c g p (conf0 s p) (fst (poll c g s p), [], [], done) /\ ... *)
From Coq Require Import Lia Relations.
From MWF Require Import Base.Util Base.UtilLemmas Exec.ExecBase Exec.ExecGen Exec.ExecRun Exec.ExecGraph Exec.ExecInv Exec.ExecPoll.

#[local] Arguments bfs_subtree : simpl never.
#[local] Arguments submit_attempts : simpl never.
#[local] Arguments mark_failed_list : simpl never.
#[local] Arguments mark_cancelled_list : simpl never.
#[local] Arguments set_union : simpl never.

Definition report := (nat * option State)%type.
Definition conf := (st * list nat * list nat * list report)%type.

(** state at the head of a poll: scripted submission outcomes loaded, event log emptied *)
Definition poll_start (s : st) (p : pin) : st := set_evs (set_subs s (psubs p)) [].
Definition conf0 (s : st) (p : pin) : conf := (poll_start s p, [], [], []).

(** * Events of _execute_record *)
Definition kind_of (r : bool) : kind := if r then Restart else Main.

Lemma execute_record_evs c g x r s :
  let s' := execute_record_gen c g x r s in
  exists new, evs s' = new ++ evs s /\ (forall e, In e new -> sub_ev g x r e) /\
    (dry c = true -> forall e, In e new -> e = EGen x) /\
    (dry c = false -> 0 < attempts c -> exists res, In (ESubmit x (kind_of r) (scheduled (attr g x)) res) new) /\
    (dry c = false -> 0 < attempts c -> In x (failed s') -> ~ In x (failed s) ->
       In (ESubmit x (kind_of r) (scheduled (attr g x)) None) new).
Proof.
  cbv zeta. unfold execute_record_gen.
  set (s1 := if negb r then emit (EGen x) s else s).
  assert (E1 : evs s1 = (if negb r then [EGen x] else []) ++ evs s) by (subst s1; destruct (negb r); reflexivity).
  assert (F1 : failed s1 = failed s) by (subst s1; destruct (negb r); reflexivity).
  assert (N1 : forall e, In e (if negb r then [EGen x] else []) -> e = EGen x).
  { intros e He. destruct (negb r); [destruct He as [<-|[]]; reflexivity|destruct He]. }
  destruct (dry c).
  - exists (if negb r then [EGen x] else []). splits; auto; try discriminate.
    intros e He. left. auto.
  - destruct (submit_attempts g x r (attempts c) s1) as [ok s2] eqn:E.
    apply submit_attempts_spec in E. destruct E as [[SS _ _ _ _] _ _ (new & V1 & V2 & V3 & V4)].
    destruct SS as (_ & _ & _ & S4 & _).
    set (sf := if ok then _ else _).
    assert (Ef : evs sf = evs s2 /\ (ok = true -> failed sf = failed s2)).
    { subst sf. destruct ok.
      - destruct (negb (scheduled (attr g x))); split; reflexivity.
      - destruct (mfl_frame (bfs_subtree g x) (inprog_remove x s2)) as (_ & _ & _ & _ & _ & _ & M & _).
        split; [exact M|discriminate]. }
    destruct Ef as [Ef Ff].
    exists (new ++ (if negb r then [EGen x] else [])). splits; try discriminate.
    + rewrite Ef, V1, E1, app_assoc. reflexivity.
    + intros e He. apply in_app_iff in He. destruct He as [He|He]; auto. left. auto.
    + intros _ Ha. destruct (V3 Ha) as [res Hr]. exists res. apply in_app_iff. left. exact Hr.
    + intros _ Ha Hf Hnf. destruct (V3 Ha) as [res Hr]. destruct ok.
      * exfalso. apply Hnf. rewrite (Ff eq_refl), S4, F1 in Hf. exact Hf.
      * rewrite (V4 eq_refl _ _ _ Hr) in Hr. apply in_app_iff. left. exact Hr.
Qed.

(** where the node ends up *)
Lemma execute_record_where c g x r s :
  let s' := execute_record_gen c g x r s in
  In x (inprog s') \/ In x (completed s') \/ In x (failed s').
Proof.
  cbv zeta. unfold execute_record_gen.
  set (s1 := if negb r then emit (EGen x) s else s).
  destruct (dry c).
  - right. left. unfold completed_add, rec_set_status. sp. apply In_sadd. auto.
  - destruct (submit_attempts g x r (attempts c) s1) as [ok s2]. destruct ok.
    + destruct (negb (scheduled (attr g x))).
      * right. left. unfold inprog_remove, completed_add, rec_set_status, inprog_add. sp. apply In_sadd. auto.
      * left. unfold inprog_add. sp. apply In_sadd. auto.
    + right. right. apply mfl_failed. left. apply bfs_subtree_root.
Qed.

(** * Frame of the report dispatch: everything but the restart branch leaves
      the event log and the restart counters alone *)
Definition restart_branch (c : cfg) (g : graph) (t : st) (x : nat) (o : option State) : Prop :=
  o = Some TIMEDOUT /\ has_restart (attr g x) = true /\ canceled t = false /\
  ((rlimit (attr g x) =? 0) || (restarts (getrec t x) <? rlimit (attr g x))) = true.

Lemma hr_frame c g t cl ca x o t' cl' ca' : x < length (recs t) ->
  handle_report_gen c g (t, cl, ca) (x, o) = (t', cl', ca') ->
  (evs t' = evs t /\ (forall y, restarts (getrec t' y) = restarts (getrec t y)) /\
   (forall y, In y (failed t) -> In y (failed t')) /\ cancelled t' = cancelled t /\
   (forall y, In y (completed t) -> In y (completed t')) /\
   (forall y, In y (ready t') -> In y (ready t) \/ (y = x /\ o = Some HWFAILURE)) /\
   (forall y, y <> x -> In y (inprog t) -> In y (inprog t')) /\
   (forall y, In y cl -> y = x \/ In y cl') /\ (forall y, In y ca -> In y ca') /\
   (o = Some TIMEDOUT -> In x (failed t') \/ In x cl')) \/
  (restart_branch c g t x o /\ cl' = cl /\ ca' = ca /\
   t' = execute_record_gen c g x true (rec_inc_restarts x (rec_set_status x TIMEDOUT t))).
Proof.
  intros Hl E. unfold handle_report_gen in E.
  assert (Keep : forall v : State, (v = TIMEDOUT -> False) ->
    (evs t = evs t /\ (forall y, restarts (getrec t y) = restarts (getrec t y)) /\
     (forall y, In y (failed t) -> In y (failed t)) /\ cancelled t = cancelled t /\
     (forall y, In y (completed t) -> In y (completed t)) /\
     (forall y, In y (ready t) -> In y (ready t) \/ (y = x /\ Some v = Some HWFAILURE)) /\
     (forall y, y <> x -> In y (inprog t) -> In y (inprog t)) /\
     (forall y, In y cl -> y = x \/ In y cl) /\ (forall y, In y ca -> In y ca) /\
     (Some v = Some TIMEDOUT -> In x (failed t) \/ In x cl))).
  { intros v Hv. splits; auto. intros H. inversion H. tauto. }
  destruct o as [[]|]; cbn [oeqb state_eqb] in E;
    try (inversion E; subst t' cl' ca'; left; apply Keep; discriminate).
  - (* RUNNING *)
    inversion E; subst t' cl' ca'; clear E. left. splits; auto; try discriminate.
    intros y. apply restarts_set_status.
  - (* FINISHED *)
    inversion E; subst t' cl' ca'; clear E. left.
    splits; auto; try discriminate; unfold inprog_remove, completed_add; sp.
    + intros y. apply (restarts_set_status x y FINISHED t).
    + intros y. rewrite In_sadd. tauto.
    + intros y Hn. rewrite In_srem. tauto.
  - (* FAILED *)
    inversion E; subst t' cl' ca'; clear E. left.
    splits; auto; try discriminate; unfold inprog_remove; sp.
    + intros y. apply (restarts_set_status x y FAILED).
    + intros y Hn. unfold rec_set_status. sp. rewrite In_srem. tauto.
    + intros y Hy. right. apply In_set_union. tauto.
  - (* HWFAILURE *)
    inversion E; subst t' cl' ca'; clear E. left.
    splits; auto; try discriminate; unfold ready_push, inprog_remove; sp.
    + intros y. rewrite in_app_iff. cbn. intuition.
    + intros y Hn. rewrite In_srem. tauto.
  - (* TIMEDOUT *)
    destruct (has_restart (attr g x) && negb (canceled t)) eqn:HR.
    + apply andb_true_iff in HR. destruct HR as [HR1 HR2]. apply negb_true_iff in HR2.
      unfold mark_restart_gen in E.
      assert (Er : restarts (getrec (rec_set_status x TIMEDOUT t) x) = restarts (getrec t x)) by apply restarts_set_status.
      rewrite Er in E.
      destruct ((rlimit (attr g x) =? 0) || (restarts (getrec t x) <? rlimit (attr g x))) eqn:B.
      * inversion E; subst t' cl' ca'; clear E. right. unfold restart_branch. splits; auto.
      * inversion E; subst t' cl' ca'; clear E. left.
        splits; auto; unfold inprog_remove; sp.
        -- intros y. apply (restarts_set_status x y TIMEDOUT).
        -- intros y Hn. unfold rec_set_status. sp. rewrite In_srem. tauto.
        -- intros y Hy. right. apply In_set_union. tauto.
        -- intros _. right. apply In_set_union. left. apply bfs_subtree_root.
    + inversion E; subst t' cl' ca'; clear E. left.
      splits; auto; unfold failed_add, inprog_remove; sp.
      * intros y. apply (restarts_set_status x y TIMEDOUT).
      * intros y. rewrite In_sadd. tauto.
      * intros y Hn. unfold rec_set_status. sp. rewrite In_srem. tauto.
      * intros y Hy. destruct (Nat.eq_dec y x); auto. right. rewrite In_srem, In_set_union. tauto.
      * intros _. left. apply In_sadd. auto.
  - (* UNKNOWN *)
    inversion E; subst t' cl' ca'; clear E. left.
    splits; auto; try discriminate; unfold inprog_remove; sp.
    + intros y. apply (restarts_set_status x y UNKNOWN).
    + intros y Hn. unfold rec_set_status. sp. rewrite In_srem. tauto.
    + intros y Hy. right. apply In_set_union. tauto.
  - (* CANCELLED *)
    inversion E; subst t' cl' ca'; clear E. left.
    splits; auto; try discriminate; unfold inprog_remove; sp.
    + intros y. apply (restarts_set_status x y CANCELLED).
    + intros y Hn. unfold rec_set_status. sp. rewrite In_srem. tauto.
    + intros y Hy. apply In_set_union. tauto.
  - (* no report *)
    inversion E; subst t' cl' ca'; clear E. left. splits; auto; discriminate.
Qed.

(** no step has been launched yet in this poll *)
Definition no_main (t : st) : Prop := forall y sc res, ~ In (ESubmit y Main sc res) (evs t).

Lemma hr_no_main c g t cl ca x o t' cl' ca' : x < length (recs t) ->
  handle_report_gen c g (t, cl, ca) (x, o) = (t', cl', ca') -> no_main t -> no_main t'.
Proof.
  intros Hl E N. destruct (hr_frame c g t cl ca x o t' cl' ca' Hl E) as [(Ev & _)|(_ & _ & _ & Et)].
  - unfold no_main. rewrite Ev. exact N.
  - destruct (execute_record_evs c g x true (rec_inc_restarts x (rec_set_status x TIMEDOUT t))) as (new & V1 & V2 & _).
    rewrite <- Et in V1. intros y sc res H. rewrite V1 in H. apply in_app_iff in H. destruct H as [H|H].
    + destruct (V2 _ H) as [A|[r A]]; discriminate.
    + exact (N y sc res H).
Qed.

(** the cancel request of this poll, if any, has been processed *)
Definition creq (p : pin) (t : st) : Prop := cancel_req p = true -> canceled t = true.

Inductive pstep (c : cfg) (g : graph) (p : pin) : conf -> conf -> Prop :=
| ps_cancel t : cancel_req p = true -> Inv g t -> evs t = [] ->
    pstep c g p (t, [], [], []) (cancel_study_gen t, [], [], [])
| ps_check t : dry c = false -> Inv g t -> (forall e, In e (evs t) -> exists js, e = ECancel js) ->
    pstep c g p (t, [], [], []) (emit (ECheck (map (lastjob t) (inprog t))) t, [], [], [])
| ps_report t cl ca done x o t' cl' ca' :
    dry c = false -> qcode p = QOK -> In (x, o) (reports p) -> ~ In x (map fst done) -> incl done (reports p) ->
    Inv g t -> Pend g t cl ca -> In x (inprog t) -> creq p t -> no_main t ->
    handle_report_gen c g (t, cl, ca) (x, o) = (t', cl', ca') ->
    pstep c g p (t, cl, ca, done) (t', cl', ca', done ++ [(x, o)])
| ps_sweep_f t a cl ca done : Inv g t -> Pend g t (a :: cl) ca ->
    pstep c g p (t, a :: cl, ca, done) (rec_set_status a FAILED (failed_add a t), cl, ca, done)
| ps_sweep_c t a ca done : Inv g t -> Pend g t [] (a :: ca) ->
    pstep c g p (t, [], a :: ca, done) (rec_set_status a CANCELLED (cancelled_add a t), [], ca, done)
| ps_stage t x done : x < length g -> Inv g t ->
    pstep c g p (t, [], [], done) (stage_node_gen g t x, [], [], done)
| ps_launch t done : Inv g t -> creq p t ->
    pstep c g p (t, [], [], done) (launch_body_gen c g t, [], [], done).

Inductive psteps (c : cfg) (g : graph) (p : pin) : conf -> conf -> Prop :=
| pss_refl a : psteps c g p a a
| pss_step a b d : psteps c g p a b -> pstep c g p b d -> psteps c g p a d.

Lemma psteps_trans c g p a b d : psteps c g p a b -> psteps c g p b d -> psteps c g p a d.
Proof. intros A B. revert A. induction B as [|b d e B IH St]; intros A; auto. econstructor; [apply IH; exact A|exact St]. Qed.

Lemma psteps_one c g p a b : pstep c g p a b -> psteps c g p a b.
Proof. intros H. econstructor; [constructor|exact H]. Qed.

(** an invariant of the steps holds at the end of every path *)
Lemma psteps_ind_inv c g p (J : conf -> Prop) :
  (forall a b, pstep c g p a b -> J a -> J b) -> forall a b, psteps c g p a b -> J a -> J b.
Proof. intros H a b R. induction R; eauto. Qed.

Lemma hr_canceled c g t cl ca x o t' cl' ca' :
  handle_report_gen c g (t, cl, ca) (x, o) = (t', cl', ca') -> canceled t' = canceled t.
Proof.
  unfold handle_report_gen. destruct o as [[]|]; cbn [oeqb state_eqb]; intros E;
    try (inversion E; subst; reflexivity).
  destruct (has_restart (attr g x) && negb (canceled t)); [|inversion E; subst; reflexivity].
  unfold mark_restart_gen in E.
  destruct ((rlimit (attr g x) =? 0) || (restarts (getrec (rec_set_status x TIMEDOUT t) x) <? rlimit (attr g x)));
    inversion E; subst; [|reflexivity].
  rewrite (er_canceled _ _ _ _ (execute_record_sets c g x true _)). reflexivity.
Qed.

Lemma launch_body_canceled c g t : canceled (launch_body_gen c g t) = canceled t.
Proof.
  unfold launch_body_gen. destruct (ready t) as [|x rest]; auto.
  change (canceled (set_ready t rest)) with (canceled t). destruct (canceled t) eqn:E; [exact E|].
  rewrite (er_canceled _ _ _ _ (execute_record_sets c g x false _)). exact E.
Qed.

Section Reach.
Variables (c : cfg) (g : graph) (p : pin).
Hypothesis W : WF g.

Lemma reach_fold reps : forall done s cl ca,
  dry c = false -> qcode p = QOK ->
  Inv g s -> Pend g s cl ca -> NoDup (map fst (done ++ reps)) -> incl (done ++ reps) (reports p) ->
  (forall x o, In (x, o) reps -> In x (inprog s)) -> creq p s -> no_main s ->
  let '(s', cl', ca') := fold_left (handle_report_gen c g) reps (s, cl, ca) in
  psteps c g p (s, cl, ca, done) (s', cl', ca', done ++ reps) /\ Inv g s' /\ Pend g s' cl' ca' /\
  canceled s' = canceled s.
Proof.
  induction reps as [|[x o] reps IH]; intros done s cl ca D Q I P Hn Hi Hin Cr Nm; cbn [fold_left].
  - rewrite app_nil_r. splits; auto. constructor.
  - assert (Hx : In x (inprog s)) by (eapply Hin; left; reflexivity).
    pose proof (Inv_handle_report c g s cl ca x o W I P Hx D) as H.
    destruct (handle_report_gen c g (s, cl, ca) (x, o)) as [[s1 cl1] ca1] eqn:E.
    destruct H as (I1 & P1 & A1 & B1).
    assert (Hnx : ~ In x (map fst done) /\ ~ In x (map fst reps)).
    { rewrite map_app in Hn. cbn [map fst] in Hn. apply NoDup_remove_2 in Hn. rewrite in_app_iff in Hn. tauto. }
    assert (St : pstep c g p (s, cl, ca, done) (s1, cl1, ca1, done ++ [(x, o)])).
    { eapply ps_report; eauto.
      - apply Hi. apply in_app_iff. right. left. reflexivity.
      - tauto.
      - intros z Hz. apply Hi. apply in_app_iff. left. exact Hz. }
    specialize (IH (done ++ [(x, o)]) s1 cl1 ca1 D Q I1 P1).
    rewrite <- app_assoc in IH. cbn [app] in IH. specialize (IH Hn Hi).
    assert (Hin' : forall y o', In (y, o') reps -> In y (inprog s1)).
    { intros y o' Hy. apply B1.
      - intros ->. apply (proj2 Hnx). apply in_map_iff. exists (x, o'). auto.
      - eapply Hin. right. exact Hy. }
    pose proof (hr_canceled _ _ _ _ _ _ _ _ _ _ E) as Ec.
    assert (Cr1 : creq p s1) by (unfold creq; rewrite Ec; exact Cr).
    assert (Nm1 : no_main s1).
    { eapply hr_no_main; eauto. rewrite (i_len_recs g s I). apply (i_bound g s I). auto. }
    specialize (IH Hin' Cr1 Nm1).
    destruct (fold_left (handle_report_gen c g) reps (s1, cl1, ca1)) as [[s' cl'] ca'].
    destruct IH as (R & I' & P' & Ec'). splits; auto; [|congruence].
    eapply psteps_trans; [apply psteps_one; exact St|exact R].
Qed.

Lemma Pend_sweep_f t a cl ca : Pend g t (a :: cl) ca -> Pend g (rec_set_status a FAILED (failed_add a t)) cl ca.
Proof. intros P y Hy. apply (P y). cbn. tauto. Qed.
Lemma Pend_sweep_c t a ca : Pend g t [] (a :: ca) -> Pend g (rec_set_status a CANCELLED (cancelled_add a t)) [] ca.
Proof. intros P y Hy. apply (P y). cbn. tauto. Qed.

Lemma reach_sweep_f cl : forall t ca done, Inv g t -> Pend g t cl ca ->
  psteps c g p (t, cl, ca, done) (mark_failed_list cl t, [], ca, done) /\
  Inv g (mark_failed_list cl t) /\ Pend g (mark_failed_list cl t) [] ca.
Proof.
  induction cl as [|a cl IH]; intros t ca done I P.
  - rewrite mfl_nil. splits; auto. constructor.
  - rewrite mfl_cons.
    assert (I1 : Inv g (rec_set_status a FAILED (failed_add a t))).
    { destruct (P a) as (A & B & C & D); [left; left; reflexivity|]. apply Inv_failed_mark; auto. discriminate. }
    destruct (IH _ ca done I1 (Pend_sweep_f _ _ _ _ P)) as (R & I2 & P2). splits; auto.
    eapply psteps_trans; [apply psteps_one; apply ps_sweep_f; auto|exact R].
Qed.

Lemma reach_sweep_c ca : forall t done, Inv g t -> Pend g t [] ca ->
  psteps c g p (t, [], ca, done) (mark_cancelled_list ca t, [], [], done) /\
  Inv g (mark_cancelled_list ca t).
Proof.
  induction ca as [|a ca IH]; intros t done I P.
  - rewrite mcl_nil. splits; auto. constructor.
  - rewrite mcl_cons.
    assert (I1 : Inv g (rec_set_status a CANCELLED (cancelled_add a t))).
    { destruct (P a) as (A & B & C & D); [right; left; reflexivity|]. apply Inv_cancelled_mark; auto. discriminate. }
    destruct (IH _ done I1 (Pend_sweep_c _ _ _ P)) as (R & I2). splits; auto.
    eapply psteps_trans; [apply psteps_one; apply ps_sweep_c; auto|exact R].
Qed.

Lemma reach_stage l : forall t done, Inv g t -> (forall x, In x l -> x < length g) ->
  psteps c g p (t, [], [], done) (fold_left (stage_node_gen g) l t, [], [], done) /\
  Inv g (fold_left (stage_node_gen g) l t).
Proof.
  induction l as [|a l IH]; intros t done I H; cbn [fold_left].
  - split; auto. constructor.
  - assert (Ha : a < length g) by (apply H; left; reflexivity).
    assert (H' : forall x, In x l -> x < length g) by (intros x Hx; apply H; right; exact Hx).
    destruct (IH (stage_node_gen g t a) done (Inv_stage_node g t a I Ha) H') as [R I'].
    split; auto. refine (psteps_trans _ _ _ _ _ _ (psteps_one _ _ _ _ _ (ps_stage c g p t a done Ha I)) R).
Qed.

Lemma reach_launch n : forall t done, Inv g t -> creq p t ->
  psteps c g p (t, [], [], done) (Nat.iter n (launch_body_gen c g) t, [], [], done) /\
  Inv g (Nat.iter n (launch_body_gen c g) t) /\ canceled (Nat.iter n (launch_body_gen c g) t) = canceled t.
Proof.
  induction n as [|n IH]; intros t done I Cr; cbn [Nat.iter nat_rect].
  - splits; auto. constructor.
  - destruct (IH t done I Cr) as (R & I' & Ec). splits; [|apply Inv_launch_body; auto|].
    + econstructor; [exact R|]. apply ps_launch; [exact I'|]. unfold creq. unfold Nat.iter in Ec. rewrite Ec. exact Cr.
    + rewrite launch_body_canceled. exact Ec.
Qed.

(** reports dispatched by a poll *)
Definition delivered : list report :=
  if negb (dry c) && qcode_eqb (qcode p) QOK then reports p else [].

(** the state after the optional cancel_study and the status query of the poll *)
Definition poll_mid (s : st) : st :=
  let s0 := poll_start s p in
  let s1 := if cancel_req p then cancel_study_gen s0 else s0 in
  if negb (dry c) then emit (ECheck (map (lastjob s1) (inprog s1))) s1 else s1.

Theorem poll_reach_mid s : Inv g s -> valid_pin s p = true ->
  psteps c g p (conf0 s p) (poll_mid s, [], [], []) /\
  psteps c g p (poll_mid s, [], [], [])
               (fst (poll c g s p), [], [], if qcode_eqb (qcode p) QERROR && negb (dry c) then [] else delivered).
Proof.
  intros I V. apply valid_pin_spec in V. destruct V as [Vn Vi]. unfold poll_mid.
  assert (Hseq : forall x, In x (seq 0 (length g)) -> x < length g) by (intros x Hx; apply In_seq_lt; exact Hx).
  unfold poll, conf0. fold (poll_start s p).
  set (s0 := poll_start s p).
  assert (I0 : Inv g s0) by (apply Inv_set_evs, Inv_set_subs; auto).
  set (s1 := if cancel_req p then cancel_study_gen s0 else s0).
  assert (R1 : psteps c g p (s0, [], [], []) (s1, [], [], []) /\ Inv g s1).
  { subst s1. destruct (cancel_req p) eqn:Cq; [|split; auto; constructor].
    split; [apply psteps_one, ps_cancel; auto|].
    unfold cancel_study_gen. apply Inv_set_canceled, Inv_emit. auto. }
  destruct R1 as [R1 I1].
  assert (E1 : inprog s1 = inprog s) by (subst s1; destruct (cancel_req p); reflexivity).
  unfold execute_ready_steps_gen, delivered.
  set (s2 := if negb (dry c) then emit (ECheck (map (lastjob s1) (inprog s1))) s1 else s1).
  assert (R2 : psteps c g p (s0, [], [], []) (s2, [], [], []) /\ Inv g s2).
  { subst s2. destruct (dry c) eqn:D; cbn [negb]; [split; auto|].
    split; [|apply Inv_emit; auto]. econstructor; [exact R1|]. apply ps_check; auto.
    intros e He. subst s1 s0. destruct (cancel_req p); cbn in He; [destruct He as [<-|[]]; eauto|destruct He]. }
  destruct R2 as [R2 I2].
  assert (E2 : inprog s2 = inprog s) by (subst s2; destruct (negb (dry c)); exact E1).
  assert (Cr2 : creq p s2).
  { intros Cq. subst s2 s1. rewrite Cq. destruct (negb (dry c)); reflexivity. }
  assert (CrS : forall s3, creq p s3 -> creq p (fold_left (stage_node_gen g) (seq 0 (length g)) s3)).
  { intros s3 Cr Cq. destruct (stage_fold_frame g (seq 0 (length g)) s3) as (_ & _ & _ & _ & _ & F6 & _).
    rewrite F6. auto. }
  destruct (dry c) eqn:D; cbn [negb andb].
  - (* dry run: no query, no reports *)
    rewrite andb_false_r. cbn [qcode_eqb fst].
    unfold dispatch_gen. cbn [fold_left]. rewrite mfl_nil, mcl_nil.
    destruct (reach_stage (seq 0 (length g)) s2 [] I2 Hseq) as [R3 I3].
    set (s3 := fold_left (stage_node_gen g) (seq 0 (length g)) s2) in *.
    destruct (reach_launch (available_gen c s3) s3 [] I3 (CrS s2 Cr2)) as [R4 I4].
    split; [exact R2|]. eapply psteps_trans; [exact R3|exact R4].
  - rewrite andb_true_r. destruct (qcode p) eqn:Q; cbn [qcode_eqb fst].
    + (* OK *)
      unfold dispatch_gen.
      assert (P0 : Pend g s2 [] []) by (intros y [[]|[]]).
      pose proof (reach_fold (reports p) [] s2 [] [] D Q I2 P0 Vn (incl_refl _)) as F.
      assert (Nm2 : no_main s2).
      { intros y sc res H. subst s2 s1 s0. cbn [negb] in H.
        destruct (cancel_req p); cbn in H; intuition discriminate. }
      rewrite E2 in F. specialize (F Vi Cr2 Nm2). cbn [app] in F.
      destruct (fold_left (handle_report_gen c g) (reports p) (s2, [], [])) as [[s' cl'] ca'].
      destruct F as (RF & IF & PF & EcF).
      destruct (reach_sweep_f cl' s' ca' (reports p) IF PF) as (RS & IS & PS).
      destruct (reach_sweep_c ca' (mark_failed_list cl' s') (reports p) IS PS) as (RC & IC).
      set (s3 := mark_cancelled_list ca' (mark_failed_list cl' s')) in *.
      destruct (reach_stage (seq 0 (length g)) s3 (reports p) IC Hseq) as [R3 I3].
      set (s4 := fold_left (stage_node_gen g) (seq 0 (length g)) s3) in *.
      assert (Cr3 : creq p s3).
      { intros Cq. subst s3. destruct (mfl_frame cl' s') as (_ & _ & _ & _ & _ & M6 & _).
        destruct (mcl_frame ca' (mark_failed_list cl' s')) as (_ & _ & _ & _ & _ & N6 & _).
        rewrite N6, M6, EcF. auto. }
      destruct (reach_launch (available_gen c s4) s4 (reports p) I3 (CrS s3 Cr3)) as [R4 I4].
      split; [exact R2|]. eapply psteps_trans; [exact RF|]. eapply psteps_trans; [exact RS|].
      eapply psteps_trans; [exact RC|]. eapply psteps_trans; [exact R3|exact R4].
    + (* NOJOBS *)
      destruct (reach_stage (seq 0 (length g)) s2 [] I2 Hseq) as [R3 I3].
      set (s3 := fold_left (stage_node_gen g) (seq 0 (length g)) s2) in *.
      destruct (reach_launch (available_gen c s3) s3 [] I3 (CrS s2 Cr2)) as [R4 I4].
      split; [exact R2|]. eapply psteps_trans; [exact R3|exact R4].
    + (* ERROR *)
      split; [exact R2|constructor].
Qed.

Theorem poll_reach s : Inv g s -> valid_pin s p = true ->
  psteps c g p (conf0 s p) (fst (poll c g s p), [], [], 
                            if qcode_eqb (qcode p) QERROR && negb (dry c) then [] else delivered).
Proof. intros I V. destruct (poll_reach_mid s I V) as [A B]. eapply psteps_trans; eauto. Qed.
End Reach.

(** Coupling between the state invariant (ExecInv.v) and the observable-trace
    ledger (ExecTrace.v): the model's own trace keeps the monitor silent. *)
From Coq Require Import Lia Relations.
From MWF Require Import Base.Util Base.UtilLemmas Exec.ExecBase Exec.ExecGen Exec.ExecRun Exec.ExecTrace Exec.ExecGraph Exec.ExecInv.

(** * Coupling between the state and the ledger.
    [P x]: a terminal report for [x] has been delivered to the ledger but not yet
    processed by the state; [Q x]: likewise a FINISHED report. *)
Record J (d : bool) (P Q : nat -> Prop) (s : st) (L : base) : Prop := {
  j_live : forall x j, In (x, j) (live L) <-> In x (inprog s) /\ j = lastjob s x /\ ~ P x;
  j_nd : NoDup (map fst (live L));
  j_succ1 : d = false -> forall x, In x (completed s) -> In x (succ L);
  j_succ2 : forall x, In x (succ L) -> In x (completed s) \/ Q x;
  j_succ3 : forall x, Q x -> In x (succ L);
  j_cseen : cseen L = canceled s;
  j_dry : d = true -> succ L = [] }.

Definition tpend (rs : list (nat * option State)) (x : nat) : Prop :=
  exists v, In (x, Some v) rs /\ terminal v = true.
Definition pfin (rs : list (nat * option State)) (x : nat) : Prop := In (x, Some FINISHED) rs.
Definition none (_ : nat) : Prop := False.

Lemma J_ext d (P Q P' Q' : nat -> Prop) s L :
  (forall x, P x <-> P' x) -> (forall x, Q x <-> Q' x) -> J d P Q s L -> J d P' Q' s L.
Proof.
  intros HP HQ [A B C D E F G]. constructor; auto.
  - intros x j. rewrite A, HP. tauto.
  - intros x Hx. destruct (D x Hx); auto. right. apply HQ. assumption.
  - intros x Hx. apply E, HQ, Hx.
Qed.

(** the coupling only reads the in-progress set, the latest job of its members,
    the completed set and the cancel flag of the state, and the three core
    fields of the ledger *)
Definition core_eq (L L' : base) : Prop := live L' = live L /\ succ L' = succ L /\ cseen L' = cseen L.
Lemma core_eq_refl L : core_eq L L. Proof. repeat split. Qed.
Lemma core_eq_trans A B C : core_eq A B -> core_eq B C -> core_eq A C.
Proof. unfold core_eq. intuition congruence. Qed.
Lemma core_eq_sym A B : core_eq A B -> core_eq B A.
Proof. unfold core_eq. intuition congruence. Qed.

Lemma J_frame d P Q s s' L :
  inprog s' = inprog s -> completed s' = completed s -> canceled s' = canceled s ->
  (forall y, In y (inprog s) -> lastjob s' y = lastjob s y) -> J d P Q s L -> J d P Q s' L.
Proof.
  intros E1 E2 E3 E4 [A B C D E F G]. constructor; rewrite ?E1, ?E2, ?E3; auto.
  intros x j. rewrite A. split; intros (H1 & H2 & H3); splits; auto; rewrite H2; [symmetry|]; auto.
Qed.

Lemma J_core d P Q s L L' : core_eq L L' -> J d P Q s L -> J d P Q s L'.
Proof. intros (E1 & E2 & E3) [A B C D E F G]. constructor; rewrite ?E1, ?E2, ?E3; auto. Qed.

(** * Per-event conditions that keep the verdict codes 1, 3, 4, 40, 41, 7, 71 silent *)
Definition evA (c : cfg) (g : graph) (L : base) (e : event) : Prop :=
  match e with
  | ECancel js => same_jobs js (live L) = true
  | ECheck js => same_jobs js (live L) = true
  | EGen _ => True
  | ESubmit x k sched res =>
      subset (parents (attr g x)) (succ L) = true /\ cseen L = false /\
      match res with
      | None => True
      | Some _ => live_of x L = false /\ mem x (succ L) = false /\
                  (sched = false \/ throttle c = 0 \/ S (length (live L)) <= throttle c)
      end
  end.

Fixpoint evsA (c : cfg) (g : graph) (p : pin) (L : base) (es : list event) : Prop :=
  match es with
  | [] => True
  | e :: es' => evA c g L e /\ evsA c g p (step_base c g p L e) es'
  end.

Lemma evsA_app c g p es1 : forall L es2,
  evsA c g p L (es1 ++ es2) <-> evsA c g p L es1 /\ evsA c g p (fold_left (step_base c g p) es1 L) es2.
Proof.
  induction es1 as [|e es1 IH]; intros L es2; cbn; [tauto|]. rewrite IH. tauto.
Qed.

Definition famA : list nat := [1; 3; 4; 40; 41; 7; 71].

Lemma ck_In b k j : In j (ck b k) <-> b = false /\ j = k.
Proof. unfold ck. destruct b; cbn; intuition congruence. Qed.

Lemma evA_flags c g p L e k : evA c g L e -> In k famA -> ~ In k (flags_ev c g p L e).
Proof.
  intros H Hk Hin. destruct e as [js|js|x|x kd sched res]; cbn [flags_ev evA] in H, Hin.
  - rewrite in_app_iff, !ck_In in Hin. destruct Hin as [[A ->]|[A ->]]; [congruence|].
    cbn in Hk. intuition discriminate.
  - rewrite in_app_iff, !ck_In in Hin. destruct Hin as [[A ->]|[A ->]]; [|congruence].
    cbn in Hk. intuition discriminate.
  - rewrite ck_In in Hin. destruct Hin as [_ ->]. cbn in Hk. intuition discriminate.
  - destruct H as [H1 [H2 H3]].
    repeat (rewrite in_app_iff in Hin; destruct Hin as [Hin|Hin]);
      try (rewrite ck_In in Hin; destruct Hin as [A ->]; cbn in Hk;
           first [ congruence | (rewrite H2 in A; discriminate) | (intuition discriminate) ]).
    + destruct kd.
      * rewrite ck_In in Hin. destruct Hin as [_ ->]. cbn in Hk. intuition discriminate.
      * rewrite in_app_iff, !ck_In in Hin. destruct Hin as [[_ ->]|[_ ->]]; cbn in Hk; intuition discriminate.
    + destruct res as [j|]; [|destruct Hin].
      destruct H3 as [H3 [H4 H5]].
      rewrite !in_app_iff, !ck_In in Hin. destruct Hin as [[A ->]|[[A ->]|[A ->]]].
      * rewrite H3 in A. discriminate.
      * rewrite H4 in A. discriminate.
      * rewrite !orb_false_iff in A. destruct A as [[A1 A2] A3].
        apply negb_false_iff in A1. apply Nat.eqb_neq in A2. apply Nat.leb_gt in A3.
        destruct H5 as [H5|[H5|H5]]; [congruence | congruence | lia].
Qed.

(** * The ledger as a function of the events emitted so far in the current poll *)
Section Poll.
Variables (c : cfg) (g : graph) (p : pin) (L0 : base).

Definition led (s : st) : base := fold_left (step_base c g p) (rev (evs s)) L0.
Definition clean (s : st) : Prop := evsA c g p L0 (rev (evs s)).

Lemma led_emit e s : led (emit e s) = step_base c g p (led s) e.
Proof. unfold led, emit. cbn. rewrite fold_left_app. reflexivity. Qed.

Lemma clean_emit e s : clean (emit e s) <-> clean s /\ evA c g (led s) e.
Proof. unfold clean, emit, led. cbn. rewrite evsA_app. cbn. tauto. Qed.

End Poll.


(** * The submission retry loop *)
Section Poll2.
Variables (c : cfg) (g : graph) (p : pin) (L0 : base).
Notation ledS := (led c g p L0).
Notation cleanS := (clean c g p L0).

Lemma led_frame s s' : evs s' = evs s -> ledS s' = ledS s.
Proof. unfold led. intros ->. reflexivity. Qed.
Lemma clean_frame s s' : evs s' = evs s -> cleanS s' <-> cleanS s.
Proof. unfold clean. intros ->. tauto. Qed.

Definition submit_pre (x : nat) (s : st) : Prop :=
  subset (parents (attr g x)) (succ (ledS s)) = true /\ cseen (ledS s) = false /\
  live_of x (ledS s) = false /\ mem x (succ (ledS s)) = false /\
  (scheduled (attr g x) = false \/ throttle c = 0 \/ S (length (live (ledS s))) <= throttle c).

Lemma next_sub_frame s : let '(b, s') := next_sub s in
  same_sets s s' /\ recs s' = recs s /\ evs s' = evs s /\ next_job s' = next_job s.
Proof. unfold next_sub. destruct (subs s); cbn; repeat split. Qed.

Definition pre_submit (x : nat) (restart : bool) (s : st) : st :=
  let s := if restart then emit (EGen x) s else rec_set_status x PENDING s in
  if scheduled (attr g x) then s else rec_set_status x RUNNING s.

Lemma pre_submit_frame x restart s : x < length (recs s) ->
  same_sets s (pre_submit x restart s) /\ length (recs (pre_submit x restart s)) = length (recs s) /\
  (forall y, status (getrec s y) <> INITIALIZED -> status (getrec (pre_submit x restart s) y) <> INITIALIZED) /\
  (forall y, lastjob (pre_submit x restart s) y = lastjob s y) /\
  ledS (pre_submit x restart s) = ledS s /\ (cleanS (pre_submit x restart s) <-> cleanS s) /\
  (restart = false -> status (getrec (pre_submit x restart s) x) <> INITIALIZED).
Proof.
  intros Hx. unfold pre_submit.
  assert (NI : forall v w y s0, v <> INITIALIZED -> status (getrec s0 y) <> INITIALIZED ->
                status (getrec (rec_set_status w v s0) y) <> INITIALIZED).
  { intros v w y s0 Hv Hy. destruct (status_set_status w y v s0) as [->| ->]; auto. }
  destruct restart, (scheduled (attr g x)).
  - split; [repeat split|]. split; [reflexivity|]. split; [auto|]. split; [reflexivity|].
    split; [rewrite led_emit; reflexivity|]. split; [rewrite clean_emit; cbn; tauto|]. discriminate.
  - split; [repeat split|]. split; [rewrite len_recs_set_status; reflexivity|]. split.
    { intros y Hy. apply NI; [discriminate|exact Hy]. }
    split; [intros y; rewrite lastjob_set_status; reflexivity|].
    split; [rewrite (led_frame (emit (EGen x) s)) by reflexivity; rewrite led_emit; reflexivity|].
    split; [|discriminate].
    rewrite (clean_frame (emit (EGen x) s)) by reflexivity. rewrite clean_emit. cbn. tauto.
  - split; [repeat split|]. split; [apply len_recs_set_status|]. split.
    { intros y Hy. apply NI; [discriminate|exact Hy]. }
    split; [intros y; apply lastjob_set_status|].
    split; [apply led_frame; reflexivity|]. split; [apply clean_frame; reflexivity|].
    intros _. rewrite getrec_set_status_eq by auto. cbn. discriminate.
  - split; [repeat split|]. split; [rewrite !len_recs_set_status; reflexivity|]. split.
    { intros y Hy. apply NI; [discriminate|]. apply NI; [discriminate|exact Hy]. }
    split; [intros y; rewrite !lastjob_set_status; reflexivity|].
    split; [apply led_frame; reflexivity|]. split; [apply clean_frame; reflexivity|].
    intros _. rewrite getrec_set_status_eq by (rewrite len_recs_set_status; auto). cbn. discriminate.
Qed.

Lemma submit_attempts_spec x restart : forall n s,
  x < length (recs s) -> cleanS s -> submit_pre x s ->
  let '(ok, s') := submit_attempts g x restart n s in
  same_sets s s' /\ length (recs s') = length (recs s) /\ cleanS s' /\
  (forall y, status (getrec s y) <> INITIALIZED -> status (getrec s' y) <> INITIALIZED) /\
  (forall y, y <> x -> lastjob s' y = lastjob s y) /\
  (ok = false -> lastjob s' x = lastjob s x /\ core_eq (ledS s) (ledS s')) /\
  (ok = true ->
     (restart = false -> status (getrec s' x) <> INITIALIZED) /\
     cseen (ledS s') = cseen (ledS s) /\
     (if scheduled (attr g x)
      then live (ledS s') = live (ledS s) ++ [(x, lastjob s' x)] /\ succ (ledS s') = succ (ledS s)
      else live (ledS s') = live (ledS s) /\ succ (ledS s') = sadd x (succ (ledS s)))).
Proof.
  induction n as [|n IH]; intros s Hx Hc Hp; cbn [submit_attempts].
  - split; [apply same_sets_refl|]. split; [reflexivity|]. split; [exact Hc|]. split; [auto|].
    split; [auto|]. split; [|discriminate]. intros _. split; [reflexivity|apply core_eq_refl].
  - change (if scheduled (attr g x)
            then if restart then emit (EGen x) s else rec_set_status x PENDING s
            else rec_set_status x RUNNING (if restart then emit (EGen x) s else rec_set_status x PENDING s))
      with (pre_submit x restart s).
    destruct (pre_submit_frame x restart s Hx) as (A1 & A2 & A3 & A4 & A5 & A6 & A7).
    set (s2 := pre_submit x restart s) in *. clearbody s2.
    pose proof (next_sub_frame s2) as NS. destruct (next_sub s2) as [b s3].
    destruct NS as (B1 & B2 & B3 & B4).
    assert (L3 : ledS s3 = ledS s) by (rewrite <- A5; apply led_frame; exact B3).
    assert (C3 : cleanS s3) by (apply (clean_frame s2 s3 B3); tauto).
    assert (LJ3 : forall y, lastjob s3 y = lastjob s y).
    { intros y. rewrite <- A4. unfold lastjob, getrec. rewrite B2. reflexivity. }
    assert (ST3 : forall y, status (getrec s3 y) = status (getrec s2 y)).
    { intros y. unfold getrec. rewrite B2. reflexivity. }
    destruct Hp as (P1 & P2 & P3 & P4 & P5).
    destruct b.
    + (* successful submission *)
      set (j := next_job s3).
      set (s4 := rec_push_job x j (set_next_job s3 (S j))).
      set (e := ESubmit x (if restart then Restart else Main) (scheduled (attr g x)) (Some j)).
      assert (LJx : lastjob (emit e s4) x = j).
      { change (lastjob (emit e s4) x) with (lastjob s4 x). subst s4.
        apply lastjob_push_job_eq. sp. rewrite B2. lia. }
      assert (E : ledS s4 = ledS s) by (rewrite <- L3; apply led_frame; reflexivity).
      split. { eapply same_sets_trans; [exact A1|]. eapply same_sets_trans; [exact B1|]. repeat split. }
      split. { change (recs (emit e s4)) with (recs s4). subst s4. unfold rec_push_job. sp. rewrite length_upd, B2. exact A2. }
      split. { rewrite clean_emit. split.
        - apply (clean_frame s3); [reflexivity | exact C3].
        - rewrite E. cbn [evA]. repeat split; auto. }
      split. { intros y Hy. change (getrec (emit e s4) y) with (getrec s4 y). subst s4.
        rewrite status_push_job. change (getrec (set_next_job s3 (S j)) y) with (getrec s3 y).
        rewrite ST3. auto. }
      split. { intros y Hy. change (lastjob (emit e s4) y) with (lastjob s4 y). subst s4.
        rewrite lastjob_push_job_neq by auto. apply LJ3. }
      split; [discriminate|]. intros _.
      split. { intros Hr. change (getrec (emit e s4) x) with (getrec s4 x). subst s4.
        rewrite status_push_job. change (getrec (set_next_job s3 (S j)) x) with (getrec s3 x).
        rewrite ST3. auto. }
      rewrite led_emit, E, LJx. subst e. cbn [step_base].
      destruct (scheduled (attr g x)); repeat split.
    + (* failed attempt: recurse *)
      set (e := ESubmit x (if restart then Restart else Main) (scheduled (attr g x)) None).
      assert (L4 : core_eq (ledS s) (ledS (emit e s3))).
      { rewrite led_emit, L3. subst e. cbn [step_base]. repeat split. }
      assert (C4 : cleanS (emit e s3)).
      { rewrite clean_emit. split; [exact C3|]. rewrite L3. subst e. cbn [evA]. auto. }
      pose proof L4 as (D1 & D2 & D3).
      specialize (IH (emit e s3)).
      assert (Hx4 : x < length (recs (emit e s3))) by (sp; rewrite B2; lia).
      assert (Hp4 : submit_pre x (emit e s3)).
      { unfold submit_pre, live_of. rewrite D1, D2, D3. repeat split; auto. }
      specialize (IH Hx4 C4 Hp4).
      destruct (submit_attempts g x restart n (emit e s3)) as [ok s'].
      destruct IH as (E1 & E2 & E3 & E4 & E5 & E6 & E7).
      split. { eapply same_sets_trans; [exact A1|]. eapply same_sets_trans; [exact B1|]. exact E1. }
      split. { rewrite E2. sp. rewrite B2. exact A2. }
      split; [exact E3|].
      split. { intros y Hy. apply E4. change (getrec (emit e s3) y) with (getrec s3 y). rewrite ST3. auto. }
      split. { intros y Hy. rewrite E5 by auto. change (lastjob (emit e s3) y) with (lastjob s3 y). apply LJ3. }
      split.
      { intros H. destruct (E6 H) as [F1 F2]. split.
        - rewrite F1. change (lastjob (emit e s3) x) with (lastjob s3 x). apply LJ3.
        - eapply core_eq_trans; [exact L4|exact F2]. }
      intros H. destruct (E7 H) as (F1 & F2 & F3). split; [exact F1|]. split; [rewrite F2; exact D3|].
      rewrite D1, D2 in F3. exact F3.
Qed.


End Poll2.

(** * Frame facts for the two sweep loops *)
Definition sweep_frame (s s' : st) : Prop :=
  completed s' = completed s /\ inprog s' = inprog s /\ ready s' = ready s /\ deps s' = deps s /\
  canceled s' = canceled s /\ evs s' = evs s /\ length (recs s') = length (recs s) /\
  (forall y, lastjob s' y = lastjob s y).

Lemma sweep_frame_refl s : sweep_frame s s.
Proof. repeat split. Qed.
Lemma sweep_frame_trans a b d : sweep_frame a b -> sweep_frame b d -> sweep_frame a d.
Proof.
  intros (A1 & A2 & A3 & A4 & A5 & A6 & A7 & A8) (B1 & B2 & B3 & B4 & B5 & B6 & B7 & B8).
  repeat split; try congruence. all: rewrite B8; apply A8.
Qed.

Lemma mark_failed_list_frame l : forall s, sweep_frame s (mark_failed_list l s).
Proof.
  unfold mark_failed_list. induction l as [|a l IH]; intros s; cbn [fold_left]; [apply sweep_frame_refl|].
  eapply sweep_frame_trans; [|apply IH].
  repeat split; first [intros y; rewrite lastjob_set_status; reflexivity | rewrite len_recs_set_status; reflexivity].
Qed.

Lemma mark_cancelled_list_frame l : forall s, sweep_frame s (mark_cancelled_list l s).
Proof.
  unfold mark_cancelled_list. induction l as [|a l IH]; intros s; cbn [fold_left]; [apply sweep_frame_refl|].
  eapply sweep_frame_trans; [|apply IH].
  repeat split; first [intros y; rewrite lastjob_set_status; reflexivity | rewrite len_recs_set_status; reflexivity].
Qed.

Lemma mark_failed_list_cancelled l : forall s, cancelled (mark_failed_list l s) = cancelled s.
Proof. unfold mark_failed_list. induction l as [|a l IH]; intros s; cbn [fold_left]; auto. rewrite IH. reflexivity. Qed.
Lemma mark_cancelled_list_failed l : forall s, failed (mark_cancelled_list l s) = failed s.
Proof. unfold mark_cancelled_list. induction l as [|a l IH]; intros s; cbn [fold_left]; auto. rewrite IH. reflexivity. Qed.

Arguments mark_failed_list : simpl never.
Arguments mark_cancelled_list : simpl never.
Arguments bfs_subtree : simpl never.
Arguments submit_attempts : simpl never.

(** * Tracked nodes and swept sub-trees *)
Definition tracked (s : st) (y : nat) : Prop := In y (completed s) \/ In y (inprog s) \/ In y (ready s).
Definition out (g : graph) (s : st) (y : nat) : Prop :=
  y < length g /\ ~ In y (completed s) /\ ~ In y (inprog s) /\ ~ In y (ready s).

Lemma subtree_out g s x y : WF g -> Inv g s -> x < length g -> ~ In x (completed s) ->
  In y (bfs_subtree g x) -> y <> x -> out g s y.
Proof.
  intros W I Hx Hc Hy Hn.
  assert (R : reach g x y) by (apply bfs_subtree_sound; auto).
  assert (T : ~ tracked s y).
  { intros T. apply Hc. eapply anc_completed; eauto. }
  unfold tracked in T. split; [eapply reach_lt; eauto|]. tauto.
Qed.

Lemma srem_notin x l : ~ In x l -> srem x l = l.
Proof.
  unfold srem. induction l as [|a l IH]; intros H; cbn; auto.
  destruct (Nat.eqb_spec x a) as [->|Hn]; [exfalso; apply H; left; reflexivity|].
  cbn. f_equal. apply IH. intros Hi. apply H. right. exact Hi.
Qed.

Lemma length_sadd_srem x l : NoDup l -> length (sadd x l) = S (length (srem x l)).
Proof.
  intros N. destruct (in_dec Nat.eq_dec x l) as [Hi|Hi].
  - unfold sadd. apply mem_In in Hi as Hm. rewrite Hm. symmetry. apply length_srem_in; auto.
  - rewrite length_sadd_notin by auto. rewrite srem_notin by auto. reflexivity.
Qed.

Lemma live_of_false x L : live_of x L = false <-> ~ In x (map fst (live L)).
Proof.
  unfold live_of. split.
  - intros H Hi. apply in_map_iff in Hi. destruct Hi as [[a b] [E Hi]]. cbn in E. subst a.
    assert (existsb (fun p => fst p =? x) (live L) = true); [|congruence].
    apply existsb_exists. exists (x, b). split; auto. cbn. apply Nat.eqb_refl.
  - intros H. destruct (existsb (fun p => fst p =? x) (live L)) eqn:E; auto.
    apply existsb_exists in E. destruct E as [[a b] [Hi E]]. cbn in E. apply Nat.eqb_eq in E. subst a.
    exfalso. apply H. apply in_map_iff. exists (x, b). auto.
Qed.

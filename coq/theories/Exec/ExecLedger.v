(** Coupling between the state invariant (ExecInv.v) and the observable-trace
    ledger (ExecTrace.v): the model's own trace keeps the monitor silent. *)
From Coq Require Import Lia Relations.
From MWF Require Import Base.Util Base.UtilLemmas Exec.ExecBase Exec.ExecGen Exec.ExecRun Exec.ExecTrace Exec.ExecGraph Exec.ExecInv.

(** * Coupling between the state and the ledger.
    [P x]: a terminal report for [x] has been delivered to the ledger but not yet
    processed by the state; [Q x]: likewise a FINISHED report. *)
Record JL (P : nat -> Prop) (s : st) (L : base) : Prop := {
  j_live : forall x j, In (x, j) (live L) <-> In x (inprog s) /\ j = lastjob s x /\ ~ P x;
  j_nd : NoDup (map fst (live L));
  j_cseen : cseen L = canceled s }.

(** [d] = dry-run mode: nothing is ever submitted, the ledger's [succ] stays empty *)
Record JS (d : bool) (Q : nat -> Prop) (s : st) (L : base) : Prop := {
  j_succ1 : d = false -> forall x, In x (completed s) -> In x (succ L);
  j_succ2 : forall x, In x (succ L) -> In x (completed s) \/ Q x;
  j_succ3 : forall x, Q x -> In x (succ L);
  j_dry : d = true -> succ L = [] }.

Definition J (d : bool) (P Q : nat -> Prop) (s : st) (L : base) : Prop := JL P s L /\ JS d Q s L.

Definition tpend (rs : list (nat * option State)) (x : nat) : Prop :=
  exists v, In (x, Some v) rs /\ terminal v = true.
Definition pfin (rs : list (nat * option State)) (x : nat) : Prop := In (x, Some FINISHED) rs.
Definition none (_ : nat) : Prop := False.

(** the coupling only reads the in-progress set, the latest job of its members,
    the completed set and the cancel flag of the state, and the three core
    fields of the ledger *)
Definition core_eq (L L' : base) : Prop := live L' = live L /\ succ L' = succ L /\ cseen L' = cseen L.
Lemma core_eq_refl L : core_eq L L. Proof. repeat split. Qed.
Lemma core_eq_trans A B C : core_eq A B -> core_eq B C -> core_eq A C.
Proof. unfold core_eq. intuition congruence. Qed.
Lemma core_eq_sym A B : core_eq A B -> core_eq B A.
Proof. unfold core_eq. intuition congruence. Qed.

Lemma JL_ext (P P' : nat -> Prop) s L :
  (forall x, In x (inprog s) -> (P x <-> P' x)) -> JL P s L -> JL P' s L.
Proof.
  intros HP [A B C]. constructor; auto.
  intros x j. rewrite A. split; intros (H1 & H2 & H3); repeat split; auto; intros H; apply H3, (HP x H1), H.
Qed.

Lemma JS_ext d (Q Q' : nat -> Prop) s L : (forall x, Q x <-> Q' x) -> JS d Q s L -> JS d Q' s L.
Proof.
  intros HQ [A B C D]. constructor; auto.
  - intros x Hx. destruct (B x Hx); auto. right. apply HQ. assumption.
  - intros x Hx. apply C, HQ, Hx.
Qed.

(** generic transitions of the live part *)
Lemma JL_frame P s s' L L' :
  (forall y, In y (inprog s') <-> In y (inprog s)) -> canceled s' = canceled s ->
  (forall y, In y (inprog s) -> lastjob s' y = lastjob s y) ->
  live L' = live L -> cseen L' = cseen L -> JL P s L -> JL P s' L'.
Proof.
  intros E1 E3 E4 E5 E6 [A B C]. constructor; rewrite ?E3, ?E5, ?E6; auto.
  intros x j. rewrite A, E1. split; intros (H1 & H2 & H3); repeat split; auto; rewrite H2; [symmetry|]; auto.
Qed.

Lemma JL_remove P x s s' L L' :
  (forall y, In y (inprog s') <-> y <> x /\ In y (inprog s)) -> canceled s' = canceled s ->
  (forall y, y <> x -> lastjob s' y = lastjob s y) ->
  live L' = live L -> cseen L' = cseen L -> JL (fun y => y = x \/ P y) s L -> JL P s' L'.
Proof.
  intros E1 E3 E4 E5 E6 [A B C]. constructor; rewrite ?E3, ?E5, ?E6; auto.
  intros y j. rewrite A, E1. split.
  - intros (H1 & H2 & H3). assert (y <> x) by tauto. rewrite E4 by auto. tauto.
  - intros ((H0 & H1) & H2 & H3). rewrite E4 in H2 by auto. tauto.
Qed.

Lemma JL_add P x s s' L L' :
  (forall y, In y (inprog s') <-> y = x \/ In y (inprog s)) -> canceled s' = canceled s ->
  (forall y, y <> x -> lastjob s' y = lastjob s y) -> ~ P x ->
  live L' = live L ++ [(x, lastjob s' x)] -> cseen L' = cseen L ->
  JL (fun y => y = x \/ P y) s L -> JL P s' L'.
Proof.
  intros E1 E3 E4 HP E5 E6 [A B C]. constructor; rewrite ?E3, ?E5, ?E6; auto.
  - intros y j. rewrite in_app_iff, A, E1. cbn [In]. split.
    + intros [(H1 & H2 & H3)|[H|[]]].
      * assert (y <> x) by tauto. rewrite E4 by auto. tauto.
      * inversion H; subst. tauto.
    + intros (H1 & H2 & H3). destruct (Nat.eq_dec y x) as [->|Hn].
      * right. left. congruence.
      * left. rewrite E4 in H2 by auto. tauto.
  - rewrite map_app. cbn [map fst]. apply NoDup_snoc; auto.
    intros Hi. apply in_map_iff in Hi. destruct Hi as [[a b] [E Hi]]. cbn in E. subst a.
    apply A in Hi. tauto.
Qed.

(** generic transitions of the success part *)
Lemma JS_frame d Q s s' L L' :
  (forall y, In y (completed s') <-> In y (completed s)) -> succ L' = succ L -> JS d Q s L -> JS d Q s' L'.
Proof.
  intros E1 E2 [A B C D]. constructor; rewrite ?E2; auto.
  - intros Hd y Hy. apply A; auto. apply E1, Hy.
  - intros y Hy. destruct (B y Hy); auto. left. apply E1. assumption.
Qed.

Lemma JS_finish d Q x s s' L L' :
  (forall y, In y (completed s') <-> y = x \/ In y (completed s)) -> succ L' = succ L ->
  JS d (fun y => y = x \/ Q y) s L -> JS d Q s' L'.
Proof.
  intros E1 E2 [A B C D]. constructor; rewrite ?E2; auto.
  - intros Hd y Hy. apply E1 in Hy. destruct Hy as [->|Hy]; auto.
  - intros y Hy. rewrite E1. destruct (B y Hy) as [H|[H|H]]; auto.
Qed.

Lemma JS_local Q x s s' L L' :
  (forall y, In y (completed s') <-> y = x \/ In y (completed s)) ->
  (forall y, In y (succ L') <-> y = x \/ In y (succ L)) ->
  JS false Q s L -> JS false Q s' L'.
Proof.
  intros E1 E2 [A B C D]. constructor; try discriminate.
  - intros _ y Hy. apply E2. apply E1 in Hy. destruct Hy; auto.
  - intros y Hy. apply E2 in Hy. rewrite E1. destruct Hy as [->|Hy]; auto. destruct (B y Hy); auto.
  - intros y Hy. apply E2. auto.
Qed.

Lemma JS_dry Q s s' L L' : succ L' = succ L -> JS true Q s L -> JS true Q s' L'.
Proof.
  intros E2 [A B C D]. constructor; rewrite ?E2; auto; try discriminate.
  intros y Hy. rewrite D in Hy by reflexivity. destruct Hy.
Qed.

(** * Per-event conditions that keep the verdict codes 1, 3, 4, 40, 41, 7, 71 silent *)
Definition evA (c : cfg) (g : graph) (L : base) (e : event) : Prop :=
  match e with
  | ECancel js => same_jobs js (live L) = true
  | ECheck js => same_jobs js (live L) = true
  | EGen _ => True
  | ESubmit x k sched res =>
      subset (parents (attr g x)) (succ L) = true /\ cseen L = false /\
      match res with
      | None => True
      | Some _ => live_of x L = false /\ mem x (succ L) = false /\
                  (sched = false \/ throttle c = 0 \/ S (length (live L)) <= throttle c)
      end
  end.

Fixpoint evsA (c : cfg) (g : graph) (p : pin) (L : base) (es : list event) : Prop :=
  match es with
  | [] => True
  | e :: es' => evA c g L e /\ evsA c g p (step_base c g p L e) es'
  end.

Lemma evsA_app c g p es1 : forall L es2,
  evsA c g p L (es1 ++ es2) <-> evsA c g p L es1 /\ evsA c g p (fold_left (step_base c g p) es1 L) es2.
Proof.
  induction es1 as [|e es1 IH]; intros L es2; cbn; [tauto|]. rewrite IH. tauto.
Qed.

Definition famA : list nat := [1; 3; 4; 40; 41; 7; 71].

Lemma ck_In b k j : In j (ck b k) <-> b = false /\ j = k.
Proof. unfold ck. destruct b; cbn; intuition congruence. Qed.

Lemma evA_flags c g p L e k : evA c g L e -> In k famA -> ~ In k (flags_ev c g p L e).
Proof.
  intros H Hk Hin. destruct e as [js|js|x|x kd sched res]; cbn [flags_ev evA] in H, Hin.
  - rewrite in_app_iff, !ck_In in Hin. destruct Hin as [[A ->]|[A ->]]; [congruence|].
    cbn in Hk. intuition discriminate.
  - rewrite in_app_iff, !ck_In in Hin. destruct Hin as [[A ->]|[A ->]]; [|congruence].
    cbn in Hk. intuition discriminate.
  - rewrite ck_In in Hin. destruct Hin as [_ ->]. cbn in Hk. intuition discriminate.
  - destruct H as [H1 [H2 H3]].
    repeat (rewrite in_app_iff in Hin; destruct Hin as [Hin|Hin]);
      try (rewrite ck_In in Hin; destruct Hin as [A ->]; cbn in Hk;
           first [ congruence | (rewrite H2 in A; discriminate) | (intuition discriminate) ]).
    + destruct kd.
      * rewrite ck_In in Hin. destruct Hin as [_ ->]. cbn in Hk. intuition discriminate.
      * rewrite in_app_iff, !ck_In in Hin. destruct Hin as [[_ ->]|[_ ->]]; cbn in Hk; intuition discriminate.
    + destruct res as [j|]; [|destruct Hin].
      destruct H3 as [H3 [H4 H5]].
      rewrite !in_app_iff, !ck_In in Hin. destruct Hin as [[A ->]|[[A ->]|[A ->]]].
      * rewrite H3 in A. discriminate.
      * rewrite H4 in A. discriminate.
      * rewrite !orb_false_iff in A. destruct A as [[A1 A2] A3].
        apply negb_false_iff in A1. apply Nat.eqb_neq in A2. apply Nat.leb_gt in A3.
        destruct H5 as [H5|[H5|H5]]; [congruence | congruence | lia].
Qed.

(** * The ledger as a function of the events emitted so far in the current poll *)
Section Poll.
Variables (c : cfg) (g : graph) (p : pin) (L0 : base).

Definition led (s : st) : base := fold_left (step_base c g p) (rev (evs s)) L0.
Definition clean (s : st) : Prop := evsA c g p L0 (rev (evs s)).

Lemma led_emit e s : led (emit e s) = step_base c g p (led s) e.
Proof. unfold led, emit. cbn. rewrite fold_left_app. reflexivity. Qed.

Lemma clean_emit e s : clean (emit e s) <-> clean s /\ evA c g (led s) e.
Proof. unfold clean, emit, led. cbn. rewrite evsA_app. cbn. tauto. Qed.

End Poll.


(** * The submission retry loop *)
Section Poll2.
Variables (c : cfg) (g : graph) (p : pin) (L0 : base).
Notation ledS := (led c g p L0).
Notation cleanS := (clean c g p L0).

Lemma led_frame s s' : evs s' = evs s -> ledS s' = ledS s.
Proof. unfold led. intros ->. reflexivity. Qed.
Lemma clean_frame s s' : evs s' = evs s -> cleanS s' <-> cleanS s.
Proof. unfold clean. intros ->. tauto. Qed.

Definition submit_pre (x : nat) (s : st) : Prop :=
  subset (parents (attr g x)) (succ (ledS s)) = true /\ cseen (ledS s) = false /\
  live_of x (ledS s) = false /\ mem x (succ (ledS s)) = false /\
  (scheduled (attr g x) = false \/ throttle c = 0 \/ S (length (live (ledS s))) <= throttle c).

Lemma next_sub_frame s : let '(b, s') := next_sub s in
  same_sets s s' /\ recs s' = recs s /\ evs s' = evs s /\ next_job s' = next_job s.
Proof. unfold next_sub. destruct (subs s); cbn; repeat split. Qed.

Definition pre_submit (x : nat) (restart : bool) (s : st) : st :=
  let s := if restart then emit (EGen x) s else rec_set_status x PENDING s in
  if scheduled (attr g x) then s else rec_set_status x RUNNING s.

Lemma pre_submit_frame x restart s : x < length (recs s) ->
  same_sets s (pre_submit x restart s) /\ length (recs (pre_submit x restart s)) = length (recs s) /\
  (forall y, status (getrec s y) <> INITIALIZED -> status (getrec (pre_submit x restart s) y) <> INITIALIZED) /\
  (forall y, lastjob (pre_submit x restart s) y = lastjob s y) /\
  ledS (pre_submit x restart s) = ledS s /\ (cleanS (pre_submit x restart s) <-> cleanS s) /\
  (restart = false -> status (getrec (pre_submit x restart s) x) <> INITIALIZED).
Proof.
  intros Hx. unfold pre_submit.
  assert (NI : forall v w y s0, v <> INITIALIZED -> status (getrec s0 y) <> INITIALIZED ->
                status (getrec (rec_set_status w v s0) y) <> INITIALIZED).
  { intros v w y s0 Hv Hy. destruct (status_set_status w y v s0) as [->| ->]; auto. }
  destruct restart, (scheduled (attr g x)).
  - split; [repeat split|]. split; [reflexivity|]. split; [auto|]. split; [reflexivity|].
    split; [rewrite led_emit; reflexivity|]. split; [rewrite clean_emit; cbn; tauto|]. discriminate.
  - split; [repeat split|]. split; [rewrite len_recs_set_status; reflexivity|]. split.
    { intros y Hy. apply NI; [discriminate|exact Hy]. }
    split; [intros y; rewrite lastjob_set_status; reflexivity|].
    split; [rewrite (led_frame (emit (EGen x) s)) by reflexivity; rewrite led_emit; reflexivity|].
    split; [|discriminate].
    rewrite (clean_frame (emit (EGen x) s)) by reflexivity. rewrite clean_emit. cbn. tauto.
  - split; [repeat split|]. split; [apply len_recs_set_status|]. split.
    { intros y Hy. apply NI; [discriminate|exact Hy]. }
    split; [intros y; apply lastjob_set_status|].
    split; [apply led_frame; reflexivity|]. split; [apply clean_frame; reflexivity|].
    intros _. rewrite getrec_set_status_eq by auto. cbn. discriminate.
  - split; [repeat split|]. split; [rewrite !len_recs_set_status; reflexivity|]. split.
    { intros y Hy. apply NI; [discriminate|]. apply NI; [discriminate|exact Hy]. }
    split; [intros y; rewrite !lastjob_set_status; reflexivity|].
    split; [apply led_frame; reflexivity|]. split; [apply clean_frame; reflexivity|].
    intros _. rewrite getrec_set_status_eq by (rewrite len_recs_set_status; auto). cbn. discriminate.
Qed.

Lemma submit_attempts_spec x restart : forall n s,
  x < length (recs s) -> cleanS s -> submit_pre x s ->
  let '(ok, s') := submit_attempts g x restart n s in
  same_sets s s' /\ length (recs s') = length (recs s) /\ cleanS s' /\
  (forall y, status (getrec s y) <> INITIALIZED -> status (getrec s' y) <> INITIALIZED) /\
  (forall y, y <> x -> lastjob s' y = lastjob s y) /\
  (ok = false -> lastjob s' x = lastjob s x /\ core_eq (ledS s) (ledS s')) /\
  (ok = true ->
     (restart = false -> status (getrec s' x) <> INITIALIZED) /\
     cseen (ledS s') = cseen (ledS s) /\
     (if scheduled (attr g x)
      then live (ledS s') = live (ledS s) ++ [(x, lastjob s' x)] /\ succ (ledS s') = succ (ledS s)
      else live (ledS s') = live (ledS s) /\ succ (ledS s') = sadd x (succ (ledS s)))).
Proof.
  induction n as [|n IH]; intros s Hx Hc Hp; cbn [submit_attempts].
  - split; [apply same_sets_refl|]. split; [reflexivity|]. split; [exact Hc|]. split; [auto|].
    split; [auto|]. split; [|discriminate]. intros _. split; [reflexivity|apply core_eq_refl].
  - change (if scheduled (attr g x)
            then if restart then emit (EGen x) s else rec_set_status x PENDING s
            else rec_set_status x RUNNING (if restart then emit (EGen x) s else rec_set_status x PENDING s))
      with (pre_submit x restart s).
    destruct (pre_submit_frame x restart s Hx) as (A1 & A2 & A3 & A4 & A5 & A6 & A7).
    set (s2 := pre_submit x restart s) in *. clearbody s2.
    pose proof (next_sub_frame s2) as NS. destruct (next_sub s2) as [b s3].
    destruct NS as (B1 & B2 & B3 & B4).
    assert (L3 : ledS s3 = ledS s) by (rewrite <- A5; apply led_frame; exact B3).
    assert (C3 : cleanS s3) by (apply (clean_frame s2 s3 B3); tauto).
    assert (LJ3 : forall y, lastjob s3 y = lastjob s y).
    { intros y. rewrite <- A4. unfold lastjob, getrec. rewrite B2. reflexivity. }
    assert (ST3 : forall y, status (getrec s3 y) = status (getrec s2 y)).
    { intros y. unfold getrec. rewrite B2. reflexivity. }
    destruct Hp as (P1 & P2 & P3 & P4 & P5).
    destruct b.
    + (* successful submission *)
      set (j := next_job s3).
      set (s4 := rec_push_job x j (set_next_job s3 (S j))).
      set (e := ESubmit x (if restart then Restart else Main) (scheduled (attr g x)) (Some j)).
      assert (LJx : lastjob (emit e s4) x = j).
      { change (lastjob (emit e s4) x) with (lastjob s4 x). subst s4.
        apply lastjob_push_job_eq. sp. rewrite B2. lia. }
      assert (E : ledS s4 = ledS s) by (rewrite <- L3; apply led_frame; reflexivity).
      split. { eapply same_sets_trans; [exact A1|]. eapply same_sets_trans; [exact B1|]. repeat split. }
      split. { change (recs (emit e s4)) with (recs s4). subst s4. unfold rec_push_job. sp. rewrite length_upd, B2. exact A2. }
      split. { rewrite clean_emit. split.
        - apply (clean_frame s3); [reflexivity | exact C3].
        - rewrite E. cbn [evA]. repeat split; auto. }
      split. { intros y Hy. change (getrec (emit e s4) y) with (getrec s4 y). subst s4.
        rewrite status_push_job. change (getrec (set_next_job s3 (S j)) y) with (getrec s3 y).
        rewrite ST3. auto. }
      split. { intros y Hy. change (lastjob (emit e s4) y) with (lastjob s4 y). subst s4.
        rewrite lastjob_push_job_neq by auto. apply LJ3. }
      split; [discriminate|]. intros _.
      split. { intros Hr. change (getrec (emit e s4) x) with (getrec s4 x). subst s4.
        rewrite status_push_job. change (getrec (set_next_job s3 (S j)) x) with (getrec s3 x).
        rewrite ST3. auto. }
      rewrite led_emit, E, LJx. subst e. cbn [step_base].
      destruct (scheduled (attr g x)); repeat split.
    + (* failed attempt: recurse *)
      set (e := ESubmit x (if restart then Restart else Main) (scheduled (attr g x)) None).
      assert (L4 : core_eq (ledS s) (ledS (emit e s3))).
      { rewrite led_emit, L3. subst e. cbn [step_base]. repeat split. }
      assert (C4 : cleanS (emit e s3)).
      { rewrite clean_emit. split; [exact C3|]. rewrite L3. subst e. cbn [evA]. auto. }
      pose proof L4 as (D1 & D2 & D3).
      specialize (IH (emit e s3)).
      assert (Hx4 : x < length (recs (emit e s3))) by (sp; rewrite B2; lia).
      assert (Hp4 : submit_pre x (emit e s3)).
      { unfold submit_pre, live_of. rewrite D1, D2, D3. repeat split; auto. }
      specialize (IH Hx4 C4 Hp4).
      destruct (submit_attempts g x restart n (emit e s3)) as [ok s'].
      destruct IH as (E1 & E2 & E3 & E4 & E5 & E6 & E7).
      split. { eapply same_sets_trans; [exact A1|]. eapply same_sets_trans; [exact B1|]. exact E1. }
      split. { rewrite E2. sp. rewrite B2. exact A2. }
      split; [exact E3|].
      split. { intros y Hy. apply E4. change (getrec (emit e s3) y) with (getrec s3 y). rewrite ST3. auto. }
      split. { intros y Hy. rewrite E5 by auto. change (lastjob (emit e s3) y) with (lastjob s3 y). apply LJ3. }
      split.
      { intros H. destruct (E6 H) as [F1 F2]. split.
        - rewrite F1. change (lastjob (emit e s3) x) with (lastjob s3 x). apply LJ3.
        - eapply core_eq_trans; [exact L4|exact F2]. }
      intros H. destruct (E7 H) as (F1 & F2 & F3). split; [exact F1|]. split; [rewrite F2; exact D3|].
      rewrite D1, D2 in F3. exact F3.
Qed.


End Poll2.

(** * Frame facts for the two sweep loops *)
Definition sweep_frame (s s' : st) : Prop :=
  completed s' = completed s /\ inprog s' = inprog s /\ ready s' = ready s /\ deps s' = deps s /\
  canceled s' = canceled s /\ evs s' = evs s /\ length (recs s') = length (recs s) /\
  (forall y, lastjob s' y = lastjob s y).

Lemma sweep_frame_refl s : sweep_frame s s.
Proof. repeat split. Qed.
Lemma sweep_frame_trans a b d : sweep_frame a b -> sweep_frame b d -> sweep_frame a d.
Proof.
  intros (A1 & A2 & A3 & A4 & A5 & A6 & A7 & A8) (B1 & B2 & B3 & B4 & B5 & B6 & B7 & B8).
  repeat split; try congruence. all: rewrite B8; apply A8.
Qed.

Lemma mark_failed_list_frame l : forall s, sweep_frame s (mark_failed_list l s).
Proof.
  unfold mark_failed_list. induction l as [|a l IH]; intros s; cbn [fold_left]; [apply sweep_frame_refl|].
  eapply sweep_frame_trans; [|apply IH].
  repeat split; first [intros y; rewrite lastjob_set_status; reflexivity | rewrite len_recs_set_status; reflexivity].
Qed.

Lemma mark_cancelled_list_frame l : forall s, sweep_frame s (mark_cancelled_list l s).
Proof.
  unfold mark_cancelled_list. induction l as [|a l IH]; intros s; cbn [fold_left]; [apply sweep_frame_refl|].
  eapply sweep_frame_trans; [|apply IH].
  repeat split; first [intros y; rewrite lastjob_set_status; reflexivity | rewrite len_recs_set_status; reflexivity].
Qed.

Lemma mark_failed_list_cancelled l : forall s, cancelled (mark_failed_list l s) = cancelled s.
Proof. unfold mark_failed_list. induction l as [|a l IH]; intros s; cbn [fold_left]; auto. rewrite IH. reflexivity. Qed.
Lemma mark_cancelled_list_failed l : forall s, failed (mark_cancelled_list l s) = failed s.
Proof. unfold mark_cancelled_list. induction l as [|a l IH]; intros s; cbn [fold_left]; auto. rewrite IH. reflexivity. Qed.

Arguments mark_failed_list : simpl never.
Arguments mark_cancelled_list : simpl never.
Arguments bfs_subtree : simpl never.
Arguments submit_attempts : simpl never.

(** * Tracked nodes and swept sub-trees *)
Definition tracked (s : st) (y : nat) : Prop := In y (completed s) \/ In y (inprog s) \/ In y (ready s).
Definition out (g : graph) (s : st) (y : nat) : Prop :=
  y < length g /\ ~ In y (completed s) /\ ~ In y (inprog s) /\ ~ In y (ready s).

Lemma subtree_out g s x y : WF g -> Inv g s -> x < length g -> ~ In x (completed s) ->
  In y (bfs_subtree g x) -> y <> x -> out g s y.
Proof.
  intros W I Hx Hc Hy Hn.
  assert (R : reach g x y) by (apply bfs_subtree_sound; auto).
  assert (T : ~ tracked s y).
  { intros T. apply Hc. eapply anc_completed; eauto. }
  unfold tracked in T. split; [eapply reach_lt; eauto|]. tauto.
Qed.

Lemma srem_notin x l : ~ In x l -> srem x l = l.
Proof.
  unfold srem. induction l as [|a l IH]; intros H; cbn; auto.
  destruct (Nat.eqb_spec x a) as [->|Hn]; [exfalso; apply H; left; reflexivity|].
  cbn. f_equal. apply IH. intros Hi. apply H. right. exact Hi.
Qed.

Lemma length_sadd_srem x l : NoDup l -> length (sadd x l) = S (length (srem x l)).
Proof.
  intros N. destruct (in_dec Nat.eq_dec x l) as [Hi|Hi].
  - unfold sadd. apply mem_In in Hi as Hm. rewrite Hm. symmetry. apply length_srem_in; auto.
  - rewrite length_sadd_notin by auto. rewrite srem_notin by auto. reflexivity.
Qed.

Lemma live_of_false x L : live_of x L = false <-> ~ In x (map fst (live L)).
Proof.
  unfold live_of. split.
  - intros H Hi. apply in_map_iff in Hi. destruct Hi as [[a b] [E Hi]]. cbn in E. subst a.
    assert (existsb (fun p => fst p =? x) (live L) = true); [|congruence].
    apply existsb_exists. exists (x, b). split; auto. cbn. apply Nat.eqb_refl.
  - intros H. destruct (existsb (fun p => fst p =? x) (live L)) eqn:E; auto.
    apply existsb_exists in E. destruct E as [[a b] [Hi E]]. cbn in E. apply Nat.eqb_eq in E. subst a.
    exfalso. apply H. apply in_map_iff. exists (x, b). auto.
Qed.

(** * _execute_record *)
Section Poll3.
Variables (c : cfg) (g : graph) (p : pin) (L0 : base).
Notation ledS := (led c g p L0).
Notation cleanS := (clean c g p L0).
Hypothesis W : WF g.

Lemma live_bound P x s L : JL (fun y => y = x \/ P y) s L ->
  length (live L) <= length (srem x (inprog s)).
Proof.
  intros [JA JB JC]. rewrite <- (map_length fst). apply NoDup_incl_length_le; [exact JB|].
  intros y Hy. apply in_map_iff in Hy. destruct Hy as [[a b] [E Hi]]. cbn in E. subst a.
  apply JA in Hi. destruct Hi as (H1 & H2 & H3). apply In_srem. split; auto.
Qed.

Definition exec_pre (d : bool) (P Q : nat -> Prop) (x : nat) (restart : bool) (s : st) : Prop :=
  Inv g s /\ cleanS s /\ x < length g /\
  ~ In x (completed s) /\ ~ In x (ready s) /\ ~ In x (failed s) /\ ~ In x (cancelled s) /\
  incl (parents (attr g x)) (completed s) /\
  (if restart then In x (inprog s) /\ d = false else ~ In x (inprog s)) /\
  (throttle c > 0 -> S (length (srem x (inprog s))) <= throttle c) /\
  canceled s = false /\ ~ P x /\ ~ Q x /\
  JL (fun y => y = x \/ P y) s (ledS s) /\ JS d Q s (ledS s).

Lemma exec_pre_frame d P Q x restart s s0 :
  same_sets s s0 -> recs s0 = recs s -> ledS s0 = ledS s -> cleanS s0 ->
  exec_pre d P Q x restart s -> exec_pre d P Q x restart s0.
Proof.
  intros SS ER EL C0 (I & Cl & Hx & H1 & H2 & H3 & H4 & H5 & H6 & H7 & H8 & H9 & H10 & Jl & Js).
  pose proof SS as (E1 & E2 & E3 & E4 & E5 & E6 & E7).
  unfold exec_pre. rewrite E1, E2, E3, E4, E5, E7, EL.
  split. { eapply Inv_same; [exact SS| |exact I]. split; [rewrite ER; reflexivity|].
           intros y. unfold getrec. rewrite ER. auto. }
  repeat (split; [assumption|]). split.
  - eapply JL_frame; [| | | | |exact Jl]; auto.
    + intros y. rewrite E2. tauto.
    + intros y _. unfold lastjob, getrec. rewrite ER. reflexivity.
  - eapply JS_frame; [| |exact Js]; auto. intros y. rewrite E1. tauto.
Qed.

Lemma execute_record_spec d P Q x restart s :
  dry c = d -> exec_pre d P Q x restart s ->
  let s' := execute_record_gen c g x restart s in
  Inv g s' /\ cleanS s' /\ J d P Q s' (ledS s') /\ canceled s' = false /\ ready s' = ready s /\
  length (inprog s') <= S (length (srem x (inprog s))) /\
  (forall y, tracked s' y -> y = x \/ tracked s y) /\
  (forall y, y <> x -> (In y (inprog s') <-> In y (inprog s))).
Proof.
  intros Hd Pre. unfold execute_record_gen.
  set (s0 := if negb restart then emit (EGen x) s else s).
  assert (F0 : same_sets s s0 /\ recs s0 = recs s /\ ledS s0 = ledS s /\ cleanS s0).
  { destruct Pre as (_ & Cl & _). subst s0. destruct restart; cbn [negb].
    - repeat split; auto.
    - split; [repeat split|]. split; [reflexivity|]. split; [rewrite led_emit; reflexivity|].
      apply clean_emit. split; [exact Cl|exact I]. }
  destruct F0 as (SS0 & ER0 & EL0 & C0).
  assert (Pre0 := exec_pre_frame d P Q x restart s s0 SS0 ER0 EL0 C0 Pre).
  assert (TR0 : forall y, tracked s0 y -> tracked s y).
  { destruct SS0 as (E1 & E2 & E3 & _). unfold tracked. rewrite E1, E2, E3. auto. }
  assert (RD0 : ready s0 = ready s) by apply SS0.
  assert (IP0 : inprog s0 = inprog s) by apply SS0.
  rewrite <- RD0, <- IP0.
  assert (G : let s' := (if dry c
     then let s1 := rec_set_status x DRYRUN s0 in let s2 := completed_add x s1 in s2
     else let '(ok, s1) := submit_attempts g x restart (attempts c) s0 in
       if ok then let s2 := inprog_add x s1 in
         if negb (scheduled (attr g x))
         then let s3 := rec_set_status x FINISHED s2 in let s4 := completed_add x s3 in let s5 := inprog_remove x s4 in s5
         else s2
       else let s2 := inprog_remove x s1 in let s3 := mark_failed_list (bfs_subtree g x) s2 in s3) in
     Inv g s' /\ cleanS s' /\ J d P Q s' (ledS s') /\ canceled s' = false /\ ready s' = ready s0 /\
     length (inprog s') <= S (length (srem x (inprog s0))) /\
     (forall y, tracked s' y -> y = x \/ tracked s0 y) /\
     (forall y, y <> x -> (In y (inprog s') <-> In y (inprog s0)))).
  2:{ cbv zeta in G. destruct G as (G1 & G2 & G3 & G4 & G5 & G6 & G7 & G8). repeat (split; [assumption|]).
      split; [|exact G8]. intros y Hy. destruct (G7 y Hy); auto. }
  clearbody s0. clear Pre SS0 ER0 EL0 C0 TR0 RD0 IP0 s. rename s0 into s. cbv zeta.
  destruct Pre0 as (I & Cl & Hx & H1 & H2 & H3 & H4 & H5 & H6 & H7 & H8 & H9 & H10 & Jl & Js).
  pose proof (i_len_recs g s I) as LR.
  pose proof (i_nd_inprog g s I) as ND.
  destruct (dry c) eqn:Hdry.
  - (* dry run *)
    subst d. assert (Hni : ~ In x (inprog s)) by (destruct restart; [destruct H6; discriminate|exact H6]).
    split. { apply Inv_completed_add; auto. apply Inv_set_status; [discriminate|exact I]. }
    split. { exact Cl. }
    split. { split.
      - eapply JL_ext; [|eapply JL_frame; [| | | | |exact Jl]]; try reflexivity.
        + intros y Hy. cbn in Hy. split; [intros [->|H]; tauto|tauto].
        + intros y _. change (lastjob (rec_set_status x DRYRUN s) y = lastjob s y). apply lastjob_set_status.
      - eapply JS_dry; [|exact Js]. reflexivity. }
    split; [exact H8|]. split; [reflexivity|]. split.
    { cbn. rewrite srem_notin by auto. lia. }
    split; [|intros y _; reflexivity].
    intros y. unfold tracked, completed_add. sp. setsimp. tauto.
  - subst d.
    pose proof (live_bound P x s _ Jl) as LB.
    assert (SP : submit_pre c g p L0 x s).
    { unfold submit_pre. destruct Jl as [JA JB JC]. destruct Js as [SA SB SC SD].
      split. { apply subset_incl. intros y Hy. apply SA; auto. }
      split. { rewrite JC. exact H8. }
      split. { apply live_of_false. intros Hi. apply in_map_iff in Hi. destruct Hi as [[a b] [E Hi]].
               cbn in E; subst a. apply JA in Hi. tauto. }
      split. { apply mem_false. intros Hi. destruct (SB x Hi); tauto. }
      destruct (scheduled (attr g x)); [right|left; reflexivity].
      destruct (throttle c) eqn:Et; [left; reflexivity|right]. specialize (H7 ltac:(lia)). lia. }
    pose proof (submit_attempts_spec c g p L0 x restart (attempts c) s) as SA.
    specialize (SA ltac:(lia) Cl SP).
    destruct (submit_attempts g x restart (attempts c) s) as [ok s1].
    destruct SA as (A1 & A2 & A3 & A4 & A5 & A6 & A7).
    pose proof A1 as (E1 & E2 & E3 & E4 & E5 & E6 & E7).
    assert (I1 : Inv g s1) by (eapply Inv_same; [exact A1|split; assumption|exact I]).
    destruct ok.
    + destruct (A7 eq_refl) as (B1 & B2 & B3). clear A6 A7.
      assert (NI : status (getrec s1 x) <> INITIALIZED).
      { destruct restart; [|auto]. apply A4. apply (i_init g s I). left. apply H6. }
      assert (I2 : Inv g (inprog_add x s1)).
      { apply Inv_inprog_add; auto; rewrite ?E1, ?E3, ?E4, ?E5; auto. }
      destruct (scheduled (attr g x)) eqn:Hs; cbn [negb].
      * (* scheduled: stays in progress *)
        destruct B3 as [B3 B4].
        split; [exact I2|]. split; [exact A3|].
        split. { split.
          - eapply (JL_add P x); [| | | | | |exact Jl].
            + intros y. unfold inprog_add; sp. rewrite In_sadd, E2. tauto.
            + cbn. rewrite E7; reflexivity.
            + intros y Hy. change (lastjob (inprog_add x s1) y) with (lastjob s1 y). apply A5; auto.
            + exact H9.
            + exact B3.
            + exact B2.
          - eapply JS_frame; [| |exact Js].
            + intros y. cbn. rewrite E1. tauto.
            + exact B4. }
        split. { cbn. rewrite E7. exact H8. }
        split. { cbn. rewrite E3. reflexivity. }
        split. { cbn. rewrite E2. rewrite length_sadd_srem by auto. lia. }
        split; [|intros y Hy; unfold inprog_add; sp; rewrite In_sadd, E2; tauto].
        intros y. unfold tracked, inprog_add; sp. rewrite In_sadd, E1, E2, E3. tauto.
      * (* local: completed at once *)
        destruct B3 as [B3 B4].
        assert (Hxi : In x (inprog (inprog_add x s1))) by (unfold inprog_add; sp; apply In_sadd; auto).
        split. { apply Inv_finish; [|exact Hxi]. apply Inv_set_status; [discriminate|exact I2]. }
        split; [exact A3|].
        split. { split.
          - eapply (JL_remove P x); [| | | | |exact Jl].
            + intros y. unfold inprog_remove, completed_add, inprog_add, rec_set_status; sp. rewrite In_srem, In_sadd, E2. tauto.
            + cbn. rewrite E7; reflexivity.
            + intros y Hy.
              change (lastjob (rec_set_status x FINISHED (inprog_add x s1)) y = lastjob s y).
              rewrite lastjob_set_status. change (lastjob s1 y = lastjob s y). apply A5; auto.
            + exact B3.
            + exact B2.
          - eapply (JS_local Q x); [| |exact Js].
            + intros y. unfold inprog_remove, completed_add, inprog_add, rec_set_status; sp. rewrite In_sadd, E1. tauto.
            + intros y. change (In y (succ (ledS s1)) <-> y = x \/ In y (succ (ledS s))). rewrite B4, In_sadd. tauto. }
        split. { cbn. rewrite E7. exact H8. }
        split. { cbn. rewrite E3. reflexivity. }
        split. { cbn. rewrite E2. etransitivity; [apply length_srem_le|]. rewrite length_sadd_srem by auto. lia. }
        split; [|intros y Hy; unfold inprog_remove, completed_add, inprog_add, rec_set_status; sp;
                  rewrite In_srem, In_sadd, E2; tauto].
        intros y. unfold tracked, inprog_remove, completed_add, inprog_add, rec_set_status; sp.
        rewrite In_srem, !In_sadd, E1, E2, E3. tauto.
    + (* every attempt failed: the step and its sub-tree are marked failed *)
      destruct (A6 eq_refl) as (B1 & B2). clear A6 A7.
      pose proof (mark_failed_list_frame (bfs_subtree g x) (inprog_remove x s1)) as
        (F1 & F2 & F3 & F4 & F5 & F6 & F7 & F8).
      set (s3 := mark_failed_list (bfs_subtree g x) (inprog_remove x s1)) in *.
      assert (L3 : ledS s3 = ledS s1) by (apply led_frame; exact F6).
      split. { apply Inv_mark_failed_list; [apply Inv_inprog_remove; exact I1|].
        intros y Hy. destruct (Nat.eq_dec y x) as [->|Hn].
        - unfold inprog_remove; sp. rewrite In_srem, E1, E3. split; [exact Hx|]. tauto.
        - destruct (subtree_out g s1 x y W I1 Hx ltac:(rewrite E1; exact H1) Hy Hn) as (O1 & O2 & O3 & O4).
          unfold inprog_remove; sp. rewrite In_srem. tauto. }
      split. { apply (clean_frame c g p L0 s1 s3); [exact F6|exact A3]. }
      split. { rewrite L3. destruct B2 as (C1 & C2 & C3). split.
        - eapply (JL_remove P x); [| | | | |exact Jl]; auto.
          + intros y. rewrite F2. unfold inprog_remove; sp. rewrite In_srem, E2. tauto.
          + rewrite F5. cbn. exact E7.
          + intros y Hy. rewrite F8. change (lastjob s1 y = lastjob s y). apply A5; auto.
        - eapply JS_frame; [| |exact Js]; auto. intros y. rewrite F1. cbn. rewrite E1. tauto. }
      split. { rewrite F5. cbn. rewrite E7. exact H8. }
      split. { rewrite F3. cbn. exact E3. }
      split. { rewrite F2. cbn. rewrite E2. lia. }
      split; [|intros y Hy; rewrite F2; unfold inprog_remove; sp; rewrite In_srem, E2; tauto].
      intros y. unfold tracked. rewrite F1, F2, F3. unfold inprog_remove; sp. rewrite In_srem, E1, E2, E3. tauto.
Qed.

End Poll3.

(** C06 -- timed-out steps are restarted only as configured and within budget:
    history-level statements over [run_trace]. *)
From Coq Require Import Lia Relations.
From MWF Require Import Base.Util Base.UtilLemmas Exec.ExecBase Exec.ExecGen Exec.ExecRun Exec.ExecTrace Exec.ExecGraph Exec.ExecInv
  Exec.ExecPoll Exec.ExecSteps Exec.ExecPoll2 Exec.ExecPoll3 Exec.ExecPoll4 Exec.ExecHist Exec.ExecC02.

(** the restart column of the status rows is the restart counter *)
Lemma row_restarts_rows_of s x : row_restarts (rows_of s) x = restarts (getrec s x).
Proof.
  unfold row_restarts, rows_of, getrec.
  change (INITIALIZED, @nil nat, 0) with ((fun r => (status r, jobs r, restarts r)) dflt_rec).
  rewrite map_nth. reflexivity.
Qed.

Lemma row_status_rows_of s x : row_status (rows_of s) x = status (getrec s x).
Proof.
  unfold row_status, rows_of, getrec.
  change (INITIALIZED, @nil nat, 0) with ((fun r => (status r, jobs r, restarts r)) dflt_rec).
  rewrite map_nth. reflexivity.
Qed.

Section C06.
Variables (c : cfg) (g : graph) (ps : list pin).
Hypothesis Wf : wf_graph g = true.
Hypothesis V : valid_pins c g (init g) ps = true.
Let W : WF g := wf_graph_WF g Wf.

(** a Restart submission needs a restart command, and a TIMEDOUT report for the step's
    job delivered (query code OK) in the same poll, to a step that was in progress *)
Theorem C06_restart_proof e x sc res : In e (run_trace c g (init g) ps) ->
  In (ESubmit x Restart sc res) (evs (e_post e)) ->
  has_restart (attr g x) = true /\ dry c = false /\ qcode (e_pin e) = QOK /\
  In (x, Some TIMEDOUT) (reports (e_pin e)) /\ In x (inprog (e_pre e)).
Proof.
  intros He H. destruct (hist_is_poll c g ps Wf V e He) as ([I0 _] & V0 & E0 & _).
  pose proof (poll_events c g (e_pre e) (e_pin e) W (i2_inv g _ I0) V0 x Restart sc res) as PE.
  rewrite E0 in PE. cbn [fst] in PE. destruct (PE H) as (_ & A & _ & _ & _ & B & C & D & E). auto.
Qed.

Theorem C06_only_if_restart_cmd_proof e x sc res : In e (run_trace c g (init g) ps) ->
  In (ESubmit x Restart sc res) (evs (e_post e)) -> has_restart (attr g x) = true.
Proof. intros He H. exact (proj1 (C06_restart_proof e x sc res He H)). Qed.

(** the main script is never (re)submitted in a poll that delivered TIMEDOUT to the step *)
Theorem C06_never_main_proof e x sc res : In e (run_trace c g (init g) ps) ->
  In (ESubmit x Main sc res) (evs (e_post e)) -> qcode (e_pin e) = QOK ->
  ~ In (x, Some TIMEDOUT) (reports (e_pin e)).
Proof.
  intros He H. destruct (hist_is_poll c g ps Wf V e He) as ([I0 _] & V0 & E0 & _).
  pose proof (poll_events c g (e_pre e) (e_pin e) W (i2_inv g _ I0) V0 x Main sc res) as PE.
  rewrite E0 in PE. cbn [fst] in PE. destruct (PE H) as (_ & _ & _ & _ & _ & B). exact B.
Qed.

(** the restart counter stays within the limit (0 = unlimited), and is 0 without restart command *)
Theorem C06_budget_proof e x : In e (run_trace c g (init g) ps) ->
  (0 < rlimit (attr g x) -> restarts (getrec (e_post e) x) <= rlimit (attr g x)) /\
  (has_restart (attr g x) = false -> restarts (getrec (e_post e) x) = 0).
Proof.
  intros He. destruct (hist_is_poll c g ps Wf V e He) as (_ & _ & _ & [I _]).
  split; [apply (e_rl g _ (i2_ext g _ I))|apply (e_nr g _ (i2_ext g _ I))].
Qed.

(** the counter (= the restart column of the status row) is the number of polls so far that
    contain a Restart submission of the step *)
Theorem C06_count_proof tr1 e tr2 x : 0 < attempts c ->
  run_trace c g (init g) ps = tr1 ++ e :: tr2 ->
  row_restarts (rows_of (e_post e)) x = rpolls x (tr1 ++ [e]) /\
  (0 < rlimit (attr g x) -> rpolls x (tr1 ++ [e]) <= rlimit (attr g x)).
Proof.
  intros Ha E.
  pose proof (run_trace_restarts c g x ps (init g) tr1 e tr2 W Ha (Good_init c g) V E) as R.
  assert (R0 : restarts (getrec (init g) x) = 0).
  { destruct (init_Ext g) as [_ _ _ _ _]. unfold getrec, init. cbn.
    clear. revert x. induction g as [|a g' IH]; intros [|x]; cbn; auto. }
  rewrite R0 in R. cbn in R. rewrite row_restarts_rows_of. split; auto.
  intros Hl. rewrite <- R. apply C06_budget_proof; auto.
  rewrite E. apply in_app_iff. right. left. reflexivity.
Qed.

(** TIMEDOUT that is not followed by a restart *)
Theorem C06_exhausted_proof e x : In e (run_trace c g (init g) ps) ->
  dry c = false -> qcode (e_pin e) = QOK -> In (x, Some TIMEDOUT) (reports (e_pin e)) ->
  let s := e_pre e in let s' := e_post e in
  (* no restart command, or a cancel was requested: TIMEDOUT, failed *)
  ((has_restart (attr g x) = false \/ canceled s = true \/ cancel_req (e_pin e) = true) ->
     In x (failed s') /\ status (getrec s' x) = TIMEDOUT) /\
  (* budget used up: FAILED *)
  ((has_restart (attr g x) = true /\ canceled s = false /\ cancel_req (e_pin e) = false /\
    0 < rlimit (attr g x) /\ rlimit (attr g x) <= restarts (getrec s x)) ->
     In x (failed s') /\ status (getrec s' x) = FAILED) /\
  (* in every case: a restart job was obtained, or the step is failed *)
  ((In x (failed s') /\ (status (getrec s' x) = TIMEDOUT \/ status (getrec s' x) = FAILED)) \/
   exists sc j, In (ESubmit x Restart sc (Some j)) (evs s')) /\
  (* and once it is failed its descendants are swept *)
  (In x (failed s') -> forall d, reach g x d ->
     FC s' d /\ (x <> d -> fc_status (status (getrec s' d)))).
Proof.
  intros He D Q Hin. cbv zeta.
  destruct (hist_is_poll c g ps Wf V e He) as ([I0 _] & V0 & E0 & _).
  pose proof (poll_reported c g (e_pre e) (e_pin e) W (i2_inv g _ I0) V0 D Q x TIMEDOUT Hin) as PR.
  rewrite E0 in PR. cbn [fst reported_ok] in PR. destruct PR as (A & B & C).
  splits; auto.
  - intros H. destruct (B H) as [B1 B2]. split; auto. apply B1. apply reach_refl.
  - intros Hf d R. apply (C02_marked_proof c g ps Wf V e x d He); auto.
Qed.
End C06.

(** Poll-level preservation of the state invariant of the polling loop.

    EXPORTED STATEMENTS (stable names, used by ExecLive.v / Props):

      valid_pin  : st -> pin -> bool
         := nodupb (map fst (reports p)) && forallb (fun r => mem (fst r) (inprog s)) (reports p)
      valid_pins : cfg -> graph -> st -> list pin -> bool      (valid_pin along a whole history)

      init_Inv   : Inv g (init g)
      init_Thr   : Thr c (init g)
      poll_Inv   : WF g -> Inv g s -> Thr c s -> valid_pin s p = true ->
                   Inv g (fst (poll c g s p)) /\ Thr c (fst (poll c g s p))
      poll_Inv_let : ... -> let '(s', r) := poll c g s p in Inv g s' /\ Thr c s'
      run_states_Inv : WF g -> Inv g s -> Thr c s -> valid_pins c g s ps = true ->
                   forall s' r, In (s', r) (run_states c g s ps) -> Inv g s' /\ Thr c s'

    Helper facts also exported:
      bfs_subtree_complete, bfs_subtree_closed      (completeness of dag.bfs_subtree)
      In_set_union, mfl_frame, mfl_failed, mfl_*, mcl_frame, mcl_cancelled, mcl_*,
      submit_attempts_spec, and the function-level lemmas
      Inv_execute_record, Inv_handle_report, Inv_dispatch, Inv_stage, Inv_launch.

    Everything is about the GENERATED decision logic (ExecGen.v). *)
From Coq Require Import Lia Relations.
From MWF Require Import Base.Util Base.UtilLemmas Exec.ExecBase Exec.ExecGen Exec.ExecRun Exec.ExecGraph Exec.ExecInv.

#[local] Arguments bfs_subtree : simpl never.
#[local] Arguments submit_attempts : simpl never.
#[local] Arguments mark_failed_list : simpl never.
#[local] Arguments mark_cancelled_list : simpl never.
#[local] Arguments set_union : simpl never.

(** * Valid poll inputs *)
Definition valid_pin (s : st) (p : pin) : bool :=
  nodupb (map fst (reports p)) && forallb (fun r => mem (fst r) (inprog s)) (reports p).

Fixpoint valid_pins (c : cfg) (g : graph) (s : st) (ps : list pin) : bool :=
  match ps with
  | [] => true
  | p :: ps' => valid_pin s p &&
                (let '(s1, r) := poll c g s p in
                 match r with SRUNNING => valid_pins c g s1 ps' | _ => true end)
  end.

Lemma valid_pin_spec s p : valid_pin s p = true <->
  NoDup (map fst (reports p)) /\ forall x o, In (x, o) (reports p) -> In x (inprog s).
Proof.
  unfold valid_pin. rewrite andb_true_iff, nodupb_NoDup, forallb_forall. split; intros [A B]; split; auto.
  - intros x o H. specialize (B _ H). apply mem_In in B. exact B.
  - intros [x o] H. apply mem_In. eapply B; eauto.
Qed.

(** * Completeness of bfs_subtree *)
Section Bfs.
Variable g : graph.

(** the loop invariant of the breadth-first search *)
Record bfsI (q pth : list nat) : Prop := {
  b_q_in : incl q pth;
  b_nd : NoDup pth;
  b_lt : forall y, In y pth -> y < length g;
  b_closed : forall y, In y pth -> ~ In y q -> incl (children (attr g y)) pth }.

Lemma bfs_visit_fold cs : forall q pth q' p',
  fold_left bfs_visit cs (q, pth) = (q', p') ->
  incl q pth -> NoDup pth ->
  (exists new, q' = q ++ new /\ p' = pth ++ new /\ incl new cs /\ NoDup p') /\
  (forall c, In c cs -> In c p').
Proof.
  induction cs as [|c cs IH]; intros q pth q' p' E Hq Hn; cbn in E.
  - inversion E; subst. split; [exists []; rewrite !app_nil_r; repeat split; auto; intros ? []|intros ? []].
  - destruct (mem c pth) eqn:M.
    + destruct (IH _ _ _ _ E Hq Hn) as [[new (A & B & C & D)] F]. split.
      * exists new. repeat split; auto. intros z Hz. right. apply C. exact Hz.
      * intros z [<-|Hz]; auto. subst p'. apply in_app_iff. left. apply mem_In. exact M.
    + apply mem_false in M.
      assert (Hq' : incl (q ++ [c]) (pth ++ [c])).
      { intros z Hz. apply in_app_iff in Hz. apply in_app_iff. destruct Hz as [Hz|Hz]; auto. }
      destruct (IH _ _ _ _ E Hq' (NoDup_snoc c pth Hn M)) as [[new (A & B & C & D)] F]. split.
      * exists (c :: new). rewrite <- !app_assoc in A, B. cbn in A, B. repeat split; auto.
        intros z [<-|Hz]; [left; reflexivity|right; apply C; exact Hz].
      * intros z [<-|Hz]; auto. subst p'. rewrite <- app_assoc. apply in_app_iff. right. left. reflexivity.
Qed.

Lemma bfs_go_closed (W : WF g) fuel : forall q pth,
  bfsI q pth -> length q + (length g - length pth) < fuel ->
  let r := bfs_go g fuel q pth in
  incl pth r /\ forall y, In y r -> incl (children (attr g y)) r.
Proof.
  induction fuel as [|f IH]; intros q pth I Hf; [lia|].
  cbn [bfs_go]. destruct q as [|x q].
  - split; [apply incl_refl|]. intros y Hy. apply (b_closed _ _ I); auto.
  - destruct (fold_left bfs_visit (children (attr g x)) (q, pth)) as [q' p'] eqn:E.
    destruct I as [Iq Ind Ilt Icl].
    assert (Hq : incl q pth) by (intros z Hz; apply Iq; right; exact Hz).
    destruct (bfs_visit_fold _ _ _ _ _ E Hq Ind) as [[new (A & B & C & D)] F].
    assert (Hx : x < length g) by (apply Ilt, Iq; left; reflexivity).
    assert (I' : bfsI q' p').
    { subst q' p'. constructor; auto.
      - intros z Hz. apply in_app_iff in Hz. apply in_app_iff. destruct Hz; auto.
      - intros z Hz. apply in_app_iff in Hz. destruct Hz as [Hz|Hz]; auto.
        eapply wf_child_lt; eauto.
      - intros z Hz Hnq. rewrite in_app_iff in Hz, Hnq.
        destruct Hz as [Hz|Hz]; [|tauto].
        destruct (Nat.eq_dec z x) as [->|Hne].
        + intros ch Hch. apply F. exact Hch.
        + intros ch Hch. apply in_app_iff. left. apply (Icl z Hz); auto.
          intros [Hc|Hc]; [congruence|tauto]. }
    assert (Hlen : length p' <= length g).
    { apply NoDup_incl_length_le with (b := seq 0 (length g)) in D.
      - rewrite seq_length in D. exact D.
      - intros z Hz. apply In_seq_lt. apply (b_lt _ _ I'). exact Hz. }
    assert (Hm : length q' + (length g - length p') < f).
    { subst q' p'. rewrite !app_length in *. cbn [length] in Hf. lia. }
    destruct (IH q' p' I' Hm) as [R1 R2]. split; auto.
    intros z Hz. apply R1. subst p'. apply in_app_iff. left. exact Hz.
Qed.

Lemma bfs_subtree_closed x y ch : WF g -> x < length g ->
  In y (bfs_subtree g x) -> In ch (children (attr g y)) -> In ch (bfs_subtree g x).
Proof.
  intros W Hx Hy Hc. unfold bfs_subtree in *.
  assert (I : bfsI [x] [x]).
  { constructor.
    - apply incl_refl.
    - constructor; [intros []|constructor].
    - intros z [<-|[]]. exact Hx.
    - intros z [<-|[]] Hn. exfalso. apply Hn. left. reflexivity. }
  destruct (bfs_go_closed W (S (length g)) [x] [x] I) as [_ R].
  - cbn [length]. lia.
  - exact (R y Hy ch Hc).
Qed.

Lemma bfs_subtree_complete x y : WF g -> x < length g -> reach g x y -> In y (bfs_subtree g x).
Proof.
  intros W Hx R. induction R as [|y z E R IH].
  - apply bfs_subtree_root.
  - destruct E as [_ Hc]. eapply bfs_subtree_closed; eauto.
Qed.

Lemma bfs_subtree_iff x y : WF g -> x < length g -> (In y (bfs_subtree g x) <-> reach g x y).
Proof. intros W Hx. split; [apply bfs_subtree_sound | apply bfs_subtree_complete]; auto. Qed.
End Bfs.

(** reachability facts *)
Lemma reach_trans g x y z : reach g x y -> reach g y z -> reach g x z.
Proof. intros A B. induction B; auto. econstructor; eauto. Qed.

Lemma reach_le g x y : WF g -> reach g x y -> x <= y.
Proof.
  intros W R. induction R as [|y z [Hy Hc] R IH]; auto.
  assert (y < z); [|lia]. eapply wf_par_lt; eauto.
  - eapply wf_child_lt; eauto.
  - eapply wf_child_par; eauto.
Qed.

Lemma child_neq g x ch : WF g -> x < length g -> In ch (children (attr g x)) -> x < ch.
Proof.
  intros W Hx Hc. eapply wf_par_lt; eauto.
  - eapply wf_child_lt; eauto.
  - eapply wf_child_par; eauto.
Qed.

(** a strict descendant has a parent that is itself a descendant *)
Lemma reach_last g x y : reach g x y -> x <> y -> exists z, reach g x z /\ edge g z y.
Proof. intros R. destruct R as [|z y E R]; [congruence|]. intros _. exists z. auto. Qed.

(** * Frame facts of the opaque combinators *)
Lemma In_set_union l : forall acc y, In y (set_union l acc) <-> In y l \/ In y acc.
Proof.
  unfold set_union. induction l as [|a l IH]; intros acc y; cbn [fold_left].
  - cbn. tauto.
  - rewrite IH, In_sadd. cbn. intuition.
Qed.

Definition frame_f (s s' : st) : Prop :=
  completed s' = completed s /\ inprog s' = inprog s /\ ready s' = ready s /\ cancelled s' = cancelled s /\
  deps s' = deps s /\ canceled s' = canceled s /\ evs s' = evs s /\ subs s' = subs s /\ next_job s' = next_job s /\
  length (recs s') = length (recs s).

Definition frame_c (s s' : st) : Prop :=
  completed s' = completed s /\ inprog s' = inprog s /\ ready s' = ready s /\ failed s' = failed s /\
  deps s' = deps s /\ canceled s' = canceled s /\ evs s' = evs s /\ subs s' = subs s /\ next_job s' = next_job s /\
  length (recs s') = length (recs s).

Lemma mfl_cons a l s : mark_failed_list (a :: l) s = mark_failed_list l (rec_set_status a FAILED (failed_add a s)).
Proof. reflexivity. Qed.
Lemma mfl_nil s : mark_failed_list [] s = s.
Proof. reflexivity. Qed.
Lemma mcl_cons a l s : mark_cancelled_list (a :: l) s = mark_cancelled_list l (rec_set_status a CANCELLED (cancelled_add a s)).
Proof. reflexivity. Qed.
Lemma mcl_nil s : mark_cancelled_list [] s = s.
Proof. reflexivity. Qed.

Lemma mfl_frame l : forall s, frame_f s (mark_failed_list l s).
Proof.
  induction l as [|a l IH]; intros s; [rewrite mfl_nil; repeat split|].
  rewrite mfl_cons. specialize (IH (rec_set_status a FAILED (failed_add a s))).
  unfold frame_f in *. rewrite len_recs_set_status in IH. exact IH.
Qed.

Lemma mfl_failed l : forall s y, In y (failed (mark_failed_list l s)) <-> In y l \/ In y (failed s).
Proof.
  induction l as [|a l IH]; intros s y; [rewrite mfl_nil; cbn; tauto|].
  rewrite mfl_cons, IH. unfold failed_add, rec_set_status. sp. rewrite In_sadd. cbn. intuition.
Qed.

Lemma mfl_getrec_notin l : forall s y, ~ In y l -> getrec (mark_failed_list l s) y = getrec s y.
Proof.
  induction l as [|a l IH]; intros s y H; [reflexivity|].
  rewrite mfl_cons, IH by (cbn in H; tauto).
  rewrite getrec_set_status_neq by (cbn in H; intuition). reflexivity.
Qed.

Lemma mfl_restarts l : forall s y, restarts (getrec (mark_failed_list l s) y) = restarts (getrec s y).
Proof.
  induction l as [|a l IH]; intros s y; [reflexivity|].
  rewrite mfl_cons, IH, restarts_set_status. reflexivity.
Qed.

Lemma mfl_jobs l : forall s y, jobs (getrec (mark_failed_list l s) y) = jobs (getrec s y).
Proof.
  induction l as [|a l IH]; intros s y; [reflexivity|].
  rewrite mfl_cons, IH, jobs_set_status. reflexivity.
Qed.

Lemma mfl_status l : forall s y,
  status (getrec (mark_failed_list l s) y) = status (getrec s y) \/ status (getrec (mark_failed_list l s) y) = FAILED.
Proof.
  induction l as [|a l IH]; intros s y; [left; reflexivity|].
  rewrite mfl_cons. destruct (IH (rec_set_status a FAILED (failed_add a s)) y) as [E|E]; rewrite E; auto.
  destruct (status_set_status a y FAILED (failed_add a s)) as [E'|E']; rewrite E'; auto.
Qed.

Lemma mfl_status_in l : forall s y, In y l -> y < length (recs s) -> status (getrec (mark_failed_list l s) y) = FAILED.
Proof.
  induction l as [|a l IH]; intros s y H Hl; [destruct H|].
  rewrite mfl_cons. destruct (in_dec Nat.eq_dec y l) as [Hi|Hn].
  - apply IH; auto. rewrite len_recs_set_status. exact Hl.
  - destruct H as [->|H]; [|contradiction].
    rewrite mfl_getrec_notin by auto. rewrite getrec_set_status_eq by exact Hl. reflexivity.
Qed.

Lemma mcl_frame l : forall s, frame_c s (mark_cancelled_list l s).
Proof.
  induction l as [|a l IH]; intros s; [rewrite mcl_nil; repeat split|].
  rewrite mcl_cons. specialize (IH (rec_set_status a CANCELLED (cancelled_add a s))).
  unfold frame_c in *. rewrite len_recs_set_status in IH. exact IH.
Qed.

Lemma mcl_cancelled l : forall s y, In y (cancelled (mark_cancelled_list l s)) <-> In y l \/ In y (cancelled s).
Proof.
  induction l as [|a l IH]; intros s y; [rewrite mcl_nil; cbn; tauto|].
  rewrite mcl_cons, IH. unfold cancelled_add, rec_set_status. sp. rewrite In_sadd. cbn. intuition.
Qed.

Lemma mcl_getrec_notin l : forall s y, ~ In y l -> getrec (mark_cancelled_list l s) y = getrec s y.
Proof.
  induction l as [|a l IH]; intros s y H; [reflexivity|].
  rewrite mcl_cons, IH by (cbn in H; tauto).
  rewrite getrec_set_status_neq by (cbn in H; intuition). reflexivity.
Qed.

Lemma mcl_restarts l : forall s y, restarts (getrec (mark_cancelled_list l s) y) = restarts (getrec s y).
Proof.
  induction l as [|a l IH]; intros s y; [reflexivity|].
  rewrite mcl_cons, IH, restarts_set_status. reflexivity.
Qed.

Lemma mcl_jobs l : forall s y, jobs (getrec (mark_cancelled_list l s) y) = jobs (getrec s y).
Proof.
  induction l as [|a l IH]; intros s y; [reflexivity|].
  rewrite mcl_cons, IH, jobs_set_status. reflexivity.
Qed.

Lemma mcl_status l : forall s y,
  status (getrec (mark_cancelled_list l s) y) = status (getrec s y) \/ status (getrec (mark_cancelled_list l s) y) = CANCELLED.
Proof.
  induction l as [|a l IH]; intros s y; [left; reflexivity|].
  rewrite mcl_cons. destruct (IH (rec_set_status a CANCELLED (cancelled_add a s)) y) as [E|E]; rewrite E; auto.
  destruct (status_set_status a y CANCELLED (cancelled_add a s)) as [E'|E']; rewrite E'; auto.
Qed.

Lemma mcl_status_in l : forall s y, In y l -> y < length (recs s) -> status (getrec (mark_cancelled_list l s) y) = CANCELLED.
Proof.
  induction l as [|a l IH]; intros s y H Hl; [destruct H|].
  rewrite mcl_cons. destruct (in_dec Nat.eq_dec y l) as [Hi|Hn].
  - apply IH; auto. rewrite len_recs_set_status. exact Hl.
  - destruct H as [->|H]; [|contradiction].
    rewrite mcl_getrec_notin by auto. rewrite getrec_set_status_eq by exact Hl. reflexivity.
Qed.

(** * The submission retry loop *)
Lemma submit_attempts_O g x r s : submit_attempts g x r 0 s = (false, s).
Proof. reflexivity. Qed.
Lemma submit_attempts_S g x r n s :
  submit_attempts g x r (S n) s =
    let s := if r then emit (EGen x) s else rec_set_status x PENDING s in
    let s := if scheduled (attr g x) then s else rec_set_status x RUNNING s in
    let '(b, s) := next_sub s in
    let k := if r then Restart else Main in
    if b then
      let j := next_job s in
      (true, emit (ESubmit x k (scheduled (attr g x)) (Some j)) (rec_push_job x j (set_next_job s (S j))))
    else submit_attempts g x r n (emit (ESubmit x k (scheduled (attr g x)) None) s).
Proof. reflexivity. Qed.

Lemma next_sub_spec s b s' : next_sub s = (b, s') -> exists l, s' = set_subs s l.
Proof.
  unfold next_sub. destruct (subs s) as [|b0 r] eqn:E; intros H; inversion H; subst.
  - exists []. destruct s'; cbn in *. subst. reflexivity.
  - eexists; reflexivity.
Qed.

Lemma getrec_push_job_neq x j y s : x <> y -> getrec (rec_push_job x j s) y = getrec s y.
Proof. intros H. unfold getrec, rec_push_job. cbn. apply nth_upd_neq; auto. Qed.
Lemma restarts_push_job x j y s : restarts (getrec (rec_push_job x j s) y) = restarts (getrec s y).
Proof.
  unfold getrec, rec_push_job. cbn.
  destruct (Nat.eq_dec x y) as [->|Hn]; [|rewrite nth_upd_neq; auto].
  destruct (Nat.lt_ge_cases y (length (recs s))) as [Hl|Hl].
  - rewrite nth_upd_eq; auto.
  - rewrite nth_upd_ge; auto.
Qed.
Lemma len_recs_push_job x j s : length (recs (rec_push_job x j s)) = length (recs s).
Proof. unfold rec_push_job. cbn. apply length_upd. Qed.
Lemma getrec_inc_restarts_neq x y s : x <> y -> getrec (rec_inc_restarts x s) y = getrec s y.
Proof. intros H. unfold getrec, rec_inc_restarts. cbn. apply nth_upd_neq; auto. Qed.
Lemma len_recs_inc_restarts x s : length (recs (rec_inc_restarts x s)) = length (recs s).
Proof. unfold rec_inc_restarts. cbn. apply length_upd. Qed.
Lemma restarts_inc_restarts_eq x s : x < length (recs s) ->
  restarts (getrec (rec_inc_restarts x s) x) = S (restarts (getrec s x)).
Proof. intros H. unfold getrec, rec_inc_restarts. cbn. rewrite nth_upd_eq; auto. Qed.

(** "only the record of [x] may change, and only in its status / job list" *)
Record rx (x : nat) (s s' : st) : Prop := {
  rx_sets : same_sets s s';
  rx_len : length (recs s') = length (recs s);
  rx_other : forall y, y <> x -> getrec s' y = getrec s y;
  rx_restarts : restarts (getrec s' x) = restarts (getrec s x);
  rx_status : status (getrec s' x) = status (getrec s x) \/ status (getrec s' x) = PENDING \/ status (getrec s' x) = RUNNING }.

Lemma rx_refl x s : rx x s s.
Proof. constructor; auto. apply same_sets_refl. Qed.
Lemma rx_trans x a b d : rx x a b -> rx x b d -> rx x a d.
Proof.
  intros [A1 A2 A3 A4 A5] [B1 B2 B3 B4 B5]. constructor.
  - eapply same_sets_trans; eauto.
  - congruence.
  - intros y Hy. rewrite B3, A3; auto.
  - congruence.
  - destruct B5 as [E|[E|E]]; rewrite E; auto.
Qed.
Lemma rx_set_status x v s : v = PENDING \/ v = RUNNING -> rx x s (rec_set_status x v s).
Proof.
  intros Hv. constructor.
  - apply same_sets_set_status.
  - apply len_recs_set_status.
  - intros y Hy. apply getrec_set_status_neq. auto.
  - apply restarts_set_status.
  - destruct (status_set_status x x v s) as [E|E]; rewrite E; intuition.
Qed.
Lemma rx_push_job x j s : rx x s (rec_push_job x j s).
Proof.
  constructor.
  - repeat split.
  - apply len_recs_push_job.
  - intros y Hy. apply getrec_push_job_neq. auto.
  - apply restarts_push_job.
  - left. apply status_push_job.
Qed.
Lemma rx_emit x e s : rx x s (emit e s).
Proof. constructor; auto. repeat split. Qed.
Lemma rx_set_subs x l s : rx x s (set_subs s l).
Proof. constructor; auto. repeat split. Qed.
Lemma rx_set_next_job x j s : rx x s (set_next_job s j).
Proof. constructor; auto. repeat split. Qed.

Definition sub_ev (g : graph) (x : nat) (r : bool) (e : event) : Prop :=
  e = EGen x \/ exists res, e = ESubmit x (if r then Restart else Main) (scheduled (attr g x)) res.

Record sa_spec (g : graph) (x : nat) (r : bool) (n : nat) (s : st) (ok : bool) (s' : st) : Prop := {
  sa_rx : rx x s s';
  sa_status_pos : r = false -> 0 < n -> x < length (recs s) ->
                  status (getrec s' x) = PENDING \/ status (getrec s' x) = RUNNING;
  sa_ok_pos : ok = true -> 0 < n;
  sa_evs : exists new, evs s' = new ++ evs s /\ (forall e, In e new -> sub_ev g x r e) /\
           (0 < n -> exists res, In (ESubmit x (if r then Restart else Main) (scheduled (attr g x)) res) new) /\
           (ok = false -> forall k sc res, In (ESubmit x k sc res) new -> res = None) }.

Lemma submit_attempts_spec g x r n : forall s ok s',
  submit_attempts g x r n s = (ok, s') -> sa_spec g x r n s ok s'.
Proof.
  induction n as [|n IH]; intros s ok s' E.
  - rewrite submit_attempts_O in E. inversion E; subst. constructor.
    + apply rx_refl.
    + lia.
    + discriminate.
    + exists []. cbn. repeat split; try tauto; try lia.
  - rewrite submit_attempts_S in E. cbv zeta in E.
    set (s1 := if r then emit (EGen x) s else rec_set_status x PENDING s) in E.
    set (s2 := if scheduled (attr g x) then s1 else rec_set_status x RUNNING s1) in E.
    assert (R1 : rx x s s1) by (subst s1; destruct r; [apply rx_emit | apply rx_set_status; auto]).
    assert (R2 : rx x s1 s2) by (subst s2; destruct (scheduled (attr g x)); [apply rx_refl | apply rx_set_status; auto]).
    assert (St2 : r = false -> x < length (recs s) -> status (getrec s2 x) = PENDING \/ status (getrec s2 x) = RUNNING).
    { intros -> Hl. subst s2 s1. destruct (scheduled (attr g x)).
      - left. rewrite getrec_set_status_eq; auto.
      - right. rewrite getrec_set_status_eq; auto. rewrite len_recs_set_status. exact Hl. }
    assert (Ev2 : evs s2 = (if r then [EGen x] else []) ++ evs s).
    { subst s2 s1. destruct r, (scheduled (attr g x)); reflexivity. }
    destruct (next_sub s2) as [b s3] eqn:En. destruct (next_sub_spec _ _ _ En) as [l ->].
    pose proof (rx_set_subs x l s2) as R3.
    destruct b.
    + inversion E; subst ok s'. clear E. constructor.
      * eapply rx_trans; [exact R1|]. eapply rx_trans; [exact R2|]. eapply rx_trans; [exact R3|].
        eapply rx_trans; [apply rx_set_next_job|]. eapply rx_trans; [apply rx_push_job|]. apply rx_emit.
      * intros Hr _ Hl. specialize (St2 Hr Hl).
        change (status (getrec (rec_push_job x (next_job s2) (set_subs s2 l)) x) = PENDING \/
                status (getrec (rec_push_job x (next_job s2) (set_subs s2 l)) x) = RUNNING).
        rewrite status_push_job. exact St2.
      * lia.
      * eexists (ESubmit x (if r then Restart else Main) (scheduled (attr g x)) (Some (next_job s2)) :: (if r then [EGen x] else [])).
        split; [cbn; rewrite Ev2; reflexivity|]. split; [|split].
        -- intros e [<-|He]; [right; eexists; reflexivity|]. destruct r; [destruct He as [<-|[]]; left; reflexivity|destruct He].
        -- intros _. eexists. left. reflexivity.
        -- discriminate.
    + apply IH in E. destruct E as [Q1 Q2 Q3 [new (N1 & N2 & N3 & N4)]]. constructor.
      * eapply rx_trans; [exact R1|]. eapply rx_trans; [exact R2|]. eapply rx_trans; [exact R3|].
        eapply rx_trans; [apply rx_emit|]. exact Q1.
      * intros Hr _ Hl. specialize (St2 Hr Hl).
        destruct (rx_status _ _ _ Q1) as [E|E]; [|exact E].
        rewrite E. exact St2.
      * lia.
      * exists (new ++ ESubmit x (if r then Restart else Main) (scheduled (attr g x)) None :: (if r then [EGen x] else [])).
        split; [rewrite N1; cbn; rewrite Ev2, <- app_assoc; reflexivity|]. split; [|split].
        -- intros e He. apply in_app_iff in He. destruct He as [He|[<-|He]]; auto.
           ++ right; eexists; reflexivity.
           ++ destruct r; [destruct He as [<-|[]]; left; reflexivity|destruct He].
        -- intros _. eexists. apply in_app_iff. right. left. reflexivity.
        -- intros Hok k sc res He. apply in_app_iff in He. destruct He as [He|[He|He]].
           ++ eapply N4; eauto.
           ++ inversion He. reflexivity.
           ++ destruct r; [destruct He as [He|[]]; discriminate|destruct He].
Qed.

Lemma sa_recs_ok g x r n s ok s' : sa_spec g x r n s ok s' -> recs_ok s s'.
Proof.
  intros [R _ _ _]. destruct R as [R1 R2 R3 R4 R5]. split; auto.
  intros y Hy. destruct (Nat.eq_dec y x) as [->|Hn]; [|rewrite R3; auto].
  destruct R5 as [E|[E|E]]; rewrite E; auto; discriminate.
Qed.

(** * Function-level preservation of [Inv] *)
Lemma Inv_emit g e s : Inv g s -> Inv g (emit e s).
Proof. apply Inv_same; [repeat split | split; auto]. Qed.
Lemma Inv_set_subs g l s : Inv g s -> Inv g (set_subs s l).
Proof. apply Inv_same; [repeat split | split; auto]. Qed.
Lemma Inv_set_evs g l s : Inv g s -> Inv g (set_evs s l).
Proof. apply Inv_same; [repeat split | split; auto]. Qed.
Lemma Inv_set_canceled g b s : Inv g s -> Inv g (set_canceled s b).
Proof. intros I. dI I. constructor; sp; auto. Qed.

(** strict descendants of a node that is not completed are not tracked at all *)
Lemma desc_untracked g s x d : WF g -> Inv g s -> reach g x d -> x <> d -> ~ In x (completed s) ->
  ~ In d (completed s) /\ ~ In d (inprog s) /\ ~ In d (ready s).
Proof.
  intros W I R Hne Hx.
  assert (H : ~ (In d (completed s) \/ In d (inprog s) \/ In d (ready s))).
  { intros H. apply Hx. eapply anc_completed; eauto. }
  tauto.
Qed.

Lemma Inv_sweep_failed g s x : WF g -> Inv g s -> x < length g ->
  ~ In x (completed s) -> ~ In x (ready s) ->
  Inv g (mark_failed_list (bfs_subtree g x) (inprog_remove x s)).
Proof.
  intros W I Hx Hc Hr. apply Inv_mark_failed_list; [apply Inv_inprog_remove; auto|].
  intros y Hy. split; [eapply bfs_subtree_lt; eauto|].
  unfold inprog_remove. sp. rewrite In_srem.
  destruct (Nat.eq_dec y x) as [->|Hne]; [tauto|].
  assert (R : reach g x y) by (apply bfs_subtree_sound; auto).
  destruct (desc_untracked g s x y W I R (fun E => Hne (eq_sym E)) Hc) as (A & B & C). tauto.
Qed.

Lemma Inv_execute_record c g x r s : WF g -> Inv g s -> x < length g ->
  ~ In x (completed s) -> ~ In x (ready s) -> ~ In x (failed s) -> ~ In x (cancelled s) ->
  incl (parents (attr g x)) (completed s) ->
  (r = true -> In x (inprog s)) -> (dry c = true -> ~ In x (inprog s)) ->
  Inv g (execute_record_gen c g x r s).
Proof.
  intros W I Hx Hc Hr Hf Hca Hp Hri Hdry. unfold execute_record_gen.
  set (s1 := if negb r then emit (EGen x) s else s).
  assert (I1 : Inv g s1) by (subst s1; destruct (negb r); [apply Inv_emit|]; auto).
  assert (S1 : same_sets s s1) by (subst s1; destruct (negb r); repeat split).
  assert (G1 : forall y, getrec s1 y = getrec s y) by (subst s1; destruct (negb r); reflexivity).
  destruct S1 as (E1 & E2 & E3 & E4 & E5 & E6 & E7).
  destruct (dry c) eqn:D.
  - apply Inv_completed_add; unfold rec_set_status; sp; rewrite ?E1, ?E2, ?E3, ?E4, ?E5; auto.
    apply (Inv_set_status g x DRYRUN s1); [discriminate|auto].
  - destruct (submit_attempts g x r (attempts c) s1) as [ok s2] eqn:E.
    apply submit_attempts_spec in E. pose proof (sa_recs_ok _ _ _ _ _ _ _ E) as RO.
    destruct E as [R SP OP _]. destruct R as [SS _ _ _ _].
    assert (I2 : Inv g s2) by (eapply Inv_same; eauto).
    destruct SS as (F1 & F2 & F3 & F4 & F5 & F6 & F7).
    destruct ok.
    + assert (St : status (getrec s2 x) <> INITIALIZED).
      { destruct r.
        - apply (proj2 RO). rewrite G1. apply (i_init g s I). left. auto.
        - destruct SP as [SP|SP]; auto; try rewrite SP; try discriminate.
          rewrite (i_len_recs g s1 I1). exact Hx. }
      assert (I3 : Inv g (inprog_add x s2)).
      { apply Inv_inprog_add; auto; rewrite ?F1, ?F2, ?F3, ?F4, ?F5, ?E1, ?E2, ?E3, ?E4, ?E5; auto. }
      destruct (negb (scheduled (attr g x))); [|exact I3].
      apply (Inv_finish g x (rec_set_status x FINISHED (inprog_add x s2))).
      * apply Inv_set_status; [discriminate|exact I3].
      * unfold inprog_add, rec_set_status. sp. apply In_sadd. left. reflexivity.
    + apply Inv_sweep_failed; auto; rewrite ?F1, ?F3, ?E1, ?E3; auto.
Qed.

Lemma length_inprog_execute_record c g x r s :
  length (inprog (execute_record_gen c g x r s)) <= S (length (inprog s)) /\
  (In x (inprog s) -> length (inprog (execute_record_gen c g x r s)) <= length (inprog s)).
Proof.
  unfold execute_record_gen.
  set (s1 := if negb r then emit (EGen x) s else s).
  assert (E2 : inprog s1 = inprog s) by (subst s1; destruct (negb r); reflexivity).
  destruct (dry c).
  - unfold completed_add, rec_set_status. sp. rewrite E2. split; intros; lia.
  - destruct (submit_attempts g x r (attempts c) s1) as [ok s2] eqn:E.
    apply submit_attempts_spec in E. destruct E as [[SS _ _ _ _] _ _ _].
    destruct SS as (F1 & F2 & F3 & F4 & F5 & F6 & F7).
    assert (A : length (sadd x (inprog s)) <= S (length (inprog s))) by apply length_sadd_le.
    assert (B : In x (inprog s) -> sadd x (inprog s) = inprog s).
    { intros H. unfold sadd. apply mem_In in H. rewrite H. reflexivity. }
    destruct ok.
    + destruct (negb (scheduled (attr g x))).
      * unfold inprog_remove, completed_add, rec_set_status, inprog_add. sp. rewrite F2, E2.
        pose proof (length_srem_le x (sadd x (inprog s))) as L. split; [lia|]. intros H. rewrite B in L |- *; auto.
      * unfold inprog_add. sp. rewrite F2, E2. split; [lia|]. intros H. rewrite B; auto.
    + destruct (mfl_frame (bfs_subtree g x) (inprog_remove x s2)) as (_ & M & _). rewrite M.
      unfold inprog_remove. sp. rewrite F2, E2. pose proof (length_srem_le x (inprog s)). split; intros; lia.
Qed.

(** how _execute_record moves the sets *)
Record er_sets (g : graph) (x : nat) (s s' : st) : Prop := {
  er_c1 : forall y, In y (completed s) -> In y (completed s');
  er_c2 : forall y, In y (completed s') -> y = x \/ In y (completed s);
  er_i1 : forall y, y <> x -> In y (inprog s) -> In y (inprog s');
  er_i2 : forall y, In y (inprog s') -> y = x \/ In y (inprog s);
  er_ready : ready s' = ready s;
  er_deps : deps s' = deps s;
  er_canceled : canceled s' = canceled s;
  er_cancelled : cancelled s' = cancelled s;
  er_f1 : forall y, In y (failed s) -> In y (failed s');
  er_f2 : forall y, In y (failed s') -> In y (failed s) \/ In y (bfs_subtree g x) }.

Lemma execute_record_sets c g x r s : er_sets g x s (execute_record_gen c g x r s).
Proof.
  unfold execute_record_gen.
  set (s1 := if negb r then emit (EGen x) s else s).
  assert (S1 : same_sets s s1) by (subst s1; destruct (negb r); repeat split).
  destruct S1 as (E1 & E2 & E3 & E4 & E5 & E6 & E7).
  destruct (dry c).
  - constructor; unfold completed_add, rec_set_status; sp; rewrite ?E1, ?E2, ?E3, ?E4, ?E5, ?E6, ?E7; auto;
      intros y; rewrite ?In_sadd; tauto.
  - destruct (submit_attempts g x r (attempts c) s1) as [ok s2] eqn:E.
    apply submit_attempts_spec in E. destruct E as [[SS _ _ _ _] _ _ _].
    destruct SS as (F1 & F2 & F3 & F4 & F5 & F6 & F7).
    destruct ok.
    + destruct (negb (scheduled (attr g x))).
      * constructor; unfold inprog_remove, completed_add, rec_set_status, inprog_add; sp;
          rewrite ?F1, ?F2, ?F3, ?F4, ?F5, ?F6, ?F7, ?E1, ?E2, ?E3, ?E4, ?E5, ?E6, ?E7; auto;
          intros y; rewrite ?In_srem, ?In_sadd; tauto.
      * constructor; unfold inprog_add; sp;
          rewrite ?F1, ?F2, ?F3, ?F4, ?F5, ?F6, ?F7, ?E1, ?E2, ?E3, ?E4, ?E5, ?E6, ?E7; auto;
          intros y; rewrite ?In_sadd; tauto.
    + pose proof (mfl_frame (bfs_subtree g x) (inprog_remove x s2)) as M.
      destruct M as (M1 & M2 & M3 & M4 & M5 & M6 & _).
      constructor; rewrite ?M1, ?M2, ?M3, ?M4, ?M5, ?M6; try intros y; rewrite ?mfl_failed;
        unfold inprog_remove; sp;
        rewrite ?F1, ?F2, ?F3, ?F4, ?F5, ?F6, ?F7, ?E1, ?E2, ?E3, ?E4, ?E5, ?E6, ?E7; auto;
        rewrite ?In_srem; tauto.
Qed.

Lemma Inv_inc_restarts g x s : Inv g s -> Inv g (rec_inc_restarts x s).
Proof.
  apply Inv_same; [repeat split|]. split; [apply len_recs_inc_restarts|].
  intros y. rewrite status_inc_restarts. auto.
Qed.

(** nodes waiting in the two sweep accumulators are not tracked *)
Definition Pend (g : graph) (s : st) (cl ca : list nat) : Prop :=
  forall y, In y cl \/ In y ca -> y < length g /\ ~ In y (completed s) /\ ~ In y (inprog s) /\ ~ In y (ready s).

Lemma pend_bfs g s x : WF g -> Inv g s -> In x (inprog s) -> forall y, In y (bfs_subtree g x) ->
  y < length g /\ ~ In y (completed s) /\ ~ In y (srem x (inprog s)) /\ ~ In y (ready s).
Proof.
  intros W I Hx y Hy.
  assert (Hl : x < length g) by (apply (i_bound g s I); auto).
  assert (Hc : ~ In x (completed s)) by (intros H; exact (i_dj_ci g s I x H Hx)).
  split; [eapply bfs_subtree_lt; eauto|]. rewrite In_srem.
  destruct (Nat.eq_dec y x) as [->|Hne].
  - split; auto. split; [tauto|]. apply (i_dj_ir g s I); auto.
  - assert (R : reach g x y) by (apply bfs_subtree_sound; auto).
    destruct (desc_untracked g s x y W I R (fun E => Hne (eq_sym E)) Hc) as (A & B & C). tauto.
Qed.

(** facts about a node that is in progress *)
Lemma inprog_facts g s x : Inv g s -> In x (inprog s) ->
  x < length g /\ ~ In x (completed s) /\ ~ In x (ready s) /\ ~ In x (failed s) /\ ~ In x (cancelled s) /\
  incl (parents (attr g x)) (completed s) /\ status (getrec s x) <> INITIALIZED.
Proof.
  intros I Hx. splits.
  - apply (i_bound g s I); auto.
  - intros H; exact (i_dj_ci g s I x H Hx).
  - apply (i_dj_ir g s I); auto.
  - intros H. destruct (i_dj_fc g s I x (or_introl H)) as (_ & A & _). auto.
  - intros H. destruct (i_dj_fc g s I x (or_intror H)) as (_ & A & _). auto.
  - apply (i_anc g s I). auto.
  - apply (i_init g s I). auto.
Qed.

Definition hr_out (g : graph) (x : nat) (s : st) (r : st * list nat * list nat) : Prop :=
  let '(s', cl', ca') := r in
  Inv g s' /\ Pend g s' cl' ca' /\
  (forall y, In y (inprog s') -> In y (inprog s)) /\
  (forall y, y <> x -> In y (inprog s) -> In y (inprog s')).

Lemma Inv_handle_report c g s cl ca x o : WF g -> Inv g s -> Pend g s cl ca -> In x (inprog s) -> dry c = false ->
  hr_out g x s (handle_report_gen c g (s, cl, ca) (x, o)).
Proof.
  intros W I P Hx D.
  destruct (inprog_facts g s x I Hx) as (Hl & Hc & Hr & Hf & Hca & Hp & Hi).
  assert (Px : forall y, In y cl \/ In y ca -> y <> x).
  { intros y Hy E. subst y. destruct (P x Hy) as (_ & _ & A & _). auto. }
  assert (Keep : hr_out g x s (s, cl, ca)) by (unfold hr_out; splits; auto).
  assert (PB := pend_bfs g s x W I Hx).
  unfold handle_report_gen.
  destruct o as [[]|]; cbn [oeqb state_eqb]; try exact Keep.
  - (* RUNNING *)
    unfold hr_out. splits; auto. apply Inv_set_status; [discriminate|auto].
  - (* FINISHED *)
    unfold hr_out. splits.
    + apply (Inv_finish g x (rec_set_status x FINISHED s)); auto. apply Inv_set_status; [discriminate|auto].
    + intros y Hy. destruct (P y Hy) as (A & B & C & E). specialize (Px y Hy).
      unfold inprog_remove, completed_add, rec_set_status. sp. rewrite In_sadd, In_srem. tauto.
    + intros y. unfold inprog_remove, completed_add, rec_set_status. sp. rewrite In_srem. tauto.
    + intros y Hy. unfold inprog_remove, completed_add, rec_set_status. sp. rewrite In_srem. tauto.
  - (* FAILED *)
    unfold hr_out. splits.
    + apply Inv_set_status; [discriminate|]. apply Inv_inprog_remove; auto.
    + intros y Hy. unfold inprog_remove, rec_set_status. sp. rewrite In_set_union in Hy.
      destruct Hy as [[Hy|Hy]|Hy]; [apply PB; auto| |]; destruct (P y (ltac:(tauto))) as (A & B & C & E);
        rewrite In_srem; tauto.
    + intros y. unfold inprog_remove, rec_set_status. sp. rewrite In_srem. tauto.
    + intros y Hy. unfold inprog_remove, rec_set_status. sp. rewrite In_srem. tauto.
  - (* HWFAILURE *)
    unfold hr_out. splits.
    + apply Inv_ready_push; unfold inprog_remove; sp; auto; try (rewrite In_srem; tauto).
      apply Inv_inprog_remove; auto.
    + intros y Hy. destruct (P y Hy) as (A & B & C & E). specialize (Px y Hy).
      unfold inprog_remove, ready_push. sp. rewrite In_srem, in_app_iff. cbn. intuition.
    + intros y. unfold inprog_remove, ready_push. sp. rewrite In_srem. tauto.
    + intros y Hy. unfold inprog_remove, ready_push. sp. rewrite In_srem. tauto.
  - (* TIMEDOUT *)
    destruct (has_restart (attr g x) && negb (canceled s)) eqn:HR.
    + unfold mark_restart_gen.
      set (s1 := rec_set_status x TIMEDOUT s).
      assert (I1 : Inv g s1) by (apply Inv_set_status; [discriminate|auto]).
      destruct ((rlimit (attr g x) =? 0) || (restarts (getrec s1 x) <? rlimit (attr g x))).
      * set (s2 := rec_inc_restarts x s1).
        assert (I2 : Inv g s2) by (apply Inv_inc_restarts; auto).
        pose proof (execute_record_sets c g x true s2) as ES.
        unfold hr_out. splits.
        -- apply Inv_execute_record; auto. rewrite D. discriminate.
        -- intros y Hy. destruct (P y Hy) as (A & B & C & E). specialize (Px y Hy). splits; auto.
           ++ intros H. apply (er_c2 _ _ _ _ ES) in H. tauto.
           ++ intros H. apply (er_i2 _ _ _ _ ES) in H. tauto.
           ++ rewrite (er_ready _ _ _ _ ES). exact E.
        -- intros y H. apply (er_i2 _ _ _ _ ES) in H. destruct H as [->|H]; auto.
        -- intros y Hn H. apply (er_i1 _ _ _ _ ES); auto.
      * unfold hr_out. splits.
        -- apply Inv_inprog_remove; auto.
        -- intros y Hy. unfold inprog_remove, s1, rec_set_status. sp. rewrite In_set_union in Hy.
           destruct Hy as [[Hy|Hy]|Hy]; [apply PB; auto| |]; destruct (P y (ltac:(tauto))) as (A & B & C & E);
             rewrite In_srem; tauto.
        -- intros y. unfold inprog_remove, s1, rec_set_status. sp. rewrite In_srem. tauto.
        -- intros y Hy. unfold inprog_remove, s1, rec_set_status. sp. rewrite In_srem. tauto.
    + unfold hr_out. splits.
      * apply Inv_failed_add; auto.
        -- apply Inv_inprog_remove. apply Inv_set_status; [discriminate|auto].
        -- unfold inprog_remove. sp. rewrite In_srem. tauto.
        -- change (status (getrec (rec_set_status x TIMEDOUT s) x) <> INITIALIZED).
           rewrite getrec_set_status_eq; [discriminate|]. rewrite (i_len_recs g s I). exact Hl.
      * intros y Hy. unfold failed_add, inprog_remove, rec_set_status. sp. rewrite In_srem, In_set_union in Hy.
        destruct Hy as [[_ [Hy|Hy]]|Hy]; [apply PB; auto| |]; destruct (P y (ltac:(tauto))) as (A & B & C & E);
          rewrite In_srem; tauto.
      * intros y. unfold failed_add, inprog_remove, rec_set_status. sp. rewrite In_srem. tauto.
      * intros y Hy. unfold failed_add, inprog_remove, rec_set_status. sp. rewrite In_srem. tauto.
  - (* UNKNOWN *)
    unfold hr_out. splits.
    + apply Inv_inprog_remove. apply Inv_set_status; [discriminate|auto].
    + intros y Hy. unfold inprog_remove, rec_set_status. sp. rewrite In_set_union in Hy.
      destruct Hy as [[Hy|Hy]|Hy]; [apply PB; auto| |]; destruct (P y (ltac:(tauto))) as (A & B & C & E);
        rewrite In_srem; tauto.
    + intros y. unfold inprog_remove, rec_set_status. sp. rewrite In_srem. tauto.
    + intros y Hy. unfold inprog_remove, rec_set_status. sp. rewrite In_srem. tauto.
  - (* CANCELLED *)
    unfold hr_out. splits.
    + apply Inv_set_status; [discriminate|]. apply Inv_inprog_remove; auto.
    + intros y Hy. unfold inprog_remove, rec_set_status. sp. rewrite In_set_union in Hy.
      destruct Hy as [Hy|[Hy|Hy]]; [|apply PB; auto|]; destruct (P y (ltac:(tauto))) as (A & B & C & E);
        rewrite In_srem; tauto.
    + intros y. unfold inprog_remove, rec_set_status. sp. rewrite In_srem. tauto.
    + intros y Hy. unfold inprog_remove, rec_set_status. sp. rewrite In_srem. tauto.
Qed.

Lemma Inv_fold_reports c g reps : forall s cl ca, WF g -> Inv g s -> Pend g s cl ca -> dry c = false ->
  NoDup (map fst reps) -> (forall x o, In (x, o) reps -> In x (inprog s)) ->
  let '(s', cl', ca') := fold_left (handle_report_gen c g) reps (s, cl, ca) in
  Inv g s' /\ Pend g s' cl' ca' /\ (forall y, In y (inprog s') -> In y (inprog s)).
Proof.
  induction reps as [|[x o] reps IH]; intros s cl ca W I P D Hn Hin; cbn [fold_left].
  - splits; auto.
  - assert (Hx : In x (inprog s)) by (eapply Hin; left; reflexivity).
    pose proof (Inv_handle_report c g s cl ca x o W I P Hx D) as H.
    destruct (handle_report_gen c g (s, cl, ca) (x, o)) as [[s1 cl1] ca1].
    destruct H as (I1 & P1 & A1 & B1).
    cbn [map fst] in Hn. inversion Hn as [|? ? Hnx Hn']; subst.
    specialize (IH s1 cl1 ca1 W I1 P1 D Hn').
    assert (Hin' : forall y o', In (y, o') reps -> In y (inprog s1)).
    { intros y o' Hy. apply B1.
      - intros ->. apply Hnx. apply in_map_iff. exists (x, o'). auto.
      - eapply Hin. right. exact Hy. }
    specialize (IH Hin').
    destruct (fold_left (handle_report_gen c g) reps (s1, cl1, ca1)) as [[s' cl'] ca'].
    destruct IH as (I' & P' & A'). splits; auto.
Qed.

Lemma Inv_sweeps g s cl ca : Inv g s -> Pend g s cl ca ->
  Inv g (mark_cancelled_list ca (mark_failed_list cl s)).
Proof.
  intros I P. destruct (mfl_frame cl s) as (M1 & M2 & M3 & _).
  apply Inv_mark_cancelled_list.
  - apply Inv_mark_failed_list; auto.
  - intros y Hy. rewrite M1, M2, M3. apply P. auto.
Qed.

Lemma inprog_sweeps s cl ca : inprog (mark_cancelled_list ca (mark_failed_list cl s)) = inprog s.
Proof.
  destruct (mfl_frame cl s) as (_ & M2 & _). destruct (mcl_frame ca (mark_failed_list cl s)) as (_ & N2 & _).
  congruence.
Qed.

Lemma Inv_dispatch c g reps s : WF g -> Inv g s -> (dry c = false \/ reps = []) ->
  NoDup (map fst reps) -> (forall x o, In (x, o) reps -> In x (inprog s)) ->
  Inv g (dispatch_gen c g reps s) /\ (forall y, In y (inprog (dispatch_gen c g reps s)) -> In y (inprog s)).
Proof.
  intros W I D Hn Hin. unfold dispatch_gen. destruct D as [D| ->].
  - assert (P0 : Pend g s [] []) by (intros y [[]|[]]).
    pose proof (Inv_fold_reports c g reps s [] [] W I P0 D Hn Hin) as H.
    destruct (fold_left (handle_report_gen c g) reps (s, [], [])) as [[s' cl'] ca'].
    destruct H as (I' & P' & A'). split; [apply Inv_sweeps; auto|].
    intros y. rewrite inprog_sweeps. auto.
  - cbn [fold_left]. rewrite mfl_nil, mcl_nil. auto.
Qed.

(** the staging loop *)
Definition frame_stage (s s' : st) : Prop :=
  completed s' = completed s /\ inprog s' = inprog s /\ failed s' = failed s /\ cancelled s' = cancelled s /\
  recs s' = recs s /\ canceled s' = canceled s /\ evs s' = evs s /\ subs s' = subs s /\ next_job s' = next_job s.

Lemma frame_stage_refl s : frame_stage s s.
Proof. repeat split. Qed.
Lemma frame_stage_trans a b d : frame_stage a b -> frame_stage b d -> frame_stage a d.
Proof. unfold frame_stage. intuition congruence. Qed.

Lemma stage_node_frame g s x : frame_stage s (stage_node_gen g s x).
Proof.
  unfold stage_node_gen. destruct (mem x (completed s)); [apply frame_stage_refl|].
  destruct (state_eqb (status (getrec s x)) INITIALIZED); [|apply frame_stage_refl].
  destruct (is_nil (getdeps (deps_prune x s) x)); [|repeat split].
  destruct (negb (mem x (ready (deps_prune x s)))); repeat split.
Qed.

Lemma stage_fold_frame g l : forall s, frame_stage s (fold_left (stage_node_gen g) l s).
Proof.
  induction l as [|a l IH]; intros s; cbn [fold_left]; [apply frame_stage_refl|].
  eapply frame_stage_trans; [apply stage_node_frame|apply IH].
Qed.

Lemma state_eqb_eq a b : state_eqb a b = true <-> a = b.
Proof. destruct a, b; cbn; split; intros H; try reflexivity; try discriminate. Qed.

Lemma Inv_stage_node g s x : Inv g s -> x < length g -> Inv g (stage_node_gen g s x).
Proof.
  intros I Hx. unfold stage_node_gen.
  destruct (mem x (completed s)) eqn:Mc; auto.
  destruct (state_eqb (status (getrec s x)) INITIALIZED) eqn:Es; auto.
  apply state_eqb_eq in Es. apply mem_false in Mc.
  pose proof (Inv_deps_prune g x s I) as I1.
  destruct (is_nil (getdeps (deps_prune x s) x)) eqn:En; auto.
  destruct (negb (mem x (ready (deps_prune x s)))) eqn:Er; auto.
  apply negb_true_iff, mem_false in Er.
  apply Inv_ready_push; auto; try exact Mc.
  - intros H. apply (i_init g s I x); auto.
  - intros H. apply (i_init g s I x); auto.
  - intros H. apply (i_init g s I x); auto.
  - intros p Hp. destruct (i_deps g _ I1 x p Hx Hp) as [H|H]; auto.
    destruct (getdeps (deps_prune x s) x); [destruct H|discriminate].
Qed.

Lemma Inv_stage g l : forall s, Inv g s -> (forall x, In x l -> x < length g) ->
  Inv g (fold_left (stage_node_gen g) l s).
Proof.
  induction l as [|a l IH]; intros s I H; cbn [fold_left]; auto.
  apply IH; [apply Inv_stage_node; auto; apply H; left; reflexivity|].
  intros x Hx. apply H. right. exact Hx.
Qed.

(** the launch loop *)
Lemma ready_head_facts g s x rest : Inv g s -> ready s = x :: rest ->
  x < length g /\ ~ In x (completed s) /\ ~ In x (inprog s) /\ ~ In x rest /\ ~ In x (failed s) /\
  ~ In x (cancelled s) /\ incl (parents (attr g x)) (completed s).
Proof.
  intros I E.
  assert (Hr : In x (ready s)) by (rewrite E; left; reflexivity).
  splits.
  - apply (i_bound g s I). auto.
  - intros H. exact (i_dj_cr g s I x H Hr).
  - intros H. exact (i_dj_ir g s I x H Hr).
  - pose proof (i_nd_ready g s I) as N. rewrite E in N. inversion N; auto.
  - intros H. destruct (i_dj_fc g s I x (or_introl H)) as (_ & _ & A). auto.
  - intros H. destruct (i_dj_fc g s I x (or_intror H)) as (_ & _ & A). auto.
  - apply (i_anc g s I). auto.
Qed.

Lemma Inv_launch_body c g s : WF g -> Inv g s -> Inv g (launch_body_gen c g s).
Proof.
  intros W I. unfold launch_body_gen. destruct (ready s) as [|x rest] eqn:E; auto.
  destruct (ready_head_facts g s x rest I E) as (Hl & Hc & Hi & Hr & Hf & Hca & Hp).
  pose proof (Inv_pop g x rest s I E) as I1.
  change (canceled (set_ready s rest)) with (canceled s). destruct (canceled s).
  - change (Inv g (rec_set_status x CANCELLED (cancelled_add x (set_ready s rest)))).
    apply Inv_cancelled_mark; auto. discriminate.
  - apply Inv_execute_record; auto. discriminate.
Qed.

Lemma length_inprog_launch_body c g s :
  length (inprog (launch_body_gen c g s)) <= S (length (inprog s)).
Proof.
  unfold launch_body_gen. destruct (ready s) as [|x rest]; [lia|].
  change (canceled (set_ready s rest)) with (canceled s). destruct (canceled s).
  - unfold cancelled_add, rec_set_status. sp. lia.
  - destruct (length_inprog_execute_record c g x false (set_ready s rest)) as [A _]. exact A.
Qed.

Lemma Inv_launch c g n : forall s, WF g -> Inv g s ->
  Inv g (Nat.iter n (launch_body_gen c g) s) /\
  length (inprog (Nat.iter n (launch_body_gen c g) s)) <= n + length (inprog s).
Proof.
  induction n as [|n IH]; intros s W I; cbn [Nat.iter nat_rect]; [split; auto|].
  destruct (IH s W I) as [I1 L1]. split; [apply Inv_launch_body; auto|].
  pose proof (length_inprog_launch_body c g (Nat.iter n (launch_body_gen c g) s)). 
  unfold Nat.iter in *. lia.
Qed.

(** * The poll *)
Lemma init_Inv g : Inv g (init g).
Proof.
  constructor; unfold init, getdeps, getrec; cbn; try tauto; try (apply map_length); try (apply NoDup_nil).
  intros x p Hx Hp. left.
  rewrite nth_indep with (d' := parents dflt_attr) by (rewrite map_length; exact Hx).
  rewrite map_nth. exact Hp.
Qed.

Lemma init_Thr c g : Thr c (init g).
Proof. intros _. cbn. lia. Qed.

Lemma Thr_le c s s' : length (inprog s') <= length (inprog s) -> Thr c s -> Thr c s'.
Proof. unfold Thr. intros H T Hp. specialize (T Hp). lia. Qed.

Lemma ers_Inv c g p s : WF g -> Inv g s -> Thr c s -> valid_pin s p = true ->
  Inv g (fst (execute_ready_steps_gen c g p s)) /\ Thr c (fst (execute_ready_steps_gen c g p s)).
Proof.
  intros W I T V. apply valid_pin_spec in V. destruct V as [Vn Vi].
  unfold execute_ready_steps_gen.
  set (s1 := if negb (dry c) then emit (ECheck (map (lastjob s) (inprog s))) s else s).
  assert (I1 : Inv g s1) by (subst s1; destruct (negb (dry c)); [apply Inv_emit|]; auto).
  assert (E1 : inprog s1 = inprog s) by (subst s1; destruct (negb (dry c)); reflexivity).
  set (q := if negb (dry c) then qcode p else QOK).
  set (reps := if negb (dry c) then reports p else []).
  destruct (qcode_eqb q QERROR); cbn [fst].
  - split; auto. eapply Thr_le; [|exact T]. rewrite E1. lia.
  - set (s2 := if qcode_eqb q QOK then dispatch_gen c g reps s1 else s1).
    assert (H2 : Inv g s2 /\ (forall y, In y (inprog s2) -> In y (inprog s1))).
    { subst s2. destruct (qcode_eqb q QOK); [|split; auto].
      apply Inv_dispatch; auto.
      - subst reps. destruct (dry c); cbn; auto.
      - subst reps. destruct (negb (dry c)); [exact Vn|constructor].
      - subst reps. rewrite E1. destruct (negb (dry c)); [exact Vi|intros ? ? []]. }
    destruct H2 as [I2 A2].
    assert (L2 : length (inprog s2) <= length (inprog s)).
    { rewrite <- E1. apply NoDup_incl_length; [apply (i_nd_inprog g s2 I2)|exact A2]. }
    set (s3 := fold_left (stage_node_gen g) (seq 0 (length g)) s2).
    assert (I3 : Inv g s3) by (apply Inv_stage; auto; intros x Hx; apply In_seq_lt; exact Hx).
    assert (E3 : inprog s3 = inprog s2) by (destruct (stage_fold_frame g (seq 0 (length g)) s2) as (_ & A & _); exact A).
    destruct (Inv_launch c g (available_gen c s3) s3 W I3) as [I4 L4]. split; auto.
    intros Hp. specialize (T Hp). unfold available_gen in *.
    destruct (throttle c =? 0) eqn:Z; [apply Nat.eqb_eq in Z; lia|].
    rewrite E3 in *. lia.
Qed.

Theorem poll_Inv c g s p : WF g -> Inv g s -> Thr c s -> valid_pin s p = true ->
  Inv g (fst (poll c g s p)) /\ Thr c (fst (poll c g s p)).
Proof.
  intros W I T V. unfold poll.
  set (s0 := set_evs (set_subs s (psubs p)) []).
  assert (I0 : Inv g s0) by (apply Inv_set_evs, Inv_set_subs; auto).
  set (s1 := if cancel_req p then cancel_study_gen s0 else s0).
  assert (I1 : Inv g s1).
  { subst s1. destruct (cancel_req p); auto. unfold cancel_study_gen. apply Inv_set_canceled, Inv_emit. auto. }
  assert (E1 : inprog s1 = inprog s) by (subst s1; destruct (cancel_req p); reflexivity).
  apply ers_Inv; auto.
  - eapply Thr_le; [|exact T]. rewrite E1. lia.
  - unfold valid_pin in *. rewrite E1. exact V.
Qed.

Corollary poll_Inv_let c g s p : WF g -> Inv g s -> Thr c s -> valid_pin s p = true ->
  let '(s', r) := poll c g s p in Inv g s' /\ Thr c s'.
Proof. intros W I T V. pose proof (poll_Inv c g s p W I T V) as H. destruct (poll c g s p). exact H. Qed.

Theorem run_states_Inv c g ps : forall s, WF g -> Inv g s -> Thr c s -> valid_pins c g s ps = true ->
  forall s' r, In (s', r) (run_states c g s ps) -> Inv g s' /\ Thr c s'.
Proof.
  induction ps as [|p ps IH]; intros s W I T V s' r Hin; cbn [run_states] in Hin; [destruct Hin|].
  cbn [valid_pins] in V. apply andb_true_iff in V. destruct V as [V1 V2].
  pose proof (poll_Inv c g s p W I T V1) as H.
  destruct (poll c g s p) as [s1 r1]. cbn [fst] in H.
  destruct r1; try (destruct Hin as [Hin|[]]; inversion Hin; subst; exact H).
  destruct Hin as [Hin|Hin]; [inversion Hin; subst; exact H|].
  destruct H as [I1 T1]. eapply IH; eauto.
Qed.

(** Coupling, part 4: the status rows.  Second pass over the generated
    decision logic for the end-of-poll verdicts (codes 44, 46, 47, 31):
    [X]  rows FINISHED/DRYRUN <-> completed,
    [R2] rows FAILED/CANCELLED -> failed or cancelled (or waiting in a sweep accumulator),
    [SR] two-state facts: resolved sets only grow, resolved rows stay resolved,
         no row returns to INITIALIZED. *)
From Coq Require Import Lia Relations.
From Hammer Require Import Tactics.
From MWF Require Import Base.Util Base.UtilLemmas Exec.ExecBase Exec.ExecGen Exec.ExecRun Exec.ExecTrace
  Exec.ExecGraph Exec.ExecInv Exec.ExecLedger Exec.ExecLedger2.

Definition stat (s : st) (y : nat) : State := status (getrec s y).
Definition fin_of (c : cfg) : State := if dry c then DRYRUN else FINISHED.

Record X (c : cfg) (s : st) : Prop := {
  x_r1 : forall y, stat s y = FINISHED \/ stat s y = DRYRUN -> In y (completed s);
  x_r3 : forall y, In y (completed s) -> stat s y = fin_of c }.

Definition R2 (A : nat -> Prop) (s : st) : Prop :=
  forall y, fc_row (stat s y) = true -> In y (failed s) \/ In y (cancelled s) \/ A y.

(** events a poll emits after its query: only script generation and submissions *)
Definition quiet_ev (e : event) : Prop := match e with EGen _ | ESubmit _ _ _ _ => True | _ => False end.
Definition ext (s s' : st) : Prop := exists l, evs s' = l ++ evs s /\ Forall quiet_ev l.

Record SR (s s' : st) : Prop := {
  sr_comp : forall y, In y (completed s) -> In y (completed s');
  sr_fc : forall y, In y (failed s) \/ In y (cancelled s) -> In y (failed s') \/ In y (cancelled s');
  sr_row : forall y, In y (failed s) \/ In y (cancelled s) -> fc_row (stat s y) = true -> fc_row (stat s' y) = true;
  sr_ni : forall y, stat s y <> INITIALIZED -> stat s' y <> INITIALIZED;
  sr_deps : forall x, incl (getdeps s' x) (getdeps s x);
  sr_evs : ext s s' }.

Lemma ext_refl s : ext s s.
Proof. exists []. split; [reflexivity|constructor]. Qed.
Lemma ext_trans a b d : ext a b -> ext b d -> ext a d.
Proof.
  intros [l1 [A5 A6]] [l2 [B5 B6]]. exists (l2 ++ l1). split; [rewrite B5, A5, app_assoc; reflexivity|].
  apply Forall_app. auto.
Qed.
Lemma ext_same s s' : evs s' = evs s -> ext s s'.
Proof. intros E. exists []. split; [exact E|constructor]. Qed.

Lemma SR_refl s : SR s s.
Proof. constructor; auto. - intros x. apply incl_refl. - apply ext_refl. Qed.
Lemma SR_trans a b d : SR a b -> SR b d -> SR a d.
Proof.
  intros [A1 A2 A3 A4 A5 A6] [B1 B2 B3 B4 B5 B6]. constructor; auto.
  - intros x. eapply incl_tran; eauto.
  - eapply ext_trans; eauto.
Qed.

(** a step that leaves the rows and the resolved sets alone *)
Lemma SR_quiet s s' : (forall y, stat s' y = stat s y) -> completed s' = completed s -> failed s' = failed s ->
  cancelled s' = cancelled s -> deps s' = deps s -> ext s s' -> SR s s'.
Proof.
  intros E1 E2 E3 E4 E6 E5. constructor; auto; intros y; unfold getdeps; rewrite ?E1, ?E2, ?E3, ?E4, ?E6; auto.
  apply incl_refl.
Qed.
Lemma X_quiet c s s' : (forall y, stat s' y = stat s y) -> completed s' = completed s -> X c s -> X c s'.
Proof. intros E1 E2 [A B]. constructor; intros y; rewrite ?E1, ?E2; auto. Qed.
Lemma R2_quiet A s s' : (forall y, stat s' y = stat s y) -> failed s' = failed s -> cancelled s' = cancelled s ->
  R2 A s -> R2 A s'.
Proof. intros E1 E2 E3 H y. rewrite E1, E2, E3. apply H. Qed.

(** views of the elementary combinators *)
Definition nrecs (s : st) : nat := length (recs s).

Lemma stat_rss x v s y :
  stat (rec_set_status x v s) y = if (y =? x) && (x <? nrecs s) then v else stat s y.
Proof.
  unfold stat, nrecs. destruct (Nat.eqb_spec y x) as [->|Hn]; cbn [andb].
  - destruct (Nat.ltb_spec x (length (recs s))).
    + rewrite getrec_set_status_eq by auto. reflexivity.
    + unfold getrec, rec_set_status. cbn. rewrite nth_upd_ge; auto.
  - rewrite getrec_set_status_neq by auto. reflexivity.
Qed.
Lemma stat_inc x s y : stat (rec_inc_restarts x s) y = stat s y.
Proof. apply status_inc_restarts. Qed.
Lemma stat_push x j s y : stat (rec_push_job x j s) y = stat s y.
Proof. apply status_push_job. Qed.
Lemma stat_completed_add x s y : stat (completed_add x s) y = stat s y. Proof. reflexivity. Qed.
Lemma stat_inprog_add x s y : stat (inprog_add x s) y = stat s y. Proof. reflexivity. Qed.
Lemma stat_inprog_remove x s y : stat (inprog_remove x s) y = stat s y. Proof. reflexivity. Qed.
Lemma stat_failed_add x s y : stat (failed_add x s) y = stat s y. Proof. reflexivity. Qed.
Lemma stat_cancelled_add x s y : stat (cancelled_add x s) y = stat s y. Proof. reflexivity. Qed.
Lemma stat_ready_push x s y : stat (ready_push x s) y = stat s y. Proof. reflexivity. Qed.
Lemma stat_deps_prune x s y : stat (deps_prune x s) y = stat s y. Proof. reflexivity. Qed.
Lemma stat_emit e s y : stat (emit e s) y = stat s y. Proof. reflexivity. Qed.
Lemma stat_set_ready s r y : stat (set_ready s r) y = stat s y. Proof. reflexivity. Qed.
Lemma stat_set_canceled s r y : stat (set_canceled s r) y = stat s y. Proof. reflexivity. Qed.
Lemma stat_set_next_job s r y : stat (set_next_job s r) y = stat s y. Proof. reflexivity. Qed.
Lemma stat_set_subs s r y : stat (set_subs s r) y = stat s y. Proof. reflexivity. Qed.

Lemma nrecs_rss x v s : nrecs (rec_set_status x v s) = nrecs s.
Proof. apply len_recs_set_status. Qed.
Lemma nrecs_inc x s : nrecs (rec_inc_restarts x s) = nrecs s.
Proof. unfold nrecs, rec_inc_restarts. cbn. apply length_upd. Qed.
Lemma nrecs_push x j s : nrecs (rec_push_job x j s) = nrecs s.
Proof. unfold nrecs, rec_push_job. cbn. apply length_upd. Qed.
Lemma nrecs_completed_add x s : nrecs (completed_add x s) = nrecs s. Proof. reflexivity. Qed.
Lemma nrecs_inprog_add x s : nrecs (inprog_add x s) = nrecs s. Proof. reflexivity. Qed.
Lemma nrecs_inprog_remove x s : nrecs (inprog_remove x s) = nrecs s. Proof. reflexivity. Qed.
Lemma nrecs_failed_add x s : nrecs (failed_add x s) = nrecs s. Proof. reflexivity. Qed.
Lemma nrecs_cancelled_add x s : nrecs (cancelled_add x s) = nrecs s. Proof. reflexivity. Qed.
Lemma nrecs_ready_push x s : nrecs (ready_push x s) = nrecs s. Proof. reflexivity. Qed.
Lemma nrecs_deps_prune x s : nrecs (deps_prune x s) = nrecs s. Proof. reflexivity. Qed.
Lemma nrecs_emit e s : nrecs (emit e s) = nrecs s. Proof. reflexivity. Qed.
Lemma nrecs_set_ready s r : nrecs (set_ready s r) = nrecs s. Proof. reflexivity. Qed.

Global Hint Rewrite stat_rss stat_inc stat_push stat_completed_add stat_inprog_add stat_inprog_remove
  stat_failed_add stat_cancelled_add stat_ready_push stat_deps_prune stat_emit stat_set_ready
  stat_set_canceled stat_set_next_job stat_set_subs
  nrecs_rss nrecs_inc nrecs_push nrecs_completed_add nrecs_inprog_add nrecs_inprog_remove nrecs_failed_add
  nrecs_cancelled_add nrecs_ready_push nrecs_deps_prune nrecs_emit nrecs_set_ready : vwdb.

(** [vw Hl]: normalise the views in the goal; [Hl : (x <? nrecs s) = true] *)
Ltac setcbn := cbn [completed inprog ready failed cancelled canceled deps
  set_recs set_completed set_inprog set_failed set_cancelled set_ready set_deps set_canceled set_next_job set_subs set_evs
  emit completed_add inprog_add inprog_remove failed_add cancelled_add ready_push deps_prune
  rec_set_status rec_inc_restarts rec_push_job].
Ltac vw Hl := autorewrite with vwdb; rewrite ?Hl; cbn [andb]; rewrite ?andb_true_r; setcbn;
  rewrite ?In_sadd, ?In_srem, ?in_app_iff; cbn [In].

Lemma nrecs_lt g s x : Inv g s -> x < length g -> (x <? nrecs s) = true.
Proof. intros I H. apply Nat.ltb_lt. unfold nrecs. rewrite (i_len_recs g s I). exact H. Qed.

(** views of the sweeps and of the submission loop *)
Lemma mfl_view l : forall s,
  (forall y, In y (failed (mark_failed_list l s)) <-> In y l \/ In y (failed s)) /\
  (forall y, ~ In y l -> stat (mark_failed_list l s) y = stat s y) /\
  (forall y, In y l -> stat (mark_failed_list l s) y = FAILED \/ stat (mark_failed_list l s) y = stat s y) /\
  (forall y, In y l -> y < nrecs s -> stat (mark_failed_list l s) y = FAILED) /\
  nrecs (mark_failed_list l s) = nrecs s.
Proof.
  unfold mark_failed_list. induction l as [|a l IH]; intros s; cbn [fold_left In].
  - repeat split; try tauto.
  - destruct (IH (rec_set_status a FAILED (failed_add a s))) as (A1 & A2 & A3 & A4 & A5).
    set (s1 := rec_set_status a FAILED (failed_add a s)) in *.
    assert (S1 : forall y, stat s1 y = if (y =? a) && (a <? nrecs s) then FAILED else stat s y).
    { intros y. unfold s1. autorewrite with vwdb. reflexivity. }
    assert (N1 : nrecs s1 = nrecs s) by (unfold s1; autorewrite with vwdb; reflexivity).
    split; [|split; [|split; [|split]]].
    + intros y. rewrite A1. unfold s1. setcbn. rewrite In_sadd. intuition.
    + intros y Hy. rewrite A2 by tauto. rewrite S1. destruct (Nat.eqb_spec y a); [subst; tauto|reflexivity].
    + intros y Hy. destruct (in_dec Nat.eq_dec y l) as [Hi|Hi].
      * destruct (A3 y Hi) as [H|H]; auto. rewrite H, S1. destruct ((y =? a) && (a <? nrecs s)); auto.
      * rewrite A2 by auto. rewrite S1. destruct ((y =? a) && (a <? nrecs s)); auto.
    + intros y Hy Hl. destruct (in_dec Nat.eq_dec y l) as [Hi|Hi].
      * apply A4; auto. rewrite N1. exact Hl.
      * rewrite A2 by auto. rewrite S1. destruct Hy as [->|Hy]; [|contradiction].
        rewrite Nat.eqb_refl. apply Nat.ltb_lt in Hl. rewrite Hl. reflexivity.
    + rewrite A5. exact N1.
Qed.

Lemma mcl_view l : forall s,
  (forall y, In y (cancelled (mark_cancelled_list l s)) <-> In y l \/ In y (cancelled s)) /\
  (forall y, ~ In y l -> stat (mark_cancelled_list l s) y = stat s y) /\
  (forall y, In y l -> stat (mark_cancelled_list l s) y = CANCELLED \/ stat (mark_cancelled_list l s) y = stat s y) /\
  nrecs (mark_cancelled_list l s) = nrecs s.
Proof.
  unfold mark_cancelled_list. induction l as [|a l IH]; intros s; cbn [fold_left In].
  - repeat split; try tauto.
  - destruct (IH (rec_set_status a CANCELLED (cancelled_add a s))) as (A1 & A2 & A3 & A5).
    set (s1 := rec_set_status a CANCELLED (cancelled_add a s)) in *.
    assert (S1 : forall y, stat s1 y = if (y =? a) && (a <? nrecs s) then CANCELLED else stat s y).
    { intros y. unfold s1. autorewrite with vwdb. reflexivity. }
    assert (N1 : nrecs s1 = nrecs s) by (unfold s1; autorewrite with vwdb; reflexivity).
    split; [|split; [|split]].
    + intros y. rewrite A1. unfold s1. setcbn. rewrite In_sadd. intuition.
    + intros y Hy. rewrite A2 by tauto. rewrite S1. destruct (Nat.eqb_spec y a); [subst; tauto|reflexivity].
    + intros y Hy. destruct (in_dec Nat.eq_dec y l) as [Hi|Hi].
      * destruct (A3 y Hi) as [H|H]; auto. rewrite H, S1. destruct ((y =? a) && (a <? nrecs s)); auto.
      * rewrite A2 by auto. rewrite S1. destruct ((y =? a) && (a <? nrecs s)); auto.
    + rewrite A5. exact N1.
Qed.

Lemma submit_attempts_S g x restart n s :
  submit_attempts g x restart (S n) s =
    (let s := if restart then emit (EGen x) s else rec_set_status x PENDING s in
     let s := if scheduled (attr g x) then s else rec_set_status x RUNNING s in
     let '(b, s) := next_sub s in
     let k := if restart then Restart else Main in
     if b then
       let j := next_job s in
       (true, emit (ESubmit x k (scheduled (attr g x)) (Some j)) (rec_push_job x j (set_next_job s (S j))))
     else submit_attempts g x restart n (emit (ESubmit x k (scheduled (attr g x)) None) s)).
Proof. reflexivity. Qed.

Lemma next_sub_stat s y : stat (snd (next_sub s)) y = stat s y /\ nrecs (snd (next_sub s)) = nrecs s.
Proof. unfold next_sub. destruct (subs s); split; reflexivity. Qed.

Lemma submit_attempts_stat g x restart n : forall s,
  (forall y, y <> x -> stat (snd (submit_attempts g x restart n s)) y = stat s y) /\
  (stat (snd (submit_attempts g x restart n s)) x = stat s x \/
   stat (snd (submit_attempts g x restart n s)) x = PENDING \/
   stat (snd (submit_attempts g x restart n s)) x = RUNNING) /\
  nrecs (snd (submit_attempts g x restart n s)) = nrecs s /\
  same_sets s (snd (submit_attempts g x restart n s)) /\
  ext s (snd (submit_attempts g x restart n s)).
Proof.
  induction n as [|n IH]; intros s; [repeat split; auto; apply ext_refl|].
  rewrite submit_attempts_S. cbv zeta.
  set (s2 := if scheduled (attr g x)
             then if restart then emit (EGen x) s else rec_set_status x PENDING s
             else rec_set_status x RUNNING (if restart then emit (EGen x) s else rec_set_status x PENDING s)).
  assert (S2 : (forall y, y <> x -> stat s2 y = stat s y) /\
               (stat s2 x = stat s x \/ stat s2 x = PENDING \/ stat s2 x = RUNNING) /\ nrecs s2 = nrecs s /\
               same_sets s s2 /\ ext s s2).
  { unfold s2. destruct (scheduled (attr g x)), restart; autorewrite with vwdb;
      (split; [intros y Hy; autorewrite with vwdb; apply Nat.eqb_neq in Hy; rewrite ?Hy; reflexivity|]);
      (split; [rewrite ?Nat.eqb_refl; cbn [andb]; destruct (x <? nrecs s); auto|]);
      (split; [reflexivity|]); (split; [repeat split|]);
      first [(exists []; split; [reflexivity|constructor]) | (exists [EGen x]; split; [reflexivity|repeat constructor])]. }
  clearbody s2. destruct S2 as (B1 & B2 & B3 & B4 & B5).
  pose proof (next_sub_stat s2) as NS. pose proof (next_sub_frame s2) as NF.
  destruct (next_sub s2) as [b s3]. cbn [snd] in NS. destruct NF as (F1 & F2 & F3 & F4).
  destruct b.
  - cbn [snd]. split; [|split; [|split; [|split]]].
    + intros y Hy. autorewrite with vwdb. rewrite (proj1 (NS y)). auto.
    + autorewrite with vwdb. rewrite (proj1 (NS x)). exact B2.
    + autorewrite with vwdb. change (nrecs (set_next_job s3 (S (next_job s3)))) with (nrecs s3).
      rewrite (proj2 (NS x)). exact B3.
    + eapply same_sets_trans; [exact B4|]. eapply same_sets_trans; [exact F1|]. repeat split.
    + eapply ext_trans; [exact B5|]. eexists [_]. split.
      { cbn [evs emit set_evs rec_push_job set_recs set_next_job app]. rewrite F3. reflexivity. }
      repeat constructor.
  - destruct (IH (emit (ESubmit x (if restart then Restart else Main) (scheduled (attr g x)) None) s3)) as (C1 & C2 & C3 & C4 & C5).
    split; [|split; [|split; [|split]]].
    + intros y Hy. rewrite C1 by auto. autorewrite with vwdb. rewrite (proj1 (NS y)). auto.
    + autorewrite with vwdb in C2. rewrite (proj1 (NS x)) in C2.
      destruct C2 as [C2|[C2|C2]]; rewrite C2; auto.
    + rewrite C3. autorewrite with vwdb. rewrite (proj2 (NS x)). exact B3.
    + eapply same_sets_trans; [exact B4|]. eapply same_sets_trans; [exact F1|]. exact C4.
    + eapply ext_trans; [exact B5|]. eapply ext_trans; [|exact C5]. eexists [_]. split.
      { cbn [evs emit set_evs app]. rewrite F3. reflexivity. }
      repeat constructor.
Qed.

Lemma submit_attempts_ni g x n s : (x <? nrecs s) = true ->
  fst (submit_attempts g x false n s) = true -> stat (snd (submit_attempts g x false n s)) x <> INITIALIZED.
Proof.
  intros Hl. destruct n as [|n]; [discriminate|]. rewrite submit_attempts_S. cbv zeta.
  set (s2 := if scheduled (attr g x) then rec_set_status x PENDING s
             else rec_set_status x RUNNING (rec_set_status x PENDING s)).
  assert (S2 : stat s2 x = PENDING \/ stat s2 x = RUNNING).
  { unfold s2. destruct (scheduled (attr g x)); autorewrite with vwdb; rewrite Nat.eqb_refl, Hl; cbn [andb]; auto. }
  clearbody s2. pose proof (next_sub_stat s2 x) as [NS _]. destruct (next_sub s2) as [b s3]. cbn [snd] in NS.
  destruct b.
  - cbn [fst snd]. intros _. autorewrite with vwdb. rewrite NS. destruct S2 as [S2|S2]; rewrite S2; discriminate.
  - intros _.
    destruct (submit_attempts_stat g x false n (emit (ESubmit x Main (scheduled (attr g x)) None) s3))
      as (_ & C2 & _).
    autorewrite with vwdb in C2. rewrite NS in C2.
    destruct C2 as [C2|[C2|C2]]; rewrite C2; try discriminate. destruct S2 as [S2|S2]; rewrite S2; discriminate.
Qed.

Ltac yx y x := destruct (Nat.eq_dec y x) as [->|?Hn];
  [rewrite ?Nat.eqb_refl|rewrite ?(proj2 (Nat.eqb_neq _ _) Hn)].

Ltac fin Hd := unfold fin_of; rewrite ?Hd;
  first [ solve [tauto] | solve [intuition (subst; auto; try congruence; try discriminate)]
        | solve [timeout 20 sauto] ].

Section Pass2.
Variables (c : cfg) (g : graph).
Hypothesis W : WF g.

Lemma execute_record_x A x restart s :
  Inv g s -> x < length g -> ~ In x (completed s) -> ~ In x (failed s) -> ~ In x (cancelled s) ->
  X c s -> R2 A s ->
  let s' := execute_record_gen c g x restart s in
  X c s' /\ R2 A s' /\ SR s s' /\ (restart = false -> stat s' x <> INITIALIZED) /\ ready s' = ready s.
Proof.
  intros I Hx Hc Hf Hk Xs Rs.
  assert (Hl := nrecs_lt g s x I Hx).
  unfold execute_record_gen.
  set (s0 := if negb restart then emit (EGen x) s else s).
  assert (V0 : (forall y, stat s0 y = stat s y) /\ same_sets s s0 /\ ext s s0 /\ nrecs s0 = nrecs s).
  { unfold s0. destruct restart; cbn [negb];
      (split; [reflexivity|split; [repeat split|split; [|reflexivity]]]);
      [apply ext_refl|exists [EGen x]; split; [reflexivity|repeat constructor]]. }
  destruct V0 as (V1 & V2 & V3 & V4). pose proof V2 as (E1 & E2 & E3 & E4 & E5 & E6 & E7).
  clearbody s0.
  assert (X0 : X c s0) by (apply (X_quiet c s); auto).
  assert (R0 : R2 A s0) by (apply (R2_quiet A s); auto).
  assert (SR0 : SR s s0) by (apply SR_quiet; auto).
  rewrite <- V4 in Hl. rewrite <- E1 in Hc. rewrite <- E4 in Hf. rewrite <- E5 in Hk.
  cbv zeta.
  match goal with |- X c ?t /\ _ => set (s' := t) end.
  enough (G : X c s' /\ R2 A s' /\ SR s0 s' /\ (restart = false -> stat s' x <> INITIALIZED) /\ ready s' = ready s0).
  { destruct G as (G1 & G2 & G3 & G4 & G5). repeat (split; [assumption|]).
    split; [eapply SR_trans; eauto|]. split; [exact G4|congruence]. }
  destruct X0 as [XA XB]. unfold R2 in *. subst s'.
  destruct (dry c) eqn:Hd.
  - (* dry run *)
    unfold fin_of in *. rewrite Hd in *.
    split; [|split; [|split; [|split]]].
    + constructor; intros y; vw Hl; yx y x; fin Hd.
    + intros y; vw Hl; yx y x; fin Hd.
    + constructor; [intros y; vw Hl; yx y x; fin Hd|intros y; vw Hl; yx y x; fin Hd|intros y; vw Hl; yx y x; fin Hd
                   |intros y; vw Hl; yx y x; fin Hd|intros z; apply incl_refl|apply ext_same; reflexivity].
    + intros _. vw Hl. rewrite Nat.eqb_refl. discriminate.
    + reflexivity.
  - unfold fin_of in XB. rewrite Hd in XB.
    pose proof (submit_attempts_stat g x restart (attempts c) s0) as (S1 & S2 & S3 & S4 & S5).
    assert (NI : restart = false -> fst (submit_attempts g x restart (attempts c) s0) = true ->
                 stat (snd (submit_attempts g x restart (attempts c) s0)) x <> INITIALIZED).
    { intros ->. apply submit_attempts_ni. exact Hl. }
    destruct (submit_attempts g x restart (attempts c) s0) as [ok s1]. cbn [fst snd] in *.
    destruct S4 as (F1 & F2 & F3 & F4 & F5 & F6 & F7).
    assert (Hl1 : (x <? nrecs s1) = true) by (rewrite S3; exact Hl).
    assert (ST : forall y, (y = x /\ (stat s1 y = stat s0 y \/ stat s1 y = PENDING \/ stat s1 y = RUNNING)) \/
                           (y <> x /\ stat s1 y = stat s0 y)).
    { intros y. destruct (Nat.eq_dec y x) as [->|Hn]; [left|right]; auto. }
    clear S1 S2.
    destruct ok.
    + destruct (scheduled (attr g x)); cbn [negb].
      * (* scheduled: in progress *)
        split; [|split; [|split; [|split]]].
        -- constructor; intros y; vw Hl1; rewrite ?F1; destruct (ST y) as [[-> [S|[S|S]]]|[Hn S]]; rewrite ?S; fin Hd.
        -- intros y; vw Hl1; rewrite ?F4, ?F5; destruct (ST y) as [[-> [S|[S|S]]]|[Hn S]]; rewrite ?S; fin Hd.
        -- constructor; [intros y; vw Hl1; rewrite ?F1, ?F4, ?F5;
                              destruct (ST y) as [[-> [S|[S|S]]]|[Hn S]]; rewrite ?S; fin Hd ..| |].
           ++ intros z. unfold getdeps. cbn [deps inprog_add set_inprog]. rewrite F6. apply incl_refl.
           ++ exact S5.
        -- intros Hr. vw Hl1. apply NI; auto.
        -- exact F3.
      * (* local: completed at once *)
        split; [|split; [|split; [|split]]].
        -- constructor; intros y; vw Hl1; rewrite ?F1; destruct (ST y) as [[-> [S|[S|S]]]|[Hn S]];
             rewrite ?Nat.eqb_refl, ?(proj2 (Nat.eqb_neq _ _) Hn), ?S; fin Hd.
        -- intros y; vw Hl1; rewrite ?F4, ?F5; destruct (ST y) as [[-> [S|[S|S]]]|[Hn S]];
             rewrite ?Nat.eqb_refl, ?(proj2 (Nat.eqb_neq _ _) Hn), ?S; fin Hd.
        -- constructor; [intros y; vw Hl1; rewrite ?F1, ?F4, ?F5;
                              destruct (ST y) as [[-> [S|[S|S]]]|[Hn S]];
                              rewrite ?Nat.eqb_refl, ?(proj2 (Nat.eqb_neq _ _) Hn), ?S; fin Hd ..| |].
           ++ intros z. unfold getdeps. setcbn. rewrite F6. apply incl_refl.
           ++ exact S5.
        -- intros _. vw Hl1. rewrite Nat.eqb_refl. discriminate.
        -- exact F3.
    + (* every attempt failed: sweep of the sub-tree *)
      set (l := bfs_subtree g x).
      destruct (mfl_view l (inprog_remove x s1)) as (M1 & M2 & M3 & M4 & M5).
      destruct (mark_failed_list_frame l (inprog_remove x s1)) as (G1 & G2 & G3 & G4 & G5 & G6 & G7 & G8).
      pose proof (mark_failed_list_cancelled l (inprog_remove x s1)) as G9.
      set (s' := mark_failed_list l (inprog_remove x s1)) in *.
      assert (Hroot : In x l) by apply bfs_subtree_root.
      assert (Hout : forall y, In y l -> ~ In y (completed s0)).
      { intros y Hy. destruct (Nat.eq_dec y x) as [->|Hn]; [exact Hc|].
        rewrite E1. rewrite E1 in Hc. destruct (subtree_out g s x y W I Hx Hc Hy Hn) as (_ & O & _). exact O. }
      change (completed (inprog_remove x s1)) with (completed s1) in G1.
      change (cancelled (inprog_remove x s1)) with (cancelled s1) in G9.
      change (failed (inprog_remove x s1)) with (failed s1) in M1.
      assert (ST' : forall y, (In y l /\ (stat s' y = FAILED \/ stat s' y = stat s1 y)) \/ (~ In y l /\ stat s' y = stat s1 y)).
      { intros y. destruct (in_dec Nat.eq_dec y l) as [Hi|Hi]; [left|right]; split; auto.
        - apply (M3 y Hi).
        - apply (M2 y Hi). }
      split; [|split; [|split; [|split]]].
      * constructor; intros y; rewrite G1, F1.
        -- destruct (ST' y) as [[Hi [S'|S']]|[Hi S']]; rewrite S'; try (intros [?|?]; discriminate);
           destruct (ST y) as [[-> [S|[S|S]]]|[Hn S]]; rewrite ?S; fin Hd.
        -- intros Hy. destruct (ST' y) as [[Hi _]|[Hi S']]; [exfalso; exact (Hout y Hi Hy)|].
           rewrite S'. destruct (ST y) as [[-> _]|[Hn S]]; [contradiction|]. rewrite S. unfold fin_of. rewrite Hd. auto.
      * intros y. rewrite M1, G9, F4, F5.
        destruct (ST' y) as [[Hi _]|[Hi S']]; [auto|]. rewrite S'.
        destruct (ST y) as [[-> _]|[Hn S]]; [contradiction|]. rewrite S. intros H. destruct (R0 y H) as [?|[?|?]]; auto.
      * constructor.
        -- intros y. rewrite G1, F1. auto.
        -- intros y. rewrite M1, G9, F4, F5. tauto.
        -- intros y Hy. destruct (ST' y) as [[Hi [S'|S']]|[Hi S']]; rewrite S'; auto;
           destruct (ST y) as [[-> _]|[Hn S]]; try tauto; rewrite S; auto.
        -- intros y Hy. destruct (ST' y) as [[Hi [S'|S']]|[Hi S']]; rewrite S'; try discriminate;
           destruct (ST y) as [[-> [S|[S|S]]]|[Hn S]]; rewrite S; auto; discriminate.
        -- intros z. unfold getdeps. rewrite G4. cbn [deps inprog_remove set_inprog]. rewrite F6. apply incl_refl.
        -- eapply ext_trans; [exact S5|]. apply ext_same. exact G6.
      * intros _. rewrite (M4 x Hroot); [discriminate|]. apply Nat.ltb_lt. exact Hl1.
      * rewrite G3. exact F3.
Qed.

Definition acc (cl ca : list nat) (y : nat) : Prop := In y cl \/ In y ca.

Ltac rcase Hl Hd x Rs' :=
  split; [constructor; intros y; vw Hl; yx y x; cbn [fc_row]; fin Hd
         |split; [intros y; unfold acc in *; vw Hl; rewrite ?In_srem, ?In_set_union; yx y x; cbn [fc_row];
                  intros Hfc; try (apply Rs' in Hfc); fin Hd
                 |constructor; [intros y; vw Hl; yx y x; cbn [fc_row]; fin Hd ..|intros z; apply incl_refl|apply ext_same; reflexivity]]].

Lemma handle_report_x p L0 r rest s cl ca :
  dry c = false -> disp_inv c g p L0 (r :: rest) s cl ca -> X c s -> R2 (acc cl ca) s ->
  let '(s', cl', ca') := handle_report_gen c g (s, cl, ca) r in
  X c s' /\ R2 (acc cl' ca') s' /\ SR s s'.
Proof.
  intros Hd D Xs Rs. destruct r as [x o].
  pose proof D as (I & T & Cl & _ & ND & RI & AC).
  assert (Hx : In x (inprog s)) by (apply RI; left; reflexivity).
  assert (Hxl : x < length g) by (apply (i_bound g s I); auto).
  assert (Hxc : ~ In x (completed s)) by (intros Hc; exact (i_dj_ci g s I x Hc Hx)).
  assert (Hxf : ~ In x (failed s) /\ ~ In x (cancelled s)).
  { split; intros Hf; destruct (i_dj_fc g s I x); auto; tauto. }
  destruct Hxf as [Hxf Hxk].
  assert (Hl := nrecs_lt g s x I Hxl).
  assert (Hroot : In x (bfs_subtree g x)) by apply bfs_subtree_root.
  pose proof Xs as [XA XB]. unfold fin_of in XB. rewrite Hd in XB. pose proof Rs as Rs'. unfold R2 in Rs'.
  unfold handle_report_gen; destruct o as [v|]; [destruct v|]; cbn [oeqb state_eqb].
  all: try (solve [split; [exact Xs|split; [exact Rs|apply SR_refl]]]).
  - (* RUNNING *) unfold R2. rcase Hl Hd x Rs'.
  - (* FINISHED *) unfold R2. rcase Hl Hd x Rs'.
  - (* FAILED *) unfold R2. rcase Hl Hd x Rs'.
  - (* HWFAILURE *) unfold R2. rcase Hl Hd x Rs'.
  - (* TIMEDOUT *)
    destruct (has_restart (attr g x) && negb (canceled s)) eqn:Hr.
    + unfold mark_restart_gen.
      destruct ((rlimit (attr g x) =? 0) || (restarts (getrec (rec_set_status x TIMEDOUT s) x) <? rlimit (attr g x))).
      * set (s1 := rec_inc_restarts x (rec_set_status x TIMEDOUT s)).
        assert (I1 : Inv g s1).
        { apply Inv_inc_restarts. apply Inv_set_status; [discriminate|exact I]. }
        assert (X1 : X c s1 /\ R2 (acc cl ca) s1 /\ SR s s1) by (unfold s1, R2; rcase Hl Hd x Rs').
        destruct X1 as (X1 & R1 & SR1).
        pose proof (execute_record_x (acc cl ca) x true s1 I1 Hxl Hxc Hxf Hxk X1 R1) as ER.
        cbv zeta in ER. destruct ER as (E1 & E2 & E3 & _ & _).
        split; [exact E1|split; [exact E2|eapply SR_trans; eauto]].
      * unfold R2. rcase Hl Hd x Rs'.
    + unfold R2. rcase Hl Hd x Rs'.
  - (* UNKNOWN *) unfold R2. rcase Hl Hd x Rs'.
  - (* CANCELLED *) unfold R2. rcase Hl Hd x Rs'.
Qed.

(** the two sweep loops *)
Lemma sweep_failed_x (A : nat -> Prop) l s :
  (forall y, In y l -> ~ In y (completed s)) -> X c s -> R2 (fun y => In y l \/ A y) s ->
  X c (mark_failed_list l s) /\ R2 A (mark_failed_list l s) /\ SR s (mark_failed_list l s).
Proof.
  intros Hout [XA XB] Rs.
  destruct (mfl_view l s) as (M1 & M2 & M3 & M4 & M5).
  destruct (mark_failed_list_frame l s) as (G1 & G2 & G3 & G4 & G5 & G6 & G7 & G8).
  pose proof (mark_failed_list_cancelled l s) as G9.
  set (s' := mark_failed_list l s) in *.
  assert (ST' : forall y, (In y l /\ (stat s' y = FAILED \/ stat s' y = stat s y)) \/ (~ In y l /\ stat s' y = stat s y)).
  { intros y. destruct (in_dec Nat.eq_dec y l) as [Hi|Hi]; [left|right]; split; auto. }
  split; [|split].
  - constructor; intros y; rewrite G1.
    + destruct (ST' y) as [[Hi [S'|S']]|[Hi S']]; rewrite S'; auto. intros [?|?]; discriminate.
    + intros Hy. destruct (ST' y) as [[Hi _]|[Hi S']]; [exfalso; exact (Hout y Hi Hy)|]. rewrite S'. auto.
  - intros y. rewrite M1, G9. destruct (ST' y) as [[Hi _]|[Hi S']]; [auto|]. rewrite S'.
    intros H. destruct (Rs y H) as [?|[?|[?|?]]]; auto; contradiction.
  - constructor.
    + intros y. rewrite G1. auto.
    + intros y. rewrite M1, G9. tauto.
    + intros y Hy. destruct (ST' y) as [[Hi [S'|S']]|[Hi S']]; rewrite S'; auto.
    + intros y Hy. destruct (ST' y) as [[Hi [S'|S']]|[Hi S']]; rewrite S'; auto. discriminate.
    + intros z. unfold getdeps. rewrite G4. apply incl_refl.
    + apply ext_same. exact G6.
Qed.

Lemma sweep_cancelled_x (A : nat -> Prop) l s :
  (forall y, In y l -> ~ In y (completed s)) -> X c s -> R2 (fun y => In y l \/ A y) s ->
  X c (mark_cancelled_list l s) /\ R2 A (mark_cancelled_list l s) /\ SR s (mark_cancelled_list l s).
Proof.
  intros Hout [XA XB] Rs.
  destruct (mcl_view l s) as (M1 & M2 & M3 & M5).
  destruct (mark_cancelled_list_frame l s) as (G1 & G2 & G3 & G4 & G5 & G6 & G7 & G8).
  pose proof (mark_cancelled_list_failed l s) as G9.
  set (s' := mark_cancelled_list l s) in *.
  assert (ST' : forall y, (In y l /\ (stat s' y = CANCELLED \/ stat s' y = stat s y)) \/ (~ In y l /\ stat s' y = stat s y)).
  { intros y. destruct (in_dec Nat.eq_dec y l) as [Hi|Hi]; [left|right]; split; auto. }
  split; [|split].
  - constructor; intros y; rewrite G1.
    + destruct (ST' y) as [[Hi [S'|S']]|[Hi S']]; rewrite S'; auto. intros [?|?]; discriminate.
    + intros Hy. destruct (ST' y) as [[Hi _]|[Hi S']]; [exfalso; exact (Hout y Hi Hy)|]. rewrite S'. auto.
  - intros y. rewrite M1, G9. destruct (ST' y) as [[Hi _]|[Hi S']]; [auto|]. rewrite S'.
    intros H. destruct (Rs y H) as [?|[?|[?|?]]]; auto; contradiction.
  - constructor.
    + intros y. rewrite G1. auto.
    + intros y. rewrite M1, G9. tauto.
    + intros y Hy. destruct (ST' y) as [[Hi [S'|S']]|[Hi S']]; rewrite S'; auto.
    + intros y Hy. destruct (ST' y) as [[Hi [S'|S']]|[Hi S']]; rewrite S'; auto. discriminate.
    + intros z. unfold getdeps. rewrite G4. apply incl_refl.
    + apply ext_same. exact G6.
Qed.

Lemma fold_reports_x p L0 : dry c = false -> forall reps s cl ca,
  disp_inv c g p L0 reps s cl ca -> X c s -> R2 (acc cl ca) s ->
  let '(s', cl', ca') := fold_left (handle_report_gen c g) reps (s, cl, ca) in
  X c s' /\ R2 (acc cl' ca') s' /\ SR s s'.
Proof.
  intros Hd. induction reps as [|r reps IH]; intros s cl ca D Xs Rs; cbn [fold_left].
  - split; [exact Xs|split; [exact Rs|apply SR_refl]].
  - pose proof (handle_report_spec c g p L0 W Hd r reps s cl ca D) as D1.
    pose proof (handle_report_x p L0 r reps s cl ca Hd D Xs Rs) as H1.
    destruct (handle_report_gen c g (s, cl, ca) r) as [[s1 cl1] ca1].
    destruct H1 as (X1 & R1 & S1).
    specialize (IH s1 cl1 ca1 D1 X1 R1).
    destruct (fold_left (handle_report_gen c g) reps (s1, cl1, ca1)) as [[s2 cl2] ca2].
    destruct IH as (X2 & R2' & S2). split; [exact X2|split; [exact R2'|eapply SR_trans; eauto]].
Qed.

Definition nobody (_ : nat) : Prop := False.

Lemma dispatch_x p L0 reps s :
  dry c = false -> Inv g s -> Thr c s -> clean c g p L0 s -> J false (tpend reps) (pfin reps) s (led c g p L0 s) ->
  NoDup (map fst reps) -> (forall y, In y (map fst reps) -> In y (inprog s)) ->
  X c s -> R2 nobody s ->
  X c (dispatch_gen c g reps s) /\ R2 nobody (dispatch_gen c g reps s) /\ SR s (dispatch_gen c g reps s).
Proof.
  intros Hd I T Cl Jh ND RI Xs Rs. unfold dispatch_gen.
  assert (D0 : disp_inv c g p L0 reps s [] []).
  { repeat (split; [assumption|]). intros y [[]|[]]. }
  assert (R0 : R2 (acc [] []) s).
  { intros y Hy. destruct (Rs y Hy) as [?|[?|[]]]; auto. }
  pose proof (fold_reports_spec c g p L0 W Hd reps s [] [] D0) as FS.
  pose proof (fold_reports_x p L0 Hd reps s [] [] D0 Xs R0) as FX.
  destruct (fold_left (handle_report_gen c g) reps (s, [], [])) as [[s1 cl] ca].
  destruct FS as (I1 & _ & _ & _ & _ & _ & AC). destruct FX as (X1 & R1 & S1).
  assert (O1 : forall y, In y cl -> ~ In y (completed s1)) by (intros y Hy; apply (AC y); auto).
  destruct (sweep_failed_x (fun y => In y ca) cl s1 O1 X1 R1) as (X2 & R2' & S2).
  pose proof (mark_failed_list_frame cl s1) as (F1 & _).
  assert (O2 : forall y, In y ca -> ~ In y (completed (mark_failed_list cl s1))).
  { intros y Hy. rewrite F1. apply (AC y); auto. }
  assert (R2'' : R2 (fun y => In y ca \/ nobody y) (mark_failed_list cl s1)).
  { intros y Hy. destruct (R2' y Hy) as [?|[?|?]]; auto. }
  destruct (sweep_cancelled_x nobody ca _ O2 X2 R2'') as (X3 & R3 & S3).
  split; [exact X3|split; [exact R3|]]. eapply SR_trans; [exact S1|]. eapply SR_trans; eauto.
Qed.

(** the staging loop: rows and resolved sets untouched; whoever is INITIALIZED
    with all parents completed ends up in the ready queue *)
Definition Dp (s : st) : Prop := forall x, incl (getdeps s x) (parents (attr g x)).

Lemma Dp_SR s s' : Dp s -> SR s s' -> Dp s'.
Proof. intros D S x. eapply incl_tran; [apply (sr_deps s s' S)|apply D]. Qed.

Lemma getdeps_prune_incl x s z : incl (getdeps (deps_prune x s) z) (getdeps s z).
Proof.
  destruct (Nat.eq_dec x z) as [->|Hn]; [|rewrite getdeps_prune_neq by auto; apply incl_refl].
  destruct (Nat.lt_ge_cases z (length (deps s))) as [Hl|Hl].
  - rewrite getdeps_prune_eq by auto. intros q Hq. apply filter_In in Hq. tauto.
  - unfold getdeps, deps_prune. cbn [deps set_deps]. rewrite nth_upd_ge by auto. apply incl_refl.
Qed.

Lemma filter_none {A} (f : A -> bool) l : (forall a, In a l -> f a = false) -> filter f l = [].
Proof.
  induction l as [|a l IH]; intros H; cbn; auto. rewrite (H a (or_introl eq_refl)). apply IH.
  intros b Hb. apply H. right. exact Hb.
Qed.

Definition stage_rel (s s' : st) : Prop :=
  (forall y, stat s' y = stat s y) /\ completed s' = completed s /\ failed s' = failed s /\
  cancelled s' = cancelled s /\ evs s' = evs s /\ length (deps s') = length (deps s) /\
  (forall z, incl (getdeps s' z) (getdeps s z)) /\ (forall y, In y (ready s) -> In y (ready s')).

Lemma stage_rel_refl s : stage_rel s s.
Proof. repeat split; auto. intros z. apply incl_refl. Qed.
Lemma stage_rel_trans a b d : stage_rel a b -> stage_rel b d -> stage_rel a d.
Proof.
  intros (A1 & A2 & A3 & A4 & A5 & A6 & A7 & A8) (B1 & B2 & B3 & B4 & B5 & B6 & B7 & B8).
  split; [intros y; rewrite B1; apply A1|]. repeat (split; [congruence|]).
  split; [intros z; eapply incl_tran; eauto|auto].
Qed.

Lemma stage_node_x s x :
  stage_rel s (stage_node_gen g s x) /\
  (x < length (deps s) -> Dp s -> incl (parents (attr g x)) (completed s) -> stat s x = INITIALIZED ->
   ~ In x (completed s) -> In x (ready (stage_node_gen g s x))).
Proof.
  unfold stage_node_gen.
  destruct (mem x (completed s)) eqn:Hc.
  { split; [apply stage_rel_refl|]. intros _ _ _ _ H. apply mem_In in Hc. contradiction. }
  fold (stat s x). destruct (state_eqb (stat s x) INITIALIZED) eqn:Hs.
  2:{ split; [apply stage_rel_refl|]. intros _ _ _ H. rewrite H in Hs. discriminate. }
  assert (R1 : stage_rel s (deps_prune x s)).
  { repeat split; auto.
    - unfold deps_prune. cbn [deps set_deps]. apply length_upd.
    - intros z. apply getdeps_prune_incl. }
  destruct (is_nil (getdeps (deps_prune x s) x)) eqn:Hn.
  - destruct (mem x (ready (deps_prune x s))) eqn:Hr; cbn [negb].
    + split; [exact R1|]. intros _ _ _ _ _. apply mem_In in Hr. exact Hr.
    + split.
      * eapply stage_rel_trans; [exact R1|]. repeat split; auto.
        -- intros z. apply incl_refl.
        -- intros y Hy. unfold ready_push. cbn [ready set_ready]. apply in_app_iff. auto.
      * intros _ _ _ _ _. unfold ready_push. cbn [ready set_ready]. apply in_app_iff. right. left. reflexivity.
  - split; [exact R1|]. intros Hl D Hp _ _. exfalso.
    rewrite getdeps_prune_eq in Hn by auto. rewrite filter_none in Hn; [discriminate|].
    intros q Hq. apply negb_false_iff, mem_In. apply Hp. apply (D x). exact Hq.
Qed.

Lemma stage_fold_x l : forall s,
  stage_rel s (fold_left (stage_node_gen g) l s) /\
  (forall x, In x l -> x < length (deps s) -> Dp s -> incl (parents (attr g x)) (completed s) ->
     stat s x = INITIALIZED -> ~ In x (completed s) -> In x (ready (fold_left (stage_node_gen g) l s))).
Proof.
  induction l as [|a l IH]; intros s; cbn [fold_left]; [split; [apply stage_rel_refl|intros x []]|].
  destruct (stage_node_x s a) as [R1 S1]. destruct (IH (stage_node_gen g s a)) as [R2' S2].
  split; [eapply stage_rel_trans; eauto|].
  pose proof R1 as (A1 & A2 & A3 & A4 & A5 & A6 & A7 & A8).
  pose proof R2' as (B1 & B2 & B3 & B4 & B5 & B6 & B7 & B8).
  intros x [->|Hx] Hl D Hp Hs Hc.
  - apply B8. apply S1; auto.
  - apply S2.
    + exact Hx.
    + rewrite A6. exact Hl.
    + intros z. eapply incl_tran; [apply A7|apply D].
    + rewrite A2. exact Hp.
    + rewrite A1. exact Hs.
    + rewrite A2. exact Hc.
Qed.

Lemma stage_rel_SR s s' : stage_rel s s' -> X c s -> R2 nobody s -> X c s' /\ R2 nobody s' /\ SR s s'.
Proof.
  intros (A1 & A2 & A3 & A4 & A5 & A6 & A7 & A8) Xs Rs.
  split; [apply (X_quiet c s); auto|]. split; [apply (R2_quiet nobody s); auto|].
  constructor; try (intros y; rewrite ?A1, ?A2, ?A3, ?A4; auto; fail); auto.
  apply ext_same. exact A5.
Qed.

(** the launch loop *)
Lemma launch_body_x s : Inv g s -> X c s -> R2 nobody s ->
  let s' := launch_body_gen c g s in
  X c s' /\ R2 nobody s' /\ SR s s' /\ ready s' = tl (ready s) /\
  (forall x, hd_error (ready s) = Some x -> stat s' x <> INITIALIZED).
Proof.
  intros I Xs Rs. unfold launch_body_gen.
  destruct (ready s) as [|x rest] eqn:Er.
  { cbv zeta. split; [exact Xs|split; [exact Rs|split; [apply SR_refl|split; [rewrite Er; reflexivity|discriminate]]]]. }
  assert (Hxr : In x (ready s)) by (rewrite Er; left; reflexivity).
  assert (Hx : x < length g) by (apply (i_bound g s I); auto).
  assert (Hxc : ~ In x (completed s)) by (intros H; exact (i_dj_cr g s I x H Hxr)).
  assert (Hxf : ~ In x (failed s) /\ ~ In x (cancelled s)).
  { split; intros Hf; destruct (i_dj_fc g s I x); auto; tauto. }
  destruct Hxf as [Hxf Hxk].
  assert (Hl := nrecs_lt g s x I Hx).
  set (s1 := set_ready s rest).
  assert (I1 : Inv g s1) by (eapply Inv_pop; eauto).
  change (canceled s1) with (canceled s). cbn [tl hd_error].
  destruct (canceled s).
  - (* cancelled instead of launched *)
    pose proof Xs as [XA XB]. pose proof Rs as Rs'. unfold R2, nobody in Rs'.
    assert (G : X c (cancelled_add x (rec_set_status x CANCELLED s1)) /\
                R2 nobody (cancelled_add x (rec_set_status x CANCELLED s1)) /\
                SR s (cancelled_add x (rec_set_status x CANCELLED s1))).
    { unfold s1, R2, nobody.
      split; [constructor; intros y; vw Hl; yx y x; cbn [fc_row]; fin Hl
             |split; [intros y; vw Hl; yx y x; cbn [fc_row]; intros Hfc; try (apply Rs' in Hfc); fin Hl
                     |constructor; [intros y; vw Hl; yx y x; cbn [fc_row]; fin Hl ..
                                   |intros z; apply incl_refl|apply ext_same; reflexivity]]]. }
    destruct G as (G1 & G2 & G3). repeat (split; [assumption|]). split; [reflexivity|].
    intros y E. inversion E; subst y. unfold s1. vw Hl. rewrite Nat.eqb_refl. discriminate.
  - (* launched *)
    assert (X1 : X c s1) by (apply (X_quiet c s); auto).
    assert (R1 : R2 nobody s1) by (apply (R2_quiet nobody s); auto).
    assert (S1 : SR s s1) by (apply SR_quiet; auto; apply ext_same; reflexivity).
    pose proof (execute_record_x nobody x false s1 I1 Hx Hxc Hxf Hxk X1 R1) as ER.
    cbv zeta in ER. destruct ER as (E1 & E2 & E3 & E4 & E5).
    split; [exact E1|]. split; [exact E2|]. split; [eapply SR_trans; eauto|]. split; [exact E5|].
    intros y E. inversion E; subst y. auto.
Qed.

Lemma tl_skipn {A} n (l : list A) : tl (skipn n l) = skipn (S n) l.
Proof.
  revert l. induction n as [|n IH]; intros l.
  - destruct l; reflexivity.
  - destruct l as [|a l]; [reflexivity|]. change (tl (skipn n l) = skipn (S n) l). apply IH.
Qed.

Lemma firstn_S_In {A} n (l : list A) y : In y (firstn (S n) l) -> In y (firstn n l) \/ hd_error (skipn n l) = Some y.
Proof.
  revert l. induction n as [|n IH]; intros [|a l]; cbn [firstn skipn In hd_error]; try tauto.
  - intros [->|[]]. auto.
  - intros [->|H]; auto. destruct (IH l H); auto.
Qed.

Lemma launch_iter_x p L0 d n s : dry c = d -> qinv c g p L0 d s ->
  (throttle c > 0 -> length (inprog s) + n <= throttle c) -> X c s -> R2 nobody s ->
  let s' := Nat.iter n (launch_body_gen c g) s in
  X c s' /\ R2 nobody s' /\ SR s s' /\ ready s' = skipn n (ready s) /\
  (forall y, In y (firstn n (ready s)) -> stat s' y <> INITIALIZED).
Proof.
  intros Hd Q TB Xs Rs. induction n as [|n IH].
  - cbn. split; [exact Xs|split; [exact Rs|split; [apply SR_refl|split; [reflexivity|intros y []]]]].
  - change (Nat.iter (S n) (launch_body_gen c g) s) with (launch_body_gen c g (Nat.iter n (launch_body_gen c g) s)).
    assert (TBn : throttle c > 0 -> length (inprog s) + n <= throttle c) by (intros H; specialize (TB H); lia).
    destruct (IH TBn) as (X1 & R1 & S1 & E1 & N1).
    destruct (launch_iter_spec c g p L0 W d n s Hd Q TBn) as [(In1 & _) _].
    set (sn := Nat.iter n (launch_body_gen c g) s) in *.
    pose proof (launch_body_x sn In1 X1 R1) as LB. cbv zeta in LB.
    destruct LB as (X2 & R2' & S2 & E2 & N2).
    split; [exact X2|]. split; [exact R2'|]. split; [eapply SR_trans; eauto|].
    split; [rewrite E2, E1; apply tl_skipn|].
    intros y Hy. apply firstn_S_In in Hy. destruct Hy as [Hy|Hy].
    + apply (sr_ni sn _ S2). apply N1. exact Hy.
    + apply N2. rewrite E1. exact Hy.
Qed.

End Pass2.

(** Histories: the sequence of polls of a run, with the state before and after
    each poll, and induction principles over it.

      run_trace c g s ps   : list entry     (pre-state, poll input, post-state, returned status)
      run_trace_states / run_trace_obs      : it projects to ExecRun.run_states / ExecRun.run
      Good c g s := Inv2 g s /\ Thr c s     : the full state invariant
      run_trace_good   every entry starts and ends in a Good state, has a valid input, and
                       is a poll:  poll c g (e_pre e) (e_pin e) = (e_post e, e_stat e)
      run_trace_later  a reflexive-transitive relation that every poll respects relates
                       the end of an earlier poll with the start of a later one. *)
From Coq Require Import Lia Relations.
From MWF Require Import Base.Util Base.UtilLemmas Exec.ExecBase Exec.ExecGen Exec.ExecRun Exec.ExecGraph Exec.ExecInv
  Exec.ExecPoll Exec.ExecSteps Exec.ExecPoll2 Exec.ExecPoll3.

Record entry := { e_pre : st; e_pin : pin; e_post : st; e_stat : SStatus }.

Fixpoint run_trace (c : cfg) (g : graph) (s : st) (ps : list pin) : list entry :=
  match ps with
  | [] => []
  | p :: ps' =>
    let '(s1, r) := poll c g s p in
    {| e_pre := s; e_pin := p; e_post := s1; e_stat := r |} ::
    match r with SRUNNING => run_trace c g s1 ps' | _ => [] end
  end.

Lemma run_trace_states c g ps : forall s,
  map (fun e => (e_post e, e_stat e)) (run_trace c g s ps) = run_states c g s ps.
Proof.
  induction ps as [|p ps IH]; intros s; cbn [run_trace run_states]; auto.
  destruct (poll c g s p) as [s1 r]. destruct r; cbn [map e_post e_stat]; auto. rewrite IH. reflexivity.
Qed.

Lemma run_trace_obs c g ps : forall s,
  map (fun e => (rev (evs (e_post e)), rows_of (e_post e), e_stat e)) (run_trace c g s ps) = run c g s ps.
Proof.
  induction ps as [|p ps IH]; intros s; cbn [run_trace run]; auto.
  destruct (poll c g s p) as [s1 r]. destruct r; cbn [map e_post e_stat]; auto. rewrite IH. reflexivity.
Qed.

Definition Good (c : cfg) (g : graph) (s : st) : Prop := Inv2 g s /\ Thr c s.

Lemma Good_init c g : Good c g (init g).
Proof. split; [apply init_Inv2|apply init_Thr]. Qed.

Lemma Good_poll c g s p : WF g -> Good c g s -> valid_pin s p = true -> Good c g (fst (poll c g s p)).
Proof.
  intros W [I T] V. split; [apply poll_Inv2; auto|].
  apply (poll_Inv c g s p W (i2_inv g s I) T V).
Qed.

Definition is_poll (c : cfg) (g : graph) (e : entry) : Prop :=
  Good c g (e_pre e) /\ valid_pin (e_pre e) (e_pin e) = true /\
  poll c g (e_pre e) (e_pin e) = (e_post e, e_stat e) /\ Good c g (e_post e).

Lemma run_trace_good c g ps : forall s, WF g -> Good c g s -> valid_pins c g s ps = true ->
  forall e, In e (run_trace c g s ps) -> is_poll c g e.
Proof.
  induction ps as [|p ps IH]; intros s W G V e He; cbn [run_trace] in He; [destruct He|].
  cbn [valid_pins] in V. apply andb_true_iff in V. destruct V as [V1 V2].
  pose proof (Good_poll c g s p W G V1) as G1.
  destruct (poll c g s p) as [s1 r] eqn:E. cbn [fst] in G1.
  destruct He as [<-|He].
  - unfold is_poll. cbn. splits; auto.
  - destruct r; try (destruct He; fail). eapply IH; eauto.
Qed.

Section Later.
Variables (c : cfg) (g : graph) (R : st -> st -> Prop).
Hypothesis W : WF g.
Hypothesis R_refl : forall s, R s s.
Hypothesis R_trans : forall a b d, R a b -> R b d -> R a d.
Hypothesis R_poll : forall s p, Good c g s -> valid_pin s p = true -> R s (fst (poll c g s p)).

Lemma run_trace_from ps : forall s, Good c g s -> valid_pins c g s ps = true ->
  forall e, In e (run_trace c g s ps) -> R s (e_pre e) /\ R s (e_post e).
Proof.
  induction ps as [|p ps IH]; intros s G V e He; cbn [run_trace] in He; [destruct He|].
  cbn [valid_pins] in V. apply andb_true_iff in V. destruct V as [V1 V2].
  pose proof (Good_poll c g s p W G V1) as G1. pose proof (R_poll s p G V1) as R1.
  destruct (poll c g s p) as [s1 r] eqn:E. cbn [fst] in G1, R1.
  destruct He as [<-|He]; [cbn; split; auto|].
  destruct r; try (destruct He; fail).
  destruct (IH s1 G1 V2 e He) as [A B]. split; eapply R_trans; eauto.
Qed.

Lemma run_trace_later ps : forall s tr1 e1 tr2 e2 tr3, Good c g s -> valid_pins c g s ps = true ->
  run_trace c g s ps = tr1 ++ e1 :: tr2 ++ e2 :: tr3 -> R (e_post e1) (e_pre e2).
Proof.
  induction ps as [|p ps IH]; intros s tr1 e1 tr2 e2 tr3 G V E; cbn [run_trace] in E.
  - destruct tr1; discriminate.
  - cbn [valid_pins] in V. apply andb_true_iff in V. destruct V as [V1 V2].
    pose proof (Good_poll c g s p W G V1) as G1.
    destruct (poll c g s p) as [s1 r] eqn:Ep. cbn [fst] in G1.
    destruct tr1 as [|e0 tr1]; cbn [app] in E; inversion E as [[E0 E']]; clear E.
    + cbn [e_post].
      assert (He2 : In e2 (match r with SRUNNING => run_trace c g s1 ps | _ => [] end)).
      { rewrite E'. apply in_app_iff. right. left. reflexivity. }
      destruct r; try (destruct He2; fail).
      apply (run_trace_from ps s1 G1 V2 e2 He2).
    + destruct r; try (destruct tr1; discriminate).
      eapply IH; eauto.
Qed.
End Later.

(** the restart counter of a step counts the polls with a Restart submission of it *)
Definition rpolls (x : nat) (tr : list entry) : nat :=
  length (filter (fun e => rsub_in x (evs (e_post e))) tr).

Lemma rpolls_app x a b : rpolls x (a ++ b) = rpolls x a + rpolls x b.
Proof. unfold rpolls. rewrite filter_app, app_length. reflexivity. Qed.

Lemma run_trace_restarts c g x ps : forall s tr1 e tr2, WF g -> 0 < attempts c ->
  Good c g s -> valid_pins c g s ps = true ->
  run_trace c g s ps = tr1 ++ e :: tr2 ->
  restarts (getrec (e_post e) x) = restarts (getrec s x) + rpolls x (tr1 ++ [e]).
Proof.
  induction ps as [|p ps IH]; intros s tr1 e tr2 W Ha G V E; cbn [run_trace] in E.
  - destruct tr1; discriminate.
  - cbn [valid_pins] in V. apply andb_true_iff in V. destruct V as [V1 V2].
    pose proof (Good_poll c g s p W G V1) as G1.
    pose proof (poll_restarts c g s p W (i2_inv g s (proj1 G)) V1 Ha x) as Rs.
    destruct (poll c g s p) as [s1 r] eqn:Ep. cbn [fst] in G1, Rs.
    destruct tr1 as [|e0 tr1]; cbn [app] in E; inversion E as [[E0 E']]; clear E.
    + unfold rpolls. cbn [e_post filter app]. cbn [e_post].
      destruct (rsub_in x (evs s1)); cbn [length]; lia.
    + destruct r; try (destruct tr1; discriminate).
      rewrite (IH s1 tr1 e tr2 W Ha G1 V2 E').
      subst e0. cbn [app]. unfold rpolls. cbn [filter e_post]. fold (rpolls x (tr1 ++ [e])).
      destruct (rsub_in x (evs s1)); cbn [length]; fold (rpolls x (tr1 ++ [e])); lia.
Qed.

(** C17, adapter side: "constructing an adapter and generating a script have no effect".

    ExecutionGraph.execute_ready_steps constructs the scheduler adapter on EVERY pass -- dry
    or not -- and _execute_record calls adapter.write_script before the dry-run early return.
    The Exec model (ExecGen.v / ExecRun.v) records of all that one event, [EGen x].  This file
    is the small model that justifies the abstraction: per registered adapter class, the
    finite list of CALLEE NAMES reachable from its constructor and from write_script --
    REGENERATED from the source on every run (translate/tdata_ctor_effects.py ->
    Gen/CtorEffects.v, fail-closed) -- classified against the names through which a Python
    program starts a process, drives the engine's scheduler calls, talks to a Flux broker,
    or calls something whose name the scan cannot see.

    Definitions only (stdlib); proofs in ExecDryProcsProofs.v; statements in Props/C17.v. *)
From Coq Require Import Bool.
From MWF Require Import Base.Str Gen.CtorEffects.

Definition smem (x : str) (l : list str) : bool := existsb (str_eqb x) l.

Local Open Scope string_scope.
Local Open Scope bool_scope.

(** every door to a new process: maestrowf.utils.start_process, subprocess, os *)
Definition proc_doors : list str := map s
  ["start_process"; "Popen"; "run"; "call"; "check_call"; "check_output"; "getoutput"; "getstatusoutput";
   "system"; "popen"; "execl"; "execle"; "execlp"; "execlpe"; "execv"; "execve"; "execvp"; "execvpe";
   "spawnl"; "spawnle"; "spawnlp"; "spawnlpe"; "spawnv"; "spawnve"; "spawnvp"; "spawnvpe";
   "posix_spawn"; "posix_spawnp"; "fork"; "forkpty"; "fork_exec"; "startfile";
   "create_subprocess_exec"; "create_subprocess_shell"].

(** what one does with a process handle *)
Definition proc_handle_calls : list str := map s
  ["communicate"; "wait"; "poll"; "kill"; "terminate"; "send_signal"].

(** the adapter calls of the engine (the model's ESubmit / ECheck / ECancel) *)
Definition engine_calls : list str := map s ["submit"; "check_jobs"; "cancel_jobs"].

(** Flux: the interface's broker-facing methods and the flux-core bindings they use *)
Definition broker_calls : list str := map s
  ["get_statuses"; "cancel"; "cancel_async"; "connect_to_flux"; "Flux"; "attr_get"; "attr_set"; "JobList"; "jobs";
   "fetch_jobs"; "job_list"; "job_list_id"; "job_list_inactive"; "rpc"; "JobspecV1"; "from_command";
   "from_nest_command"; "from_batch_command"; "job_kvs"; "event_watch"; "wait_async"; "result"].

(** the ONE broker read a constructor may make: the version text of the script header *)
Definition broker_reads : list str := map s ["get_flux_version"].

(** calls whose real callee a syntactic scan cannot name *)
Definition dynamic_calls : list str := map s
  ["getattr"; "__getattribute__"; "eval"; "exec"; "execfile"; "compile"; "__import__"; "import_module";
   "load_module"; "run_path"; "run_module"; "globals"; "locals"; "vars"; "methodcaller"; "attrgetter"].

Definition forbidden : list str :=
  proc_doors ++ proc_handle_calls ++ engine_calls ++ broker_calls ++ dynamic_calls.

(** classification of one callee name *)
Inductive ceffect : Type :=
| CProc (n : str)          (* starts / handles a process *)
| CEngine (n : str)        (* submit / check_jobs / cancel_jobs *)
| CBroker (n : str)        (* Flux broker call *)
| CBrokerRead (n : str)    (* get_flux_version *)
| CDynamic (n : str).      (* callee not nameable *)

Definition classify (n : str) : option ceffect :=
  if smem n proc_doors || smem n proc_handle_calls then Some (CProc n)
  else if smem n engine_calls then Some (CEngine n)
  else if smem n broker_calls then Some (CBroker n)
  else if smem n broker_reads then Some (CBrokerRead n)
  else if smem n dynamic_calls then Some (CDynamic n)
  else None.

Fixpoint effects_of (cs : list str) : list ceffect :=
  match cs with
  | [] => []
  | n :: r => match classify n with Some e => e :: effects_of r | None => effects_of r end
  end.

(** the effects of constructing the adapter registered under [k] / of its write_script,
    as far as the callee names of the current source say *)
Definition lookup (t : list (str * list str)) (k : str) : list str :=
  flat_map (fun kc => if str_eqb (fst kc) k then snd kc else []) t.
Definition ctor_effects (k : str) : list ceffect := effects_of (lookup gen_ctor_callees k).
Definition scriptgen_effects (k : str) : list ceffect := effects_of (lookup gen_scriptgen_callees k).

(** boolean checks evaluated by vm_compute over the regenerated tables *)
Definition effect_free (cs : list str) : bool := forallb (fun n => negb (smem n forbidden)) cs.
Definition table_ok (t : list (str * list str)) : bool := forallb (fun kc => effect_free (snd kc)) t.
Definition reads_ok (t : list (str * list str)) : bool :=
  forallb (fun kc => forallb (fun n => negb (smem n broker_reads) || str_eqb (fst kc) (s "flux")) (snd kc)) t.
Fixpoint strs_eqb (a b : list str) : bool :=
  match a, b with
  | [], [] => true
  | x :: a', y :: b' => str_eqb x y && strs_eqb a' b'
  | _, _ => false
  end.
(** the three generated tables list the same adapter keys, in the same order *)
Definition keys_ok : bool :=
  strs_eqb (map fst gen_adapter_classes) (map fst gen_ctor_callees) &&
  strs_eqb (map fst gen_adapter_classes) (map fst gen_scriptgen_callees).

(** C02 -- failure and cancellation stop exactly the dependent sub-graph:
    history-level statements over [run_trace]. *)
From Coq Require Import Lia Relations.
From MWF Require Import Base.Util Base.UtilLemmas Exec.ExecBase Exec.ExecGen Exec.ExecRun Exec.ExecGraph Exec.ExecInv
  Exec.ExecPoll Exec.ExecSteps Exec.ExecPoll2 Exec.ExecPoll3 Exec.ExecPoll4 Exec.ExecHist.


(** failed / cancelled only grow along a history *)
Definition fc_le (s s' : st) : Prop := forall y, FC s y -> FC s' y.

Lemma fc_le_poll c g s p : WF g -> Good c g s -> valid_pin s p = true -> fc_le s (fst (poll c g s p)).
Proof.
  intros W [I _] V. destruct (poll_mono c g s p W (i2_inv g s I) V) as (A & B & _).
  intros y [H|H]; [left|right]; auto.
Qed.

Section C02.
Variables (c : cfg) (g : graph) (ps : list pin).
Hypothesis Wf : wf_graph g = true.
Hypothesis V : valid_pins c g (init g) ps = true.
Let W : WF g := wf_graph_WF g Wf.

Lemma hist_is_poll e : In e (run_trace c g (init g) ps) -> is_poll c g e.
Proof. apply run_trace_good; auto. apply Good_init. Qed.

Lemma hist_fc_le tr1 e1 tr2 e2 tr3 :
  run_trace c g (init g) ps = tr1 ++ e1 :: tr2 ++ e2 :: tr3 -> fc_le (e_post e1) (e_pre e2).
Proof.
  apply (run_trace_later c g fc_le W); auto.
  - intros s y H. exact H.
  - intros a b d H1 H2 y Hy. auto.
  - intros s p. apply fc_le_poll. exact W.
  - apply Good_init.
Qed.

Lemma hist_cancelled_le tr1 e1 tr2 e2 tr3 :
  run_trace c g (init g) ps = tr1 ++ e1 :: tr2 ++ e2 :: tr3 ->
  forall y, In y (cancelled (e_post e1)) -> In y (cancelled (e_pre e2)).
Proof.
  apply (run_trace_later c g (fun a b => forall y, In y (cancelled a) -> In y (cancelled b)) W); auto.
  - intros s p G Vp. destruct (poll_mono c g s p W (i2_inv g _ (proj1 G)) Vp) as (_ & B & _). exact B.
  - apply Good_init.
Qed.

(** no submission, in any later poll, of a failed/cancelled node or of one of its descendants *)
Theorem C02_no_submit_proof tr1 e1 tr2 e2 tr3 u x k sc res :
  run_trace c g (init g) ps = tr1 ++ e1 :: tr2 ++ e2 :: tr3 ->
  FC (e_post e1) u -> reach g u x -> ~ In (ESubmit x k sc res) (evs (e_post e2)).
Proof.
  intros E Hu R H.
  assert (P2 : is_poll c g e2).
  { apply hist_is_poll. rewrite E. apply in_app_iff. right. right. apply in_app_iff. right. left. reflexivity. }
  destruct P2 as ([I2 _] & V2 & E2 & _).
  pose proof (poll_events c g (e_pre e2) (e_pin e2) W (i2_inv g _ I2) V2 x k sc res) as PE.
  rewrite E2 in PE. cbn [fst] in PE. destruct (PE H) as (_ & _ & _ & _ & A & _).
  apply (A u); auto. apply (hist_fc_le _ _ _ _ _ E). exact Hu.
Qed.

(** ... nor, within one poll, of a strict descendant of a node that ends the poll failed/cancelled *)
Theorem C02_no_submit_same_poll_proof e u x k sc res : In e (run_trace c g (init g) ps) ->
  In (ESubmit x k sc res) (evs (e_post e)) -> FC (e_post e) u -> reach g u x -> u = x.
Proof.
  intros He H Fu R. destruct (hist_is_poll e He) as ([I0 T0] & V0 & E0 & _).
  pose proof (poll_no_submit_same c g (e_pre e) (e_pin e) W (i2_inv g _ I0) T0 V0 x k sc res) as PS.
  rewrite E0 in PS. cbn [fst] in PS. eauto.
Qed.

(** the sub-tree of a failed node (of a cancelled one, unless it was merely popped after a cancel
    request) is failed/cancelled, with status FAILED or CANCELLED below the node *)
Theorem C02_marked_proof e u d : In e (run_trace c g (init g) ps) ->
  (In u (failed (e_post e)) \/
   (In u (cancelled (e_post e)) /\
    (canceled (e_post e) = false \/ ~ incl (parents (attr g u)) (completed (e_post e))))) ->
  reach g u d ->
  FC (e_post e) d /\ (u <> d -> fc_status (status (getrec (e_post e) d))).
Proof.
  intros He Hu R. destruct (hist_is_poll e He) as (_ & _ & _ & [I _]).
  pose proof (closed_desc g (e_post e) u W I Hu d R) as Fd. split; auto.
  intros Hne. apply (desc_status g (e_post e) u d W I); auto.
  unfold FC. tauto.
Qed.

(** ... already at the end of the poll that delivered the unsuccessful report *)
Theorem C02_marked_in_poll_proof e x v d : In e (run_trace c g (init g) ps) ->
  dry c = false -> qcode (e_pin e) = QOK -> In (x, Some v) (reports (e_pin e)) ->
  v = FAILED \/ v = UNKNOWN \/ v = CANCELLED -> reach g x d ->
  FC (e_post e) d /\ fc_status (status (getrec (e_post e) d)).
Proof.
  intros He D Q Hin Hv R. destruct (hist_is_poll e He) as ([I0 _] & V0 & E0 & [I _]).
  pose proof (poll_reported c g (e_pre e) (e_pin e) W (i2_inv g _ I0) V0 D Q x v Hin) as PR.
  rewrite E0 in PR. cbn [fst] in PR.
  assert (K : (forall d, reach g x d -> FC (e_post e) d) /\ fc_status (status (getrec (e_post e) x))).
  { destruct Hv as [ -> | [ -> | -> ] ]; cbn [reported_ok] in PR; destruct PR as [A B]; unfold FC, fc_status; split; auto. }
  destruct K as [K1 K2]. split; auto.
  destruct (Nat.eq_dec x d) as [<-|Hne]; auto.
  apply (desc_status g (e_post e) x d W I); auto. apply K1. apply reach_refl.
Qed.

(** ... and stays so *)
Theorem C02_stays_proof tr1 e1 tr2 e2 tr3 d :
  run_trace c g (init g) ps = tr1 ++ e1 :: tr2 ++ e2 :: tr3 ->
  FC (e_post e1) d ->
  FC (e_post e2) d /\ st_fc (status (getrec (e_post e2) d)) /\
  ~ In d (completed (e_post e2)) /\ ~ In d (inprog (e_post e2)) /\ ~ In d (ready (e_post e2)).
Proof.
  intros E Hd.
  assert (P2 : is_poll c g e2).
  { apply hist_is_poll. rewrite E. apply in_app_iff. right. right. apply in_app_iff. right. left. reflexivity. }
  destruct P2 as (G2 & V2 & E2 & [I _]).
  assert (F2 : FC (e_post e2) d).
  { pose proof (fc_le_poll c g (e_pre e2) (e_pin e2) W G2 V2) as L. rewrite E2 in L. apply L.
    apply (hist_fc_le _ _ _ _ _ E). exact Hd. }
  split; auto. split; [apply (e_sf g _ (i2_ext g _ I)); exact F2|].
  apply (i_dj_fc g _ (i2_inv g _ I)). exact F2.
Qed.

(** the cause, in poll [e], of y's being failed/cancelled: y itself was popped from the ready queue
    after a cancel request, or y lies in the sub-tree of a node w that got an unsuccessful report
    or had a failed submission in that poll (and w is failed/cancelled at the end of it) *)
Definition cause (e : entry) (y : nat) : Prop :=
  popped g (e_post e) y \/
  exists w, rown (e_post e) (done_final c (e_pin e)) w /\ reach g w y /\ FC (e_post e) w.

(** nothing else is swept: within one poll ... *)
Theorem C02_exact_poll_proof e y : In e (run_trace c g (init g) ps) -> 0 < attempts c ->
  FC (e_post e) y -> FC (e_pre e) y \/ cause e y.
Proof.
  intros He Ha Hy. destruct (hist_is_poll e He) as ([I0 _] & V0 & E0 & _).
  pose proof (poll_exact c g (e_pre e) (e_pin e) W Ha (i2_inv g _ I0) V0) as PX.
  cbv zeta in PX. rewrite E0 in PX. cbn [fst] in PX. unfold cause. destruct (PX y Hy) as [H|[H|H]]; auto.
Qed.

(** ... and over the whole history *)
Lemma origin_gen : 0 < attempts c -> forall qs s tr1 e tr2, Good c g s -> valid_pins c g s qs = true ->
  run_trace c g s qs = tr1 ++ e :: tr2 -> forall y, FC (e_post e) y ->
  FC s y \/ exists e', In e' (tr1 ++ [e]) /\ cause e' y.
Proof.
  intros Ha. induction qs as [|p qs IH]; intros s tr1 e tr2 G Vq E y Hy; cbn [run_trace] in E.
  - destruct tr1; discriminate.
  - cbn [valid_pins] in Vq. apply andb_true_iff in Vq. destruct Vq as [V1 V2].
    pose proof (Good_poll c g s p W G V1) as G1.
    pose proof (poll_exact c g s p W Ha (i2_inv g s (proj1 G)) V1) as PX. cbv zeta in PX.
    destruct (poll c g s p) as [s1 r] eqn:Ep. cbn [fst] in G1, PX.
    assert (Head : forall z, FC s1 z -> FC s z \/
              cause {| e_pre := s; e_pin := p; e_post := s1; e_stat := r |} z).
    { intros z Hz. unfold cause. cbn [e_post e_pin]. destruct (PX z Hz) as [H|[H|H]]; auto. }
    destruct tr1 as [|e0 tr1]; cbn [app] in E; inversion E as [[E0 E']]; clear E.
    + subst e. cbn [e_post] in Hy. destruct (Head y Hy) as [H|H]; auto.
      right. eexists. split; [left; reflexivity|exact H].
    + destruct r; try (destruct tr1; discriminate).
      destruct (IH s1 tr1 e tr2 G1 V2 E' y Hy) as [Fy|(e' & Hin & Hc)].
      * destruct (Head y Fy) as [H|H]; auto. right. eexists. split; [left; reflexivity|exact H].
      * right. exists e'. split; auto. right. exact Hin.
Qed.

Theorem C02_exact_proof tr1 e tr2 y : 0 < attempts c ->
  run_trace c g (init g) ps = tr1 ++ e :: tr2 -> FC (e_post e) y ->
  exists e', In e' (tr1 ++ [e]) /\ cause e' y.
Proof.
  intros Ha E Hy.
  destruct (origin_gen Ha ps (init g) tr1 e tr2 (Good_init c g) V E y Hy) as [[[]|[]]|H]; auto.
Qed.
(** the rest runs: when the study ends FINISHED or FAILURE every step is completed (row FINISHED /
    DRYRUN) unless it lies in the sub-tree of a step that had an own unsuccessful event *)
Lemma poll_status s p :
  snd (poll c g s p) = SABORT \/ snd (poll c g s p) = completion_gen g (fst (poll c g s p)).
Proof.
  unfold poll, execute_ready_steps_gen.
  destruct (qcode_eqb (if negb (dry c) then qcode p else QOK) QERROR); cbn [fst snd]; auto.
Qed.

Lemma completion_normal s : completion_gen g s = SFINISHED \/ completion_gen g s = SFAILURE ->
  cancelled s = [] /\ forall x, x < length g -> In x (completed s) \/ In x (failed s).
Proof.
  unfold completion_gen. intros H.
  destruct (canceled s && is_nil (inprog s)); [destruct H; discriminate|].
  destruct (subset (seq 0 (length g)) (completed s ++ failed s ++ cancelled s)) eqn:Es; [|destruct H; discriminate].
  destruct (cancelled s) as [|a l] eqn:Ec; [|cbn in H; destruct H; discriminate].
  split; auto. intros x Hx. apply subset_incl in Es. specialize (Es x). rewrite In_seq_lt in Es.
  specialize (Es Hx). rewrite !in_app_iff in Es. cbn in Es. tauto.
Qed.

Theorem C02_rest_runs_proof tr1 e tr2 x : 0 < attempts c ->
  run_trace c g (init g) ps = tr1 ++ e :: tr2 ->
  e_stat e = SFINISHED \/ e_stat e = SFAILURE -> x < length g ->
  (In x (completed (e_post e)) /\ st_done (status (getrec (e_post e) x))) \/
  (In x (failed (e_post e)) /\
   exists e' w, In e' (tr1 ++ [e]) /\ rown (e_post e') (done_final c (e_pin e')) w /\ reach g w x /\
                FC (e_post e') w).
Proof.
  intros Ha E Hs Hx.
  assert (He : In e (run_trace c g (init g) ps)) by (rewrite E; apply in_app_iff; right; left; reflexivity).
  destruct (hist_is_poll e He) as (G0 & V0 & E0 & [I1 _]).
  pose proof (poll_status (e_pre e) (e_pin e)) as PS. rewrite E0 in PS. cbn [fst snd] in PS.
  destruct PS as [PS|PS]; [rewrite PS in Hs; destruct Hs; discriminate|].
  rewrite PS in Hs. destruct (completion_normal (e_post e) Hs) as [Cn Cx].
  destruct (Cx x Hx) as [Hc|Hf].
  - left. split; auto. apply (e_sc g _ (i2_ext g _ I1)). exact Hc.
  - right. split; auto.
    destruct (C02_exact_proof tr1 e tr2 x Ha E (or_introl Hf)) as (e' & Hin & [(_ & Hp & _)|(w & A & B & D)]).
    + exfalso.
      (* popped after a cancel request: then x is cancelled in e' and stays so -- but nothing is cancelled at the end *)
      apply in_app_iff in Hin. destruct Hin as [Hin|[<-|[]]]; [|rewrite Cn in Hp; destruct Hp].
      apply in_split in Hin. destruct Hin as (l1 & l2 & ->).
      assert (E' : run_trace c g (init g) ps = l1 ++ e' :: l2 ++ e :: tr2) by (rewrite E, <- app_assoc; reflexivity).
      pose proof (poll_mono c g (e_pre e) (e_pin e) W (i2_inv g _ (proj1 G0)) V0) as PM. cbv zeta in PM.
      rewrite E0 in PM. cbn [fst] in PM. destruct PM as (_ & PMc & _).
      pose proof (PMc x (hist_cancelled_le _ _ _ _ _ E' x Hp)) as Hc'.
      rewrite Cn in Hc'. destruct Hc'.
    + exists e', w. auto.
Qed.
End C02.

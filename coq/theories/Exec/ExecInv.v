(** The inductive invariant of the polling loop and its coupling with the
    observable-trace ledger (ExecTrace.v).  Everything is stated for the
    GENERATED decision logic (ExecGen.v). *)
From Coq Require Import Lia Relations.
From MWF Require Import Base.Util Base.UtilLemmas Exec.ExecBase Exec.ExecGen Exec.ExecRun Exec.ExecTrace Exec.ExecGraph.

(** * State invariant *)
Record Inv (g : graph) (s : st) : Prop := {
  i_len_recs : length (recs s) = length g;
  i_len_deps : length (deps s) = length g;
  i_bound : forall x, In x (completed s) \/ In x (inprog s) \/ In x (ready s) \/ In x (failed s) \/ In x (cancelled s)
                      -> x < length g;
  i_nd_inprog : NoDup (inprog s);
  i_nd_ready : NoDup (ready s);
  i_dj_ci : forall x, In x (completed s) -> ~ In x (inprog s);
  i_dj_cr : forall x, In x (completed s) -> ~ In x (ready s);
  i_dj_ir : forall x, In x (inprog s) -> ~ In x (ready s);
  i_dj_fc : forall x, In x (failed s) \/ In x (cancelled s) ->
                      ~ In x (completed s) /\ ~ In x (inprog s) /\ ~ In x (ready s);
  i_anc : forall x, In x (completed s) \/ In x (inprog s) \/ In x (ready s) ->
                    incl (parents (attr g x)) (completed s);
  i_deps : forall x p, x < length g -> In p (parents (attr g x)) -> In p (getdeps s x) \/ In p (completed s);
  i_init : forall x, In x (inprog s) \/ In x (failed s) \/ In x (cancelled s) -> status (getrec s x) <> INITIALIZED
}.

Definition Thr (c : cfg) (s : st) : Prop := throttle c > 0 -> length (inprog s) <= throttle c.

(** every ancestor of a tracked node is completed *)
Lemma anc_completed g s x y : WF g -> Inv g s -> reach g x y -> x <> y ->
  (In y (completed s) \/ In y (inprog s) \/ In y (ready s)) -> In x (completed s).
Proof.
  intros W I R. induction R as [|y z E R IH]; intros Hne Hy; [congruence|].
  destruct E as [Hyl Hc].
  assert (Hp : In y (parents (attr g z))) by (eapply wf_child_par; eauto).
  assert (Hyc : In y (completed s)) by (eapply (i_anc g s I z); eauto).
  destruct (Nat.eq_dec x y) as [->|Hn]; auto.
Qed.

(** * Frame facts: how the elementary combinators touch the records *)
Lemma getrec_set_status_eq x v s : x < length (recs s) ->
  getrec (rec_set_status x v s) x = {| status := v; jobs := jobs (getrec s x); restarts := restarts (getrec s x) |}.
Proof. intros H. unfold getrec, rec_set_status. cbn. rewrite nth_upd_eq; auto. Qed.
Lemma getrec_set_status_neq x y v s : x <> y -> getrec (rec_set_status x v s) y = getrec s y.
Proof. intros H. unfold getrec, rec_set_status. cbn. apply nth_upd_neq; auto. Qed.

Lemma status_set_status x y v s :
  status (getrec (rec_set_status x v s) y) = status (getrec s y) \/ status (getrec (rec_set_status x v s) y) = v.
Proof.
  destruct (Nat.eq_dec x y) as [->|Hn]; [|left; rewrite getrec_set_status_neq; auto].
  destruct (Nat.lt_ge_cases y (length (recs s))) as [Hl|Hl].
  - right. rewrite getrec_set_status_eq; auto.
  - left. unfold getrec, rec_set_status. cbn. rewrite nth_upd_ge; auto.
Qed.

Lemma jobs_set_status x y v s : jobs (getrec (rec_set_status x v s) y) = jobs (getrec s y).
Proof.
  destruct (Nat.eq_dec x y) as [->|Hn]; [|rewrite getrec_set_status_neq; auto].
  destruct (Nat.lt_ge_cases y (length (recs s))) as [Hl|Hl].
  - rewrite getrec_set_status_eq; auto.
  - unfold getrec, rec_set_status. cbn. rewrite nth_upd_ge; auto.
Qed.

Lemma restarts_set_status x y v s : restarts (getrec (rec_set_status x v s) y) = restarts (getrec s y).
Proof.
  destruct (Nat.eq_dec x y) as [->|Hn]; [|rewrite getrec_set_status_neq; auto].
  destruct (Nat.lt_ge_cases y (length (recs s))) as [Hl|Hl].
  - rewrite getrec_set_status_eq; auto.
  - unfold getrec, rec_set_status. cbn. rewrite nth_upd_ge; auto.
Qed.

Lemma lastjob_set_status x y v s : lastjob (rec_set_status x v s) y = lastjob s y.
Proof. unfold lastjob. rewrite jobs_set_status. reflexivity. Qed.

Lemma len_recs_set_status x v s : length (recs (rec_set_status x v s)) = length (recs s).
Proof. unfold rec_set_status. cbn. apply length_upd. Qed.

Lemma jobs_inc_restarts x y s : jobs (getrec (rec_inc_restarts x s) y) = jobs (getrec s y).
Proof.
  unfold getrec, rec_inc_restarts. cbn.
  destruct (Nat.eq_dec x y) as [->|Hn]; [|rewrite nth_upd_neq; auto].
  destruct (Nat.lt_ge_cases y (length (recs s))) as [Hl|Hl].
  - rewrite nth_upd_eq; auto.
  - rewrite nth_upd_ge; auto.
Qed.
Lemma status_inc_restarts x y s : status (getrec (rec_inc_restarts x s) y) = status (getrec s y).
Proof.
  unfold getrec, rec_inc_restarts. cbn.
  destruct (Nat.eq_dec x y) as [->|Hn]; [|rewrite nth_upd_neq; auto].
  destruct (Nat.lt_ge_cases y (length (recs s))) as [Hl|Hl].
  - rewrite nth_upd_eq; auto.
  - rewrite nth_upd_ge; auto.
Qed.
Lemma lastjob_inc_restarts x y s : lastjob (rec_inc_restarts x s) y = lastjob s y.
Proof. unfold lastjob. rewrite jobs_inc_restarts. reflexivity. Qed.

Lemma status_push_job x j y s : status (getrec (rec_push_job x j s) y) = status (getrec s y).
Proof.
  unfold getrec, rec_push_job. cbn.
  destruct (Nat.eq_dec x y) as [->|Hn]; [|rewrite nth_upd_neq; auto].
  destruct (Nat.lt_ge_cases y (length (recs s))) as [Hl|Hl].
  - rewrite nth_upd_eq; auto.
  - rewrite nth_upd_ge; auto.
Qed.
Lemma lastjob_push_job_eq x j s : x < length (recs s) -> lastjob (rec_push_job x j s) x = j.
Proof.
  intros H. unfold lastjob, getrec, rec_push_job. cbn. rewrite nth_upd_eq; auto. cbn. apply last_snoc.
Qed.
Lemma lastjob_push_job_neq x j y s : x <> y -> lastjob (rec_push_job x j s) y = lastjob s y.
Proof. intros H. unfold lastjob, getrec, rec_push_job. cbn. rewrite nth_upd_neq; auto. Qed.

(** the invariant only looks at the sets, the dependency table and at
    "status is not INITIALIZED" *)
Definition same_sets (s s' : st) : Prop :=
  completed s' = completed s /\ inprog s' = inprog s /\ ready s' = ready s /\ failed s' = failed s /\
  cancelled s' = cancelled s /\ deps s' = deps s /\ canceled s' = canceled s.

Lemma same_sets_refl s : same_sets s s.
Proof. repeat split. Qed.
Lemma same_sets_trans a b d : same_sets a b -> same_sets b d -> same_sets a d.
Proof. unfold same_sets. intuition congruence. Qed.

Definition recs_ok (s s' : st) : Prop :=
  length (recs s') = length (recs s) /\
  forall x, status (getrec s x) <> INITIALIZED -> status (getrec s' x) <> INITIALIZED.

Lemma Inv_same g s s' : same_sets s s' -> recs_ok s s' -> Inv g s -> Inv g s'.
Proof.
  intros (E1 & E2 & E3 & E4 & E5 & E6 & E7) [R1 R2] I. destruct I.
  constructor; unfold getdeps in *; rewrite ?E1, ?E2, ?E3, ?E4, ?E5, ?E6; auto; try congruence.
Qed.

Lemma recs_ok_set_status x v s : v <> INITIALIZED -> recs_ok s (rec_set_status x v s).
Proof.
  intros Hv. split; [apply len_recs_set_status|]. intros y Hy.
  destruct (status_set_status x y v s) as [->| ->]; auto.
Qed.
Lemma same_sets_set_status x v s : same_sets s (rec_set_status x v s).
Proof. repeat split. Qed.

Lemma Inv_set_status g x v s : v <> INITIALIZED -> Inv g s -> Inv g (rec_set_status x v s).
Proof. intros Hv. apply Inv_same; [apply same_sets_set_status | apply recs_ok_set_status; auto]. Qed.

(** * Set-level transitions preserve the invariant *)
Ltac sp := unfold getrec, getdeps in *; cbn [recs completed inprog failed cancelled ready deps canceled next_job subs evs
                set_recs set_completed set_inprog set_failed set_cancelled set_ready set_deps set_canceled
                set_next_job set_subs set_evs emit] in *.
Ltac setsimp := repeat (rewrite ?In_sadd, ?In_srem, ?in_app_iff in *; cbn [In] in * ).
Ltac contra :=
  match goal with
  | H : forall x, In x ?A -> ~ In x ?B, H1 : In ?y ?A, H2 : In ?y ?B |- _ => exact (False_ind _ (H y H1 H2))
  | H1 : In ?y ?A, H2 : ~ In ?y ?A |- _ => exact (False_ind _ (H2 H1))
  end.
Ltac splits := repeat match goal with |- _ /\ _ => split end.
Ltac dI I := destruct I as [Ilr Ild Ib Indi Indr Ici Icr Iir Ifc Ianc Idep Iini].

Lemma Inv_finish g x s : Inv g s -> In x (inprog s) ->
  Inv g (inprog_remove x (completed_add x s)).
Proof.
  intros I Hx. dI I. constructor; unfold inprog_remove, completed_add, getdeps in *; sp; auto.
  - intros y. setsimp. intuition (subst; eauto 10).
  - apply NoDup_srem; auto.
  - intros y. setsimp. intuition (subst; eauto 10).
  - intros y. setsimp. intros [->|H]; eauto.
  - intros y. setsimp. intuition eauto 10.
  - intros y Hy. specialize (Ifc y Hy). setsimp. intuition (subst; eauto 10).
  - intros y Hy p Hp. setsimp.
    assert (In y (completed s) \/ In y (inprog s) \/ In y (ready s)) by (intuition (subst; eauto 10)).
    right. eapply Ianc; eauto.
  - intros y p Hy Hp. setsimp. destruct (Idep y p Hy Hp); auto.
  - intros y Hy. apply Iini. setsimp. tauto.
Qed.

Lemma Inv_inprog_remove g x s : Inv g s -> Inv g (inprog_remove x s).
Proof.
  intros I. dI I. constructor; unfold inprog_remove, getdeps in *; sp; auto.
  - intros y. setsimp. intuition (subst; eauto 10).
  - apply NoDup_srem; auto.
  - intros y. setsimp. intuition (subst; eauto 10).
  - intros y. setsimp. intuition eauto 10.
  - intros y Hy. specialize (Ifc y Hy). setsimp. intuition (subst; eauto 10).
  - intros y Hy. setsimp. apply Ianc. tauto.
  - intros y Hy. apply Iini. setsimp. tauto.
Qed.

Lemma Inv_failed_add g x s : Inv g s -> x < length g ->
  ~ In x (completed s) -> ~ In x (inprog s) -> ~ In x (ready s) -> status (getrec s x) <> INITIALIZED ->
  Inv g (failed_add x s).
Proof.
  intros I Hx H1 H2 H3 H4. dI I. constructor; unfold failed_add, getdeps in *; sp; auto.
  - intros y. setsimp. intuition (subst; eauto 10).
  - intros y Hy. setsimp. destruct Hy as [[->|Hy]|Hy]; auto.
  - intros y Hy. setsimp. destruct Hy as [Hy|[[->|Hy]|Hy]]; auto.
Qed.

Lemma Inv_cancelled_add g x s : Inv g s -> x < length g ->
  ~ In x (completed s) -> ~ In x (inprog s) -> ~ In x (ready s) -> status (getrec s x) <> INITIALIZED ->
  Inv g (cancelled_add x s).
Proof.
  intros I Hx H1 H2 H3 H4. dI I. constructor; unfold cancelled_add, getdeps in *; sp; auto.
  - intros y. setsimp. intuition (subst; eauto 10).
  - intros y Hy. setsimp. destruct Hy as [Hy|[->|Hy]]; auto.
  - intros y Hy. setsimp. destruct Hy as [Hy|[Hy|[->|Hy]]]; auto.
Qed.

Lemma Inv_ready_push g x s : Inv g s -> x < length g ->
  ~ In x (completed s) -> ~ In x (inprog s) -> ~ In x (ready s) -> ~ In x (failed s) -> ~ In x (cancelled s) ->
  incl (parents (attr g x)) (completed s) ->
  Inv g (ready_push x s).
Proof.
  intros I Hx H1 H2 H3 H4 H5 H6. dI I. constructor; unfold ready_push, getdeps in *; sp; auto.
  - intros y. setsimp. intuition (subst; eauto 10).
  - apply NoDup_snoc; auto.
  - intros y Hy. setsimp. intros [Hr|[->|[]]]; contra.
  - intros y Hy. setsimp. intros [Hr|[->|[]]]; contra.
  - intros y Hy. specialize (Ifc y Hy). setsimp. intuition (subst; eauto 10).
  - intros y Hy. setsimp. destruct Hy as [Hy|[Hy|[Hy|[->|[]]]]]; auto.
Qed.

Lemma Inv_pop g x rest s : Inv g s -> ready s = x :: rest -> Inv g (set_ready s rest).
Proof.
  intros I E. dI I. rewrite E in *. constructor; unfold getdeps in *; sp; auto.
  - intros y Hy. apply Ib. cbn. tauto.
  - inversion Indr; auto.
  - intros y Hy Hr. eapply Icr; eauto. right. exact Hr.
  - intros y Hy Hr. eapply Iir; eauto. right. exact Hr.
  - intros y Hy. specialize (Ifc y Hy). cbn in Ifc. tauto.
  - intros y Hy. apply Ianc. cbn. tauto.
Qed.

Lemma Inv_inprog_add g x s : Inv g s -> x < length g ->
  ~ In x (completed s) -> ~ In x (ready s) -> ~ In x (failed s) -> ~ In x (cancelled s) ->
  incl (parents (attr g x)) (completed s) -> status (getrec s x) <> INITIALIZED ->
  Inv g (inprog_add x s).
Proof.
  intros I Hx H1 H3 H4 H5 H6 H7. dI I. constructor; unfold inprog_add, getdeps in *; sp; auto.
  - intros y. setsimp. intuition (subst; eauto 10).
  - apply NoDup_sadd; auto.
  - intros y Hy. setsimp. intros [->|Hr]; contra.
  - intros y Hy. setsimp. destruct Hy as [->|Hy]; eauto.
  - intros y Hy. specialize (Ifc y Hy). setsimp. intuition (subst; eauto 10).
  - intros y Hy. setsimp. destruct Hy as [Hy|[[->|Hy]|Hy]]; auto.
  - intros y Hy. setsimp. destruct Hy as [[->|Hy]|Hy]; auto.
Qed.

Lemma Inv_completed_add g x s : Inv g s -> x < length g ->
  ~ In x (inprog s) -> ~ In x (ready s) -> ~ In x (failed s) -> ~ In x (cancelled s) ->
  incl (parents (attr g x)) (completed s) ->
  Inv g (completed_add x s).
Proof.
  intros I Hx H2 H3 H4 H5 H6. dI I. constructor; unfold completed_add, getdeps in *; sp; auto.
  - intros y. setsimp. intuition (subst; eauto 10).
  - intros y Hy. setsimp. destruct Hy as [->|Hy]; eauto.
  - intros y Hy. setsimp. destruct Hy as [->|Hy]; eauto.
  - intros y Hy. specialize (Ifc y Hy). setsimp. intuition (subst; eauto 10).
  - intros y Hy p Hp. setsimp. right.
    destruct Hy as [[->|Hy]|Hy]; [apply H6; auto| |]; eapply Ianc; eauto.
  - intros y p Hy Hp. setsimp. destruct (Idep y p Hy Hp); auto.
Qed.

Lemma getdeps_prune_eq x s : x < length (deps s) ->
  getdeps (deps_prune x s) x = filter (fun p => negb (mem p (completed s))) (getdeps s x).
Proof. intros H. unfold getdeps, deps_prune. sp. rewrite nth_upd_eq; auto. Qed.
Lemma getdeps_prune_neq x y s : x <> y -> getdeps (deps_prune x s) y = getdeps s y.
Proof. intros H. unfold getdeps, deps_prune. sp. rewrite nth_upd_neq; auto. Qed.

Lemma Inv_deps_prune g x s : Inv g s -> Inv g (deps_prune x s).
Proof.
  intros I. pose proof I as I'. dI I. constructor; try (unfold deps_prune; sp; auto; fail).
  - unfold deps_prune. sp. rewrite length_upd. auto.
  - intros y p Hy Hp. change (completed (deps_prune x s)) with (completed s).
    destruct (Nat.eq_dec x y) as [->|Hn].
    + rewrite getdeps_prune_eq by lia. rewrite filter_In, negb_true_iff, mem_false.
      destruct (Idep y p Hy Hp) as [H|H]; auto.
      destruct (in_dec Nat.eq_dec p (completed s)); auto.
    + rewrite getdeps_prune_neq by auto. auto.
Qed.

Lemma Inv_failed_mark g x v s : Inv g s -> x < length g -> v <> INITIALIZED ->
  ~ In x (completed s) -> ~ In x (inprog s) -> ~ In x (ready s) ->
  Inv g (rec_set_status x v (failed_add x s)).
Proof.
  intros I Hx Hv H1 H2 H3.
  assert (E : rec_set_status x v (failed_add x s) = failed_add x (rec_set_status x v s)) by reflexivity.
  rewrite E. apply Inv_failed_add; auto.
  - apply Inv_set_status; auto.
  - rewrite getrec_set_status_eq by (rewrite (i_len_recs g s I); auto). cbn. auto.
Qed.

Lemma Inv_cancelled_mark g x v s : Inv g s -> x < length g -> v <> INITIALIZED ->
  ~ In x (completed s) -> ~ In x (inprog s) -> ~ In x (ready s) ->
  Inv g (rec_set_status x v (cancelled_add x s)).
Proof.
  intros I Hx Hv H1 H2 H3.
  assert (E : rec_set_status x v (cancelled_add x s) = cancelled_add x (rec_set_status x v s)) by reflexivity.
  rewrite E. apply Inv_cancelled_add; auto.
  - apply Inv_set_status; auto.
  - rewrite getrec_set_status_eq by (rewrite (i_len_recs g s I); auto). cbn. auto.
Qed.

Lemma Inv_mark_failed_list g l : forall s, Inv g s ->
  (forall y, In y l -> y < length g /\ ~ In y (completed s) /\ ~ In y (inprog s) /\ ~ In y (ready s)) ->
  Inv g (mark_failed_list l s).
Proof.
  unfold mark_failed_list. induction l as [|a l IH]; intros s I H; cbn [fold_left]; auto.
  destruct (H a (or_introl eq_refl)) as (A & B & C & D).
  apply IH; [apply Inv_failed_mark; auto; discriminate|].
  intros y Hy. apply H. right. exact Hy.
Qed.

Lemma Inv_mark_cancelled_list g l : forall s, Inv g s ->
  (forall y, In y l -> y < length g /\ ~ In y (completed s) /\ ~ In y (inprog s) /\ ~ In y (ready s)) ->
  Inv g (mark_cancelled_list l s).
Proof.
  unfold mark_cancelled_list. induction l as [|a l IH]; intros s I H; cbn [fold_left]; auto.
  destruct (H a (or_introl eq_refl)) as (A & B & C & D).
  apply IH; [apply Inv_cancelled_mark; auto; discriminate|].
  intros y Hy. apply H. right. exact Hy.
Qed.

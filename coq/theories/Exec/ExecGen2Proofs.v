(** Tie between the hand-written summary [submit_attempts] (ExecBase.v), on
    which all execution proofs rest, and the text GENERATED from the record-level
    methods of /repo's _StepRecord (ExecGen2.v): they are the same function.
    A change of execute / restart / _execute / mark_* in the source changes
    ExecGen2.v and breaks one of these obligations. *)
From MWF Require Import Exec.ExecBase Exec.ExecSubmit Exec.ExecGen2.

Lemma mark_end_is_set_status x v s : mark_end_gen x v s = rec_set_status x v s.
Proof. reflexivity. Qed.

Lemma mark_running_is_set_status x s : mark_running_gen x s = rec_set_status x RUNNING s.
Proof. reflexivity. Qed.

Lemma mark_submitted_is_set_status x s : mark_submitted_gen x s = rec_set_status x PENDING s.
Proof. reflexivity. Qed.

Theorem submit_attempts_is_generated g x restart : forall n s,
  submit_attempts g x restart n s = attempts_gen g x restart n s.
Proof.
  induction n as [|n IH]; intros s; [reflexivity|].
  cbn [submit_attempts attempts_gen].
  unfold attempt_gen, rec_execute_gen, rec_restart_gen, rec__execute_gen, mark_submitted_gen, adapter_submit.
  destruct restart; cbn [negb];
    destruct (scheduled (attr g x)) eqn:Hs;
    match goal with |- context [next_sub ?t] => destruct (next_sub t) as [b t'] eqn:Hn end;
    destruct b; cbn; try rewrite Hs; try reflexivity; apply IH.
Qed.

(** The conductor loop: [ExecRun.poll] (hand-written, what every theorem is
    about) is one iteration of the text generated from Conductor.monitor_study,
    started with the poll's scripted submission outcomes and an empty event log;
    [ExecRun.run] iterates it exactly while the status is RUNNING. *)
From MWF Require Import Exec.ExecGen Exec.ExecRun.

Theorem poll_is_generated c g s p :
  poll c g s p = monitor_iter_gen c g p (set_evs (set_subs s (psubs p)) []).
Proof.
  unfold poll, monitor_iter_gen.
  destruct (execute_ready_steps_gen c g p _) as [s' r]. reflexivity.
Qed.

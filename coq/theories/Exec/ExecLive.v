(** C05, liveness half: a termination potential for the polling loop, the
    absence of deadlock, and termination under fair and quiet input streams.
    Everything is stated for the GENERATED decision logic (ExecGen.v). *)
From Coq Require Import Lia.
From MWF Require Import Base.Util Base.UtilLemmas Exec.ExecBase Exec.ExecGen Exec.ExecRun Exec.ExecTrace
  Exec.ExecGraph Exec.ExecInv Exec.ExecVerdict.

#[local] Arguments bfs_subtree : simpl never.
#[local] Arguments submit_attempts : simpl never.
#[local] Arguments mark_failed_list : simpl never.
#[local] Arguments mark_cancelled_list : simpl never.

(** * Part A: frame facts of the opaque combinators *)

Lemma lv_restarts_push_job x j y s : restarts (getrec (rec_push_job x j s) y) = restarts (getrec s y).
Proof.
  unfold getrec, rec_push_job. cbn.
  destruct (Nat.eq_dec x y) as [->|Hn]; [|rewrite nth_upd_neq; auto].
  destruct (Nat.lt_ge_cases y (length (recs s))) as [Hl|Hl].
  - rewrite nth_upd_eq; auto.
  - rewrite nth_upd_ge; auto.
Qed.

Lemma lv_status_set_status_neq x y v s : x <> y -> status (getrec (rec_set_status x v s) y) = status (getrec s y).
Proof. intros H. rewrite getrec_set_status_neq; auto. Qed.

Lemma lv_restarts_inc_neq x y s : x <> y -> restarts (getrec (rec_inc_restarts x s) y) = restarts (getrec s y).
Proof. intros H. unfold getrec, rec_inc_restarts. cbn. rewrite nth_upd_neq; auto. Qed.

Lemma lv_restarts_inc_le x y s : restarts (getrec s y) <= restarts (getrec (rec_inc_restarts x s) y).
Proof.
  unfold getrec, rec_inc_restarts. cbn.
  destruct (Nat.eq_dec x y) as [->|Hn]; [|rewrite nth_upd_neq; auto].
  destruct (Nat.lt_ge_cases y (length (recs s))) as [Hl|Hl].
  - rewrite nth_upd_eq; auto. cbn. lia.
  - rewrite nth_upd_ge; auto.
Qed.

Lemma lv_restarts_inc_eq x s : x < length (recs s) ->
  restarts (getrec (rec_inc_restarts x s) x) = S (restarts (getrec s x)).
Proof. intros H. unfold getrec, rec_inc_restarts. cbn. rewrite nth_upd_eq; auto. Qed.

(** what the potential and the liveness invariant look at *)
Record same_view (s s' : st) : Prop := {
  sv_completed : completed s' = completed s;
  sv_inprog : inprog s' = inprog s;
  sv_ready : ready s' = ready s;
  sv_failed : failed s' = failed s;
  sv_cancelled : cancelled s' = cancelled s;
  sv_deps : deps s' = deps s;
  sv_canceled : canceled s' = canceled s;
  sv_restarts : forall y, restarts (getrec s' y) = restarts (getrec s y) }.

Lemma same_view_refl s : same_view s s.
Proof. constructor; auto. Qed.
Lemma same_view_trans a b d : same_view a b -> same_view b d -> same_view a d.
Proof. intros [] []. constructor; first [congruence | intros y; congruence]. Qed.

Lemma sv_set_status x v s : same_view s (rec_set_status x v s).
Proof. constructor; auto. intros y. apply restarts_set_status. Qed.
Lemma sv_push_job x j s : same_view s (rec_push_job x j s).
Proof. constructor; auto. intros y. apply lv_restarts_push_job. Qed.
Lemma sv_emit e s : same_view s (emit e s).
Proof. constructor; auto. Qed.
Lemma sv_set_subs v s : same_view s (set_subs s v).
Proof. constructor; auto. Qed.
Lemma sv_set_next_job v s : same_view s (set_next_job s v).
Proof. constructor; auto. Qed.
Lemma sv_set_evs v s : same_view s (set_evs s v).
Proof. constructor; auto. Qed.

Lemma sv_next_sub s : same_view s (snd (next_sub s)).
Proof. unfold next_sub. destruct (subs s); cbn; [apply same_view_refl | apply sv_set_subs]. Qed.

(** statuses: which records a combinator may touch, and never back to INITIALIZED *)
Definition st_frame (P : nat -> Prop) (s s' : st) : Prop :=
  forall y, (status (getrec s' y) = status (getrec s y) \/ (P y /\ status (getrec s' y) <> INITIALIZED)).

Lemma st_frame_refl P s : st_frame P s s.
Proof. intros y. left. reflexivity. Qed.
Lemma st_frame_trans P a b d : st_frame P a b -> st_frame P b d -> st_frame P a d.
Proof.
  intros H1 H2 y. destruct (H2 y) as [E|[Hp Hn]]; [|right; auto].
  rewrite E. apply H1.
Qed.
Lemma st_frame_weaken (P Q : nat -> Prop) s s' : (forall y, P y -> Q y) -> st_frame P s s' -> st_frame Q s s'.
Proof. intros H F y. destruct (F y) as [E|[Hp Hn]]; auto. Qed.

Lemma st_frame_set_status x v s : v <> INITIALIZED -> st_frame (eq x) s (rec_set_status x v s).
Proof.
  intros Hv y. destruct (Nat.eq_dec x y) as [->|Hn].
  - destruct (status_set_status y y v s) as [E|E]; [left; auto|right; split; congruence].
  - left. apply lv_status_set_status_neq; auto.
Qed.
Lemma st_frame_same_recs P s s' : recs s' = recs s -> st_frame P s s'.
Proof. intros E y. left. unfold getrec. rewrite E. reflexivity. Qed.
Lemma st_frame_push_job P x j s : st_frame P s (rec_push_job x j s).
Proof. intros y. left. apply status_push_job. Qed.
Lemma st_frame_inc_restarts P x s : st_frame P s (rec_inc_restarts x s).
Proof. intros y. left. apply status_inc_restarts. Qed.

(** ** the sweep loops *)
Lemma lv_mfl l : forall s,
  let s' := mark_failed_list l s in
  completed s' = completed s /\ inprog s' = inprog s /\ ready s' = ready s /\ cancelled s' = cancelled s /\
  deps s' = deps s /\ canceled s' = canceled s /\
  (forall y, restarts (getrec s' y) = restarts (getrec s y)) /\
  (forall y, In y (failed s') <-> In y l \/ In y (failed s)) /\
  st_frame (fun y => In y l) s s'.
Proof.
  unfold mark_failed_list. induction l as [|a l IH]; intros s; cbn [fold_left].
  - splits; auto. + intros y. cbn. tauto. + apply st_frame_refl.
  - specialize (IH (rec_set_status a FAILED (failed_add a s))). cbn zeta in IH.
    destruct IH as (A & B & C & D & E & F & G & H & K). splits; try (etransitivity; [eassumption|reflexivity]).
    + intros y. rewrite G. rewrite restarts_set_status. reflexivity.
    + intros y. rewrite H. change (failed (rec_set_status a FAILED (failed_add a s))) with (sadd a (failed s)).
      rewrite In_sadd. cbn [In]. intuition.
    + eapply st_frame_trans; [|eapply st_frame_weaken; [|exact K]].
      * eapply st_frame_weaken; [|apply (st_frame_trans _ _ (failed_add a s))].
        2:{ apply st_frame_same_recs. reflexivity. }
        2:{ apply st_frame_set_status. discriminate. }
        intros y <-. left. reflexivity.
      * intros y Hy. right. exact Hy.
Qed.

Lemma lv_mcl l : forall s,
  let s' := mark_cancelled_list l s in
  completed s' = completed s /\ inprog s' = inprog s /\ ready s' = ready s /\ failed s' = failed s /\
  deps s' = deps s /\ canceled s' = canceled s /\
  (forall y, restarts (getrec s' y) = restarts (getrec s y)) /\
  (forall y, In y (cancelled s') <-> In y l \/ In y (cancelled s)) /\
  st_frame (fun y => In y l) s s'.
Proof.
  unfold mark_cancelled_list. induction l as [|a l IH]; intros s; cbn [fold_left].
  - splits; auto. + intros y. cbn. tauto. + apply st_frame_refl.
  - specialize (IH (rec_set_status a CANCELLED (cancelled_add a s))). cbn zeta in IH.
    destruct IH as (A & B & C & D & E & F & G & H & K). splits; try (etransitivity; [eassumption|reflexivity]).
    + intros y. rewrite G. rewrite restarts_set_status. reflexivity.
    + intros y. rewrite H. change (cancelled (rec_set_status a CANCELLED (cancelled_add a s))) with (sadd a (cancelled s)).
      rewrite In_sadd. cbn [In]. intuition.
    + eapply st_frame_trans; [|eapply st_frame_weaken; [|exact K]].
      * eapply st_frame_weaken; [|apply (st_frame_trans _ _ (cancelled_add a s))].
        2:{ apply st_frame_same_recs. reflexivity. }
        2:{ apply st_frame_set_status. discriminate. }
        intros y <-. left. reflexivity.
      * intros y Hy. right. exact Hy.
Qed.

Lemma lv_In_set_union l : forall acc y, In y (set_union l acc) <-> In y l \/ In y acc.
Proof.
  unfold set_union. induction l as [|a l IH]; intros acc y; cbn [fold_left].
  - cbn. tauto.
  - rewrite IH, In_sadd. cbn [In]. intuition.
Qed.

(** ** the submission retry loop *)
Lemma lv_submit g x restart n : forall s,
  same_view s (snd (submit_attempts g x restart n s)) /\
  st_frame (eq x) s (snd (submit_attempts g x restart n s)).
Proof.
  unfold submit_attempts. induction n as [|n IH]; intros s.
  - cbn. splits; [apply same_view_refl | apply st_frame_refl].
  - fold submit_attempts in *.
    set (s1 := if restart then emit (EGen x) s else rec_set_status x PENDING s).
    set (s2 := if scheduled (attr g x) then s1 else rec_set_status x RUNNING s1).
    assert (V1 : same_view s s1) by (unfold s1; destruct restart; [apply sv_emit | apply sv_set_status]).
    assert (V2 : same_view s1 s2) by (unfold s2; destruct (scheduled (attr g x)); [apply same_view_refl | apply sv_set_status]).
    assert (F1 : st_frame (eq x) s s1).
    { unfold s1; destruct restart; [apply st_frame_same_recs; reflexivity | apply st_frame_set_status; discriminate]. }
    assert (F2 : st_frame (eq x) s1 s2).
    { unfold s2; destruct (scheduled (attr g x)); [apply st_frame_refl | apply st_frame_set_status; discriminate]. }
    pose proof (sv_next_sub s2) as V3.
    assert (F3 : recs (snd (next_sub s2)) = recs s2) by (unfold next_sub; destruct (subs s2); reflexivity).
    destruct (next_sub s2) as [b s3] eqn:E3. cbn [snd] in V3, F3.
    assert (F3' : st_frame (eq x) s2 s3) by (apply st_frame_same_recs; auto).
    destruct b.
    + cbn [snd]. splits.
      * eapply same_view_trans; [exact V1|]. eapply same_view_trans; [exact V2|]. eapply same_view_trans; [exact V3|].
        eapply same_view_trans; [apply (sv_set_next_job (S (next_job s3)))|].
        eapply same_view_trans; [apply sv_push_job|]. apply sv_emit.
      * eapply st_frame_trans; [exact F1|]. eapply st_frame_trans; [exact F2|]. eapply st_frame_trans; [exact F3'|].
        intros y. left.
        transitivity (status (getrec (rec_push_job x (next_job s3) (set_next_job s3 (S (next_job s3)))) y)); [reflexivity|].
        rewrite status_push_job. reflexivity.
    + specialize (IH (emit (ESubmit x (if restart then Restart else Main) (scheduled (attr g x)) None) s3)).
      destruct IH as (A & B). splits.
      * eapply same_view_trans; [exact V1|]. eapply same_view_trans; [exact V2|]. eapply same_view_trans; [exact V3|].
        eapply same_view_trans; [apply sv_emit|]. exact A.
      * eapply st_frame_trans; [exact F1|]. eapply st_frame_trans; [exact F2|]. eapply st_frame_trans; [exact F3'|].
        eapply st_frame_trans; [apply st_frame_same_recs; reflexivity|]. exact B.
Qed.

(** * Part B: [bfs_subtree] is closed under [children] (the fuel suffices) *)
Lemma lv_bfs_visit_fold cs : forall q pth,
  exists new, fold_left bfs_visit cs (q, pth) = (q ++ new, pth ++ new) /\
    NoDup new /\ (forall z, In z new -> In z cs /\ ~ In z pth) /\ (forall z, In z cs -> In z pth \/ In z new).
Proof.
  induction cs as [|c cs IH]; intros q pth; cbn [fold_left].
  - exists []. rewrite !app_nil_r. splits; [reflexivity | constructor | intros z [] | intros z []].
  - unfold bfs_visit at 2. destruct (mem c pth) eqn:E.
    + apply mem_In in E. destruct (IH q pth) as (new & A & B & C & D). exists new. splits; auto.
      * intros z Hz. destruct (C z Hz). split; auto. right. auto.
      * intros z [<-|Hz]; auto.
    + apply mem_false in E. destruct (IH (q ++ [c]) (pth ++ [c])) as (new & A & B & C & D).
      exists (c :: new). rewrite A, <- !app_assoc. cbn [app]. splits; auto.
      * constructor; auto. intros Hc. destruct (C c Hc) as [_ K]. apply K. rewrite in_app_iff. right. left. reflexivity.
      * intros z [<-|Hz]; [split; auto; left; reflexivity|]. destruct (C z Hz) as [K1 K2]. split; [right; auto|].
        intros K. apply K2. rewrite in_app_iff. auto.
      * intros z [<-|Hz]; [right; left; reflexivity|]. destruct (D z Hz) as [K|K]; [|right; right; auto].
        rewrite in_app_iff in K. destruct K as [K|[<-|[]]]; auto. right. left. reflexivity.
Qed.

Lemma lv_NoDup_app {A} (a b : list A) : NoDup a -> NoDup b -> (forall z, In z b -> ~ In z a) -> NoDup (a ++ b).
Proof.
  induction a as [|x a IH]; intros Ha Hb D; cbn; auto.
  inversion Ha; subst. constructor.
  - rewrite in_app_iff. intros [K|K]; auto. apply (D x K). left. reflexivity.
  - apply IH; auto. intros z Hz K. apply (D z Hz). right. exact K.
Qed.

Lemma lv_bfs_go_closed g (W : WF g) fuel : forall queue path done,
  path = done ++ queue -> NoDup path -> (forall z, In z path -> z < length g) ->
  (forall d, In d done -> incl (children (attr g d)) path) ->
  S (length g) <= fuel + length done ->
  forall y, In y (bfs_go g fuel queue path) -> incl (children (attr g y)) (bfs_go g fuel queue path).
Proof.
  induction fuel as [|f IH]; intros queue path done E ND B C F.
  - exfalso. assert (length path <= length g).
    { rewrite <- (seq_length (length g) 0). apply NoDup_incl_length; auto. intros z Hz. apply In_seq_lt. auto. }
    rewrite E, app_length in H. cbn in F. lia.
  - cbn [bfs_go]. destruct queue as [|r q].
    + rewrite app_nil_r in E. subst done. intros y Hy. apply C. exact Hy.
    + destruct (lv_bfs_visit_fold (children (attr g r)) q path) as (new & A & N1 & N2 & N3). rewrite A.
      assert (Hr : r < length g) by (apply B; rewrite E, in_app_iff; right; left; reflexivity).
      apply (IH (q ++ new) (path ++ new) (done ++ [r])).
      * rewrite E, <- !app_assoc. reflexivity.
      * apply lv_NoDup_app; auto. intros z Hz. apply N2. exact Hz.
      * intros z Hz. rewrite in_app_iff in Hz. destruct Hz as [Hz|Hz]; auto.
        destruct (N2 z Hz) as [K _]. eapply wf_child_lt; eauto.
      * intros d Hd z Hz. rewrite in_app_iff in Hd. rewrite in_app_iff. destruct Hd as [Hd|[<-|[]]].
        -- left. apply (C d Hd z Hz).
        -- destruct (N3 z Hz); auto.
      * rewrite app_length. cbn. lia.
Qed.

Lemma lv_bfs_out g x : length g <= x -> bfs_subtree g x = [x].
Proof.
  intros H. unfold bfs_subtree. cbn [bfs_go]. unfold attr. rewrite nth_overflow by exact H. cbn.
  destruct (length g); reflexivity.
Qed.

Lemma lv_bfs_closed g x y : WF g -> In y (bfs_subtree g x) -> incl (children (attr g y)) (bfs_subtree g x).
Proof.
  intros W Hy. destruct (Nat.lt_ge_cases x (length g)) as [Hx|Hx].
  - unfold bfs_subtree in *. apply (lv_bfs_go_closed g W (S (length g)) [x] [x] []); auto.
    + constructor; [intros []|constructor].
    + intros z [<-|[]]. exact Hx.
    + intros d [].
    + cbn. lia.
  - rewrite lv_bfs_out in * by exact Hx. destruct Hy as [<-|[]].
    unfold attr. rewrite nth_overflow by exact Hx. intros z [].
Qed.

(** children are different from their parent in a well-formed graph *)
Lemma lv_child_neq g x ch : WF g -> In ch (children (attr g x)) -> ch <> x.
Proof.
  intros W H. destruct (Nat.lt_ge_cases x (length g)) as [Hx|Hx].
  - pose proof (wf_child_par g W x ch Hx H) as P. pose proof (wf_child_lt g W x ch Hx H) as L.
    pose proof (wf_par_lt g W ch x L P). lia.
  - unfold attr in H. rewrite nth_overflow in H by exact Hx. destruct H.
Qed.

(** * Part C: the termination potential *)
Definition resolvedb (s : st) (x : nat) : bool := mem x (completed s) || mem x (failed s) || mem x (cancelled s).
(** remaining restart budget of a restartable step with a finite limit *)
Definition budget (g : graph) (s : st) (x : nat) : nat :=
  if has_restart (attr g x) && negb (rlimit (attr g x) =? 0) then rlimit (attr g x) - restarts (getrec s x) else 0.
(** 3 while waiting, 2 while in the ready queue, 1 while in progress *)
Definition stagew (s : st) (x : nat) : nat := if mem x (inprog s) then 1 else if mem x (ready s) then 2 else 3.
(** weight of a node; [R] = nodes already collected for the failed/cancelled sweeps of the current poll *)
Definition wtR (g : graph) (s : st) (R : list nat) (x : nat) : nat :=
  if resolvedb s x || mem x R then 0 else stagew s x + budget g s x.
Definition wt (g : graph) (s : st) (x : nat) : nat := wtR g s [] x.
Fixpoint sumf (f : nat -> nat) (l : list nat) : nat := match l with [] => 0 | x :: l' => f x + sumf f l' end.
Definition Phi (g : graph) (s : st) : nat := sumf (wt g s) (seq 0 (length g)).

Lemma sumf_le f h l : (forall x, In x l -> f x <= h x) -> sumf f l <= sumf h l.
Proof.
  induction l as [|a l IH]; intros H; cbn; [lia|].
  pose proof (H a (or_introl eq_refl)). assert (sumf f l <= sumf h l) by (apply IH; intros; apply H; right; auto). lia.
Qed.
Lemma sumf_lt f h l x : (forall y, In y l -> f y <= h y) -> In x l -> f x < h x -> sumf f l < sumf h l.
Proof.
  induction l as [|a l IH]; intros H Hx Hlt; [destruct Hx|]. cbn.
  pose proof (H a (or_introl eq_refl)).
  assert (sumf f l <= sumf h l) by (apply sumf_le; intros; apply H; right; auto).
  destruct Hx as [->|Hx]; [lia|].
  assert (sumf f l < sumf h l) by (apply IH; auto; intros; apply H; right; auto). lia.
Qed.

Definition resR (s : st) (R : list nat) (y : nat) : Prop :=
  In y (completed s) \/ In y (failed s) \/ In y (cancelled s) \/ In y R.
Definition tracked (s : st) (R : list nat) (y : nat) : Prop :=
  resR s R y \/ In y (inprog s) \/ In y (ready s).

Lemma resR_b s R y : resolvedb s y || mem y R = true <-> resR s R y.
Proof. unfold resolvedb, resR. rewrite !orb_true_iff, !mem_In. tauto. Qed.
Lemma resR_dec s R y : resR s R y \/ ~ resR s R y.
Proof. rewrite <- resR_b. destruct (resolvedb s y || mem y R); [left|right]; congruence. Qed.

Lemma wtR_res g s R y : resR s R y -> wtR g s R y = 0.
Proof. intros H. apply resR_b in H. unfold wtR. rewrite H. reflexivity. Qed.
Lemma wtR_unres g s R y : ~ resR s R y -> wtR g s R y = stagew s y + budget g s y.
Proof. intros H. rewrite <- resR_b in H. unfold wtR. destruct (resolvedb s y || mem y R); congruence. Qed.

Lemma stagew_inprog s y : In y (inprog s) -> stagew s y = 1.
Proof. intros H. apply mem_In in H. unfold stagew. rewrite H. reflexivity. Qed.
Lemma stagew_ready s y : ~ In y (inprog s) -> In y (ready s) -> stagew s y = 2.
Proof. intros H1 H2. apply mem_false in H1. apply mem_In in H2. unfold stagew. rewrite H1, H2. reflexivity. Qed.
Lemma stagew_ge1 s y : 1 <= stagew s y.
Proof. unfold stagew. destruct (mem y (inprog s)), (mem y (ready s)); lia. Qed.
Lemma stagew_le3 s y : stagew s y <= 3.
Proof. unfold stagew. destruct (mem y (inprog s)), (mem y (ready s)); lia. Qed.
Lemma stagew_ext s s' y : (In y (inprog s') <-> In y (inprog s)) -> (In y (ready s') <-> In y (ready s)) ->
  stagew s' y = stagew s y.
Proof.
  intros H1 H2. unfold stagew.
  assert (E1 : mem y (inprog s') = mem y (inprog s)).
  { destruct (mem y (inprog s)) eqn:E; [apply mem_In; apply H1; apply mem_In; auto|].
    apply mem_false. rewrite H1. apply mem_false. auto. }
  assert (E2 : mem y (ready s') = mem y (ready s)).
  { destruct (mem y (ready s)) eqn:E; [apply mem_In; apply H2; apply mem_In; auto|].
    apply mem_false. rewrite H2. apply mem_false. auto. }
  rewrite E1, E2. reflexivity.
Qed.
Lemma stagew_staged s s' y : (In y (inprog s') <-> In y (inprog s)) -> In y (ready s') -> stagew s' y <= stagew s y.
Proof.
  intros H1 H2. unfold stagew.
  assert (E1 : mem y (inprog s') = mem y (inprog s)).
  { destruct (mem y (inprog s)) eqn:E; [apply mem_In; apply H1; apply mem_In; auto|].
    apply mem_false. rewrite H1. apply mem_false. auto. }
  apply mem_In in H2. rewrite E1, H2. destruct (mem y (inprog s)), (mem y (ready s)); lia.
Qed.
Lemma budget_mono g s s' y : restarts (getrec s y) <= restarts (getrec s' y) -> budget g s' y <= budget g s y.
Proof. intros H. unfold budget. destruct (has_restart (attr g y) && negb (rlimit (attr g y) =? 0)); lia. Qed.

(** closure of the unsuccessful sets under [children] (within the current sweep sets) *)
Definition FC (s : st) (R : list nat) (z : nat) : Prop := In z (failed s) \/ In z (cancelled s) \/ In z R.
Definition clo (g : graph) (s : st) (R : list nat) : Prop :=
  forall y, In y (failed s) \/ In y R \/ (canceled s = false /\ In y (cancelled s)) ->
  forall ch, In ch (children (attr g y)) -> FC s R ch.
(** a node that has left INITIALIZED is accounted for *)
Definition acct (s : st) (R : list nat) : Prop := forall y, status (getrec s y) <> INITIALIZED -> tracked s R y.
(** the dependency table only ever shrinks from the parents *)
Definition depsok (g : graph) (s : st) : Prop := forall y, incl (getdeps s y) (parents (attr g y)).

Definition xsame (x : nat) (s s' : st) : Prop :=
  (In x (inprog s') <-> In x (inprog s)) /\ (In x (ready s') <-> In x (ready s)).
Definition xstaged (x : nat) (s s' : st) : Prop :=
  (In x (inprog s') <-> In x (inprog s)) /\ In x (ready s').

(** Summary of one step of the poll that acts on node [x]; [hw] = the step may
    move [x] from [inprog] back to the ready queue (hardware failure). *)
Record astep (g : graph) (hw : bool) (x : nat) (s : st) (R : list nat) (s' : st) (R' : list nat) : Prop := {
  as_res : forall y, resR s R y -> resR s' R' y;
  as_failed : forall y, In y (failed s) -> In y (failed s');
  as_inprog : forall y, y <> x -> (In y (inprog s') <-> In y (inprog s));
  as_ready : forall y, y <> x -> (In y (ready s') <-> In y (ready s));
  as_restarts : forall y, y <> x -> restarts (getrec s' y) = restarts (getrec s y);
  as_restarts_x : restarts (getrec s x) <= restarts (getrec s' x);
  as_status : st_frame (fun y => y = x \/ In y (failed s')) s s';
  as_deps : forall y, incl (getdeps s' y) (getdeps s y);
  as_canceled : canceled s' = canceled s;
  as_clo : WF g -> clo g s R -> clo g s' R';
  as_x : resR s' R' x \/ In x (inprog s') \/ xsame x s s' \/ xstaged x s s' \/ (hw = true /\ In x (ready s')) }.

Definition wle (g : graph) (s : st) (R : list nat) (s' : st) (R' : list nat) : Prop :=
  forall y, wtR g s' R' y <= wtR g s R y.

Lemma wle_refl g s R : wle g s R s R.
Proof. intros y. lia. Qed.
Lemma wle_trans g s R s1 R1 s2 R2 : wle g s R s1 R1 -> wle g s1 R1 s2 R2 -> wle g s R s2 R2.
Proof. intros H1 H2 y. specialize (H1 y). specialize (H2 y). lia. Qed.

Lemma astep_wle g x s R s' R' : astep g false x s R s' R' -> wle g s R s' R'.
Proof.
  intros A y. destruct (resR_dec s' R' y) as [H'|H']; [rewrite wtR_res; auto; lia|].
  assert (H : ~ resR s R y) by (intros K; apply H'; eapply as_res; eauto).
  rewrite !wtR_unres; auto.
  destruct (Nat.eq_dec y x) as [->|Hn].
  - pose proof (budget_mono g s s' x (as_restarts_x _ _ _ _ _ _ _ A)) as B.
    destruct (as_x _ _ _ _ _ _ _ A) as [K|[K|[K|[K|K]]]].
    + contradiction.
    + rewrite (stagew_inprog s' x K). pose proof (stagew_ge1 s x). lia.
    + destruct K as [K1 K2]. rewrite (stagew_ext s s' x K1 K2). lia.
    + destruct K as [K1 K2]. pose proof (stagew_staged s s' x K1 K2). lia.
    + destruct K; discriminate.
  - rewrite (stagew_ext s s' y (as_inprog _ _ _ _ _ _ _ A y Hn) (as_ready _ _ _ _ _ _ _ A y Hn)).
    assert (budget g s' y = budget g s y); [|lia].
    unfold budget. rewrite (as_restarts _ _ _ _ _ _ _ A y Hn). reflexivity.
Qed.

Lemma astep_tracked g hw x s R s' R' y : astep g hw x s R s' R' -> tracked s R y -> tracked s' R' y.
Proof.
  intros A T. destruct (Nat.eq_dec y x) as [->|Hn].
  - destruct (as_x _ _ _ _ _ _ _ A) as [K|[K|[K|[K|K]]]].
    + left. auto.
    + right. left. auto.
    + destruct K as [K1 K2]. destruct T as [T|[T|T]]; [left; eapply as_res; eauto | right; left; tauto | right; right; tauto].
    + destruct K as [K1 K2]. right. right. auto.
    + right. right. tauto.
  - destruct T as [T|[T|T]]; [left; eapply as_res; eauto | right; left | right; right].
    + apply (as_inprog _ _ _ _ _ _ _ A y Hn). auto.
    + apply (as_ready _ _ _ _ _ _ _ A y Hn). auto.
Qed.

Lemma astep_acct g hw x s R s' R' : astep g hw x s R s' R' -> tracked s R x -> acct s R -> acct s' R'.
Proof.
  intros A Tx H y Hy. destruct (as_status _ _ _ _ _ _ _ A y) as [E|[[->|K] _]].
  - rewrite E in Hy. eapply astep_tracked; eauto.
  - eapply astep_tracked; eauto.
  - left. right. left. exact K.
Qed.

Lemma astep_depsok g hw x s R s' R' : astep g hw x s R s' R' -> depsok g s -> depsok g s'.
Proof. intros A D y z Hz. apply D. eapply as_deps; eauto. Qed.

(** C05, liveness half: a termination potential for the polling loop, the
    absence of deadlock, and termination under fair and quiet input streams.
    Everything is stated for the GENERATED decision logic (ExecGen.v). *)
From Coq Require Import Lia.
From MWF Require Import Base.Util Base.UtilLemmas Exec.ExecBase Exec.ExecGen Exec.ExecRun Exec.ExecTrace
  Exec.ExecGraph Exec.ExecInv Exec.ExecVerdict.

Arguments bfs_subtree : simpl never.
Arguments submit_attempts : simpl never.
Arguments mark_failed_list : simpl never.
Arguments mark_cancelled_list : simpl never.

(** * Part A: frame facts of the opaque combinators *)

Lemma lv_restarts_push_job x j y s : restarts (getrec (rec_push_job x j s) y) = restarts (getrec s y).
Proof.
  unfold getrec, rec_push_job. cbn.
  destruct (Nat.eq_dec x y) as [->|Hn]; [|rewrite nth_upd_neq; auto].
  destruct (Nat.lt_ge_cases y (length (recs s))) as [Hl|Hl].
  - rewrite nth_upd_eq; auto.
  - rewrite nth_upd_ge; auto.
Qed.

Lemma lv_status_set_status_neq x y v s : x <> y -> status (getrec (rec_set_status x v s) y) = status (getrec s y).
Proof. intros H. rewrite getrec_set_status_neq; auto. Qed.

Lemma lv_restarts_inc_neq x y s : x <> y -> restarts (getrec (rec_inc_restarts x s) y) = restarts (getrec s y).
Proof. intros H. unfold getrec, rec_inc_restarts. cbn. rewrite nth_upd_neq; auto. Qed.

Lemma lv_restarts_inc_le x y s : restarts (getrec s y) <= restarts (getrec (rec_inc_restarts x s) y).
Proof.
  unfold getrec, rec_inc_restarts. cbn.
  destruct (Nat.eq_dec x y) as [->|Hn]; [|rewrite nth_upd_neq; auto].
  destruct (Nat.lt_ge_cases y (length (recs s))) as [Hl|Hl].
  - rewrite nth_upd_eq; auto.
  - rewrite nth_upd_ge; auto.
Qed.

Lemma lv_restarts_inc_eq x s : x < length (recs s) ->
  restarts (getrec (rec_inc_restarts x s) x) = S (restarts (getrec s x)).
Proof. intros H. unfold getrec, rec_inc_restarts. cbn. rewrite nth_upd_eq; auto. Qed.

(** what the potential and the liveness invariant look at *)
Record same_view (s s' : st) : Prop := {
  sv_completed : completed s' = completed s;
  sv_inprog : inprog s' = inprog s;
  sv_ready : ready s' = ready s;
  sv_failed : failed s' = failed s;
  sv_cancelled : cancelled s' = cancelled s;
  sv_deps : deps s' = deps s;
  sv_canceled : canceled s' = canceled s;
  sv_restarts : forall y, restarts (getrec s' y) = restarts (getrec s y) }.

Lemma same_view_refl s : same_view s s.
Proof. constructor; auto. Qed.
Lemma same_view_trans a b d : same_view a b -> same_view b d -> same_view a d.
Proof. intros [] []. constructor; try congruence. intros y. congruence. Qed.

Lemma sv_set_status x v s : same_view s (rec_set_status x v s).
Proof. constructor; auto. intros y. apply restarts_set_status. Qed.
Lemma sv_push_job x j s : same_view s (rec_push_job x j s).
Proof. constructor; auto. intros y. apply lv_restarts_push_job. Qed.
Lemma sv_emit e s : same_view s (emit e s).
Proof. constructor; auto. Qed.
Lemma sv_set_subs v s : same_view s (set_subs s v).
Proof. constructor; auto. Qed.
Lemma sv_set_next_job v s : same_view s (set_next_job s v).
Proof. constructor; auto. Qed.
Lemma sv_set_evs v s : same_view s (set_evs s v).
Proof. constructor; auto. Qed.

Lemma sv_next_sub s : same_view s (snd (next_sub s)).
Proof. unfold next_sub. destruct (subs s); cbn; [apply same_view_refl | apply sv_set_subs]. Qed.

(** statuses: which records a combinator may touch, and never back to INITIALIZED *)
Definition st_frame (P : nat -> Prop) (s s' : st) : Prop :=
  forall y, (status (getrec s' y) = status (getrec s y) \/ (P y /\ status (getrec s' y) <> INITIALIZED)).

Lemma st_frame_refl P s : st_frame P s s.
Proof. intros y. left. reflexivity. Qed.
Lemma st_frame_trans P a b d : st_frame P a b -> st_frame P b d -> st_frame P a d.
Proof.
  intros H1 H2 y. destruct (H2 y) as [E|[Hp Hn]]; [|right; auto].
  rewrite E. apply H1.
Qed.
Lemma st_frame_weaken (P Q : nat -> Prop) s s' : (forall y, P y -> Q y) -> st_frame P s s' -> st_frame Q s s'.
Proof. intros H F y. destruct (F y) as [E|[Hp Hn]]; auto. Qed.

Lemma st_frame_set_status x v s : v <> INITIALIZED -> st_frame (eq x) s (rec_set_status x v s).
Proof.
  intros Hv y. destruct (Nat.eq_dec x y) as [->|Hn].
  - destruct (status_set_status y y v s) as [E|E]; [left; auto|right; split; congruence].
  - left. apply lv_status_set_status_neq; auto.
Qed.
Lemma st_frame_same_recs P s s' : recs s' = recs s -> st_frame P s s'.
Proof. intros E y. left. unfold getrec. rewrite E. reflexivity. Qed.
Lemma st_frame_push_job P x j s : st_frame P s (rec_push_job x j s).
Proof. intros y. left. apply status_push_job. Qed.
Lemma st_frame_inc_restarts P x s : st_frame P s (rec_inc_restarts x s).
Proof. intros y. left. apply status_inc_restarts. Qed.

(** ** the sweep loops *)
Lemma lv_mfl l : forall s,
  let s' := mark_failed_list l s in
  completed s' = completed s /\ inprog s' = inprog s /\ ready s' = ready s /\ cancelled s' = cancelled s /\
  deps s' = deps s /\ canceled s' = canceled s /\
  (forall y, restarts (getrec s' y) = restarts (getrec s y)) /\
  (forall y, In y (failed s') <-> In y l \/ In y (failed s)) /\
  st_frame (fun y => In y l) s s'.
Proof.
  unfold mark_failed_list. induction l as [|a l IH]; intros s; cbn [fold_left].
  - splits; auto. + intros y. cbn. tauto. + apply st_frame_refl.
  - specialize (IH (rec_set_status a FAILED (failed_add a s))). cbn zeta in IH.
    destruct IH as (A & B & C & D & E & F & G & H & K). splits; try (etransitivity; [eassumption|reflexivity]).
    + intros y. rewrite G. rewrite restarts_set_status. reflexivity.
    + intros y. rewrite H. unfold failed_add. sp. rewrite In_sadd. cbn [In]. intuition.
    + eapply st_frame_trans; [|eapply st_frame_weaken; [|exact K]].
      * eapply st_frame_weaken; [|apply (st_frame_trans _ _ (failed_add a s))].
        2:{ apply st_frame_same_recs. reflexivity. }
        2:{ apply st_frame_set_status. discriminate. }
        intros y <-. left. reflexivity.
      * intros y Hy. right. exact Hy.
Qed.

Lemma lv_mcl l : forall s,
  let s' := mark_cancelled_list l s in
  completed s' = completed s /\ inprog s' = inprog s /\ ready s' = ready s /\ failed s' = failed s /\
  deps s' = deps s /\ canceled s' = canceled s /\
  (forall y, restarts (getrec s' y) = restarts (getrec s y)) /\
  (forall y, In y (cancelled s') <-> In y l \/ In y (cancelled s)) /\
  st_frame (fun y => In y l) s s'.
Proof.
  unfold mark_cancelled_list. induction l as [|a l IH]; intros s; cbn [fold_left].
  - splits; auto. + intros y. cbn. tauto. + apply st_frame_refl.
  - specialize (IH (rec_set_status a CANCELLED (cancelled_add a s))). cbn zeta in IH.
    destruct IH as (A & B & C & D & E & F & G & H & K). splits; try (etransitivity; [eassumption|reflexivity]).
    + intros y. rewrite G. rewrite restarts_set_status. reflexivity.
    + intros y. rewrite H. unfold cancelled_add. sp. rewrite In_sadd. cbn [In]. intuition.
    + eapply st_frame_trans; [|eapply st_frame_weaken; [|exact K]].
      * eapply st_frame_weaken; [|apply (st_frame_trans _ _ (cancelled_add a s))].
        2:{ apply st_frame_same_recs. reflexivity. }
        2:{ apply st_frame_set_status. discriminate. }
        intros y <-. left. reflexivity.
      * intros y Hy. right. exact Hy.
Qed.

Lemma lv_In_set_union l : forall acc y, In y (set_union l acc) <-> In y l \/ In y acc.
Proof.
  unfold set_union. induction l as [|a l IH]; intros acc y; cbn [fold_left].
  - cbn. tauto.
  - rewrite IH, In_sadd. cbn [In]. intuition.
Qed.

(** ** the submission retry loop *)
Lemma lv_submit g x restart n : forall s,
  same_view s (snd (submit_attempts g x restart n s)) /\
  st_frame (eq x) s (snd (submit_attempts g x restart n s)).
Proof.
  unfold submit_attempts. induction n as [|n IH]; intros s.
  - cbn. splits; [apply same_view_refl | apply st_frame_refl].
  - fold submit_attempts in *.
    set (s1 := if restart then emit (EGen x) s else rec_set_status x PENDING s).
    set (s2 := if scheduled (attr g x) then s1 else rec_set_status x RUNNING s1).
    assert (V1 : same_view s s1) by (unfold s1; destruct restart; [apply sv_emit | apply sv_set_status]).
    assert (V2 : same_view s1 s2) by (unfold s2; destruct (scheduled (attr g x)); [apply same_view_refl | apply sv_set_status]).
    assert (F1 : st_frame (eq x) s s1).
    { unfold s1; destruct restart; [apply st_frame_same_recs; reflexivity | apply st_frame_set_status; discriminate]. }
    assert (F2 : st_frame (eq x) s1 s2).
    { unfold s2; destruct (scheduled (attr g x)); [apply st_frame_refl | apply st_frame_set_status; discriminate]. }
    pose proof (sv_next_sub s2) as V3.
    assert (F3 : recs (snd (next_sub s2)) = recs s2) by (unfold next_sub; destruct (subs s2); reflexivity).
    destruct (next_sub s2) as [b s3] eqn:E3. cbn [snd] in V3, F3.
    assert (F3' : st_frame (eq x) s2 s3) by (apply st_frame_same_recs; auto).
    destruct b.
    + cbn [snd]. splits.
      * eapply same_view_trans; [exact V1|]. eapply same_view_trans; [exact V2|]. eapply same_view_trans; [exact V3|].
        eapply same_view_trans; [apply (sv_set_next_job (S (next_job s3)))|].
        eapply same_view_trans; [apply sv_push_job|]. apply sv_emit.
      * eapply st_frame_trans; [exact F1|]. eapply st_frame_trans; [exact F2|]. eapply st_frame_trans; [exact F3'|].
        intros y. left. cbn. rewrite status_push_job. reflexivity.
    + specialize (IH (emit (ESubmit x (if restart then Restart else Main) (scheduled (attr g x)) None) s3)).
      destruct IH as (A & B). splits.
      * eapply same_view_trans; [exact V1|]. eapply same_view_trans; [exact V2|]. eapply same_view_trans; [exact V3|].
        eapply same_view_trans; [apply sv_emit|]. exact A.
      * eapply st_frame_trans; [exact F1|]. eapply st_frame_trans; [exact F2|]. eapply st_frame_trans; [exact F3'|].
        eapply st_frame_trans; [apply st_frame_same_recs; reflexivity|]. exact B.
Qed.

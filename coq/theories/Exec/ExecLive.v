(** C05, liveness half: a termination potential for the polling loop, the
    absence of deadlock, and termination under fair and quiet input streams.
    Everything is stated for the GENERATED decision logic (ExecGen.v). *)
From Coq Require Import Lia.
From MWF Require Import Base.Util Base.UtilLemmas Exec.ExecBase Exec.ExecGen Exec.ExecRun Exec.ExecTrace
  Exec.ExecGraph Exec.ExecInv Exec.ExecVerdict Exec.ExecPoll.

#[local] Arguments bfs_subtree : simpl never.
#[local] Arguments submit_attempts : simpl never.
#[local] Arguments mark_failed_list : simpl never.
#[local] Arguments mark_cancelled_list : simpl never.
#[local] Arguments set_union : simpl never.

(** * Part A: frame facts of the opaque combinators *)

Lemma lv_restarts_push_job x j y s : restarts (getrec (rec_push_job x j s) y) = restarts (getrec s y).
Proof.
  unfold getrec, rec_push_job. cbn.
  destruct (Nat.eq_dec x y) as [->|Hn]; [|rewrite nth_upd_neq; auto].
  destruct (Nat.lt_ge_cases y (length (recs s))) as [Hl|Hl].
  - rewrite nth_upd_eq; auto.
  - rewrite nth_upd_ge; auto.
Qed.

Lemma lv_status_set_status_neq x y v s : x <> y -> status (getrec (rec_set_status x v s) y) = status (getrec s y).
Proof. intros H. rewrite getrec_set_status_neq; auto. Qed.

Lemma lv_restarts_inc_neq x y s : x <> y -> restarts (getrec (rec_inc_restarts x s) y) = restarts (getrec s y).
Proof. intros H. unfold getrec, rec_inc_restarts. cbn. rewrite nth_upd_neq; auto. Qed.

Lemma lv_restarts_inc_le x y s : restarts (getrec s y) <= restarts (getrec (rec_inc_restarts x s) y).
Proof.
  unfold getrec, rec_inc_restarts. cbn.
  destruct (Nat.eq_dec x y) as [->|Hn]; [|rewrite nth_upd_neq; auto].
  destruct (Nat.lt_ge_cases y (length (recs s))) as [Hl|Hl].
  - rewrite nth_upd_eq; auto. cbn. lia.
  - rewrite nth_upd_ge; auto.
Qed.

Lemma lv_restarts_inc_eq x s : x < length (recs s) ->
  restarts (getrec (rec_inc_restarts x s) x) = S (restarts (getrec s x)).
Proof. intros H. unfold getrec, rec_inc_restarts. cbn. rewrite nth_upd_eq; auto. Qed.

(** what the potential and the liveness invariant look at *)
Record same_view (s s' : st) : Prop := {
  sv_completed : completed s' = completed s;
  sv_inprog : inprog s' = inprog s;
  sv_ready : ready s' = ready s;
  sv_failed : failed s' = failed s;
  sv_cancelled : cancelled s' = cancelled s;
  sv_deps : deps s' = deps s;
  sv_canceled : canceled s' = canceled s;
  sv_restarts : forall y, restarts (getrec s' y) = restarts (getrec s y) }.

Lemma same_view_refl s : same_view s s.
Proof. constructor; auto. Qed.
Lemma same_view_trans a b d : same_view a b -> same_view b d -> same_view a d.
Proof. intros [] []. constructor; first [congruence | intros y; congruence]. Qed.

Lemma sv_set_status x v s : same_view s (rec_set_status x v s).
Proof. constructor; auto. intros y. apply restarts_set_status. Qed.
Lemma sv_push_job x j s : same_view s (rec_push_job x j s).
Proof. constructor; auto. intros y. apply lv_restarts_push_job. Qed.
Lemma sv_emit e s : same_view s (emit e s).
Proof. constructor; auto. Qed.
Lemma sv_set_subs v s : same_view s (set_subs s v).
Proof. constructor; auto. Qed.
Lemma sv_set_next_job v s : same_view s (set_next_job s v).
Proof. constructor; auto. Qed.
Lemma sv_set_evs v s : same_view s (set_evs s v).
Proof. constructor; auto. Qed.

Lemma sv_next_sub s : same_view s (snd (next_sub s)).
Proof. unfold next_sub. destruct (subs s); cbn; [apply same_view_refl | apply sv_set_subs]. Qed.

(** statuses: which records a combinator may touch, and never back to INITIALIZED *)
Definition st_frame (P : nat -> Prop) (s s' : st) : Prop :=
  forall y, (status (getrec s' y) = status (getrec s y) \/ (P y /\ status (getrec s' y) <> INITIALIZED)).

Lemma st_frame_refl P s : st_frame P s s.
Proof. intros y. left. reflexivity. Qed.
Lemma st_frame_trans P a b d : st_frame P a b -> st_frame P b d -> st_frame P a d.
Proof.
  intros H1 H2 y. destruct (H2 y) as [E|[Hp Hn]]; [|right; auto].
  rewrite E. apply H1.
Qed.
Lemma st_frame_weaken (P Q : nat -> Prop) s s' : (forall y, P y -> Q y) -> st_frame P s s' -> st_frame Q s s'.
Proof. intros H F y. destruct (F y) as [E|[Hp Hn]]; auto. Qed.

Lemma st_frame_set_status x v s : v <> INITIALIZED -> st_frame (eq x) s (rec_set_status x v s).
Proof.
  intros Hv y. destruct (Nat.eq_dec x y) as [->|Hn].
  - destruct (status_set_status y y v s) as [E|E]; [left; auto|right; split; congruence].
  - left. apply lv_status_set_status_neq; auto.
Qed.
Lemma st_frame_same_recs P s s' : recs s' = recs s -> st_frame P s s'.
Proof. intros E y. left. unfold getrec. rewrite E. reflexivity. Qed.
Lemma st_frame_push_job P x j s : st_frame P s (rec_push_job x j s).
Proof. intros y. left. apply status_push_job. Qed.
Lemma st_frame_inc_restarts P x s : st_frame P s (rec_inc_restarts x s).
Proof. intros y. left. apply status_inc_restarts. Qed.

(** ** the sweep loops *)
Lemma lv_mfl l : forall s,
  let s' := mark_failed_list l s in
  completed s' = completed s /\ inprog s' = inprog s /\ ready s' = ready s /\ cancelled s' = cancelled s /\
  deps s' = deps s /\ canceled s' = canceled s /\
  (forall y, restarts (getrec s' y) = restarts (getrec s y)) /\
  (forall y, In y (failed s') <-> In y l \/ In y (failed s)) /\
  st_frame (fun y => In y l) s s' /\ length (recs s') = length (recs s).
Proof.
  unfold mark_failed_list. induction l as [|a l IH]; intros s; cbn [fold_left].
  - splits; auto. + intros y. cbn. tauto. + apply st_frame_refl.
  - specialize (IH (rec_set_status a FAILED (failed_add a s))). cbn zeta in IH.
    destruct IH as (A & B & C & D & E & F & G & H & K & L). splits; try (etransitivity; [eassumption|reflexivity]).
    + intros y. rewrite G. rewrite restarts_set_status. reflexivity.
    + intros y. rewrite H. change (failed (rec_set_status a FAILED (failed_add a s))) with (sadd a (failed s)).
      rewrite In_sadd. cbn [In]. intuition.
    + eapply st_frame_trans; [|eapply st_frame_weaken; [|exact K]].
      * eapply st_frame_weaken; [|apply (st_frame_trans _ _ (failed_add a s))].
        2:{ apply st_frame_same_recs. reflexivity. }
        2:{ apply st_frame_set_status. discriminate. }
        intros y <-. left. reflexivity.
      * intros y Hy. right. exact Hy.
    + rewrite L. rewrite len_recs_set_status. reflexivity.
Qed.

Lemma lv_mcl l : forall s,
  let s' := mark_cancelled_list l s in
  completed s' = completed s /\ inprog s' = inprog s /\ ready s' = ready s /\ failed s' = failed s /\
  deps s' = deps s /\ canceled s' = canceled s /\
  (forall y, restarts (getrec s' y) = restarts (getrec s y)) /\
  (forall y, In y (cancelled s') <-> In y l \/ In y (cancelled s)) /\
  st_frame (fun y => In y l) s s' /\ length (recs s') = length (recs s).
Proof.
  unfold mark_cancelled_list. induction l as [|a l IH]; intros s; cbn [fold_left].
  - splits; auto. + intros y. cbn. tauto. + apply st_frame_refl.
  - specialize (IH (rec_set_status a CANCELLED (cancelled_add a s))). cbn zeta in IH.
    destruct IH as (A & B & C & D & E & F & G & H & K & L). splits; try (etransitivity; [eassumption|reflexivity]).
    + intros y. rewrite G. rewrite restarts_set_status. reflexivity.
    + intros y. rewrite H. change (cancelled (rec_set_status a CANCELLED (cancelled_add a s))) with (sadd a (cancelled s)).
      rewrite In_sadd. cbn [In]. intuition.
    + eapply st_frame_trans; [|eapply st_frame_weaken; [|exact K]].
      * eapply st_frame_weaken; [|apply (st_frame_trans _ _ (cancelled_add a s))].
        2:{ apply st_frame_same_recs. reflexivity. }
        2:{ apply st_frame_set_status. discriminate. }
        intros y <-. left. reflexivity.
      * intros y Hy. right. exact Hy.
    + rewrite L. rewrite len_recs_set_status. reflexivity.
Qed.

Lemma lv_In_set_union l : forall acc y, In y (set_union l acc) <-> In y l \/ In y acc.
Proof.
  unfold set_union. induction l as [|a l IH]; intros acc y; cbn [fold_left].
  - cbn. tauto.
  - rewrite IH, In_sadd. cbn [In]. intuition.
Qed.

(** ** the submission retry loop *)
Lemma lv_submit g x restart n : forall s,
  same_view s (snd (submit_attempts g x restart n s)) /\
  st_frame (eq x) s (snd (submit_attempts g x restart n s)) /\
  length (recs (snd (submit_attempts g x restart n s))) = length (recs s).
Proof.
  unfold submit_attempts. induction n as [|n IH]; intros s.
  - cbn. splits; [apply same_view_refl | apply st_frame_refl | reflexivity].
  - fold submit_attempts in *.
    set (s1 := if restart then emit (EGen x) s else rec_set_status x PENDING s).
    set (s2 := if scheduled (attr g x) then s1 else rec_set_status x RUNNING s1).
    assert (V1 : same_view s s1) by (unfold s1; destruct restart; [apply sv_emit | apply sv_set_status]).
    assert (V2 : same_view s1 s2) by (unfold s2; destruct (scheduled (attr g x)); [apply same_view_refl | apply sv_set_status]).
    assert (F1 : st_frame (eq x) s s1).
    { unfold s1; destruct restart; [apply st_frame_same_recs; reflexivity | apply st_frame_set_status; discriminate]. }
    assert (F2 : st_frame (eq x) s1 s2).
    { unfold s2; destruct (scheduled (attr g x)); [apply st_frame_refl | apply st_frame_set_status; discriminate]. }
    assert (L2 : length (recs s2) = length (recs s)).
    { unfold s2, s1. destruct (scheduled (attr g x)), restart; rewrite ?len_recs_set_status; reflexivity. }
    pose proof (sv_next_sub s2) as V3.
    assert (F3 : recs (snd (next_sub s2)) = recs s2) by (unfold next_sub; destruct (subs s2); reflexivity).
    destruct (next_sub s2) as [b s3] eqn:E3. cbn [snd] in V3, F3.
    assert (F3' : st_frame (eq x) s2 s3) by (apply st_frame_same_recs; auto).
    destruct b.
    + cbn [snd]. splits.
      * eapply same_view_trans; [exact V1|]. eapply same_view_trans; [exact V2|]. eapply same_view_trans; [exact V3|].
        eapply same_view_trans; [apply (sv_set_next_job (S (next_job s3)))|].
        eapply same_view_trans; [apply sv_push_job|]. apply sv_emit.
      * eapply st_frame_trans; [exact F1|]. eapply st_frame_trans; [exact F2|]. eapply st_frame_trans; [exact F3'|].
        intros y. left.
        transitivity (status (getrec (rec_push_job x (next_job s3) (set_next_job s3 (S (next_job s3)))) y)); [reflexivity|].
        rewrite status_push_job. reflexivity.
      * cbn. rewrite length_upd. rewrite F3. exact L2.
    + specialize (IH (emit (ESubmit x (if restart then Restart else Main) (scheduled (attr g x)) None) s3)).
      destruct IH as (A & B & C). splits.
      * eapply same_view_trans; [exact V1|]. eapply same_view_trans; [exact V2|]. eapply same_view_trans; [exact V3|].
        eapply same_view_trans; [apply sv_emit|]. exact A.
      * eapply st_frame_trans; [exact F1|]. eapply st_frame_trans; [exact F2|]. eapply st_frame_trans; [exact F3'|].
        eapply st_frame_trans; [apply st_frame_same_recs; reflexivity|]. exact B.
      * rewrite C. cbn. rewrite F3. exact L2.
Qed.

(** * Part B: [bfs_subtree] is closed under [children] (the fuel suffices) *)
Lemma lv_bfs_visit_fold cs : forall q pth,
  exists new, fold_left bfs_visit cs (q, pth) = (q ++ new, pth ++ new) /\
    NoDup new /\ (forall z, In z new -> In z cs /\ ~ In z pth) /\ (forall z, In z cs -> In z pth \/ In z new).
Proof.
  induction cs as [|c cs IH]; intros q pth; cbn [fold_left].
  - exists []. rewrite !app_nil_r. splits; [reflexivity | constructor | intros z [] | intros z []].
  - unfold bfs_visit at 2. destruct (mem c pth) eqn:E.
    + apply mem_In in E. destruct (IH q pth) as (new & A & B & C & D). exists new. splits; auto.
      * intros z Hz. destruct (C z Hz). split; auto. right. auto.
      * intros z [<-|Hz]; auto.
    + apply mem_false in E. destruct (IH (q ++ [c]) (pth ++ [c])) as (new & A & B & C & D).
      exists (c :: new). rewrite A, <- !app_assoc. cbn [app]. splits; auto.
      * constructor; auto. intros Hc. destruct (C c Hc) as [_ K]. apply K. rewrite in_app_iff. right. left. reflexivity.
      * intros z [<-|Hz]; [split; auto; left; reflexivity|]. destruct (C z Hz) as [K1 K2]. split; [right; auto|].
        intros K. apply K2. rewrite in_app_iff. auto.
      * intros z [<-|Hz]; [right; left; reflexivity|]. destruct (D z Hz) as [K|K]; [|right; right; auto].
        rewrite in_app_iff in K. destruct K as [K|[<-|[]]]; auto. right. left. reflexivity.
Qed.

Lemma lv_NoDup_app {A} (a b : list A) : NoDup a -> NoDup b -> (forall z, In z b -> ~ In z a) -> NoDup (a ++ b).
Proof.
  induction a as [|x a IH]; intros Ha Hb D; cbn; auto.
  inversion Ha; subst. constructor.
  - rewrite in_app_iff. intros [K|K]; auto. apply (D x K). left. reflexivity.
  - apply IH; auto. intros z Hz K. apply (D z Hz). right. exact K.
Qed.

Lemma lv_bfs_go_closed g (W : WF g) fuel : forall queue path done,
  path = done ++ queue -> NoDup path -> (forall z, In z path -> z < length g) ->
  (forall d, In d done -> incl (children (attr g d)) path) ->
  S (length g) <= fuel + length done ->
  forall y, In y (bfs_go g fuel queue path) -> incl (children (attr g y)) (bfs_go g fuel queue path).
Proof.
  induction fuel as [|f IH]; intros queue path done E ND B C F.
  - exfalso. assert (length path <= length g).
    { rewrite <- (seq_length (length g) 0). apply NoDup_incl_length; auto. intros z Hz. apply In_seq_lt. auto. }
    rewrite E, app_length in H. cbn in F. lia.
  - cbn [bfs_go]. destruct queue as [|r q].
    + rewrite app_nil_r in E. subst done. intros y Hy. apply C. exact Hy.
    + destruct (lv_bfs_visit_fold (children (attr g r)) q path) as (new & A & N1 & N2 & N3). rewrite A.
      assert (Hr : r < length g) by (apply B; rewrite E, in_app_iff; right; left; reflexivity).
      apply (IH (q ++ new) (path ++ new) (done ++ [r])).
      * rewrite E, <- !app_assoc. reflexivity.
      * apply lv_NoDup_app; auto. intros z Hz. apply N2. exact Hz.
      * intros z Hz. rewrite in_app_iff in Hz. destruct Hz as [Hz|Hz]; auto.
        destruct (N2 z Hz) as [K _]. eapply wf_child_lt; eauto.
      * intros d Hd z Hz. rewrite in_app_iff in Hd. rewrite in_app_iff. destruct Hd as [Hd|[<-|[]]].
        -- left. apply (C d Hd z Hz).
        -- destruct (N3 z Hz); auto.
      * rewrite app_length. cbn. lia.
Qed.

Lemma lv_bfs_out g x : length g <= x -> bfs_subtree g x = [x].
Proof.
  intros H. unfold bfs_subtree. cbn [bfs_go]. unfold attr. rewrite nth_overflow by exact H. cbn.
  destruct (length g); reflexivity.
Qed.

Lemma lv_bfs_closed g x y : WF g -> In y (bfs_subtree g x) -> incl (children (attr g y)) (bfs_subtree g x).
Proof.
  intros W Hy. destruct (Nat.lt_ge_cases x (length g)) as [Hx|Hx].
  - unfold bfs_subtree in *. apply (lv_bfs_go_closed g W (S (length g)) [x] [x] []); auto.
    + constructor; [intros []|constructor].
    + intros z [<-|[]]. exact Hx.
    + intros d [].
    + cbn. lia.
  - rewrite lv_bfs_out in * by exact Hx. destruct Hy as [<-|[]].
    unfold attr. rewrite nth_overflow by exact Hx. intros z [].
Qed.

(** children are different from their parent in a well-formed graph *)
Lemma lv_child_neq g x ch : WF g -> In ch (children (attr g x)) -> ch <> x.
Proof.
  intros W H. destruct (Nat.lt_ge_cases x (length g)) as [Hx|Hx].
  - pose proof (wf_child_par g W x ch Hx H) as P. pose proof (wf_child_lt g W x ch Hx H) as L.
    pose proof (wf_par_lt g W ch x L P). lia.
  - unfold attr in H. rewrite nth_overflow in H by exact Hx. destruct H.
Qed.

(** * Part C: the termination potential *)
Definition resolvedb (s : st) (x : nat) : bool := mem x (completed s) || mem x (failed s) || mem x (cancelled s).
(** remaining restart budget of a restartable step with a finite limit *)
Definition budget (g : graph) (s : st) (x : nat) : nat :=
  if has_restart (attr g x) && negb (rlimit (attr g x) =? 0) then rlimit (attr g x) - restarts (getrec s x) else 0.
(** 3 while waiting, 2 while in the ready queue, 1 while in progress *)
Definition stagew (s : st) (x : nat) : nat := if mem x (inprog s) then 1 else if mem x (ready s) then 2 else 3.
(** weight of a node; [R] = nodes already collected for the failed/cancelled sweeps of the current poll *)
Definition wtR (g : graph) (s : st) (R : list nat) (x : nat) : nat :=
  if resolvedb s x || mem x R then 0 else stagew s x + budget g s x.
Definition wt (g : graph) (s : st) (x : nat) : nat := wtR g s [] x.
Fixpoint sumf (f : nat -> nat) (l : list nat) : nat := match l with [] => 0 | x :: l' => f x + sumf f l' end.
Definition Phi (g : graph) (s : st) : nat := sumf (wt g s) (seq 0 (length g)).

Lemma sumf_le f h l : (forall x, In x l -> f x <= h x) -> sumf f l <= sumf h l.
Proof.
  induction l as [|a l IH]; intros H; cbn; [lia|].
  pose proof (H a (or_introl eq_refl)). assert (sumf f l <= sumf h l) by (apply IH; intros; apply H; right; auto). lia.
Qed.
Lemma sumf_lt f h l x : (forall y, In y l -> f y <= h y) -> In x l -> f x < h x -> sumf f l < sumf h l.
Proof.
  induction l as [|a l IH]; intros H Hx Hlt; [destruct Hx|]. cbn.
  pose proof (H a (or_introl eq_refl)).
  assert (sumf f l <= sumf h l) by (apply sumf_le; intros; apply H; right; auto).
  destruct Hx as [->|Hx]; [lia|].
  assert (sumf f l < sumf h l) by (apply IH; auto; intros; apply H; right; auto). lia.
Qed.

Definition resR (s : st) (R : list nat) (y : nat) : Prop :=
  In y (completed s) \/ In y (failed s) \/ In y (cancelled s) \/ In y R.
Definition tracked (s : st) (R : list nat) (y : nat) : Prop :=
  resR s R y \/ In y (inprog s) \/ In y (ready s).

Lemma resR_b s R y : resolvedb s y || mem y R = true <-> resR s R y.
Proof. unfold resolvedb, resR. rewrite !orb_true_iff, !mem_In. tauto. Qed.
Lemma resR_dec s R y : resR s R y \/ ~ resR s R y.
Proof. rewrite <- resR_b. destruct (resolvedb s y || mem y R); [left|right]; congruence. Qed.

Lemma wtR_res g s R y : resR s R y -> wtR g s R y = 0.
Proof. intros H. apply resR_b in H. unfold wtR. rewrite H. reflexivity. Qed.
Lemma wtR_unres g s R y : ~ resR s R y -> wtR g s R y = stagew s y + budget g s y.
Proof. intros H. rewrite <- resR_b in H. unfold wtR. destruct (resolvedb s y || mem y R); congruence. Qed.

Lemma stagew_inprog s y : In y (inprog s) -> stagew s y = 1.
Proof. intros H. apply mem_In in H. unfold stagew. rewrite H. reflexivity. Qed.
Lemma stagew_ready s y : ~ In y (inprog s) -> In y (ready s) -> stagew s y = 2.
Proof. intros H1 H2. apply mem_false in H1. apply mem_In in H2. unfold stagew. rewrite H1, H2. reflexivity. Qed.
Lemma stagew_ge1 s y : 1 <= stagew s y.
Proof. unfold stagew. destruct (mem y (inprog s)), (mem y (ready s)); lia. Qed.
Lemma stagew_le3 s y : stagew s y <= 3.
Proof. unfold stagew. destruct (mem y (inprog s)), (mem y (ready s)); lia. Qed.
Lemma stagew_ext s s' y : (In y (inprog s') <-> In y (inprog s)) -> (In y (ready s') <-> In y (ready s)) ->
  stagew s' y = stagew s y.
Proof.
  intros H1 H2. unfold stagew.
  assert (E1 : mem y (inprog s') = mem y (inprog s)).
  { destruct (mem y (inprog s)) eqn:E; [apply mem_In; apply H1; apply mem_In; auto|].
    apply mem_false. rewrite H1. apply mem_false. auto. }
  assert (E2 : mem y (ready s') = mem y (ready s)).
  { destruct (mem y (ready s)) eqn:E; [apply mem_In; apply H2; apply mem_In; auto|].
    apply mem_false. rewrite H2. apply mem_false. auto. }
  rewrite E1, E2. reflexivity.
Qed.
Lemma stagew_staged s s' y : (In y (inprog s') <-> In y (inprog s)) -> In y (ready s') -> stagew s' y <= stagew s y.
Proof.
  intros H1 H2. unfold stagew.
  assert (E1 : mem y (inprog s') = mem y (inprog s)).
  { destruct (mem y (inprog s)) eqn:E; [apply mem_In; apply H1; apply mem_In; auto|].
    apply mem_false. rewrite H1. apply mem_false. auto. }
  apply mem_In in H2. rewrite E1, H2. destruct (mem y (inprog s)), (mem y (ready s)); lia.
Qed.
Lemma budget_mono g s s' y : restarts (getrec s y) <= restarts (getrec s' y) -> budget g s' y <= budget g s y.
Proof. intros H. unfold budget. destruct (has_restart (attr g y) && negb (rlimit (attr g y) =? 0)); lia. Qed.

(** closure of the unsuccessful sets under [children] (within the current sweep sets) *)
Definition FC (s : st) (R : list nat) (z : nat) : Prop := In z (failed s) \/ In z (cancelled s) \/ In z R.
Definition clo (g : graph) (s : st) (R : list nat) : Prop :=
  forall y, In y (failed s) \/ In y R \/ (canceled s = false /\ In y (cancelled s)) ->
  forall ch, In ch (children (attr g y)) -> FC s R ch.
(** a node that has left INITIALIZED is accounted for *)
Definition acct (s : st) (R : list nat) : Prop := forall y, status (getrec s y) <> INITIALIZED -> tracked s R y.
(** the dependency table only ever shrinks from the parents *)
Definition depsok (g : graph) (s : st) : Prop := forall y, incl (getdeps s y) (parents (attr g y)).

Definition xsame (x : nat) (s s' : st) : Prop :=
  (In x (inprog s') <-> In x (inprog s)) /\ (In x (ready s') <-> In x (ready s)).
Definition xstaged (x : nat) (s s' : st) : Prop :=
  (In x (inprog s') <-> In x (inprog s)) /\ In x (ready s').

(** Summary of one step of the poll that acts on node [x]; [hw] = the step may
    move [x] from [inprog] back to the ready queue (hardware failure). *)
Record astep (g : graph) (hw : bool) (x : nat) (s : st) (R : list nat) (s' : st) (R' : list nat) : Prop := {
  as_res : forall y, resR s R y -> resR s' R' y;
  as_failed : forall y, In y (failed s) -> In y (failed s');
  as_inprog : forall y, y <> x -> (In y (inprog s') <-> In y (inprog s));
  as_ready : forall y, y <> x -> (In y (ready s') <-> In y (ready s));
  as_restarts : forall y, y <> x -> restarts (getrec s' y) = restarts (getrec s y);
  as_restarts_x : restarts (getrec s x) <= restarts (getrec s' x);
  as_status : st_frame (fun y => y = x \/ In y (failed s')) s s';
  as_deps : forall y, incl (getdeps s' y) (getdeps s y);
  as_canceled : canceled s' = canceled s;
  as_clo : WF g -> clo g s R -> clo g s' R';
  as_x : resR s' R' x \/ In x (inprog s') \/ xsame x s s' \/ xstaged x s s' \/ (hw = true /\ In x (ready s'));
  as_len : length (recs s') = length (recs s) }.

Definition wle (g : graph) (s : st) (R : list nat) (s' : st) (R' : list nat) : Prop :=
  forall y, wtR g s' R' y <= wtR g s R y.

Lemma wle_refl g s R : wle g s R s R.
Proof. intros y. lia. Qed.
Lemma wle_trans g s R s1 R1 s2 R2 : wle g s R s1 R1 -> wle g s1 R1 s2 R2 -> wle g s R s2 R2.
Proof. intros H1 H2 y. specialize (H1 y). specialize (H2 y). lia. Qed.

Lemma astep_wle g x s R s' R' : astep g false x s R s' R' -> wle g s R s' R'.
Proof.
  intros A y. destruct (resR_dec s' R' y) as [H'|H']; [rewrite wtR_res; auto; lia|].
  assert (H : ~ resR s R y) by (intros K; apply H'; eapply as_res; eauto).
  rewrite !wtR_unres; auto.
  destruct (Nat.eq_dec y x) as [->|Hn].
  - pose proof (budget_mono g s s' x (as_restarts_x _ _ _ _ _ _ _ A)) as B.
    destruct (as_x _ _ _ _ _ _ _ A) as [K|[K|[K|[K|K]]]].
    + contradiction.
    + rewrite (stagew_inprog s' x K). pose proof (stagew_ge1 s x). lia.
    + destruct K as [K1 K2]. rewrite (stagew_ext s s' x K1 K2). lia.
    + destruct K as [K1 K2]. pose proof (stagew_staged s s' x K1 K2). lia.
    + destruct K; discriminate.
  - rewrite (stagew_ext s s' y (as_inprog _ _ _ _ _ _ _ A y Hn) (as_ready _ _ _ _ _ _ _ A y Hn)).
    assert (budget g s' y = budget g s y); [|lia].
    unfold budget. rewrite (as_restarts _ _ _ _ _ _ _ A y Hn). reflexivity.
Qed.

Lemma astep_tracked g hw x s R s' R' y : astep g hw x s R s' R' -> tracked s R y -> tracked s' R' y.
Proof.
  intros A T. destruct (Nat.eq_dec y x) as [->|Hn].
  - destruct (as_x _ _ _ _ _ _ _ A) as [K|[K|[K|[K|K]]]].
    + left. auto.
    + right. left. auto.
    + destruct K as [K1 K2]. destruct T as [T|[T|T]]; [left; eapply as_res; eauto | right; left; tauto | right; right; tauto].
    + destruct K as [K1 K2]. right. right. auto.
    + right. right. tauto.
  - destruct T as [T|[T|T]]; [left; eapply as_res; eauto | right; left | right; right].
    + apply (as_inprog _ _ _ _ _ _ _ A y Hn). auto.
    + apply (as_ready _ _ _ _ _ _ _ A y Hn). auto.
Qed.

Lemma astep_acct g hw x s R s' R' : astep g hw x s R s' R' -> tracked s R x -> acct s R -> acct s' R'.
Proof.
  intros A Tx H y Hy. destruct (as_status _ _ _ _ _ _ _ A y) as [E|[[->|K] _]].
  - rewrite E in Hy. eapply astep_tracked; eauto.
  - eapply astep_tracked; eauto.
  - left. right. left. exact K.
Qed.

Lemma astep_depsok g hw x s R s' R' : astep g hw x s R s' R' -> depsok g s -> depsok g s'.
Proof. intros A D y z Hz. apply D. eapply as_deps; eauto. Qed.

(** * Part D: the pieces of a poll as [astep]s *)
Ltac ex_sets := cbn [completed inprog ready failed cancelled deps canceled completed_add inprog_add inprog_remove
  failed_add cancelled_add ready_push rec_set_status rec_inc_restarts rec_push_job deps_prune emit set_recs
  set_completed set_inprog set_failed set_cancelled set_ready set_deps set_canceled set_next_job set_subs set_evs
  fst snd] in *.
Ltac gr := repeat match goal with
  | |- context [getrec (?f ?a ?s) ?y] => progress change (getrec (f a s) y) with (getrec s y)
  | |- context [getrec (?f ?s ?a) ?y] => progress change (getrec (f s a) y) with (getrec s y)
  end.

Definition src (s : st) (R : list nat) (y : nat) : Prop :=
  In y (failed s) \/ In y R \/ (canceled s = false /\ In y (cancelled s)).

Lemma clo_step g s R s' R' : clo g s R -> (forall z, FC s R z -> FC s' R' z) ->
  (forall y, src s' R' y -> src s R y \/ (forall ch, In ch (children (attr g y)) -> FC s' R' ch)) -> clo g s' R'.
Proof.
  intros C M S y Hy ch Hc. destruct (S y Hy) as [K|K]; [|apply K; auto].
  apply M. apply (C y K ch Hc).
Qed.

Lemma st_frame_view P s s' : recs s' = recs s -> st_frame P s s'.
Proof. apply st_frame_same_recs. Qed.

Ltac vw := ex_sets; repeat match goal with
  | H : completed ?a = completed ?b |- context [completed ?a] => rewrite H
  | H : inprog ?a = inprog ?b |- context [inprog ?a] => rewrite H
  | H : ready ?a = ready ?b |- context [ready ?a] => rewrite H
  | H : failed ?a = failed ?b |- context [failed ?a] => rewrite H
  | H : cancelled ?a = cancelled ?b |- context [cancelled ?a] => rewrite H
  | H : deps ?a = deps ?b |- context [deps ?a] => rewrite H
  | H : canceled ?a = canceled ?b |- context [canceled ?a] => rewrite H
  end.
Ltac mset := intros; unfold resR, xsame, xstaged, FC, src, getdeps in *; vw; setsimp;
  first [ tauto | apply incl_refl | intuition (subst; auto; congruence) ].

Lemma st_frame_x (P : nat -> Prop) x s s' : st_frame (eq x) s s' -> st_frame (fun y => y = x \/ P y) s s'.
Proof. apply st_frame_weaken. intros y <-. left. reflexivity. Qed.

Ltac rs_close RS := match goal with
  | |- restarts _ <= restarts _ => rewrite ?RS; lia
  | |- forall y, _ <> _ -> restarts _ = restarts _ => let y := fresh "y" in intros y _; apply RS
  | |- forall y, restarts _ = restarts _ => exact RS
  | |- WF _ -> clo _ _ _ -> clo _ _ _ =>
      let W := fresh "W" in let C := fresh "C" in intros W C; eapply clo_step; [exact C| |]; mset
  | |- length (recs _) = length (recs _) =>
      cbn [recs completed_add inprog_add inprog_remove failed_add cancelled_add ready_push rec_set_status rec_inc_restarts
           rec_push_job deps_prune emit set_recs set_completed set_inprog set_failed set_cancelled set_ready set_deps
           set_canceled set_next_job set_subs set_evs];
      rewrite ?length_upd; first [reflexivity | assumption | congruence]
  end.

Lemma er_astep c g x r s R :
  astep g false x s R (execute_record_gen c g x r s) R /\
  (forall y, restarts (getrec (execute_record_gen c g x r s) y) = restarts (getrec s y)) /\
  (resR (execute_record_gen c g x r s) R x \/ In x (inprog (execute_record_gen c g x r s))).
Proof.
  unfold execute_record_gen.
  set (s0 := if negb r then emit (EGen x) s else s).
  assert (V0 : same_view s s0) by (unfold s0; destruct (negb r); [apply sv_emit | apply same_view_refl]).
  assert (F0 : st_frame (eq x) s s0) by (apply st_frame_same_recs; unfold s0; destruct (negb r); reflexivity).
  assert (L0 : length (recs s0) = length (recs s)) by (unfold s0; destruct (negb r); reflexivity).
  destruct (dry c).
  - destruct V0 as [Vc Vi Vr Vf Vx Vd Vk Vrs].
    assert (RS : forall y, restarts (getrec (completed_add x (rec_set_status x DRYRUN s0)) y) = restarts (getrec s y)).
    { intros y. gr. rewrite restarts_set_status. apply Vrs. }
    splits; [constructor| |]; try mset; try rs_close RS.
    apply st_frame_x. eapply st_frame_trans; [exact F0|]. apply (st_frame_trans _ _ (rec_set_status x DRYRUN s0)).
    + apply st_frame_set_status. discriminate.
    + apply st_frame_same_recs. reflexivity.
  - pose proof (lv_submit g x r (attempts c) s0) as (V1 & F1 & L1).
    destruct (submit_attempts g x r (attempts c) s0) as [ok s1] eqn:E. cbn [snd] in V1, F1, L1.
    rewrite L0 in L1.
    pose proof (same_view_trans _ _ _ V0 V1) as V. pose proof (st_frame_trans _ _ _ _ F0 F1) as F. clear V0 V1 F0 F1.
    destruct V as [Vc Vi Vr Vf Vx Vd Vk Vrs].
    destruct ok.
    + destruct (scheduled (attr g x)); cbn [negb].
      * assert (RS : forall y, restarts (getrec (inprog_add x s1) y) = restarts (getrec s y)).
        { intros y. gr. apply Vrs. }
        splits; [constructor| |]; try mset; try rs_close RS.
        apply st_frame_x. eapply st_frame_trans; [exact F|apply st_frame_same_recs; reflexivity].
      * assert (RS : forall y, restarts (getrec (inprog_remove x (completed_add x (rec_set_status x FINISHED (inprog_add x s1)))) y)
                               = restarts (getrec s y)).
        { intros y. gr. rewrite restarts_set_status. gr. apply Vrs. }
        splits; [constructor| |]; try mset; try rs_close RS.
        apply st_frame_x. eapply st_frame_trans; [exact F|].
        eapply (st_frame_trans _ _ (rec_set_status x FINISHED (inprog_add x s1))).
        -- eapply (st_frame_trans _ _ (inprog_add x s1)); [apply st_frame_same_recs; reflexivity|].
           apply st_frame_set_status. discriminate.
        -- apply st_frame_same_recs. reflexivity.
    + pose proof (lv_mfl (bfs_subtree g x) (inprog_remove x s1)) as M. cbn zeta in M.
      set (s2 := mark_failed_list (bfs_subtree g x) (inprog_remove x s1)) in *.
      destruct M as (Mc & Mi & Mr & Mx & Md & Mk & Mrs & Mf & Mst & Ml).
      pose proof (bfs_subtree_root g x) as Root.
      assert (RS : forall y, restarts (getrec s2 y) = restarts (getrec s y)).
      { intros y. rewrite Mrs. gr. apply Vrs. }
      splits; [constructor| |].
      * intros y. unfold resR. rewrite Mc, Mf, Mx. vw. tauto.
      * intros y. rewrite Mf. vw. tauto.
      * intros y Hy. rewrite Mi. vw. setsimp. tauto.
      * intros y Hy. rewrite Mr. vw. tauto.
      * intros y _. apply RS.
      * rewrite RS. lia.
      * eapply st_frame_trans; [apply st_frame_x; exact F|].
        eapply st_frame_trans; [apply (st_frame_same_recs _ s1 (inprog_remove x s1)); reflexivity|].
        eapply st_frame_weaken; [|exact Mst]. intros y Hy. right. apply Mf. left. exact Hy.
      * intros y. unfold getdeps. rewrite Md. vw. apply incl_refl.
      * rewrite Mk. vw. reflexivity.
      * intros W C. eapply clo_step; [exact C| |].
        -- intros z. unfold FC. rewrite Mf, Mx. vw. tauto.
        -- intros y. unfold src, FC. rewrite Mk. setoid_rewrite Mf. rewrite Mx. vw. intros [[K|K]|[K|K]]; auto.
           right. intros ch Hc. left. left. eapply lv_bfs_closed; eauto.
      * left. unfold resR. rewrite Mf. tauto.
      * rewrite Ml. exact L1.
      * exact RS.
      * left. unfold resR. rewrite Mf. tauto.
Qed.

Lemma astep_hw g hw x s R s' R' : astep g false x s R s' R' -> astep g hw x s R s' R'.
Proof.
  intros [A1 A2 A3 A4 A5 A6 A7 A8 A9 A10 A11 A12]. constructor; auto. destruct A11 as [K|[K|[K|[K|[K _]]]]]; auto. discriminate.
Qed.

(** pre-composition with a step that only touches the record of [x] *)
Record qid (x : nat) (s s2 : st) : Prop := {
  q_view : completed s2 = completed s /\ inprog s2 = inprog s /\ ready s2 = ready s /\ failed s2 = failed s /\
           cancelled s2 = cancelled s /\ deps s2 = deps s /\ canceled s2 = canceled s;
  q_restarts : forall y, y <> x -> restarts (getrec s2 y) = restarts (getrec s y);
  q_restarts_x : restarts (getrec s x) <= restarts (getrec s2 x);
  q_status : st_frame (eq x) s s2;
  q_len : length (recs s2) = length (recs s) }.

Lemma astep_pre g hw x s s2 R s' R' : qid x s s2 -> astep g hw x s2 R s' R' -> astep g hw x s R s' R'.
Proof.
  intros [(Vc & Vi & Vr & Vf & Vx & Vd & Vk) Q2 Q3 Q4 Q5] [A1 A2 A3 A4 A5 A6 A7 A8 A9 A10 A11 A12].
  constructor; unfold resR, xsame, xstaged, getdeps, clo, FC in *; rewrite ?Vc, ?Vi, ?Vr, ?Vf, ?Vx, ?Vd, ?Vk in *; auto.
  - intros y Hy. rewrite A5, Q2; auto.
  - lia.
  - eapply st_frame_trans; [apply st_frame_x; exact Q4 | exact A7].
  - congruence.
Qed.

Lemma hr_astep c g s cl ca x o s' cl' ca' :
  handle_report_gen c g (s, cl, ca) (x, o) = (s', cl', ca') ->
  astep g (oeqb o HWFAILURE) x s (cl ++ ca) s' (cl' ++ ca').
Proof.
  unfold handle_report_gen. pose proof (bfs_subtree_root g x) as Root.
  destruct (oeqb o FINISHED) eqn:E1.
  { intros H; injection H as <- <- <-. apply astep_hw.
    assert (RS : forall y, restarts (getrec (inprog_remove x (completed_add x (rec_set_status x FINISHED s))) y) = restarts (getrec s y)).
    { intros y. gr. apply restarts_set_status. }
    constructor; try mset; try rs_close RS.
    apply st_frame_x. apply (st_frame_trans _ _ (rec_set_status x FINISHED s)); [apply st_frame_set_status; discriminate|].
    apply st_frame_same_recs. reflexivity. }
  destruct (oeqb o RUNNING) eqn:E2.
  { intros H; injection H as <- <- <-. apply astep_hw.
    assert (RS : forall y, restarts (getrec (rec_set_status x RUNNING s) y) = restarts (getrec s y)).
    { intros y. apply restarts_set_status. }
    constructor; try mset; try rs_close RS.
    apply st_frame_x. apply st_frame_set_status; discriminate. }
  destruct (oeqb o TIMEDOUT) eqn:E3.
  { assert (E4 : oeqb o HWFAILURE = false) by (destruct o as [[]|]; cbn in *; congruence). rewrite E4.
    destruct (has_restart (attr g x) && negb (canceled s)).
    - unfold mark_restart_gen.
      set (s1 := rec_set_status x TIMEDOUT s).
      assert (Q1 : qid x s s1).
      { constructor; [splits; reflexivity | intros; apply restarts_set_status | unfold s1; rewrite restarts_set_status; lia |
                      apply st_frame_set_status; discriminate | apply len_recs_set_status]. }
      destruct ((rlimit (attr g x) =? 0) || (restarts (getrec s1 x) <? rlimit (attr g x))).
      + intros H; injection H as <- <- <-.
        eapply astep_pre; [|apply er_astep].
        destruct Q1 as [Qv Q2 Q3 Q4 Q5]. constructor; auto.
        * intros y Hy. rewrite lv_restarts_inc_neq; auto.
        * pose proof (lv_restarts_inc_le x x s1). lia.
        * eapply st_frame_trans; [exact Q4|]. apply st_frame_inc_restarts.
        * rewrite <- Q5. unfold rec_inc_restarts. cbn. apply length_upd.
      + intros H; injection H as <- <- <-.
        eapply astep_pre; [exact Q1|].
        assert (RS : forall y, restarts (getrec (inprog_remove x s1) y) = restarts (getrec s1 y)) by (intros; reflexivity).
        constructor; try rs_close RS.
        * intros y. unfold resR. rewrite !in_app_iff, lv_In_set_union. vw. tauto.
        * mset.
        * mset.
        * mset.
        * apply st_frame_same_recs. reflexivity.
        * mset.
        * mset.
        * intros W C. eapply clo_step; [exact C| |].
          -- intros z. unfold FC. rewrite !in_app_iff, lv_In_set_union. vw. tauto.
          -- intros y. unfold src, FC. setoid_rewrite in_app_iff. setoid_rewrite lv_In_set_union. vw.
             intros [K|[[[K|K]|K]|K]]; auto 6.
             right. intros ch Hc. right. right. left. left. eapply lv_bfs_closed; eauto.
        * left. unfold resR. rewrite in_app_iff, lv_In_set_union. auto 6.
    - intros H; injection H as <- <- <-.
      assert (RS : forall y, restarts (getrec (failed_add x (inprog_remove x (rec_set_status x TIMEDOUT s))) y) = restarts (getrec s y)).
      { intros y. gr. apply restarts_set_status. }
      constructor; try rs_close RS.
      * intros y. unfold resR. rewrite !in_app_iff, In_srem, lv_In_set_union. vw. setsimp.
        destruct (Nat.eq_dec y x); tauto.
      * mset.
      * mset.
      * mset.
      * apply st_frame_x. apply (st_frame_trans _ _ (rec_set_status x TIMEDOUT s)); [apply st_frame_set_status; discriminate|].
        apply st_frame_same_recs. reflexivity.
      * mset.
      * mset.
      * intros W C. eapply clo_step; [exact C| |].
        -- intros z. unfold FC. rewrite !in_app_iff, In_srem, lv_In_set_union. vw. setsimp.
           destruct (Nat.eq_dec z x); tauto.
        -- intros y. unfold src, FC. setoid_rewrite in_app_iff. setoid_rewrite In_srem. setoid_rewrite lv_In_set_union. vw.
           setsimp.
           assert (SUB : forall z, In z (bfs_subtree g x) -> forall ch, In ch (children (attr g z)) ->
                    (ch = x \/ In ch (failed s)) \/ In ch (cancelled s) \/ (ch <> x /\ (In ch (bfs_subtree g x) \/ In ch cl)) \/ In ch ca).
           { intros z Hz ch Hc. pose proof (lv_bfs_closed g x z W Hz ch Hc). destruct (Nat.eq_dec ch x); auto 8. }
           intros [[->|K]|[[[_ [K|K]]|K]|K]]; auto 8; right; intros ch Hc; rewrite In_sadd; eapply SUB; eauto.
      * left. unfold resR. vw. setsimp. auto.
  }
  destruct (oeqb o HWFAILURE) eqn:E4.
  { intros H; injection H as <- <- <-.
    assert (RS : forall y, restarts (getrec (ready_push x (inprog_remove x s)) y) = restarts (getrec s y)) by (intros; reflexivity).
    constructor; try rs_close RS; try mset.
    apply st_frame_same_recs. reflexivity. }
  destruct (oeqb o FAILED) eqn:E5.
  { intros H; injection H as <- <- <-.
    assert (RS : forall y, restarts (getrec (rec_set_status x FAILED (inprog_remove x s)) y) = restarts (getrec s y)).
    { intros y. rewrite restarts_set_status. reflexivity. }
    constructor; try rs_close RS.
    * intros y. unfold resR. rewrite !in_app_iff, lv_In_set_union. vw. tauto.
    * mset.
    * mset.
    * mset.
    * apply st_frame_x. apply (st_frame_trans _ _ (inprog_remove x s)); [apply st_frame_same_recs; reflexivity|].
      apply st_frame_set_status; discriminate.
    * mset.
    * mset.
    * intros W C. eapply clo_step; [exact C| |].
      -- intros z. unfold FC. rewrite !in_app_iff, lv_In_set_union. vw. tauto.
      -- intros y. unfold src, FC. setoid_rewrite in_app_iff. setoid_rewrite lv_In_set_union. vw.
         intros [K|[[[K|K]|K]|K]]; auto 6.
         right. intros ch Hc. right. right. left. left. eapply lv_bfs_closed; eauto.
    * left. unfold resR. rewrite in_app_iff, lv_In_set_union. auto 6. }
  destruct (oeqb o UNKNOWN) eqn:E6.
  { intros H; injection H as <- <- <-.
    assert (RS : forall y, restarts (getrec (inprog_remove x (rec_set_status x UNKNOWN s)) y) = restarts (getrec s y)).
    { intros y. gr. rewrite restarts_set_status. reflexivity. }
    constructor; try rs_close RS.
    * intros y. unfold resR. rewrite !in_app_iff, lv_In_set_union. vw. tauto.
    * mset.
    * mset.
    * mset.
    * apply st_frame_x. apply (st_frame_trans _ _ (rec_set_status x UNKNOWN s)); [apply st_frame_set_status; discriminate|].
      apply st_frame_same_recs; reflexivity.
    * mset.
    * mset.
    * intros W C. eapply clo_step; [exact C| |].
      -- intros z. unfold FC. rewrite !in_app_iff, lv_In_set_union. vw. tauto.
      -- intros y. unfold src, FC. setoid_rewrite in_app_iff. setoid_rewrite lv_In_set_union. vw.
         intros [K|[[[K|K]|K]|K]]; auto 6.
         right. intros ch Hc. right. right. left. left. eapply lv_bfs_closed; eauto.
    * left. unfold resR. rewrite in_app_iff, lv_In_set_union. auto 6. }
  destruct (oeqb o CANCELLED) eqn:E7.
  { intros H; injection H as <- <- <-.
    assert (RS : forall y, restarts (getrec (rec_set_status x CANCELLED (inprog_remove x s)) y) = restarts (getrec s y)).
    { intros y. rewrite restarts_set_status. reflexivity. }
    constructor; try rs_close RS.
    * intros y. unfold resR. rewrite !in_app_iff, lv_In_set_union. vw. tauto.
    * mset.
    * mset.
    * mset.
    * apply st_frame_x. apply (st_frame_trans _ _ (inprog_remove x s)); [apply st_frame_same_recs; reflexivity|].
      apply st_frame_set_status; discriminate.
    * mset.
    * mset.
    * intros W C. eapply clo_step; [exact C| |].
      -- intros z. unfold FC. rewrite !in_app_iff, lv_In_set_union. vw. tauto.
      -- intros y. unfold src, FC. setoid_rewrite in_app_iff. setoid_rewrite lv_In_set_union. vw.
         intros [K|[[K|[K|K]]|K]]; auto 6.
         right. intros ch Hc. right. right. right. left. eapply lv_bfs_closed; eauto.
    * left. unfold resR. rewrite in_app_iff, lv_In_set_union. auto 6. }
  intros H; injection H as <- <- <-.
  assert (RS : forall y, restarts (getrec s y) = restarts (getrec s y)) by reflexivity.
  constructor; try rs_close RS; try mset.
  apply st_frame_refl.
Qed.

(** ** staging and launching *)
Lemma astep_id g hw x s R : astep g hw x s R s R.
Proof.
  assert (RS : forall y, restarts (getrec s y) = restarts (getrec s y)) by reflexivity.
  constructor; try rs_close RS; try mset. apply st_frame_refl.
Qed.

Lemma lv_getdeps_prune_incl x s y : incl (getdeps (deps_prune x s) y) (getdeps s y).
Proof.
  destruct (Nat.eq_dec x y) as [->|Hn]; [|rewrite getdeps_prune_neq by auto; apply incl_refl].
  destruct (Nat.lt_ge_cases y (length (deps s))) as [Hl|Hl].
  - rewrite getdeps_prune_eq by auto. intros z Hz. apply filter_In in Hz. tauto.
  - unfold getdeps, deps_prune. cbn. rewrite nth_upd_ge by auto. apply incl_refl.
Qed.

Lemma stage_astep g s x R : astep g false x s R (stage_node_gen g s x) R /\ recs (stage_node_gen g s x) = recs s.
Proof.
  unfold stage_node_gen.
  destruct (mem x (completed s)); [split; [apply astep_id|reflexivity]|].
  destruct (state_eqb (status (getrec s x)) INITIALIZED); [|split; [apply astep_id|reflexivity]].
  assert (D : forall s', deps s' = deps (deps_prune x s) -> forall y, incl (getdeps s' y) (getdeps s y)).
  { intros s' E y. unfold getdeps at 1. rewrite E. apply lv_getdeps_prune_incl. }
  assert (A1 : astep g false x s R (deps_prune x s) R).
  { assert (RS : forall y, restarts (getrec (deps_prune x s) y) = restarts (getrec s y)) by reflexivity.
    constructor; try (apply D; reflexivity); try rs_close RS; try mset. apply st_frame_same_recs. reflexivity. }
  destruct (is_nil (getdeps (deps_prune x s) x)); [|split; [exact A1|reflexivity]].
  destruct (negb (mem x (ready (deps_prune x s)))); [|split; [exact A1|reflexivity]].
  split; [|reflexivity].
  assert (RS : forall y, restarts (getrec (ready_push x (deps_prune x s)) y) = restarts (getrec s y)) by reflexivity.
  constructor; try (apply D; reflexivity); try rs_close RS; try mset. apply st_frame_same_recs. reflexivity.
Qed.

Lemma astep_pop g hw x rest s R s' R' : ready s = x :: rest ->
  astep g hw x (set_ready s rest) R s' R' -> (resR s' R' x \/ In x (inprog s')) -> astep g hw x s R s' R'.
Proof.
  intros E [A1 A2 A3 A4 A5 A6 A7 A8 A9 A10 A11 A12] O. constructor; auto.
  - intros y Hy. rewrite (A4 y Hy). cbn. rewrite E. cbn. intuition congruence.
  - tauto.
Qed.

Lemma launch_nil c g s : ready s = [] -> launch_body_gen c g s = s.
Proof. intros E. unfold launch_body_gen. rewrite E. reflexivity. Qed.

Lemma launch_astep c g s x rest : ready s = x :: rest ->
  astep g false x s [] (launch_body_gen c g s) [] /\
  (resR (launch_body_gen c g s) [] x \/ In x (inprog (launch_body_gen c g s))) /\
  restarts (getrec (launch_body_gen c g s) x) = restarts (getrec s x).
Proof.
  intros E. unfold launch_body_gen. rewrite E.
  change (canceled (set_ready s rest)) with (canceled s).
  destruct (canceled s) eqn:K.
  - assert (RS : forall y, restarts (getrec (cancelled_add x (rec_set_status x CANCELLED (set_ready s rest))) y) = restarts (getrec s y)).
    { intros y. gr. rewrite restarts_set_status. reflexivity. }
    assert (O : resR (cancelled_add x (rec_set_status x CANCELLED (set_ready s rest))) [] x) by mset.
    splits; auto.
    eapply astep_pop; [exact E| |left; exact O].
    assert (RS' : forall y, restarts (getrec (cancelled_add x (rec_set_status x CANCELLED (set_ready s rest))) y) =
                            restarts (getrec (set_ready s rest) y)).
    { intros y. rewrite RS. reflexivity. }
    constructor; try rs_close RS'; try mset.
    apply st_frame_x. apply (st_frame_trans _ _ (rec_set_status x CANCELLED (set_ready s rest))).
    + apply st_frame_set_status. discriminate.
    + apply st_frame_same_recs. reflexivity.
  - destruct (er_astep c g x false (set_ready s rest) []) as (A & RS & O).
    splits; auto. + eapply astep_pop; eauto. + rewrite RS. reflexivity.
Qed.

(** ** sequences of steps *)
Inductive msteps (g : graph) (hw : bool) : st -> list nat -> st -> list nat -> Prop :=
| ms_refl s R : msteps g hw s R s R
| ms_step x s R s1 R1 s2 R2 : astep g hw x s R s1 R1 ->
    (tracked s R x \/ forall y, status (getrec s1 y) = status (getrec s y)) ->
    msteps g hw s1 R1 s2 R2 -> msteps g hw s R s2 R2.

Lemma ms_trans g hw s R s1 R1 s2 R2 : msteps g hw s R s1 R1 -> msteps g hw s1 R1 s2 R2 -> msteps g hw s R s2 R2.
Proof. induction 1; auto. intros. econstructor; eauto. Qed.
Lemma ms_one g hw x s R s1 R1 : astep g hw x s R s1 R1 ->
  (tracked s R x \/ forall y, status (getrec s1 y) = status (getrec s y)) -> msteps g hw s R s1 R1.
Proof. intros. econstructor; eauto. constructor. Qed.

Lemma ms_wle g s R s' R' : msteps g false s R s' R' -> wle g s R s' R'.
Proof. induction 1; [apply wle_refl|]. eapply wle_trans; [eapply astep_wle; eauto|auto]. Qed.
Lemma ms_tracked g hw s R s' R' y : msteps g hw s R s' R' -> tracked s R y -> tracked s' R' y.
Proof. induction 1; auto. intros T. apply IHmsteps. eapply astep_tracked; eauto. Qed.
Lemma ms_acct g hw s R s' R' : msteps g hw s R s' R' -> acct s R -> acct s' R'.
Proof.
  induction 1; auto. intros A. apply IHmsteps. destruct H0 as [T|E].
  - eapply astep_acct; eauto.
  - intros y Hy. rewrite E in Hy. eapply astep_tracked; eauto.
Qed.
Lemma ms_clo g hw s R s' R' : WF g -> msteps g hw s R s' R' -> clo g s R -> clo g s' R'.
Proof. intros W. induction 1; auto. intros C. apply IHmsteps. eapply as_clo; eauto. Qed.
Lemma ms_depsok g hw s R s' R' : msteps g hw s R s' R' -> depsok g s -> depsok g s'.
Proof. induction 1; auto. intros D. apply IHmsteps. eapply astep_depsok; eauto. Qed.
Lemma ms_canceled g hw s R s' R' : msteps g hw s R s' R' -> canceled s' = canceled s.
Proof. induction 1; auto. rewrite IHmsteps. eapply as_canceled; eauto. Qed.
Lemma ms_len g hw s R s' R' : msteps g hw s R s' R' -> length (recs s') = length (recs s).
Proof. induction 1; auto. rewrite IHmsteps. eapply as_len; eauto. Qed.

Lemma astep_hw_le g hw hw' x s R s' R' : (hw = true -> hw' = true) -> astep g hw x s R s' R' -> astep g hw' x s R s' R'.
Proof.
  intros H [A1 A2 A3 A4 A5 A6 A7 A8 A9 A10 A11 A12]. constructor; auto.
  destruct A11 as [K|[K|[K|[K|[K1 K2]]]]]; auto 7.
Qed.

Definition is_hw (r : nat * option State) : bool := oeqb (snd r) HWFAILURE.

Lemma fold_hr_msteps c g hw reps : forall s cl ca s' cl' ca',
  fold_left (handle_report_gen c g) reps (s, cl, ca) = (s', cl', ca') ->
  (forall r, In r reps -> tracked s (cl ++ ca) (fst r)) ->
  (forall r, In r reps -> is_hw r = true -> hw = true) ->
  msteps g hw s (cl ++ ca) s' (cl' ++ ca').
Proof.
  induction reps as [|[x o] reps IH]; intros s cl ca s' cl' ca' E T H; cbn [fold_left] in E.
  - injection E as <- <- <-. constructor.
  - destruct (handle_report_gen c g (s, cl, ca) (x, o)) as [[s1 cl1] ca1] eqn:E1.
    pose proof (hr_astep c g s cl ca x o s1 cl1 ca1 E1) as A.
    assert (A' : astep g hw x s (cl ++ ca) s1 (cl1 ++ ca1)).
    { eapply astep_hw_le; [|exact A]. intros K. apply (H (x, o)); [left; reflexivity|exact K]. }
    econstructor; [exact A' | left; apply (T (x, o)); left; reflexivity |].
    eapply IH; eauto.
    + intros r Hr. eapply astep_tracked; [exact A'|]. apply T. right. exact Hr.
    + intros r Hr. apply H. right. exact Hr.
Qed.

Lemma fold_hr_wle c g reps : forall s cl ca s' cl' ca',
  fold_left (handle_report_gen c g) reps (s, cl, ca) = (s', cl', ca') ->
  existsb is_hw reps = false ->
  wle g s (cl ++ ca) s' (cl' ++ ca') /\ length (recs s') = length (recs s).
Proof.
  induction reps as [|[x o] reps IH]; intros s cl ca s' cl' ca' E H; cbn [fold_left] in E.
  - injection E as <- <- <-. split; [apply wle_refl|reflexivity].
  - destruct (handle_report_gen c g (s, cl, ca) (x, o)) as [[s1 cl1] ca1] eqn:E1.
    cbn [existsb] in H. apply orb_false_iff in H. destruct H as [H1 H2].
    pose proof (hr_astep c g s cl ca x o s1 cl1 ca1 E1) as A. unfold is_hw in H1. cbn [snd] in H1. rewrite H1 in A.
    destruct (IH _ _ _ _ _ _ E H2) as [W L]. split.
    + eapply wle_trans; [eapply astep_wle; exact A|exact W].
    + rewrite L. eapply as_len; eauto.
Qed.

(** ** the two sweeps *)
Lemma wtR_ext g s R s' R' y : (resR s' R' y <-> resR s R y) ->
  (In y (inprog s') <-> In y (inprog s)) -> (In y (ready s') <-> In y (ready s)) ->
  restarts (getrec s' y) = restarts (getrec s y) -> wtR g s' R' y = wtR g s R y.
Proof.
  intros H1 H2 H3 H4. destruct (resR_dec s R y) as [K|K].
  - rewrite !wtR_res; auto. tauto.
  - rewrite !wtR_unres; auto; [|tauto]. rewrite (stagew_ext s s' y H2 H3). unfold budget. rewrite H4. reflexivity.
Qed.

Record sweep_rel (g : graph) (s : st) (R : list nat) (s2 : st) : Prop := {
  sw_wt : forall y, wtR g s2 [] y = wtR g s R y;
  sw_tracked : forall y, tracked s R y -> tracked s2 [] y;
  sw_acct : acct s R -> acct s2 [];
  sw_clo : clo g s R -> clo g s2 [];
  sw_deps : deps s2 = deps s;
  sw_canceled : canceled s2 = canceled s;
  sw_inprog : inprog s2 = inprog s;
  sw_ready : ready s2 = ready s;
  sw_len : length (recs s2) = length (recs s) }.

Lemma sweep_facts g s cl ca : sweep_rel g s (cl ++ ca) (mark_cancelled_list ca (mark_failed_list cl s)).
Proof.
  pose proof (lv_mfl cl s) as M1. cbn zeta in M1. set (s1 := mark_failed_list cl s) in *.
  pose proof (lv_mcl ca s1) as M2. cbn zeta in M2. set (s2 := mark_cancelled_list ca s1) in *.
  destruct M1 as (Ac & Ai & Ar & Ax & Ad & Ak & Ars & Af & Ast & Al).
  destruct M2 as (Bc & Bi & Br & Bf & Bd & Bk & Brs & Bx & Bst & Bl).
  assert (RES : forall y, resR s2 [] y <-> resR s (cl ++ ca) y).
  { intros y. unfold resR. rewrite Bc, Bf, Bx, Ac, Af, Ax, in_app_iff. cbn [In]. tauto. }
  assert (TR : forall y, tracked s (cl ++ ca) y -> tracked s2 [] y).
  { intros y. unfold tracked. rewrite RES, Bi, Br, Ai, Ar. tauto. }
  constructor; try congruence.
  - intros y. apply wtR_ext; auto; try (rewrite ?Bi, ?Br, ?Ai, ?Ar; tauto). rewrite Brs, Ars. reflexivity.
  - exact TR.
  - intros A y Hy. destruct (Bst y) as [E|[K _]].
    + rewrite E in Hy. destruct (Ast y) as [E'|[K _]].
      * rewrite E' in Hy. apply TR. apply A. exact Hy.
      * left. apply RES. unfold resR. rewrite in_app_iff. auto 6.
    + left. apply RES. unfold resR. rewrite in_app_iff. auto 6.
  - intros C y Hy ch Hc. unfold FC. rewrite Bf, Bx, Af, Ax. cbn [In].
    assert (K : FC s (cl ++ ca) ch).
    { apply (C y); auto. rewrite Bf, Bx, Af, Ax, Bk, Ak in Hy. cbn [In] in Hy. rewrite in_app_iff. tauto. }
    unfold FC in K. rewrite in_app_iff in K. tauto.
Qed.

(** * Part E: a whole poll *)
Lemma stage_fold_ms g l : forall s, msteps g false s [] (fold_left (stage_node_gen g) l s) [].
Proof.
  induction l as [|a l IH]; intros s; cbn [fold_left]; [constructor|].
  destruct (stage_astep g s a []) as [A E]. econstructor; [exact A| |apply IH].
  right. intros y. unfold getrec. rewrite E. reflexivity.
Qed.

Lemma launch_iter_ms c g n : forall s, msteps g false s [] (Nat.iter n (launch_body_gen c g) s) [].
Proof.
  induction n as [|n IH]; intros s; cbn [Nat.iter nat_rect]; [constructor|].
  eapply ms_trans; [apply IH|].
  set (t := Nat.iter n (launch_body_gen c g) s).
  destruct (ready t) as [|x rest] eqn:E.
  - rewrite launch_nil by exact E. constructor.
  - destruct (launch_astep c g t x rest E) as (A & _ & _). eapply ms_one; [exact A|].
    left. right. right. rewrite E. left. reflexivity.
Qed.

Lemma dispatch_nil c g s : dispatch_gen c g [] s = s.
Proof. reflexivity. Qed.

(** the liveness invariant *)
Record LInv (g : graph) (s : st) : Prop := {
  li_acct : acct s [];
  li_clo : clo g s [];
  li_deps : depsok g s }.

Lemma dispatch_wle c g reps s : existsb is_hw reps = false ->
  (forall y, wt g (dispatch_gen c g reps s) y <= wt g s y) /\
  length (recs (dispatch_gen c g reps s)) = length (recs s).
Proof.
  intros H. unfold dispatch_gen.
  destruct (fold_left (handle_report_gen c g) reps (s, [], [])) as [[s1 cl] ca] eqn:E.
  destruct (fold_hr_wle c g reps s [] [] s1 cl ca E H) as [W L].
  destruct (sweep_facts g s1 cl ca) as [S1 _ _ _ _ _ _ _ S9]. split.
  - intros y. unfold wt at 1. rewrite S1. apply W.
  - rewrite S9. exact L.
Qed.

Lemma dispatch_LInv c g reps s : WF g -> (forall r, In r reps -> In (fst r) (inprog s)) ->
  LInv g s -> LInv g (dispatch_gen c g reps s).
Proof.
  intros W V [A C D]. unfold dispatch_gen.
  destruct (fold_left (handle_report_gen c g) reps (s, [], [])) as [[s1 cl] ca] eqn:E.
  assert (M : msteps g true s ([] ++ []) s1 (cl ++ ca)).
  { eapply fold_hr_msteps; eauto. intros r Hr. right. left. apply V. exact Hr. }
  cbn [app] in M.
  destruct (sweep_facts g s1 cl ca) as [S1 S2 S3 S4 S5 S6 S7 S8 S9]. constructor.
  - apply S3. eapply ms_acct; eauto.
  - apply S4. eapply ms_clo; eauto.
  - intros y. unfold getdeps. rewrite S5. apply (ms_depsok _ _ _ _ _ _ M D y).
Qed.

(** the state on which [execute_ready_steps] dispatches *)
Definition pre_state (c : cfg) (p : pin) (s : st) : st :=
  let s0 := set_evs (set_subs s (psubs p)) [] in
  let s1 := if cancel_req p then cancel_study_gen s0 else s0 in
  if negb (dry c) then emit (ECheck (map (lastjob s1) (inprog s1))) s1 else s1.
Definition disp_state (c : cfg) (g : graph) (p : pin) (s : st) : st :=
  if dry c then s else if qcode_eqb (qcode p) QOK then dispatch_gen c g (reports p) s else s.
Definition stage_state (g : graph) (s : st) : st := fold_left (stage_node_gen g) (seq 0 (length g)) s.
Definition launch_state (c : cfg) (g : graph) (s : st) : st := Nat.iter (available_gen c s) (launch_body_gen c g) s.

Lemma poll_eq c g s p :
  poll c g s p =
  if aborts c p then (pre_state c p s, SABORT)
  else let s5 := launch_state c g (stage_state g (disp_state c g p (pre_state c p s))) in (s5, completion_gen g s5).
Proof.
  unfold poll, execute_ready_steps_gen, aborts, pre_state, disp_state, stage_state, launch_state.
  destruct (dry c); cbn [negb andb].
  - cbn [qcode_eqb]. rewrite dispatch_nil. reflexivity.
  - destruct (qcode_eqb (qcode p) QERROR); [reflexivity|]. reflexivity.
Qed.

Lemma pre_state_view c p s :
  completed (pre_state c p s) = completed s /\ inprog (pre_state c p s) = inprog s /\ ready (pre_state c p s) = ready s /\
  failed (pre_state c p s) = failed s /\ cancelled (pre_state c p s) = cancelled s /\ deps (pre_state c p s) = deps s /\
  recs (pre_state c p s) = recs s /\ canceled (pre_state c p s) = (cancel_req p || canceled s).
Proof.
  unfold pre_state, cancel_study_gen. destruct (cancel_req p), (negb (dry c)); cbn; splits; reflexivity.
Qed.

Lemma pre_state_wt c g p s y : wt g (pre_state c p s) y = wt g s y.
Proof.
  destruct (pre_state_view c p s) as (A & B & C & D & E & F & G & H).
  apply wtR_ext; unfold resR; rewrite ?A, ?B, ?C, ?D, ?E; try tauto. unfold getrec. rewrite G. reflexivity.
Qed.

Lemma pre_state_LInv c g p s : LInv g s -> LInv g (pre_state c p s).
Proof.
  destruct (pre_state_view c p s) as (A & B & C & D & E & F & G & H). intros [X Y Z]. constructor.
  - intros y Hy. unfold getrec in Hy. rewrite G in Hy. specialize (X y Hy).
    unfold tracked, resR in *. rewrite A, B, C, D, E. exact X.
  - intros y Hy ch Hc. unfold FC. rewrite D, E. apply (Y y); auto.
    rewrite D, E, H in Hy. destruct Hy as [K|[K|[K1 K2]]]; auto.
    right. right. split; auto. destruct (cancel_req p); [discriminate|exact K1].
  - intros y. unfold getdeps. rewrite F. apply Z.
Qed.

Lemma pre_state_Inv c g p s : Inv g s -> Inv g (pre_state c p s).
Proof.
  intros I. unfold pre_state.
  assert (I0 : Inv g (set_evs (set_subs s (psubs p)) [])) by (apply Inv_set_evs, Inv_set_subs; auto).
  set (s0 := set_evs (set_subs s (psubs p)) []) in *.
  assert (I1 : Inv g (if cancel_req p then cancel_study_gen s0 else s0)).
  { destruct (cancel_req p); auto. unfold cancel_study_gen. apply Inv_set_canceled, Inv_emit. auto. }
  destruct (negb (dry c)); [apply Inv_emit|]; auto.
Qed.

Definition hw_delivered (c : cfg) (p : pin) : bool :=
  negb (dry c) && qcode_eqb (qcode p) QOK && existsb is_hw (reports p).

Lemma disp_state_wle c g p s : hw_delivered c p = false ->
  (forall y, wt g (disp_state c g p s) y <= wt g s y) /\ length (recs (disp_state c g p s)) = length (recs s).
Proof.
  unfold hw_delivered, disp_state. destruct (dry c); cbn [negb andb]; [split; auto|].
  destruct (qcode_eqb (qcode p) QOK); cbn [andb]; [|split; auto].
  intros H. apply dispatch_wle. exact H.
Qed.

Lemma tail_wle c g s y : wt g (launch_state c g (stage_state g s)) y <= wt g s y.
Proof.
  unfold launch_state, stage_state, wt.
  eapply (wle_trans g s [] _ [] _ []); [apply ms_wle; apply stage_fold_ms | apply ms_wle; apply launch_iter_ms].
Qed.

Lemma Phi_le g s s' : (forall y, wt g s' y <= wt g s y) -> Phi g s' <= Phi g s.
Proof. intros H. apply sumf_le. intros x _. apply H. Qed.
Lemma Phi_lt g s s' x : (forall y, wt g s' y <= wt g s y) -> x < length g -> wt g s' x < wt g s x -> Phi g s' < Phi g s.
Proof. intros H Hx Hl. eapply sumf_lt; eauto. apply In_seq_lt. exact Hx. Qed.

Theorem poll_wt_le c g s p : hw_delivered c p = false -> forall y, wt g (fst (poll c g s p)) y <= wt g s y.
Proof.
  intros H y. rewrite poll_eq. destruct (aborts c p); cbn [fst].
  - rewrite pre_state_wt. lia.
  - eapply Nat.le_trans; [apply tail_wle|]. rewrite <- (pre_state_wt c g p s y).
    apply disp_state_wle. exact H.
Qed.

Theorem poll_phi_le c g s p : hw_delivered c p = false -> Phi g (fst (poll c g s p)) <= Phi g s.
Proof. intros H. apply Phi_le. apply poll_wt_le. exact H. Qed.

Theorem poll_LInv c g s p : WF g -> LInv g s -> valid_pin s p = true -> LInv g (fst (poll c g s p)).
Proof.
  intros W L V. rewrite poll_eq. pose proof (pre_state_LInv c g p s L) as L1.
  destruct (aborts c p); cbn [fst]; auto.
  assert (L2 : LInv g (disp_state c g p (pre_state c p s))).
  { unfold disp_state. destruct (dry c); auto. destruct (qcode_eqb (qcode p) QOK); auto.
    apply dispatch_LInv; auto. apply valid_pin_spec in V. destruct V as [_ V]. intros [x o] Hr.
    destruct (pre_state_view c p s) as (_ & B & _). rewrite B. eapply V; eauto. }
  set (s3 := disp_state c g p (pre_state c p s)) in *.
  pose proof (stage_fold_ms g (seq 0 (length g)) s3) as M1. fold (stage_state g s3) in M1.
  pose proof (launch_iter_ms c g (available_gen c (stage_state g s3)) (stage_state g s3)) as M2.
  fold (launch_state c g (stage_state g s3)) in M2.
  pose proof (ms_trans _ _ _ _ _ _ _ _ M1 M2) as M. destruct L2 as [X Y Z]. constructor.
  - eapply ms_acct; eauto.
  - eapply ms_clo; eauto.
  - eapply ms_depsok; eauto.
Qed.

Lemma lv_nth_map_const {A B} (d : B) (l : list A) : forall y, nth y (map (fun _ => d) l) d = d.
Proof. induction l as [|a l IH]; intros [|y]; cbn; auto. Qed.

Lemma init_LInv g : LInv g (init g).
Proof.
  constructor.
  - intros y Hy. exfalso. apply Hy. unfold getrec, init. cbn [recs]. rewrite lv_nth_map_const. reflexivity.
  - intros y [[]|[[]|[_ []]]].
  - intros y. unfold getdeps, init. cbn [deps]. change (@nil nat) with (parents dflt_attr).
    rewrite map_nth. apply incl_refl.
Qed.

(** * Part F: productive polls strictly decrease the potential *)

(** a report that settles something: every terminal report except HWFAILURE
    (excluded by [hw_delivered]) and TIMEDOUT for a step with unlimited restarts *)
Definition prod_report (g : graph) (x : nat) (v : State) : bool :=
  match v with
  | FINISHED | FAILED | CANCELLED | UNKNOWN => true
  | TIMEDOUT => negb (has_restart (attr g x) && (rlimit (attr g x) =? 0))
  | _ => false
  end.

Lemma hr_strict c g s cl ca x v s' cl' ca' : prod_report g x v = true -> x < length (recs s) ->
  handle_report_gen c g (s, cl, ca) (x, Some v) = (s', cl', ca') ->
  resR s' (cl' ++ ca') x \/ (In x (inprog s') /\ budget g s' x < budget g s x).
Proof.
  intros P Hx. pose proof (bfs_subtree_root g x) as Root.
  destruct v; cbn [prod_report] in P; try discriminate; unfold handle_report_gen; cbn [oeqb state_eqb].
  - (* FINISHED *) intros H; injection H as <- <- <-. left. mset.
  - (* FAILED *) intros H; injection H as <- <- <-. left. unfold resR. rewrite in_app_iff, lv_In_set_union. auto 6.
  - (* TIMEDOUT *)
    destruct (has_restart (attr g x)) eqn:HR; cbn [andb] in *.
    2:{ intros H; injection H as <- <- <-. left. mset. }
    apply negb_true_iff, Nat.eqb_neq in P.
    destruct (negb (canceled s)).
    2:{ intros H; injection H as <- <- <-. left. mset. }
    unfold mark_restart_gen. set (s1 := rec_set_status x TIMEDOUT s).
    assert (R1 : restarts (getrec s1 x) = restarts (getrec s x)) by apply restarts_set_status.
    destruct (rlimit (attr g x) =? 0) eqn:Z; [apply Nat.eqb_eq in Z; contradiction|]. cbn [orb].
    destruct (restarts (getrec s1 x) <? rlimit (attr g x)) eqn:LT.
    + apply Nat.ltb_lt in LT. intros H; injection H as <- <- <-.
      destruct (er_astep c g x true (rec_inc_restarts x s1) (cl ++ ca)) as (_ & RS & O).
      destruct O as [O|O]; [left; exact O|right]. split; auto.
      unfold budget. rewrite HR, Z. cbn [andb negb]. rewrite RS.
      rewrite lv_restarts_inc_eq by (unfold s1; rewrite len_recs_set_status; exact Hx). lia.
    + intros H; injection H as <- <- <-. left. unfold resR. rewrite in_app_iff, lv_In_set_union. auto 6.
  - (* UNKNOWN *) intros H; injection H as <- <- <-. left. unfold resR. rewrite in_app_iff, lv_In_set_union. auto 6.
  - (* CANCELLED *) intros H; injection H as <- <- <-. left. unfold resR. rewrite !in_app_iff, lv_In_set_union. auto 6.
Qed.

Lemma hr_strict_wt c g s cl ca x v s' cl' ca' : prod_report g x v = true -> x < length (recs s) ->
  handle_report_gen c g (s, cl, ca) (x, Some v) = (s', cl', ca') ->
  wtR g s' (cl' ++ ca') x < wtR g s (cl ++ ca) x \/ wtR g s' (cl' ++ ca') x = 0.
Proof.
  intros P Hx E. destruct (hr_strict c g s cl ca x v s' cl' ca' P Hx E) as [K|[K1 K2]].
  - right. apply wtR_res. exact K.
  - destruct (resR_dec s' (cl' ++ ca') x) as [K|K]; [right; apply wtR_res; exact K|left].
    pose proof (hr_astep c g s cl ca x (Some v) s' cl' ca' E) as A.
    assert (N : ~ resR s (cl ++ ca) x) by (intros N; apply K; eapply as_res; eauto).
    rewrite !wtR_unres; auto. rewrite (stagew_inprog s' x K1). pose proof (stagew_ge1 s x). lia.
Qed.

Lemma existsb_app_false {A} (f : A -> bool) l1 l2 : existsb f (l1 ++ l2) = false -> existsb f l1 = false /\ existsb f l2 = false.
Proof. rewrite existsb_app. apply orb_false_iff. Qed.

Lemma dispatch_strict c g reps s x v : In (x, Some v) reps -> existsb is_hw reps = false ->
  prod_report g x v = true -> x < length (recs s) -> ~ resR s [] x ->
  wt g (dispatch_gen c g reps s) x < wt g s x.
Proof.
  intros Hin H P Hx N. apply in_split in Hin. destruct Hin as (l1 & l2 & ->).
  apply existsb_app_false in H. destruct H as [H1 H2]. cbn [existsb] in H2. apply orb_false_iff in H2. destruct H2 as [_ H2].
  unfold dispatch_gen. rewrite fold_left_app. cbn [fold_left].
  destruct (fold_left (handle_report_gen c g) l1 (s, [], [])) as [[s1 cl1] ca1] eqn:E1.
  destruct (handle_report_gen c g (s1, cl1, ca1) (x, Some v)) as [[s2 cl2] ca2] eqn:E2.
  destruct (fold_left (handle_report_gen c g) l2 (s2, cl2, ca2)) as [[s3 cl3] ca3] eqn:E3.
  destruct (fold_hr_wle c g l1 _ _ _ _ _ _ E1 H1) as [W1 L1].
  destruct (fold_hr_wle c g l2 _ _ _ _ _ _ E3 H2) as [W3 _].
  assert (Hx1 : x < length (recs s1)) by (rewrite L1; exact Hx).
  pose proof (hr_strict_wt c g s1 cl1 ca1 x v s2 cl2 ca2 P Hx1 E2) as S.
  destruct (sweep_facts g s3 cl3 ca3) as [S1 _ _ _ _ _ _ _ _].
  unfold wt at 1. rewrite S1. specialize (W1 x). specialize (W3 x). cbn [app] in W1.
  assert (1 <= wt g s x). { unfold wt. rewrite wtR_unres by exact N. pose proof (stagew_ge1 s x). lia. }
  unfold wt in *. lia.
Qed.

Definition productive (c : cfg) (g : graph) (s : st) (p : pin) : bool :=
  negb (dry c) && qcode_eqb (qcode p) QOK &&
  existsb (fun r => mem (fst r) (inprog s) && match snd r with Some v => prod_report g (fst r) v | None => false end)
          (reports p).

Lemma inprog_unresolved g s x : Inv g s -> In x (inprog s) -> ~ resR s [] x /\ x < length g.
Proof.
  intros I H. split; [|apply (i_bound g s I); auto].
  intros [K|[K|[K|[]]]].
  - exact (i_dj_ci g s I x K H).
  - destruct (i_dj_fc g s I x (or_introl K)) as (_ & A & _). auto.
  - destruct (i_dj_fc g s I x (or_intror K)) as (_ & A & _). auto.
Qed.

Theorem poll_phi_lt_report c g s p : Inv g s -> hw_delivered c p = false -> productive c g s p = true ->
  Phi g (fst (poll c g s p)) < Phi g s.
Proof.
  intros I H P. unfold productive in P. rewrite !andb_true_iff in P. destruct P as [[D Q] P].
  apply negb_true_iff in D. apply existsb_exists in P. destruct P as ([x o] & Hin & P). cbn [fst snd] in P.
  apply andb_true_iff in P. destruct P as [Px Pv]. apply mem_In in Px. destruct o as [v|]; [|discriminate].
  destruct (inprog_unresolved g s x I Px) as [N Hx].
  apply (Phi_lt g s _ x); [apply poll_wt_le; exact H | exact Hx |].
  rewrite poll_eq. assert (Ab : aborts c p = false).
  { unfold aborts. rewrite D. cbn. destruct (qcode p); cbn in *; congruence. }
  rewrite Ab. cbn [fst]. eapply Nat.le_lt_trans; [apply tail_wle|].
  rewrite <- (pre_state_wt c g p s x). unfold disp_state. rewrite D, Q.
  unfold hw_delivered in H. rewrite D, Q in H. cbn [negb andb] in H.
  destruct (pre_state_view c p s) as (A & B & C & D' & E & F & G & _).
  apply (dispatch_strict c g (reports p) _ x v); auto.
  - rewrite G, (i_len_recs g s I). exact Hx.
  - unfold resR. rewrite A, D', E. exact N.
Qed.

(** ** no deadlock *)
Lemma lv_min_counter (P : nat -> Prop) (dec : forall x, P x \/ ~ P x) n :
  ~ (forall x, x < n -> P x) -> exists x, x < n /\ ~ P x /\ forall y, y < x -> P y.
Proof.
  assert (C : forall n, (forall x, x < n -> P x) \/ exists x, x < n /\ ~ P x /\ forall y, y < x -> P y).
  { clear n. induction n as [|n [IH|(x & A & B & D)]].
    - left. intros x Hx. lia.
    - destruct (dec n) as [K|K].
      + left. intros x Hx. destruct (Nat.eq_dec x n) as [->|]; auto. apply IH. lia.
      + right. exists n. splits; auto.
    - right. exists x. splits; auto. }
  intros H. destruct (C n) as [K|K]; [contradiction|exact K].
Qed.

Lemma stage_node_ready_mono g s a y : In y (ready s) -> In y (ready (stage_node_gen g s a)).
Proof.
  intros H. unfold stage_node_gen. destruct (mem a (completed s)); auto.
  destruct (state_eqb (status (getrec s a)) INITIALIZED); auto.
  destruct (is_nil (getdeps (deps_prune a s) a)); auto.
  destruct (negb (mem a (ready (deps_prune a s)))); auto.
  cbn. rewrite in_app_iff. left. exact H.
Qed.

Lemma stage_fold_ready_mono g l : forall s y, In y (ready s) -> In y (ready (fold_left (stage_node_gen g) l s)).
Proof. induction l as [|a l IH]; intros s y H; cbn [fold_left]; auto. apply IH. apply stage_node_ready_mono. exact H. Qed.

Lemma filter_nil_all {A} (f : A -> bool) l : (forall z, In z l -> f z = false) -> filter f l = [].
Proof.
  induction l as [|a l IH]; intros H; cbn; auto. rewrite (H a (or_introl eq_refl)). apply IH. intros z Hz. apply H. right. exact Hz.
Qed.

Lemma stage_node_puts g s x : ~ In x (completed s) -> status (getrec s x) = INITIALIZED ->
  incl (getdeps s x) (completed s) -> In x (ready (stage_node_gen g s x)).
Proof.
  intros Hc Hs Hd. unfold stage_node_gen. apply mem_false in Hc. rewrite Hc, Hs. cbn [state_eqb].
  assert (E : getdeps (deps_prune x s) x = []).
  { destruct (Nat.lt_ge_cases x (length (deps s))) as [Hl|Hl].
    - rewrite getdeps_prune_eq by exact Hl. apply filter_nil_all. intros z Hz.
      apply negb_false_iff. apply mem_In. apply Hd. exact Hz.
    - unfold getdeps, deps_prune. cbn. rewrite nth_upd_ge by exact Hl. apply nth_overflow. exact Hl. }
  rewrite E. cbn [is_nil].
  destruct (mem x (ready (deps_prune x s))) eqn:M; cbn [negb].
  - apply mem_In in M. exact M.
  - cbn. rewrite in_app_iff. right. left. reflexivity.
Qed.

Lemma stage_fold_ready g l x : forall s, In x l -> ~ In x (completed s) -> status (getrec s x) = INITIALIZED ->
  incl (getdeps s x) (completed s) -> In x (ready (fold_left (stage_node_gen g) l s)).
Proof.
  induction l as [|a l IH]; intros s Hin Hc Hs Hd; [destruct Hin|]. cbn [fold_left].
  destruct (Nat.eq_dec a x) as [->|Hn].
  - apply stage_fold_ready_mono. apply stage_node_puts; auto.
  - destruct Hin as [Hin|Hin]; [contradiction|].
    destruct (stage_node_frame g s a) as (Fc & _ & _ & _ & Fr & _).
    destruct (stage_astep g s a []) as [A _].
    apply IH; auto.
    + rewrite Fc. exact Hc.
    + unfold getrec. rewrite Fr. exact Hs.
    + rewrite Fc. intros z Hz. apply Hd. eapply as_deps; eauto.
Qed.

Lemma lv_iter_succ_r {A} (f : A -> A) k : forall a, Nat.iter (S k) f a = Nat.iter k f (f a).
Proof.
  induction k as [|k IH]; intros a; [reflexivity|].
  change (Nat.iter (S (S k)) f a) with (f (Nat.iter (S k) f a)). rewrite IH. reflexivity.
Qed.

Lemma launch_strict c g s : Inv g s -> ready s <> [] -> inprog s = [] -> 0 < available_gen c s ->
  exists x, x < length g /\ wt g (launch_state c g s) x < wt g s x.
Proof.
  intros I Hr Hi Ha. unfold launch_state. destruct (available_gen c s) as [|k]; [lia|].
  rewrite lv_iter_succ_r.
  destruct (ready s) as [|x rest] eqn:E; [congruence|].
  destruct (ready_head_facts g s x rest I E) as (Hl & Hc & Hin & _ & Hf & Hca & _).
  destruct (launch_astep c g s x rest E) as (A & O & RS).
  exists x. split; auto.
  eapply Nat.le_lt_trans; [exact (ms_wle g _ [] _ [] (launch_iter_ms c g k (launch_body_gen c g s)) x)|].
  set (s1 := launch_body_gen c g s) in *.
  assert (N : ~ resR s [] x) by (intros [K|[K|[K|[]]]]; auto).
  unfold wt. rewrite (wtR_unres g s [] x N).
  rewrite (stagew_ready s x Hin) by (rewrite E; left; reflexivity).
  destruct (resR_dec s1 [] x) as [K|K]; [rewrite wtR_res by exact K; lia|].
  destruct O as [O|O]; [contradiction|].
  rewrite (wtR_unres g s1 [] x K), (stagew_inprog s1 x O).
  unfold budget. rewrite RS. lia.
Qed.

Theorem poll_phi_lt_idle c g s p : WF g -> Inv g s -> LInv g s -> valid_pin s p = true ->
  inprog s = [] -> completion_gen g s = SRUNNING -> aborts c p = false ->
  Phi g (fst (poll c g s p)) < Phi g s.
Proof.
  intros W I L V Hi Hc Ab.
  apply verdict_running in Hc. destruct Hc as [Nc Nr].
  assert (K : canceled s = false).
  { destruct (canceled s) eqn:K; auto. exfalso. apply Nc. split; auto. }
  (* no reports can be valid *)
  assert (Rp : reports p = []).
  { apply valid_pin_spec in V. destruct V as [_ V]. destruct (reports p) as [|[x o] l]; auto.
    exfalso. specialize (V x o (or_introl eq_refl)). rewrite Hi in V. destruct V. }
  (* a minimal unresolved node *)
  destruct (lv_min_counter (fun x => In x (completed s) \/ In x (failed s) \/ In x (cancelled s))) with (n := length g)
    as (x & Hx & Nx & Mx).
  { intros x. rewrite <- !mem_In. destruct (mem x (completed s)), (mem x (failed s)), (mem x (cancelled s)); intuition congruence. }
  { exact Nr. }
  assert (Par : incl (parents (attr g x)) (completed s)).
  { intros q Hq. pose proof (wf_par_lt g W x q Hx Hq) as Hlt.
    destruct (Mx q Hlt) as [H|H]; auto. exfalso. apply Nx.
    pose proof (wf_par_child g W x q Hx Hq) as Hch.
    assert (S : In q (failed s) \/ In q [] \/ (canceled s = false /\ In q (cancelled s))) by tauto.
    destruct (li_clo g s L q S x Hch) as [F|[F|[]]]; auto. }
  rewrite poll_eq, Ab. cbn [fst].
  set (s2 := pre_state c p s).
  destruct (pre_state_view c p s) as (Vc & Vi & Vr & Vf & Vx & Vd & Vrec & Vk). fold s2 in Vc, Vi, Vr, Vf, Vx, Vd, Vrec, Vk.
  assert (E3 : disp_state c g p s2 = s2).
  { unfold disp_state. rewrite Rp. destruct (dry c); auto. destruct (qcode_eqb (qcode p) QOK); auto. }
  rewrite E3.
  pose proof (pre_state_Inv c g p s I) as I2. fold s2 in I2.
  assert (I4 : Inv g (stage_state g s2)).
  { apply Inv_stage; auto. intros y Hy. apply In_seq_lt in Hy. exact Hy. }
  destruct (stage_fold_frame g (seq 0 (length g)) s2) as (Sc & Si & Sf & Sx & Srec & Sk & _). fold (stage_state g s2) in *.
  assert (Rdy : ready (stage_state g s2) <> []).
  { assert (In x (ready (stage_state g s2))); [|intros Z; rewrite Z in H; destruct H].
    destruct (in_dec Nat.eq_dec x (ready s)) as [Hr|Hr].
    - apply stage_fold_ready_mono. rewrite Vr. exact Hr.
    - apply stage_fold_ready.
      + apply In_seq_lt. exact Hx.
      + rewrite Vc. tauto.
      + unfold getrec. rewrite Vrec.
        destruct (status (getrec s x)) eqn:St; auto; exfalso;
          (assert (Hn : status (getrec s x) <> INITIALIZED) by (rewrite St; discriminate));
          destruct (li_acct g s L x Hn) as [[T|[T|[T|[]]]]|[T|T]]; try tauto; rewrite Hi in T; destruct T.
      + rewrite Vc. unfold getdeps. rewrite Vd. intros z Hz. apply Par. apply (li_deps g s L x z Hz). }
  assert (Av : 0 < available_gen c (stage_state g s2)).
  { unfold available_gen. rewrite Si, Vi, Hi. cbn [length].
    destruct (ready (stage_state g s2)) as [|h t]; [congruence|]. cbn [length].
    destruct (throttle c =? 0) eqn:Z; [lia|]. apply Nat.eqb_neq in Z. lia. }
  destruct (launch_strict c g (stage_state g s2) I4 Rdy) as (h & Hh & Hlt); auto.
  { rewrite Si, Vi. exact Hi. }
  apply (Phi_lt g s _ h); auto.
  - intros y. eapply Nat.le_trans; [apply tail_wle|]. unfold s2. rewrite pre_state_wt. lia.
  - eapply Nat.lt_le_trans; [exact Hlt|].
    eapply Nat.le_trans; [exact (ms_wle g _ [] _ [] (stage_fold_ms g (seq 0 (length g)) s2) h)|]. fold (wt g s2 h). unfold s2. rewrite pre_state_wt. lia.
Qed.

(** * Part G: reachable states, input streams, termination *)

(** states the conductor loop can be in: the initial state, and the state after a
    poll on valid input that returned RUNNING (the loop goes on) *)
Inductive reach_st (c : cfg) (g : graph) : st -> Prop :=
| rs_init : reach_st c g (init g)
| rs_poll s p : reach_st c g s -> valid_pin s p = true -> snd (poll c g s p) = SRUNNING ->
    reach_st c g (fst (poll c g s p)).

Lemma poll_running c g s p : snd (poll c g s p) = SRUNNING ->
  aborts c p = false /\ completion_gen g (fst (poll c g s p)) = SRUNNING.
Proof. rewrite poll_status. destruct (aborts c p); [discriminate|auto]. Qed.

Lemma reach_st_inv c g s : WF g -> reach_st c g s ->
  Inv g s /\ Thr c s /\ LInv g s /\ (s = init g \/ completion_gen g s = SRUNNING).
Proof.
  intros W. induction 1 as [|s p R (I & T & L & _) V E].
  - splits; [apply init_Inv | apply init_Thr | apply init_LInv | left; reflexivity].
  - destruct (poll_Inv c g s p W I T V) as [I' T']. splits; auto.
    + apply poll_LInv; auto.
    + right. apply poll_running. exact E.
Qed.

(** a poll that delivers (query code OK, not a dry run) a terminal report for an in-progress job *)
Definition delivers_terminal (c : cfg) (s : st) (p : pin) : bool :=
  negb (dry c) && qcode_eqb (qcode p) QOK &&
  existsb (fun r => mem (fst r) (inprog s) && match snd r with Some v => terminal v | None => false end) (reports p).
(** a poll that delivers a HWFAILURE report, or a TIMEDOUT report for a step with unlimited restarts *)
Definition noisy_report (g : graph) (r : nat * option State) : bool :=
  match snd r with
  | Some HWFAILURE => true
  | Some TIMEDOUT => has_restart (attr g (fst r)) && (rlimit (attr g (fst r)) =? 0)
  | _ => false
  end.
Definition noisy (c : cfg) (g : graph) (p : pin) : bool :=
  negb (dry c) && qcode_eqb (qcode p) QOK && existsb (noisy_report g) (reports p).

Lemma existsb_false_forall {A} (f : A -> bool) l : existsb f l = false -> forall a, In a l -> f a = false.
Proof.
  intros H a Ha. destruct (f a) eqn:E; auto. assert (existsb f l = true) by (apply existsb_exists; eauto). congruence.
Qed.

Lemma quiet_no_hw c g p : noisy c g p = false -> hw_delivered c p = false.
Proof.
  unfold noisy, hw_delivered. destruct (negb (dry c) && qcode_eqb (qcode p) QOK); cbn [andb]; auto.
  intros H. destruct (existsb is_hw (reports p)) eqn:E; auto.
  apply existsb_exists in E. destruct E as (r & Hr & E). pose proof (existsb_false_forall _ _ H r Hr) as K.
  unfold is_hw in E. unfold noisy_report in K. destruct (snd r) as [[]|]; cbn in E; congruence.
Qed.

Lemma quiet_terminal_productive c g s p : noisy c g p = false -> delivers_terminal c s p = true ->
  productive c g s p = true.
Proof.
  unfold noisy, delivers_terminal, productive. destruct (negb (dry c) && qcode_eqb (qcode p) QOK); cbn [andb]; auto.
  intros H E. apply existsb_exists in E. destruct E as (r & Hr & E). apply existsb_exists. exists r. split; auto.
  apply andb_true_iff in E. destruct E as [E1 E2]. rewrite E1. cbn [andb].
  pose proof (existsb_false_forall _ _ H r Hr) as K. unfold noisy_report in K.
  destruct (snd r) as [v|]; [|discriminate]. destruct v; cbn in *; try discriminate; auto. rewrite K. reflexivity.
Qed.

Section Stream.
Variables (c : cfg) (g : graph) (s0 : st) (ps : nat -> pin).

(** the unfolding of the monitor loop on an infinite input stream (not stopped) *)
Fixpoint state_at (n : nat) : st :=
  match n with 0 => s0 | S n' => fst (poll c g (state_at n') (ps n')) end.
(** the status returned by poll number [n] (counting from 0); the loop stops at
    the first [n] whose status is not RUNNING *)
Definition status_at (n : nat) : SStatus := snd (poll c g (state_at n) (ps n)).
(** the loop is still running when it comes to poll number [n] *)
Definition running_upto (n : nat) : Prop := forall k, k < n -> status_at k = SRUNNING.

(** hypotheses on the stream; each only speaks about polls the loop really gets to *)
Definition valid_stream : Prop := forall n, running_upto n -> valid_pin (state_at n) (ps n) = true.
Definition no_error : Prop := forall n, running_upto n -> aborts c (ps n) = false.
Definition fair : Prop := forall n, running_upto n -> inprog (state_at n) <> [] ->
  exists m, n <= m /\ (running_upto m -> delivers_terminal c (state_at m) (ps m) = true).
Definition quiet_from (N : nat) : Prop := forall m, N <= m -> noisy c g (ps m) = false.
Definition quiet : Prop := exists N, quiet_from N.

Hypothesis W : WF g.
Hypothesis I0 : Inv g s0.
Hypothesis T0 : Thr c s0.
Hypothesis L0 : LInv g s0.
Hypothesis V : valid_stream.

Lemma running_upto_S n : running_upto n -> status_at n = SRUNNING -> running_upto (S n).
Proof. intros R E k Hk. destruct (Nat.eq_dec k n) as [->|]; auto. apply R. lia. Qed.
Lemma running_upto_le n m : m <= n -> running_upto n -> running_upto m.
Proof. intros H R k Hk. apply R. lia. Qed.

Lemma stream_inv n : running_upto n -> Inv g (state_at n) /\ Thr c (state_at n) /\ LInv g (state_at n).
Proof.
  induction n as [|n IH]; intros R; [splits; auto|]. cbn [state_at].
  assert (Rn : running_upto n) by (eapply running_upto_le; [|exact R]; lia).
  destruct (IH Rn) as (I & T & L).
  destruct (poll_Inv c g (state_at n) (ps n) W I T (V n Rn)) as [I' T']. splits; auto.
  apply poll_LInv; auto.
Qed.

Lemma status_dec (r : SStatus) : r = SRUNNING \/ r <> SRUNNING.
Proof. destruct r; auto; right; discriminate. Qed.

Lemma running_dec n : running_upto n \/ exists k, status_at k <> SRUNNING.
Proof.
  induction n as [|n [IH|IH]]; [left; intros k Hk; lia| |right; exact IH].
  destruct (status_dec (status_at n)) as [R|R]; [left; apply running_upto_S; auto|right; eauto].
Qed.

Lemma status_running_next n : status_at n = SRUNNING -> completion_gen g (state_at (S n)) = SRUNNING.
Proof. intros H. unfold status_at in H. apply (poll_running c g) in H. apply H. Qed.

(** the potential never increases on quiet polls *)
Lemma walk N d : quiet_from N -> forall m, N <= m -> running_upto m ->
  (exists n, status_at n <> SRUNNING) \/
  (running_upto (m + d) /\ Phi g (state_at (m + d)) <= Phi g (state_at m) /\
   (completion_gen g (state_at m) = SRUNNING -> completion_gen g (state_at (m + d)) = SRUNNING)).
Proof.
  intros Q. induction d as [|d IH]; intros m Hm Rm.
  - right. rewrite Nat.add_0_r. splits; auto.
  - destruct (IH m Hm Rm) as [E|(R' & P & C)]; [left; exact E|].
    destruct (status_dec (status_at (m + d))) as [R|R]; [|left; eauto].
    right. replace (m + S d) with (S (m + d)) by lia. splits.
    + apply running_upto_S; auto.
    + cbn [state_at]. eapply Nat.le_trans; [|exact P]. apply poll_phi_le. apply (quiet_no_hw c g). apply Q. lia.
    + intros _. apply status_running_next. exact R.
Qed.

Theorem terminates_from N : quiet_from N -> no_error -> fair ->
  forall k m, N <= m -> running_upto m -> completion_gen g (state_at m) = SRUNNING -> Phi g (state_at m) <= k ->
  exists n, status_at n <> SRUNNING.
Proof.
  intros Q NE F. induction k as [|k IH]; intros m Hm Rm C P.
  - (* potential 0 while RUNNING is impossible: the next productive poll would decrease it *)
    destruct (stream_inv m Rm) as (I & T & L).
    destruct (inprog (state_at m)) as [|a l] eqn:Ei.
    + pose proof (poll_phi_lt_idle c g (state_at m) (ps m) W I L (V m Rm) Ei C (NE m Rm)). lia.
    + destruct (F m Rm) as (m' & Hle & D); [rewrite Ei; discriminate|].
      destruct (walk N (m' - m) Q m Hm Rm) as [E|(R' & P' & _)]; [exact E|].
      replace (m + (m' - m)) with m' in R', P' by lia.
      destruct (stream_inv m' R') as (I' & _ & _).
      assert (Q' : noisy c g (ps m') = false) by (apply Q; lia).
      pose proof (poll_phi_lt_report c g (state_at m') (ps m') I' (quiet_no_hw _ _ _ Q')
                    (quiet_terminal_productive _ _ _ _ Q' (D R'))). lia.
  - destruct (stream_inv m Rm) as (I & T & L).
    destruct (inprog (state_at m)) as [|a l] eqn:Ei.
    + pose proof (poll_phi_lt_idle c g (state_at m) (ps m) W I L (V m Rm) Ei C (NE m Rm)) as Lt.
      destruct (status_dec (status_at m)) as [R|R]; [|eauto].
      apply (IH (S m)); [lia | apply running_upto_S; auto | apply status_running_next; exact R | cbn [state_at]; lia].
    + destruct (F m Rm) as (m' & Hle & D); [rewrite Ei; discriminate|].
      destruct (walk N (m' - m) Q m Hm Rm) as [E|(R' & P' & C')]; [exact E|].
      replace (m + (m' - m)) with m' in R', P', C' by lia.
      destruct (stream_inv m' R') as (I' & _ & _).
      assert (Q' : noisy c g (ps m') = false) by (apply Q; lia).
      pose proof (poll_phi_lt_report c g (state_at m') (ps m') I' (quiet_no_hw _ _ _ Q')
                    (quiet_terminal_productive _ _ _ _ Q' (D R'))) as Lt.
      destruct (status_dec (status_at m')) as [R|R]; [|eauto].
      apply (IH (S m')); [lia | apply running_upto_S; auto | apply status_running_next; exact R | cbn [state_at]; lia].
Qed.

Theorem terminates : no_error -> fair -> quiet -> exists n, status_at n <> SRUNNING.
Proof.
  intros NE F [N Q].
  destruct (running_dec (S N)) as [R|E]; [|exact E].
  apply (terminates_from N Q NE F (Phi g (state_at (S N))) (S N)); [lia | exact R | | lia].
  apply status_running_next. apply R. lia.
Qed.

(** quantitative form: while the loop runs on quiet input, every productive poll
    (idle, or delivering a terminal report) uses up at least one unit of potential *)
Definition productive_poll (n : nat) : bool :=
  is_nil (inprog (state_at n)) || delivers_terminal c (state_at n) (ps n).
Fixpoint count_productive (n : nat) : nat :=
  match n with 0 => 0 | S n' => count_productive n' + (if productive_poll n' then 1 else 0) end.

Theorem productive_bound n : completion_gen g s0 = SRUNNING -> no_error ->
  (forall m, m < n -> noisy c g (ps m) = false /\ status_at m = SRUNNING) ->
  count_productive n + Phi g (state_at n) <= Phi g s0.
Proof.
  intros C0 NE. induction n as [|n IH]; intros H; [cbn; lia|].
  assert (IHn : count_productive n + Phi g (state_at n) <= Phi g s0) by (apply IH; intros; apply H; lia).
  destruct (H n (Nat.lt_succ_diag_r n)) as [Qn Rn].
  assert (Ru : running_upto n) by (intros k Hk; apply H; lia).
  assert (Cn : completion_gen g (state_at n) = SRUNNING).
  { destruct n as [|n']; [exact C0|]. apply status_running_next. apply H. lia. }
  destruct (stream_inv n Ru) as (I & T & L).
  cbn [count_productive state_at].
  pose proof (poll_phi_le c g (state_at n) (ps n) (quiet_no_hw _ _ _ Qn)) as Le.
  destruct (productive_poll n) eqn:Pn; [|lia].
  unfold productive_poll in Pn. apply orb_true_iff in Pn. destruct Pn as [Pn|Pn].
  - apply is_nil_true in Pn.
    pose proof (poll_phi_lt_idle c g (state_at n) (ps n) W I L (V n Ru) Pn Cn (NE n Ru)). lia.
  - pose proof (poll_phi_lt_report c g (state_at n) (ps n) I (quiet_no_hw _ _ _ Qn)
                  (quiet_terminal_productive _ _ _ _ Qn Pn)). lia.
Qed.

End Stream.

(** a closed bound on the potential: 3 per instance plus its finite restart limit *)
Lemma wt_bound g s x : wt g s x <= 3 + rlimit (attr g x).
Proof.
  unfold wt, wtR. destruct (resolvedb s x || mem x []); [lia|].
  pose proof (stagew_le3 s x). unfold budget. destruct (has_restart (attr g x) && negb (rlimit (attr g x) =? 0)); lia.
Qed.
Theorem Phi_bound g s : Phi g s <= sumf (fun x => 3 + rlimit (attr g x)) (seq 0 (length g)).
Proof. apply sumf_le. intros x _. apply wt_bound. Qed.

(** the unstopped stream agrees with [run_states] as long as the loop runs *)
Lemma state_at_shift c g s0 ps k :
  state_at c g s0 ps (S k) = state_at c g (fst (poll c g s0 (ps 0))) (fun i => ps (S i)) k.
Proof. induction k as [|k IH]; [reflexivity|]. cbn [state_at] in *. rewrite IH. reflexivity. Qed.

Lemma status_at_shift c g s0 ps k :
  status_at c g s0 ps (S k) = status_at c g (fst (poll c g s0 (ps 0))) (fun i => ps (S i)) k.
Proof. unfold status_at. rewrite state_at_shift. reflexivity. Qed.

Theorem run_states_stream c g : forall n s0 ps,
  (forall k, k < n -> status_at c g s0 ps k = SRUNNING) ->
  run_states c g s0 (map ps (seq 0 (S n))) =
  map (fun k => (state_at c g s0 ps (S k), status_at c g s0 ps k)) (seq 0 (S n)).
Proof.
  induction n as [|n IH]; intros s0 ps H.
  - cbn [seq map run_states]. unfold status_at. cbn [state_at].
    destruct (poll c g s0 (ps 0)) as [s1 r]. cbn [fst snd]. destruct r; reflexivity.
  - change (seq 0 (S (S n))) with (0 :: seq 1 (S n)). rewrite <- seq_shift, !map_cons, !map_map.
    cbn [run_states]. pose proof (H 0 (Nat.lt_0_succ n)) as R0. unfold status_at in R0. cbn [state_at] in R0.
    destruct (poll c g s0 (ps 0)) as [s1 r] eqn:E. cbn [fst snd] in *. subst r. f_equal.
    { unfold status_at. cbn [state_at]. rewrite E. reflexivity. }
    rewrite (IH s1 (fun i => ps (S i))).
    + apply map_ext. intros k. rewrite (state_at_shift c g s0 ps (S k)), (status_at_shift c g s0 ps k), E. reflexivity.
    + intros k Hk. specialize (H (S k) (proj1 (Nat.succ_lt_mono k n) Hk)). rewrite status_at_shift, E in H. exact H.
Qed.

(** * Part H: a concrete fair and (eventually) quiet history -- the hypotheses of
    the termination theorem are satisfiable *)
Definition ex_g : graph :=
  [ {| parents := []; children := [1]; scheduled := true; has_restart := true; rlimit := 1 |};
    {| parents := [0]; children := []; scheduled := true; has_restart := false; rlimit := 0 |} ].
Definition ex_c : cfg := {| throttle := 1; attempts := 1; dry := false |}.
Definition ex_pin (reps : list (nat * option State)) : pin :=
  {| cancel_req := false; qcode := QOK; reports := reps; psubs := [true] |}.
(** submit 0; hardware failure of 0 (re-queued and resubmitted); 0 times out (restart 1 of 1);
    0 finishes (1 is submitted); 1 finishes; afterwards the scheduler has nothing to say *)
Definition ex_ps (n : nat) : pin :=
  match n with
  | 0 => ex_pin []
  | 1 => ex_pin [(0, Some HWFAILURE)]
  | 2 => ex_pin [(0, Some TIMEDOUT)]
  | 3 => ex_pin [(0, Some FINISHED)]
  | 4 => ex_pin [(1, Some FINISHED)]
  | _ => ex_pin []
  end.
Notation ex_state := (state_at ex_c ex_g (init ex_g) ex_ps).

Lemma ex_wf : WF ex_g.
Proof. apply wf_graph_WF. vm_compute. reflexivity. Qed.

Lemma ex_fix : fst (poll ex_c ex_g (ex_state 6) (ex_pin [])) = ex_state 6.
Proof. vm_compute. reflexivity. Qed.

Lemma state_at_S c g s ps n : state_at c g s ps (S n) = fst (poll c g (state_at c g s ps n) (ps n)).
Proof. reflexivity. Qed.

Lemma ex_ps_tail n : ex_ps (6 + n) = ex_pin [].
Proof. reflexivity. Qed.

Lemma ex_tail n : ex_state (6 + n) = ex_state 6 /\ ex_ps (6 + n) = ex_pin [].
Proof.
  split; [|apply ex_ps_tail]. induction n as [|n IH]; [reflexivity|].
  replace (6 + S n) with (S (6 + n)) by lia.
  rewrite state_at_S, IH, ex_ps_tail. exact ex_fix.
Qed.

Ltac ex_cases n := destruct n as [|[|[|[|[|[|n]]]]]];
  [| | | | | | change (S (S (S (S (S (S n)))))) with (6 + n) in * ].

Lemma ex_valid_all n : valid_pin (ex_state n) (ex_ps n) = true.
Proof.
  ex_cases n; [vm_compute; reflexivity ..|].
  destruct (ex_tail n) as [E1 E2]. rewrite E1, E2. vm_compute. reflexivity.
Qed.
Lemma ex_no_error_all n : aborts ex_c (ex_ps n) = false.
Proof. ex_cases n; [reflexivity ..|]. destruct (ex_tail n) as [_ E2]. rewrite E2. reflexivity. Qed.
Lemma ex_fair_all n : inprog (ex_state n) <> [] ->
  exists m, n <= m /\ delivers_terminal ex_c (ex_state m) (ex_ps m) = true.
Proof.
  ex_cases n; intros H.
  - exfalso. apply H. vm_compute. reflexivity.
  - exists 1. split; [lia|vm_compute; reflexivity].
  - exists 2. split; [lia|vm_compute; reflexivity].
  - exists 3. split; [lia|vm_compute; reflexivity].
  - exists 4. split; [lia|vm_compute; reflexivity].
  - exfalso. apply H. vm_compute. reflexivity.
  - exfalso. apply H. destruct (ex_tail n) as [E1 _]. rewrite E1. vm_compute. reflexivity.
Qed.
Lemma ex_valid : valid_stream ex_c ex_g (init ex_g) ex_ps.
Proof. intros n _. apply ex_valid_all. Qed.
Lemma ex_no_error : no_error ex_c ex_g (init ex_g) ex_ps.
Proof. intros n _. apply ex_no_error_all. Qed.
Lemma ex_fair : fair ex_c ex_g (init ex_g) ex_ps.
Proof. intros n _ H. destruct (ex_fair_all n H) as (m & A & B). exists m. split; auto. Qed.
Lemma ex_quiet : quiet ex_c ex_g ex_ps.
Proof.
  exists 2. intros m Hm. ex_cases m; [lia | lia | reflexivity ..|].
  destruct (ex_tail m) as [_ E2]. rewrite E2. reflexivity.
Qed.
Lemma ex_not_quiet_before : noisy ex_c ex_g (ex_ps 1) = true.
Proof. reflexivity. Qed.
Lemma ex_statuses :
  map (status_at ex_c ex_g (init ex_g) ex_ps) (seq 0 5) = [SRUNNING; SRUNNING; SRUNNING; SRUNNING; SFINISHED] /\
  map (fun n => Phi ex_g (ex_state n)) (seq 0 6) = [7; 5; 5; 4; 1; 0].
Proof. vm_compute. split; reflexivity. Qed.

(** * Part I: the statements for reachable states *)
Theorem terminates_reachable c g s ps : WF g -> reach_st c g s ->
  valid_stream c g s ps -> no_error c g s ps -> fair c g s ps -> quiet c g ps ->
  exists n, status_at c g s ps n <> SRUNNING.
Proof.
  intros W R V NE F Q. destruct (reach_st_inv c g s W R) as (I & T & L & _).
  eapply terminates; eauto.
Qed.

Theorem productive_bound_reachable c g s ps n : WF g -> reach_st c g s -> completion_gen g s = SRUNNING ->
  valid_stream c g s ps -> no_error c g s ps ->
  (forall m, m < n -> noisy c g (ps m) = false /\ status_at c g s ps m = SRUNNING) ->
  count_productive c g s ps n + Phi g (state_at c g s ps n) <= Phi g s.
Proof.
  intros W R C V NE H. destruct (reach_st_inv c g s W R) as (I & T & L & _).
  eapply productive_bound; eauto.
Qed.

Theorem no_deadlock_reachable c g s p : WF g -> reach_st c g s -> valid_pin s p = true ->
  inprog s = [] -> completion_gen g s = SRUNNING -> aborts c p = false ->
  Phi g (fst (poll c g s p)) < Phi g s.
Proof.
  intros W R V Hi C A. destruct (reach_st_inv c g s W R) as (I & T & L & _).
  apply poll_phi_lt_idle; auto.
Qed.

Theorem phi_decreases_reachable c g s p : WF g -> reach_st c g s -> valid_pin s p = true -> noisy c g p = false ->
  Phi g (fst (poll c g s p)) <= Phi g s /\
  (delivers_terminal c s p = true -> Phi g (fst (poll c g s p)) < Phi g s) /\
  (inprog s = [] -> completion_gen g s = SRUNNING -> aborts c p = false -> Phi g (fst (poll c g s p)) < Phi g s).
Proof.
  intros W R V Q. destruct (reach_st_inv c g s W R) as (I & T & L & _). splits.
  - apply poll_phi_le. eapply quiet_no_hw; eauto.
  - intros D. apply poll_phi_lt_report; auto; [eapply quiet_no_hw; eauto | eapply quiet_terminal_productive; eauto].
  - intros. apply poll_phi_lt_idle; auto.
Qed.

Lemma ex_reach : reach_st ex_c ex_g (init ex_g).
Proof. constructor. Qed.

Lemma ex_terminates : exists n, status_at ex_c ex_g (init ex_g) ex_ps n <> SRUNNING.
Proof. exact (terminates_reachable ex_c ex_g (init ex_g) ex_ps ex_wf ex_reach ex_valid ex_no_error ex_fair ex_quiet). Qed.

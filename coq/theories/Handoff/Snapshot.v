(** C18, second half: the execution-graph snapshot and the status file written
    by one iteration of Conductor.monitor_study (maestrowf/conductor.py).

    The loop body is modelled as DATA -- the sequence of its calls, in source
    order, classified by what they do to the ExecutionGraph -- interpreted over
    the Exec model.  The harness (harness/props/c18.py) extracts the actual
    sequence from the source text of conductor.py with `ast` on every run and
    evaluates [body_ok] on it inside Coq; [the_body] is the sequence the
    current source has.

        while completion_status == StudyStatus.RUNNING:
            if os.path.exists(cancel_lock_path): ... dag.cancel_study() ...   MOther.. MCancel MOther..
            completion_status = dag.execute_ready_steps()                     MExec
            dag.pickle(pkl_path)                                              MPickle
            dag.write_status(os.path.split(pkl_path)[0])                      MStatus
            if completion_status == StudyStatus.RUNNING: sleep(sleep_time)    MOther
*)
From MWF Require Import Exec.ExecBase Exec.ExecGen Exec.ExecRun.

Inductive maction :=
| MCancel     (* dag.cancel_study(), guarded by the presence of the cancel lock *)
| MExec       (* completion_status = dag.execute_ready_steps() *)
| MPickle     (* dag.pickle(pkl_path): the snapshot *)
| MStatus     (* dag.write_status(dir): status.csv *)
| MMutate     (* any other call on the graph object: may change it arbitrarily *)
| MOther.     (* calls that do not touch the graph: logging, os.*, FileLock, sleep *)

(** the graph state, the status returned by the last execute_ready_steps, and
    the two files (None = not written in this iteration) *)
Record mstate := mkM { m_st : st; m_ret : SStatus; m_pkl : option st; m_csv : option (list row) }.

Definition act (mu : st -> st) (c : cfg) (g : graph) (p : pin) (m : mstate) (a : maction) : mstate :=
  match a with
  | MCancel => if cancel_req p then mkM (cancel_study_gen (m_st m)) (m_ret m) (m_pkl m) (m_csv m) else m
  | MExec => let '(s1, r) := execute_ready_steps_gen c g p (m_st m) in mkM s1 r (m_pkl m) (m_csv m)
  | MPickle => mkM (m_st m) (m_ret m) (Some (m_st m)) (m_csv m)
  | MStatus => mkM (m_st m) (m_ret m) (m_pkl m) (Some (rows_of (m_st m)))
  | MMutate => mkM (mu (m_st m)) (m_ret m) (m_pkl m) (m_csv m)
  | MOther => m
  end.

(** one loop iteration: the poll's scripted submission outcomes are loaded and
    the event log emptied exactly as [ExecRun.poll] does *)
Definition iter (mu : st -> st) (c : cfg) (g : graph) (body : list maction) (s : st) (p : pin) : mstate :=
  fold_left (act mu c g p) body (mkM (set_evs (set_subs s (psubs p)) []) SRUNNING None None).

Fixpoint monitor (mu : st -> st) (c : cfg) (g : graph) (body : list maction) (s : st) (ps : list pin)
  : list mstate :=
  match ps with
  | [] => []
  | p :: ps' =>
    let m := iter mu c g body s p in
    match m_ret m with
    | SRUNNING => m :: monitor mu c g body (m_st m) ps'
    | _ => [m]
    end
  end.

(** the structural obligation on a loop body: after the last call that can
    change the graph, both files are (re)written *)
Fixpoint body_ok_from (pk cs : bool) (b : list maction) : bool :=
  match b with
  | [] => pk && cs
  | MPickle :: r => body_ok_from true cs r
  | MStatus :: r => body_ok_from pk true r
  | MOther :: r => body_ok_from pk cs r
  | _ :: r => body_ok_from false false r
  end.
Definition body_ok (b : list maction) : bool := body_ok_from false false b.

(** exactly one execute_ready_steps per iteration, preceded only by the cancel
    (the shape under which an iteration is a [poll] of the Exec model) *)
Fixpoint drop_other (b : list maction) : list maction :=
  match b with
  | [] => []
  | MOther :: r => drop_other r
  | a :: r => a :: drop_other r
  end.
Definition maction_eqb (a b : maction) : bool :=
  match a, b with
  | MCancel, MCancel | MExec, MExec | MPickle, MPickle | MStatus, MStatus
  | MMutate, MMutate | MOther, MOther => true
  | _, _ => false
  end.
Fixpoint macts_eqb (a b : list maction) : bool :=
  match a, b with
  | [], [] => true
  | x :: a', y :: b' => maction_eqb x y && macts_eqb a' b'
  | _, _ => false
  end.

Definition the_body : list maction :=
  [MOther; MOther; MOther; MCancel; MOther; MOther; MOther; MOther; MOther; MOther; MExec; MPickle; MOther; MStatus; MOther].
Definition core_body : list maction := [MCancel; MExec; MPickle; MStatus].
(** a body is a poll followed by the two writes (any order), up to graph-neutral calls *)
Definition body_is_poll (b : list maction) : bool :=
  macts_eqb (drop_other b) core_body || macts_eqb (drop_other b) [MCancel; MExec; MStatus; MPickle].

(** what the harness evaluates on the sequence extracted from conductor.py *)
Definition c18_body_case (b : list maction) : bool := body_ok b && body_is_poll b.

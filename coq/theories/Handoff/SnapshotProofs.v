(** Proofs for Handoff/Snapshot.v *)
From Coq Require Import Lia.
From MWF Require Import Exec.ExecBase Exec.ExecGen Exec.ExecRun Handoff.Snapshot.

Definition files_current (pk cs : bool) (m : mstate) : Prop :=
  (pk = true -> m_pkl m = Some (m_st m)) /\ (cs = true -> m_csv m = Some (rows_of (m_st m))).

Lemma body_ok_from_sound mu c g p b : forall pk cs m,
  body_ok_from pk cs b = true -> files_current pk cs m ->
  files_current true true (fold_left (act mu c g p) b m).
Proof.
  induction b as [|a b IH]; intros pk cs m H F; cbn in *.
  - apply andb_true_iff in H. destruct H as [-> ->]. exact F.
  - destruct F as [F1 F2].
    destruct a; cbn.
    + (* MCancel *) apply (IH false false); [exact H|]. split; discriminate.
    + (* MExec *) apply (IH false false); [exact H|]. split; discriminate.
    + (* MPickle *) apply (IH true cs); [exact H|]. split; cbn; auto.
    + (* MStatus *) apply (IH pk true); [exact H|]. split; cbn; auto.
    + (* MMutate *) apply (IH false false); [exact H|]. split; discriminate.
    + (* MOther *) apply (IH pk cs); [exact H|]. split; auto.
Qed.

Lemma iter_files mu c g b s p :
  body_ok b = true ->
  let m := iter mu c g b s p in
  m_pkl m = Some (m_st m) /\ m_csv m = Some (rows_of (m_st m)).
Proof.
  intros H. cbn zeta. unfold iter.
  destruct (body_ok_from_sound mu c g p b false false
              (mkM (set_evs (set_subs s (psubs p)) []) SRUNNING None None) H) as [A B].
  - split; discriminate.
  - split; [apply A | apply B]; reflexivity.
Qed.

(** graph-neutral calls do not matter *)
Lemma fold_drop_other mu c g p b : forall m,
  fold_left (act mu c g p) b m = fold_left (act mu c g p) (drop_other b) m.
Proof.
  induction b as [|a b IH]; intros m; cbn; [reflexivity|].
  destruct a; cbn; apply IH.
Qed.

Lemma maction_eqb_eq a b : maction_eqb a b = true -> a = b.
Proof. destruct a, b; cbn; intros; congruence. Qed.
Lemma macts_eqb_eq a : forall b, macts_eqb a b = true -> a = b.
Proof.
  induction a as [|x a IH]; intros [|y b] H; cbn in H; try discriminate; [reflexivity|].
  apply andb_true_iff in H. destruct H as [H1 H2].
  apply maction_eqb_eq in H1. apply IH in H2. congruence.
Qed.

(** an iteration of a poll-shaped body computes the Exec model's [poll] *)
Lemma iter_is_poll mu c g b s p :
  body_is_poll b = true ->
  let m := iter mu c g b s p in (m_st m, m_ret m) = poll c g s p.
Proof.
  intros H. cbn zeta. unfold iter. rewrite fold_drop_other.
  unfold body_is_poll in H. apply orb_true_iff in H.
  unfold poll.
  destruct H as [H|H]; apply macts_eqb_eq in H; rewrite H; cbn;
    destruct (cancel_req p); cbn;
    match goal with |- context [execute_ready_steps_gen c g p ?x] =>
      destruct (execute_ready_steps_gen c g p x) as [s1 r] end; reflexivity.
Qed.

Theorem monitor_run_states mu c g b : body_is_poll b = true ->
  forall ps s, map (fun m => (m_st m, m_ret m)) (monitor mu c g b s ps) = run_states c g s ps.
Proof.
  intros H. induction ps as [|p ps IH]; intros s; cbn; [reflexivity|].
  pose proof (iter_is_poll mu c g b s p H) as E. cbn zeta in E.
  destruct (poll c g s p) as [s1 r] eqn:P.
  inversion E as [[E1 E2]].
  rewrite E2. destruct r; cbn; rewrite ?E1, ?E2; try reflexivity.
  f_equal. rewrite <- E1 at 1. rewrite IH. rewrite E1. reflexivity.
Qed.

Theorem monitor_files mu c g b : body_ok b = true ->
  forall ps s, Forall (fun m => m_pkl m = Some (m_st m) /\ m_csv m = Some (rows_of (m_st m)))
                      (monitor mu c g b s ps).
Proof.
  intros H. induction ps as [|p ps IH]; intros s; cbn; [constructor|].
  pose proof (iter_files mu c g b s p H) as F. cbn zeta in F.
  destruct (m_ret (iter mu c g b s p)).
  all: try (constructor; [exact F | constructor]).
  constructor; [exact F | apply IH].
Qed.

Lemma the_body_ok : c18_body_case the_body = true.
Proof. vm_compute. reflexivity. Qed.

(** the snapshot written in the k-th iteration holds the k-th reachable state of
    the Exec model and the status file written in the same iteration holds that
    state's rows *)
Theorem snapshot_eq_status mu c g s ps :
  let ms := monitor mu c g the_body s ps in
  map (fun m => (m_st m, m_ret m)) ms = run_states c g s ps /\
  Forall (fun m => exists sk, m_pkl m = Some sk /\ m_csv m = Some (rows_of sk) /\ sk = m_st m) ms.
Proof.
  pose proof the_body_ok as H. unfold c18_body_case in H. apply andb_true_iff in H. destruct H as [H1 H2].
  cbn zeta. split.
  - apply monitor_run_states. exact H2.
  - eapply Forall_impl; [|apply (monitor_files mu c g the_body H1)].
    intros m [A B]. exists (m_st m). auto.
Qed.

(** corollary on the observable rows: what `status.csv` shows after poll k is
    what a reader of the snapshot of poll k computes *)
Theorem snapshot_rows mu c g b s ps :
  c18_body_case b = true ->
  Forall (fun m => option_map rows_of (m_pkl m) = m_csv m) (monitor mu c g b s ps).
Proof.
  intros H. unfold c18_body_case in H. apply andb_true_iff in H. destruct H as [H1 _].
  eapply Forall_impl; [|apply (monitor_files mu c g b H1)].
  intros m [A B]. rewrite A, B. reflexivity.
Qed.

Theorem snapshot_rows_any_body mu c g b s ps :
  c18_body_case b = true ->
  Forall (fun m => option_map rows_of (m_pkl m) = m_csv m) (monitor mu c g b s ps) /\
  map (fun m => (m_st m, m_ret m)) (monitor mu c g b s ps) = run_states c g s ps.
Proof.
  intros H. split.
  - exact (snapshot_rows mu c g b s ps H).
  - unfold c18_body_case in H. apply andb_true_iff in H. destruct H as [_ H].
    exact (monitor_run_states mu c g b H ps s).
Qed.

(** a body that changes the graph between the two writes is rejected, and for a
    good reason: the files can then differ *)
Lemma bad_body_rejected : body_ok [MCancel; MExec; MPickle; MMutate; MStatus] = false.
Proof. reflexivity. Qed.

(** ---- witnesses for the non-vacuity examples of Props/C18.v --------------- *)
Definition ex_g : graph :=
  [ {| parents := []; children := [1]; scheduled := true; has_restart := false; rlimit := 0 |};
    {| parents := [0]; children := []; scheduled := false; has_restart := false; rlimit := 0 |} ].
Definition ex_cfg : cfg := {| throttle := 0; attempts := 1; dry := false |}.
Definition ex_pins : list pin :=
  [ {| cancel_req := false; qcode := QOK; reports := []; psubs := [true] |};
    {| cancel_req := false; qcode := QOK; reports := [(0, Some RUNNING)]; psubs := [] |};
    {| cancel_req := false; qcode := QOK; reports := [(0, Some FINISHED)]; psubs := [] |};
    {| cancel_req := false; qcode := QOK; reports := []; psubs := [true] |} ].
Definition ex_monitor : list mstate := monitor (fun s => s) ex_cfg ex_g the_body (init ex_g) ex_pins.

(** C18, first half: the hand-off of the study from `maestro run` to the
    conductor, as DATA.

    [D] is the pre-staging study data: exactly what the Expand model's [stage]
    consumes (output root, restart limit, parameter table, steps after
    environment application -- an [Expand.spec]) plus the execution
    configuration ([configure_study]) and the batch block ([batch.info]).
    `maestro run` builds a [D], stores it ([Conductor.store_study] /
    [store_batch]), and either stages it itself (-fg) or launches a conductor
    process that loads it and stages it.  The two processes differ in
    everything the model calls an order oracle (PYTHONHASHSEED: the iteration
    order of every set).

    The run_study body is modelled as the sequence of its hand-off relevant
    calls, extracted from maestro.py with `ast` by harness/props/c18.py on
    every run and judged by [handoff_ok]. *)
From MWF Require Import Base.Str Base.Util Expand.PyStr Expand.Expand.

Record D := mkD { d_spec : spec;
                  d_throttle : nat; d_attempts : nat; d_dry : bool;
                  d_batch : list (str * str) }.

(** what a process that holds a [D] hands to the monitor loop: the staged
    execution graph (as observed: instances in order, edges, commands,
    workspaces, limits, parameters), the configuration copied into the
    ExecutionGraph, and the adapter block *)
Definition staged := (result obs * (nat * nat * bool) * list (str * str))%type.
Definition stage_of (pi : an_oracle) (d : D) : staged :=
  (observe_result (stage_c pi (d_spec d)), (d_throttle d, d_attempts d, d_dry d), d_batch d).

(** the conductor side: load what was stored, stage it (own oracle) *)
Definition via_conductor {B : Type} (store : D -> B) (load : B -> option D) (pi : an_oracle) (d : D)
  : option staged :=
  option_map (stage_of pi) (load (store d)).

(** ---- the order of the hand-off calls in run_study ----------------------- *)
Inductive haction :=
| HStoreStudy   (* Conductor.store_study(study) *)
| HStoreBatch   (* Conductor.store_batch(study.output_path, batch) *)
| HStage        (* Conductor(study).initialize(...): stages the in-memory study (and thereby changes it) *)
| HLaunch       (* start_process("nohup conductor ..."): a fresh process loads what is stored and stages it *)
| HMutate       (* any other call on the study object: may change it arbitrarily *)
| HOther.

(** state of run_study: the study data in memory, what is on disk, the graphs
    staged in this process, what each launched conductor will find *)
Record hstate := mkH { h_cur : D; h_disk : option D; h_batch_disk : bool;
                       h_staged : list staged; h_launched : list (option D * bool) }.

Definition hact (mu smu : D -> D) (pi : an_oracle) (h : hstate) (a : haction) : hstate :=
  match a with
  | HStoreStudy => mkH (h_cur h) (Some (h_cur h)) (h_batch_disk h) (h_staged h) (h_launched h)
  | HStoreBatch => mkH (h_cur h) (h_disk h) true (h_staged h) (h_launched h)
  | HStage => mkH (smu (h_cur h)) (h_disk h) (h_batch_disk h) (stage_of pi (h_cur h) :: h_staged h) (h_launched h)
  | HLaunch => mkH (h_cur h) (h_disk h) (h_batch_disk h) (h_staged h) ((h_disk h, h_batch_disk h) :: h_launched h)
  | HMutate => mkH (mu (h_cur h)) (h_disk h) (h_batch_disk h) (h_staged h) (h_launched h)
  | HOther => h
  end.

Definition hrun (mu smu : D -> D) (pi : an_oracle) (acts : list haction) (d : D) : hstate :=
  fold_left (hact mu smu pi) acts (mkH d None false [] []).

(** the structural obligation, a three-phase automaton:
    [PFresh]  nothing stored yet: the study may still be changed, it may not be staged or handed on;
    [PStored] the study is on disk and the object in memory still equals it: no change allowed,
              launches allowed (after the batch block is on disk too), one staging allowed;
    [PStaged] the in-memory study has been staged (staging changes the object): it may not be stored
              or staged again; launches read the disk and stay allowed. *)
Inductive phase := PFresh | PStored | PStaged.

Fixpoint handoff_ok_from (ph : phase) (batch : bool) (acts : list haction) : bool :=
  match acts with
  | [] => true
  | a :: r =>
    match ph, a with
    | _, HOther => handoff_ok_from ph batch r
    | _, HStoreBatch => handoff_ok_from ph true r
    | PFresh, HStoreStudy => handoff_ok_from PStored batch r
    | PFresh, HMutate => handoff_ok_from PFresh batch r
    | PFresh, _ => false
    | PStored, HStage => batch && handoff_ok_from PStaged batch r
    | PStored, HLaunch => batch && handoff_ok_from PStored batch r
    | PStored, _ => false
    | PStaged, HLaunch => batch && handoff_ok_from PStaged batch r
    | PStaged, HMutate => handoff_ok_from PStaged batch r
    | PStaged, _ => false
    end
  end.
Definition handoff_ok (acts : list haction) : bool := handoff_ok_from PFresh false acts.

(** run_study as it is now: the two paths through `if args.fg` *)
Definition the_handoff_fg : list haction := [HMutate; HMutate; HMutate; HStoreStudy; HStoreBatch; HStage; HMutate; HMutate].
Definition the_handoff_detached : list haction := [HMutate; HMutate; HMutate; HStoreStudy; HStoreBatch; HLaunch].

(** what the harness evaluates on every path extracted from maestro.py *)
Definition c18_handoff_case (acts : list haction) : bool := handoff_ok acts.

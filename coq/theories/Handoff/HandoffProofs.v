(** Proofs for Handoff/Handoff.v *)
From Coq Require Import Permutation.
From MWF Require Import Base.Str Base.Util Expand.PyStr Expand.Expand Expand.ExpandProofs Handoff.Handoff.

(** staging is a function of D alone: the same D staged by two processes with
    different set-iteration orders gives the same observable graph *)
Lemma stage_of_order_free pi pi' d : perm_oracle pi -> perm_oracle pi' -> stage_of pi d = stage_of pi' d.
Proof.
  intros Hp Hp'. unfold stage_of, stage_c.
  rewrite (stage_order_free apply_row sanitize pi pi' (d_spec d) Hp Hp'). reflexivity.
Qed.

Theorem stage_function (B : Type) (store : D -> B) (load : B -> option D) pi pi' d :
  perm_oracle pi -> perm_oracle pi' ->
  load (store d) = Some d ->
  via_conductor store load pi' d = Some (stage_of pi d).
Proof.
  intros Hp Hp' RT. unfold via_conductor. rewrite RT. cbn.
  f_equal. apply stage_of_order_free; assumption.
Qed.

(** the premise can be weakened to the fields [stage_of] reads *)
Theorem stage_fieldwise pi pi' d d' :
  perm_oracle pi -> perm_oracle pi' ->
  d_spec d' = d_spec d -> d_throttle d' = d_throttle d -> d_attempts d' = d_attempts d ->
  d_dry d' = d_dry d -> d_batch d' = d_batch d ->
  stage_of pi' d' = stage_of pi d.
Proof.
  intros Hp Hp' E1 E2 E3 E4 E5. rewrite (stage_of_order_free pi' pi d' Hp' Hp).
  unfold stage_of. rewrite E1, E2, E3, E4, E5. reflexivity.
Qed.


(** ---- order of the hand-off calls --------------------------------------- *)
Definition all_from (pi : an_oracle) (ds : D) (h : hstate) : Prop :=
  Forall (fun g => g = stage_of pi ds) (h_staged h) /\
  Forall (fun l => l = (Some ds, true)) (h_launched h).

Definition hinv (pi : an_oracle) (ph : phase) (batch : bool) (h : hstate) : Prop :=
  (batch = true -> h_batch_disk h = true) /\
  match ph with
  | PFresh => h_disk h = None /\ h_staged h = [] /\ h_launched h = []
  | PStored => exists ds, h_disk h = Some ds /\ h_cur h = ds /\ all_from pi ds h
  | PStaged => exists ds, h_disk h = Some ds /\ all_from pi ds h
  end.

Lemma handoff_inv mu smu pi acts : forall ph batch h,
  handoff_ok_from ph batch acts = true -> hinv pi ph batch h ->
  exists ph' batch', hinv pi ph' batch' (fold_left (hact mu smu pi) acts h).
Proof.
  induction acts as [|a acts IH]; intros ph batch h Hok Hinv; cbn in *.
  - exists ph, batch. exact Hinv.
  - destruct Hinv as [Hb Hp].
    destruct ph, a; cbn in Hok; try discriminate;
      try (apply andb_true_iff in Hok; destruct Hok as [Hbt Hok]).
    (* PFresh *)
    + (* HStoreStudy *) eapply IH; [exact Hok|]. split; [exact Hb|]. cbn.
      destruct Hp as (_ & S & L). exists (h_cur h). cbn. repeat split; auto.
      * rewrite S. constructor.
      * rewrite L. constructor.
    + (* HStoreBatch *) eapply IH; [exact Hok|]. split; [reflexivity|exact Hp].
    + (* HMutate *) eapply IH; [exact Hok|]. split; [exact Hb|exact Hp].
    + (* HOther *) eapply IH; [exact Hok|]. split; [exact Hb|exact Hp].
    (* PStored *)
    + (* HStoreBatch *) eapply IH; [exact Hok|]. split; [reflexivity|exact Hp].
    + (* HStage *) eapply IH; [exact Hok|]. split; [exact Hb|]. cbn.
      destruct Hp as (ds & Dk & Cu & S & L). exists ds. cbn. split; [exact Dk|]. split; cbn.
      * constructor; [rewrite Cu; reflexivity|exact S].
      * exact L.
    + (* HLaunch *) eapply IH; [exact Hok|]. split; [exact Hb|]. cbn.
      destruct Hp as (ds & Dk & Cu & S & L). exists ds. cbn. repeat split; auto.
      constructor; [|exact L]. rewrite Dk, (Hb Hbt). reflexivity.
    + (* HOther *) eapply IH; [exact Hok|]. split; [exact Hb|exact Hp].
    (* PStaged *)
    + (* HStoreBatch *) eapply IH; [exact Hok|]. split; [reflexivity|exact Hp].
    + (* HLaunch *) eapply IH; [exact Hok|]. split; [exact Hb|]. cbn.
      destruct Hp as (ds & Dk & S & L). exists ds. cbn. repeat split; auto.
      constructor; [|exact L]. rewrite Dk, (Hb Hbt). reflexivity.
    + (* HMutate *) eapply IH; [exact Hok|]. split; [exact Hb|exact Hp].
    + (* HOther *) eapply IH; [exact Hok|]. split; [exact Hb|exact Hp].
Qed.

Theorem store_before_stage mu smu pi acts d :
  handoff_ok acts = true ->
  let h := hrun mu smu pi acts d in
  match h_disk h with
  | Some ds => Forall (fun g => g = stage_of pi ds) (h_staged h) /\
               Forall (fun l => l = (Some ds, true)) (h_launched h)
  | None => h_staged h = [] /\ h_launched h = []
  end.
Proof.
  intros Hok. cbn zeta. unfold hrun.
  destruct (handoff_inv mu smu pi acts PFresh false (mkH d None false [] []) Hok) as (ph & b & Hb & Hp).
  - split; [discriminate|]. cbn. auto.
  - destruct ph.
    + destruct Hp as (Dk & S & L). rewrite Dk. auto.
    + destruct Hp as (ds & Dk & _ & A). rewrite Dk. exact A.
    + destruct Hp as (ds & Dk & A). rewrite Dk. exact A.
Qed.

Lemma the_handoff_ok : handoff_ok the_handoff_fg = true /\ handoff_ok the_handoff_detached = true.
Proof. split; reflexivity. Qed.

(** staging before storing, or changing the study between store and staging, is rejected *)
Lemma bad_handoffs_rejected :
  handoff_ok [HStage; HStoreStudy; HStoreBatch; HLaunch] = false /\
  handoff_ok [HStoreStudy; HStoreBatch; HMutate; HStage] = false /\
  handoff_ok [HStoreStudy; HLaunch; HStoreBatch] = false.
Proof. repeat split; reflexivity. Qed.

(** ---- witnesses for the non-vacuity examples of Props/C18.v --------------- *)
Definition ex_spec : spec :=
  mkSpec (Str.s "/R") 1
         [mkP (Str.s "P") [] [Str.s "1"; Str.s "2"] (LT [])]
         [mkS (Str.s "gen") (Str.s "first") [] (Str.s "echo $(P)") [] [];
          mkS (Str.s "post") (Str.s "second") [Str.s "gen_*"] (Str.s "ls $(gen.workspace)") (Str.s "again") []].
Definition ex_D : D := mkD ex_spec 0 2 false [(Str.s "type", Str.s "slurm"); (Str.s "queue", Str.s "pbatch")].
Definition n_instances (r : staged) : nat :=
  match fst (fst r) with Ok o => List.length (ob_nodes o) | Err _ => 0 end.

(** a codec that loses one parameter row: the conductor's graph differs *)
Definition lossy_load (d : D) : option D :=
  Some (mkD (mkSpec (sp_root (d_spec d)) (sp_rlimit (d_spec d))
                    (map (fun p => mkP (p_key p) (p_name p) (removelast (p_vals p)) (p_label p)) (sp_params (d_spec d)))
                    (sp_steps (d_spec d)))
            (d_throttle d) (d_attempts d) (d_dry d) (d_batch d)).

Lemma lossy_codec_differs :
  lossy_load ex_D <> Some ex_D /\
  via_conductor (fun d => d) lossy_load pi_id ex_D <> Some (stage_of pi_id ex_D).
Proof.
  split.
  - intros H. apply (f_equal (option_map (fun d => List.length (p_vals (hd (mkP [] [] [] (LT [])) (sp_params (d_spec d))))))) in H.
    vm_compute in H. discriminate H.
  - intros H. apply (f_equal (option_map n_instances)) in H. vm_compute in H. discriminate H.
Qed.

(** Combinators the text GENERATED from the expansion code of /repo is composed of
    (Expand/StageGen.v, by translate/tcode_stage.py):
      Study.__init__ (management structures), Study.stage, Study._stage   (study.py)
      ParameterGenerator.get_used_parameters / _get_used_parameters,
      Combination.get_param_string / get_param_values                     (parameters.py)
      ExecutionGraph.add_step / add_connection                            (executiongraph.py)
    One combinator per Python construct the translator understands; the
    representation is the one of Expand.v: dictionaries are association lists in
    insertion order ([alookup]/[aset]), sets are duplicate-free lists in insertion
    order, EVERY iteration over a Python set goes through the order oracle [pi]
    ([for_set]), an exception is [None].  Sets of PARAMETER KEYS (used_params,
    p_params, s_params, params) are kept in the canonical form of Expand.v: the
    sub-list of the parameter table's keys ([pk_add]/[pk_union]); they are only
    ever iterated through [sorted].
    Stdlib only, small total functions, no proofs.  The equality of the generated
    functions with the hand-written model is in StageGenProofs.v. *)
From MWF Require Export Base.Str Base.Util Expand.PyStr Expand.Expand.
From Coq Require Import List NArith Bool Arith.
Import ListNotations.
Local Open Scope N_scope.

(* ------------------------------------------------------------------------- *)
(** * expressions                                                              *)
(* ------------------------------------------------------------------------- *)
Definition nonempty {A} (l : list A) : bool := match l with [] => false | _ :: _ => true end.

(** ["fmt".format(a, b, ...)] for formats made of literal text and [{}] *)
Fixpoint py_format (fmt : str) (args : list str) : str :=
  match fmt with
  | [] => []
  | c :: r =>
      match r with
      | d :: r' =>
          if (c =? 123) && (d =? 125) then
            match args with
            | a :: args' => a ++ py_format r' args'
            | [] => py_format r' []
            end
          else c :: py_format r args
      | [] => [c]
      end
  end.

Definition py_replace (old new x : str) : str := replace old new x.     (* x.replace(old, new) *)
Definition py_join (sep : str) (l : list str) : str := join sep l.       (* sep.join(l) *)
Definition py_sorted (l : list str) : list str := str_sort l.            (* sorted(l) *)
Definition str_in (sub x : str) : bool := occursb sub x.                 (* sub in x (strings) *)
Definition list_append {A} (l : list A) (x : A) : list A := l ++ [x].    (* l.append(x) *)

(** the module constants of study.py (the translator pins their texts):
    [re.sub(ALL_COMBOS, "", d)] and [re.findall(WSREGEX, text)] are the scanners of Expand.v *)
Definition re_sub_all_combos (d : str) : str := strip_star d.
Definition re_findall_wsregex (text : str) : list str := ws_refs text.
(** [re.findall(r"{}\({}(?:\.\w+)?\)".format(re.escape(self.token), key), item)] is non-empty.
    HYPOTHESIS of this tie: the parameter token is the default ["$"] (the model
    fixes it; [re.escape("$") = "\$"], so the pattern is [\$\(KEY(?:\.\w+)?\)], the
    regex [uses_key] scans for); other tokens are covered by C08's correspondence run only *)
Definition re_param_token_found (key item : str) : bool := uses_key key item.

(* ------------------------------------------------------------------------- *)
(** * dictionaries and sets                                                    *)
(* ------------------------------------------------------------------------- *)
Definition dict (A : Type) := list (str * A).

Definition dict_one {A} (k : str) (v : A) : dict A := [(k, v)].                 (* {k: v} *)
Definition dict_set {A} (k : str) (v : A) (d : dict A) : dict A := aset k v d.   (* d[k] = v *)
Definition dict_has {A} (k : str) (d : dict A) : bool := str_mem k (akeys d).    (* k in d *)

(** [d[k]] where the key may be absent: KeyError *)
Definition dict_item {A R} (d : dict A) (k : str) (cont : A -> option R) : option R :=
  match alookup k d with Some v => cont v | None => None end.

(** [d[k]] of a set-valued dictionary at a key the same iteration has assigned
    before (the translator checks that): never a KeyError *)
Definition dict_get (k : str) (d : dict (list str)) : list str :=
  match alookup k d with Some v => v | None => [] end.

(** [d[k].add(x)] at such a key *)
Definition dict_set_add (k x : str) (d : dict (list str)) : dict (list str) :=
  match alookup k d with Some l => aset k (sadd_s x l) d | None => aset k [x] d end.

Definition set_empty : list str := [].                                           (* set() *)
Definition set_mem (x : str) (l : list str) : bool := str_mem x l.               (* x in s *)

(** sets of parameter keys, canonical: table order *)
Definition pk_canon (ps : list param) (l : list str) : list str :=
  filter (fun k => str_mem k l) (keys_of ps).
Definition pk_add (ps : list param) (k : str) (l : list str) : list str := pk_canon ps (l ++ [k]).  (* s.add(k) *)
Definition pk_union (ps : list param) (a b : list str) : list str := pk_canon ps (a ++ b).         (* a | b *)

(* ------------------------------------------------------------------------- *)
(** * control                                                                  *)
(* ------------------------------------------------------------------------- *)
(** [for x in l: body] followed by [cont]; [s] is the tuple of the variables the
    body assigns.  The body ends with [Some s'] (fell off the end / [continue])
    or [None] (an exception). *)
Fixpoint for_in {A S R} (l : list A) (s : S) (body : A -> S -> option S) (cont : S -> option R)
  : option R :=
  match l with
  | [] => cont s
  | x :: l' => match body x s with
               | Some s' => for_in l' s' body cont
               | None => None
               end
  end.

(** iteration over a Python set: in the order the oracle chooses *)
Definition for_set {S R} (pi : an_oracle) (l : list str) (s : S) (body : str -> S -> option S)
           (cont : S -> option R) : option R := for_in (pi l) s body cont.

(** a loop that cannot raise and whose body only updates its accumulator *)
Definition for_each {A S} (l : list A) (s : S) (body : A -> S -> S) : S :=
  fold_left (fun a x => body x a) l s.

(** [for each in d.values()] of such a loop *)
Definition for_values {V S} (d : list (str * V)) (s : S) (body : V -> S -> S) : S :=
  fold_left (fun a kv => body (snd kv) a) d s.

(** a generator: [for x in l: yield f x] *)
Definition for_yield {A B} (l : list A) (f : A -> B) : list B := map f l.

(** a call of a generated method that may raise *)
Definition call {A R} (r : option A) (cont : A -> option R) : option R :=
  match r with Some v => cont v | None => None end.

(* ------------------------------------------------------------------------- *)
(** * the ParameterGenerator and its Combinations                              *)
(* ------------------------------------------------------------------------- *)
Definition combo_token : str := [c_dollar].                                      (* self._token / self.token *)
(** [self.parameters.keys()] *)
Definition parameter_keys (ps : list param) : list str := keys_of ps.
(** [for combo in self.parameters]: a combination is a row of the table *)
Definition combinations (ps : list param) : list nat := seq 0 (nrows ps).
(** [combo._labels] / [combo._params] as Combination.add fills them *)
Definition combo_labels (ps : list param) (i : nat) : dict str := map (fun p => (tok_lab (p_key p), plab p i)) ps.
Definition combo_params (ps : list param) (i : nat) : dict str := map (fun p => (tok_val (p_key p), pval p i)) ps.
(** [self._labels[var]] for a used parameter (always a key of the table) *)
Definition combo_item (d : dict str) (var : str) : str :=
  match alookup var d with Some v => v | None => [] end.

(** Python values as _get_used_parameters walks them *)
Inductive pyval := PStr (x : str) | PList (l : list pyval) | PDict (l : list (str * pyval)).

Definition py_falsy (v : pyval) : bool :=
  match v with PStr [] | PList [] | PDict [] => true | _ => false end.

(* ------------------------------------------------------------------------- *)
(** * StudyStep                                                                *)
(* ------------------------------------------------------------------------- *)
Definition study_step := step.                               (* a StudyStep *)
Definition study_values (sp : spec) : dict step := map (fun t => (s_name t, t)) (sp_steps sp).  (* self.values *)
Definition run_cmd (t : step) : str := s_cmd t.              (* node.run["cmd"] *)
Definition run_restart (t : step) : str := s_restart t.      (* node.run["restart"] *)
Definition run_depends (t : step) : list str := s_deps t.    (* node.run["depends"] *)
Definition step_real_name (t : step) : str := s_name t.      (* node.real_name *)

(** [step.__dict__] *)
Definition step_dict (t : step) : pyval :=
  PDict [(Str.s "_name", PStr (s_name t)); (Str.s "description", PStr (s_desc t));
         (Str.s "nickname", PStr []);
         (Str.s "run", PDict ((Str.s "cmd", PStr (s_cmd t)) :: (Str.s "depends", PList (map PStr (s_deps t)))
                              :: (Str.s "restart", PStr (s_restart t))
                              :: map (fun kv => (fst kv, PStr (snd kv))) (s_rest t)))].

Definition step_copy (t : step) : step := t.                 (* copy.deepcopy(node) *)
Definition run_set_cmd (c : str) (t : step) : step :=
  mkS (s_name t) (s_desc t) (s_deps t) c (s_restart t) (s_rest t).
Definition run_set_restart (c : str) (t : step) : step :=
  mkS (s_name t) (s_desc t) (s_deps t) (s_cmd t) c (s_rest t).
Definition step_set_name (n : str) (t : step) : step :=
  mkS n (s_desc t) (s_deps t) (s_cmd t) (s_restart t) (s_rest t).
(** [node.apply_parameters(combo)[1]]: [combo.apply] on every string of the step *)
Definition step_apply_parameters (f : str -> str) (t : step) : step :=
  mkS (f (s_name t)) (f (s_desc t)) (map f (s_deps t)) (f (s_cmd t)) (f (s_restart t))
      (map (fun kv => (fst kv, f (snd kv))) (s_rest t)).

(* ------------------------------------------------------------------------- *)
(** * workspaces                                                               *)
(* ------------------------------------------------------------------------- *)
(** the value of [make_safe_path(base, *comps)]: the joined path and its
    sanitised components (what the record's observable keeps) *)
Definition path := (str * list str)%type.
Definition make_safe_path (san : str -> str) (base : str) (comps : list str) : path :=
  (fold_left pjoin (map san comps) base, map san comps).
Definition path_str (p : path) : str := fst p.
Definition out_path (sp : spec) : str := sp_root sp.          (* self._out_path *)
Definition restart_limit (sp : spec) : nat := sp_rlimit sp.   (* self._restart_limit *)

(* ------------------------------------------------------------------------- *)
(** * the ExecutionGraph                                                       *)
(* ------------------------------------------------------------------------- *)
Definition execution_graph_new : graph := [].                 (* ExecutionGraph(...) *)

(** [_StepRecord(step=.., workspace=.., restart_limit=..)]: the constructor
    substitutes $(WORKSPACE) into cmd and restart; no parameters attached *)
Definition step_record (t : step) (w : path) (rl : nat) : rec :=
  mkRec (fst w) (snd w) rl [] (s_desc t) (replace tok_workspace (fst w) (s_cmd t))
        (replace tok_workspace (fst w) (s_restart t)) (s_rest t) (s_deps t).
(** [record.add_params(params)] *)
Definition record_add_params (params : list (str * str)) (r : rec) : rec :=
  mkRec (r_ws r) (r_wsc r) (r_rlimit r) params (r_desc r) (r_cmd r) (r_restart r) (r_rest r) (r_deps r).

(** [self._dependencies[name] = set()] (a name that has no node yet gets its
    empty set with the node) *)
Definition dependencies_reset (x : str) (g : graph) : graph :=
  on_node x (fun nd => mkNode (nd_name nd) (nd_rec nd) (nd_kids nd) []) g.
(** [self._dependencies[c].add(p)] *)
Definition dependencies_add (c p : str) (g : graph) : graph := on_node c (add_dep p) g.
(** DAG.add_node: an existing node is kept *)
Definition dag_add_node (x : str) (r : option rec) (g : graph) : graph :=
  if g_has x g then g else g ++ [mkNode x r [] []].
(** DAG.add_edge with the cycle check switched off by Study.stage (dag.py is
    translated for C14): a self loop is refused silently, a missing source is a
    ValueError, an existing edge is kept *)
Definition dag_add_edge {R} (p c : str) (g : graph) (cont : graph -> option R) : option R :=
  if str_eqb p c then cont g
  else if g_has p g then cont (on_node p (add_kid c) g) else None.

(* ------------------------------------------------------------------------- *)
(** * frames                                                                   *)
(* ------------------------------------------------------------------------- *)
(** [self.topological_sort()] of the Study *)
Definition topological_sort (sp : spec) : list str := toposort sp.

(** the Study constructor accepted the steps ([Err 1] otherwise); [Err 8]: the
    model's DFS ran out of fuel (never on a constructible study) *)
Definition study_built {A} (sp : spec) (r : result A) : result A :=
  if negb (construct_ok [SOURCE] (sp_steps sp)) then Err 1%nat
  else if negb (topo_ok sp (toposort sp)) then Err 8%nat else r.

(** an exception out of Study.stage *)
Definition staged {A} (r : option A) : result A :=
  match r with Some a => Ok a | None => Err 2%nat end.

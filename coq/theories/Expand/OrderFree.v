(** C11 -- "expanding the same specification is repeatable": executable
    definitions (stdlib only, no proofs; the proofs are in OrderFree2.v and
    OrderFree3.v).

    The expansion model is Expand.v, whose [stage] threads an ORDER ORACLE
    [pi : list str -> list str] through every iteration of a Python set
    ([depends[step]], [hub_depends[step]], [step_combos[parent]]).  This file
    adds what C11 observes on top of the staged graph:

      - the submission order of a dry run (executiongraph.py:execute_ready_steps
        with [dry_run]: every poll walks [values] in insertion order, stages the
        INITIALIZED records whose [_dependencies] are all completed, and
        "executes" them -- script written, marked DRYRUN, completed);
      - the status listing (write_status: the rows follow [bfs_subtree("_source")]
        over the adjacency table; name, workspace relative to the study, state,
        the Params column [";".join("k:v")]);
      - the script texts the local adapter writes ("#!/bin/bash\n\n<cmd>\n");

    all three as FUNCTIONS of the observable of the staged graph ([derive]), the
    extended observable [xobs], its boolean equality, the monitor [C11_ok] (the
    expansions obtained in several processes are all equal) and the relocation
    vocabulary ([set_root], [base], [txt_reloc], [mask_result]). *)
From MWF Require Export Base.Str Base.Util Expand.PyStr Expand.Expand.
From Coq Require Import List NArith Bool Arith Permutation.
Import ListNotations.
Local Open Scope N_scope.

(** an order oracle is admissible when it returns a permutation of its argument
    (iterating a set yields every element exactly once, in some order) *)
Definition perm_oracle (pi : an_oracle) : Prop := forall l, Permutation (pi l) l.

(* ------------------------------------------------------------------------ *)
(** * Dry-run submission order, poll by poll *)
Definition ready_now (done : list str) (o : nobs) : bool :=
  negb (str_mem (o_name o) done) && forallb (fun d => str_mem d done) (o_deps o).

Fixpoint dry_polls (fuel : nat) (nodes : list nobs) (done : list str) : list (list str) :=
  match fuel with
  | O => []
  | S f => match map o_name (filter (ready_now done) nodes) with
           | [] => []
           | ready => ready :: dry_polls f nodes (done ++ ready)
           end
  end.

(** [completed_steps] starts as {"_source"} *)
Definition submission_order (nodes : list nobs) : list (list str) :=
  dry_polls (length nodes) nodes [SOURCE].

(* ------------------------------------------------------------------------ *)
(** * Status listing: DAG.bfs_subtree("_source") without the source *)
Definition kids_in (nodes : list nobs) (x : str) : list str :=
  match find_obs x nodes with Some o => o_kids o | None => [] end.

Definition bfs_visit (kids : list str) (qp : list str * list str) : list str * list str :=
  fold_left (fun (a : list str * list str) n =>
               if str_mem n (snd a) then a else (fst a ++ [n], snd a ++ [n])) kids qp.

Fixpoint bfs_go (fuel : nat) (nodes : list nobs) (queue path : list str) : list str :=
  match fuel, queue with
  | S f, r :: q => let qp := bfs_visit (kids_in nodes r) (q, path) in
                   bfs_go f nodes (fst qp) (snd qp)
  | _, _ => path
  end.

Definition status_order (nodes : list nobs) : list str :=
  filter (fun x => negb (str_eqb x SOURCE)) (bfs_go (S (length nodes)) nodes [SOURCE] [SOURCE]).

Record srow := mkRow { sr_name : str; sr_ws : str; sr_state : str; sr_params : str }.

Definition c_semi : N := 59.  Definition c_colon : N := 58.  Definition c_nl : N := 10.

(** the Params column *)
Definition params_col (ps : list (str * str)) : str :=
  join [c_semi] (map (fun kv => fst kv ++ c_colon :: snd kv) ps).

Definition st_dryrun : str := Str.s "DRYRUN".

Definition status_rows (nodes : list nobs) : list srow :=
  map (fun x => match find_obs x nodes with
                | Some o => mkRow x (o_wsrel o) st_dryrun (params_col (o_params o))
                | None => mkRow x [] [] []
                end) (status_order nodes).

(* ------------------------------------------------------------------------ *)
(** * Script texts (LocalScriptAdapter._write_script), in submission order *)
(** [sc_file]: base name of the script file (["{}.sh".format(step.name)]) *)
Record scr := mkScr { sc_name : str; sc_file : str; sc_text : str; sc_restart : str }.

Definition local_script (cmd : str) : str := Str.s "#!/bin/bash" ++ c_nl :: c_nl :: cmd ++ [c_nl].

Definition script_of (nodes : list nobs) (x : str) : scr :=
  match find_obs x nodes with
  | Some o => mkScr x (x ++ Str.s ".sh") (local_script (o_cmd o))
                    (match o_restart o with [] => [] | r => local_script r end)
  | None => mkScr x [] [] []
  end.

Definition scripts_of (nodes : list nobs) : list scr :=
  map (script_of nodes) (concat (submission_order nodes)).

(* ------------------------------------------------------------------------ *)
(** * The extended observable of one expansion + dry run *)
Record xobs := mkX { x_obs : result obs;               (* names, edges, records ... (Expand.v) *)
                     x_polls : list (list str);        (* write_script calls, poll by poll *)
                     x_status : list srow;             (* status.csv *)
                     x_scripts : list scr;             (* the files written *)
                     x_exc : str }.                    (* exception of the dry run, if any *)

Definition derive (r : result obs) : xobs :=
  match r with
  | Ok o => mkX r (submission_order (ob_nodes o)) (status_rows (ob_nodes o)) (scripts_of (ob_nodes o)) []
  | Err _ => mkX r [] [] [] []
  end.

(** the model: stage under oracle [pi], observe, derive *)
Definition c11_model_gen (ap : list param -> nat -> str -> str) (san : str -> str)
           (pi : an_oracle) (sp : spec) : xobs :=
  derive (observe_result (stage ap san pi sp)).
Definition c11_model (pi : an_oracle) (sp : spec) : xobs := c11_model_gen apply_row sanitize pi sp.

(* ---- boolean equality ------------------------------------------------------ *)
Definition srow_eqb (a b : srow) : bool :=
  str_eqb (sr_name a) (sr_name b) && str_eqb (sr_ws a) (sr_ws b)
  && str_eqb (sr_state a) (sr_state b) && str_eqb (sr_params a) (sr_params b).
Definition scr_eqb (a b : scr) : bool :=
  str_eqb (sc_name a) (sc_name b) && str_eqb (sc_file a) (sc_file b) && str_eqb (sc_text a) (sc_text b)
  && str_eqb (sc_restart a) (sc_restart b).
Definition xobs_eqb (a b : xobs) : bool :=
  result_eqb (x_obs a) (x_obs b) && list_eqb strs_eqb (x_polls a) (x_polls b)
  && list_eqb srow_eqb (x_status a) (x_status b) && list_eqb scr_eqb (x_scripts a) (x_scripts b)
  && str_eqb (x_exc a) (x_exc b).

(* ------------------------------------------------------------------------ *)
(** * The monitor of C11: the expansions are all equal *)
Definition C11_ok (l : list xobs) : bool :=
  match l with
  | [] => true
  | a :: r => forallb (xobs_eqb a) r
  end.

(* ------------------------------------------------------------------------ *)
(** * Relocation *)
Definition set_root (r : str) (sp : spec) : spec :=
  mkSpec r (sp_rlimit sp) (sp_params sp) (sp_steps sp).

(** the directory [root/c1/.../cn] ([msp] of Expand.v is [base root (map san comps)]) *)
Definition base (root : str) (comps : list str) : str := fold_left pjoin comps root.

(** two texts obtained from the same text by the same sequence of
    [str.replace] calls, the replacement being a directory below [r] on one
    side and THE SAME directory below [r'] on the other: "they differ only by
    the root prefix of the substituted workspaces" *)
Inductive txt_reloc (r r' : str) : str -> str -> Prop :=
| tr_same : forall x, txt_reloc r r' x x
| tr_sub : forall v comps a b, txt_reloc r r' a b ->
    txt_reloc r r' (replace v (base r comps) a) (replace v (base r' comps) b).

(** MODELLING NOTE (--hashws).  Expand.v models staging with [hash_ws] off.  With
    [hash_ws] on, the only change in Study._stage is that the second workspace
    component of a parameterised instance (and its nickname, hence its script
    file name) is [h combo] instead of [combo], where [h = md5(.).hexdigest()]
    is applied to the COMBINATION STRING -- a value that never sees the root.
    With [h] abstract: *)
Definition hashed_comps (h : str -> str) (x combo : str) : list str := [x; h combo].
Definition hashed_ws (san h : str -> str) (root x combo : str) : str :=
  base root (map san (hashed_comps h x combo)).

(** the observable with the two fields that can mention the root blanked *)
Definition mask_nobs (o : nobs) : nobs :=
  mkO (o_name o) (o_kids o) (o_deps o) (o_isrec o) (o_wsrel o) (o_rlimit o) (o_params o)
      (o_desc o) [] [] (o_rest o) (o_sdeps o).
Definition mask_result (r : result obs) : result obs :=
  match r with
  | Ok o => Ok (mkObs (ob_used o) (map mask_nobs (ob_nodes o)))
  | Err e => Err e
  end.

(* ------------------------------------------------------------------------ *)
(** * What the correspondence run evaluates per case: a specification and the
    extended observables recorded in the fresh interpreter processes (different
    PYTHONHASHSEED, different output roots; roots replaced by the placeholder
    the model is run with) *)
Definition c11_monitor (c : spec * list xobs) : bool := C11_ok (snd c).

(** model = first process, also under the reversed oracle (hence the
    implementation's polls / status rows / scripts are the stated functions
    [derive] of the staged graph) *)
Definition c11_agree (c : spec * list xobs) : bool :=
  match snd c with
  | x :: _ => xobs_eqb (c11_model pi_id (fst c)) x
              && xobs_eqb (c11_model pi_rev (fst c)) x
  | [] => false
  end.

Definition c11_case (c : spec * list xobs) : bool := c11_monitor c && c11_agree c.

(** The instance that an ordinary workspace reference denotes exists in the
    plan: for every planned instance [d] and every step [n] it depends on
    ordinarily or whose workspace it refers to (not a funnel parent), the plan
    holds an instance [d'] of [n] for the same combination, and the token
    $(n.workspace) denotes the workspace of that [d'].  (Needs the naming
    hygiene of [valid_case]: no step name is another's name followed by "_".) *)
From Coq Require Import List NArith Bool Arith Lia Permutation.
From MWF Require Import Base.Str Base.Util Base.UtilLemmas Expand.PyStr Expand.PyStrProofs Expand.Subst
     Expand.SubstProofs Expand.SubstPasses.
Import ListNotations.
Local Notation length := List.length.

(** * membership in the canonical key lists *)
Lemma str_dedup_acc_In : forall l seen x,
  In x (str_dedup_acc seen l) <-> (In x l /\ ~ In x seen).
Proof.
  induction l as [|a l IH]; intros seen x; simpl.
  - tauto.
  - destruct (str_mem a seen) eqn:E.
    + apply str_mem_In in E. rewrite IH. split.
      * intros [H1 H2]. auto.
      * intros [[H1|H1] H2]; [subst; contradiction|auto].
    + assert (Ha : ~ In a seen).
      { intros H. apply str_mem_In in H. congruence. }
      simpl. rewrite IH. simpl. split.
      * intros [H|[H1 H2]]; [subst; auto|]. split; auto.
      * intros [[H1|H1] H2]; [auto|].
        destruct (str_eqb a x) eqn:Eax.
        -- apply str_eqb_eq in Eax. auto.
        -- apply str_eqb_neq in Eax. right. split; auto. intros [F|F]; auto.
Qed.

Lemma str_dedup_In : forall l x, In x (str_dedup l) <-> In x l.
Proof. intros. unfold str_dedup. rewrite str_dedup_acc_In. simpl. tauto. Qed.

Lemma step_used_incl : forall ps used p n k,
  (In n (ordinary_of (pr_step p)) \/ (In n (pr_refs p) /\ ~ In n (hub_of (pr_step p)))) ->
  In k (used_of used n) -> In k (step_used ps used p).
Proof.
  intros ps used p n k H Hk. unfold step_used. cbv zeta.
  apply str_sort_In. apply str_dedup_In. apply in_or_app. right. apply in_or_app.
  destruct H as [H|[H1 H2]].
  - left. apply in_flat_map. exists n. auto.
  - right. apply in_flat_map. exists n. split; auto. apply filter_In. split; auto.
    apply negb_true_iff. destruct (str_mem n (hub_of (pr_step p))) eqn:E; auto.
    apply str_mem_In in E. contradiction.
Qed.

(** * instance names determine the step *)
Definition no_prefix_clash (names : list str) : Prop :=
  forall n m, In n names -> In m names -> m <> n -> prefixb (m ++ [USCORE]) n = false.

Lemma prefixb_app_r : forall p r, prefixb p (p ++ r) = true.
Proof. exact prefixb_app. Qed.

Lemma iname_step : forall ps names n n' u u' r r',
  no_prefix_clash names -> In n names -> In n' names ->
  iname ps n u r = iname ps n' u' r' -> n = n'.
Proof.
  intros ps names n n' u u' r r' Hc Hn Hn' E.
  destruct (str_eqb n n') eqn:Enn; [apply str_eqb_eq in Enn; exact Enn|]. exfalso.
  apply str_eqb_neq in Enn.
  unfold iname in E. destruct r as [i|], r' as [i'|].
  - (* n ++ "_" ++ c = n' ++ "_" ++ c' *)
    apply app_eq_app in E. destruct E as [l [[E1 E2]|[E1 E2]]].
    + destruct l as [|x l]; [rewrite app_nil_r in E1; congruence|].
      simpl in E2. inversion E2; subst x.
      assert (P : prefixb (n' ++ [USCORE]) n = true).
      { rewrite E1. change (USCORE :: l) with ([USCORE] ++ l). rewrite app_assoc. apply prefixb_app. }
      rewrite (Hc n n' Hn Hn') in P; [discriminate|congruence].
    + destruct l as [|x l]; [rewrite app_nil_r in E1; congruence|].
      simpl in E2. inversion E2; subst x.
      assert (P : prefixb (n ++ [USCORE]) n' = true).
      { rewrite E1. change (USCORE :: l) with ([USCORE] ++ l). rewrite app_assoc. apply prefixb_app. }
      rewrite (Hc n' n Hn' Hn) in P; [discriminate|congruence].
  - (* n ++ "_" ++ c = n' *)
    assert (P : prefixb (n ++ [USCORE]) n' = true).
    { rewrite <- E. change (USCORE :: combo_string ps i u) with ([USCORE] ++ combo_string ps i u).
      rewrite app_assoc. apply prefixb_app. }
    rewrite (Hc n' n Hn' Hn) in P; [discriminate|congruence].
  - assert (P : prefixb (n' ++ [USCORE]) n = true).
    { rewrite E. change (USCORE :: combo_string ps i' u') with ([USCORE] ++ combo_string ps i' u').
      rewrite app_assoc. apply prefixb_app. }
    rewrite (Hc n n' Hn Hn') in P; [discriminate|congruence].
  - congruence.
Qed.

Lemma iname_not_source : forall ps n u r, n <> [] -> n <> SOURCE -> iname ps n u r <> SOURCE.
Proof.
  intros ps n u r Hne Hs E. unfold iname in E. destruct r as [i|]; [|contradiction].
  destruct n as [|x n]; [contradiction|].
  assert (E' : n ++ USCORE :: combo_string ps i u = s "source").
  { vm_compute in E. simpl in E. inversion E. vm_compute. assumption. }
  assert (Hin : In USCORE (s "source")).
  { rewrite <- E'. apply in_or_app. right. left. reflexivity. }
  vm_compute in Hin. repeat (destruct Hin as [Hin|Hin]; [discriminate Hin|]). contradiction.
Qed.

(** * every descriptor built for a step is represented in the plan by name *)
Lemma first_wins_names : forall ds seen r seen' d,
  first_wins seen ds = (r, seen') -> In d ds -> In (d_name d) seen'.
Proof.
  induction ds as [|d0 ds IH]; intros seen r seen' d H Hd; [contradiction|]. simpl in H.
  destruct (str_mem (d_name d0) seen) eqn:Em.
  - destruct Hd as [Hd|Hd].
    + subst d0. apply str_mem_In in Em.
      destruct (first_wins_spec _ _ _ _ H) as [_ [_ [_ D]]]. apply D. left. exact Em.
    + eapply IH; eauto.
  - destruct (first_wins (d_name d0 :: seen) ds) as [r0 s0] eqn:Er. inversion H; subst.
    destruct Hd as [Hd|Hd].
    + subst d0. destruct (first_wins_spec _ _ _ _ Er) as [_ [_ [_ D]]]. apply D. left. left. reflexivity.
    + eapply IH; eauto.
Qed.

Lemma plan_go_covers : forall root ps l1 q l2 used seen ds d0,
  plan_go root ps used seen (l1 ++ q :: l2) = Some ds ->
  In d0 (step_descs root ps (used_go ps used l1) q (step_used ps (used_go ps used l1) q)) ->
  In (d_name d0) seen \/ exists d', In d' ds /\ d_name d' = d_name d0.
Proof.
  intros root ps. induction l1 as [|p l1 IH]; intros q l2 used seen ds d0 H Hd0; simpl in H.
  - destruct (pr_rej q); [discriminate|]. simpl in Hd0.
    destruct (first_wins seen (step_descs root ps used q (step_used ps used q))) as [r seen'] eqn:Ef.
    destruct (plan_go root ps (used ++ [(s_name (pr_step q), step_used ps used q)]) seen' l2) as [r2|];
      [|discriminate].
    inversion H; subst. pose proof (first_wins_names _ _ _ _ _ Ef Hd0) as Hs.
    destruct (first_wins_spec _ _ _ _ Ef) as [_ [_ [_ D]]]. apply D in Hs.
    destruct Hs as [Hs|Hs]; [left; exact Hs|right].
    apply in_map_iff in Hs. destruct Hs as [d' [En Hd']]. exists d'. split; auto.
    apply in_or_app. left. exact Hd'.
  - destruct (pr_rej p); [discriminate|].
    destruct (first_wins seen (step_descs root ps used p (step_used ps used p))) as [r seen'] eqn:Ef.
    destruct (plan_go root ps (used ++ [(s_name (pr_step p), step_used ps used p)]) seen' (l1 ++ q :: l2))
      as [r2|] eqn:Ep; [|discriminate].
    inversion H; subst. simpl in Hd0.
    destruct (IH _ _ _ _ _ _ Ep Hd0) as [Hs|[d' [Hd' En]]].
    + destruct (first_wins_spec _ _ _ _ Ef) as [_ [_ [_ D]]]. apply D in Hs.
      destruct Hs as [Hs|Hs]; [left; exact Hs|right].
      apply in_map_iff in Hs. destruct Hs as [d' [En Hd']]. exists d'. split; auto.
      apply in_or_app. left. exact Hd'.
    + right. exists d'. split; auto. apply in_or_app. right. exact Hd'.
Qed.

Lemma step_descs_mk : forall root ps used p u row,
  (u = [] -> row = None) -> (u <> [] -> exists i, row = Some i /\ i < nrows ps) ->
  exists d0, In d0 (step_descs root ps used p u) /\ d_row d0 = row.
Proof.
  intros root ps used p u row H0 H1. unfold step_descs. destruct u as [|k u].
  - rewrite H0; auto. eexists. split; [left; reflexivity|reflexivity].
  - destruct H1 as [i [Ei Hi]]; [discriminate|]. subst row.
    eexists. split.
    + apply in_map_iff. exists i. split; [reflexivity|]. apply in_seq. lia.
    + reflexivity.
Qed.

Section Exists.
  Variables (root : str) (ps : list param) (L : list pre) (ds : list desc).
  Let used0 : list (str * list str) := [(SOURCE, [])].
  Hypothesis Hplan : plan_go root ps used0 [SOURCE] L = Some ds.
  Hypothesis Hnd : NoDup (SOURCE :: pre_names L).
  Hypothesis Hclash : no_prefix_clash (pre_names L).
  Hypothesis Hne : forall n, In n (pre_names L) -> n <> [].

  Lemma plan_ordinary_exists : forall d n,
    In d ds -> n <> SOURCE -> In n (map fst (d_dirs d)) ->
    ~ In n (hub_of (d_step d)) ->
    (In n (ordinary_of (d_step d)) \/ In n (d_refs d)) ->
    exists d', In d' ds /\ s_name (d_step d') = n /\ same_combo ps d d' = true /\
               dir_of n (d_dirs d) = d_ws d'.
  Proof.
    intros d n Hd Hs Hk Hh Href.
    destruct (plan_go_in _ _ _ _ _ _ _ Hplan Hd) as [l1 [p [l2 [E Hin]]]].
    pose proof Hin as Hin0.
    apply step_descs_in in Hin. destruct Hin as [Est [Eu [Erefs [_ [_ [_ [Edirs [Hu0 Hu1]]]]]]]].
    assert (Hk1 : In n (pre_names l1)).
    { rewrite Edirs in Hk. rewrite map_map in Hk. simpl in Hk. rewrite map_id in Hk.
      rewrite used_go_fst in Hk. simpl in Hk. destruct Hk as [Hk|Hk]; [congruence|exact Hk]. }
    unfold pre_names in Hk1. apply in_map_iff in Hk1. destruct Hk1 as [q [Eq Hq]].
    apply in_split in Hq. destruct Hq as [a [b Eab]].
    set (Ua := used_go ps used0 a).
    set (u' := step_used ps Ua q).
    assert (HL : L = a ++ q :: (b ++ p :: l2)).
    { rewrite E, Eab, <- app_assoc. reflexivity. }
    assert (HndL : NoDup (pre_names L)) by (inversion Hnd; auto).
    assert (Hu : used_of (used_go ps used0 l1) n = u').
    { rewrite Eab, <- Eq. apply used_of_used_go. rewrite Eq. simpl.
      intros [F|F]; [congruence|].
      rewrite HL in HndL. unfold pre_names in HndL. rewrite map_app in HndL. simpl in HndL.
      apply NoDup_remove_2 in HndL. apply HndL. apply in_or_app. left. rewrite Eq. exact F. }
    (* the parent's used parameters are used by [d]'s step as well *)
    assert (Hsub : forall k, In k u' -> In k (d_used d)).
    { intros k Hk'. rewrite Eu. apply (step_used_incl ps _ p n k).
      - rewrite <- Est, <- Erefs. destruct Href as [H|H]; [left; exact H|right; split; [exact H|exact Hh]].
      - rewrite Hu. exact Hk'. }
    set (row' := match u' with [] => None | _ => d_row d end).
    destruct (step_descs_mk root ps Ua q u' row') as [d0 [Hd0 Erow0]].
    { intros E0. unfold row'. rewrite E0. reflexivity. }
    { intros Hn0. unfold row'. destruct u' as [|k0 u0] eqn:Eu'; [contradiction|].
      apply Hu1. intros F. rewrite <- Eu in F.
      assert (In k0 (d_used d)) by (apply Hsub; left; reflexivity). rewrite F in H. contradiction. }
    rewrite HL in Hplan.
    destruct (plan_go_covers root ps a q (b ++ p :: l2) used0 [SOURCE] ds d0 Hplan Hd0)
      as [Hseen|[d' [Hd' En]]].
    - (* the name cannot be "_source" *)
      exfalso. destruct Hseen as [Hseen|[]].
      apply step_descs_in in Hd0. destruct Hd0 as [_ [_ [_ [_ [En0 _]]]]].
      rewrite En0 in Hseen. symmetry in Hseen. revert Hseen. rewrite Eq.
      apply iname_not_source; auto. apply Hne. rewrite HL. unfold pre_names. rewrite map_app.
      apply in_or_app. right. left. exact Eq.
    - rewrite <- HL in Hplan.
      destruct (plan_go_in _ _ _ _ _ _ _ Hplan Hd') as [l1' [p' [l2' [E' Hin']]]].
      apply step_descs_in in Hin'. destruct Hin' as [Est' [Eu' [_ [Ews' [En' [_ [_ [Hu0' Hu1']]]]]]]].
      pose proof Hd0 as Hd0'.
      apply step_descs_in in Hd0'. destruct Hd0' as [_ [_ [_ [_ [En0 _]]]]].
      assert (Hsame : s_name (pr_step p') = n).
      { rewrite <- Eq.
        apply (iname_step ps (pre_names L) (s_name (pr_step p')) (s_name (pr_step q))
                 (step_used ps (used_go ps used0 l1') p') u' (d_row d') (d_row d0)); auto.
        - rewrite E'. unfold pre_names. rewrite map_app. apply in_or_app. right. left. reflexivity.
        - rewrite HL. unfold pre_names. rewrite map_app. apply in_or_app. right. left. reflexivity.
        - rewrite <- En', <- En0. exact En. }
      assert (Hsplit : a = l1' /\ q = p' /\ b ++ p :: l2 = l2').
      { apply (NoDup_split_unique (fun p => s_name (pr_step p))); auto.
        - rewrite <- HL. exact HndL.
        - rewrite <- HL. exact E'.
        - rewrite Eq, Hsame. reflexivity. }
      destruct Hsplit as [Ea [Eq' _]]. subst l1' p'.
      fold Ua in Eu', Ews', En', Hu0', Hu1'. fold u' in Eu', Ews', En', Hu0', Hu1'.
      assert (Hcombo : same_combo ps d d' = true).
      { unfold same_combo. rewrite Eu'.
        destruct u' as [|k0 u0] eqn:Eu''.
        - rewrite Hu0'; auto.
        - destruct Hu1' as [i' [Ei' _]]; [discriminate|]. rewrite Ei'.
          unfold row' in Erow0. rewrite En', En0, Ei', Erow0 in En.
          destruct (d_row d) as [i|] eqn:Ed.
          + simpl in En. apply app_inv_head in En. inversion En as [En2].
            rewrite En2. apply str_eqb_refl.
          + simpl in En. exfalso. symmetry in En. revert En.
            change (s_name (pr_step q) ++ USCORE :: combo_string ps i' (k0 :: u0))
              with (s_name (pr_step q) ++ [USCORE] ++ combo_string ps i' (k0 :: u0)).
            intros En. rewrite <- (app_nil_r (s_name (pr_step q))) in En at 1.
            apply app_inv_head in En. discriminate En. }
      exists d'. split; [exact Hd'|]. split; [rewrite Est'; exact Hsame|]. split; [exact Hcombo|].
      rewrite <- Hsame, <- Est'.
      eapply (plan_ordinary root ps used0 [SOURCE] L ds Hplan); eauto.
      + simpl. rewrite Est', Hsame. intros [F|[]]. congruence.
      + rewrite Est', Hsame. exact Hh.
      + rewrite Est', Hsame. exact Hk.
      + rewrite Est', Hsame. exact Hs.
  Qed.
End Exists.

(** * ... for the plan of a valid case *)
Lemma valid_case_steps : forall c, valid_case c = true ->
  forallb (valid_step (map s_name (c_steps c))) (c_steps c) = true.
Proof.
  intros c H. unfold valid_case in H. cbv zeta in H. rewrite !andb_true_iff in H. tauto.
Qed.

Lemma valid_names : forall c, valid_case c = true ->
  no_prefix_clash (map s_name (c_steps c)) /\ (forall n, In n (map s_name (c_steps c)) -> n <> []).
Proof.
  intros c H. apply valid_case_steps in H. rewrite forallb_forall in H. split.
  - intros n m Hn Hm Hmn. apply in_map_iff in Hn. destruct Hn as [st [En Hst]].
    specialize (H st Hst). unfold valid_step in H. rewrite !andb_true_iff in H.
    destruct H as [_ H]. apply negb_true_iff in H.
    destruct (prefixb (m ++ [USCORE]) n) eqn:P; auto. exfalso.
    assert (T : existsb (fun n0 => negb (str_eqb n0 (s_name st)) && prefixb (n0 ++ [USCORE]) (s_name st))
                        (map s_name (c_steps c)) = true).
    { apply existsb_exists. exists m. split; auto. rewrite En, P.
      apply str_eqb_neq in Hmn. rewrite Hmn. reflexivity. }
    congruence.
  - intros n Hn. apply in_map_iff in Hn. destruct Hn as [st [En Hst]].
    specialize (H st Hst). unfold valid_step in H. rewrite !andb_true_iff in H.
    destruct H as [[[[H _] _] _] _]. apply negb_true_iff in H. apply str_eqb_neq in H. congruence.
Qed.

Lemma pre_names_incl : forall m c, valid_case c = true ->
  incl (pre_names (pre_list m c)) (map s_name (c_steps c)).
Proof.
  intros m c H. apply valid_case_parts in H. destruct H as [_ [_ [_ [_ [Hlt _]]]]].
  rewrite pre_list_names. intros n Hn. apply in_map_iff in Hn. destruct Hn as [k [E Hk]].
  subst n. apply nth_In. rewrite map_length. auto.
Qed.

Theorem plan_ws_ordinary_exists : forall m c ds d n,
  valid_case c = true -> plan m c = Some ds -> In d ds ->
  n <> SOURCE -> In n (map fst (d_dirs d)) -> ~ In n (hub_of (d_step d)) ->
  (In n (ordinary_of (d_step d)) \/ In n (d_refs d)) ->
  exists d', In d' ds /\ s_name (d_step d') = n /\ same_combo (c_params c) d d' = true /\
             dir_of n (d_dirs d) = d_ws d'.
Proof.
  intros m c ds d n Hv Hp Hd Hs Hk Hh Href. unfold plan in Hp.
  destruct (valid_names c Hv) as [Hc Hne]. pose proof (pre_names_incl m c Hv) as Hincl.
  eapply (plan_ordinary_exists (c_root c) (c_params c) (pre_list m c) ds Hp); eauto.
  - apply valid_pre_names. exact Hv.
  - intros a b Ha Hb. apply Hc; auto.
Qed.

(** Tie between the hand-written path model (SafePath.v), which every theorem of
    Props/C10.v is about, and the text GENERATED from the current source of
    maestrowf (PathGen.v, by translate/tcode_paths.py): each generated function is
    EQUAL to the model function that plays its role -- [sanitize] /
    [make_safe_path], [workspace], [iname], [nickname], [sname], [scr_dir],
    [script_path], [restart_path], [out_paths].  The alphabet, the replace rules and
    the file-name templates of the model are T-data (Gen/SafePathData.v); the
    lemmas below also show that the generated CODE computes exactly that data, so
    the two translations must agree.  An edit of the source that changes how a path
    is built (the joined path sanitised instead of the components, self.step.name
    for self.name, a join that drops a component, .replace(".sh", ..) for a join,
    output files next to the script) changes PathGen.v and breaks an obligation.

    The proofs never restate the generated text. *)
From Coq Require Import List NArith Bool Arith.
From MWF Require Import Base.Str Expand.PyStr Expand.SubstOps Gen.SafePathData Expand.SafePath
     Expand.PathOps Expand.PathGen.
Import ListNotations.

(* ------------------------------------------------------------------------- *)
(** * utils.make_safe_path                                                     *)
(* ------------------------------------------------------------------------- *)

(** Python's general [str.replace] with a one-character pattern is the model's
    per-character replace *)
Lemma replace_char : forall a b x, replace [a] b x = replace1 a b x.
Proof.
  intros a b x. unfold replace, replace1. induction x as [|c r IH]; [reflexivity|].
  cbn [replace_go PyStr.prefixb flat_map List.length pred]. rewrite andb_true_r, N.eqb_sym.
  destruct (N.eqb c a); rewrite IH; reflexivity.
Qed.

(** the `valid` string the code builds is the alphabet of the T-data *)
Lemma valid_is_alphabet :
  py_format (s "-_.() {}{}") [string_ascii_letters; string_digits] = safe_alphabet.
Proof. vm_compute. reflexivity. Qed.

(** one pass through the loop body: filter by the alphabet, then the replace *)
Lemma sanitize_is_generated : forall arg,
  replace (s " ") (s "_") (str_filter (fun c => char_in c safe_alphabet) arg) = sanitize arg.
Proof.
  intros arg. unfold sanitize, sanitize_with, apply_replaces. cbn [safe_replaces fold_left fst snd].
  rewrite <- replace_char. reflexivity.
Qed.

Lemma for_each_append : forall {A} (f : A -> str) l acc,
  for_each l (fun x acc => list_append (f x) acc) acc = acc ++ map f l.
Proof.
  intros A f l. unfold for_each, list_append.
  induction l as [|a l IH]; intros acc; simpl.
  - rewrite app_nil_r. reflexivity.
  - rewrite IH, <- app_assoc. reflexivity.
Qed.

(** every COMPONENT is sanitised, then the base and the components are joined *)
Theorem make_safe_path_is_generated : forall base args,
  make_safe_path_gen base args = make_safe_path base args.
Proof.
  intros base args. unfold make_safe_path_gen, make_safe_path. cbv zeta.
  rewrite valid_is_alphabet.
  rewrite (for_each_append
             (fun arg => replace (s " ") (s "_") (str_filter (fun c => char_in c safe_alphabet) arg))).
  cbn [app os_path_join_star]. f_equal. apply map_ext. exact sanitize_is_generated.
Qed.

(* ------------------------------------------------------------------------- *)
(** * Study._stage: workspace, instance name, nickname                         *)
(* ------------------------------------------------------------------------- *)

Theorem stage_workspace_is_generated : forall h st i,
  i_combo i = None -> stage_workspace_gen (s_root st) (i_step i) = workspace h st i.
Proof.
  intros h st i H. unfold stage_workspace_gen, workspace, ws_args, ws_shape. rewrite H. cbv zeta.
  rewrite make_safe_path_is_generated. reflexivity.
Qed.

Lemma format_iname : forall a b, py_format (s "{}_{}") [a; b] = a ++ iname_sep ++ b.
Proof.
  intros a b. change (py_format (s "{}_{}") [a; b]) with (a ++ 95%N :: b ++ []).
  rewrite app_nil_r. reflexivity.
Qed.

(** one combination: the instance name is step ++ "_" ++ combination string, the
    nickname is the digest of the COMBINATION STRING (only when hashing), the
    workspace is root / step / (nickname | combination string) *)
Theorem stage_combo_is_generated : forall h st i c,
  i_combo i = Some c ->
  stage_combo_workspace_gen h (s_root st) (s_hashws st) (i_step i) c =
  (iname i, (if s_hashws st then Some (h c) else None), workspace h st i).
Proof.
  intros h st i c H. unfold stage_combo_workspace_gen, workspace, ws_args, ws_shape, iname. rewrite H.
  cbv zeta. rewrite format_iname.
  destruct (s_hashws st); rewrite make_safe_path_is_generated; cbn [map wcomp_val ws_hashed ws_plain opt_str];
    rewrite H; reflexivity.
Qed.

Corollary stage_nickname_is_generated : forall h st i c,
  i_combo i = Some c ->
  opt_str (snd (fst (stage_combo_workspace_gen h (s_root st) (s_hashws st) (i_step i) c))) =
  nickname h (s_hashws st) i.
Proof.
  intros h st i c H. rewrite (stage_combo_is_generated h st i c H). unfold nickname. rewrite H.
  destruct (s_hashws st); reflexivity.
Qed.

(* ------------------------------------------------------------------------- *)
(** * StudyStep.name / real_name, _StepRecord.name                             *)
(* ------------------------------------------------------------------------- *)

Theorem studystep_name_is_generated : forall nick name,
  studystep_name_gen nick name = if is_empty (opt_str nick) then name else opt_str nick.
Proof. intros [[|c n]|] name; reflexivity. Qed.

(** the name the adapters see: the nickname when there is one *)
Corollary sname_is_generated : forall h (hw : bool) i,
  studystep_name_gen (match i_combo i with Some c => if hw then Some (h c) else None | None => None end)
                     (iname i) = sname h hw i.
Proof.
  intros h hw i. rewrite studystep_name_is_generated. unfold sname, nickname.
  destruct (i_combo i); [destruct hw|]; reflexivity.
Qed.

Theorem studystep_real_name_is_generated : forall nick name, studystep_real_name_gen nick name = name.
Proof. reflexivity. Qed.

(** the record is known by the step's REAL name *)
Theorem steprecord_name_is_generated : forall name real_name, steprecord_name_gen name real_name = real_name.
Proof. reflexivity. Qed.

(* ------------------------------------------------------------------------- *)
(** * _StepRecord: created directory, script directory, cwd of submit          *)
(* ------------------------------------------------------------------------- *)

Theorem setup_workspace_is_generated : forall h st i,
  steprecord_setup_workspace_gen (iname i) (sname h (s_hashws st) i) (iname i) (workspace h st i) =
  workspace h st i.
Proof. reflexivity. Qed.

(** scripts go to the workspace, or to <tmp>/<digest of the RECORD's name> *)
Theorem script_dir_is_generated : forall h st i,
  steprecord_script_dir_gen h (steprecord_name_gen (sname h (s_hashws st) i) (iname i))
                            (sname h (s_hashws st) i) (iname i) (workspace h st i) (s_tmp st) =
  scr_dir h st i.
Proof. intros h st i. unfold steprecord_script_dir_gen, scr_dir. destruct (s_tmp st); reflexivity. Qed.

Theorem submit_cwd_is_generated : forall h st i,
  steprecord_submit_cwd_gen (iname i) (sname h (s_hashws st) i) (iname i) (workspace h st i) =
  workspace h st i.
Proof. reflexivity. Qed.

(* ------------------------------------------------------------------------- *)
(** * the adapters' _write_script, LocalScriptAdapter.submit                   *)
(* ------------------------------------------------------------------------- *)

Definition write_script_paths_gen (a : adapter) : str -> str -> str -> str -> str * option str :=
  match a with
  | ALocal => local_write_script_paths_gen
  | ASlurm => slurm_write_script_paths_gen
  | ALsf => lsf_write_script_paths_gen
  | AFlux => flux_write_script_paths_gen
  end.

(** script and restart script: the directory handed in JOINED with a file name
    made from step.name and the adapter's extension; the restart script exists
    exactly when there is a restart command *)
Theorem write_script_paths_is_generated : forall h st i restart,
  str_truthy restart = i_restart i ->
  write_script_paths_gen (s_adapter st) (scr_dir h st i) (sname h (s_hashws st) i) (iname i) restart =
  (script_path h st i, restart_path h st i).
Proof.
  intros h st i restart H. unfold script_path, restart_path, fill. rewrite <- H.
  destruct (s_adapter st); cbn [write_script_paths_gen];
    unfold local_write_script_paths_gen, slurm_write_script_paths_gen, lsf_write_script_paths_gen,
           flux_write_script_paths_gen;
    cbv zeta; destruct (str_truthy restart); reflexivity.
Qed.

(** the data translation and the code translation agree on the extensions *)
Theorem extensions_agree :
  script_tmpl ALocal = [TName; TLit local_extension_gen] /\
  script_tmpl ASlurm = [TName; TLit slurm_extension_gen] /\
  script_tmpl ALsf = [TName; TLit (s "." ++ lsf_extension_gen)] /\
  script_tmpl AFlux = [TName; TLit (s "." ++ flux_extension_gen)].
Proof. repeat split. Qed.

(** captured output: files in the cwd handed to submit -- which is the WORKSPACE
    (submit_cwd_is_generated) -- named after step.name and the process id *)
Theorem submit_paths_is_generated : forall h st i path pid,
  local_submit_paths_gen (sname h (s_hashws st) i) (iname i) path (workspace h st i) pid =
  (join2 (workspace h st i) (fill h st i pid out_tmpl),
   join2 (workspace h st i) (fill h st i pid err_tmpl)).
Proof. reflexivity. Qed.

Corollary out_paths_is_generated : forall h st i path,
  out_paths h st i =
  flat_map (fun pid =>
    let r := local_submit_paths_gen (sname h (s_hashws st) i) (iname i) path
               (steprecord_submit_cwd_gen (iname i) (sname h (s_hashws st) i) (iname i) (workspace h st i)) pid in
    [fst r; snd r]) (i_pids i).
Proof. reflexivity. Qed.

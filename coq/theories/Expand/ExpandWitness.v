(** Concrete specifications: non-vacuity examples for the hypotheses of the C08
    theorems and the witnesses of the known findings K2 / K2b (outside H8). *)
From MWF Require Import Base.Str Base.Util Expand.PyStr Expand.Expand.
From Coq Require Import List NArith Bool Arith.
Import ListNotations.

(** a valid study: [gen] expanded over two parameters (three rows, two of them
    equal), [sim] inherits one of them through an ordinary dependency, [post]
    funnels all instances of [sim], [solo] uses nothing *)
Definition w_valid : spec :=
  mkSpec (Str.s "/R") 3
    [mkP (Str.s "N") [] [Str.s "1"; Str.s "2"; Str.s "1"] (LT []);
     mkP (Str.s "NX") (Str.s "nx") [Str.s "a"; Str.s "a"; Str.s "b"] (LT (Str.s "x%%"))]
    [mkS (Str.s "gen") (Str.s "make $(N)") [] (Str.s "echo $(N) $(NX.label) > $(WORKSPACE)/o") [] [];
     mkS (Str.s "sim") (Str.s "run") [Str.s "gen"] (Str.s "cat $(gen.workspace)/o $(N)")
         (Str.s "again") [(Str.s "nodes", Str.s "$(N)")];
     mkS (Str.s "post") (Str.s "collect") [Str.s "sim_*"] (Str.s "ls $(sim.workspace)") [] [];
     mkS (Str.s "solo") (Str.s "alone") [] (Str.s "true") [] []].

(** K2: custom labels joined by ".": rows (a.b, c) and (a, b.c) both give "a.b.c" *)
Definition w_k2 : spec :=
  mkSpec (Str.s "/R") 0
    [mkP (Str.s "A") [] [Str.s "u0"; Str.s "u1"] (LL [Str.s "a.b"; Str.s "a"]);
     mkP (Str.s "B") [] [Str.s "w0"; Str.s "w1"] (LL [Str.s "c"; Str.s "b.c"])]
    [mkS (Str.s "s") (Str.s "step") [] (Str.s "echo $(A) $(B)") [] []].

(** K2b: the instance "sim_N.1" of step "sim" and the step "sim_N.1" *)
Definition w_k2b : spec :=
  mkSpec (Str.s "/R") 0
    [mkP (Str.s "N") [] [Str.s "1"; Str.s "2"] (LT [])]
    [mkS (Str.s "sim_N.1") (Str.s "clash") [] (Str.s "echo clash") [] [];
     mkS (Str.s "sim") (Str.s "step") [] (Str.s "echo $(N)") [] []].

(** a value that is itself token text (K4b of C09): rows 0 and 1 agree on A, the
    only parameter the text "$(A)" uses, yet expand it differently *)
Definition w_k4b_params : list param :=
  [mkP (Str.s "A") [] [Str.s "$(B)"; Str.s "$(B)"] (LT []);
   mkP (Str.s "B") [] [Str.s "x"; Str.s "y"] (LT [])].

(** Lemmas about the Python string operations of PyStr.v. *)
From MWF Require Import Base.Str Expand.PyStr.
From Coq Require Import List NArith Bool Arith Lia.
Import ListNotations.

(** * equality *)
Lemma str_eqb_refl : forall a, str_eqb a a = true.
Proof. induction a; simpl; auto. rewrite N.eqb_refl, IHa. reflexivity. Qed.

Lemma str_eqb_eq : forall a b, str_eqb a b = true <-> a = b.
Proof.
  induction a; destruct b; simpl; split; intros H; try discriminate; auto.
  - apply andb_true_iff in H. destruct H as [H1 H2].
    apply N.eqb_eq in H1. apply IHa in H2. congruence.
  - inversion H; subst. rewrite N.eqb_refl. simpl. apply str_eqb_refl.
Qed.

Lemma str_eqb_neq : forall a b, str_eqb a b = false <-> a <> b.
Proof.
  intros. split; intros H.
  - intros E. apply str_eqb_eq in E. congruence.
  - destruct (str_eqb a b) eqn:E; auto. apply str_eqb_eq in E. contradiction.
Qed.

Lemma str_eqb_sym : forall a b, str_eqb a b = str_eqb b a.
Proof.
  intros. destruct (str_eqb a b) eqn:E.
  - apply str_eqb_eq in E. subst. symmetry. apply str_eqb_refl.
  - symmetry. apply str_eqb_neq. apply str_eqb_neq in E. congruence.
Qed.

Lemma str_mem_In : forall x l, str_mem x l = true <-> In x l.
Proof.
  unfold str_mem. intros. rewrite existsb_exists. split.
  - intros [y [Hy E]]. apply str_eqb_eq in E. subst. auto.
  - intros H. exists x. split; auto. apply str_eqb_refl.
Qed.

Lemma str_nodupb_NoDup : forall l, str_nodupb l = true <-> NoDup l.
Proof.
  induction l; simpl.
  - split; auto. constructor.
  - rewrite andb_true_iff, negb_true_iff, IHl. split.
    + intros [H1 H2]. constructor; auto. intros Hin. apply str_mem_In in Hin. congruence.
    + intros H. inversion H; subst. split; auto.
      destruct (str_mem a l) eqn:E; auto. apply str_mem_In in E. contradiction.
Qed.

(** * prefix *)
Definition isprefix (p x : str) : Prop := exists r, x = p ++ r.

Lemma prefixb_spec : forall p x, prefixb p x = true <-> isprefix p x.
Proof.
  unfold isprefix. induction p; intros x; simpl.
  - split; auto. intros _. exists x. reflexivity.
  - destruct x as [|b x].
    + split; [discriminate|]. intros [r Hr]. discriminate.
    + rewrite andb_true_iff, N.eqb_eq, IHp. split.
      * intros [E [r Hr]]. subst. exists r. reflexivity.
      * intros [r Hr]. inversion Hr; subst. split; auto. exists r. reflexivity.
Qed.

Lemma prefixb_app : forall p r, prefixb p (p ++ r) = true.
Proof. intros. apply prefixb_spec. exists r. reflexivity. Qed.

Lemma prefixb_false : forall p x, prefixb p x = false <-> ~ isprefix p x.
Proof.
  intros. split; intros H.
  - intros P. apply prefixb_spec in P. congruence.
  - destruct (prefixb p x) eqn:E; auto. apply prefixb_spec in E. contradiction.
Qed.

Lemma prefix_app_r : forall p x y, isprefix p x -> isprefix p (x ++ y).
Proof. intros p x y [r Hr]. subst. exists (r ++ y). rewrite app_assoc. reflexivity. Qed.

(** A isprefix of [a ++ y] either lies within [a] or extends properly into [y]. *)
Lemma prefix_app_split : forall p a y,
  isprefix p (a ++ y) ->
  isprefix p a \/ exists p', p' <> [] /\ p = a ++ p' /\ isprefix p' y.
Proof.
  intros p a y [r Hr]. symmetry in Hr. apply app_eq_app in Hr.
  destruct Hr as [l [[H1 H2] | [H1 H2]]].
  - (* p = a ++ l, y = l ++ r *)
    destruct l as [|c l].
    + left. exists []. rewrite app_nil_r in *. congruence.
    + right. exists (c :: l). split; [discriminate|]. split; auto. exists r. auto.
  - left. exists l. auto.
Qed.

(** * occurrence *)
Definition occurs (sub x : str) : Prop := exists a b, x = a ++ sub ++ b.

Lemma occursb_spec : forall sub x, occursb sub x = true <-> occurs sub x.
Proof.
  unfold occurs. intros sub. induction x as [|c x IH].
  - simpl. rewrite orb_false_r. rewrite prefixb_spec. unfold isprefix. split.
    + intros [r Hr]. exists [], r. auto.
    + intros [a [b Hab]]. destruct a; simpl in Hab.
      * exists b. auto.
      * discriminate.
  - simpl occursb. rewrite orb_true_iff, prefixb_spec, IH. unfold isprefix. split.
    + intros [[r Hr] | [a [b Hab]]].
      * exists [], r. auto.
      * exists (c :: a), b. simpl. congruence.
    + intros [a [b Hab]]. destruct a as [|c' a]; simpl in Hab.
      * left. exists b. auto.
      * right. inversion Hab; subst. exists a, b. auto.
Qed.

Lemma occursb_false : forall sub x, occursb sub x = false <-> ~ occurs sub x.
Proof.
  intros. split; intros H.
  - intros P. apply occursb_spec in P. congruence.
  - destruct (occursb sub x) eqn:E; auto. apply occursb_spec in E. contradiction.
Qed.

Lemma occurs_app_l : forall sub a x, occurs sub x -> occurs sub (a ++ x).
Proof. intros sub a x [u [v H]]. subst. exists (a ++ u), v. rewrite app_assoc. reflexivity. Qed.

Lemma occurs_app_r : forall sub x b, occurs sub x -> occurs sub (x ++ b).
Proof.
  intros sub x b [u [v H]]. subst. exists u, (v ++ b).
  rewrite <- !app_assoc. reflexivity.
Qed.

Lemma prefix_occurs : forall sub a x, isprefix sub x -> occurs sub (a ++ x).
Proof. intros sub a x [r Hr]. subst. exists a, r. reflexivity. Qed.

(** [find] agrees with [in]. *)
Lemma find_from_occursb : forall sub x i,
  (exists k, find_from sub x i = Some k) <-> occursb sub x = true.
Proof.
  intros sub. induction x as [|c x IH]; intros i; simpl.
  - destruct (prefixb sub []); simpl.
    + split; eauto.
    + split; [intros [k Hk]; discriminate | discriminate].
  - destruct (prefixb sub (c :: x)); simpl.
    + split; eauto.
    + apply IH.
Qed.

(** * replace *)
Lemma replace_go_skip : forall old new a r,
  replace_go old new (a ++ r) (length a) = replace_go old new r 0.
Proof.
  induction a; intros r; simpl; auto.
Qed.

Lemma replace_nil : forall old new, replace old new [] = match old with [] => new | _ => [] end.
Proof. intros. destruct old; simpl; auto. rewrite app_nil_r. reflexivity. Qed.

(** An occurrence at the head is replaced, scanning resumes after it. *)
Lemma replace_hit : forall old new r,
  old <> [] -> replace old new (old ++ r) = new ++ replace old new r.
Proof.
  intros old new r Hne. destruct old as [|o old]; [contradiction|].
  unfold replace. simpl app. cbn [replace_go].
  change (o :: old ++ r) with ((o :: old) ++ r). rewrite prefixb_app.
  cbn [length pred]. rewrite replace_go_skip. reflexivity.
Qed.

(** No occurrence at the head: the character is copied. *)
Lemma replace_miss : forall old new c r,
  old <> [] -> prefixb old (c :: r) = false ->
  replace old new (c :: r) = c :: replace old new r.
Proof.
  intros old new c r Hne Hp. destruct old as [|o old]; [contradiction|].
  unfold replace. cbn [replace_go]. rewrite Hp. reflexivity.
Qed.

(** If no occurrence of [old] *starts* inside [a] (in [a ++ b]), [a] is copied. *)
Lemma replace_app_nostart : forall old new a b,
  old <> [] ->
  (forall a1 a2, a = a1 ++ a2 -> a2 <> [] -> ~ isprefix old (a2 ++ b)) ->
  replace old new (a ++ b) = a ++ replace old new b.
Proof.
  intros old new a b Hne. induction a as [|c a IH]; intros H; simpl; auto.
  rewrite replace_miss; auto.
  - f_equal. apply IH. intros a1 a2 E Hn. apply (H (c :: a1) a2); auto. simpl. congruence.
  - apply prefixb_false. apply (H [] (c :: a)); auto. discriminate.
Qed.

Lemma replace_no_occurrence : forall old new x,
  old <> [] -> ~ occurs old x -> replace old new x = x.
Proof.
  intros old new x Hne H.
  rewrite <- (app_nil_r x) at 1. rewrite replace_app_nostart; auto.
  - rewrite replace_nil. destruct old; [contradiction|]. apply app_nil_r.
  - intros a1 a2 E _ P. apply H. subst. rewrite app_nil_r in P.
    apply prefix_occurs. exact P.
Qed.

(** * join / sort helpers *)
Lemma str_insert_In : forall x y l, In y (str_insert x l) <-> y = x \/ In y l.
Proof.
  induction l; simpl.
  - intuition.
  - destruct (str_leb x a); simpl; rewrite ?IHl; intuition.
Qed.

Lemma str_sort_In : forall y l, In y (str_sort l) <-> In y l.
Proof.
  induction l; simpl; [tauto|]. rewrite str_insert_In, IHl. intuition.
Qed.

Lemma span_app : forall p x, let (a, b) := span p x in x = a ++ b.
Proof.
  induction x as [|c x IH]; simpl; auto.
  destruct (p c); simpl; auto. destruct (span p x). simpl. congruence.
Qed.

Lemma span_all : forall p x, forallb p (fst (span p x)) = true.
Proof.
  induction x as [|c x IH]; simpl; auto.
  destruct (p c) eqn:E; simpl; auto. destruct (span p x). simpl in *. rewrite E. auto.
Qed.

(** C11, part 1: no observable of a staging depends on the set-iteration
    oracles.  Self-contained (needs only Expand.v and OrderFree.v): the lemmas up
    to [stage_order_free] are the ones of ExpandProofs.v (that file is being
    extended for C08; C11 must not break when it does).

    Plan: graphs are compared up to the representation of the [_dependencies]
    sets ([g_eqv]: same node names in the same order, same records, same
    adjacency lists, dependency sets equal as sets).  Every graph operation of
    Expand.v respects [g_eqv]; two connections into the same child commute up to
    [g_eqv] ([conn_fn_comm]), hence connecting a permuted parent list gives a
    [g_eqv] graph ([connect_all_perm]); the parent lists under two admissible
    oracles are permutations of each other ([parent_list_perm]); [step_combos]
    and [workspaces] never see the oracle.  The observable lists
    [_dependencies] in node order, so [g_eqv] graphs have EQUAL observables. *)
From MWF Require Import Base.Str Base.Util Expand.PyStr Expand.Expand Expand.OrderFree.
From Coq Require Import List NArith Bool Arith Lia Permutation.
Import ListNotations.

(* ------------------------------------------------------------------------ *)
(** * Strings and string sets *)
Lemma str_eqb_refl x : str_eqb x x = true.
Proof. induction x; simpl; auto. rewrite N.eqb_refl; auto. Qed.

Lemma str_eqb_eq x y : str_eqb x y = true <-> x = y.
Proof.
  split; [|intros ->; apply str_eqb_refl].
  revert y; induction x; destruct y; simpl; try discriminate; auto.
  intros H; apply andb_true_iff in H as [H1 H2].
  apply N.eqb_eq in H1; subst; f_equal; auto.
Qed.

Lemma str_eqb_neq x y : str_eqb x y = false <-> x <> y.
Proof.
  split; intros H.
  - intros E; apply str_eqb_eq in E; congruence.
  - destruct (str_eqb x y) eqn:E; auto. apply str_eqb_eq in E; contradiction.
Qed.

Lemma str_eqb_sym x y : str_eqb x y = str_eqb y x.
Proof.
  destruct (str_eqb x y) eqn:E.
  - apply str_eqb_eq in E; subst; symmetry; apply str_eqb_refl.
  - apply str_eqb_neq in E. symmetry; apply str_eqb_neq; auto.
Qed.

Ltac seqb a b :=
  let E := fresh "E" in
  destruct (str_eqb a b) eqn:E;
  [apply str_eqb_eq in E; try subst | pose proof (proj1 (str_eqb_neq _ _) E)].

Lemma str_dec (x y : str) : {x = y} + {x <> y}.
Proof. destruct (str_eqb x y) eqn:E; [left; apply str_eqb_eq; auto | right; apply str_eqb_neq; auto]. Qed.

Lemma str_mem_In x l : str_mem x l = true <-> In x l.
Proof.
  unfold str_mem; rewrite existsb_exists; split.
  - intros [y [Hy E]]; apply str_eqb_eq in E; subst; auto.
  - intros H; exists x; split; auto; apply str_eqb_refl.
Qed.

Lemma str_mem_nIn x l : str_mem x l = false <-> ~ In x l.
Proof.
  split; intros H.
  - intros Hi; apply str_mem_In in Hi; congruence.
  - destruct (str_mem x l) eqn:E; auto. apply str_mem_In in E; contradiction.
Qed.

Lemma str_nodupb_NoDup l : str_nodupb l = true <-> NoDup l.
Proof.
  induction l; simpl.
  - split; auto; constructor.
  - rewrite andb_true_iff, negb_true_iff, str_mem_nIn, IHl.
    split; [intros [? ?]; constructor; auto | intros H; inversion H; auto].
Qed.

Lemma In_sadd_s x y l : In y (sadd_s x l) <-> y = x \/ In y l.
Proof.
  unfold sadd_s; destruct (str_mem x l) eqn:E.
  - apply str_mem_In in E; split; auto. intros [->|]; auto.
  - rewrite in_app_iff; simpl; intuition.
Qed.


Definition set_eq (a b : list str) : Prop := forall x, In x a <-> In x b.

Lemma set_eq_refl a : set_eq a a.
Proof. intro; tauto. Qed.
Lemma set_eq_sym a b : set_eq a b -> set_eq b a.
Proof. intros H x; symmetry; auto. Qed.
Lemma set_eq_trans a b c : set_eq a b -> set_eq b c -> set_eq a c.
Proof. intros H1 H2 x; split; intros H; [apply H2, H1 | apply H1, H2]; auto. Qed.

Lemma set_eq_mem a b : set_eq a b -> forall x, str_mem x a = str_mem x b.
Proof.
  intros H x. destruct (str_mem x a) eqn:E.
  - symmetry; apply str_mem_In, H, str_mem_In; auto.
  - symmetry; apply str_mem_nIn; intros Hi; apply H in Hi; apply str_mem_In in Hi; congruence.
Qed.

Lemma canon_set_eq names a b : set_eq a b -> canon_set names a = canon_set names b.
Proof.
  intros H; unfold canon_set; apply filter_ext; intros; apply set_eq_mem; auto.
Qed.

(* ------------------------------------------------------------------------ *)
(** * Association lists *)
Lemma alookup_aset_same {A} k (v : A) m : alookup k (aset k v m) = Some v.
Proof.
  induction m as [|[k' v'] m]; simpl.
  - rewrite str_eqb_refl; auto.
  - seqb k k'; simpl.
    + rewrite str_eqb_refl; auto.
    + rewrite E; auto.
Qed.

Lemma alookup_aset_other {A} k k2 (v : A) m : k2 <> k -> alookup k2 (aset k v m) = alookup k2 m.
Proof.
  intros Hn; induction m as [|[k' v'] m]; simpl.
  - apply str_eqb_neq in Hn; rewrite Hn; auto.
  - seqb k k'; simpl.
    + apply str_eqb_neq in Hn; rewrite Hn; auto.
    + seqb k2 k'; auto.
Qed.

Lemma akeys_aset {A} k (v : A) m x : In x (akeys (aset k v m)) <-> x = k \/ In x (akeys m).
Proof.
  unfold akeys; induction m as [|[k' v'] m]; simpl.
  - intuition.
  - seqb k k'; simpl; intuition.
Qed.

Lemma alookup_In_keys {A} k (m : list (str * A)) : (exists v, alookup k m = Some v) <-> In k (akeys m).
Proof.
  unfold akeys; induction m as [|[k' v'] m]; simpl.
  - split; [intros [? ?]; discriminate | tauto].
  - seqb k k'.
    + split; eauto.
    + rewrite IHm; intuition; congruence.
Qed.

Lemma alookup_None_keys {A} k (m : list (str * A)) : alookup k m = None <-> ~ In k (akeys m).
Proof.
  rewrite <- alookup_In_keys. destruct (alookup k m) eqn:E; split; intros H.
  - discriminate.
  - exfalso; apply H; eauto.
  - intros [v Hv]; discriminate.
  - reflexivity.
Qed.

(* ------------------------------------------------------------------------ *)
(** * Graph operations *)
Lemma g_has_names x g : g_has x g = str_mem x (g_names g).
Proof.
  unfold g_has, g_names, str_mem; induction g; simpl; auto. rewrite IHg; auto.
Qed.

Lemma g_names_on_node x f g :
  (forall nd, nd_name (f nd) = nd_name nd) -> g_names (on_node x f g) = g_names g.
Proof.
  intros Hf; unfold g_names, on_node; rewrite map_map; apply map_ext.
  intros nd; destruct (str_eqb x (nd_name nd)); auto.
Qed.

Lemma add_kid_name c nd : nd_name (add_kid c nd) = nd_name nd.  Proof. reflexivity. Qed.
Lemma add_dep_name c nd : nd_name (add_dep c nd) = nd_name nd.  Proof. reflexivity. Qed.

Lemma g_names_add x r g :
  g_names (g_add x r g) = if g_has x g then g_names g else g_names g ++ [x].
Proof.
  unfold g_add; destruct (g_has x g).
  - apply g_names_on_node; auto.
  - unfold g_names; rewrite map_app; auto.
Qed.

Lemma g_connect_names p c g g' : g_connect p c g = Some g' -> g_names g' = g_names g.
Proof.
  unfold g_connect; destruct (str_eqb p c).
  - intros H; inversion H; apply g_names_on_node; auto.
  - destruct (g_has p g); [|discriminate].
    intros H; inversion H. rewrite !g_names_on_node; auto.
Qed.

Lemma connect_all_cons p ps c g :
  connect_all (p :: ps) c g =
  match g_connect p c g with Some g' => connect_all ps c g' | None => None end.
Proof.
  unfold connect_all; simpl. destruct (g_connect p c g); auto.
  induction ps; simpl; auto.
Qed.

Lemma connect_all_nil c g : connect_all [] c g = Some g.
Proof. reflexivity. Qed.

Lemma connect_all_names ps c : forall g g', connect_all ps c g = Some g' -> g_names g' = g_names g.
Proof.
  induction ps; intros g g'.
  - rewrite connect_all_nil; intros H; inversion H; auto.
  - rewrite connect_all_cons. destruct (g_connect a c g) eqn:E; [|discriminate].
    intros H; apply IHps in H. rewrite H; eapply g_connect_names; eauto.
Qed.

(* ------------------------------------------------------------------------ *)
(** * Graphs up to the representation of the [_dependencies] sets *)
Definition node_eqv (a b : node) : Prop :=
  nd_name a = nd_name b /\ nd_rec a = nd_rec b /\ nd_kids a = nd_kids b
  /\ set_eq (nd_deps a) (nd_deps b).
Definition g_eqv (g g' : graph) : Prop := Forall2 node_eqv g g'.

Definition opt_rel {A} (R : A -> A -> Prop) (a b : option A) : Prop :=
  match a, b with
  | Some x, Some y => R x y
  | None, None => True
  | _, _ => False
  end.

Lemma node_eqv_refl a : node_eqv a a.
Proof. repeat split; auto. Qed.
Lemma node_eqv_trans a b c : node_eqv a b -> node_eqv b c -> node_eqv a c.
Proof.
  intros (A1 & A2 & A3 & A4) (B1 & B2 & B3 & B4); repeat split; try congruence.
  - intros H; apply B4, A4; auto.
  - intros H; apply A4, B4; auto.
Qed.
Lemma g_eqv_refl g : g_eqv g g.
Proof. induction g; constructor; auto using node_eqv_refl. Qed.
Lemma g_eqv_trans a b c : g_eqv a b -> g_eqv b c -> g_eqv a c.
Proof.
  intros H; revert c; induction H; intros c Hc; inversion Hc; subst; constructor; eauto using node_eqv_trans.
  apply IHForall2; auto.
Qed.

Lemma g_eqv_names g g' : g_eqv g g' -> g_names g = g_names g'.
Proof. induction 1; simpl; auto. destruct H as [-> _]; f_equal; auto. Qed.

Lemma g_eqv_has g g' x : g_eqv g g' -> g_has x g = g_has x g'.
Proof. intros H; rewrite !g_has_names, (g_eqv_names _ _ H); auto. Qed.

Lemma g_eqv_map f f' g g' :
  g_eqv g g' -> (forall a b, node_eqv a b -> node_eqv (f a) (f' b)) -> g_eqv (map f g) (map f' g').
Proof. induction 1; simpl; intros Hf; constructor; auto. apply IHForall2; auto. Qed.

Lemma g_eqv_app a a' b b' : g_eqv a a' -> g_eqv b b' -> g_eqv (a ++ b) (a' ++ b').
Proof. intros; apply Forall2_app; auto. Qed.

Lemma g_add_eqv x r g g' : g_eqv g g' -> g_eqv (g_add x r g) (g_add x r g').
Proof.
  intros H; unfold g_add; rewrite <- (g_eqv_has _ _ x H). destruct (g_has x g).
  - unfold on_node; apply g_eqv_map; auto.
    intros a b (A1 & A2 & A3 & A4); rewrite A1. destruct (str_eqb x (nd_name b)).
    + repeat split; simpl; auto.
    + repeat split; auto; apply A4.
  - apply g_eqv_app; auto. constructor; [apply node_eqv_refl | constructor].
Qed.

(** the node transformer of one connection *)
Definition conn_fn (p c : str) (nd : node) : node :=
  let nd1 := if negb (str_eqb p c) && str_eqb p (nd_name nd) then add_kid c nd else nd in
  if str_eqb c (nd_name nd1) then add_dep p nd1 else nd1.

Lemma g_connect_map p c g :
  g_connect p c g = if str_eqb p c || g_has p g then Some (map (conn_fn p c) g) else None.
Proof.
  unfold g_connect, on_node, conn_fn. destruct (str_eqb p c) eqn:E; simpl.
  - f_equal; apply map_ext; intros; auto.
  - destruct (g_has p g); auto. rewrite map_map; f_equal.
Qed.

Lemma conn_fn_eqv p c a b : node_eqv a b -> node_eqv (conn_fn p c a) (conn_fn p c b).
Proof.
  intros (A1 & A2 & A3 & A4); unfold conn_fn; rewrite A1.
  destruct (negb (str_eqb p c) && str_eqb p (nd_name b)); simpl; rewrite ?A1;
    destruct (str_eqb c (nd_name b)); repeat split; simpl; auto; try congruence;
    try (rewrite !In_sadd_s; intros [?|?]; [left; auto | right; apply A4; auto]); try apply A4.
Qed.

Lemma conn_fn_name p c a : nd_name (conn_fn p c a) = nd_name a.
Proof.
  unfold conn_fn. destruct (negb (str_eqb p c) && str_eqb p (nd_name a)); simpl;
    destruct (str_eqb c (nd_name a)); auto.
Qed.

Lemma g_connect_eqv p c g g' :
  g_eqv g g' -> opt_rel g_eqv (g_connect p c g) (g_connect p c g').
Proof.
  intros H; rewrite !g_connect_map, <- (g_eqv_has _ _ p H).
  destruct (str_eqb p c || g_has p g); simpl; auto.
  apply g_eqv_map; auto using conn_fn_eqv.
Qed.

Lemma conn_fn_kids p c nd :
  nd_kids (conn_fn p c nd) =
  if negb (str_eqb p c) && str_eqb p (nd_name nd) then sadd_s c (nd_kids nd) else nd_kids nd.
Proof.
  unfold conn_fn. destruct (negb (str_eqb p c) && str_eqb p (nd_name nd)); simpl;
    destruct (str_eqb c (nd_name nd)); auto.
Qed.

Lemma conn_fn_deps p c nd :
  nd_deps (conn_fn p c nd) = if str_eqb c (nd_name nd) then sadd_s p (nd_deps nd) else nd_deps nd.
Proof.
  unfold conn_fn. destruct (negb (str_eqb p c) && str_eqb p (nd_name nd)); simpl;
    destruct (str_eqb c (nd_name nd)); auto.
Qed.

Lemma conn_fn_rec p c nd : nd_rec (conn_fn p c nd) = nd_rec nd.
Proof.
  unfold conn_fn. destruct (negb (str_eqb p c) && str_eqb p (nd_name nd)); simpl;
    destruct (str_eqb c (nd_name nd)); auto.
Qed.

Lemma conn_fn_comm a b c nd :
  node_eqv (conn_fn a c (conn_fn b c nd)) (conn_fn b c (conn_fn a c nd)).
Proof.
  unfold node_eqv. rewrite !conn_fn_name, !conn_fn_rec, !conn_fn_kids, !conn_fn_deps, !conn_fn_name.
  repeat split; auto.
  - destruct (negb (str_eqb a c) && str_eqb a (nd_name nd)),
             (negb (str_eqb b c) && str_eqb b (nd_name nd)); auto.
  - destruct (str_eqb c (nd_name nd)); auto. rewrite !In_sadd_s; tauto.
  - destruct (str_eqb c (nd_name nd)); auto. rewrite !In_sadd_s; tauto.
Qed.

Lemma g_has_map_conn p c x g : g_has x (map (conn_fn p c) g) = g_has x g.
Proof.
  rewrite !g_has_names; unfold g_names; rewrite map_map.
  f_equal; apply map_ext; intros; apply conn_fn_name.
Qed.

Lemma connect_all_eqv ps c : forall g g',
  g_eqv g g' -> opt_rel g_eqv (connect_all ps c g) (connect_all ps c g').
Proof.
  induction ps; intros g g' H.
  - simpl; auto.
  - rewrite !connect_all_cons. pose proof (g_connect_eqv a c g g' H) as Hc.
    destruct (g_connect a c g), (g_connect a c g'); simpl in Hc; try contradiction; simpl; auto.
Qed.

Lemma opt_rel_trans {A} (R : A -> A -> Prop) a b c :
  (forall x y z, R x y -> R y z -> R x z) -> opt_rel R a b -> opt_rel R b c -> opt_rel R a c.
Proof. intros HT; destruct a, b, c; simpl; try tauto; eauto. Qed.

Lemma connect_all_perm c l l' :
  Permutation l l' -> forall g g', g_eqv g g' ->
  opt_rel g_eqv (connect_all l c g) (connect_all l' c g').
Proof.
  induction 1; intros g g' Hg.
  - simpl; auto.
  - rewrite !connect_all_cons. pose proof (g_connect_eqv x c g g' Hg) as Hc.
    destruct (g_connect x c g), (g_connect x c g'); simpl in Hc; try contradiction; simpl; auto.
  - assert (Hx : g_has x g' = g_has x g) by (symmetry; apply g_eqv_has; auto).
    assert (Hy : g_has y g' = g_has y g) by (symmetry; apply g_eqv_has; auto).
    rewrite !connect_all_cons, !g_connect_map, ?Hx, ?Hy.
    destruct (str_eqb y c || g_has y g) eqn:Ey; destruct (str_eqb x c || g_has x g) eqn:Ex; simpl;
      rewrite ?connect_all_cons, ?g_connect_map, ?g_has_map_conn, ?Hx, ?Hy, ?Ex, ?Ey; simpl; auto.
    apply connect_all_eqv.
    rewrite !map_map. apply g_eqv_map; auto.
    intros a b Hab. eapply node_eqv_trans; [apply conn_fn_comm|].
    apply conn_fn_eqv, conn_fn_eqv; auto.
  - eapply opt_rel_trans; [apply g_eqv_trans | apply IHPermutation1, g_eqv_refl | apply IHPermutation2; auto].
Qed.

(* ------------------------------------------------------------------------ *)
(** * C11: staging does not depend on the set-iteration oracles *)

Lemma perm_oracle_id : perm_oracle pi_id.
Proof. intro; apply Permutation_refl. Qed.
Lemma perm_oracle_rev : perm_oracle pi_rev.
Proof. intro; apply Permutation_sym, Permutation_rev. Qed.

Definition st_eqv (a b : sstate) : Prop :=
  g_eqv (st_g a) (st_g b) /\ st_combos a = st_combos b /\ st_ws a = st_ws b.

Lemma st_eqv_refl a : st_eqv a a.
Proof. repeat split; auto using g_eqv_refl. Qed.

Lemma hub_items_perm combos hs hs' :
  Permutation hs hs' -> forall pi pi', perm_oracle pi -> perm_oracle pi' ->
  opt_rel (@Permutation str) (hub_items pi combos hs) (hub_items pi' combos hs').
Proof.
  induction 1; intros pi pi' Hp Hp'.
  - simpl; auto.
  - simpl. specialize (IHPermutation pi pi' Hp Hp').
    destruct (alookup x combos), (hub_items pi combos l), (hub_items pi' combos l');
      simpl in *; auto; try contradiction.
    apply Permutation_app; auto.
    eapply Permutation_trans; [apply Hp | apply Permutation_sym, Hp'].
  - simpl.
    assert (IH : opt_rel (@Permutation str) (hub_items pi combos l) (hub_items pi' combos l)).
    { clear x y. induction l; simpl; auto.
      destruct (alookup a combos), (hub_items pi combos l), (hub_items pi' combos l);
        simpl in *; auto; try contradiction.
      apply Permutation_app; auto.
      eapply Permutation_trans; [apply Hp | apply Permutation_sym, Hp']. }
    destruct (alookup y combos) as [cy|], (alookup x combos) as [cx|];
      destruct (hub_items pi combos l), (hub_items pi' combos l); simpl in *; auto.
    rewrite !app_assoc. apply Permutation_app; auto.
    eapply Permutation_trans; [apply Permutation_app_comm|].
    apply Permutation_app.
    + eapply Permutation_trans; [apply Hp | apply Permutation_sym, Hp'].
    + eapply Permutation_trans; [apply Hp | apply Permutation_sym, Hp'].
  - eapply opt_rel_trans; [apply @Permutation_trans | apply (IHPermutation1 pi pi) | apply IHPermutation2]; auto.
Qed.

Lemma parent_list_perm pi pi' sp um combos t i :
  perm_oracle pi -> perm_oracle pi' ->
  opt_rel (@Permutation str) (parent_list pi sp um combos t i) (parent_list pi' sp um combos t i).
Proof.
  intros Hp Hp'; unfold parent_list.
  assert (Hh : opt_rel (@Permutation str) (hub_items pi combos (pi (deps_hub t)))
                       (hub_items pi' combos (pi' (deps_hub t)))).
  { apply hub_items_perm; auto.
    eapply Permutation_trans; [apply Hp | apply Permutation_sym, Hp']. }
  assert (Ho : Permutation (map (fun p => iname (sp_params sp) um p i) (pi (deps_ord t)))
                           (map (fun p => iname (sp_params sp) um p i) (pi' (deps_ord t)))).
  { apply Permutation_map. eapply Permutation_trans; [apply Hp | apply Permutation_sym, Hp']. }
  destruct (deps_ord t) eqn:Eo, (deps_hub t) eqn:Eh; simpl; auto;
    destruct (hub_items pi combos _), (hub_items pi' combos _); simpl in *; auto;
    apply Permutation_app; auto.
Qed.

Lemma add_instance_eqv san pi pi' sp um t x comps f params i st st' :
  perm_oracle pi -> perm_oracle pi' -> st_eqv st st' ->
  opt_rel st_eqv (add_instance san pi sp um t x comps f params i st)
                 (add_instance san pi' sp um t x comps f params i st').
Proof.
  intros Hp Hp' (Hg & Hc & Hw); unfold add_instance. rewrite <- Hw, <- Hc.
  destruct (ws_pass san sp um (st_ws st) t i (step_wsrefs t) (f (s_cmd t), f (s_restart t)))
    as [[cmd rcmd]|]; simpl; auto.
  pose proof (parent_list_perm pi pi' sp um (st_combos st) t i Hp Hp') as HP.
  destruct (parent_list pi sp um (st_combos st) t i) as [l|],
           (parent_list pi' sp um (st_combos st) t i) as [l'|]; simpl in HP; try contradiction; simpl; auto.
  match goal with |- context [g_add x ?r (st_g st)] =>
    pose proof (connect_all_perm x l l' HP _ _ (g_add_eqv x r _ _ Hg)) as HC end.
  destruct (connect_all l x _), (connect_all l' x _); simpl in *; try contradiction; auto.
  repeat split; auto.
Qed.

Lemma stage_row_eqv ap san pi pi' sp um t U st st' i :
  perm_oracle pi -> perm_oracle pi' -> st_eqv st st' ->
  opt_rel st_eqv (stage_row ap san pi sp um t U st i) (stage_row ap san pi' sp um t U st' i).
Proof.
  intros Hp Hp' (Hg & Hc & Hw); unfold stage_row; simpl. rewrite <- Hc, <- Hw.
  destruct (str_mem _ (akeys (st_combos st))); simpl.
  - repeat split; auto.
  - apply add_instance_eqv; auto. repeat split; auto.
Qed.

Lemma fold_opt_eqv {A} (R : sstate -> sstate -> Prop) (f f' : sstate -> A -> option sstate) l :
  (forall a s s', R s s' -> opt_rel R (f s a) (f' s' a)) ->
  forall o o', opt_rel R o o' ->
  opt_rel R (fold_left (fun ost a => match ost with Some s => f s a | None => None end) l o)
            (fold_left (fun ost a => match ost with Some s => f' s a | None => None end) l o').
Proof.
  intros Hf; induction l; simpl; auto.
  intros o o' Ho. apply IHl. destruct o, o'; simpl in *; auto; contradiction.
Qed.

Lemma stage_step_eqv ap san pi pi' sp um t st st' :
  perm_oracle pi -> perm_oracle pi' -> st_eqv st st' ->
  opt_rel st_eqv (stage_step ap san pi sp um t st) (stage_step ap san pi' sp um t st').
Proof.
  intros Hp Hp' (Hg & Hc & Hw); unfold stage_step. rewrite <- Hc, <- Hw.
  destruct (used_in um (s_name t)) eqn:EU.
  - apply add_instance_eqv; auto. repeat split; auto.
  - apply fold_opt_eqv.
    + intros; apply stage_row_eqv; auto.
    + simpl; repeat split; auto.
Qed.

Lemma stage_go_eqv ap san pi pi' sp um order :
  perm_oracle pi -> perm_oracle pi' -> forall st st', st_eqv st st' ->
  opt_rel st_eqv (stage_go ap san pi sp um order st) (stage_go ap san pi' sp um order st').
Proof.
  intros Hp Hp'; induction order; intros st st' H; simpl; auto.
  destruct (str_eqb a SOURCE).
  - apply IHorder. destruct H as (Hg & Hc & Hw). repeat split; simpl; auto.
    rewrite <- (g_eqv_has _ _ SOURCE Hg). destruct (g_has SOURCE (st_g st)); auto.
    apply g_eqv_app; auto. constructor; [apply node_eqv_refl | constructor].
  - destruct (find_step sp a); simpl; auto.
    pose proof (stage_step_eqv ap san pi pi' sp um s st st' Hp Hp' H) as HS.
    destruct (stage_step ap san pi sp um s st), (stage_step ap san pi' sp um s st');
      simpl in HS; try contradiction; simpl; auto.
Qed.

Lemma observe_eqv g g' : g_eqv g g' -> observe g = observe g'.
Proof.
  intros H; unfold observe. rewrite <- (g_eqv_names _ _ H).
  generalize (g_names g) as names. induction H; simpl; auto.
  intros names; f_equal; auto.
  destruct H as (A1 & A2 & A3 & A4). unfold obs_node. rewrite A1, A2, A3, (canon_set_eq names _ _ A4); auto.
Qed.

(** every observable of a staging (used table, node names in insertion order,
    adjacency lists, dependency sets, records) is independent of the oracles *)
Theorem stage_order_free ap san pi pi' sp :
  perm_oracle pi -> perm_oracle pi' ->
  observe_result (stage ap san pi sp) = observe_result (stage ap san pi' sp).
Proof.
  intros Hp Hp'; unfold stage.
  destruct (negb (construct_ok [SOURCE] (sp_steps sp))); auto.
  destruct (negb (topo_ok sp (toposort sp))); auto.
  destruct (plan_go sp (toposort sp) [(SOURCE, [])]) as [um|]; auto.
  pose proof (stage_go_eqv ap san pi pi' sp um (toposort sp) Hp Hp' _ _ (st_eqv_refl (init_state sp))) as H.
  destruct (stage_go ap san pi sp um (toposort sp) (init_state sp)),
           (stage_go ap san pi' sp um (toposort sp) (init_state sp)); simpl in H; try contradiction; auto.
  simpl. destruct H as (Hg & _ & _). rewrite (observe_eqv _ _ Hg); auto.
Qed.

(* ------------------------------------------------------------------------ *)
(** * The same statement on the final STATES (stronger than the observable:
    absolute workspaces, the [workspaces] and [step_combos] tables) *)
Definition result_rel (a b : result (usedmap * sstate)) : Prop :=
  match a, b with
  | Ok (um, st), Ok (um', st') => um = um' /\ st_eqv st st'
  | Err e, Err e' => e = e'
  | _, _ => False
  end.

Theorem stage_states_order_free ap san pi pi' sp :
  perm_oracle pi -> perm_oracle pi' ->
  result_rel (stage ap san pi sp) (stage ap san pi' sp).
Proof.
  intros Hp Hp'; unfold stage.
  destruct (negb (construct_ok [SOURCE] (sp_steps sp))); simpl; auto.
  destruct (negb (topo_ok sp (toposort sp))); simpl; auto.
  destruct (plan_go sp (toposort sp) [(SOURCE, [])]) as [um|]; simpl; auto.
  pose proof (stage_go_eqv ap san pi pi' sp um (toposort sp) Hp Hp' _ _ (st_eqv_refl (init_state sp))) as H.
  destruct (stage_go ap san pi sp um (toposort sp) (init_state sp)),
           (stage_go ap san pi' sp um (toposort sp) (init_state sp)); simpl in H; try contradiction; simpl; auto.
Qed.

Lemma g_eqv_find g g' x :
  g_eqv g g' -> opt_rel node_eqv (g_find x g) (g_find x g').
Proof.
  unfold g_find. induction 1; simpl; auto.
  destruct H as (A1 & A2 & A3 & A4). rewrite A1. destruct (str_eqb x (nd_name y)); simpl; auto.
  repeat split; auto; apply A4.
Qed.

Lemma g_eqv_kids g g' p : g_eqv g g' -> kids_of g p = kids_of g' p.
Proof.
  intros H; unfold kids_of. pose proof (g_eqv_find g g' p H) as F.
  destruct (g_find p g), (g_find p g'); simpl in F; try contradiction; auto. apply F.
Qed.

Lemma g_eqv_rec g g' x : g_eqv g g' -> rec_of g x = rec_of g' x.
Proof.
  intros H; unfold rec_of. pose proof (g_eqv_find g g' x H) as F.
  destruct (g_find x g), (g_find x g'); simpl in F; try contradiction; auto. apply F.
Qed.

Lemma g_eqv_deps g g' x : g_eqv g g' -> set_eq (deps_of g x) (deps_of g' x).
Proof.
  intros H; unfold deps_of. pose proof (g_eqv_find g g' x H) as F.
  destruct (g_find x g), (g_find x g'); simpl in F; try contradiction; try apply set_eq_refl. apply F.
Qed.

(** core: the SET of instance names (indeed their order), the edge SET (both
    views of it: adjacency lists and dependency sets) and every per-instance
    datum are the same under any two admissible oracles *)
Theorem stage_core_order_free ap san pi pi' sp um st um' st' :
  perm_oracle pi -> perm_oracle pi' ->
  stage ap san pi sp = Ok (um, st) -> stage ap san pi' sp = Ok (um', st') ->
  um = um'
  /\ g_names (st_g st) = g_names (st_g st')
  /\ (forall p, kids_of (st_g st) p = kids_of (st_g st') p)
  /\ (forall x p, In p (deps_of (st_g st) x) <-> In p (deps_of (st_g st') x))
  /\ (forall x, rec_of (st_g st) x = rec_of (st_g st') x)
  /\ st_ws st = st_ws st' /\ st_combos st = st_combos st'.
Proof.
  intros Hp Hp' E E'. pose proof (stage_states_order_free ap san pi pi' sp Hp Hp') as H.
  rewrite E, E' in H; simpl in H. destruct H as (-> & Hg & Hc & Hw).
  repeat split; auto.
  - apply g_eqv_names; auto.
  - intros; apply g_eqv_kids; auto.
  - apply (g_eqv_deps _ _ x Hg).
  - apply (g_eqv_deps _ _ x Hg).
  - intros; apply g_eqv_rec; auto.
Qed.

(** success or failure (and which failure) does not depend on the oracle *)
Theorem stage_error_order_free ap san pi pi' sp e :
  perm_oracle pi -> perm_oracle pi' ->
  stage ap san pi sp = Err e -> stage ap san pi' sp = Err e.
Proof.
  intros Hp Hp' E. pose proof (stage_states_order_free ap san pi pi' sp Hp Hp') as H.
  rewrite E in H; simpl in H. destruct (stage ap san pi' sp) as [[? ?]|]; try contradiction; congruence.
Qed.

(* ------------------------------------------------------------------------ *)
(** * The extended observable and the monitor *)
Lemma list_eqb_refl {A} (e : A -> A -> bool) l : (forall x, e x x = true) -> list_eqb e l l = true.
Proof. intros He; induction l; simpl; auto. rewrite He; auto. Qed.

Lemma strs_eqb_refl l : strs_eqb l l = true.
Proof. apply list_eqb_refl, str_eqb_refl. Qed.
Lemma kvs_eqb_refl l : kvs_eqb l l = true.
Proof. apply list_eqb_refl; intros []; unfold kv_eqb; simpl; rewrite !str_eqb_refl; auto. Qed.

Lemma nobs_eqb_refl o : nobs_eqb o o = true.
Proof.
  unfold nobs_eqb. rewrite !str_eqb_refl, !strs_eqb_refl, !kvs_eqb_refl, Nat.eqb_refl, Bool.eqb_reflx; auto.
Qed.

Lemma result_eqb_refl r : result_eqb r r = true.
Proof.
  destruct r as [o|e]; simpl; [|apply Nat.eqb_refl].
  unfold obs_eqb. rewrite !list_eqb_refl; auto using nobs_eqb_refl.
  intros []; unfold kl_eqb; simpl; rewrite str_eqb_refl, strs_eqb_refl; auto.
Qed.

Lemma xobs_eqb_refl x : xobs_eqb x x = true.
Proof.
  unfold xobs_eqb. rewrite result_eqb_refl, str_eqb_refl, !list_eqb_refl; auto.
  - intros []; unfold scr_eqb; simpl; rewrite !str_eqb_refl; auto.
  - intros []; unfold srow_eqb; simpl; rewrite !str_eqb_refl; auto.
  - apply strs_eqb_refl.
Qed.

(** names in insertion order, adjacency table, dependency sets, relative
    workspaces, expanded fields, params listing, AND the derived submission
    order, status rows and script texts: all independent of the oracles *)
Theorem c11_model_order_free ap san pi pi' sp :
  perm_oracle pi -> perm_oracle pi' ->
  c11_model_gen ap san pi sp = c11_model_gen ap san pi' sp.
Proof. intros; unfold c11_model_gen; f_equal; apply stage_order_free; auto. Qed.

(** the monitor holds on the model: any number of expansions under arbitrary
    admissible oracles are pairwise equal *)
Theorem C11_ok_model ap san sp pis :
  Forall perm_oracle pis ->
  C11_ok (map (fun pi => c11_model_gen ap san pi sp) pis) = true.
Proof.
  intros H; destruct pis as [|pi pis]; simpl; auto.
  inversion H as [|? ? Hpi Hpis]; subst.
  apply forallb_forall; intros x Hx. apply in_map_iff in Hx as [pi' [<- Hin]].
  rewrite (c11_model_order_free ap san pi pi' sp); auto using xobs_eqb_refl.
  rewrite Forall_forall in Hpis; auto.
Qed.

(** [C11_ok] means what it says: it decides that all entries are equal *)
Lemma list_eqb_eq {A} (e : A -> A -> bool) :
  (forall x y, e x y = true -> x = y) -> forall a b, list_eqb e a b = true -> a = b.
Proof.
  intros He; induction a; destruct b; simpl; try discriminate; auto.
  intros H; apply andb_true_iff in H as [H1 H2]. f_equal; auto.
Qed.

Lemma strs_eqb_eq a b : strs_eqb a b = true -> a = b.
Proof. apply list_eqb_eq; intros; apply str_eqb_eq; auto. Qed.
Lemma kvs_eqb_eq a b : kvs_eqb a b = true -> a = b.
Proof.
  apply list_eqb_eq; intros [] [] H; unfold kv_eqb in H; simpl in H.
  apply andb_true_iff in H as [H1 H2]; apply str_eqb_eq in H1, H2; subst; auto.
Qed.

Lemma nobs_eqb_eq a b : nobs_eqb a b = true -> a = b.
Proof.
  unfold nobs_eqb; intros H. repeat (apply andb_true_iff in H as [H ?]).
  destruct a, b; simpl in *.
  repeat match goal with
         | H : str_eqb _ _ = true |- _ => apply str_eqb_eq in H
         | H : strs_eqb _ _ = true |- _ => apply strs_eqb_eq in H
         | H : kvs_eqb _ _ = true |- _ => apply kvs_eqb_eq in H
         | H : Nat.eqb _ _ = true |- _ => apply Nat.eqb_eq in H
         | H : Bool.eqb _ _ = true |- _ => apply Bool.eqb_prop in H
         end; subst; auto.
Qed.

Lemma result_eqb_eq a b : result_eqb a b = true -> a = b.
Proof.
  destruct a as [[u n]|e], b as [[u' n']|e']; simpl; try discriminate.
  - unfold obs_eqb; simpl; intros H; apply andb_true_iff in H as [H1 H2].
    f_equal; f_equal.
    + revert H1; apply list_eqb_eq. intros [] [] H; unfold kl_eqb in H; simpl in H.
      apply andb_true_iff in H as [Ha Hb]; apply str_eqb_eq in Ha; apply strs_eqb_eq in Hb; subst; auto.
    + revert H2; apply list_eqb_eq, nobs_eqb_eq.
  - intros H; apply Nat.eqb_eq in H; subst; auto.
Qed.

Lemma xobs_eqb_eq a b : xobs_eqb a b = true -> a = b.
Proof.
  unfold xobs_eqb; intros H. repeat (apply andb_true_iff in H as [H ?]).
  destruct a, b; simpl in *.
  apply result_eqb_eq in H; apply str_eqb_eq in H0; subst. f_equal.
  - revert H3; apply list_eqb_eq, strs_eqb_eq.
  - revert H2; apply list_eqb_eq. intros [] [] E; unfold srow_eqb in E; simpl in E.
    repeat (apply andb_true_iff in E as [E ?]).
    repeat match goal with H : str_eqb _ _ = true |- _ => apply str_eqb_eq in H end; subst; auto.
  - revert H1; apply list_eqb_eq. intros [] [] E; unfold scr_eqb in E; simpl in E.
    repeat (apply andb_true_iff in E as [E ?]).
    repeat match goal with H : str_eqb _ _ = true |- _ => apply str_eqb_eq in H end; subst; auto.
Qed.

Theorem C11_ok_spec l : C11_ok l = true <-> (forall a b, In a l -> In b l -> a = b).
Proof.
  destruct l as [|x l]; simpl.
  - split; auto. intros _ ? ? [].
  - rewrite forallb_forall; split.
    + intros H a b Ha Hb.
      assert (E : forall y, x = y \/ In y l -> y = x).
      { intros y [->|Hy]; auto. symmetry; apply xobs_eqb_eq; auto. }
      rewrite (E a Ha), (E b Hb); auto.
    + intros H y Hy. rewrite (H x y); auto using xobs_eqb_refl.
Qed.

(** Proofs about the expansion model (Expand.v) for C08 and C11. *)
From MWF Require Import Base.Str Base.Util Expand.PyStr Expand.Expand.
From Coq Require Import List NArith Bool Arith Lia Permutation.
Import ListNotations.

(* ------------------------------------------------------------------------ *)
(** * Strings and string sets *)
Lemma str_eqb_refl x : str_eqb x x = true.
Proof. induction x; simpl; auto. rewrite N.eqb_refl; auto. Qed.

Lemma str_eqb_eq x y : str_eqb x y = true <-> x = y.
Proof.
  split; [|intros ->; apply str_eqb_refl].
  revert y; induction x; destruct y; simpl; try discriminate; auto.
  intros H; apply andb_true_iff in H as [H1 H2].
  apply N.eqb_eq in H1; subst; f_equal; auto.
Qed.

Lemma str_eqb_neq x y : str_eqb x y = false <-> x <> y.
Proof.
  split; intros H.
  - intros E; apply str_eqb_eq in E; congruence.
  - destruct (str_eqb x y) eqn:E; auto. apply str_eqb_eq in E; contradiction.
Qed.

Lemma str_eqb_sym x y : str_eqb x y = str_eqb y x.
Proof.
  destruct (str_eqb x y) eqn:E.
  - apply str_eqb_eq in E; subst; symmetry; apply str_eqb_refl.
  - apply str_eqb_neq in E. symmetry; apply str_eqb_neq; auto.
Qed.

Ltac seqb a b :=
  let E := fresh "E" in
  destruct (str_eqb a b) eqn:E;
  [apply str_eqb_eq in E; try subst | pose proof (proj1 (str_eqb_neq _ _) E)].

Lemma str_dec (x y : str) : {x = y} + {x <> y}.
Proof. destruct (str_eqb x y) eqn:E; [left; apply str_eqb_eq; auto | right; apply str_eqb_neq; auto]. Qed.

Lemma str_mem_In x l : str_mem x l = true <-> In x l.
Proof.
  unfold str_mem; rewrite existsb_exists; split.
  - intros [y [Hy E]]; apply str_eqb_eq in E; subst; auto.
  - intros H; exists x; split; auto; apply str_eqb_refl.
Qed.

Lemma str_mem_nIn x l : str_mem x l = false <-> ~ In x l.
Proof.
  split; intros H.
  - intros Hi; apply str_mem_In in Hi; congruence.
  - destruct (str_mem x l) eqn:E; auto. apply str_mem_In in E; contradiction.
Qed.

Lemma str_nodupb_NoDup l : str_nodupb l = true <-> NoDup l.
Proof.
  induction l; simpl.
  - split; auto; constructor.
  - rewrite andb_true_iff, negb_true_iff, str_mem_nIn, IHl.
    split; [intros [? ?]; constructor; auto | intros H; inversion H; auto].
Qed.

Lemma In_sadd_s x y l : In y (sadd_s x l) <-> y = x \/ In y l.
Proof.
  unfold sadd_s; destruct (str_mem x l) eqn:E.
  - apply str_mem_In in E; split; auto. intros [->|]; auto.
  - rewrite in_app_iff; simpl; intuition.
Qed.


Definition set_eq (a b : list str) : Prop := forall x, In x a <-> In x b.

Lemma set_eq_refl a : set_eq a a.
Proof. intro; tauto. Qed.
Lemma set_eq_sym a b : set_eq a b -> set_eq b a.
Proof. intros H x; symmetry; auto. Qed.
Lemma set_eq_trans a b c : set_eq a b -> set_eq b c -> set_eq a c.
Proof. intros H1 H2 x; split; intros H; [apply H2, H1 | apply H1, H2]; auto. Qed.

Lemma set_eq_mem a b : set_eq a b -> forall x, str_mem x a = str_mem x b.
Proof.
  intros H x. destruct (str_mem x a) eqn:E.
  - symmetry; apply str_mem_In, H, str_mem_In; auto.
  - symmetry; apply str_mem_nIn; intros Hi; apply H in Hi; apply str_mem_In in Hi; congruence.
Qed.

Lemma canon_set_eq names a b : set_eq a b -> canon_set names a = canon_set names b.
Proof.
  intros H; unfold canon_set; apply filter_ext; intros; apply set_eq_mem; auto.
Qed.

(* ------------------------------------------------------------------------ *)
(** * Association lists *)
Lemma alookup_aset_same {A} k (v : A) m : alookup k (aset k v m) = Some v.
Proof.
  induction m as [|[k' v'] m]; simpl.
  - rewrite str_eqb_refl; auto.
  - seqb k k'; simpl.
    + rewrite str_eqb_refl; auto.
    + rewrite E; auto.
Qed.

Lemma alookup_aset_other {A} k k2 (v : A) m : k2 <> k -> alookup k2 (aset k v m) = alookup k2 m.
Proof.
  intros Hn; induction m as [|[k' v'] m]; simpl.
  - apply str_eqb_neq in Hn; rewrite Hn; auto.
  - seqb k k'; simpl.
    + apply str_eqb_neq in Hn; rewrite Hn; auto.
    + seqb k2 k'; auto.
Qed.

Lemma akeys_aset {A} k (v : A) m x : In x (akeys (aset k v m)) <-> x = k \/ In x (akeys m).
Proof.
  unfold akeys; induction m as [|[k' v'] m]; simpl.
  - intuition.
  - seqb k k'; simpl; intuition.
Qed.

Lemma alookup_In_keys {A} k (m : list (str * A)) : (exists v, alookup k m = Some v) <-> In k (akeys m).
Proof.
  unfold akeys; induction m as [|[k' v'] m]; simpl.
  - split; [intros [? ?]; discriminate | tauto].
  - seqb k k'.
    + split; eauto.
    + rewrite IHm; intuition; congruence.
Qed.

Lemma alookup_None_keys {A} k (m : list (str * A)) : alookup k m = None <-> ~ In k (akeys m).
Proof.
  rewrite <- alookup_In_keys. destruct (alookup k m) eqn:E; split; intros H.
  - discriminate.
  - exfalso; apply H; eauto.
  - intros [v Hv]; discriminate.
  - reflexivity.
Qed.

(* ------------------------------------------------------------------------ *)
(** * Graph operations *)
Lemma g_has_names x g : g_has x g = str_mem x (g_names g).
Proof.
  unfold g_has, g_names, str_mem; induction g; simpl; auto. rewrite IHg; auto.
Qed.

Lemma g_names_on_node x f g :
  (forall nd, nd_name (f nd) = nd_name nd) -> g_names (on_node x f g) = g_names g.
Proof.
  intros Hf; unfold g_names, on_node; rewrite map_map; apply map_ext.
  intros nd; destruct (str_eqb x (nd_name nd)); auto.
Qed.

Lemma add_kid_name c nd : nd_name (add_kid c nd) = nd_name nd.  Proof. reflexivity. Qed.
Lemma add_dep_name c nd : nd_name (add_dep c nd) = nd_name nd.  Proof. reflexivity. Qed.

Lemma g_names_add x r g :
  g_names (g_add x r g) = if g_has x g then g_names g else g_names g ++ [x].
Proof.
  unfold g_add; destruct (g_has x g).
  - apply g_names_on_node; auto.
  - unfold g_names; rewrite map_app; auto.
Qed.

Lemma g_connect_names p c g g' : g_connect p c g = Some g' -> g_names g' = g_names g.
Proof.
  unfold g_connect; destruct (str_eqb p c).
  - intros H; inversion H; apply g_names_on_node; auto.
  - destruct (g_has p g); [|discriminate].
    intros H; inversion H. rewrite !g_names_on_node; auto.
Qed.

Lemma connect_all_cons p ps c g :
  connect_all (p :: ps) c g =
  match g_connect p c g with Some g' => connect_all ps c g' | None => None end.
Proof.
  unfold connect_all; simpl. destruct (g_connect p c g); auto.
  induction ps; simpl; auto.
Qed.

Lemma connect_all_nil c g : connect_all [] c g = Some g.
Proof. reflexivity. Qed.

Lemma connect_all_names ps c : forall g g', connect_all ps c g = Some g' -> g_names g' = g_names g.
Proof.
  induction ps; intros g g'.
  - rewrite connect_all_nil; intros H; inversion H; auto.
  - rewrite connect_all_cons. destruct (g_connect a c g) eqn:E; [|discriminate].
    intros H; apply IHps in H. rewrite H; eapply g_connect_names; eauto.
Qed.

(* ------------------------------------------------------------------------ *)
(** * Graphs up to the representation of the [_dependencies] sets *)
Definition node_eqv (a b : node) : Prop :=
  nd_name a = nd_name b /\ nd_rec a = nd_rec b /\ nd_kids a = nd_kids b
  /\ set_eq (nd_deps a) (nd_deps b).
Definition g_eqv (g g' : graph) : Prop := Forall2 node_eqv g g'.

Definition opt_rel {A} (R : A -> A -> Prop) (a b : option A) : Prop :=
  match a, b with
  | Some x, Some y => R x y
  | None, None => True
  | _, _ => False
  end.

Lemma node_eqv_refl a : node_eqv a a.
Proof. repeat split; auto. Qed.
Lemma node_eqv_trans a b c : node_eqv a b -> node_eqv b c -> node_eqv a c.
Proof.
  intros (A1 & A2 & A3 & A4) (B1 & B2 & B3 & B4); repeat split; try congruence.
  - intros H; apply B4, A4; auto.
  - intros H; apply A4, B4; auto.
Qed.
Lemma g_eqv_refl g : g_eqv g g.
Proof. induction g; constructor; auto using node_eqv_refl. Qed.
Lemma g_eqv_trans a b c : g_eqv a b -> g_eqv b c -> g_eqv a c.
Proof.
  intros H; revert c; induction H; intros c Hc; inversion Hc; subst; constructor; eauto using node_eqv_trans.
  apply IHForall2; auto.
Qed.

Lemma g_eqv_names g g' : g_eqv g g' -> g_names g = g_names g'.
Proof. induction 1; simpl; auto. destruct H as [-> _]; f_equal; auto. Qed.

Lemma g_eqv_has g g' x : g_eqv g g' -> g_has x g = g_has x g'.
Proof. intros H; rewrite !g_has_names, (g_eqv_names _ _ H); auto. Qed.

Lemma g_eqv_map f f' g g' :
  g_eqv g g' -> (forall a b, node_eqv a b -> node_eqv (f a) (f' b)) -> g_eqv (map f g) (map f' g').
Proof. induction 1; simpl; intros Hf; constructor; auto. apply IHForall2; auto. Qed.

Lemma g_eqv_app a a' b b' : g_eqv a a' -> g_eqv b b' -> g_eqv (a ++ b) (a' ++ b').
Proof. intros; apply Forall2_app; auto. Qed.

Lemma g_add_eqv x r g g' : g_eqv g g' -> g_eqv (g_add x r g) (g_add x r g').
Proof.
  intros H; unfold g_add; rewrite <- (g_eqv_has _ _ x H). destruct (g_has x g).
  - unfold on_node; apply g_eqv_map; auto.
    intros a b (A1 & A2 & A3 & A4); rewrite A1. destruct (str_eqb x (nd_name b)).
    + repeat split; simpl; auto.
    + repeat split; auto; apply A4.
  - apply g_eqv_app; auto. constructor; [apply node_eqv_refl | constructor].
Qed.

(** the node transformer of one connection *)
Definition conn_fn (p c : str) (nd : node) : node :=
  let nd1 := if negb (str_eqb p c) && str_eqb p (nd_name nd) then add_kid c nd else nd in
  if str_eqb c (nd_name nd1) then add_dep p nd1 else nd1.

Lemma g_connect_map p c g :
  g_connect p c g = if str_eqb p c || g_has p g then Some (map (conn_fn p c) g) else None.
Proof.
  unfold g_connect, on_node, conn_fn. destruct (str_eqb p c) eqn:E; simpl.
  - f_equal; apply map_ext; intros; auto.
  - destruct (g_has p g); auto. rewrite map_map; f_equal.
Qed.

Lemma conn_fn_eqv p c a b : node_eqv a b -> node_eqv (conn_fn p c a) (conn_fn p c b).
Proof.
  intros (A1 & A2 & A3 & A4); unfold conn_fn; rewrite A1.
  destruct (negb (str_eqb p c) && str_eqb p (nd_name b)); simpl; rewrite ?A1;
    destruct (str_eqb c (nd_name b)); repeat split; simpl; auto; try congruence;
    try (rewrite !In_sadd_s; intros [?|?]; [left; auto | right; apply A4; auto]); try apply A4.
Qed.

Lemma conn_fn_name p c a : nd_name (conn_fn p c a) = nd_name a.
Proof.
  unfold conn_fn. destruct (negb (str_eqb p c) && str_eqb p (nd_name a)); simpl;
    destruct (str_eqb c (nd_name a)); auto.
Qed.

Lemma g_connect_eqv p c g g' :
  g_eqv g g' -> opt_rel g_eqv (g_connect p c g) (g_connect p c g').
Proof.
  intros H; rewrite !g_connect_map, <- (g_eqv_has _ _ p H).
  destruct (str_eqb p c || g_has p g); simpl; auto.
  apply g_eqv_map; auto using conn_fn_eqv.
Qed.

Lemma conn_fn_kids p c nd :
  nd_kids (conn_fn p c nd) =
  if negb (str_eqb p c) && str_eqb p (nd_name nd) then sadd_s c (nd_kids nd) else nd_kids nd.
Proof.
  unfold conn_fn. destruct (negb (str_eqb p c) && str_eqb p (nd_name nd)); simpl;
    destruct (str_eqb c (nd_name nd)); auto.
Qed.

Lemma conn_fn_deps p c nd :
  nd_deps (conn_fn p c nd) = if str_eqb c (nd_name nd) then sadd_s p (nd_deps nd) else nd_deps nd.
Proof.
  unfold conn_fn. destruct (negb (str_eqb p c) && str_eqb p (nd_name nd)); simpl;
    destruct (str_eqb c (nd_name nd)); auto.
Qed.

Lemma conn_fn_rec p c nd : nd_rec (conn_fn p c nd) = nd_rec nd.
Proof.
  unfold conn_fn. destruct (negb (str_eqb p c) && str_eqb p (nd_name nd)); simpl;
    destruct (str_eqb c (nd_name nd)); auto.
Qed.

Lemma conn_fn_comm a b c nd :
  node_eqv (conn_fn a c (conn_fn b c nd)) (conn_fn b c (conn_fn a c nd)).
Proof.
  unfold node_eqv. rewrite !conn_fn_name, !conn_fn_rec, !conn_fn_kids, !conn_fn_deps, !conn_fn_name.
  repeat split; auto.
  - destruct (negb (str_eqb a c) && str_eqb a (nd_name nd)),
             (negb (str_eqb b c) && str_eqb b (nd_name nd)); auto.
  - destruct (str_eqb c (nd_name nd)); auto. rewrite !In_sadd_s; tauto.
  - destruct (str_eqb c (nd_name nd)); auto. rewrite !In_sadd_s; tauto.
Qed.

Lemma g_has_map_conn p c x g : g_has x (map (conn_fn p c) g) = g_has x g.
Proof.
  rewrite !g_has_names; unfold g_names; rewrite map_map.
  f_equal; apply map_ext; intros; apply conn_fn_name.
Qed.

Lemma connect_all_eqv ps c : forall g g',
  g_eqv g g' -> opt_rel g_eqv (connect_all ps c g) (connect_all ps c g').
Proof.
  induction ps; intros g g' H.
  - simpl; auto.
  - rewrite !connect_all_cons. pose proof (g_connect_eqv a c g g' H) as Hc.
    destruct (g_connect a c g), (g_connect a c g'); simpl in Hc; try contradiction; simpl; auto.
Qed.

Lemma opt_rel_trans {A} (R : A -> A -> Prop) a b c :
  (forall x y z, R x y -> R y z -> R x z) -> opt_rel R a b -> opt_rel R b c -> opt_rel R a c.
Proof. intros HT; destruct a, b, c; simpl; try tauto; eauto. Qed.

Lemma connect_all_perm c l l' :
  Permutation l l' -> forall g g', g_eqv g g' ->
  opt_rel g_eqv (connect_all l c g) (connect_all l' c g').
Proof.
  induction 1; intros g g' Hg.
  - simpl; auto.
  - rewrite !connect_all_cons. pose proof (g_connect_eqv x c g g' Hg) as Hc.
    destruct (g_connect x c g), (g_connect x c g'); simpl in Hc; try contradiction; simpl; auto.
  - assert (Hx : g_has x g' = g_has x g) by (symmetry; apply g_eqv_has; auto).
    assert (Hy : g_has y g' = g_has y g) by (symmetry; apply g_eqv_has; auto).
    rewrite !connect_all_cons, !g_connect_map, ?Hx, ?Hy.
    destruct (str_eqb y c || g_has y g) eqn:Ey; destruct (str_eqb x c || g_has x g) eqn:Ex; simpl;
      rewrite ?connect_all_cons, ?g_connect_map, ?g_has_map_conn, ?Hx, ?Hy, ?Ex, ?Ey; simpl; auto.
    apply connect_all_eqv.
    rewrite !map_map. apply g_eqv_map; auto.
    intros a b Hab. eapply node_eqv_trans; [apply conn_fn_comm|].
    apply conn_fn_eqv, conn_fn_eqv; auto.
  - eapply opt_rel_trans; [apply g_eqv_trans | apply IHPermutation1, g_eqv_refl | apply IHPermutation2; auto].
Qed.

(* ------------------------------------------------------------------------ *)
(** * C11: staging does not depend on the set-iteration oracles *)
Definition perm_oracle (pi : an_oracle) : Prop := forall l, Permutation (pi l) l.

Lemma perm_oracle_id : perm_oracle pi_id.
Proof. intro; apply Permutation_refl. Qed.
Lemma perm_oracle_rev : perm_oracle pi_rev.
Proof. intro; apply Permutation_sym, Permutation_rev. Qed.

Definition st_eqv (a b : sstate) : Prop :=
  g_eqv (st_g a) (st_g b) /\ st_combos a = st_combos b /\ st_ws a = st_ws b.

Lemma st_eqv_refl a : st_eqv a a.
Proof. repeat split; auto using g_eqv_refl. Qed.

Lemma hub_items_perm combos hs hs' :
  Permutation hs hs' -> forall pi pi', perm_oracle pi -> perm_oracle pi' ->
  opt_rel (@Permutation str) (hub_items pi combos hs) (hub_items pi' combos hs').
Proof.
  induction 1; intros pi pi' Hp Hp'.
  - simpl; auto.
  - simpl. specialize (IHPermutation pi pi' Hp Hp').
    destruct (alookup x combos), (hub_items pi combos l), (hub_items pi' combos l');
      simpl in *; auto; try contradiction.
    apply Permutation_app; auto.
    eapply Permutation_trans; [apply Hp | apply Permutation_sym, Hp'].
  - simpl.
    assert (IH : opt_rel (@Permutation str) (hub_items pi combos l) (hub_items pi' combos l)).
    { clear x y. induction l; simpl; auto.
      destruct (alookup a combos), (hub_items pi combos l), (hub_items pi' combos l);
        simpl in *; auto; try contradiction.
      apply Permutation_app; auto.
      eapply Permutation_trans; [apply Hp | apply Permutation_sym, Hp']. }
    destruct (alookup y combos) as [cy|], (alookup x combos) as [cx|];
      destruct (hub_items pi combos l), (hub_items pi' combos l); simpl in *; auto.
    rewrite !app_assoc. apply Permutation_app; auto.
    eapply Permutation_trans; [apply Permutation_app_comm|].
    apply Permutation_app.
    + eapply Permutation_trans; [apply Hp | apply Permutation_sym, Hp'].
    + eapply Permutation_trans; [apply Hp | apply Permutation_sym, Hp'].
  - eapply opt_rel_trans; [apply @Permutation_trans | apply (IHPermutation1 pi pi) | apply IHPermutation2]; auto.
Qed.

Lemma parent_list_perm pi pi' sp um combos t i :
  perm_oracle pi -> perm_oracle pi' ->
  opt_rel (@Permutation str) (parent_list pi sp um combos t i) (parent_list pi' sp um combos t i).
Proof.
  intros Hp Hp'; unfold parent_list.
  assert (Hh : opt_rel (@Permutation str) (hub_items pi combos (pi (deps_hub t)))
                       (hub_items pi' combos (pi' (deps_hub t)))).
  { apply hub_items_perm; auto.
    eapply Permutation_trans; [apply Hp | apply Permutation_sym, Hp']. }
  assert (Ho : Permutation (map (fun p => iname (sp_params sp) um p i) (pi (deps_ord t)))
                           (map (fun p => iname (sp_params sp) um p i) (pi' (deps_ord t)))).
  { apply Permutation_map. eapply Permutation_trans; [apply Hp | apply Permutation_sym, Hp']. }
  destruct (deps_ord t) eqn:Eo, (deps_hub t) eqn:Eh; simpl; auto;
    destruct (hub_items pi combos _), (hub_items pi' combos _); simpl in *; auto;
    apply Permutation_app; auto.
Qed.

Lemma add_instance_eqv san pi pi' sp um t x comps f params i st st' :
  perm_oracle pi -> perm_oracle pi' -> st_eqv st st' ->
  opt_rel st_eqv (add_instance san pi sp um t x comps f params i st)
                 (add_instance san pi' sp um t x comps f params i st').
Proof.
  intros Hp Hp' (Hg & Hc & Hw); unfold add_instance. rewrite <- Hw, <- Hc.
  destruct (ws_pass san sp um (st_ws st) t i (step_wsrefs t) (f (s_cmd t), f (s_restart t)))
    as [[cmd rcmd]|]; simpl; auto.
  pose proof (parent_list_perm pi pi' sp um (st_combos st) t i Hp Hp') as HP.
  destruct (parent_list pi sp um (st_combos st) t i) as [l|],
           (parent_list pi' sp um (st_combos st) t i) as [l'|]; simpl in HP; try contradiction; simpl; auto.
  match goal with |- context [g_add x ?r (st_g st)] =>
    pose proof (connect_all_perm x l l' HP _ _ (g_add_eqv x r _ _ Hg)) as HC end.
  destruct (connect_all l x _), (connect_all l' x _); simpl in *; try contradiction; auto.
  repeat split; auto.
Qed.

Lemma stage_row_eqv ap san pi pi' sp um t U st st' i :
  perm_oracle pi -> perm_oracle pi' -> st_eqv st st' ->
  opt_rel st_eqv (stage_row ap san pi sp um t U st i) (stage_row ap san pi' sp um t U st' i).
Proof.
  intros Hp Hp' (Hg & Hc & Hw); unfold stage_row; simpl. rewrite <- Hc, <- Hw.
  destruct (str_mem _ (akeys (st_combos st))); simpl.
  - repeat split; auto.
  - apply add_instance_eqv; auto. repeat split; auto.
Qed.

Lemma fold_opt_eqv {A} (R : sstate -> sstate -> Prop) (f f' : sstate -> A -> option sstate) l :
  (forall a s s', R s s' -> opt_rel R (f s a) (f' s' a)) ->
  forall o o', opt_rel R o o' ->
  opt_rel R (fold_left (fun ost a => match ost with Some s => f s a | None => None end) l o)
            (fold_left (fun ost a => match ost with Some s => f' s a | None => None end) l o').
Proof.
  intros Hf; induction l; simpl; auto.
  intros o o' Ho. apply IHl. destruct o, o'; simpl in *; auto; contradiction.
Qed.

Lemma stage_step_eqv ap san pi pi' sp um t st st' :
  perm_oracle pi -> perm_oracle pi' -> st_eqv st st' ->
  opt_rel st_eqv (stage_step ap san pi sp um t st) (stage_step ap san pi' sp um t st').
Proof.
  intros Hp Hp' (Hg & Hc & Hw); unfold stage_step. rewrite <- Hc, <- Hw.
  destruct (used_in um (s_name t)) eqn:EU.
  - apply add_instance_eqv; auto. repeat split; auto.
  - apply fold_opt_eqv.
    + intros; apply stage_row_eqv; auto.
    + simpl; repeat split; auto.
Qed.

Lemma stage_go_eqv ap san pi pi' sp um order :
  perm_oracle pi -> perm_oracle pi' -> forall st st', st_eqv st st' ->
  opt_rel st_eqv (stage_go ap san pi sp um order st) (stage_go ap san pi' sp um order st').
Proof.
  intros Hp Hp'; induction order; intros st st' H; simpl; auto.
  destruct (str_eqb a SOURCE).
  - apply IHorder. destruct H as (Hg & Hc & Hw). repeat split; simpl; auto.
    rewrite <- (g_eqv_has _ _ SOURCE Hg). destruct (g_has SOURCE (st_g st)); auto.
    apply g_eqv_app; auto. constructor; [apply node_eqv_refl | constructor].
  - destruct (find_step sp a); simpl; auto.
    pose proof (stage_step_eqv ap san pi pi' sp um s st st' Hp Hp' H) as HS.
    destruct (stage_step ap san pi sp um s st), (stage_step ap san pi' sp um s st');
      simpl in HS; try contradiction; simpl; auto.
Qed.

Lemma observe_eqv g g' : g_eqv g g' -> observe g = observe g'.
Proof.
  intros H; unfold observe. rewrite <- (g_eqv_names _ _ H).
  generalize (g_names g) as names. induction H; simpl; auto.
  intros names; f_equal; auto.
  destruct H as (A1 & A2 & A3 & A4). unfold obs_node. rewrite A1, A2, A3, (canon_set_eq names _ _ A4); auto.
Qed.

(** every observable of a staging (used table, node names in insertion order,
    adjacency lists, dependency sets, records) is independent of the oracles *)
Theorem stage_order_free ap san pi pi' sp :
  perm_oracle pi -> perm_oracle pi' ->
  observe_result (stage ap san pi sp) = observe_result (stage ap san pi' sp).
Proof.
  intros Hp Hp'; unfold stage.
  destruct (negb (construct_ok [SOURCE] (sp_steps sp))); auto.
  destruct (negb (topo_ok sp (toposort sp))); auto.
  destruct (plan_go sp (toposort sp) [(SOURCE, [])]) as [um|]; auto.
  pose proof (stage_go_eqv ap san pi pi' sp um (toposort sp) Hp Hp' _ _ (st_eqv_refl (init_state sp))) as H.
  destruct (stage_go ap san pi sp um (toposort sp) (init_state sp)),
           (stage_go ap san pi' sp um (toposort sp) (init_state sp)); simpl in H; try contradiction; auto.
  simpl. destruct H as (Hg & _ & _). rewrite (observe_eqv _ _ Hg); auto.
Qed.

(* ------------------------------------------------------------------------ *)
(** * Construction: step names are unique, dependencies precede *)
Lemma construct_ok_spec l : forall seen,
  construct_ok seen l = true ->
  NoDup (map s_name l) /\ (forall t, In t l -> ~ In (s_name t) seen)
  /\ (forall t, In t l -> forall p, In p (parents_raw t) ->
        p <> s_name t /\ (In p seen \/ In p (map s_name l))).
Proof.
  induction l as [|t l IH]; simpl; intros seen H.
  - split; [constructor|]. split; intros ? [].
  - apply andb_true_iff in H as [H H3]. apply andb_true_iff in H as [H1 H2].
    apply negb_true_iff, str_mem_nIn in H1.
    destruct (IH _ H3) as (I1 & I2 & I3).
    split; [|split].
    + constructor; auto. intros Hin. apply in_map_iff in Hin as [t' [E Ht']].
      apply (I2 t' Ht'). rewrite E. apply in_app_iff; simpl; auto.
    + intros t' [<-|Ht'] Hs; auto. apply (I2 t' Ht'), in_app_iff; auto.
    + intros t' Ht' p Hp. destruct Ht' as [<-|Ht'].
      * rewrite forallb_forall in H2. specialize (H2 _ Hp).
        apply andb_true_iff in H2 as [H2a H2b]. apply negb_true_iff, str_eqb_neq in H2a.
        apply str_mem_In in H2b. auto.
      * destruct (I3 _ Ht' _ Hp) as [Hn [Hs|Hs]]; split; auto.
        apply in_app_iff in Hs as [Hs|[<-|[]]]; auto.
Qed.

Lemma find_step_In sp t :
  NoDup (step_names sp) -> In t (sp_steps sp) -> find_step sp (s_name t) = Some t.
Proof.
  unfold find_step, step_names. induction (sp_steps sp) as [|a l IH]; simpl; intros Hn Hi; [contradiction|].
  destruct Hi as [->|Hi].
  - rewrite str_eqb_refl; auto.
  - inversion Hn; subst. seqb (s_name t) (s_name a).
    + exfalso; apply H1. rewrite <- E. apply in_map; auto.
    + auto.
Qed.

Lemma find_step_Some sp x t : find_step sp x = Some t -> In t (sp_steps sp) /\ s_name t = x.
Proof.
  unfold find_step; intros H; apply find_some in H as [H1 H2]. apply str_eqb_eq in H2; auto.
Qed.

Lemma str_dedup_acc_In x l : forall seen, In x (str_dedup_acc seen l) <-> In x l /\ ~ In x seen.
Proof.
  induction l as [|a l IH]; simpl; intros seen.
  - tauto.
  - destruct (str_mem a seen) eqn:E.
    + apply str_mem_In in E. rewrite IH. split; [tauto|]. intros [[->|H] Hn]; tauto.
    + apply str_mem_nIn in E. simpl. rewrite IH. simpl. split.
      * intros [->|[H Hn]]; [split; auto | split; auto].
      * intros [[->|H] Hn]; auto. destruct (str_dec a x); auto. right; split; auto. intros [?|?]; auto.
Qed.

Lemma str_dedup_In x l : In x (str_dedup l) <-> In x l.
Proof. unfold str_dedup; rewrite str_dedup_acc_In; simpl; tauto. Qed.

Lemma deps_ord_In t p : In p (deps_ord t) <-> In p (s_deps t) /\ has_star p = false.
Proof.
  unfold deps_ord; rewrite str_dedup_In, filter_In, negb_true_iff; tauto.
Qed.

Lemma deps_hub_In t h : In h (deps_hub t) <-> exists d, In d (s_deps t) /\ has_star d = true /\ h = strip_star d.
Proof.
  unfold deps_hub; rewrite str_dedup_In, in_map_iff. split.
  - intros [d [E Hd]]; apply filter_In in Hd as [? ?]; eauto.
  - intros [d (H1 & H2 & ->)]; exists d; split; auto. apply filter_In; auto.
Qed.

(* ------------------------------------------------------------------------ *)
(** * Phase 1: the used-parameter table is the closure the property speaks of *)
Lemma gather_ord_spec um ds : forall a,
  gather_ord um ds = Some a ->
  (forall d, In d ds -> has_star d = false -> exists u, alookup d um = Some u)
  /\ (forall k, In k a <-> exists d u, In d ds /\ has_star d = false /\ alookup d um = Some u /\ In k u).
Proof.
  induction ds as [|d ds IH]; simpl; intros a H.
  - inversion H; subst; split; [tauto|]. intros k; split; [intros [] | intros (? & ? & [] & _)].
  - destruct (has_star d) eqn:Es.
    + destruct (IH _ H) as [I1 I2]; split.
      * intros d' [<-|Hd] Hs; [congruence | auto].
      * intros k; rewrite I2; split; intros (d' & u & Hd & Hr); exists d', u; intuition; subst; congruence.
    + destruct (alookup d um) as [u|] eqn:El; [|discriminate].
      destruct (gather_ord um ds) as [r|]; [|discriminate]. inversion H; subst.
      destruct (IH _ eq_refl) as [I1 I2]; split.
      * intros d' [<-|Hd] Hs; eauto.
      * intros k; rewrite in_app_iff, I2; split.
        -- intros [Hk|(d' & u' & Hd & Hr)]; [exists d, u; auto | exists d', u'; intuition].
        -- intros (d' & u' & [<-|Hd] & Hs & Hl & Hk); [left; congruence | right; eauto 6].
Qed.

Lemma gather_ws_spec um hub ws : forall b,
  gather_ws um hub ws = Some b ->
  (forall w, In w ws -> exists u, alookup w um = Some u)
  /\ (forall k, In k b <-> exists w u, In w ws /\ ~ In w hub /\ alookup w um = Some u /\ In k u).
Proof.
  induction ws as [|w ws IH]; simpl; intros b H.
  - inversion H; subst; split; [tauto|]. intros k; split; [intros [] | intros (? & ? & [] & _)].
  - destruct (alookup w um) as [u|] eqn:El; [|discriminate].
    destruct (gather_ws um hub ws) as [r|]; [|discriminate]. inversion H; subst; clear H.
    destruct (IH _ eq_refl) as [I1 I2]; split.
    + intros w' [<-|Hw]; eauto.
    + intros k. destruct (str_mem w hub) eqn:Eh.
      * apply str_mem_In in Eh. rewrite I2; split; intros (w' & u' & Hw & Hr); exists w', u'.
        -- intuition.
        -- destruct Hw as [<-|Hw]; intuition.
      * apply str_mem_nIn in Eh. rewrite in_app_iff, I2; split.
        -- intros [Hk|(w' & u' & Hw & Hr)]; [exists w, u; auto | exists w', u'; intuition].
        -- intros (w' & u' & [<-|Hw] & Hs & Hl & Hk); [left; congruence | right; eauto 6].
Qed.

(** what [used_step] computes, in terms of the table it reads *)
Lemma used_step_spec ps um t U :
  used_step ps um t = Some U ->
  (forall d, In d (s_deps t) -> has_star d = false -> exists u, alookup d um = Some u)
  /\ (forall w, In w (step_wsrefs t) -> exists u, alookup w um = Some u)
  /\ (forall k, In k U <->
        In k (keys_of ps) /\
        (In k (direct_used ps t)
         \/ (exists d u, In d (s_deps t) /\ has_star d = false /\ alookup d um = Some u /\ In k u)
         \/ (exists w u, In w (step_wsrefs t) /\ ~ In w (deps_hub t) /\ alookup w um = Some u /\ In k u))).
Proof.
  unfold used_step.
  destruct (gather_ord um (s_deps t)) as [a|] eqn:Ea; [|discriminate].
  destruct (gather_ws um (deps_hub t) (step_wsrefs t)) as [b|] eqn:Eb; [|discriminate].
  intros H; inversion H; subst; clear H.
  destruct (gather_ord_spec _ _ _ Ea) as [A1 A2]. destruct (gather_ws_spec _ _ _ _ Eb) as [B1 B2].
  repeat split; auto.
  - apply filter_In in H; tauto.
  - apply filter_In in H as [_ H]. apply str_mem_In in H. rewrite !in_app_iff, A2, B2 in H; tauto.
  - intros [Hk H]. apply filter_In; split; auto. apply str_mem_In. rewrite !in_app_iff, A2, B2; tauto.
Qed.

Lemma plan_go_inv sp : forall order um um',
  NoDup order ->
  (forall x, In x order -> x <> SOURCE -> alookup x um = None) ->
  plan_go sp order um = Some um' ->
  (forall y u, alookup y um = Some u -> alookup y um' = Some u)
  /\ (forall x, In x order -> x <> SOURCE ->
        exists t umx, find_step sp x = Some t
          /\ used_step (sp_params sp) umx t = Some (used_in um' x)
          /\ alookup x um' = Some (used_in um' x)
          /\ (forall y u, alookup y umx = Some u -> alookup y um' = Some u)).
Proof.
  induction order as [|x order IH]; simpl; intros um um' Hnd Hfresh H.
  - inversion H; subst; split; auto. tauto.
  - inversion Hnd as [|? ? Hx Hnd']; subst.
    destruct (str_eqb x SOURCE) eqn:Ex.
    + apply str_eqb_eq in Ex; subst.
      destruct (IH um um' Hnd' (fun y Hy => Hfresh y (or_intror Hy)) H) as [I1 I2].
      split; auto. intros y [<-|Hy] Hn; [congruence | auto].
    + apply str_eqb_neq in Ex.
      destruct (find_step sp x) as [t|] eqn:Ef; [|discriminate].
      destruct (used_step (sp_params sp) um t) as [u|] eqn:Eu; [|discriminate].
      assert (Hfr : forall y, In y order -> y <> SOURCE -> alookup y (aset x u um) = None).
      { intros y Hy Hn. rewrite alookup_aset_other; auto. intros ->; auto. }
      destruct (IH _ _ Hnd' Hfr H) as [I1 I2].
      assert (P : forall y v, alookup y um = Some v -> alookup y um' = Some v).
      { intros y v Hy. apply I1. rewrite alookup_aset_other; auto.
        intros ->. rewrite Hfresh in Hy; auto; discriminate. }
      split; auto.
      intros y [<-|Hy] Hn; auto.
      assert (Hx' : alookup x um' = Some u) by (apply I1, alookup_aset_same).
      exists t, um. unfold used_in. rewrite Hx'. auto.
Qed.

(** C10 -- proofs about the path model of SafePath.v.

    Part A  the sanitiser: every character of [sanitize x] is in the output
            alphabet computed from the T-data (alphabet minus replaced characters
            plus replacement text); on today's data that is the alphabet minus
            the space, in particular never '/'.
    Part B  posixpath.join / normpath: appending a slash-free component that is
            not "", "." or ".." appends exactly that component to the normal form.
    Part C  the prefix order on normal forms.
    Part D  file names (templates of the adapters, T-data) .
    Part E  the monitor [C10_ok] holds of the model under hygiene; the
            DESIGN-level statements C10_inside / C10_distinct / C10_writes_inside.
    Part F  the boolean hygiene [h10b] (complement of the known-finding
            signatures) implies the Prop hygiene; refutations outside it.
    Part G  (placed after Part C) [npath] yields a normal form, [normpath] is
            idempotent. *)
From Coq Require Import List Arith NArith Bool Lia.
From MWF Require Import Base.Str Gen.SafePathData Expand.SafePath.
Import ListNotations.

(* ------------------------------------------------------------------------ *)
(** * Basics *)

Lemma seqb_iff : forall a b, str_eqb a b = true <-> a = b.
Proof.
  induction a as [|x a IH]; destruct b as [|y b]; simpl; split; intro H;
    try discriminate; try reflexivity.
  - apply andb_true_iff in H. destruct H as [H1 H2]. apply N.eqb_eq in H1.
    apply IH in H2. subst. reflexivity.
  - inversion H; subst. apply andb_true_iff. split; [apply N.eqb_refl | apply IH; reflexivity].
Qed.

Lemma seqb_refl a : str_eqb a a = true.
Proof. apply seqb_iff. reflexivity. Qed.

Lemma seqb_false_iff a b : str_eqb a b = false <-> a <> b.
Proof.
  split.
  - intros H E. apply seqb_iff in E. congruence.
  - intro H. destruct (str_eqb a b) eqn:E; [apply seqb_iff in E; contradiction | reflexivity].
Qed.

Lemma memN_In c l : memN c l = true <-> In c l.
Proof.
  unfold memN. rewrite existsb_exists. split.
  - intros [x [Hx E]]. apply N.eqb_eq in E. subst. exact Hx.
  - intro H. exists c. split; [exact H | apply N.eqb_refl].
Qed.

Lemma memN_false c l : memN c l = false <-> ~ In c l.
Proof.
  split.
  - intros H E. apply memN_In in E. congruence.
  - intro H. destruct (memN c l) eqn:E; [apply memN_In in E; contradiction | reflexivity].
Qed.

Lemma list_eqb_iff : forall a b, list_eqb a b = true <-> a = b.
Proof.
  induction a as [|x a IH]; destruct b as [|y b]; simpl; split; intro H;
    try discriminate; try reflexivity.
  - apply andb_true_iff in H. destruct H as [H1 H2]. apply seqb_iff in H1.
    apply IH in H2. subst. reflexivity.
  - inversion H; subst. apply andb_true_iff. split; [apply seqb_refl | apply IH; reflexivity].
Qed.

Lemma is_empty_true x : is_empty x = true <-> x = [].
Proof. destruct x; simpl; split; intro; congruence. Qed.

Lemma is_empty_false x : is_empty x = false <-> x <> [].
Proof. destruct x; simpl; split; intro; congruence. Qed.

(* ------------------------------------------------------------------------ *)
(** * Part A -- the sanitiser *)

Lemma In_replace1 a b x c :
  In c (replace1 a b x) -> (In c x /\ c <> a) \/ In c b.
Proof.
  unfold replace1. rewrite in_flat_map. intros [d [Hd Hc]].
  destruct (N.eqb d a) eqn:E.
  - right. exact Hc.
  - left. simpl in Hc. destruct Hc as [Hc | []]. subst d. split; [exact Hd |].
    intro. subst. rewrite N.eqb_refl in E. discriminate.
Qed.

(** The characters that can occur after the filter and the replaces. *)
Definition out_alpha (alpha : list N) (rs : list (N * str)) : list N :=
  fold_left (fun acc r => filter (fun c => negb (N.eqb c (fst r))) acc ++ snd r) rs alpha.

Lemma In_apply_replaces : forall rs acc x c,
  (forall d, In d x -> In d acc) ->
  In c (apply_replaces rs x) -> In c (out_alpha acc rs).
Proof.
  unfold apply_replaces, out_alpha.
  induction rs as [|r rs IH]; intros acc x c Hsub Hc; simpl in *.
  - apply Hsub. exact Hc.
  - eapply IH; [| exact Hc]. intros d Hd. apply In_replace1 in Hd.
    apply in_or_app. destruct Hd as [[Hd Hne] | Hd]; [left | right; exact Hd].
    apply filter_In. split; [apply Hsub; exact Hd |].
    apply negb_true_iff. apply N.eqb_neq. exact Hne.
Qed.

Lemma sanitize_with_chars alpha rs x c :
  In c (sanitize_with alpha rs x) -> In c (out_alpha alpha rs).
Proof.
  unfold sanitize_with. apply In_apply_replaces.
  intros d Hd. apply filter_In in Hd. destruct Hd as [_ Hd]. apply memN_In. exact Hd.
Qed.

(** The fact about the regenerated data: every possible output character is in
    the alphabet, is not the space and is not '/'. *)
Definition out_alpha_ok : bool :=
  forallb (fun c => memN c safe_alphabet && negb (N.eqb c SPACE) && negb (N.eqb c SLASH))
          (out_alpha safe_alphabet safe_replaces).

Lemma out_alpha_ok_true : out_alpha_ok = true.
Proof. vm_compute. reflexivity. Qed.

Theorem safe_chars_lemma : forall x c,
  In c (sanitize x) -> In c safe_alphabet /\ c <> SPACE /\ c <> SLASH.
Proof.
  intros x c H. apply sanitize_with_chars in H.
  pose proof out_alpha_ok_true as K. unfold out_alpha_ok in K.
  rewrite forallb_forall in K. specialize (K c H).
  apply andb_true_iff in K. destruct K as [K K3].
  apply andb_true_iff in K. destruct K as [K1 K2].
  apply memN_In in K1. apply negb_true_iff in K2, K3.
  apply N.eqb_neq in K2, K3. auto.
Qed.

Lemma sanitize_noslash x : ~ In SLASH (sanitize x).
Proof. intro H. apply safe_chars_lemma in H. destruct H as [_ [_ H]]. congruence. Qed.

(** A string over the kept characters that contains no replaced character is
    left alone (so the sanitiser is the identity on "clean" names). *)
Lemma replace1_id a b x : ~ In a x -> replace1 a b x = x.
Proof.
  unfold replace1. induction x as [|c x IH]; intro H; simpl; [reflexivity |].
  destruct (N.eqb c a) eqn:E.
  - apply N.eqb_eq in E. subst. exfalso. apply H. left. reflexivity.
  - simpl. f_equal. apply IH. intro K. apply H. right. exact K.
Qed.

Lemma apply_replaces_id : forall rs x,
  (forall r, In r rs -> ~ In (fst r) x) -> apply_replaces rs x = x.
Proof.
  unfold apply_replaces. induction rs as [|r rs IH]; intros x H; simpl; [reflexivity |].
  rewrite replace1_id by (apply H; left; reflexivity).
  apply IH. intros r' Hr'. apply H. right. exact Hr'.
Qed.

Lemma filter_id {A} (f : A -> bool) l : (forall x, In x l -> f x = true) -> filter f l = l.
Proof.
  induction l as [|a l IH]; intro H; simpl; [reflexivity |].
  rewrite (H a) by (left; reflexivity). f_equal. apply IH. intros x Hx. apply H. right. exact Hx.
Qed.

Definition clean (x : str) : Prop :=
  forall c, In c x -> In c safe_alphabet /\ forall r, In r safe_replaces -> c <> fst r.

Lemma sanitize_clean x : clean x -> sanitize x = x.
Proof.
  intro H. unfold sanitize, sanitize_with.
  rewrite filter_id by (intros c Hc; apply memN_In; apply H; exact Hc).
  apply apply_replaces_id. intros r Hr Hin. destruct (H _ Hin) as [_ K]. exact (K r Hr eq_refl).
Qed.

(** Hence the sanitiser is injective on clean strings: H10's injectivity
    hypotheses hold for every study whose names and labels are clean. *)
Lemma sanitize_inj_clean x y : clean x -> clean y -> sanitize x = sanitize y -> x = y.
Proof. intros Hx Hy. rewrite (sanitize_clean x Hx), (sanitize_clean y Hy). auto. Qed.

(* ------------------------------------------------------------------------ *)
(** * Part B -- join and normpath *)

Lemma split_slash_nonempty x : split_slash x <> [].
Proof.
  induction x as [|c x IH]; simpl; [discriminate |].
  destruct (N.eqb c SLASH); [discriminate |].
  destruct (split_slash x); discriminate.
Qed.

Lemma split_slash_noslash b : ~ In SLASH b -> split_slash b = [b].
Proof.
  induction b as [|c b IH]; intro H; simpl; [reflexivity |].
  destruct (N.eqb c SLASH) eqn:E.
  - apply N.eqb_eq in E. subst. exfalso. apply H. left. reflexivity.
  - rewrite IH; [reflexivity |]. intro K. apply H. right. exact K.
Qed.

Lemma split_slash_app a b : split_slash (a ++ SLASH :: b) = split_slash a ++ split_slash b.
Proof.
  induction a as [|c a IH]; simpl.
  - reflexivity.
  - destruct (N.eqb c SLASH); [rewrite IH; reflexivity |].
    rewrite IH. destruct (split_slash a) eqn:E; [exfalso; exact (split_slash_nonempty a E) |].
    reflexivity.
Qed.

Lemma norm_stack_app abs a b stk :
  norm_stack abs (a ++ b) stk = norm_stack abs b (norm_stack abs a stk).
Proof. unfold norm_stack. apply fold_left_app. Qed.

Lemma norm_step_good abs stk b : good b -> norm_step abs stk b = b :: stk.
Proof.
  intros [H1 [H2 H3]]. unfold norm_step.
  apply is_empty_false in H1. apply seqb_false_iff in H2, H3.
  rewrite H1, H2, H3. reflexivity.
Qed.

Lemma norm_step_empty abs stk : norm_step abs stk [] = stk.
Proof. reflexivity. Qed.

Lemma ends_slash_snoc a : ends_slash a = true -> exists a', a = a' ++ [SLASH].
Proof.
  unfold ends_slash. intro H. destruct (rev a) as [|c r] eqn:E; [discriminate |].
  apply N.eqb_eq in H. subst c. exists (rev r).
  rewrite <- (rev_involutive a), E. reflexivity.
Qed.

Lemma starts_slash_false b : ~ In SLASH b -> starts_slash b = false.
Proof.
  destruct b as [|c b]; intro H; simpl; [reflexivity |].
  apply N.eqb_neq. intro. subst. apply H. left. reflexivity.
Qed.

Lemma lead_slashes_join2 a b :
  ~ In SLASH b -> b <> [] -> lead_slashes (join2 a b) = lead_slashes a.
Proof.
  intros Hns Hne. unfold join2. rewrite (starts_slash_false b Hns).
  destruct b as [|y b]; [congruence |].
  assert (Hy : N.eqb y SLASH = false).
  { apply N.eqb_neq. intro. subst. apply Hns. left. reflexivity. }
  destruct a as [|a1 [|a2 [|a3 a]]].
  - simpl. rewrite Hy. reflexivity.
  - unfold ends_slash, is_empty. simpl.
    destruct (N.eqb a1 SLASH) eqn:E1; simpl; rewrite ?E1, ?Hy, ?N.eqb_refl; simpl; try reflexivity.
  - unfold ends_slash, is_empty. simpl.
    destruct (N.eqb a1 SLASH) eqn:E1; destruct (N.eqb a2 SLASH) eqn:E2;
      simpl; rewrite ?E1, ?E2, ?Hy, ?N.eqb_refl; simpl; rewrite ?E2, ?Hy; reflexivity.
  - destruct (is_empty (a1 :: a2 :: a3 :: a) || ends_slash (a1 :: a2 :: a3 :: a)); reflexivity.
Qed.

Lemma norm_stack_join2 abs a b :
  ~ In SLASH b -> good b ->
  norm_stack abs (split_slash (join2 a b)) [] = b :: norm_stack abs (split_slash a) [].
Proof.
  intros Hns Hg. unfold join2. rewrite (starts_slash_false b Hns).
  destruct a as [|a1 a].
  - simpl. rewrite (split_slash_noslash b Hns). simpl. apply norm_step_good. exact Hg.
  - change (is_empty (a1 :: a)) with false. simpl orb.
    destruct (ends_slash (a1 :: a)) eqn:E.
    + apply ends_slash_snoc in E. destruct E as [a' E]. rewrite E.
      rewrite <- app_assoc. simpl app.
      rewrite !split_slash_app. rewrite (split_slash_noslash b Hns).
      simpl split_slash. rewrite !norm_stack_app. simpl.
      apply norm_step_good. exact Hg.
    + rewrite split_slash_app, (split_slash_noslash b Hns), norm_stack_app. simpl.
      apply norm_step_good. exact Hg.
Qed.

(** Appending one good, slash-free component appends it to the normal form. *)
Lemma npath_join2 a b :
  ~ In SLASH b -> good b ->
  npath (join2 a b) = (fst (npath a), snd (npath a) ++ [b]).
Proof.
  intros Hns Hg. unfold npath.
  rewrite (lead_slashes_join2 a b Hns (proj1 Hg)).
  rewrite (norm_stack_join2 _ a b Hns Hg). reflexivity.
Qed.

Definition okcomp (b : str) : Prop := ~ In SLASH b /\ good b.

Lemma npath_join : forall bs a,
  Forall okcomp bs -> npath (join a bs) = (fst (npath a), snd (npath a) ++ bs).
Proof.
  unfold join. induction bs as [|b bs IH]; intros a H; cbn [fold_left].
  - rewrite app_nil_r. apply surjective_pairing.
  - inversion H as [|? ? [Hb1 Hb2] Hbs]; subst. rewrite IH by exact Hbs.
    rewrite (npath_join2 a b Hb1 Hb2). simpl. rewrite <- app_assoc. reflexivity.
Qed.

(* ------------------------------------------------------------------------ *)
(** * Part C -- the prefix order on normal forms *)

Definition is_prefix (a b : list str) : Prop := exists r, b = a ++ r.

Lemma prefixb_iff : forall a b, prefixb a b = true <-> is_prefix a b.
Proof.
  induction a as [|x a IH]; intro b; simpl.
  - split; [intros _; exists b; reflexivity | reflexivity].
  - destruct b as [|y b].
    + split; [discriminate | intros [r Hr]; discriminate].
    + rewrite andb_true_iff, seqb_iff, IH. split.
      * intros [E [r Hr]]. subst. exists r. reflexivity.
      * intros [r Hr]. inversion Hr; subst. split; [reflexivity | exists r; reflexivity].
Qed.

Lemma prefixb_false_iff a b : prefixb a b = false <-> ~ is_prefix a b.
Proof.
  split.
  - intros H E. apply prefixb_iff in E. congruence.
  - intro H. destruct (prefixb a b) eqn:E; [apply prefixb_iff in E; contradiction | reflexivity].
Qed.

Lemma prefix_refl a : is_prefix a a.
Proof. exists []. rewrite app_nil_r. reflexivity. Qed.

Lemma prefix_app a r : is_prefix a (a ++ r).
Proof. exists r. reflexivity. Qed.

Lemma prefix_trans a b c : is_prefix a b -> is_prefix b c -> is_prefix a c.
Proof. intros [r Hr] [t Ht]. subst. exists (r ++ t). rewrite app_assoc. reflexivity. Qed.

Lemma prefix_cancel p a b : is_prefix (p ++ a) (p ++ b) <-> is_prefix a b.
Proof.
  split; intros [r Hr].
  - rewrite <- app_assoc in Hr. apply app_inv_head in Hr. exists r. exact Hr.
  - subst. exists r. rewrite app_assoc. reflexivity.
Qed.

Lemma prefix_comparable : forall a b c : list str,
  is_prefix a c -> is_prefix b c -> is_prefix a b \/ is_prefix b a.
Proof.
  induction a as [|x a IH]; intros b c Ha Hb.
  - left. exists b. reflexivity.
  - destruct b as [|y b]; [right; exists (x :: a); reflexivity |].
    destruct Ha as [r Hr]. destruct Hb as [t Ht]. subst c. simpl in Ht.
    inversion Ht; subst.
    destruct (IH b (a ++ r)) as [K | K].
    + exists r. reflexivity.
    + exists t. assumption.
    + left. destruct K as [u Hu]. exists u. simpl. f_equal. exact Hu.
    + right. destruct K as [u Hu]. exists u. simpl. f_equal. exact Hu.
Qed.

Lemma prefix_snoc a b n : is_prefix a (b ++ [n]) -> is_prefix a b \/ a = b ++ [n].
Proof.
  intros [r Hr]. destruct (rev r) as [|z rr] eqn:E.
  - assert (r = []) by (rewrite <- (rev_involutive r), E; reflexivity). subst r.
    right. rewrite app_nil_r in Hr. auto.
  - assert (Er : r = rev rr ++ [z]) by (rewrite <- (rev_involutive r), E; reflexivity).
    subst r. rewrite app_assoc in Hr. apply app_inj_tail in Hr. destruct Hr as [Hr _].
    left. exists (rev rr). exact Hr.
Qed.

Lemma prefix_length a b : is_prefix a b -> List.length a <= List.length b.
Proof. intros [r Hr]. subst. rewrite app_length. lia. Qed.

Definition np := (nat * list str)%type.

Definition np_le (d p : np) : Prop := fst d = fst p /\ is_prefix (snd d) (snd p).

Lemma np_inside_eq_iff d p : np_inside_eq d p = true <-> np_le d p.
Proof.
  unfold np_inside_eq, np_le. rewrite andb_true_iff, Nat.eqb_eq, prefixb_iff. reflexivity.
Qed.

Lemma np_inside_eq_false d p : np_inside_eq d p = false <-> ~ np_le d p.
Proof.
  split.
  - intros H E. apply np_inside_eq_iff in E. congruence.
  - intro H. destruct (np_inside_eq d p) eqn:E; [apply np_inside_eq_iff in E; contradiction | reflexivity].
Qed.

Lemma npath_eqb_iff p q : npath_eqb p q = true <-> p = q.
Proof.
  unfold npath_eqb. rewrite andb_true_iff, Nat.eqb_eq, list_eqb_iff.
  destruct p, q; simpl. split; [intros [? ?]; subst; reflexivity | intro H; inversion H; auto].
Qed.

Lemma np_neqb_iff p q : np_neqb p q = true <-> p <> q.
Proof.
  unfold np_neqb. rewrite negb_true_iff. split.
  - intros H E. apply npath_eqb_iff in E. congruence.
  - intro H. destruct (npath_eqb p q) eqn:E; [apply npath_eqb_iff in E; contradiction | reflexivity].
Qed.

(** extension of a normal form by further components *)
Definition ext (d : np) (r : list str) : np := (fst d, snd d ++ r).

Lemma np_le_refl d : np_le d d.
Proof. split; [reflexivity | apply prefix_refl]. Qed.

Lemma np_le_ext d r : np_le d (ext d r).
Proof. split; [reflexivity | apply prefix_app]. Qed.

Lemma np_le_trans a b c : np_le a b -> np_le b c -> np_le a c.
Proof. intros [H1 H2] [H3 H4]. split; [congruence | eapply prefix_trans; eassumption]. Qed.

Lemma ext_ext d r t : ext (ext d r) t = ext d (r ++ t).
Proof. unfold ext. simpl. rewrite app_assoc. reflexivity. Qed.

(** two directories are unrelated: neither is the other or above it *)
Definition unrelated (p q : np) : Prop := ~ np_le p q /\ ~ np_le q p.

Lemma unrelated_sym p q : unrelated p q -> unrelated q p.
Proof. intros [H1 H2]. split; assumption. Qed.

(** Anything at or below [p] is unrelated to anything at or below [q]. *)
Lemma unrelated_below p q p' q' :
  unrelated p q -> np_le p p' -> np_le q q' -> unrelated p' q'.
Proof.
  intros [H1 H2] [Hp1 Hp2] [Hq1 Hq2]. split; intros [K1 K2].
  - assert (Hc : is_prefix (snd p) (snd q')) by (eapply prefix_trans; eassumption).
    destruct (prefix_comparable _ _ _ Hc Hq2) as [K | K].
    + apply H1. split; [congruence | exact K].
    + apply H2. split; [congruence | exact K].
  - assert (Hc : is_prefix (snd q) (snd p')) by (eapply prefix_trans; eassumption).
    destruct (prefix_comparable _ _ _ Hc Hp2) as [K | K].
    + apply H2. split; [congruence | exact K].
    + apply H1. split; [congruence | exact K].
Qed.

Lemma unrelated_neq p q : unrelated p q -> p <> q.
Proof. intros [H _] E. subst. apply H. apply np_le_refl. Qed.

Lemma unrelated_ext d a b :
  ~ is_prefix a b -> ~ is_prefix b a -> unrelated (ext d a) (ext d b).
Proof.
  intros H1 H2. split; intros [_ K]; unfold ext in K; simpl in K; apply (proj1 (prefix_cancel _ _ _)) in K; auto.
Qed.

(** strict inside-ness of one more component *)
Lemma np_inside_ext d r : r <> [] -> np_inside d (ext d r) = true.
Proof.
  intro H. unfold np_inside. apply andb_true_iff. split.
  - apply np_inside_eq_iff. apply np_le_ext.
  - apply Nat.ltb_lt. unfold ext. simpl. rewrite app_length.
    destruct r; [congruence | simpl; lia].
Qed.

Lemma np_inside_trans_le a b c : np_le a b -> np_inside b c = true -> np_inside a c = true.
Proof.
  intros H K. unfold np_inside in *. apply andb_true_iff in K. destruct K as [K1 K2].
  apply np_inside_eq_iff in K1. apply Nat.ltb_lt in K2.
  apply andb_true_iff. split.
  - apply np_inside_eq_iff. eapply np_le_trans; eassumption.
  - apply Nat.ltb_lt. destruct H as [_ H]. apply prefix_length in H. lia.
Qed.

Lemma np_child_ext d n : np_child d (ext d [n]) = true.
Proof.
  unfold np_child. apply andb_true_iff. split.
  - apply np_inside_eq_iff. apply np_le_ext.
  - apply Nat.eqb_eq. unfold ext. simpl. rewrite app_length. simpl. lia.
Qed.

Lemma np_within_ext k d r :
  r <> [] -> List.length r <= k -> np_within k d (ext d r) = true.
Proof.
  intros H1 H2. unfold np_within. apply andb_true_iff. split.
  - apply np_inside_ext. exact H1.
  - apply Nat.leb_le. unfold ext. simpl. rewrite app_length. lia.
Qed.

Lemma np_child_inside d p : np_child d p = true -> np_inside d p = true.
Proof.
  unfold np_child, np_inside. intro H. apply andb_true_iff in H. destruct H as [H1 H2].
  apply Nat.eqb_eq in H2. rewrite H1. simpl. apply Nat.ltb_lt. lia.
Qed.

(* ------------------------------------------------------------------------ *)
(** * Part G -- [npath] computes a normal form; [normpath] is idempotent *)

(** a normal component list: some ".." (none when the path is absolute)
    followed by slash-free components other than "", ".", ".." *)
Definition normal_comps (absolute : bool) (l : list str) : Prop :=
  exists k rest, l = repeat dotdot k ++ rest /\ (absolute = true -> k = 0) /\ Forall okcomp rest.

Lemma split_slash_slashfree x : Forall (fun c => ~ In SLASH c) (split_slash x).
Proof.
  induction x as [|c x IH]; simpl.
  - constructor; [intros [] | constructor].
  - destruct (N.eqb c SLASH) eqn:E.
    + constructor; [intros [] | exact IH].
    + destruct (split_slash x) as [|hd tl]; [constructor; [| constructor] |].
      * intros [K | []]. subst. rewrite N.eqb_refl in E. discriminate.
      * inversion IH; subst. constructor; [| assumption].
        intros [K | K]; [subst; rewrite N.eqb_refl in E; discriminate | contradiction].
Qed.

Definition stk_ok (absolute : bool) (stk : list str) : Prop :=
  exists g k, stk = g ++ repeat dotdot k /\ Forall okcomp g /\ (absolute = true -> k = 0).

Lemma dotdot_not_ok : ~ okcomp dotdot.
Proof. intros [_ [_ [_ H]]]. congruence. Qed.

Lemma norm_step_ok absolute stk c :
  ~ In SLASH c -> stk_ok absolute stk -> stk_ok absolute (norm_step absolute stk c).
Proof.
  intros Hc [g [k [E [Hg Hk]]]]. unfold norm_step.
  destruct (is_empty c) eqn:E1; [exists g, k; auto |].
  destruct (str_eqb c dot) eqn:E2; [exists g, k; auto |]. simpl.
  destruct (str_eqb c dotdot) eqn:E3.
  - apply seqb_iff in E3. subst c.
    destruct stk as [|t stk'].
    + destruct absolute; [exists [], 0; auto |].
      exists [], 1. repeat split; [constructor | discriminate].
    + destruct (str_eqb t dotdot) eqn:E4.
      * apply seqb_iff in E4. subst t.
        destruct g as [|t g'].
        -- simpl in E. exists [], (S k). simpl. rewrite <- E. repeat split; [constructor |].
           intro A. specialize (Hk A). subst k. discriminate.
        -- inversion E; subst. inversion Hg; subst. exfalso. apply dotdot_not_ok. assumption.
      * apply seqb_false_iff in E4. destruct g as [|t' g'].
        -- simpl in E. destruct k; [discriminate |]. simpl in E. inversion E. congruence.
        -- inversion E; subst. inversion Hg; subst. exists g', k. auto.
  - exists (c :: g), k. repeat split; [rewrite E; reflexivity | | exact Hk].
    constructor; [| exact Hg]. split; [exact Hc |].
    apply is_empty_false in E1. apply seqb_false_iff in E2, E3. repeat split; assumption.
Qed.

Lemma norm_stack_ok absolute : forall comps stk,
  Forall (fun c => ~ In SLASH c) comps -> stk_ok absolute stk ->
  stk_ok absolute (norm_stack absolute comps stk).
Proof.
  unfold norm_stack. induction comps as [|c comps IH]; intros stk Hc Hs; simpl; [exact Hs |].
  inversion Hc; subst. apply IH; [assumption |]. apply norm_step_ok; assumption.
Qed.

Lemma rev_repeat {A} (x : A) k : rev (repeat x k) = repeat x k.
Proof.
  induction k as [|k IH]; simpl; [reflexivity |]. rewrite IH.
  clear IH. induction k as [|k IH]; simpl; [reflexivity |]. rewrite IH. reflexivity.
Qed.

Lemma Forall_rev' {A} (P : A -> Prop) l : Forall P l -> Forall P (rev l).
Proof. rewrite !Forall_forall. intros H x Hx. apply H. apply in_rev. exact Hx. Qed.

Theorem npath_normal x : normal_comps (0 <? fst (npath x)) (snd (npath x)).
Proof.
  unfold npath. simpl.
  destruct (norm_stack_ok (0 <? lead_slashes x) (split_slash x) [] (split_slash_slashfree x))
    as [g [k [E [Hg Hk]]]].
  - exists [], 0. repeat split; constructor.
  - rewrite E, rev_app_distr, rev_repeat. exists k, (rev g).
    repeat split; [exact Hk | apply Forall_rev'; exact Hg].
Qed.

Lemma lead_slashes_le x : lead_slashes x <= 2.
Proof.
  unfold lead_slashes. destruct x as [|a [|b [|c r]]]; simpl;
    repeat match goal with |- context [N.eqb ?u ?v] => destruct (N.eqb u v) end; simpl.
  all: lia.
Qed.

Lemma split_slash_repeat l y :
  split_slash (repeat SLASH l ++ y) = repeat [] l ++ split_slash y.
Proof. induction l as [|l IH]; simpl; [reflexivity |]. rewrite IH. reflexivity. Qed.

Lemma norm_stack_empties absolute l cs stk :
  norm_stack absolute (repeat [] l ++ cs) stk = norm_stack absolute cs stk.
Proof. induction l as [|l IH]; simpl; [reflexivity | exact IH]. Qed.

Lemma join_slash_cons c r : r <> [] -> join_slash (c :: r) = c ++ SLASH :: join_slash r.
Proof. destruct r; [congruence | reflexivity]. Qed.

Lemma split_join_slash : forall comps,
  comps <> [] -> Forall (fun c => ~ In SLASH c) comps -> split_slash (join_slash comps) = comps.
Proof.
  induction comps as [|c r IH]; intros Hne Hc; [congruence |].
  inversion Hc; subst. destruct r as [|d r'].
  - simpl. apply split_slash_noslash. assumption.
  - rewrite join_slash_cons by discriminate. rewrite split_slash_app.
    rewrite split_slash_noslash by assumption. rewrite IH; [reflexivity | discriminate | assumption].
Qed.

Lemma norm_stack_dotdots : forall k j,
  norm_stack false (repeat dotdot k) (repeat dotdot j) = repeat dotdot (k + j).
Proof.
  induction k as [|k IH]; intro j; simpl; [reflexivity |].
  replace (norm_step false (repeat dotdot j) dotdot) with (repeat dotdot (S j)).
  - rewrite IH. replace (k + S j) with (S (k + j)) by lia. reflexivity.
  - destruct j; reflexivity.
Qed.

Lemma norm_stack_goods absolute : forall g stk,
  Forall okcomp g -> norm_stack absolute g stk = rev g ++ stk.
Proof.
  induction g as [|c g IH]; intros stk H; simpl; [reflexivity |].
  inversion H as [|? ? [_ Hc] Hg]; subst. rewrite norm_step_good by exact Hc.
  rewrite IH by exact Hg. rewrite <- app_assoc. reflexivity.
Qed.

Lemma norm_stack_normal absolute comps :
  normal_comps absolute comps -> norm_stack absolute comps [] = rev comps.
Proof.
  intros [k [g [E [Hk Hg]]]]. subst comps. rewrite norm_stack_app.
  assert (K : norm_stack absolute (repeat dotdot k) [] = repeat dotdot k).
  { destruct absolute.
    - rewrite (Hk eq_refl). reflexivity.
    - change (@nil str) with (repeat dotdot 0). rewrite (norm_stack_dotdots k 0). f_equal. lia. }
  rewrite K, norm_stack_goods by exact Hg. rewrite rev_app_distr, rev_repeat. reflexivity.
Qed.

Lemma normal_slashfree absolute comps :
  normal_comps absolute comps -> Forall (fun c => ~ In SLASH c) comps.
Proof.
  intros [k [g [E [_ Hg]]]]. subst. apply Forall_app. split.
  - apply Forall_forall. intros c Hc. apply repeat_spec in Hc. subst.
    intros [K | [K | []]]; discriminate.
  - eapply Forall_impl; [| exact Hg]. intros c [H _]. exact H.
Qed.

Lemma normal_head absolute c r :
  normal_comps absolute (c :: r) -> exists a c', c = a :: c' /\ a <> SLASH.
Proof.
  intros [k [g [E [_ Hg]]]]. destruct k.
  - simpl in E. subst g. inversion Hg as [|? ? [Hs [Hne _]] _]; subst.
    destruct c as [|a c']; [congruence |]. exists a, c'. split; [reflexivity |].
    intro. subst. apply Hs. left. reflexivity.
  - simpl in E. inversion E. exists DOT, [DOT]. split; [reflexivity | discriminate].
Qed.

Lemma lead_slashes_repeat l y :
  l <= 2 -> (y = [] \/ exists a y', y = a :: y' /\ a <> SLASH) ->
  lead_slashes (repeat SLASH l ++ y) = l.
Proof.
  intros Hl Hy.
  destruct Hy as [E | [a [y' [E Ha]]]]; subst.
  - destruct l as [|[|[|l]]]; try reflexivity; lia.
  - apply N.eqb_neq in Ha.
    destruct l as [|[|[|l]]]; simpl; rewrite ?Ha; try reflexivity. lia.
Qed.

Lemma join_slash_head c r : exists t, join_slash (c :: r) = c ++ t.
Proof.
  destruct r; [exists []; simpl; rewrite app_nil_r; reflexivity |].
  eexists. rewrite join_slash_cons by discriminate. reflexivity.
Qed.

Theorem npath_normpath x : npath (normpath x) = npath x.
Proof.
  pose proof (npath_normal x) as Hn. pose proof (lead_slashes_le x) as Hl.
  unfold normpath. destruct (npath x) as [l comps] eqn:E.
  assert (El : l = lead_slashes x) by (unfold npath in E; inversion E; reflexivity).
  simpl in Hn. rewrite <- El in Hl.
  destruct comps as [|c r].
  - (* only slashes, or nothing *)
    simpl. rewrite app_nil_r.
    destruct l as [|[|[|l]]]; try reflexivity. lia.
  - destruct (normal_head _ c r Hn) as [a [c' [Ec Ha]]].
    destruct (join_slash_head c r) as [t Et].
    assert (Hne : is_empty (repeat SLASH l ++ join_slash (c :: r)) = false).
    { rewrite Et, Ec. destruct l; reflexivity. }
    rewrite Hne. unfold npath.
    assert (Hlead : lead_slashes (repeat SLASH l ++ join_slash (c :: r)) = l).
    { apply lead_slashes_repeat; [exact Hl |].
      right. rewrite Et, Ec. simpl. eexists; eexists; split; [reflexivity | exact Ha]. }
    rewrite Hlead. f_equal.
    rewrite split_slash_repeat, norm_stack_empties.
    rewrite split_join_slash; [| discriminate | exact (normal_slashfree _ _ Hn)].
    rewrite norm_stack_normal by exact Hn. apply rev_involutive.
Qed.

Theorem normpath_idempotent x : normpath (normpath x) = normpath x.
Proof. unfold normpath at 1 3. rewrite npath_normpath. reflexivity. Qed.

Lemma normpath_idem x : npath (normpath x) = npath x /\ normpath (normpath x) = normpath x.
Proof. split; [apply npath_normpath | apply normpath_idempotent]. Qed.

(* ------------------------------------------------------------------------ *)
(** * Part D -- file names (adapter templates, T-data) *)

Lemma NoDup_app_intro {A} (a b : list A) :
  NoDup a -> NoDup b -> (forall x, In x a -> ~ In x b) -> NoDup (a ++ b).
Proof.
  induction a as [|x a IH]; intros Ha Hb Hd; simpl; [exact Hb |].
  inversion Ha; subst. constructor.
  - intro K. apply in_app_or in K. destruct K as [K | K]; [contradiction |].
    exact (Hd x (or_introl eq_refl) K).
  - apply IH; [assumption | assumption |]. intros y Hy. apply Hd. right. exact Hy.
Qed.

Lemma NoDup_map_by {A B C} (g : A -> B) (k : A -> C) (l : list A) :
  NoDup (map k l) ->
  (forall x y, In x l -> In y l -> g x = g y -> k x = k y) ->
  NoDup (map g l).
Proof.
  induction l as [|a l IH]; intros Hn Hinj; simpl; [constructor |].
  simpl in Hn. inversion Hn; subst. constructor.
  - intro K. apply in_map_iff in K. destruct K as [y [Hy1 Hy2]].
    apply H1. apply in_map_iff. exists y. split; [| exact Hy2].
    apply Hinj; [right; exact Hy2 | left; reflexivity | exact Hy1].
  - apply IH; [assumption |]. intros x y Hx Hy. apply Hinj; right; assumption.
Qed.

Lemma map_flat_map {A B C} (f : B -> C) (g : A -> list B) (l : list A) :
  map f (flat_map g l) = flat_map (fun x => map f (g x)) l.
Proof. induction l as [|a l IH]; simpl; [reflexivity |]. rewrite map_app, IH. reflexivity. Qed.

Lemma app_eq_len_head {A} : forall (a b x y : list A),
  List.length a = List.length b -> a ++ x = b ++ y -> a = b /\ x = y.
Proof.
  induction a as [|c a IH]; destruct b as [|d b]; simpl; intros x y Hl He; try discriminate.
  - auto.
  - inversion He; subst. destruct (IH b x y) as [E1 E2]; [lia | assumption |]. subst. auto.
Qed.

Lemma app_eq_len_tail {A} (p q s1 s2 : list A) :
  List.length s1 = List.length s2 -> p ++ s1 = q ++ s2 -> p = q /\ s1 = s2.
Proof.
  intros Hl He. apply (f_equal (@rev A)) in He. rewrite !rev_app_distr in He.
  apply app_eq_len_head in He; [| rewrite !rev_length; exact Hl].
  destruct He as [E1 E2]. split.
  - rewrite <- (rev_involutive p), <- (rev_involutive q), E2. reflexivity.
  - rewrite <- (rev_involutive s1), <- (rev_involutive s2), E1. reflexivity.
Qed.

Fixpoint strip_prefix (a x : str) : option str :=
  match a, x with
  | [], _ => Some x
  | c :: a', d :: x' => if N.eqb c d then strip_prefix a' x' else None
  | _ :: _, [] => None
  end.

Lemma strip_prefix_app a r : strip_prefix a (a ++ r) = Some r.
Proof. induction a as [|c a IH]; simpl; [reflexivity |]. rewrite N.eqb_refl. exact IH. Qed.

(** the literals of the (regenerated) templates; the shape lemmas below fail to
    compile when a template no longer has the shape <name><literal> resp.
    <name><literal><pid><literal> *)
Definition lit_of (p : tpiece) : str := match p with TLit x => x | _ => [] end.
Definition scr_lit (a : adapter) : str :=
  match script_tmpl a with [_; p] => lit_of p | _ => [] end.
Definition rst_lit (a : adapter) : str :=
  match restart_tmpl a with [_; p] => lit_of p | _ => [] end.
Definition out_l1 : str := match out_tmpl with [_; p; _; _] => lit_of p | _ => [] end.
Definition out_l2 : str := match out_tmpl with [_; _; _; p] => lit_of p | _ => [] end.
Definition err_l1 : str := match err_tmpl with [_; p; _; _] => lit_of p | _ => [] end.
Definition err_l2 : str := match err_tmpl with [_; _; _; p] => lit_of p | _ => [] end.

Lemma script_shape a : script_tmpl a = [TName; TLit (scr_lit a)].
Proof. destruct a; reflexivity. Qed.
Lemma restart_shape a : restart_tmpl a = [TName; TLit (rst_lit a)].
Proof. destruct a; reflexivity. Qed.
Lemma out_shape : out_tmpl = [TName; TLit out_l1; TPid; TLit out_l2].
Proof. reflexivity. Qed.
Lemma err_shape : err_tmpl = [TName; TLit err_l1; TPid; TLit err_l2].
Proof. reflexivity. Qed.

(** has a character other than '.' *)
Definition solid (x : str) : bool := existsb (fun c => negb (N.eqb c DOT)) x.
(** [x] is not [o1 ++ <digits, at least one> ++ ...] *)
Definition not_outlike (o1 x : str) : bool :=
  match strip_prefix o1 x with Some (c :: _) => negb (is_digit c) | _ => true end.

Lemma lit_facts a :
  memN SLASH (scr_lit a) = false /\ memN SLASH (rst_lit a) = false /\
  solid (scr_lit a) = true /\ solid (rst_lit a) = true /\
  str_eqb (scr_lit a) (rst_lit a) = false /\
  not_outlike out_l1 (scr_lit a) = true /\ not_outlike out_l1 (rst_lit a) = true /\
  not_outlike err_l1 (scr_lit a) = true /\ not_outlike err_l1 (rst_lit a) = true.
Proof. destruct a; vm_compute; repeat split; reflexivity. Qed.

Lemma outerr_facts :
  memN SLASH out_l1 = false /\ memN SLASH out_l2 = false /\
  memN SLASH err_l1 = false /\ memN SLASH err_l2 = false /\
  solid out_l2 = true /\ solid err_l2 = true /\
  out_l1 = err_l1 /\ List.length out_l2 = List.length err_l2 /\ out_l2 <> err_l2.
Proof. vm_compute; repeat split; try reflexivity. discriminate. Qed.

Definition digits (p : str) : Prop := Forall (fun c => is_digit c = true) p.

Lemma digit_noslash p : digits p -> ~ In SLASH p.
Proof.
  intros H K. unfold digits in H. rewrite Forall_forall in H. apply H in K.
  vm_compute in K. discriminate.
Qed.

Lemma solid_good x : solid x = true -> good x.
Proof.
  unfold solid. rewrite existsb_exists. intros [c [Hc Hd]].
  apply negb_true_iff in Hd. apply N.eqb_neq in Hd.
  assert (K : forall y, (forall d, In d y -> d = DOT) -> x <> y).
  { intros y Hy E. subst. apply Hd. apply Hy. exact Hc. }
  repeat split.
  - intro E. subst. destruct Hc.
  - apply K. intros d [Hd1 | []]. auto.
  - apply K. intros d [Hd1 | [Hd1 | []]]; auto.
Qed.

Lemma solid_app_r a b : solid b = true -> solid (a ++ b) = true.
Proof.
  unfold solid. rewrite !existsb_exists. intros [c [Hc Hd]]. exists c.
  split; [apply in_or_app; right; exact Hc | exact Hd].
Qed.

Lemma not_outlike_neq o1 o2 x p :
  not_outlike o1 x = true -> p <> [] -> digits p -> x <> o1 ++ p ++ o2.
Proof.
  intros H Hp Hd E. subst x. unfold not_outlike in H. rewrite strip_prefix_app in H.
  destruct p as [|c p]; [congruence |]. simpl in H.
  inversion Hd; subst. rewrite H2 in H. discriminate.
Qed.

Section Names.
Variable h : str -> str.
Variable st : study.

Definition script_name (i : inst) : str := sname h (s_hashws st) i ++ scr_lit (s_adapter st).
Definition restart_name (i : inst) : str := sname h (s_hashws st) i ++ rst_lit (s_adapter st).
Definition out_name (i : inst) (pid : str) : str := sname h (s_hashws st) i ++ out_l1 ++ pid ++ out_l2.
Definition err_name (i : inst) (pid : str) : str := sname h (s_hashws st) i ++ err_l1 ++ pid ++ err_l2.

Lemma fill_2 i pid a : fill h st i pid [TName; TLit a] = sname h (s_hashws st) i ++ a.
Proof. unfold fill. simpl. rewrite app_nil_r. reflexivity. Qed.
Lemma fill_4 i pid a b :
  fill h st i pid [TName; TLit a; TPid; TLit b] = sname h (s_hashws st) i ++ a ++ pid ++ b.
Proof. unfold fill. simpl. rewrite app_nil_r. reflexivity. Qed.

Lemma fill_script i : fill h st i [] (script_tmpl (s_adapter st)) = script_name i.
Proof. rewrite script_shape. apply fill_2. Qed.
Lemma fill_restart i : fill h st i [] (restart_tmpl (s_adapter st)) = restart_name i.
Proof. rewrite restart_shape. apply fill_2. Qed.
Lemma fill_out i pid : fill h st i pid out_tmpl = out_name i pid.
Proof. rewrite out_shape. apply fill_4. Qed.
Lemma fill_err i pid : fill h st i pid err_tmpl = err_name i pid.
Proof. rewrite err_shape. apply fill_4. Qed.

(** The files of one instance as (directory, file name) pairs. *)
Definition mfiles (i : inst) : list (str * str) :=
  (scr_dir h st i, script_name i) ::
  (if i_restart i then [(scr_dir h st i, restart_name i)] else []) ++
  flat_map (fun pid => [(workspace h st i, out_name i pid); (workspace h st i, err_name i pid)])
           (i_pids i).

Definition jn (dn : str * str) : str := join2 (fst dn) (snd dn).

Lemma o_files_model i : o_files (model_iobs h st i) = map jn (mfiles i).
Proof.
  unfold o_files, o_scripts, model_iobs, mfiles, script_path, restart_path, out_paths. simpl.
  rewrite fill_script. f_equal.
  rewrite map_app. f_equal.
  - destruct (i_restart i); simpl; [rewrite fill_restart |]; reflexivity.
  - rewrite map_flat_map. induction (i_pids i) as [|p l IH]; simpl; [reflexivity |].
    rewrite fill_out, fill_err, IH. reflexivity.
Qed.

Lemma o_scripts_model i :
  o_scripts (model_iobs h st i) =
  join2 (scr_dir h st i) (script_name i) ::
  (if i_restart i then [join2 (scr_dir h st i) (restart_name i)] else []).
Proof.
  unfold o_scripts, model_iobs, script_path, restart_path. simpl.
  rewrite fill_script. destruct (i_restart i); simpl; [rewrite fill_restart |]; reflexivity.
Qed.

Lemma o_outs_model i :
  o_outs (model_iobs h st i) =
  flat_map (fun pid => [join2 (workspace h st i) (out_name i pid);
                        join2 (workspace h st i) (err_name i pid)]) (i_pids i).
Proof.
  unfold model_iobs, out_paths. simpl.
  induction (i_pids i) as [|p l IH]; simpl; [reflexivity |].
  rewrite fill_out, fill_err, IH. reflexivity.
Qed.

Variable i : inst.
Hypothesis Hns : ~ In SLASH (sname h (s_hashws st) i).
Hypothesis Hpids : NoDup (i_pids i) /\ Forall is_pid (i_pids i).

Lemma pid_digits p : In p (i_pids i) -> p <> [] /\ digits p.
Proof.
  intro Hp. destruct Hpids as [_ H]. rewrite Forall_forall in H. exact (H p Hp).
Qed.

Lemma noslash_app a b : ~ In SLASH a -> ~ In SLASH b -> ~ In SLASH (a ++ b).
Proof. intros Ha Hb K. apply in_app_or in K. tauto. Qed.

Lemma script_name_ok : okcomp (script_name i).
Proof.
  destruct (lit_facts (s_adapter st)) as [F1 [_ [F3 _]]]. split.
  - apply noslash_app; [exact Hns | apply memN_false; exact F1].
  - apply solid_good. apply solid_app_r. exact F3.
Qed.

Lemma restart_name_ok : okcomp (restart_name i).
Proof.
  destruct (lit_facts (s_adapter st)) as [_ [F2 [_ [F4 _]]]]. split.
  - apply noslash_app; [exact Hns | apply memN_false; exact F2].
  - apply solid_good. apply solid_app_r. exact F4.
Qed.

Lemma out_name_ok p : In p (i_pids i) -> okcomp (out_name i p).
Proof.
  intro Hp. destruct (pid_digits p Hp) as [_ Hd].
  destruct outerr_facts as [F1 [F2 [_ [_ [F5 _]]]]]. split.
  - repeat apply noslash_app; try exact Hns; try (apply memN_false; assumption).
    apply digit_noslash. exact Hd.
  - apply solid_good. repeat apply solid_app_r. exact F5.
Qed.

Lemma err_name_ok p : In p (i_pids i) -> okcomp (err_name i p).
Proof.
  intro Hp. destruct (pid_digits p Hp) as [_ Hd].
  destruct outerr_facts as [_ [_ [F3 [F4 [_ [F6 _]]]]]]. split.
  - repeat apply noslash_app; try exact Hns; try (apply memN_false; assumption).
    apply digit_noslash. exact Hd.
  - apply solid_good. repeat apply solid_app_r. exact F6.
Qed.

Lemma mfiles_names_ok dn : In dn (mfiles i) -> okcomp (snd dn).
Proof.
  unfold mfiles. intros [E | K].
  - subst. apply script_name_ok.
  - apply in_app_or in K. destruct K as [K | K].
    + destruct (i_restart i); [| destruct K]. destruct K as [E | []]. subst. apply restart_name_ok.
    + apply in_flat_map in K. destruct K as [p [Hp [E | [E | []]]]]; subst; simpl.
      * apply out_name_ok. exact Hp.
      * apply err_name_ok. exact Hp.
Qed.

(** the part of a file name after the step name *)
Definition tails : list str :=
  (scr_lit (s_adapter st) :: (if i_restart i then [rst_lit (s_adapter st)] else [])) ++
  flat_map (fun p => [out_l1 ++ p ++ out_l2; err_l1 ++ p ++ err_l2]) (i_pids i).

Lemma mfiles_names : map snd (mfiles i) = map (app (sname h (s_hashws st) i)) tails.
Proof.
  unfold mfiles, tails. simpl. f_equal. rewrite !map_app. f_equal.
  - destruct (i_restart i); reflexivity.
  - rewrite !map_flat_map. apply flat_map_ext. intro p. reflexivity.
Qed.

Lemma out_tail_inj p q : out_l1 ++ p ++ out_l2 = out_l1 ++ q ++ out_l2 -> p = q.
Proof. intro E. apply app_inv_head in E. apply app_inv_tail in E. exact E. Qed.
Lemma err_tail_inj p q : err_l1 ++ p ++ err_l2 = err_l1 ++ q ++ err_l2 -> p = q.
Proof. intro E. apply app_inv_head in E. apply app_inv_tail in E. exact E. Qed.
Lemma out_err_tail_neq p q : out_l1 ++ p ++ out_l2 <> err_l1 ++ q ++ err_l2.
Proof.
  destruct outerr_facts as [_ [_ [_ [_ [_ [_ [F7 [F8 F9]]]]]]]]. intro E.
  rewrite F7 in E. apply app_inv_head in E. apply app_eq_len_tail in E; [| exact F8].
  destruct E as [_ E]. contradiction.
Qed.

Lemma tails_pid_part : forall l,
  NoDup l -> NoDup (flat_map (fun p => [out_l1 ++ p ++ out_l2; err_l1 ++ p ++ err_l2]) l).
Proof.
  induction l as [|p l IH]; intro Hn; simpl; [constructor |].
  inversion Hn; subst. constructor; [| constructor].
  - intros [E | K]; [exact (out_err_tail_neq p p (eq_sym E)) |].
    apply in_flat_map in K. destruct K as [q [Hq [E | [E | []]]]].
    + apply out_tail_inj in E. subst. contradiction.
    + exact (out_err_tail_neq p q (eq_sym E)).
  - intro K. apply in_flat_map in K. destruct K as [q [Hq [E | [E | []]]]].
    + exact (out_err_tail_neq q p E).
    + apply err_tail_inj in E. subst. contradiction.
  - apply IH. assumption.
Qed.

Lemma tails_nodup : NoDup tails.
Proof.
  destruct (lit_facts (s_adapter st)) as [_ [_ [_ [_ [F5 [F6 [F7 [F8 F9]]]]]]]].
  apply seqb_false_iff in F5.
  unfold tails. apply NoDup_app_intro.
  - destruct (i_restart i).
    + constructor; [intros [E | []]; congruence | constructor; [intros [] | constructor]].
    + constructor; [intros [] | constructor].
  - apply tails_pid_part. exact (proj1 Hpids).
  - intros x Hx K. apply in_flat_map in K. destruct K as [p [Hp K]].
    destruct (pid_digits p Hp) as [Hp1 Hp2].
    assert (Hx' : x = scr_lit (s_adapter st) \/ x = rst_lit (s_adapter st)).
    { destruct Hx as [E | Hx]; [left; auto |]. destruct (i_restart i); [| destruct Hx].
      destruct Hx as [E | []]. right. auto. }
    destruct K as [E | [E | []]]; destruct Hx' as [E' | E']; rewrite E' in E; symmetry in E;
      revert E; apply not_outlike_neq; assumption.
Qed.

Lemma mfiles_names_nodup : NoDup (map snd (mfiles i)).
Proof.
  rewrite mfiles_names. apply (NoDup_map_by _ (fun x => x)).
  - rewrite map_id. exact tails_nodup.
  - intros x y _ _ E. apply app_inv_head in E. exact E.
Qed.

End Names.

(* ------------------------------------------------------------------------ *)
(** * Part E -- the monitor holds of the model under hygiene *)

Lemma pairwise_intro {A B} (f : A -> A -> bool) (key : A -> B) (l : list A) :
  NoDup (map key l) ->
  (forall x y, In x l -> In y l -> key x <> key y -> f x y = true) ->
  pairwise f l = true.
Proof.
  induction l as [|a l IH]; intros Hn Hf; simpl; [reflexivity |].
  simpl in Hn. inversion Hn; subst. apply andb_true_iff. split.
  - apply forallb_forall. intros y Hy.
    assert (Hk : key a <> key y).
    { intro E. apply H1. rewrite E. apply in_map. exact Hy. }
    apply andb_true_iff. split; apply Hf; auto; try (left; reflexivity); right; exact Hy.
  - apply IH; [assumption |]. intros x y Hx Hy. apply Hf; right; assumption.
Qed.

Lemma pairwise_elim {A} (f : A -> A -> bool) : forall l,
  pairwise f l = true ->
  forall x y, In x l -> In y l -> x = y \/ (f x y = true /\ f y x = true).
Proof.
  induction l as [|a l IH]; intros H x y Hx Hy; [destruct Hx |].
  simpl in H. apply andb_true_iff in H. destruct H as [H1 H2].
  rewrite forallb_forall in H1.
  destruct Hx as [Hx | Hx]; destruct Hy as [Hy | Hy]; subst.
  - left. reflexivity.
  - right. specialize (H1 y Hy). apply andb_true_iff in H1. exact H1.
  - right. specialize (H1 x Hx). apply andb_true_iff in H1. tauto.
  - apply IH; assumption.
Qed.

Lemma forallb_map {A B} (f : B -> bool) (g : A -> B) (l : list A) :
  forallb f (map g l) = forallb (fun a => f (g a)) l.
Proof. induction l as [|a l IH]; simpl; [reflexivity |]. rewrite IH. reflexivity. Qed.

Lemma pairwise_map {A B} (f : B -> B -> bool) (g : A -> B) : forall l,
  pairwise f (map g l) = pairwise (fun a b => f (g a) (g b)) l.
Proof.
  induction l as [|a l IH]; simpl; [reflexivity |]. rewrite IH, forallb_map. reflexivity.
Qed.

Lemma pairwise_neq_nodup (l : list np) : NoDup l -> pairwise np_neqb l = true.
Proof.
  intro H. apply (pairwise_intro _ (fun x => x)); [rewrite map_id; exact H |].
  intros x y _ _ K. apply np_neqb_iff. exact K.
Qed.

Lemma hex_facts c : is_hex c = true -> c <> DOT /\ c <> SLASH.
Proof. intro H. split; intro E; subst; vm_compute in H; discriminate. Qed.

Lemma digest_okcomp x : is_digest x -> okcomp x.
Proof.
  intros [Hne Hx]. rewrite Forall_forall in Hx. split.
  - intro K. apply Hx in K. apply hex_facts in K. destruct K as [_ K]. congruence.
  - destruct x as [|c x]; [congruence |].
    destruct (hex_facts c (Hx c (or_introl eq_refl))) as [Hc _].
    repeat split; try discriminate; intro E; inversion E; congruence.
Qed.

(** The workspace shapes of the regenerated data are non-empty lists. *)
Lemma ws_key_nonempty h hw i : ws_key h hw i <> [].
Proof.
  unfold ws_key, ws_args, ws_shape.
  destruct (i_combo i); [destruct hw |]; discriminate.
Qed.

(** Hygiene in the form the proofs use: the sanitised workspace keys of
    distinct instances are prefix-incomparable (this is implied both by the
    injectivity form [H10] and by the boolean form [h10b]). *)
Record G10 (h : str -> str) (st : study) : Prop := mkG10 {
  G_names : NoDup (map iname (s_insts st));
  G_sep : forall i j, In i (s_insts st) -> In j (s_insts st) -> iname i <> iname j ->
          ~ is_prefix (ws_key h (s_hashws st) i) (ws_key h (s_hashws st) j);
  G_good : forall i, In i (s_insts st) -> Forall good (ws_key h (s_hashws st) i);
  G_noslash : forall i, In i (s_insts st) -> ~ In SLASH (sname h (s_hashws st) i);
  G_tmp : s_tmp st <> [] ->
          (forall i, In i (s_insts st) -> is_digest (h (iname i))) /\
          (forall i j, In i (s_insts st) -> In j (s_insts st) ->
                       h (iname i) = h (iname j) -> iname i = iname j) /\
          inside_eq (s_root st) (s_tmp st) = false /\ inside_eq (s_tmp st) (s_root st) = false;
  G_pids : forall i, In i (s_insts st) -> NoDup (i_pids i) /\ Forall is_pid (i_pids i)
}.

Lemma ws_key_first h hw i : exists r, ws_key h hw i = sanitize (i_step i) :: r.
Proof.
  unfold ws_key, ws_args, ws_shape.
  destruct (i_combo i); [destruct hw |]; simpl; eexists; reflexivity.
Qed.

Lemma H10_G10 h st : H10 h st -> G10 h st.
Proof.
  intros [Hk Hn Hs Hc Hg Hsl Ht Hp]. constructor; try assumption.
  intros i j Hi Hj Hne [r Hr].
  assert (Hst : i_step i = i_step j).
  { apply Hs; try assumption.
    destruct (ws_key_first h (s_hashws st) i) as [ri Ei].
    destruct (ws_key_first h (s_hashws st) j) as [rj Ej].
    rewrite Ei, Ej in Hr. simpl in Hr. inversion Hr. reflexivity. }
  pose proof (Hk i j Hi Hj Hst) as Hkind.
  unfold ws_key, ws_args, ws_shape in Hr.
  apply Hne. unfold iname.
  destruct (i_combo i) as [ci|] eqn:Ei; destruct (i_combo j) as [cj|] eqn:Ej.
  - assert (E : ci = cj).
    { apply (Hc i j ci cj Hi Hj Hst Ei Ej). unfold wkey.
      destruct (s_hashws st); simpl in Hr; rewrite ?Ei, ?Ej in Hr; simpl in Hr;
        inversion Hr; reflexivity. }
    subst. rewrite Hst. reflexivity.
  - exfalso. destruct Hkind as [_ K]. specialize (K eq_refl). discriminate.
  - exfalso. destruct Hkind as [K _]. specialize (K eq_refl). discriminate.
  - exact Hst.
Qed.

Section Model.
Variable h : str -> str.
Variable st : study.
Hypothesis G : G10 h st.

Let hw := s_hashws st.
Let NR := npath (s_root st).
Let NT := npath (s_tmp st).

Definition wsn (i : inst) : np := ext (npath (s_root st)) (ws_key h (s_hashws st) i).
Definition sdn (i : inst) : np :=
  if is_empty (s_tmp st) then wsn i else ext (npath (s_tmp st)) [h (iname i)].

Lemma ws_key_ok i : In i (s_insts st) -> Forall okcomp (ws_key h (s_hashws st) i).
Proof.
  intro Hi. pose proof (G_good h st G i Hi) as Hg.
  rewrite Forall_forall in *. intros c Hc. split; [| apply Hg; exact Hc].
  unfold ws_key in Hc. apply in_map_iff in Hc. destruct Hc as [a [Ea _]]. subst.
  apply sanitize_noslash.
Qed.

Lemma npath_workspace i : In i (s_insts st) -> npath (workspace h st i) = wsn i.
Proof.
  intro Hi. unfold workspace, make_safe_path.
  change (map sanitize (ws_args h (s_hashws st) i)) with (ws_key h (s_hashws st) i).
  rewrite npath_join by (apply ws_key_ok; exact Hi). reflexivity.
Qed.

Lemma npath_scr_dir i : In i (s_insts st) -> npath (scr_dir h st i) = sdn i.
Proof.
  intro Hi. unfold scr_dir, sdn. destruct (is_empty (s_tmp st)) eqn:E.
  - apply npath_workspace. exact Hi.
  - apply is_empty_false in E. destruct (G_tmp h st G E) as [Hd _].
    destruct (digest_okcomp _ (Hd i Hi)) as [K1 K2].
    rewrite npath_join2 by assumption. reflexivity.
Qed.

Lemma workspace_inside i : In i (s_insts st) -> inside (s_root st) (workspace h st i) = true.
Proof.
  intro Hi. unfold inside. rewrite npath_workspace by exact Hi.
  apply np_inside_ext. apply ws_key_nonempty.
Qed.

(** every file of an instance is <directory>/<name> with a good slash-free name,
    the directory being the workspace or the script directory *)
Lemma mfiles_dir i dn :
  In i (s_insts st) -> In dn (mfiles h st i) ->
  okcomp (snd dn) /\ (npath (fst dn) = wsn i \/ npath (fst dn) = sdn i).
Proof.
  intros Hi Hdn. split.
  - apply (mfiles_names_ok h st i); [apply (G_noslash h st G); exact Hi
                                     | apply (G_pids h st G); exact Hi | exact Hdn].
  - unfold mfiles in Hdn. destruct Hdn as [E | K].
    + subst. right. apply npath_scr_dir. exact Hi.
    + apply in_app_or in K. destruct K as [K | K].
      * destruct (i_restart i); [| destruct K]. destruct K as [E | []]. subst.
        right. apply npath_scr_dir. exact Hi.
      * apply in_flat_map in K. destruct K as [p [_ [E | [E | []]]]]; subst; left;
          apply npath_workspace; exact Hi.
Qed.

Lemma npath_jn i dn :
  In i (s_insts st) -> In dn (mfiles h st i) -> npath (jn dn) = ext (npath (fst dn)) [snd dn].
Proof.
  intros Hi Hdn. destruct (mfiles_dir i dn Hi Hdn) as [[K1 K2] _].
  unfold jn. rewrite npath_join2 by assumption. reflexivity.
Qed.

Lemma tmp_unrelated : s_tmp st <> [] -> unrelated (npath (s_root st)) (npath (s_tmp st)).
Proof.
  intro E. destruct (G_tmp h st G E) as [_ [_ [K1 K2]]]. unfold inside_eq in *.
  apply np_inside_eq_false in K1, K2. split; assumption.
Qed.

(** the directories of distinct instances are pairwise unrelated *)
Lemma wsn_wsn i j : In i (s_insts st) -> In j (s_insts st) -> iname i <> iname j ->
  unrelated (wsn i) (wsn j).
Proof.
  intros Hi Hj Hne. apply unrelated_ext; apply (G_sep h st G); auto.
Qed.

Lemma sdn_sdn i j : In i (s_insts st) -> In j (s_insts st) -> iname i <> iname j ->
  unrelated (sdn i) (sdn j).
Proof.
  intros Hi Hj Hne. unfold sdn. destruct (is_empty (s_tmp st)) eqn:E.
  - apply wsn_wsn; assumption.
  - apply is_empty_false in E. destruct (G_tmp h st G E) as [_ [Hinj _]].
    apply unrelated_ext; intros [r Hr]; simpl in Hr; inversion Hr; apply Hne.
    + apply Hinj; auto.
    + symmetry. apply Hinj; auto.
Qed.

Lemma wsn_sdn i j : In i (s_insts st) -> In j (s_insts st) -> iname i <> iname j ->
  unrelated (wsn i) (sdn j).
Proof.
  intros Hi Hj Hne. unfold sdn. destruct (is_empty (s_tmp st)) eqn:E.
  - apply wsn_wsn; assumption.
  - apply is_empty_false in E.
    eapply unrelated_below; [exact (tmp_unrelated E) | apply np_le_ext | apply np_le_ext].
Qed.

Lemma dirs_unrelated i j di dj :
  In i (s_insts st) -> In j (s_insts st) -> iname i <> iname j ->
  (di = wsn i \/ di = sdn i) -> (dj = wsn j \/ dj = sdn j) -> unrelated di dj.
Proof.
  intros Hi Hj Hne [Ei | Ei] [Ej | Ej]; subst.
  - apply wsn_wsn; assumption.
  - apply wsn_sdn; assumption.
  - apply unrelated_sym. apply wsn_sdn; auto.
  - apply sdn_sdn; assumption.
Qed.

(** files of distinct instances: normal forms unrelated *)
Lemma files_unrelated i j f g :
  In i (s_insts st) -> In j (s_insts st) -> iname i <> iname j ->
  In f (mfiles h st i) -> In g (mfiles h st j) ->
  unrelated (npath (jn f)) (npath (jn g)).
Proof.
  intros Hi Hj Hne Hf Hg.
  rewrite (npath_jn i f Hi Hf), (npath_jn j g Hj Hg).
  destruct (mfiles_dir i f Hi Hf) as [_ Df]. destruct (mfiles_dir j g Hj Hg) as [_ Dg].
  eapply unrelated_below; [exact (dirs_unrelated i j _ _ Hi Hj Hne Df Dg) | apply np_le_ext | apply np_le_ext].
Qed.

Lemma ws_file_unrelated i j g :
  In i (s_insts st) -> In j (s_insts st) -> iname i <> iname j ->
  In g (mfiles h st j) -> unrelated (wsn i) (npath (jn g)).
Proof.
  intros Hi Hj Hne Hg. rewrite (npath_jn j g Hj Hg).
  destruct (mfiles_dir j g Hj Hg) as [_ Dg].
  eapply unrelated_below; [exact (dirs_unrelated i j _ _ Hi Hj Hne (or_introl eq_refl) Dg)
                          | apply np_le_refl | apply np_le_ext].
Qed.

(** files of one instance: pairwise distinct normal forms *)
Lemma files_nodup i : In i (s_insts st) -> NoDup (map npath (map jn (mfiles h st i))).
Proof.
  intro Hi. rewrite map_map. apply (NoDup_map_by _ snd).
  - exact (mfiles_names_nodup h st i (G_pids h st G i Hi)).
  - intros x y Hx Hy E. rewrite (npath_jn i x Hi Hx), (npath_jn i y Hi Hy) in E.
    unfold ext in E. inversion E as [[E1 E2]]. apply app_inj_tail in E2. apply E2.
Qed.

(* ---- the five conjuncts of the monitor ---- *)

Lemma model_ok_inside : ok_inside (model_obs h st) = true.
Proof.
  unfold ok_inside, model_obs. simpl. rewrite forallb_map. apply forallb_forall.
  intros i Hi. simpl. apply workspace_inside. exact Hi.
Qed.

Lemma model_ok_complete : ok_complete (model_obs h st) = true.
Proof.
  unfold ok_complete, model_obs. simpl. rewrite forallb_map. apply forallb_forall.
  intros i Hi. reflexivity.
Qed.

Lemma script_file_inside i n :
  In i (s_insts st) -> okcomp n ->
  (if is_empty (s_tmp st) then child (workspace h st i) (join2 (scr_dir h st i) n)
   else within 2 (s_tmp st) (join2 (scr_dir h st i) n)) = true.
Proof.
  intros Hi [K1 K2]. unfold child, within. rewrite npath_join2 by assumption.
  rewrite (npath_scr_dir i Hi). unfold sdn.
  destruct (is_empty (s_tmp st)) eqn:E.
  - rewrite (npath_workspace i Hi). apply (np_child_ext (wsn i) n).
  - change (np_within 2 (npath (s_tmp st)) (ext (ext (npath (s_tmp st)) [h (iname i)]) [n]) = true).
    rewrite ext_ext. apply np_within_ext; [discriminate | simpl; lia].
Qed.

Lemma out_file_inside i n :
  In i (s_insts st) -> okcomp n ->
  child (workspace h st i) (join2 (workspace h st i) n) = true.
Proof.
  intros Hi [K1 K2]. unfold child. rewrite npath_join2 by assumption.
  apply (np_child_ext (npath (workspace h st i)) n).
Qed.

Lemma model_ok_files_inside : ok_files_inside (model_obs h st) = true.
Proof.
  unfold ok_files_inside.
  change (o_insts (model_obs h st)) with (map (model_iobs h st) (s_insts st)).
  change (o_tmp (model_obs h st)) with (s_tmp st).
  rewrite forallb_map. apply forallb_forall. intros i Hi.
  pose proof (G_noslash h st G i Hi) as Hns. pose proof (G_pids h st G i Hi) as Hp.
  apply andb_true_iff. split.
  - rewrite o_scripts_model. change (o_ws (model_iobs h st i)) with (workspace h st i).
    apply forallb_forall. intros f [E | Hf].
    + subst. apply script_file_inside; [exact Hi | apply script_name_ok; assumption].
    + destruct (i_restart i); [| destruct Hf]. destruct Hf as [E | []]. subst.
      apply script_file_inside; [exact Hi | apply restart_name_ok; assumption].
  - rewrite o_outs_model. change (o_ws (model_iobs h st i)) with (workspace h st i).
    apply forallb_forall. intros f Hf. apply in_flat_map in Hf.
    destruct Hf as [p [Hp1 [E | [E | []]]]]; subst; apply out_file_inside; try exact Hi.
    + apply (out_name_ok h st i Hns Hp p Hp1).
    + apply (err_name_ok h st i Hns Hp p Hp1).
Qed.

Lemma model_ok_files_distinct : ok_files_distinct (model_obs h st) = true.
Proof.
  unfold ok_files_distinct.
  change (o_insts (model_obs h st)) with (map (model_iobs h st) (s_insts st)).
  apply andb_true_iff. split.
  - rewrite forallb_map. apply forallb_forall. intros i Hi.
    rewrite o_files_model. apply pairwise_neq_nodup. apply files_nodup. exact Hi.
  - rewrite pairwise_map. apply (pairwise_intro _ iname); [exact (G_names h st G) |].
    intros i j Hi Hj Hne. rewrite !o_files_model.
    apply forallb_forall. intros f Hf. apply forallb_forall. intros g Hg.
    apply in_map_iff in Hf. destruct Hf as [f' [Ef Hf]].
    apply in_map_iff in Hg. destruct Hg as [g' [Eg Hg]]. subst.
    apply np_neqb_iff. apply unrelated_neq. apply (files_unrelated i j); assumption.
Qed.

Lemma model_ok_separate : ok_separate (model_obs h st) = true.
Proof.
  unfold ok_separate.
  change (o_insts (model_obs h st)) with (map (model_iobs h st) (s_insts st)).
  rewrite pairwise_map. apply (pairwise_intro _ iname); [exact (G_names h st G) |].
  intros i j Hi Hj Hne. rewrite o_files_model.
  change (o_ws (model_iobs h st i)) with (workspace h st i).
  change (o_ws (model_iobs h st j)) with (workspace h st j).
  apply andb_true_iff. split.
  - apply negb_true_iff. unfold inside_eq. apply np_inside_eq_false.
    rewrite (npath_workspace i Hi), (npath_workspace j Hj).
    apply (wsn_wsn i j Hi Hj Hne).
  - apply forallb_forall. intros g Hg. apply in_map_iff in Hg. destruct Hg as [g' [Eg Hg]]. subst.
    apply negb_true_iff. unfold inside_eq. apply np_inside_eq_false.
    rewrite (npath_workspace i Hi). apply (ws_file_unrelated i j g' Hi Hj Hne Hg).
Qed.

Theorem model_C10_ok : C10_ok (model_obs h st) = true.
Proof.
  unfold C10_ok.
  rewrite model_ok_inside, model_ok_complete, model_ok_files_inside,
          model_ok_files_distinct, model_ok_separate. reflexivity.
Qed.

End Model.

(* ------------------------------------------------------------------------ *)
(** * Part E2 -- the statements of DESIGN section 5, C10 *)

(** What [inside] says about normal forms. *)
Lemma inside_spec d p :
  inside d p = true <-> exists r, r <> [] /\ npath p = ext (npath d) r.
Proof.
  unfold inside, np_inside. rewrite andb_true_iff, np_inside_eq_iff, Nat.ltb_lt. split.
  - intros [[H1 [r Hr]] H2]. exists r. split.
    + intro E. subst r. rewrite Hr, app_nil_r in H2. lia.
    + unfold ext. rewrite H1, <- Hr. apply surjective_pairing.
  - intros [r [H1 H2]]. rewrite H2. unfold ext. simpl. split.
    + split; [reflexivity | apply prefix_app].
    + rewrite app_length. destruct r; [congruence | simpl; lia].
Qed.

Theorem make_safe_path_inside root args :
  args <> [] -> Forall good (map sanitize args) ->
  inside root (make_safe_path root args) = true.
Proof.
  intros Hne Hg. unfold inside, make_safe_path. rewrite npath_join.
  - apply (np_inside_ext (npath root)). destruct args; [congruence | discriminate].
  - rewrite Forall_forall in *. intros c Hc. split; [| apply Hg; exact Hc].
    apply in_map_iff in Hc. destruct Hc as [a [Ea _]]. subst. apply sanitize_noslash.
Qed.

(** the workspace is  root/c1  or  root/c1/c2  with sanitised components *)
Lemma workspace_components h st i :
  exists c1 rest, ws_key h (s_hashws st) i = c1 :: rest /\ List.length rest <= 1 /\
                  workspace h st i = join (s_root st) (c1 :: rest).
Proof.
  unfold workspace, make_safe_path.
  change (map sanitize (ws_args h (s_hashws st) i)) with (ws_key h (s_hashws st) i).
  unfold ws_key, ws_args, ws_shape.
  destruct (i_combo i); [destruct (s_hashws st) |]; simpl; eexists; eexists;
    (split; [reflexivity | split; [simpl; lia | reflexivity]]).
Qed.

Theorem workspace_inside_root h st i :
  Forall good (ws_key h (s_hashws st) i) -> inside (s_root st) (workspace h st i) = true.
Proof.
  intro Hg. unfold workspace. apply make_safe_path_inside; [| exact Hg].
  intro E. apply (ws_key_nonempty h (s_hashws st) i). unfold ws_key. rewrite E. reflexivity.
Qed.

Lemma join_normal_form (a b : str) :
  ~ In SLASH b -> b <> [] -> b <> dot -> b <> dotdot ->
  npath (join2 a b) = (fst (npath a), snd (npath a) ++ [b]).
Proof. intros H1 H2 H3 H4. apply npath_join2; [exact H1 | repeat split; assumption]. Qed.

Lemma inside_path_lemma (root : str) (args : list str) :
  args <> [] ->
  Forall (fun a => sanitize a <> [] /\ sanitize a <> dot /\ sanitize a <> dotdot) args ->
  inside root (make_safe_path root args) = true.
Proof.
  intros H1 H2. apply make_safe_path_inside; [exact H1 |].
  apply Forall_forall. intros c Hc. apply in_map_iff in Hc. destruct Hc as [a [E Ha]]. subst.
  rewrite Forall_forall in H2. exact (H2 a Ha).
Qed.

Lemma inside_lemma (h : str -> str) (st : study) (i : inst) :
  (forall c, In c (ws_key h (s_hashws st) i) -> c <> [] /\ c <> dot /\ c <> dotdot) ->
  (exists c1 rest, ws_key h (s_hashws st) i = c1 :: rest /\ List.length rest <= 1 /\
                   workspace h st i = join (s_root st) (c1 :: rest)) /\
  inside (s_root st) (workspace h st i) = true.
Proof.
  intro H. split; [apply workspace_components |].
  apply workspace_inside_root. apply Forall_forall. exact H.
Qed.

Lemma script_path_jn h st i :
  script_path h st i = jn (scr_dir h st i, script_name h st i).
Proof. unfold script_path, jn. rewrite fill_script. reflexivity. Qed.

Lemma script_in_mfiles h st i : In (scr_dir h st i, script_name h st i) (mfiles h st i).
Proof. left. reflexivity. Qed.

Definition files (h : str -> str) (st : study) (i : inst) : list str := o_files (model_iobs h st i).

Theorem distinct_G10 h st i j :
  G10 h st -> In i (s_insts st) -> In j (s_insts st) -> iname i <> iname j ->
  workspace h st i <> workspace h st j /\
  script_path h st i <> script_path h st j /\
  inside_eq (workspace h st i) (workspace h st j) = false /\
  (forall f, In f (files h st j) -> inside_eq (workspace h st i) f = false) /\
  (forall f g, In f (files h st i) -> In g (files h st j) -> npath f <> npath g).
Proof.
  intros G Hi Hj Hne. repeat split.
  - intro E. apply (unrelated_neq _ _ (wsn_wsn h st G i j Hi Hj Hne)).
    rewrite <- (npath_workspace h st G i Hi), <- (npath_workspace h st G j Hj), E. reflexivity.
  - intro E. rewrite !script_path_jn in E.
    apply (unrelated_neq _ _ (files_unrelated h st G i j _ _ Hi Hj Hne
             (script_in_mfiles h st i) (script_in_mfiles h st j))).
    rewrite E. reflexivity.
  - unfold inside_eq. apply np_inside_eq_false.
    rewrite (npath_workspace h st G i Hi), (npath_workspace h st G j Hj).
    apply (wsn_wsn h st G i j Hi Hj Hne).
  - intros f Hf. unfold files in Hf. rewrite o_files_model in Hf.
    apply in_map_iff in Hf. destruct Hf as [f' [Ef Hf]]. subst.
    unfold inside_eq. apply np_inside_eq_false. rewrite (npath_workspace h st G i Hi).
    apply (ws_file_unrelated h st G i j f' Hi Hj Hne Hf).
  - intros f g Hf Hg. unfold files in *. rewrite o_files_model in Hf, Hg.
    apply in_map_iff in Hf. destruct Hf as [f' [Ef Hf]].
    apply in_map_iff in Hg. destruct Hg as [g' [Eg Hg]]. subst.
    apply unrelated_neq. apply (files_unrelated h st G i j); assumption.
Qed.

Theorem distinct_H10 h st i j :
  H10 h st -> In i (s_insts st) -> In j (s_insts st) -> iname i <> iname j ->
  workspace h st i <> workspace h st j /\
  script_path h st i <> script_path h st j /\
  inside_eq (workspace h st i) (workspace h st j) = false /\
  (forall f, In f (files h st j) -> inside_eq (workspace h st i) f = false) /\
  (forall f g, In f (files h st i) -> In g (files h st j) -> npath f <> npath g).
Proof. intro H. apply distinct_G10. apply H10_G10. exact H. Qed.

(** every file is <directory>/<file name>, file name free of '/' and not "",
    "." or "..", hence a file directly in that directory; the directory is the
    workspace, except that scripts go to <tmp>/<digest of the instance name>
    when a temp directory is in use *)
Theorem writes_inside h st i :
  ~ In SLASH (sname h (s_hashws st) i) ->
  NoDup (i_pids i) /\ Forall is_pid (i_pids i) ->
  forall f, In f (files h st i) ->
  exists dir name,
    f = join2 dir name /\ ~ In SLASH name /\ good name /\ child dir f = true /\
    (dir = workspace h st i \/
     (s_tmp st <> [] /\ dir = join2 (s_tmp st) (h (iname i)) /\
      In f (o_scripts (model_iobs h st i)))).
Proof.
  intros Hns Hp f Hf. unfold files in Hf. rewrite o_files_model in Hf.
  apply in_map_iff in Hf. destruct Hf as [[d n] [Ef Hf]]. subst f.
  destruct (mfiles_names_ok h st i Hns Hp _ Hf) as [K1 K2]. simpl in K1, K2.
  exists d, n. unfold jn. simpl fst. simpl snd.
  split; [reflexivity |]. split; [exact K1 |]. split; [exact K2 |]. split.
  - unfold child. rewrite npath_join2 by assumption. apply (np_child_ext (npath d) n).
  - assert (Hscr : forall x, In (d, n) [(scr_dir h st i, x)] ->
                   In (join2 d n) (o_scripts (model_iobs h st i)) ->
                   d = workspace h st i \/
                   s_tmp st <> [] /\ d = join2 (s_tmp st) (h (iname i)) /\
                   In (join2 d n) (o_scripts (model_iobs h st i))).
    { intros x [E | []] Hin. inversion E; subst. unfold scr_dir in *.
      destruct (is_empty (s_tmp st)) eqn:Et; [left; reflexivity |].
      right. apply is_empty_false in Et. auto. }
    unfold mfiles in Hf. destruct Hf as [E | Hf].
    + apply (Hscr (script_name h st i)); [left; auto |].
      inversion E; subst. rewrite o_scripts_model. left. reflexivity.
    + apply in_app_or in Hf. destruct Hf as [Hf | Hf].
      * destruct (i_restart i) eqn:Er; [| destruct Hf].
        apply (Hscr (restart_name h st i)); [exact Hf |].
        destruct Hf as [E | []]. inversion E; subst. rewrite o_scripts_model, Er.
        right. left. reflexivity.
      * left. apply in_flat_map in Hf. destruct Hf as [p [_ [E | [E | []]]]];
          inversion E; reflexivity.
Qed.

(** with hashed workspaces the file names of a parameterised instance are
    made from the digest, which never contains a '/' *)
Lemma sname_digest h st i c :
  s_hashws st = true -> i_combo i = Some c -> is_digest (h c) ->
  ~ In SLASH (sname h (s_hashws st) i).
Proof.
  intros Hh Hc Hd. unfold sname, nickname. rewrite Hc, Hh.
  destruct (digest_okcomp _ Hd) as [K1 [K2 _]].
  apply is_empty_false in K2. rewrite K2. exact K1.
Qed.

(** digests are left alone by the sanitiser (so with --hashws the hypothesis
    "sanitisation injective on the digests" is just "digests injective") *)
Definition hex_chars : list N := [48; 49; 50; 51; 52; 53; 54; 55; 56; 57; 97; 98; 99; 100; 101; 102]%N.

Lemma is_hex_In c : is_hex c = true -> In c hex_chars.
Proof.
  unfold is_hex, is_digit. rewrite orb_true_iff, !andb_true_iff, !N.leb_le. intro H.
  assert (K : (c = 48 \/ c = 49 \/ c = 50 \/ c = 51 \/ c = 52 \/ c = 53 \/ c = 54 \/ c = 55 \/
               c = 56 \/ c = 57 \/ c = 97 \/ c = 98 \/ c = 99 \/ c = 100 \/ c = 101 \/ c = 102)%N) by lia.
  unfold hex_chars. simpl. intuition.
Qed.

Lemma hex_clean_ok :
  forallb (fun c => memN c safe_alphabet &&
                    forallb (fun r => negb (N.eqb c (fst r))) safe_replaces) hex_chars = true.
Proof. vm_compute. reflexivity. Qed.

Lemma digest_clean x : is_digest x -> clean x.
Proof.
  intros [_ H] c Hc. rewrite Forall_forall in H. specialize (H c Hc). apply is_hex_In in H.
  pose proof hex_clean_ok as K. rewrite forallb_forall in K. specialize (K c H).
  apply andb_true_iff in K. destruct K as [K1 K2]. split; [apply memN_In; exact K1 |].
  intros r Hr. rewrite forallb_forall in K2. specialize (K2 r Hr).
  apply negb_true_iff, N.eqb_neq in K2. exact K2.
Qed.

Lemma sanitize_digest x : is_digest x -> sanitize x = x.
Proof. intro H. apply sanitize_clean. apply digest_clean. exact H. Qed.

Lemma hashws_combos_injective (h : str -> str) (a b : str) :
  is_digest (h a) -> is_digest (h b) -> (h a = h b -> a = b) ->
  sanitize (wkey h true a) = sanitize (wkey h true b) -> a = b.
Proof.
  intros Ha Hb Hinj. unfold wkey. rewrite (sanitize_digest _ Ha), (sanitize_digest _ Hb). exact Hinj.
Qed.

(** submission: a job started in the workspace whose output files are plain
    names (no '/', not "", ".", "..") keeps them in the workspace -- for every
    workspace string *)
Lemma submit_model_ok (ws : str) (names : list str) (script : str) :
  Forall (fun n => ~ In SLASH n /\ n <> [] /\ n <> dot /\ n <> dotdot) names ->
  submit_ok (model_sobs ws names script) = true.
Proof.
  intro H. unfold submit_ok, model_sobs. simpl.
  rewrite !andb_true_iff. repeat split.
  - apply npath_eqb_iff. reflexivity.
  - apply forallb_forall. intros n Hn. rewrite Forall_forall in H.
    destruct (H n Hn) as [K1 K2]. unfold child. rewrite npath_join2 by assumption.
    apply (np_child_ext (npath ws) n).
  - apply npath_eqb_iff. reflexivity.
Qed.

(** a submit that raises, a job whose working directory nothing fixes, and an
    output target in a sub-path of the workspace are refuted by the monitor *)
Lemma submit_refuted_examples (ws : str) (names : list str) (script : str) :
  submit_ok (mksobs ws true (Some ws) names (Some script) (join2 ws script)) = false /\
  submit_ok (mksobs ws false None names (Some script) (join2 ws script)) = false /\
  submit_ok (mksobs (s "/R/w") false (Some (s "/R/w")) [s "run_train/a.out"] (Some (s "x.sh"))
                    (s "/R/w/x.sh")) = false.
Proof. repeat split; reflexivity. Qed.

(* ------------------------------------------------------------------------ *)
(** * Part F -- boolean hygiene; refutations outside it *)

Lemma nodup_str_iff l : nodup_str l = true <-> NoDup l.
Proof.
  induction l as [|x l IH]; simpl.
  - split; [constructor | reflexivity].
  - rewrite andb_true_iff, negb_true_iff, IH. split.
    + intros [H1 H2]. constructor; [| exact H2]. intro K.
      assert (existsb (str_eqb x) l = true); [| congruence].
      apply existsb_exists. exists x. split; [exact K | apply seqb_refl].
    + intro H. inversion H; subst. split; [| assumption].
      destruct (existsb (str_eqb x) l) eqn:E; [| reflexivity].
      apply existsb_exists in E. destruct E as [y [Hy E]]. apply seqb_iff in E. subst. contradiction.
Qed.

Lemma existsb_false_iff {A} (f : A -> bool) l :
  existsb f l = false <-> forall x, In x l -> f x = false.
Proof.
  split.
  - intros H x Hx. destruct (f x) eqn:E; [| reflexivity].
    assert (existsb f l = true) by (apply existsb_exists; exists x; auto). congruence.
  - intro H. destruct (existsb f l) eqn:E; [| reflexivity].
    apply existsb_exists in E. destruct E as [x [Hx E]]. rewrite (H x Hx) in E. discriminate.
Qed.

Lemma hexlike_digest x : hexlike x = true -> is_digest x.
Proof.
  unfold hexlike. rewrite andb_true_iff, negb_true_iff, is_empty_false, forallb_forall.
  intros [H1 H2]. split; [exact H1 | apply Forall_forall; exact H2].
Qed.

Lemma digest_ok_spec h keys :
  digest_ok h keys = true ->
  (forall k, In k keys -> is_digest (h k)) /\
  (forall a b, In a keys -> In b keys -> h a = h b -> a = b).
Proof.
  unfold digest_ok. rewrite andb_true_iff, forallb_forall. intros [H1 H2]. split.
  - intros k Hk. apply hexlike_digest. apply H1. exact Hk.
  - intros a b Ha Hb E. destruct (pairwise_elim _ _ H2 a b Ha Hb) as [K | [K _]]; [exact K |].
    apply orb_true_iff in K. destruct K as [K | K]; [apply seqb_iff; exact K |].
    apply negb_true_iff, seqb_false_iff in K. contradiction.
Qed.

Theorem h10b_G10 h st : h10b h st = true -> G10 h st.
Proof.
  unfold h10b, wf_study. rewrite !andb_true_iff, !negb_true_iff.
  intros [[[[[[[Hk Hd] Ht] Hp] Hn] Hc] Hs] Hg].
  unfold sig_degenerate in Hg. apply orb_false_iff in Hg. destruct Hg as [Hdots Hemp].
  constructor.
  - apply nodup_str_iff. exact Hn.
  - intros i j Hi Hj Hne. unfold sig_collide in Hc. apply negb_false_iff in Hc.
    destruct (pairwise_elim _ _ Hc i j Hi Hj) as [K | [K _]]; [subst; congruence |].
    apply orb_true_iff in K. destruct K as [K | K]; [apply seqb_iff in K; contradiction |].
    apply negb_true_iff, prefixb_false_iff in K. exact K.
  - intros i Hi. apply Forall_forall. intros c Hc'.
    unfold sig_dots in Hdots. unfold sig_empty in Hemp.
    rewrite existsb_false_iff in Hdots, Hemp.
    specialize (Hdots i Hi). specialize (Hemp i Hi).
    rewrite existsb_false_iff in Hdots, Hemp.
    specialize (Hdots c Hc'). specialize (Hemp c Hc').
    apply orb_false_iff in Hdots. destruct Hdots as [D1 D2].
    repeat split; [apply is_empty_false | apply seqb_false_iff | apply seqb_false_iff]; assumption.
  - intros i Hi. unfold sig_slash in Hs. rewrite existsb_false_iff in Hs.
    apply memN_false. exact (Hs i Hi).
  - intro E. apply is_empty_false in E.
    unfold wf_digests in Hd. apply andb_true_iff in Hd. destruct Hd as [_ Hd].
    rewrite E in Hd. simpl in Hd. apply digest_ok_spec in Hd. destruct Hd as [D1 D2].
    unfold wf_tmp in Ht. rewrite E in Ht. simpl in Ht.
    apply andb_true_iff in Ht. destruct Ht as [T1 T2]. apply negb_true_iff in T1, T2.
    split; [| split; [| split]]; try assumption.
    + intros i Hi. apply D1. apply in_map. exact Hi.
    + intros i j Hi Hj. apply D2; apply in_map; assumption.
  - intros i Hi. unfold wf_pids in Hp. rewrite forallb_forall in Hp.
    specialize (Hp i Hi). apply andb_true_iff in Hp. destruct Hp as [P1 P2].
    split; [apply nodup_str_iff; exact P2 |].
    apply Forall_forall. intros p Hp'. rewrite forallb_forall in P1. specialize (P1 p Hp').
    apply andb_true_iff in P1. destruct P1 as [Q1 Q2].
    apply negb_true_iff, is_empty_false in Q1. split; [exact Q1 |].
    apply Forall_forall. apply forallb_forall. exact Q2.
Qed.

(** The monitor holds of the model on the whole complement of the known-finding
    signatures (for well-formed studies). *)
Theorem h10b_model_ok h st : h10b h st = true -> C10_ok (model_obs h st) = true.
Proof. intro H. apply model_C10_ok. apply h10b_G10. exact H. Qed.

Theorem H10_model_ok h st : H10 h st -> C10_ok (model_obs h st) = true.
Proof. intro H. apply model_C10_ok. apply H10_G10. exact H. Qed.

(** A decidable sufficient condition for [H10] (used for the non-vacuity
    examples): [h10b] plus injectivity of the sanitiser on step names and on
    each step's combination strings, checked pairwise. *)
Definition inj_steps_b (st : study) : bool :=
  forallb (fun i => forallb (fun j =>
    negb (str_eqb (sanitize (i_step i)) (sanitize (i_step j))) || str_eqb (i_step i) (i_step j))
    (s_insts st)) (s_insts st).

Definition inj_combos_b (h : str -> str) (st : study) : bool :=
  forallb (fun i => forallb (fun j =>
    match i_combo i, i_combo j with
    | Some ci, Some cj =>
        negb (str_eqb (i_step i) (i_step j)) ||
        negb (str_eqb (sanitize (wkey h (s_hashws st) ci)) (sanitize (wkey h (s_hashws st) cj))) ||
        str_eqb ci cj
    | _, _ => true
    end) (s_insts st)) (s_insts st).

Definition H10b (h : str -> str) (st : study) : bool :=
  h10b h st && inj_steps_b st && inj_combos_b h st.

Theorem H10b_H10 h st : H10b h st = true -> H10 h st.
Proof.
  unfold H10b. rewrite !andb_true_iff. intros [[Hb Hs] Hc].
  pose proof (h10b_G10 h st Hb) as G. destruct G as [Gn Gs Gg Gsl Gt Gp].
  constructor; try assumption.
  - intros i j Hi Hj E. unfold h10b, wf_study in Hb. rewrite !andb_true_iff in Hb.
    destruct Hb as [[[[[[[Hk _] _] _] _] _] _] _]. unfold wf_kinds in Hk.
    rewrite forallb_forall in Hk. specialize (Hk i Hi). rewrite forallb_forall in Hk.
    specialize (Hk j Hj). apply orb_true_iff in Hk. destruct Hk as [Hk | Hk].
    + apply negb_true_iff, seqb_false_iff in Hk. contradiction.
    + apply eqb_prop in Hk. destruct (i_combo i), (i_combo j); simpl in Hk;
        try discriminate; split; intro; congruence.
  - intros i j Hi Hj E. unfold inj_steps_b in Hs. rewrite forallb_forall in Hs.
    specialize (Hs i Hi). rewrite forallb_forall in Hs. specialize (Hs j Hj).
    apply orb_true_iff in Hs. destruct Hs as [Hs | Hs]; [| apply seqb_iff; exact Hs].
    apply negb_true_iff, seqb_false_iff in Hs. contradiction.
  - intros i j ci cj Hi Hj Est Ei Ej E. unfold inj_combos_b in Hc. rewrite forallb_forall in Hc.
    specialize (Hc i Hi). rewrite forallb_forall in Hc. specialize (Hc j Hj).
    rewrite Ei, Ej in Hc. rewrite !orb_true_iff in Hc. destruct Hc as [[Hc | Hc] | Hc].
    + apply negb_true_iff, seqb_false_iff in Hc. contradiction.
    + apply negb_true_iff, seqb_false_iff in Hc. contradiction.
    + apply seqb_iff. exact Hc.
Qed.

(* ---- witnesses ---- *)

Local Open Scope string_scope.
Definition noh : str -> str := fun _ => [].
Definition I0 (step : string) (combo : option string) : inst :=
  mkinst (s step) (match combo with Some c => Some (s c) | None => None end) true [s "41"; s "42"].

(** a hygienic study: two steps, one expanded over two combinations *)
Definition ex_study : study :=
  mkstudy (s "/R/study") [] false ALocal
          [I0 "pre" None; I0 "run" (Some "X.1.Y.a"); I0 "run" (Some "X.2.Y.b")].

(** the same with hashed workspaces and a temp directory; digests as a table *)
Definition ex_table : list (str * str) :=
  [(s "X.1.Y.a", s "0a1b"); (s "X.2.Y.b", s "9f3c"); (s "pre", s "aa01");
   (s "run_X.1.Y.a", s "bb02"); (s "run_X.2.Y.b", s "cc03")].
Definition ex_study_hash : study :=
  mkstudy (s "/R/study") (s "/T/tmpd") true ASlurm
          [I0 "pre" None; I0 "run" (Some "X.1.Y.a"); I0 "run" (Some "X.2.Y.b")].

Lemma ex_study_H10 : H10 noh ex_study.
Proof. apply H10b_H10. vm_compute. reflexivity. Qed.
Lemma ex_study_hash_H10 : H10 (lookup ex_table) ex_study_hash.
Proof. apply H10b_H10. vm_compute. reflexivity. Qed.

(** a character the sanitiser strips, computed from the regenerated alphabet
    (so that the witnesses survive harmless edits of the alphabet) *)
Definition stripped_char : N :=
  hd 0%N (filter (fun c => negb (memN c safe_alphabet))
                 [42; 43; 37; 38; 33; 35; 64; 126; 233; 20013]%N).
Definition I1 (step : string) (combo : str) : inst :=
  mkinst (s step) (Some combo) true [s "41"; s "42"].

(** K1a: labels that differ only in a stripped character share the workspace *)
Definition k1a_study : study :=
  mkstudy (s "/R/study") [] false ALocal
          [I1 "run" ((s "a" ++ stripped_char :: s "b")%list); I1 "run" (s "ab")].
Lemma k1a_refuted :
  wf_study noh k1a_study = true /\ sig_collide noh k1a_study = true /\
  C10_ok (model_obs noh k1a_study) = false.
Proof. vm_compute. auto. Qed.

(** K1b: a '/' in a label: the script is not a file directly in the workspace *)
Definition k1b_study : study :=
  mkstudy (s "/R/study") [] false ALocal [I1 "run" (s "a/b")].
Lemma k1b_refuted :
  wf_study noh k1b_study = true /\ sig_slash noh k1b_study = true /\
  sig_collide noh k1b_study = false /\ sig_degenerate noh k1b_study = false /\
  C10_ok (model_obs noh k1b_study) = false.
Proof. vm_compute. auto 6. Qed.

(** K1c: a value ".." resolves to the study directory; a label that sanitises
    to the empty string resolves to the step directory, above its siblings *)
Definition k1c_study : study :=
  mkstudy (s "/R/study") [] false ALocal [I1 "run" (s ".."); I1 "run" (s "a")].
Definition k1c_study_empty : study :=
  mkstudy (s "/R/study") [] false ALocal [I1 "run" [stripped_char]; I1 "run" (s "a")].
Lemma k1c_refuted :
  wf_study noh k1c_study = true /\ sig_degenerate noh k1c_study = true /\
  sig_collide noh k1c_study = false /\ sig_slash noh k1c_study = false /\
  C10_ok (model_obs noh k1c_study) = false.
Proof. vm_compute. auto 6. Qed.
Lemma k1c_refuted_empty :
  wf_study noh k1c_study_empty = true /\ sig_degenerate noh k1c_study_empty = true /\
  sig_collide noh k1c_study_empty = false /\ sig_slash noh k1c_study_empty = false /\
  C10_ok (model_obs noh k1c_study_empty) = false.
Proof. vm_compute. auto 6. Qed.

Lemma ex_satisfiable : H10 noh ex_study /\ List.length (s_insts ex_study) = 3.
Proof. split; [exact ex_study_H10 | reflexivity]. Qed.
Lemma ex_satisfiable_hash :
  H10 (lookup ex_table) ex_study_hash /\ s_hashws ex_study_hash = true /\ s_tmp ex_study_hash <> [].
Proof. split; [exact ex_study_hash_H10 | split; [reflexivity | discriminate]]. Qed.

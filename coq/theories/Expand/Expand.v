(** Executable model of parameter expansion:
      maestrowf/datastructures/core/study.py       Study.__init__/add_step, Study._stage
      maestrowf/datastructures/core/parameters.py  ParameterGenerator / Combination
      maestrowf/datastructures/core/executiongraph.py  ExecutionGraph.add_step / add_connection
      maestrowf/datastructures/dag.py              add_node / add_edge / topological_sort
    used by properties C08 (instances and edges) and C11 (repeatability).

    Conventions.  Strings are [str = list N].  Python dicts are association
    lists in insertion order ([alookup]/[aset]); Python sets are duplicate-free
    lists *in insertion order*, and EVERY place where the Python code iterates a
    set whose order could matter goes through the ORDER ORACLE [pi : list str ->
    list str] (any function returning a permutation of its argument): these are
    [depends[step]], [hub_depends[step]] and [step_combos[parent]].  The used
    parameter sets are only ever iterated through [sorted(...)], so they need no
    oracle.  Two functions owned by other properties are abstract here
    (arguments of [stage]): [ap] = the field substitution [Combination.apply]
    (C09) and [san] = the component sanitiser of [make_safe_path] (C10); their
    concrete instances [apply_row] and [sanitize] below are what the
    correspondence run evaluates.  [hash_ws] is not modelled (always off).
    Stdlib only; no proofs here. *)
From MWF Require Export Base.Str Base.Util Expand.PyStr.
From Coq Require Import List NArith Bool Arith.
Import ListNotations.
Local Open Scope N_scope.

(* ------------------------------------------------------------------------ *)
(** * Dictionaries and sets of strings *)

Fixpoint alookup {A} (k : str) (m : list (str * A)) : option A :=
  match m with
  | [] => None
  | (k', v) :: m' => if str_eqb k k' then Some v else alookup k m'
  end.

(** [m[k] = v]: an existing key keeps its position *)
Fixpoint aset {A} (k : str) (v : A) (m : list (str * A)) : list (str * A) :=
  match m with
  | [] => [(k, v)]
  | (k', v') :: m' => if str_eqb k k' then (k', v) :: m' else (k', v') :: aset k v m'
  end.

Definition akeys {A} (m : list (str * A)) : list str := map fst m.

(** [set.add] *)
Definition sadd_s (x : str) (l : list str) : list str :=
  if str_mem x l then l else l ++ [x].

Definition an_oracle := list str -> list str.

(* ------------------------------------------------------------------------ *)
(** * Characters and fixed strings *)
Definition c_dollar : N := 36.  Definition c_lpar : N := 40.  Definition c_rpar : N := 41.
Definition c_star : N := 42.    Definition c_dot : N := 46.   Definition c_slash : N := 47.
Definition c_us : N := 95.      Definition c_space : N := 32.

Definition SOURCE : str := Str.s "_source".
Definition dot_workspace : str := Str.s ".workspace)".
Definition tok_workspace : str := Str.s "$(WORKSPACE)".
Definition label_token : str := Str.s "%%".

Definition is_digit (c : N) : bool := (48 <=? c) && (c <=? 57).
Definition is_upper (c : N) : bool := (65 <=? c) && (c <=? 90).
Definition is_lower (c : N) : bool := (97 <=? c) && (c <=? 122).
(** [\w] restricted to ASCII (DESIGN section 8: non-ASCII code points are never
    generated inside a [$(...)] span) *)
Definition is_word (c : N) : bool := is_digit c || is_upper c || is_lower c || (c =? c_us).

Fixpoint drop_prefix (p x : str) : option str :=
  match p, x with
  | [], _ => Some x
  | a :: p', b :: x' => if N.eqb a b then drop_prefix p' x' else None
  | _ :: _, [] => None
  end.

(* ------------------------------------------------------------------------ *)
(** * The used-parameter scanner:  re.findall(r"\$\(KEY(?:\.\w+)?\)", text) != []
    (parameters.py:_get_used_parameters; KEY is spliced unescaped, hence the
    hygiene hypothesis that keys are [\w+]).  After ["$(" ++ KEY] either [")"]
    or ["."], a maximal non-empty run of word characters and [")"] (the run is
    maximal because [")"] is not a word character, so back-tracking cannot
    help). *)
Definition tail_ok (r : str) : bool :=
  match r with
  | c :: r' =>
      if c =? c_rpar then true
      else if c =? c_dot then
             let (w, r2) := span is_word r' in
             match w, r2 with
             | _ :: _, d :: _ => d =? c_rpar
             | _, _ => false
             end
           else false
  | [] => false
  end.

Definition key_at (key x : str) : bool :=
  match drop_prefix (c_dollar :: c_lpar :: key) x with
  | Some r => tail_ok r
  | None => false
  end.

Fixpoint uses_key (key x : str) : bool :=
  match x with
  | [] => false
  | _ :: r => key_at key x || uses_key key r
  end.

(* ------------------------------------------------------------------------ *)
(** * The workspace-reference scanner:  re.findall(WSREGEX, text)
    WSREGEX = \$\(([-!\$%\^&\*\(\)_\+\|~=`{}\[\]:;<>\?,\.\/\w]+)\.workspace\)
    The class contains [$ ( ) . /] and the letters, so the greedy group runs to
    the end of the maximal class run and back-tracks to the LAST position that
    is followed by [.workspace)] (this is known finding K4a of C09: two adjacent
    references are read as one).  Matches are non-overlapping, left to right. *)
Definition cls_punct : str := Str.s "-!$%^&*()_+|~=`{}[]:;<>?,./".
Definition is_cls (c : N) : bool := is_word c || existsb (N.eqb c) cls_punct.

(** [b] = the text after the first [k] class characters following ["$("];
    returns the largest admissible group length *)
Fixpoint last_ws (b : str) (k : nat) (best : option nat) : option nat :=
  let best' := if (Nat.leb 1 k) && prefixb dot_workspace b then Some k else best in
  match b with
  | c :: b' => if is_cls c then last_ws b' (S k) best' else best'
  | [] => best'
  end.

Definition ws_at (x : str) : option (str * nat) :=
  match x with
  | c1 :: c2 :: body =>
      if (c1 =? c_dollar) && (c2 =? c_lpar) then
        match last_ws body 0 None with
        | Some k => Some (firstn k body, (2 + k + length dot_workspace)%nat)
        | None => None
        end
      else None
  | _ => None
  end.

Fixpoint ws_go (x : str) (skip : nat) : list str :=
  match x with
  | [] => []
  | _ :: r =>
      match skip with
      | S k => ws_go r k
      | O => match ws_at x with
             | Some (grp, len) => grp :: ws_go r (pred len)
             | None => ws_go r 0
             end
      end
  end.
Definition ws_refs (x : str) : list str := ws_go x 0.

(* ------------------------------------------------------------------------ *)
(** * Dependencies:  "*" in d  and  re.sub(r"_\*|\*", "", d) *)
Definition has_star (d : str) : bool := existsb (N.eqb c_star) d.

Fixpoint strip_go (x : str) (skip : nat) : str :=
  match x with
  | [] => []
  | c :: r =>
      match skip with
      | S k => strip_go r k
      | O => match r with
             | c2 :: _ => if (c =? c_us) && (c2 =? c_star) then strip_go r 1
                          else if c =? c_star then strip_go r 0 else c :: strip_go r 0
             | [] => if c =? c_star then [] else [c]
             end
      end
  end.
Definition strip_star (d : str) : str := strip_go d 0.

(* ------------------------------------------------------------------------ *)
(** * Specifications *)
(** [LTK tok t]: a template for a ParameterGenerator constructed with its own
    label token ([ParameterGenerator(ltoken=tok)], custom pgen); [LT t] is
    [LTK "%%" t] (the default token, every YAML study) *)
Inductive label_spec := LT (t : str) | LL (l : list str) | LTK (tok t : str).

(** [p_name = []] and [LT []] stand for Python's [None]/"" (defaults: the key,
    and ["KEY.%%"]); values are [str(v)] of the Python values *)
Record param := mkP { p_key : str; p_name : str; p_vals : list str; p_label : label_spec }.

(** [s_rest]: the remaining string-valued entries of [run] (pre, post, nodes,
    procs, walltime, ... when they are strings), in dict order *)
Record step := mkS { s_name : str; s_desc : str; s_deps : list str;
                     s_cmd : str; s_restart : str; s_rest : list (str * str) }.

Record spec := mkSpec { sp_root : str; sp_rlimit : nat;
                        sp_params : list param; sp_steps : list step }.

Definition pname (p : param) : str := match p_name p with [] => p_key p | n => n end.
(** add_parameter: [label] if given, else ["{}.{}".format(key, self.label_token)];
    get_combinations: [labels[key].replace(self.label_token, str(value))] *)
Definition ptemplate_tok (tok : str) (p : param) (t : str) : str :=
  match t with [] => p_key p ++ c_dot :: tok | _ => t end.
Definition ptemplate (p : param) (t : str) : str := ptemplate_tok label_token p t.
Definition labels_of (p : param) : list str :=
  match p_label p with
  | LT t => map (fun v => replace label_token v (ptemplate p t)) (p_vals p)
  | LTK tok t => map (fun v => replace tok v (ptemplate_tok tok p t)) (p_vals p)
  | LL l => l
  end.
Definition pval (p : param) (i : nat) : str := nth i (p_vals p) [].
Definition plab (p : param) (i : nat) : str := nth i (labels_of p) [].

Definition keys_of (ps : list param) : list str := map p_key ps.
Definition nrows (ps : list param) : nat :=
  match ps with [] => 0%nat | p :: _ => length (p_vals p) end.
Definition find_param (ps : list param) (k : str) : option param :=
  find (fun p => str_eqb k (p_key p)) ps.
Definition lab_of (ps : list param) (k : str) (i : nat) : str :=
  match find_param ps k with Some p => plab p i | None => [] end.
Definition val_of (ps : list param) (k : str) (i : nat) : str :=
  match find_param ps k with Some p => pval p i | None => [] end.

(** Combination.get_param_string:  ".".join(labels[k] for k in sorted(U)) *)
Definition combo_string (ps : list param) (U : list str) (i : nat) : str :=
  join [c_dot] (map (fun k => lab_of ps k i) (str_sort U)).
(** Combination.get_param_values *)
Definition param_values (ps : list param) (U : list str) (i : nat) : list (str * str) :=
  map (fun k => (k, val_of ps k i)) (str_sort U).

(** Combination.apply: labels, then values, then names, each a sequence of
    [str.replace] in parameter-table order (concrete instance of [ap]) *)
Definition tok_val (k : str) : str := c_dollar :: c_lpar :: k ++ [c_rpar].
Definition tok_lab (k : str) : str := c_dollar :: c_lpar :: k ++ Str.s ".label)".
Definition tok_name (k : str) : str := c_dollar :: c_lpar :: k ++ Str.s ".name)".
Definition apply_row (ps : list param) (i : nat) (x : str) : str :=
  let x1 := fold_left (fun t p => replace (tok_lab (p_key p)) (plab p i) t) ps x in
  let x2 := fold_left (fun t p => replace (tok_val (p_key p)) (pval p i) t) ps x1 in
  fold_left (fun t p => replace (tok_name (p_key p)) (pname p) t) ps x2.

(** make_safe_path's component rule (utils.py): keep [-_.() A-Za-z0-9], then
    space -> underscore (concrete instance of [san]) *)
Definition safe_punct : str := Str.s "-_.() ".
Definition is_safe (c : N) : bool :=
  existsb (N.eqb c) safe_punct || is_upper c || is_lower c || is_digit c.
Definition sanitize (x : str) : str :=
  map (fun c => if c =? c_space then c_us else c) (filter is_safe x).

(** os.path.join of two components *)
Definition pjoin (a b : str) : str :=
  match b with
  | c :: _ => if c =? c_slash then b
              else match rev a with
                   | [] => b
                   | d :: _ => if d =? c_slash then a ++ b else a ++ c_slash :: b
                   end
  | [] => match rev a with
          | [] => []
          | d :: _ => if d =? c_slash then a else a ++ [c_slash]
          end
  end.

(* ------------------------------------------------------------------------ *)
(** * Study construction: Study.add_step for every step, then topological_sort *)
Definition parents_raw (t : step) : list str :=
  match s_deps t with [] => [SOURCE] | ds => map strip_star ds end.
Definition deps_ord (t : step) : list str :=
  str_dedup (filter (fun d => negb (has_star d)) (s_deps t)).
Definition deps_hub (t : step) : list str :=
  str_dedup (map strip_star (filter has_star (s_deps t))).

(** Study.add_step raises ValueError for a duplicate step name (or a step
    named "_source"), for a dependency on the step itself, and (DAG.add_edge)
    when the source of an edge does not exist yet: a step may only depend on
    steps listed before it *)
Fixpoint construct_ok (seen : list str) (l : list step) : bool :=
  match l with
  | [] => true
  | t :: l' =>
      negb (str_mem (s_name t) seen)
      && forallb (fun p => negb (str_eqb p (s_name t)) && str_mem p seen) (parents_raw t)
      && construct_ok (seen ++ [s_name t]) l'
  end.

Definition step_names (sp : spec) : list str := map s_name (sp_steps sp).
Definition find_step (sp : spec) (x : str) : option step :=
  find (fun t => str_eqb x (s_name t)) (sp_steps sp).

(** adjacency_table[u] of the Study DAG: children in the order the steps were added *)
Definition study_kids (sp : spec) (u : str) : list str :=
  map s_name (filter (fun t => str_mem u (parents_raw t)) (sp_steps sp)).

(** _topological_sort: mark, recurse into unvisited children, prepend *)
Fixpoint dfs (fuel : nat) (kids : str -> list str) (v : str) (acc : list str * list str)
  : list str * list str :=
  match fuel with
  | O => acc
  | S f =>
      let acc' := fold_left (fun a e => if str_mem e (fst a) then a else dfs f kids e a)
                            (kids v) (v :: fst acc, snd acc) in
      (fst acc', v :: snd acc')
  end.

Definition study_nodes (sp : spec) : list str := SOURCE :: step_names sp.

Definition toposort (sp : spec) : list str :=
  let nodes := study_nodes sp in
  snd (fold_left (fun a v => if str_mem v (fst a) then a
                             else dfs (S (length nodes)) (study_kids sp) v a)
                 nodes ([], [])).

(** the order is a duplicate-free enumeration of the nodes that starts with
    "_source" (false = the DFS ran out of fuel or some step is not reachable
    from the source: the theorems exclude it, and it never happens on a
    constructible study) *)
Definition topo_ok (sp : spec) (order : list str) : bool :=
  str_nodupb order && forallb (fun v => str_mem v order) (study_nodes sp)
  && forallb (fun v => str_mem v (study_nodes sp)) order
  && match order with x :: _ => str_eqb x SOURCE | [] => false end.

(* ------------------------------------------------------------------------ *)
(** * Phase 1 of _stage: used parameters per step (study.py:522-566) *)
Definition step_texts (t : step) : list str :=
  s_name t :: s_desc t :: s_cmd t :: s_restart t :: s_deps t ++ map snd (s_rest t).
Definition direct_used (ps : list param) (t : step) : list str :=
  filter (fun k => existsb (uses_key k) (step_texts t)) (keys_of ps).
Definition step_wsrefs (t : step) : list str :=
  ws_refs (s_cmd t ++ c_space :: s_restart t).

Definition usedmap := list (str * list str).

Fixpoint gather_ord (um : usedmap) (ds : list str) : option (list str) :=
  match ds with
  | [] => Some []
  | d :: ds' =>
      if has_star d then gather_ord um ds'
      else match alookup d um, gather_ord um ds' with
           | Some u, Some r => Some (u ++ r)
           | _, _ => None                         (* KeyError *)
           end
  end.

Fixpoint gather_ws (um : usedmap) (hub : list str) (ws : list str) : option (list str) :=
  match ws with
  | [] => Some []
  | w :: ws' =>
      match alookup w um with
      | None => None                              (* "used before it would be generated" *)
      | Some u => match gather_ws um hub ws' with
                  | Some r => Some (if str_mem w hub then r else u ++ r)
                  | None => None
                  end
      end
  end.

Definition used_step (ps : list param) (um : usedmap) (t : step) : option (list str) :=
  match gather_ord um (s_deps t), gather_ws um (deps_hub t) (step_wsrefs t) with
  | Some a, Some b =>
      let all := direct_used ps t ++ a ++ b in
      Some (filter (fun k => str_mem k all) (keys_of ps))
  | _, _ => None
  end.

Fixpoint plan_go (sp : spec) (order : list str) (um : usedmap) : option usedmap :=
  match order with
  | [] => Some um
  | x :: order' =>
      if str_eqb x SOURCE then plan_go sp order' um
      else match find_step sp x with
           | None => None
           | Some t => match used_step (sp_params sp) um t with
                       | Some u => plan_go sp order' (aset x u um)
                       | None => None
                       end
           end
  end.

Definition plan (sp : spec) : option usedmap :=
  plan_go sp (toposort sp) [(SOURCE, [])].

Definition used_in (um : usedmap) (x : str) : list str :=
  match alookup x um with Some u => u | None => [] end.

(** name of the instance of step [x] for row [i] *)
Definition iname (ps : list param) (um : usedmap) (x : str) (i : nat) : str :=
  match used_in um x with
  | [] => x
  | U => x ++ c_us :: combo_string ps U i
  end.

(* ------------------------------------------------------------------------ *)
(** * The ExecutionGraph under construction *)
Record rec := mkRec { r_ws : str; r_wsc : list str; r_rlimit : nat; r_params : list (str * str);
                      r_desc : str; r_cmd : str; r_restart : str;
                      r_rest : list (str * str); r_deps : list str }.
Record node := mkNode { nd_name : str; nd_rec : option rec;
                        nd_kids : list str;      (* adjacency_table[name] *)
                        nd_deps : list str }.    (* _dependencies[name]   *)
Definition graph := list node.

Definition g_has (x : str) (g : graph) : bool := existsb (fun nd => str_eqb x (nd_name nd)) g.
Definition g_find (x : str) (g : graph) : option node := find (fun nd => str_eqb x (nd_name nd)) g.
Definition g_names (g : graph) : list str := map nd_name g.

Definition on_node (x : str) (f : node -> node) (g : graph) : graph :=
  map (fun nd => if str_eqb x (nd_name nd) then f nd else nd) g.

(** ExecutionGraph.add_step: [_dependencies[name] = set()] ALWAYS, then
    DAG.add_node, which keeps an existing node *)
Definition g_add (x : str) (r : option rec) (g : graph) : graph :=
  if g_has x g then on_node x (fun nd => mkNode (nd_name nd) (nd_rec nd) (nd_kids nd) []) g
  else g ++ [mkNode x r [] []].

Definition add_kid (c : str) (nd : node) : node :=
  mkNode (nd_name nd) (nd_rec nd) (sadd_s c (nd_kids nd)) (nd_deps nd).
Definition add_dep (p : str) (nd : node) : node :=
  mkNode (nd_name nd) (nd_rec nd) (nd_kids nd) (sadd_s p (nd_deps nd)).

(** ExecutionGraph.add_connection(p, c) = DAG.add_edge(p, c) (cycle check
    disabled by Study.stage) then [_dependencies[c].add(p)] *)
Definition g_connect (p c : str) (g : graph) : option graph :=
  if str_eqb p c then Some (on_node c (add_dep p) g)
  else if g_has p g then Some (on_node c (add_dep p) (on_node p (add_kid c) g))
       else None.                                  (* ValueError *)

Definition connect_all (ps : list str) (c : str) (g : graph) : option graph :=
  fold_left (fun og p => match og with Some g' => g_connect p c g' | None => None end)
            ps (Some g).

(* ------------------------------------------------------------------------ *)
(** * Phase 2 of _stage *)
Record sstate := mkSt { st_g : graph;
                        st_combos : list (str * list str);   (* step_combos *)
                        st_ws : list (str * str) }.          (* workspaces  *)

Section Stage.
  Variable ap : list param -> nat -> str -> str.   (* Combination.apply for row i *)
  Variable san : str -> str.                        (* make_safe_path component rule *)
  Variable pi : an_oracle.                          (* set iteration order *)
  Variable sp : spec.
  Variable um : usedmap.

  Let ps := sp_params sp.
  Let root := sp_root sp.

  Definition msp (comps : list str) : str := fold_left pjoin (map san comps) root.

  (** names of the parents of the instance of [t] for row [i], in the order the
      code adds the edges *)
  Definition hub_items (combos : list (str * list str)) (hs : list str) : option (list str) :=
    fold_right (fun h acc => match alookup h combos, acc with
                             | Some c, Some r => Some (pi c ++ r)
                             | _, _ => None          (* KeyError *)
                             end) (Some []) hs.

  Definition parent_list (combos : list (str * list str)) (t : step) (i : nat) : option (list str) :=
    match deps_ord t, deps_hub t with
    | [], [] => Some [SOURCE]
    | od, hd => match hub_items combos (pi hd) with
                | Some hs => Some (map (fun p => iname ps um p i) (pi od) ++ hs)
                | None => None
                end
    end.

  (** the directory substituted for [$(m.workspace)] in instance ([t], [i]) *)
  Definition ws_value (wsm : list (str * str)) (t : step) (i : nat) (m : str) : option str :=
    if str_mem m (deps_hub t) then Some (msp [m])
    else match alookup m um with
         | Some [] => alookup m wsm
         | Some U => alookup (m ++ c_us :: combo_string ps U i) wsm
         | None => None
         end.

  Fixpoint ws_pass (wsm : list (str * str)) (t : step) (i : nat) (ms : list str) (cr : str * str)
    : option (str * str) :=
    match ms with
    | [] => Some cr
    | m :: ms' =>
        match ws_value wsm t i m with
        | Some w =>
            let var := c_dollar :: c_lpar :: m ++ dot_workspace in
            ws_pass wsm t i ms' (replace var w (fst cr), replace var w (snd cr))
        | None => None
        end
    end.

  Definition rlimit_of (t : step) : nat :=
    match s_restart t with [] => 0%nat | _ => sp_rlimit sp end.

  (** one instance: name [x], workspace components [comps], row [i] ([f] = the
      field substitution: identity for an unparameterised step) *)
  Definition add_instance (t : step) (x : str) (comps : list str) (f : str -> str)
             (params : list (str * str)) (i : nat) (st : sstate) : option sstate :=
    let w := msp comps in
    match ws_pass (st_ws st) t i (step_wsrefs t) (f (s_cmd t), f (s_restart t)) with
    | None => None
    | Some (cmd, rcmd) =>
        let r := mkRec w (map san comps) (rlimit_of t) params (f (s_desc t))
                       (replace tok_workspace w cmd) (replace tok_workspace w rcmd)
                       (map (fun kv => (fst kv, f (snd kv))) (s_rest t)) (map f (s_deps t)) in
        match parent_list (st_combos st) t i with
        | None => None
        | Some parents =>
            match connect_all parents x (g_add x (Some r) (st_g st)) with
            | Some g' => Some (mkSt g' (st_combos st) (st_ws st))
            | None => None
            end
        end
    end.

  Definition add_combo (x c : str) (m : list (str * list str)) : list (str * list str) :=
    match alookup x m with Some l => aset x (sadd_s c l) m | None => aset x [c] m end.

  (** body of [for combo in self.parameters] *)
  Definition stage_row (t : step) (U : list str) (st : sstate) (i : nat) : option sstate :=
    let x := s_name t in
    let combo := combo_string ps U i in
    let nm := x ++ c_us :: combo in
    let st1 := mkSt (st_g st) (st_combos st) (aset nm (msp [x; combo]) (st_ws st)) in
    if str_mem nm (akeys (st_combos st1)) then Some st1      (* the test on the dict of step names *)
    else
      let st2 := mkSt (st_g st1) (add_combo x nm (st_combos st1)) (st_ws st1) in
      add_instance t nm [x; combo] (ap ps i) (param_values ps U i) i st2.

  Definition stage_step (t : step) (st : sstate) : option sstate :=
    let x := s_name t in
    let st0 := mkSt (st_g st) (aset x [] (st_combos st)) (st_ws st) in
    match used_in um x with
    | [] =>
        let st1 := mkSt (st_g st0) (aset x [x] (st_combos st0)) (aset x (msp [x]) (st_ws st0)) in
        add_instance t x [x] (fun y => y) [] 0 st1
    | U =>
        fold_left (fun ost i => match ost with Some st' => stage_row t U st' i | None => None end)
                  (seq 0 (nrows ps)) (Some st0)
    end.

  Fixpoint stage_go (order : list str) (st : sstate) : option sstate :=
    match order with
    | [] => Some st
    | x :: order' =>
        if str_eqb x SOURCE then
          stage_go order' (mkSt (if g_has SOURCE (st_g st) then st_g st
                                 else st_g st ++ [mkNode SOURCE None [] []])
                                (st_combos st) (st_ws st))
        else match find_step sp x with
             | None => None
             | Some t => match stage_step t st with
                         | Some st' => stage_go order' st'
                         | None => None
                         end
             end
    end.
End Stage.

Definition init_state (sp : spec) : sstate :=
  mkSt [] [(SOURCE, [])] [(SOURCE, sp_root sp)].

(** result of building and staging a study: [Err 1] = the Study constructor
    raised, [Err 2] = staging raised, [Err 8] = model out of fuel *)
Inductive result (A : Type) := Ok (a : A) | Err (e : nat).
Arguments Ok {A} a.  Arguments Err {A} e.

Definition stage (ap : list param -> nat -> str -> str) (san : str -> str) (pi : an_oracle)
           (sp : spec) : result (usedmap * sstate) :=
  if negb (construct_ok [SOURCE] (sp_steps sp)) then Err 1%nat
  else
    let order := toposort sp in
    if negb (topo_ok sp order) then Err 8%nat
    else match plan_go sp order [(SOURCE, [])] with
         | None => Err 2%nat
         | Some um =>
             match stage_go ap san pi sp um order (init_state sp) with
             | Some st => Ok (um, st)
             | None => Err 2%nat
             end
         end.

Definition pi_id : an_oracle := fun l => l.
Definition pi_rev : an_oracle := fun l => rev l.
Definition stage_c (pi : an_oracle) (sp : spec) := stage apply_row sanitize pi sp.

(* ------------------------------------------------------------------------ *)
(** * Observables *)
(** [_dependencies[x]] is a set: it is observed in the insertion order of the
    node names (a canonical form that needs no order on strings) *)
Definition canon_set (names l : list str) : list str := filter (fun y => str_mem y l) names.

Record nobs := mkO { o_name : str; o_kids : list str; o_deps : list str;
                     o_isrec : bool; o_wsrel : str; o_rlimit : nat; o_params : list (str * str);
                     o_desc : str; o_cmd : str; o_restart : str;
                     o_rest : list (str * str); o_sdeps : list str }.

Definition obs_node (names : list str) (nd : node) : nobs :=
  match nd_rec nd with
  | Some r => mkO (nd_name nd) (nd_kids nd) (canon_set names (nd_deps nd)) true
                  (join [c_slash] (r_wsc r)) (r_rlimit r) (r_params r)
                  (r_desc r) (r_cmd r) (r_restart r) (r_rest r) (r_deps r)
  | None => mkO (nd_name nd) (nd_kids nd) (canon_set names (nd_deps nd)) false
                [] 0 [] [] [] [] [] []
  end.

Definition observe (g : graph) : list nobs := map (obs_node (g_names g)) g.

(** what the harness records of one staging: the used-parameter table (sorted
    keys per step, in the order the steps were processed) and the nodes *)
Record obs := mkObs { ob_used : list (str * list str); ob_nodes : list nobs }.

Definition observe_result (r : result (usedmap * sstate)) : result obs :=
  match r with
  | Ok (um, st) => Ok (mkObs (map (fun kv => (fst kv, str_sort (snd kv))) um) (observe (st_g st)))
  | Err e => Err e
  end.

(* ---- boolean equality of observables ---------------------------------- *)
Fixpoint list_eqb {A} (e : A -> A -> bool) (a b : list A) : bool :=
  match a, b with
  | [], [] => true
  | x :: a', y :: b' => e x y && list_eqb e a' b'
  | _, _ => false
  end.
Definition strs_eqb := list_eqb str_eqb.
Definition kv_eqb (a b : str * str) : bool := str_eqb (fst a) (fst b) && str_eqb (snd a) (snd b).
Definition kvs_eqb := list_eqb kv_eqb.
Definition kl_eqb (a b : str * list str) : bool := str_eqb (fst a) (fst b) && strs_eqb (snd a) (snd b).

Definition nobs_eqb (a b : nobs) : bool :=
  str_eqb (o_name a) (o_name b) && strs_eqb (o_kids a) (o_kids b) && strs_eqb (o_deps a) (o_deps b)
  && Bool.eqb (o_isrec a) (o_isrec b) && str_eqb (o_wsrel a) (o_wsrel b)
  && Nat.eqb (o_rlimit a) (o_rlimit b) && kvs_eqb (o_params a) (o_params b)
  && str_eqb (o_desc a) (o_desc b) && str_eqb (o_cmd a) (o_cmd b)
  && str_eqb (o_restart a) (o_restart b) && kvs_eqb (o_rest a) (o_rest b)
  && strs_eqb (o_sdeps a) (o_sdeps b).

Definition obs_eqb (a b : obs) : bool :=
  list_eqb kl_eqb (ob_used a) (ob_used b) && list_eqb nobs_eqb (ob_nodes a) (ob_nodes b).

Definition result_eqb (a b : result obs) : bool :=
  match a, b with
  | Ok x, Ok y => obs_eqb x y
  | Err e, Err f => Nat.eqb e f
  | _, _ => false
  end.

(* ------------------------------------------------------------------------ *)
(** * The monitor of C08: the right-hand sides of the C08 theorems, evaluated on
    an observed graph (the model's or the implementation's) *)
Definition is_nil {A} (l : list A) : bool := match l with [] => true | _ => false end.

(** rows [i] and [j] agree on the parameters [U] (value and label) *)
Definition agree (ps : list param) (U : list str) (i j : nat) : bool :=
  forallb (fun k => str_eqb (val_of ps k i) (val_of ps k j)
                    && str_eqb (lab_of ps k i) (lab_of ps k j)) U.

(** the rows over which a step is expanded *)
Definition rows_of (ps : list param) (um : usedmap) (x : str) : list nat :=
  match used_in um x with [] => [0%nat] | _ => seq 0 (nrows ps) end.

(** all (step, row) pairs *)
Definition inst_list (sp : spec) (um : usedmap) : list (step * nat) :=
  flat_map (fun t => map (fun i => (t, i)) (rows_of (sp_params sp) um (s_name t))) (sp_steps sp).

Definition inst_name (sp : spec) (um : usedmap) (ti : step * nat) : str :=
  iname (sp_params sp) um (s_name (fst ti)) (snd ti).

(** all instances of step [h] *)
Definition all_instances (sp : spec) (um : usedmap) (h : str) : list str :=
  map (iname (sp_params sp) um h) (rows_of (sp_params sp) um h).

(** C08_edges, right-hand side *)
Definition expected_parents (sp : spec) (um : usedmap) (t : step) (i : nat) : list str :=
  match deps_ord t, deps_hub t with
  | [], [] => [SOURCE]
  | od, hd => map (fun p => iname (sp_params sp) um p i) od
              ++ flat_map (all_instances sp um) hd
  end.

Definition sseteqb (a b : list str) : bool :=
  forallb (fun x => str_mem x b) a && forallb (fun x => str_mem x a) b.

Fixpoint index_of (x : str) (l : list str) : nat :=
  match l with [] => 0%nat | y :: l' => if str_eqb x y then 0%nat else S (index_of x l') end.

Definition find_obs (x : str) (nodes : list nobs) : option nobs :=
  find (fun o => str_eqb x (o_name o)) nodes.

(** parents of [x] according to the adjacency table *)
Definition adj_parents (nodes : list nobs) (x : str) : list str :=
  map o_name (filter (fun o => str_mem x (o_kids o)) nodes).

Definition names_ok (sp : spec) (um : usedmap) (nodes : list nobs) : bool :=
  let names := map o_name nodes in
  let inames := map (inst_name sp um) (inst_list sp um) in
  str_nodupb names
  && match names with x :: _ => str_eqb x SOURCE | [] => false end
  && forallb (fun x => str_mem x (SOURCE :: inames)) names
  && forallb (fun x => str_mem x names) inames.

Definition sharing_ok (sp : spec) (um : usedmap) : bool :=
  forallb (fun t =>
     let U := used_in um (s_name t) in
     let rows := rows_of (sp_params sp) um (s_name t) in
     forallb (fun i => forallb (fun j =>
        Bool.eqb (str_eqb (iname (sp_params sp) um (s_name t) i) (iname (sp_params sp) um (s_name t) j))
                 (agree (sp_params sp) U i j)) rows) rows) (sp_steps sp).

Definition edges_ok (sp : spec) (um : usedmap) (nodes : list nobs) : bool :=
  forallb (fun ti =>
     let x := inst_name sp um ti in
     let ex := expected_parents sp um (fst ti) (snd ti) in
     sseteqb (adj_parents nodes x) ex
     && match find_obs x nodes with Some o => sseteqb (o_deps o) ex | None => false end)
    (inst_list sp um)
  && is_nil (adj_parents nodes SOURCE).

(** C08_topological: every child is inserted after its parent *)
Definition topological_ok (nodes : list nobs) : bool :=
  let names := map o_name nodes in
  forallb (fun o => forallb (fun c => Nat.ltb (index_of (o_name o) names) (index_of c names)
                                      && str_mem c names) (o_kids o)) nodes.

Definition rlimit_cfg (sp : spec) (t : step) : nat :=
  match s_restart t with [] => 0%nat | _ => sp_rlimit sp end.

(** C06_rlimit_attach and the "carries that combination's values" part of C08_total *)
Definition records_ok (sp : spec) (um : usedmap) (nodes : list nobs) : bool :=
  forallb (fun ti =>
     match find_obs (inst_name sp um ti) nodes with
     | Some o => o_isrec o
                 && Nat.eqb (o_rlimit o) (rlimit_cfg sp (fst ti))
                 && kvs_eqb (o_params o)
                      (param_values (sp_params sp) (used_in um (s_name (fst ti))) (snd ti))
     | None => false
     end) (inst_list sp um).

Definition C08_ok_nodes (sp : spec) (um : usedmap) (nodes : list nobs) : bool :=
  names_ok sp um nodes && sharing_ok sp um && edges_ok sp um nodes
  && topological_ok nodes && records_ok sp um nodes.

(** the used-parameter table the implementation reports is the closure [plan] computes *)
Definition used_ok (um : usedmap) (o : obs) : bool :=
  list_eqb kl_eqb (map (fun kv => (fst kv, str_sort (snd kv))) um) (ob_used o).

Definition C08_ok (sp : spec) (r : result obs) : bool :=
  match r with
  | Err _ => true
  | Ok o => match plan sp with
            | Some um => used_ok um o && C08_ok_nodes sp um (ob_nodes o)
            | None => false
            end
  end.

(* ---- hygiene H8 (decidable) ---------------------------------------------- *)
(** Parameter keys are spliced UNESCAPED into the used-parameter regex
    (parameters.py:_get_used_parameters), so the literal scanner [uses_key] is
    the regex only for keys without regex metacharacters.  Admitted: word
    characters and the regex-harmless punctuation [- : @ % ~ , ! =] (each
    checked against Python's [re] on the real code: outside a character class
    they match themselves; e.g. the legal key MAT-ID).  Excluded by H8: keys
    containing [. + * ? ( ) [ ] { } | ^ $ \], which the regex would read as
    operators (the key would then match other texts than itself), and the
    empty key. *)
Definition key_punct : str := Str.s "-:@%~,!=".
Definition is_keychar (c : N) : bool := is_word c || existsb (N.eqb c) key_punct.
Definition word_key (k : str) : bool := negb (is_nil k) && forallb is_keychar k.

Definition params_ok (ps : list param) : bool :=
  let n := nrows ps in
  str_nodupb (keys_of ps)
  && forallb (fun p => word_key (p_key p) && Nat.eqb (length (p_vals p)) n
                       && Nat.eqb (length (labels_of p)) n) ps.

(** instance naming is injective on (step, class of rows agreeing on the used
    parameters) and never produces a step's own name: fails for K2 *)
Definition naming_ok (sp : spec) (um : usedmap) : bool :=
  let il := inst_list sp um in
  forallb (fun a => forallb (fun b =>
     implb (str_eqb (inst_name sp um a) (inst_name sp um b))
           (str_eqb (s_name (fst a)) (s_name (fst b))
            && agree (sp_params sp) (used_in um (s_name (fst a))) (snd a) (snd b))) il) il
  && forallb (fun a => is_nil (used_in um (s_name (fst a)))
                       || negb (str_mem (inst_name sp um a) (SOURCE :: step_names sp))) il.

(** every dependency names a step (not "_source") *)
Definition deps_ok (sp : spec) : bool :=
  forallb (fun t => forallb (fun d => str_mem (strip_star d) (step_names sp)) (s_deps t)) (sp_steps sp).

Definition hygb (sp : spec) : bool :=
  params_ok (sp_params sp) && deps_ok sp
  && match plan sp with Some um => naming_ok sp um | None => true end.

(* ---- signatures of the known findings outside H8 --------------------------- *)
(** K2: two rows of one step that differ on a used parameter get the same
    instance name (labels are joined by "." without escaping) *)
Definition sig_label_join (sp : spec) : bool :=
  match plan sp with Some um => negb (sharing_ok sp um) | None => false end.

(** K2b: an instance name of a parameterised step equals a step name, or two
    different steps have an instance name in common (step ++ "_" ++ combination
    is not escaped either) *)
Definition sig_name_clash (sp : spec) : bool :=
  match plan sp with
  | Some um =>
      let il := inst_list sp um in
      negb (forallb (fun a => forallb (fun b =>
              implb (str_eqb (inst_name sp um a) (inst_name sp um b))
                    (str_eqb (s_name (fst a)) (s_name (fst b)))) il) il
            && forallb (fun a => is_nil (used_in um (s_name (fst a)))
                                 || negb (str_mem (inst_name sp um a) (SOURCE :: step_names sp))) il)
  | None => false
  end.

(* ---- the same, as propositions (vocabulary of the theorems) ----------------- *)
Definition kids_of (g : graph) (p : str) : list str :=
  match g_find p g with Some nd => nd_kids nd | None => [] end.
Definition deps_of (g : graph) (x : str) : list str :=
  match g_find x g with Some nd => nd_deps nd | None => [] end.
Definition rec_of (g : graph) (x : str) : option rec :=
  match g_find x g with Some nd => nd_rec nd | None => None end.

(** row [i] is a row of the table, or the step is not expanded at all (then
    the row is irrelevant: [iname] ignores it) *)
Definition valid_row (sp : spec) (um : usedmap) (x : str) (i : nat) : Prop :=
  used_in um x = [] \/ (i < nrows (sp_params sp))%nat.

(** hygiene H8 (what [naming_ok] and [deps_ok] decide) *)
Record hygiene (sp : spec) (um : usedmap) : Prop := mkHyg {
  hy_deps : forall t d, In t (sp_steps sp) -> In d (s_deps t) -> In (strip_star d) (step_names sp);
  hy_inj : forall t t' i j, In t (sp_steps sp) -> In t' (sp_steps sp) ->
      valid_row sp um (s_name t) i -> valid_row sp um (s_name t') j ->
      iname (sp_params sp) um (s_name t) i = iname (sp_params sp) um (s_name t') j ->
      s_name t = s_name t' /\ agree (sp_params sp) (used_in um (s_name t)) i j = true;
  hy_nostep : forall t i, In t (sp_steps sp) -> used_in um (s_name t) <> [] ->
      (i < nrows (sp_params sp))%nat ->
      ~ In (iname (sp_params sp) um (s_name t) i) (SOURCE :: step_names sp) }.

(* ---- what the correspondence run evaluates per case ------------------------ *)
Definition c08_model (sp : spec) : result obs := observe_result (stage_c pi_id sp).

(** model = implementation, the monitor holds on the implementation's graph,
    and the reversed set-iteration order gives the same observable *)
Definition c08_agree (c : spec * result obs) : bool :=
  result_eqb (c08_model (fst c)) (snd c)
  && result_eqb (observe_result (stage_c pi_rev (fst c))) (snd c).
Definition c08_monitor (c : spec * result obs) : bool := C08_ok (fst c) (snd c).
Definition c08_case (c : spec * result obs) : bool := c08_agree c && c08_monitor c.
Definition c08_hyg (c : spec * result obs) : bool := hygb (fst c).
Definition c08_sig_k2 (c : spec * result obs) : bool := negb (sig_label_join (fst c)).
Definition c08_sig_k2b (c : spec * result obs) : bool := negb (sig_name_clash (fst c)).

(** Proofs about the passes of Subst.v: [apply_function] recursion, the
    implementation reading ([Model]: sequential [str.replace]) of every pass
    equals the specification reading ([Spec]: simultaneous substitution) under
    the hygiene hypothesis, hence [C09_ok] holds of the model's expansion. *)
From Coq Require Import List NArith Bool Arith Lia Permutation.
From MWF Require Import Base.Str Base.Util Base.UtilLemmas Expand.PyStr Expand.PyStrProofs Expand.Subst Expand.SubstProofs.
Import ListNotations.
Local Notation length := List.length.

(* ------------------------------------------------------------------------ *)
(** * Induction over [pyval] (nested lists and dicts) *)
Section PyvalInd.
  Variable P : pyval -> Prop.
  Hypothesis HS : forall x, P (VStr x).
  Hypothesis HL : forall l, Forall P l -> P (VList l).
  Hypothesis HD : forall d, Forall (fun kv : str * pyval => P (snd kv)) d -> P (VDict d).
  Hypothesis HO : forall r b, P (VOther r b).
  Fixpoint pyval_ind' (v : pyval) : P v :=
    match v with
    | VStr x => HS x
    | VList l =>
        HL l ((fix go (l : list pyval) : Forall P l :=
                 match l with
                 | [] => Forall_nil _
                 | a :: l' => Forall_cons a (pyval_ind' a) (go l')
                 end) l)
    | VDict d =>
        HD d ((fix go (d : list (str * pyval)) : Forall (fun kv => P (snd kv)) d :=
                 match d with
                 | [] => Forall_nil _
                 | (k, w) :: d' => Forall_cons (k, w) (pyval_ind' w) (go d')
                 end) d)
    | VOther r b => HO r b
    end.
End PyvalInd.

(** the inner fixpoints are the obvious maps *)
Lemma apply_function_VDict : forall f d,
  apply_function f (VDict d) = VDict (apply_dict f d).
Proof.
  intros f d. simpl. f_equal. unfold apply_dict.
  induction d as [|[k w] d IH]; simpl; auto. rewrite IH. reflexivity.
Qed.

Lemma strings_of_VDict : forall d,
  strings_of (VDict d) = flat_map (fun kv => strings_of (snd kv)) d.
Proof.
  intros d. simpl. induction d as [|[k w] d IH]; simpl; auto. rewrite IH. reflexivity.
Qed.

Lemma skeleton_VDict : forall d,
  skeleton (VDict d) = VDict (map (fun kv => (fst kv, skeleton (snd kv))) d).
Proof.
  intros d. simpl. f_equal. induction d as [|[k w] d IH]; simpl; auto. rewrite IH. reflexivity.
Qed.

Lemma apply_str_nil : forall f, apply_str f [] = [].
Proof. reflexivity. Qed.

(** [apply_function] reaches every string, at every depth, exactly once and in
    place ... *)
Lemma strings_apply_function : forall f v,
  strings_of (apply_function f v) = map (apply_str f) (strings_of v).
Proof.
  intros f. induction v using pyval_ind'.
  - destruct x; reflexivity.
  - simpl. induction H as [|a l Ha Hl IH]; simpl; auto.
    rewrite map_app, Ha, IH. reflexivity.
  - rewrite apply_function_VDict, !strings_of_VDict. unfold apply_dict.
    induction H as [|[k w] d Hw Hd IH]; simpl; auto.
    simpl in Hw. rewrite map_app, Hw, IH. reflexivity.
  - reflexivity.
Qed.

(** ... and leaves everything else (structure, dict keys, non-strings) alone. *)
Lemma skeleton_apply_function : forall f v,
  skeleton (apply_function f v) = skeleton v.
Proof.
  intros f. induction v using pyval_ind'.
  - destruct x; reflexivity.
  - simpl. f_equal. induction H as [|a l Ha Hl IH]; simpl; auto.
    rewrite Ha, IH. reflexivity.
  - rewrite apply_function_VDict, !skeleton_VDict. f_equal. unfold apply_dict.
    induction H as [|[k w] d Hw Hd IH]; simpl; auto.
    simpl in Hw. rewrite Hw, IH. reflexivity.
  - reflexivity.
Qed.

(** a value is determined by its skeleton and its strings *)
Lemma apply_function_ext : forall f g v,
  (forall x, In x (strings_of v) -> x <> [] -> f x = g x) ->
  apply_function f v = apply_function g v.
Proof.
  intros f g. induction v using pyval_ind'; intros E.
  - destruct x as [|c x]; auto. simpl. f_equal. apply E; [left; reflexivity|discriminate].
  - simpl. f_equal. simpl in E.
    induction H as [|a l Ha Hl IH]; simpl; auto. f_equal.
    + apply Ha. intros x Hx. apply E. simpl. apply in_or_app. auto.
    + apply IH. intros x Hx. apply E. simpl. apply in_or_app. auto.
  - rewrite !apply_function_VDict. f_equal. rewrite strings_of_VDict in E. unfold apply_dict.
    induction H as [|[k w] d Hw Hd IH]; simpl; auto. f_equal.
    + f_equal. apply Hw. intros x Hx. apply E. simpl. apply in_or_app. auto.
    + apply IH. intros x Hx. apply E. simpl. apply in_or_app. auto.
  - reflexivity.
Qed.

Lemma apply_str_ext : forall f g x, (x <> [] -> f x = g x) -> apply_str f x = apply_str g x.
Proof. intros f g [|c x] H; auto. simpl. apply H. discriminate. Qed.

Lemma apply_dict_ext : forall f g d,
  (forall x, In x (flat_map (fun kv => strings_of (snd kv)) d) -> x <> [] -> f x = g x) ->
  apply_dict f d = apply_dict g d.
Proof.
  intros f g d E. unfold apply_dict. induction d as [|[k w] d IH]; simpl; auto. f_equal.
  - f_equal. apply apply_function_ext. intros x Hx. apply E. simpl. apply in_or_app. auto.
  - apply IH. intros x Hx. apply E. simpl. apply in_or_app. auto.
Qed.

Lemma step_map_ext : forall f g st,
  (forall x, In x (step_strings st) -> x <> [] -> f x = g x) ->
  step_map f st = step_map g st.
Proof.
  intros f g st E. unfold step_map. f_equal.
  - apply apply_str_ext. apply E. left. reflexivity.
  - apply apply_dict_ext. intros x Hx. apply E. right. exact Hx.
Qed.

Lemma step_strings_map : forall f st,
  step_strings (step_map f st) = map (apply_str f) (step_strings st).
Proof.
  intros f st. unfold step_strings, step_map. simpl. f_equal.
  unfold apply_dict. induction (s_run st) as [|[k w] d IH]; simpl; auto.
  rewrite map_app, strings_apply_function, IH. reflexivity.
Qed.

Lemma dict_get_apply_dict : forall f k d,
  dict_get k (apply_dict f d) = apply_function f (dict_get k d).
Proof.
  intros f k d. unfold apply_dict. induction d as [|[k' w] d IH]; simpl; auto.
  destruct (str_eqb k k'); auto.
Qed.

Lemma as_text_apply_function : forall f v, as_text (apply_function f v) = apply_str f (as_text v).
Proof. intros f [x|l|d|r b]; try reflexivity. destruct x; reflexivity. Qed.

Lemma run_text_step_map : forall f k st,
  run_text k (step_map f st) = apply_str f (run_text k st).
Proof.
  intros. unfold run_text, step_map. simpl.
  rewrite dict_get_apply_dict, as_text_apply_function. reflexivity.
Qed.

(* ------------------------------------------------------------------------ *)
(** * One pass: the implementation's reading equals the specification's *)

Lemma entry_eqb_eq : forall a b, entry_eqb a b = true -> a = b.
Proof.
  intros [a1 a2] [b1 b2] H. unfold entry_eqb in H. simpl in H.
  apply andb_true_iff in H. destruct H as [H1 H2].
  apply str_eqb_eq in H1. apply str_eqb_eq in H2. congruence.
Qed.

Lemma entry_mem_In : forall e T, entry_mem e T = true -> In e T.
Proof.
  intros e T H. unfold entry_mem in H. apply existsb_exists in H.
  destruct H as [e' [Hin He]]. apply entry_eqb_eq in He. subst. exact Hin.
Qed.

Lemma pass_hyg_sound : forall l T x, pass_hyg l T x = true -> seq l x = sim T x.
Proof.
  intros l T x H. unfold pass_hyg in H.
  apply andb_true_iff in H. destruct H as [H Hfree].
  apply andb_true_iff in H. destruct H as [H Hcov].
  apply andb_true_iff in H. destruct H as [Hwf Hincl].
  apply seq_eq_sim_gen; auto.
  - apply wf_tableb_spec. exact Hwf.
  - intros e He. rewrite forallb_forall in Hincl. apply entry_mem_In. auto.
  - intros t Ht Hocc. rewrite forallb_forall in Hcov. specialize (Hcov t Ht).
    apply orb_true_iff in Hcov. destruct Hcov as [Hc|Hc].
    + apply negb_true_iff in Hc. apply occursb_false in Hc. contradiction.
    + apply str_mem_In. exact Hc.
Qed.

Lemma pass_hyg_wf : forall l T x, pass_hyg l T x = true -> wf_table T.
Proof.
  intros l T x H. unfold pass_hyg in H. rewrite !andb_true_iff in H.
  apply wf_tableb_spec. tauto.
Qed.

Lemma pass_hyg_free : forall l T x, pass_hyg l T x = true -> token_free T (sim T x) = true.
Proof. intros l T x H. unfold pass_hyg in H. rewrite !andb_true_iff in H. tauto. Qed.

Lemma pass_eq : forall l T x, pass_hyg l T x = true -> pass Model l T x = pass Spec l T x.
Proof. intros. simpl. apply pass_hyg_sound. auto. Qed.

(** a table that does not occur is not applied *)
Lemma seq_no_occurrence : forall l x,
  (forall e, In e l -> fst e <> [] /\ ~ occurs (fst e) x) -> seq l x = x.
Proof.
  induction l as [|e l IH]; intros x H; auto.
  rewrite seq_cons. destruct (H e) as [Hne Hno]; [left; reflexivity|].
  rewrite replace_no_occurrence; auto. apply IH. intros e' He'. apply H. right. exact He'.
Qed.

(* ------------------------------------------------------------------------ *)
(** * The environment pass *)
Lemma env_pass_eq : forall E x, hyg_env E x = true -> env_pass Model E x = env_pass Spec E x.
Proof.
  intros E [|c x] H; auto. unfold hyg_env in H. unfold env_pass.
  apply andb_true_iff in H. destruct H as [H H3].
  apply andb_true_iff in H. destruct H as [H1 H2].
  unfold pass.
  rewrite (pass_hyg_sound _ _ _ H1), (pass_hyg_sound _ _ _ H2), (pass_hyg_sound _ _ _ H3).
  reflexivity.
Qed.

Lemma steps_e_eq : forall c, hyg_steps c = true -> steps_e Model c = steps_e Spec c.
Proof.
  intros c H. unfold steps_e. unfold hyg_steps in H. rewrite forallb_forall in H.
  apply map_ext_in. intros st Hst. apply step_map_ext. intros x Hx _.
  apply env_pass_eq. specialize (H st Hst). rewrite forallb_forall in H. auto.
Qed.

(* ------------------------------------------------------------------------ *)
(** * The scan for workspace references *)
Lemma list_str_eqb_eq : forall a b, list_str_eqb a b = true -> a = b.
Proof.
  unfold list_str_eqb. induction a as [|x a IH]; destruct b as [|y b]; intros H; try discriminate; auto.
  apply andb_true_iff in H. destruct H as [H1 H2]. apply str_eqb_eq in H1. subst. f_equal. auto.
Qed.

Lemma mk_pre_eq : forall known st, hyg_pre known st = true -> mk_pre Model known st = mk_pre Spec known st.
Proof.
  intros known st H. unfold hyg_pre in H. apply andb_true_iff in H. destruct H as [Hwf Hrefs].
  unfold mk_pre. f_equal.
  - apply list_str_eqb_eq. exact Hrefs.
  - unfold rej_of. rewrite forallb_forall in Hwf. clear Hrefs.
    induction (ws_findall (ws_text st)) as [|n l IH]; auto. simpl.
    rewrite (Hwf n); [|left; reflexivity]. simpl. f_equal. apply IH.
    intros y Hy. apply Hwf. right. exact Hy.
Qed.

Lemma pre_go_eq : forall sts ord known,
  hyg_pre_go sts known ord = true -> pre_go Model sts known ord = pre_go Spec sts known ord.
Proof.
  intros sts. induction ord as [|k ord IH]; intros known H; auto.
  simpl in H. apply andb_true_iff in H. destruct H as [H1 H2].
  simpl. f_equal; auto. apply mk_pre_eq. exact H1.
Qed.

Lemma plan_eq : forall c,
  hyg_steps c = true -> hyg_pre_go (steps_e Spec c) [SOURCE] (c_order c) = true ->
  plan Model c = plan Spec c.
Proof.
  intros c H1 H2. unfold plan, pre_list. rewrite (steps_e_eq c H1).
  rewrite (pre_go_eq _ _ _ H2). reflexivity.
Qed.

(* ------------------------------------------------------------------------ *)
(** * One instance *)
Lemma step_p_eq : forall ps d,
  (match d_row d with
   | None => true
   | Some i => forallb (fun x => match x with
                                 | [] => true
                                 | _ => pass_hyg (param_table ps i) (param_table ps i) x
                                 end) (step_strings (d_step d))
   end) = true ->
  step_p Model ps d = step_p Spec ps d.
Proof.
  intros ps d H. unfold step_p. destruct (d_row d) as [i|]; auto.
  apply step_map_ext. intros x Hx Hne. rewrite forallb_forall in H. specialize (H x Hx).
  destruct x; [contradiction|]. unfold param_pass. apply pass_eq. exact H.
Qed.

Lemma rec_pass_idem : forall d x,
  pass_hyg (rec_T d) (rec_T d) x = true ->
  rec_pass Model d (rec_pass Spec d x) = rec_pass Spec d x.
Proof.
  intros d x H. unfold rec_pass, pass. apply pass_hyg_free in H.
  rewrite token_free_spec in H. apply seq_no_occurrence.
  intros e [He|[]]. subst e. simpl. split; [discriminate|].
  apply H. left. reflexivity.
Qed.

Lemma inst_of_eq : forall ps shell d,
  hyg_inst ps d = true -> inst_of Model ps shell d = inst_of Spec ps shell d.
Proof.
  intros ps shell d H. unfold hyg_inst in H.
  apply andb_true_iff in H. destruct H as [H1 H]. cbv zeta in H.
  apply andb_true_iff in H. destruct H as [H H5].
  apply andb_true_iff in H. destruct H as [H H4].
  apply andb_true_iff in H. destruct H as [H2 H3].
  assert (E2 : forall x, pass_hyg (ws_l d) (ws_T d) x = true -> ws_pass Model d x = ws_pass Spec d x).
  { intros x Hx. unfold ws_pass. apply pass_eq. exact Hx. }
  assert (E4 : forall x, pass_hyg (rec_T d) (rec_T d) x = true -> rec_pass Model d x = rec_pass Spec d x).
  { intros x Hx. unfold rec_pass. apply pass_eq. exact Hx. }
  unfold inst_of. cbv zeta. rewrite (step_p_eq ps d H1).
  set (st := step_p Spec ps d) in *.
  rewrite (E2 _ H2), (E2 _ H3), (E4 _ H4), (E4 _ H5), (rec_pass_idem d _ H4).
  reflexivity.
Qed.

(* ------------------------------------------------------------------------ *)
(** * Instance names are pairwise distinct *)
Lemma first_wins_spec : forall ds seen r seen',
  first_wins seen ds = (r, seen') ->
  NoDup (map d_name r) /\ incl r ds /\
  (forall d, In d r -> ~ In (d_name d) seen) /\
  (forall n, In n seen' <-> In n seen \/ In n (map d_name r)).
Proof.
  induction ds as [|d ds IH]; intros seen r seen' H; simpl in H.
  - inversion H; subst. repeat split; try constructor; try (intros ? []); auto.
    + intros [?|[]]; auto.
  - destruct (str_mem (d_name d) seen) eqn:Em.
    + destruct (IH _ _ _ H) as [A [B [C D]]]. repeat split; auto.
      * intros x Hx. right. auto.
      * apply D.
      * apply D.
    + destruct (first_wins (d_name d :: seen) ds) as [r0 s0] eqn:Er. inversion H; subst.
      destruct (IH _ _ _ Er) as [A [B [C D]]].
      assert (Hnot : ~ In (d_name d) seen).
      { intros Hin. apply str_mem_In in Hin. congruence. }
      repeat split.
      * simpl. constructor; auto. intros Hin. apply in_map_iff in Hin.
        destruct Hin as [d' [En Hd']]. apply (C d' Hd'). left. auto.
      * intros x [Hx|Hx]; [left; auto|right; auto].
      * intros d' [Hd'|Hd']; [subst; auto|]. intros Hin. apply (C d' Hd'). right. exact Hin.
      * intros Hn. apply D in Hn. simpl. simpl in Hn. tauto.
      * intros Hn. apply D. simpl. simpl in Hn. tauto.
Qed.

Lemma NoDup_app_intro {A} : forall (a b : list A),
  NoDup a -> NoDup b -> (forall x, In x a -> In x b -> False) -> NoDup (a ++ b).
Proof.
  induction a as [|x a IH]; intros b Ha Hb H; simpl; auto.
  inversion Ha; subst. constructor.
  - intros Hin. apply in_app_or in Hin. destruct Hin as [Hin|Hin]; [contradiction|].
    apply (H x); auto. left. reflexivity.
  - apply IH; auto. intros y Hy1 Hy2. apply (H y); auto. right. exact Hy1.
Qed.

Lemma plan_go_names : forall root ps l used seen ds,
  plan_go root ps used seen l = Some ds ->
  NoDup (map d_name ds) /\ (forall d, In d ds -> ~ In (d_name d) seen).
Proof.
  intros root ps. induction l as [|p l IH]; intros used seen ds H; simpl in H.
  - inversion H; subst. split; [constructor|intros ? []].
  - destruct (pr_rej p); [discriminate|].
    destruct (first_wins seen (step_descs root ps used p (step_used ps used p))) as [r seen'] eqn:Ef.
    destruct (plan_go root ps (used ++ [(s_name (pr_step p), step_used ps used p)]) seen' l) as [r2|] eqn:Ep;
      [|discriminate].
    inversion H; subst. destruct (first_wins_spec _ _ _ _ Ef) as [A [B [C D]]].
    destruct (IH _ _ _ Ep) as [A2 C2]. split.
    + rewrite map_app. apply NoDup_app_intro; auto.
      intros n Hn1 Hn2. apply in_map_iff in Hn2. destruct Hn2 as [d2 [E2 Hd2]].
      apply (C2 d2 Hd2). apply D. right. rewrite E2. exact Hn1.
    + intros d Hd. apply in_app_or in Hd. destruct Hd as [Hd|Hd]; auto.
      intros Hin. apply (C2 d Hd). apply D. left. exact Hin.
Qed.

(* ------------------------------------------------------------------------ *)
(** * Reflexivity of the comparison of observables *)
Lemma pyval_eqb_refl : forall v, pyval_eqb v v = true.
Proof.
  induction v using pyval_ind'.
  - apply str_eqb_refl.
  - simpl. induction H as [|a l Ha Hl IH]; auto. rewrite Ha. exact IH.
  - simpl. induction H as [|[k w] d Hw Hd IH]; auto. simpl in Hw.
    rewrite str_eqb_refl, Hw. exact IH.
  - simpl. rewrite str_eqb_refl. destruct b; reflexivity.
Qed.

Lemma inst_eqb_refl : forall i, inst_eqb i i = true.
Proof.
  intros i. unfold inst_eqb. rewrite !str_eqb_refl, pyval_eqb_refl. simpl.
  destruct (i_rscript i); simpl; auto. apply str_eqb_refl.
Qed.

Lemma insts_eqb_refl : forall l, NoDup (map i_name l) -> insts_eqb l l = true.
Proof.
  intros l H. unfold insts_eqb. rewrite Nat.eqb_refl. simpl.
  apply str_nodupb_NoDup in H. rewrite H. simpl.
  apply forallb_forall. intros x Hx. apply existsb_exists. exists x. split; auto.
  apply inst_eqb_refl.
Qed.

(* ------------------------------------------------------------------------ *)
(** * The main theorem *)
Theorem stage_model_eq_spec : forall c, hyg c = true -> stage Model c = stage Spec c.
Proof.
  intros c H. unfold hyg in H.
  apply andb_true_iff in H. destruct H as [H H4].
  apply andb_true_iff in H. destruct H as [H H3].
  apply andb_true_iff in H. destruct H as [H1 H2].
  unfold stage. rewrite (plan_eq c H1 H2).
  destruct (plan Spec c) as [ds|]; auto. f_equal.
  apply map_ext_in. intros d Hd. apply inst_of_eq.
  rewrite forallb_forall in H3. auto.
Qed.

Lemma stage_spec_names : forall c insts,
  stage Spec c = Staged insts -> NoDup (map i_name insts).
Proof.
  intros c insts H. unfold stage in H. destruct (plan Spec c) as [ds|] eqn:Ep; [|discriminate].
  inversion H; subst. rewrite map_map. simpl.
  unfold plan in Ep. apply plan_go_names in Ep. tauto.
Qed.

Theorem C09_ok_model : forall c, hyg c = true -> C09_ok c (stage Model c) = true.
Proof.
  intros c H. rewrite (stage_model_eq_spec c H). unfold C09_ok.
  apply andb_true_iff. split.
  - destruct (stage Spec c) as [|insts] eqn:Es; auto. simpl.
    apply insts_eqb_refl. eapply stage_spec_names; eauto.
  - unfold hyg in H. rewrite !andb_true_iff in H. tauto.
Qed.

(* ------------------------------------------------------------------------ *)
(** * The parameter table: well formed, and what it maps each token to *)

Lemma isword_name_char : forall c, isword c = true -> name_charb c = true /\ c <> DOT.
Proof.
  intros c H. split.
  - unfold name_charb. apply negb_true_iff.
    destruct (N.eqb c DOLLAR) eqn:E1; [apply N.eqb_eq in E1; subst; discriminate H|].
    destruct (N.eqb c LPAR) eqn:E2; [apply N.eqb_eq in E2; subst; discriminate H|].
    destruct (N.eqb c RPAR) eqn:E3; [apply N.eqb_eq in E3; subst; discriminate H|].
    reflexivity.
  - intros E. subst. discriminate H.
Qed.

Lemma word_wf_name : forall k, forallb isword k = true -> wf_nameb k = true.
Proof.
  intros k H. unfold wf_nameb. rewrite forallb_forall in *. intros c Hc.
  apply isword_name_char. auto.
Qed.

Lemma wf_nameb_app : forall a b, wf_nameb (a ++ b) = wf_nameb a && wf_nameb b.
Proof. intros. unfold wf_nameb. apply forallb_app. Qed.

Lemma tok_inj : forall a b, tok a = tok b -> a = b.
Proof.
  intros a b H. unfold tok in H. inversion H as [H']. apply app_inj_tail in H'. tauto.
Qed.

Lemma tok_is_token : forall n, wf_nameb n = true -> is_token (tok n).
Proof. intros n H. exists n. auto. Qed.

(** words are dot-free: a dotted name splits uniquely at its first dot *)
Lemma word_dot_split : forall k k' a b,
  forallb isword k = true -> forallb isword k' = true ->
  k ++ DOT :: a = k' ++ DOT :: b -> k = k' /\ a = b.
Proof.
  induction k as [|c k IH]; intros k' a b Hk Hk' E.
  - destruct k' as [|c' k']; simpl in E.
    + inversion E. auto.
    + inversion E; subst. rewrite forallb_forall in Hk'.
      specialize (Hk' DOT (or_introl eq_refl)). discriminate Hk'.
  - destruct k' as [|c' k']; simpl in E.
    + inversion E; subst. rewrite forallb_forall in Hk.
      specialize (Hk DOT (or_introl eq_refl)). discriminate Hk.
    + inversion E; subst. cbn [forallb] in Hk, Hk'. apply andb_true_iff in Hk, Hk'.
      destruct (IH k' a b) as [E1 E2]; try tauto. subst. auto.
Qed.

Lemma word_no_dot : forall k k' a, forallb isword k' = true -> k ++ DOT :: a <> k'.
Proof.
  intros k k' a Hk' E. rewrite forallb_forall in Hk'.
  assert (Hin : In DOT k') by (rewrite <- E; apply in_or_app; right; left; reflexivity).
  apply Hk' in Hin. apply isword_name_char in Hin. destruct Hin as [_ Hin]. congruence.
Qed.

Lemma NoDup_map_inj {A B} : forall (f : A -> B) l,
  (forall a b, In a l -> In b l -> f a = f b -> a = b) -> NoDup l -> NoDup (map f l).
Proof.
  induction l as [|x l IH]; intros Hinj Hnd; simpl; [constructor|].
  inversion Hnd; subst. constructor.
  - intros Hin. apply in_map_iff in Hin. destruct Hin as [y [Ey Hy]].
    assert (y = x) by (apply Hinj; auto; [right; auto|left; auto]). subst. contradiction.
  - apply IH; auto. intros a b Ha Hb. apply Hinj; right; auto.
Qed.

Lemma NoDup_map_inv {A B} : forall (f : A -> B) l, NoDup (map f l) -> NoDup l.
Proof.
  induction l as [|x l IH]; intros H; [constructor|]. simpl in H. inversion H; subst.
  constructor; auto. intros Hin. apply H2. apply in_map. exact Hin.
Qed.

Lemma NoDup_map_key {A B} : forall (f : A -> B) l a b,
  NoDup (map f l) -> In a l -> In b l -> f a = f b -> a = b.
Proof.
  induction l as [|x l IH]; intros a b H Ha Hb E; [contradiction|].
  simpl in H. inversion H; subst. destruct Ha as [Ha|Ha], Hb as [Hb|Hb]; subst; auto.
  - exfalso. apply H2. rewrite E. apply in_map. exact Hb.
  - exfalso. apply H2. rewrite <- E. apply in_map. exact Ha.
Qed.

Definition LABEL_SUF : str := s ".label".
Definition NAME_SUF : str := s ".name".

Lemma keys_okb_spec : forall ps, keys_okb ps = true ->
  NoDup (map p_key ps) /\ (forall p, In p ps -> forallb isword (p_key p) = true).
Proof.
  intros ps H. unfold keys_okb in H. apply andb_true_iff in H. destruct H as [H1 H2].
  split; [apply str_nodupb_NoDup; exact H1|]. rewrite forallb_forall in H2. exact H2.
Qed.

Lemma param_table_tokens : forall ps i,
  tokens (param_table ps i) =
  map (fun p => tok (p_key p ++ LABEL_SUF)) ps ++
  map (fun p => tok (p_key p)) ps ++
  map (fun p => tok (p_key p ++ NAME_SUF)) ps.
Proof.
  intros. unfold tokens, param_table. rewrite !map_app, !map_map. reflexivity.
Qed.

Theorem param_table_wf : forall ps i, keys_okb ps = true -> wf_table (param_table ps i).
Proof.
  intros ps i H. apply keys_okb_spec in H. destruct H as [Hnd Hw]. split.
  - intros t Ht. rewrite param_table_tokens in Ht.
    apply in_app_or in Ht. destruct Ht as [Ht|Ht]; [|apply in_app_or in Ht; destruct Ht as [Ht|Ht]];
      apply in_map_iff in Ht; destruct Ht as [p [E Hp]]; subst t; apply tok_is_token.
    + rewrite wf_nameb_app, (word_wf_name _ (Hw p Hp)). reflexivity.
    + apply word_wf_name. auto.
    + rewrite wf_nameb_app, (word_wf_name _ (Hw p Hp)). reflexivity.
  - rewrite param_table_tokens.
    assert (Hkey : forall a b, In a ps -> In b ps -> p_key a = p_key b -> a = b).
    { intros a b Ha Hb E. eapply NoDup_map_key; eauto. }
    assert (Hps : NoDup ps) by (eapply NoDup_map_inv; eauto).
    apply NoDup_app_intro; [| apply NoDup_app_intro |].
    + apply NoDup_map_inj; auto. intros a b Ha Hb E. apply tok_inj in E.
      apply app_inv_tail in E. auto.
    + apply NoDup_map_inj; auto. intros a b Ha Hb E. apply tok_inj in E. auto.
    + apply NoDup_map_inj; auto. intros a b Ha Hb E. apply tok_inj in E.
      apply app_inv_tail in E. auto.
    + intros t H1 H2. apply in_map_iff in H1, H2.
      destruct H1 as [a [Ea Ha]], H2 as [b [Eb Hb]]. subst t. apply tok_inj in Eb.
      change NAME_SUF with (DOT :: s "name") in Eb.
      revert Eb. apply word_no_dot. auto.
    + intros t H1 H2. apply in_map_iff in H1. destruct H1 as [a [Ea Ha]]. subst t.
      apply in_app_or in H2. destruct H2 as [H2|H2]; apply in_map_iff in H2;
        destruct H2 as [b [Eb Hb]]; apply tok_inj in Eb.
      * symmetry in Eb. change LABEL_SUF with (DOT :: s "label") in Eb.
        revert Eb. apply word_no_dot. auto.
      * change LABEL_SUF with (DOT :: s "label") in Eb.
        change NAME_SUF with (DOT :: s "name") in Eb.
        apply word_dot_split in Eb; auto. destruct Eb as [_ Eb]. discriminate Eb.
Qed.

Lemma param_table_in : forall ps i p, In p ps ->
  In (tok (p_key p ++ LABEL_SUF), row_label p i) (param_table ps i) /\
  In (tok (p_key p), row_value p i) (param_table ps i) /\
  In (tok (p_key p ++ NAME_SUF), param_name p) (param_table ps i).
Proof.
  intros ps i p Hp. unfold param_table. repeat split.
  - apply in_or_app. left. apply (in_map (fun p => (tok (p_key p ++ s ".label"), row_label p i))). exact Hp.
  - apply in_or_app. right. apply in_or_app. left.
    apply (in_map (fun p => (tok (p_key p), row_value p i))). exact Hp.
  - apply in_or_app. right. apply in_or_app. right.
    apply (in_map (fun p => (tok (p_key p ++ s ".name"), param_name p))). exact Hp.
Qed.

(** C09_values *)
Theorem param_table_values : forall ps i p r,
  keys_okb ps = true -> In p ps ->
  sim (param_table ps i) (tok (p_key p) ++ r) = row_value p i ++ sim (param_table ps i) r /\
  sim (param_table ps i) (tok (p_key p ++ s ".label") ++ r) = row_label p i ++ sim (param_table ps i) r /\
  sim (param_table ps i) (tok (p_key p ++ s ".name") ++ r) = param_name p ++ sim (param_table ps i) r.
Proof.
  intros ps i p r Hk Hp. pose proof (param_table_wf ps i Hk) as Hwf.
  destruct (param_table_in ps i p Hp) as [A [B C0]].
  repeat split; apply sim_token; auto.
Qed.

(** ... and only those: a position at which none of the defined tokens starts
    is copied. *)
Theorem param_table_only : forall ps i c r,
  (forall p, In p ps ->
     prefixb (tok (p_key p)) (c :: r) = false /\
     prefixb (tok (p_key p ++ s ".label")) (c :: r) = false /\
     prefixb (tok (p_key p ++ s ".name")) (c :: r) = false) ->
  sim (param_table ps i) (c :: r) = c :: sim (param_table ps i) r.
Proof.
  intros ps i c r H. apply sim_char. intros t Ht. rewrite param_table_tokens in Ht.
  apply in_app_or in Ht. destruct Ht as [Ht|Ht]; [|apply in_app_or in Ht; destruct Ht as [Ht|Ht]];
    apply in_map_iff in Ht; destruct Ht as [p [E Hp]]; subst t; destruct (H p Hp) as [A [B C0]]; auto.
Qed.

(** the implementation's three loops over the row's dicts compute it *)
Theorem param_pass_model : forall ps i x,
  keys_okb ps = true ->
  token_free (param_table ps i) (sim (param_table ps i) x) = true ->
  param_pass Model ps i x = sim (param_table ps i) x.
Proof.
  intros ps i x Hk Hfree. unfold param_pass, pass. apply seq_eq_sim; auto.
  apply param_table_wf. exact Hk.
Qed.

Lemma valid_case_parts : forall c, valid_case c = true ->
  NoDup (map s_name (c_steps c)) /\
  ~ In SOURCE (map s_name (c_steps c)) /\
  str_nodupb (map p_key (c_params c)) = true /\
  forallb (valid_param (nrows (c_params c))) (c_params c) = true /\
  (forall k, In k (c_order c) -> k < length (c_steps c)) /\
  NoDup (c_order c).
Proof.
  intros c H. unfold valid_case in H. cbv zeta in H. rewrite !andb_true_iff in H.
  destruct H as [[[[[[[[H1 H2] H3] H4] H5] H6] H7] H8] H9].
  repeat split; auto.
  - apply str_nodupb_NoDup. exact H1.
  - intros Hin. apply str_mem_In in Hin. rewrite Hin in H2. discriminate H2.
  - rewrite forallb_forall in H7. intros k Hk. apply Nat.ltb_lt. auto.
  - apply UtilLemmas.nodupb_NoDup. exact H9.
Qed.

Lemma valid_case_keys : forall c, valid_case c = true -> keys_okb (c_params c) = true.
Proof.
  intros c H. apply valid_case_parts in H. destruct H as [_ [_ [Hnd [Hv _]]]].
  unfold keys_okb. rewrite Hnd. simpl. rewrite forallb_forall in *. intros p Hp.
  specialize (Hv p Hp). unfold valid_param in Hv. rewrite !andb_true_iff in Hv. tauto.
Qed.

(* ------------------------------------------------------------------------ *)
(** * Workspace tokens: which directory each one denotes *)

Lemma find_map_key : forall (f : str -> str) n known,
  In n known ->
  find (fun e : str * str => str_eqb n (fst e)) (map (fun m => (m, f m)) known) = Some (n, f n).
Proof.
  intros f n. induction known as [|m known IH]; intros H; [contradiction|]. simpl.
  destruct (str_eqb n m) eqn:E.
  - apply str_eqb_eq in E. subst. reflexivity.
  - destruct H as [H|H]; [subst; rewrite str_eqb_refl in E; discriminate|]. auto.
Qed.

Lemma dir_of_map : forall (f : str -> str) n known,
  In n known -> dir_of n (map (fun m => (m, f m)) known) = f n.
Proof. intros. unfold dir_of. rewrite find_map_key; auto. Qed.

Lemma dir_of_in : forall n dirs, In n (map fst dirs) -> In (n, dir_of n dirs) dirs.
Proof.
  intros n. induction dirs as [|[m v] dirs IH]; intros H; [contradiction|].
  unfold dir_of. simpl. destruct (str_eqb n m) eqn:E.
  - apply str_eqb_eq in E. subst. left. reflexivity.
  - right. simpl in H. destruct H as [H|H]; [subst; rewrite str_eqb_refl in E; discriminate|].
    apply IH in H. exact H.
Qed.

(** the workspace pass maps the token of every step staged so far to the
    directory recorded for it in the instance *)
Theorem ws_pass_lookup : forall d n r,
  wf_tableb (ws_T d) = true -> In n (map fst (d_dirs d)) ->
  sim (ws_T d) (ws_tok n ++ r) = dir_of n (d_dirs d) ++ sim (ws_T d) r.
Proof.
  intros d n r Hwf Hin. apply sim_token; [apply wf_tableb_spec; exact Hwf|].
  unfold ws_T. apply (in_map (fun nd => (ws_tok (fst nd), snd nd))) with (x := (n, dir_of n (d_dirs d))).
  apply dir_of_in. exact Hin.
Qed.

(** $(WORKSPACE) *)
Lemma rec_T_wf : forall d, wf_table (rec_T d).
Proof.
  intros d. apply wf_tableb_spec. reflexivity.
Qed.

Theorem rec_pass_lookup : forall d r,
  sim (rec_T d) (WORKSPACE_TOK ++ r) = d_ws d ++ sim (rec_T d) r.
Proof. intros. apply sim_token; [apply rec_T_wf|left; reflexivity]. Qed.

Theorem rec_pass_model : forall d x,
  token_free (rec_T d) (sim (rec_T d) x) = true -> rec_pass Model d x = sim (rec_T d) x.
Proof. intros. unfold rec_pass, pass. apply seq_eq_sim; auto. apply rec_T_wf. Qed.

(** ** How staging builds the descriptors *)
Fixpoint used_go (ps : list param) (used : list (str * list str)) (l : list pre) : list (str * list str) :=
  match l with
  | [] => used
  | p :: l' => used_go ps (used ++ [(s_name (pr_step p), step_used ps used p)]) l'
  end.

Definition pre_names (l : list pre) : list str := map (fun p => s_name (pr_step p)) l.

Lemma used_go_app : forall ps l1 l2 used,
  used_go ps used (l1 ++ l2) = used_go ps (used_go ps used l1) l2.
Proof. intros ps. induction l1 as [|p l1 IH]; intros; simpl; auto. Qed.

Lemma used_go_ext : forall ps l used, exists ext,
  used_go ps used l = used ++ ext /\ map fst ext = pre_names l.
Proof.
  intros ps. induction l as [|p l IH]; intros used; simpl.
  - exists []. rewrite app_nil_r. auto.
  - destruct (IH (used ++ [(s_name (pr_step p), step_used ps used p)])) as [ext [E1 E2]].
    exists ((s_name (pr_step p), step_used ps used p) :: ext). split.
    + rewrite E1, <- app_assoc. reflexivity.
    + simpl. rewrite E2. reflexivity.
Qed.

Lemma used_go_fst : forall ps l used, map fst (used_go ps used l) = map fst used ++ pre_names l.
Proof.
  intros. destruct (used_go_ext ps l used) as [ext [E1 E2]]. rewrite E1, map_app, E2. reflexivity.
Qed.

Lemma plan_go_in : forall root ps l used seen ds d,
  plan_go root ps used seen l = Some ds -> In d ds ->
  exists l1 p l2, l = l1 ++ p :: l2 /\
    In d (step_descs root ps (used_go ps used l1) p (step_used ps (used_go ps used l1) p)).
Proof.
  intros root ps. induction l as [|p l IH]; intros used seen ds d H Hd; simpl in H.
  - inversion H; subst. contradiction.
  - destruct (pr_rej p); [discriminate|].
    destruct (first_wins seen (step_descs root ps used p (step_used ps used p))) as [r seen'] eqn:Ef.
    destruct (plan_go root ps (used ++ [(s_name (pr_step p), step_used ps used p)]) seen' l) as [r2|] eqn:Ep;
      [|discriminate].
    inversion H; subst. apply in_app_or in Hd. destruct Hd as [Hd|Hd].
    + exists [], p, l. split; auto. simpl.
      destruct (first_wins_spec _ _ _ _ Ef) as [_ [B _]]. apply B. exact Hd.
    + destruct (IH _ _ _ _ Ep Hd) as [l1 [q [l2 [E Hin]]]].
      exists (p :: l1), q, l2. split; [simpl; congruence|]. simpl. exact Hin.
Qed.

Lemma step_descs_in : forall root ps used p u d,
  In d (step_descs root ps used p u) ->
  d_step d = pr_step p /\ d_used d = u /\ d_refs d = pr_refs p /\
  d_ws d = own_ws root ps (s_name (pr_step p)) u (d_row d) /\
  d_name d = iname ps (s_name (pr_step p)) u (d_row d) /\
  d_caps d = pr_caps p /\
  d_dirs d = map (fun n => (n, wsdir root ps used (hub_of (pr_step p)) (d_row d) n)) (map fst used) /\
  (u = [] -> d_row d = None) /\ (u <> [] -> exists i, d_row d = Some i /\ i < nrows ps).
Proof.
  intros root ps used p u d H. unfold step_descs in H. destruct u as [|k u].
  - destruct H as [H|[]]. subst d. simpl. repeat split; auto. intros F. contradiction.
  - apply in_map_iff in H. destruct H as [i [E Hi]]. subst d. simpl. repeat split; auto.
    + intros F. discriminate.
    + intros _. exists i. split; auto. apply in_seq in Hi. lia.
Qed.

Lemma find_app_first {A} : forall (f : A -> bool) l1 x l2,
  (forall y, In y l1 -> f y = false) -> f x = true -> find f (l1 ++ x :: l2) = Some x.
Proof.
  intros f. induction l1 as [|y l1 IH]; intros x l2 H Hx; simpl.
  - rewrite Hx. reflexivity.
  - rewrite (H y); [|left; reflexivity]. apply IH; auto. intros z Hz. apply H. right. exact Hz.
Qed.

Lemma used_of_used_go : forall ps used l1 p l2,
  ~ In (s_name (pr_step p)) (map fst used ++ pre_names l1) ->
  used_of (used_go ps used (l1 ++ p :: l2)) (s_name (pr_step p)) = step_used ps (used_go ps used l1) p.
Proof.
  intros ps used l1 p l2 Hnot. rewrite used_go_app. simpl.
  destruct (used_go_ext ps l2 (used_go ps used l1 ++ [(s_name (pr_step p), step_used ps (used_go ps used l1) p)]))
    as [ext [E1 _]].
  rewrite E1, <- app_assoc. simpl. unfold used_of.
  rewrite find_app_first with (x := (s_name (pr_step p), step_used ps (used_go ps used l1) p)); auto.
  - intros y Hy. simpl. apply str_eqb_neq. intros E. apply Hnot.
    rewrite <- (used_go_fst ps l1 used). rewrite E. apply in_map. exact Hy.
  - simpl. apply str_eqb_refl.
Qed.

Lemma NoDup_split_unique {A B} : forall (f : A -> B) a q r a' q' r',
  NoDup (map f (a ++ q :: r)) -> a ++ q :: r = a' ++ q' :: r' -> f q = f q' ->
  a = a' /\ q = q' /\ r = r'.
Proof.
  intros f. induction a as [|x a IH]; intros q r a' q' r' Hnd E Hf.
  - destruct a' as [|x' a']; simpl in E.
    + inversion E. auto.
    + exfalso. inversion E; subst. simpl in Hnd. inversion Hnd; subst. apply H1.
      rewrite Hf. apply in_map. apply in_or_app. right. left. reflexivity.
  - destruct a' as [|x' a']; simpl in E.
    + exfalso. inversion E; subst. simpl in Hnd. inversion Hnd; subst. apply H1.
      rewrite <- Hf. apply in_map. apply in_or_app. right. left. reflexivity.
    + inversion E; subst. simpl in Hnd. inversion Hnd; subst.
      destruct (IH q r a' q' r' H3 H1 Hf) as [E1 [E2 E3]]. subst. auto.
Qed.

(** funnel parents: the step's root directory *)
Lemma wsdir_funnel : forall root ps used hubs row n,
  n <> SOURCE -> In n hubs -> wsdir root ps used hubs row n = msp root [n].
Proof.
  intros root ps used hubs row n Hs Hh. unfold wsdir.
  apply str_eqb_neq in Hs. rewrite Hs. apply str_mem_In in Hh. rewrite Hh. reflexivity.
Qed.

(** ordinary references: the same combination's directory *)
Lemma wsdir_ordinary : forall root ps used hubs row n,
  n <> SOURCE -> ~ In n hubs ->
  wsdir root ps used hubs row n =
  own_ws root ps n (used_of used n) (match used_of used n with [] => None | _ => row end).
Proof.
  intros root ps used hubs row n Hs Hh. unfold wsdir.
  apply str_eqb_neq in Hs. rewrite Hs.
  destruct (str_mem n hubs) eqn:E; [apply str_mem_In in E; contradiction|].
  destruct (used_of used n) as [|k u]; simpl; auto; try (destruct row; reflexivity).
Qed.

(** rows that carry the same labels for the parent's used parameters denote the
    same combination of the parent; in particular the same row does *)
Lemma same_combo_same_row : forall ps d d', d_row d' = d_row d -> same_combo ps d d' = true.
Proof.
  intros ps d d' E. unfold same_combo. rewrite E. destruct (d_row d); auto. apply str_eqb_refl.
Qed.

Lemma same_combo_labels : forall ps d d' i i',
  d_row d = Some i -> d_row d' = Some i' ->
  (forall k p, In k (d_used d') -> find_param k ps = Some p -> row_label p i = row_label p i') ->
  same_combo ps d d' = true.
Proof.
  intros ps d d' i i' E E' H. unfold same_combo. rewrite E, E'. apply str_eqb_eq.
  unfold combo_string. f_equal. apply map_ext_in. intros k Hk.
  destruct (find_param k ps) as [p|] eqn:Ef; [apply (H k p Hk Ef)|reflexivity].
Qed.

Section Plan.
  Variables (root : str) (ps : list param) (used0 : list (str * list str)) (seen0 : list str).
  Variables (L : list pre) (ds : list desc).
  Hypothesis Hplan : plan_go root ps used0 seen0 L = Some ds.
  Hypothesis Hnd : NoDup (map fst used0 ++ pre_names L).

  Lemma plan_funnel : forall d n,
    In d ds -> n <> SOURCE -> In n (hub_of (d_step d)) -> In n (map fst (d_dirs d)) ->
    dir_of n (d_dirs d) = msp root [n].
  Proof.
    intros d n Hd Hs Hh Hk.
    destruct (plan_go_in _ _ _ _ _ _ _ Hplan Hd) as [l1 [p [l2 [E Hin]]]].
    apply step_descs_in in Hin. destruct Hin as [Est [_ [_ [_ [_ [_ [Edirs _]]]]]]].
    rewrite Edirs in *. rewrite map_map in Hk. simpl in Hk. rewrite map_id in Hk.
    rewrite dir_of_map; auto. apply wsdir_funnel; auto. rewrite <- Est. exact Hh.
  Qed.

  Lemma plan_ordinary : forall d d',
    In d ds -> In d' ds ->
    ~ In (s_name (d_step d')) (map fst used0) ->
    ~ In (s_name (d_step d')) (hub_of (d_step d)) ->
    In (s_name (d_step d')) (map fst (d_dirs d)) ->
    same_combo ps d d' = true ->
    s_name (d_step d') <> SOURCE ->
    dir_of (s_name (d_step d')) (d_dirs d) = d_ws d'.
  Proof.
    intros d d' Hd Hd' Hn0 Hh Hk Hrow Hs.
    destruct (plan_go_in _ _ _ _ _ _ _ Hplan Hd) as [l1 [p [l2 [E Hin]]]].
    destruct (plan_go_in _ _ _ _ _ _ _ Hplan Hd') as [l1' [p' [l2' [E' Hin']]]].
    apply step_descs_in in Hin. destruct Hin as [Est [_ [_ [_ [_ [_ [Edirs _]]]]]]].
    apply step_descs_in in Hin'. destruct Hin' as [Est' [Eu' [_ [Ews' [_ [_ [_ [Hu0 Hu1]]]]]]]].
    set (n := s_name (d_step d')) in *.
    rewrite Edirs in Hk. rewrite map_map in Hk. simpl in Hk. rewrite map_id in Hk.
    rewrite Edirs, dir_of_map; auto.
    rewrite used_go_fst in Hk. apply in_app_or in Hk. destruct Hk as [Hk|Hk]; [contradiction|].
    unfold pre_names in Hk. apply in_map_iff in Hk. destruct Hk as [q [Eq Hq]].
    apply in_split in Hq. destruct Hq as [a [b Eab]].
    assert (EL : a ++ q :: (b ++ p :: l2) = l1' ++ p' :: l2').
    { rewrite <- E'. rewrite E, Eab, <- app_assoc. reflexivity. }
    assert (HndL : NoDup (pre_names L)).
    { clear - Hnd. induction (map fst used0) as [|x m IH]; simpl in Hnd; auto.
      inversion Hnd; auto. }
    assert (Hsplit : a = l1' /\ q = p' /\ b ++ p :: l2 = l2').
    { apply (NoDup_split_unique (fun p => s_name (pr_step p))); auto.
      - unfold pre_names in HndL. rewrite EL, <- E'. exact HndL.
      - rewrite Eq. unfold n. rewrite Est'. reflexivity. }
    destruct Hsplit as [Ea [Eq' _]]. subst a q.
    assert (Hu : used_of (used_go ps used0 l1) n = step_used ps (used_go ps used0 l1') p').
    { rewrite Eab. rewrite <- Eq. apply used_of_used_go.
      rewrite Eq. intros Hin. apply in_app_or in Hin. destruct Hin as [Hin|Hin]; [contradiction|].
      (* the name of p' would repeat inside L *)
      assert (Hrep : NoDup (pre_names (l1' ++ p' :: l2'))) by (rewrite <- E'; exact HndL).
      unfold pre_names in Hrep. rewrite map_app in Hrep. simpl in Hrep.
      apply NoDup_remove_2 in Hrep. apply Hrep. apply in_or_app. left.
      fold (pre_names l1'). rewrite Eq. exact Hin. }
    rewrite wsdir_ordinary; auto; [|rewrite <- Est; exact Hh].
    rewrite Hu. rewrite Ews'. rewrite <- Est'. fold n.
    unfold same_combo in Hrow. rewrite Eu' in Hrow.
    destruct (step_used ps (used_go ps used0 l1') p') as [|k u] eqn:Eu.
    - rewrite Hu0; auto.
    - destruct Hu1 as [i' [Ei' _]]; [discriminate|]. rewrite Ei' in *.
      destruct (d_row d) as [i|]; [|discriminate].
      apply str_eqb_eq in Hrow. simpl. rewrite Hrow. reflexivity.
  Qed.
End Plan.

(** ** ... for the plan of a valid case *)
Lemma pre_go_names : forall m sts ord known,
  pre_names (pre_go m sts known ord) = map (fun k => s_name (nth k sts dummy_step)) ord.
Proof.
  intros m sts. induction ord as [|k ord IH]; intros known; simpl; auto.
  rewrite IH. reflexivity.
Qed.

Lemma steps_e_name : forall m c k,
  s_name (nth k (steps_e m c) dummy_step) = nth k (map s_name (c_steps c)) [].
Proof.
  intros m c k. unfold steps_e.
  change dummy_step with (step_map (env_pass m (env_build (c_env c))) dummy_step) at 1.
  rewrite map_nth. simpl.
  change (@nil N) with (s_name dummy_step). rewrite map_nth. reflexivity.
Qed.

Lemma pre_list_names : forall m c,
  pre_names (pre_list m c) = map (fun k => nth k (map s_name (c_steps c)) []) (c_order c).
Proof.
  intros. unfold pre_list. rewrite pre_go_names. apply map_ext. intros k. apply steps_e_name.
Qed.

Lemma valid_pre_names : forall m c, valid_case c = true ->
  NoDup (SOURCE :: pre_names (pre_list m c)).
Proof.
  intros m c H. apply valid_case_parts in H. destruct H as [Hnd [Hsrc [_ [_ [Hlt Hord]]]]].
  rewrite pre_list_names. constructor.
  - intros Hin. apply in_map_iff in Hin. destruct Hin as [k [E Hk]]. apply Hsrc.
    rewrite <- E. apply nth_In. rewrite map_length. auto.
  - apply NoDup_map_inj; auto. intros a b Ha Hb E.
    rewrite (NoDup_nth (map s_name (c_steps c)) []) in Hnd. apply Hnd; auto;
      rewrite map_length; auto.
Qed.

Theorem plan_ws_funnel : forall m c ds d n,
  valid_case c = true -> plan m c = Some ds -> In d ds ->
  In n (hub_of (d_step d)) -> n <> SOURCE -> In n (map fst (d_dirs d)) ->
  dir_of n (d_dirs d) = msp (c_root c) [n].
Proof.
  intros m c ds d n Hv Hp Hd Hh Hs Hk. unfold plan in Hp.
  eapply plan_funnel; eauto.
Qed.

Theorem plan_ws_ordinary : forall m c ds d d',
  valid_case c = true -> plan m c = Some ds -> In d ds -> In d' ds ->
  ~ In (s_name (d_step d')) (hub_of (d_step d)) ->
  In (s_name (d_step d')) (map fst (d_dirs d)) ->
  same_combo (c_params c) d d' = true ->
  dir_of (s_name (d_step d')) (d_dirs d) = d_ws d'.
Proof.
  intros m c ds d d' Hv Hp Hd Hd' Hh Hk Hrow. unfold plan in Hp.
  pose proof (valid_pre_names m c Hv) as Hnd.
  assert (Hs : s_name (d_step d') <> SOURCE).
  { destruct (plan_go_in _ _ _ _ _ _ _ Hp Hd') as [l1 [p [l2 [E Hin]]]].
    apply step_descs_in in Hin. destruct Hin as [Est _]. rewrite Est.
    inversion Hnd; subst. intros F. apply H1. rewrite <- F, E. unfold pre_names.
    rewrite map_app. apply in_or_app. right. left. reflexivity. }
  eapply plan_ordinary; eauto.
  simpl. intros [F|[]]. auto.
Qed.

(** the own workspace of every planned instance: root/step or root/step/combination *)
Theorem plan_own_ws : forall m c ds d,
  plan m c = Some ds -> In d ds ->
  d_ws d = own_ws (c_root c) (c_params c) (s_name (d_step d)) (d_used d) (d_row d) /\
  d_name d = iname (c_params c) (s_name (d_step d)) (d_used d) (d_row d).
Proof.
  intros m c ds d Hp Hd. unfold plan in Hp.
  destruct (plan_go_in _ _ _ _ _ _ _ Hp Hd) as [l1 [p [l2 [E Hin]]]].
  apply step_descs_in in Hin. destruct Hin as [Est [Eu [_ [Ews [En _]]]]].
  rewrite Est, Eu. split; auto.
Qed.

(* ------------------------------------------------------------------------ *)
(** * The pass structure of the written scripts *)
Lemma apply_str_fix : forall f x, f [] = [] -> apply_str f x = f x.
Proof. intros f [|c x] H; simpl; auto. Qed.

Lemma env_pass_nil : forall m E, env_pass m E [] = [].
Proof. reflexivity. Qed.

Lemma param_pass_spec_nil : forall ps i, param_pass Spec ps i [] = [].
Proof. reflexivity. Qed.

Lemma pre_go_steps : forall m sts ord known p,
  In p (pre_go m sts known ord) -> exists k, In k ord /\ pr_step p = nth k sts dummy_step.
Proof.
  intros m sts. induction ord as [|k ord IH]; intros known p H; simpl in H; [contradiction|].
  destruct H as [H|H].
  - exists k. split; [left; auto|]. subst p. reflexivity.
  - destruct (IH _ _ H) as [k' [Hk' E]]. exists k'. split; [right; auto|auto].
Qed.

Lemma plan_step_origin : forall m c ds d,
  valid_case c = true -> plan m c = Some ds -> In d ds ->
  exists st0, In st0 (c_steps c) /\
    d_step d = step_map (env_pass m (env_build (c_env c))) st0.
Proof.
  intros m c ds d Hv Hp Hd. unfold plan in Hp.
  destruct (plan_go_in _ _ _ _ _ _ _ Hp Hd) as [l1 [p [l2 [E Hin]]]].
  apply step_descs_in in Hin. destruct Hin as [Est _].
  assert (Hpin : In p (pre_list m c)) by (rewrite E; apply in_or_app; right; left; reflexivity).
  unfold pre_list in Hpin. apply pre_go_steps in Hpin. destruct Hpin as [k [Hk Ek]].
  apply valid_case_parts in Hv. destruct Hv as [_ [_ [_ [_ [Hlt _]]]]].
  exists (nth k (c_steps c) dummy_step). split; [apply nth_In; auto|].
  rewrite Est, Ek. unfold steps_e.
  change dummy_step with (step_map (env_pass m (env_build (c_env c))) dummy_step) at 1.
  apply map_nth.
Qed.

Lemma step_p_spec_text : forall c d k st0,
  d_step d = step_map (env_pass Spec (env_build (c_env c))) st0 ->
  run_text k (step_p Spec (c_params c) d) = spec_field c d (run_text k st0).
Proof.
  intros c d k st0 E. unfold step_p, spec_field. cbv zeta.
  destruct (d_row d) as [i|]; rewrite E.
  - rewrite !run_text_step_map. rewrite apply_str_fix; [|reflexivity].
    rewrite apply_str_fix; [|reflexivity]. reflexivity.
  - rewrite run_text_step_map. apply apply_str_fix. reflexivity.
Qed.

Theorem script_passes : forall c ds,
  valid_case c = true -> hyg c = true -> plan Spec c = Some ds ->
  stage Model c = Staged (map (inst_of Spec (c_params c) (c_shell c)) ds) /\
  forall d, In d ds -> exists st0,
    In st0 (c_steps c) /\ s_name st0 = s_name (d_step d) /\
    let i := inst_of Spec (c_params c) (c_shell c) d in
    i_script i = script_text (c_shell c) (spec_text c d (run_text "cmd" st0)) /\
    i_rscript i = match spec_text c d (run_text "restart" st0) with
                  | [] => None
                  | _ => Some (script_text (c_shell c) (spec_text c d (run_text "restart" st0)))
                  end.
Proof.
  intros c ds Hv Hh Hp. split.
  - rewrite (stage_model_eq_spec c Hh). unfold stage. rewrite Hp. reflexivity.
  - intros d Hd. destruct (plan_step_origin Spec c ds d Hv Hp Hd) as [st0 [Hin E]].
    exists st0. split; auto. split; [rewrite E; reflexivity|].
    cbv zeta. unfold inst_of. cbv zeta. simpl i_script. simpl i_rscript.
    rewrite !(step_p_spec_text c d _ st0 E). unfold spec_text. split; reflexivity.
Qed.

(* ------------------------------------------------------------------------ *)
(** * The core law with decidable hypotheses (the form quoted in Props/C09.v) *)
Theorem core_seq_eq_sim : forall (T l : table) (x : str),
  wf_tableb T = true -> Permutation l T -> token_free T (sim T x) = true ->
  seq l x = sim T x.
Proof. intros T l x H. apply seq_eq_sim. apply wf_tableb_spec. exact H. Qed.

Theorem core_seq_eq_sim_gen : forall (T l : table) (x : str),
  wf_tableb T = true ->
  (forall e, In e l -> In e T) ->
  (forall t, In t (tokens T) -> occursb t x = true -> In t (tokens l)) ->
  token_free T (sim T x) = true ->
  seq l x = sim T x.
Proof.
  intros T l x H Hi Hc Hf. apply seq_eq_sim_gen; auto.
  - apply wf_tableb_spec. exact H.
  - intros t Ht Ho. apply Hc; auto. apply occursb_spec. exact Ho.
Qed.

Theorem core_no_token_survives : forall (T l : table) (x : str),
  wf_tableb T = true -> Permutation l T -> token_free T (sim T x) = true ->
  forall t, In t (tokens T) -> occursb t (seq l x) = false.
Proof.
  intros T l x H Hp Hf t Ht. rewrite (core_seq_eq_sim T l x H Hp Hf).
  unfold token_free in Hf. rewrite forallb_forall in Hf. apply negb_true_iff. auto.
Qed.

Theorem core_order_irrelevant : forall (T l1 l2 : table) (x : str),
  wf_tableb T = true -> Permutation l1 T -> Permutation l2 T ->
  token_free T (sim T x) = true -> seq l1 x = seq l2 x.
Proof. intros T l1 l2 x H. apply seq_order_irrelevant. apply wf_tableb_spec. exact H. Qed.

Theorem core_untouched : forall (T l : table) (x : str),
  wf_tableb T = true -> Permutation l T -> token_free T (sim T x) = true ->
  exists L : list item,
    x = src L /\ seq l x = dst L /\
    (forall t v, In (K t v) L -> In (t, v) T) /\
    (forall L1 c L2, L = L1 ++ C c :: L2 -> lookup_prefix T (c :: src L2) = None).
Proof. intros T l x H. apply seq_decomposition. apply wf_tableb_spec. exact H. Qed.

Theorem core_sim_token : forall (T : table) t v r,
  wf_tableb T = true -> In (t, v) T -> sim T (t ++ r) = v ++ sim T r.
Proof. intros T t v r H. apply sim_token. apply wf_tableb_spec. exact H. Qed.

Theorem core_sim_char : forall (T : table) c r,
  (forall t, In t (tokens T) -> prefixb t (c :: r) = false) -> sim T (c :: r) = c :: sim T r.
Proof. exact sim_char. Qed.

(** [src] / [dst] of a decomposition, spelled out *)
Lemma src_dst_spec : forall L,
  src L = flat_map (fun it => match it with C c => [c] | K t _ => t end) L /\
  dst L = flat_map (fun it => match it with C c => [c] | K _ v => v end) L.
Proof.
  intros L. unfold src, dst, render. split; apply flat_map_ext; intros [c|t v]; reflexivity.
Qed.

(* ------------------------------------------------------------------------ *)
(** * Statements in the form quoted by Props/C09.v *)
Theorem recursion_pyval : forall (f : str -> str) (v : pyval),
  strings_of (apply_function f v) = map (apply_str f) (strings_of v) /\
  skeleton (apply_function f v) = skeleton v.
Proof. intros f v. exact (conj (strings_apply_function f v) (skeleton_apply_function f v)). Qed.

Theorem recursion_step : forall (f : str -> str) (st : step),
  step_strings (step_map f st) = map (apply_str f) (step_strings st) /\
  s_name (step_map f st) = s_name st /\
  map fst (s_run (step_map f st)) = map fst (s_run st).
Proof.
  intros f st. split; [exact (step_strings_map f st)|]. split; [reflexivity|].
  unfold step_map, apply_dict. simpl. rewrite map_map. reflexivity.
Qed.

Theorem spec_text_unfold : forall (c : case) (d : desc) (x0 : str),
  spec_text c d x0 =
  sim (rec_T d) (sim (ws_T d)
    (match d_row d with
     | None => env_pass Spec (env_build (c_env c)) x0
     | Some i => sim (param_table (c_params c) i) (env_pass Spec (env_build (c_env c)) x0)
     end)).
Proof. intros c d x0. unfold spec_text, spec_field. destruct (d_row d); reflexivity. Qed.

Theorem env_pass_unfold : forall (E : envt) (x : str),
  env_pass Spec E x = match x with
                      | [] => []
                      | _ => sim (e_subs E) (sim (e_deps E) (sim (e_labels E) x))
                      end.
Proof. intros E [|c x]; reflexivity. Qed.

Theorem C09_main : forall c : case, valid_case c = true -> hyg c = true -> C09_ok c (stage Model c) = true.
Proof. intros c _. exact (C09_ok_model c). Qed.

(* ------------------------------------------------------------------------ *)
(** * The environment tables: what [StudyEnvironment.add] defines *)
Lemma env_add_adds : forall E it, In (item_entry it) (env_entries (env_add E it)).
Proof.
  intros E [n v b|n v]; unfold env_entries, env_add;
    try destruct (b && e_tokens E && existsb (N.eqb DOLLAR) v); simpl;
    repeat rewrite in_app_iff; simpl; tauto.
Qed.

Lemma env_add_keeps : forall E it e, In e (env_entries E) -> In e (env_entries (env_add E it)).
Proof.
  intros E it e H. unfold env_entries in *.
  apply in_app_or in H. destruct H as [H|H]; [|apply in_app_or in H; destruct H as [H|H]];
    destruct it as [n v b|n v]; unfold env_add;
    try destruct (b && e_tokens E && existsb (N.eqb DOLLAR) v); simpl;
    repeat rewrite in_app_iff; simpl; tauto.
Qed.

Lemma table_remove_keeps : forall t T e, fst e <> t -> In e T -> In e (table_remove t T).
Proof.
  intros t T e Hne Hin. unfold table_remove. apply filter_In. split; auto.
  apply negb_true_iff. apply str_eqb_neq. congruence.
Qed.

Lemma env_remove_keeps : forall E n e,
  fst e <> tok n -> In e (env_entries E) -> In e (env_entries (env_remove E n)).
Proof.
  intros E n e Hne H. unfold env_entries in *. unfold env_remove.
  destruct (table_has (tok n) (e_deps E)); [|destruct (table_has (tok n) (e_subs E))]; simpl;
    repeat rewrite in_app_iff in *;
    destruct H as [H|[H|H]]; auto using table_remove_keeps.
Qed.

Definition env_step (E : envt) (op : env_op) : envt :=
  match op with EAdd it => env_add E it | ERemove n => env_remove E n end.

Lemma env_fold_keeps : forall ops E e,
  (forall n, In (ERemove n) ops -> fst e <> tok n) ->
  In e (env_entries E) -> In e (env_entries (fold_left env_step ops E)).
Proof.
  induction ops as [|op ops IH]; intros E e Hrm H; simpl; auto.
  apply IH; [intros n Hn; apply Hrm; right; exact Hn|].
  destruct op as [it|n]; simpl.
  - apply env_add_keeps. exact H.
  - apply env_remove_keeps; auto. apply Hrm. left. reflexivity.
Qed.

(** every variable / label / dependency added to the environment (and not
    removed afterwards) is an entry token |-> value of one of its three tables *)
Theorem env_build_defines : forall ops1 it ops2,
  (forall n, In (ERemove n) ops2 -> fst (item_entry it) <> tok n) ->
  In (item_entry it) (env_entries (env_build (ops1 ++ EAdd it :: ops2))).
Proof.
  intros ops1 it ops2 Hrm. unfold env_build.
  change (fun E op => match op with EAdd it0 => env_add E it0 | ERemove n => env_remove E n end) with env_step.
  rewrite fold_left_app. simpl. apply env_fold_keeps; auto. apply env_add_adds.
Qed.

(** C10 -- executable model of the workspace / script / output path construction.

    Anchors (maestrowf):
      utils.py                         make_safe_path  (filter by `valid`, replace, os.path.join)
      datastructures/core/study.py     Study._stage    (workspace of an instance; nickname = md5 hex
                                                         of the combination string when hashing;
                                                         instance name = step ++ "_" ++ combination)
                                       StudyStep.name / real_name / nickname
      datastructures/core/executiongraph.py
                                       _StepRecord.generate_script (script directory: the workspace,
                                                         or <tmp>/<md5 hex of the record name> when a
                                                         temp directory is in use), _execute (cwd)
      interfaces/script/*scriptadapter.py   _write_script (file names), LocalScriptAdapter.submit
      posixpath.join / posixpath.normpath   (the fragments needed to say "inside")

    The alphabet, the replace rules, the file-name templates and the workspace
    shapes are T-data ([Gen.SafePathData], regenerated from the source on every
    run).  md5 is *not* modelled: every function takes the digest function [h]
    as an argument (the harness passes the table of the digests the real run
    used); theorems quantify over [h] with explicit hypotheses.

    Stdlib only, no proofs here. *)
From Coq Require Import List Arith NArith Bool.
From MWF Require Import Base.Str Gen.SafePathData.
Import ListNotations.

Definition SLASH : N := 47%N.
Definition DOT : N := 46%N.
Definition SPACE : N := 32%N.

Definition memN (c : N) (l : list N) : bool := existsb (N.eqb c) l.
Definition is_empty (x : str) : bool := match x with [] => true | _ :: _ => false end.
Definition dot : str := [DOT].
Definition dotdot : str := [DOT; DOT].

(* ------------------------------------------------------------------------ *)
(** * make_safe_path *)

(** [x.replace(a, b)] for a one-character pattern [a]. *)
Definition replace1 (a : N) (b : str) (x : str) : str :=
  flat_map (fun c => if N.eqb c a then b else [c]) x.

Definition apply_replaces (rs : list (N * str)) (x : str) : str :=
  fold_left (fun acc r => replace1 (fst r) (snd r) acc) rs x.

(** ["".join(c for c in arg if c in valid)] then the replaces. *)
Definition sanitize_with (alpha : list N) (rs : list (N * str)) (x : str) : str :=
  apply_replaces rs (filter (fun c => memN c alpha) x).

Definition sanitize : str -> str := sanitize_with safe_alphabet safe_replaces.

(** posixpath.join *)
Definition starts_slash (b : str) : bool :=
  match b with c :: _ => N.eqb c SLASH | [] => false end.
Definition ends_slash (a : str) : bool :=
  match rev a with c :: _ => N.eqb c SLASH | [] => false end.

Definition join2 (a b : str) : str :=
  if starts_slash b then b
  else if is_empty a || ends_slash a then a ++ b
  else a ++ SLASH :: b.

Definition join (a : str) (bs : list str) : str := fold_left join2 bs a.

Definition make_safe_path (base : str) (args : list str) : str :=
  join base (map sanitize args).

(* ------------------------------------------------------------------------ *)
(** * posixpath.normpath, as a normal form (leading slashes, components) *)

(** [x.split("/")] -- never empty. *)
Fixpoint split_slash (x : str) : list str :=
  match x with
  | [] => [[]]
  | c :: r =>
      if N.eqb c SLASH then [] :: split_slash r
      else match split_slash r with
           | hd :: tl => (c :: hd) :: tl
           | [] => [[c]]
           end
  end.

(** 0, 1, or 2 ("//x" keeps two slashes, "///x" one). *)
Definition lead_slashes (x : str) : nat :=
  match x with
  | [] => 0
  | a :: r1 =>
      if negb (N.eqb a SLASH) then 0 else
      match r1 with
      | [] => 1
      | b :: r2 =>
          if negb (N.eqb b SLASH) then 1 else
          match r2 with
          | [] => 2
          | c :: _ => if N.eqb c SLASH then 1 else 2
          end
      end
  end.

(** One component against the stack of kept components (most recent first). *)
Definition norm_step (absolute : bool) (stk : list str) (c : str) : list str :=
  if is_empty c || str_eqb c dot then stk
  else if str_eqb c dotdot then
    match stk with
    | [] => if absolute then [] else [c]
    | t :: stk' => if str_eqb t dotdot then c :: stk else stk'
    end
  else c :: stk.

Definition norm_stack (absolute : bool) (comps : list str) (stk : list str) : list str :=
  fold_left (norm_step absolute) comps stk.

Definition npath (x : str) : nat * list str :=
  let l := lead_slashes x in
  (l, rev (norm_stack (Nat.ltb 0 l) (split_slash x) [])).

(** The text [os.path.normpath] returns (used to validate [npath]). *)
Fixpoint join_slash (l : list str) : str :=
  match l with
  | [] => []
  | [c] => c
  | c :: r => c ++ SLASH :: join_slash r
  end.
Definition normpath (x : str) : str :=
  let '(l, comps) := npath x in
  let t := repeat SLASH l ++ join_slash comps in
  if is_empty t then dot else t.

Fixpoint list_eqb (a b : list str) : bool :=
  match a, b with
  | [], [] => true
  | x :: a', y :: b' => str_eqb x y && list_eqb a' b'
  | _, _ => false
  end.

Fixpoint prefixb (a b : list str) : bool :=
  match a, b with
  | [], _ => true
  | x :: a', y :: b' => str_eqb x y && prefixb a' b'
  | _ :: _, [] => false
  end.

Definition npath_eqb (p q : nat * list str) : bool :=
  Nat.eqb (fst p) (fst q) && list_eqb (snd p) (snd q).

(** [p] is [d] or below it / strictly below it, after normalisation. *)
Definition np_inside_eq (d p : nat * list str) : bool :=
  Nat.eqb (fst d) (fst p) && prefixb (snd d) (snd p).
Definition np_inside (d p : nat * list str) : bool :=
  np_inside_eq d p && Nat.ltb (List.length (snd d)) (List.length (snd p)).
Definition inside_eq (d p : str) : bool := np_inside_eq (npath d) (npath p).
Definition inside (d p : str) : bool := np_inside (npath d) (npath p).

(* ------------------------------------------------------------------------ *)
(** * Studies, instances, paths *)

Record inst := mkinst {
  i_step : str;             (* name of the step in the specification *)
  i_combo : option str;     (* combination string; None = no parameters used *)
  i_restart : bool;         (* has a restart command *)
  i_pids : list str         (* process ids (decimal) of its local executions *)
}.

Record study := mkstudy {
  s_root : str;             (* Study._out_path *)
  s_tmp : str;              (* ExecutionGraph._tmp_dir, "" without --usetmp *)
  s_hashws : bool;
  s_adapter : adapter;
  s_insts : list inst       (* distinct instance names, staging order *)
}.

Definition opt_str (o : option str) : str := match o with Some x => x | None => [] end.

(** StudyStep.real_name of the instance (the key in the ExecutionGraph). *)
Definition iname (i : inst) : str :=
  match i_combo i with
  | None => i_step i
  | Some c => i_step i ++ iname_sep ++ c
  end.

(** StudyStep.nickname ("" / None when not hashing or not parameterised). *)
Definition nickname (h : str -> str) (hashws : bool) (i : inst) : str :=
  match i_combo i with
  | Some c => if hashws then h c else []
  | None => []
  end.

(** StudyStep.name: the nickname when it is non-empty. *)
Definition sname (h : str -> str) (hashws : bool) (i : inst) : str :=
  let n := nickname h hashws i in
  if is_empty n then iname i else n.

Definition ws_shape (hashws : bool) (i : inst) : list wcomp :=
  match i_combo i with
  | None => ws_unparam
  | Some _ => if hashws then ws_hashed else ws_plain
  end.

Definition wcomp_val (h : str -> str) (i : inst) (w : wcomp) : str :=
  match w with
  | WStep => i_step i
  | WCombo => opt_str (i_combo i)
  | WNick => h (opt_str (i_combo i))
  end.

(** Unsanitised and sanitised workspace components below the root. *)
Definition ws_args (h : str -> str) (hashws : bool) (i : inst) : list str :=
  map (wcomp_val h i) (ws_shape hashws i).
Definition ws_key (h : str -> str) (hashws : bool) (i : inst) : list str :=
  map sanitize (ws_args h hashws i).

Definition workspace (h : str -> str) (st : study) (i : inst) : str :=
  make_safe_path (s_root st) (ws_args h (s_hashws st) i).

(** Directory handed to [adapter.write_script]. *)
Definition scr_dir (h : str -> str) (st : study) (i : inst) : str :=
  if is_empty (s_tmp st) then workspace h st i
  else join2 (s_tmp st) (h (iname i)).

Definition piece_val (h : str -> str) (st : study) (i : inst) (pid : str) (p : tpiece) : str :=
  match p with
  | TLit x => x
  | TName => sname h (s_hashws st) i
  | TRealName => iname i
  | TPid => pid
  end.

Definition fill (h : str -> str) (st : study) (i : inst) (pid : str) (t : list tpiece) : str :=
  List.concat (map (piece_val h st i pid) t).

Definition script_path (h : str -> str) (st : study) (i : inst) : str :=
  join2 (scr_dir h st i) (fill h st i [] (script_tmpl (s_adapter st))).

Definition restart_path (h : str -> str) (st : study) (i : inst) : option str :=
  if i_restart i
  then Some (join2 (scr_dir h st i) (fill h st i [] (restart_tmpl (s_adapter st))))
  else None.

(** LocalScriptAdapter.submit: cwd = the workspace. *)
Definition out_paths (h : str -> str) (st : study) (i : inst) : list str :=
  flat_map (fun pid => [join2 (workspace h st i) (fill h st i pid out_tmpl);
                        join2 (workspace h st i) (fill h st i pid err_tmpl)])
           (i_pids i).

(* ------------------------------------------------------------------------ *)
(** * Observables and the monitor [C10_ok] *)

Record iobs := mkiobs {
  o_name : str;
  o_ws : str;
  o_script : option str;     (* path returned by / attempted in write_script *)
  o_restart : option str;
  o_outs : list str          (* .out / .err files of local executions *)
}.

Record obs := mkobs {
  o_root : str;
  o_tmp : str;
  o_exc : bool;              (* staging or execution raised *)
  o_insts : list iobs
}.

Definition model_iobs (h : str -> str) (st : study) (i : inst) : iobs :=
  mkiobs (iname i) (workspace h st i) (Some (script_path h st i)) (restart_path h st i)
         (out_paths h st i).

Definition model_obs (h : str -> str) (st : study) : obs :=
  mkobs (s_root st) (s_tmp st) false (map (model_iobs h st) (s_insts st)).

Definition opt_list (o : option str) : list str := match o with Some x => [x] | None => [] end.
Definition is_some {A} (o : option A) : bool := match o with Some _ => true | None => false end.

Definition o_scripts (i : iobs) : list str := opt_list (o_script i) ++ opt_list (o_restart i).
Definition o_files (i : iobs) : list str := o_scripts i ++ o_outs i.

(** every unordered pair of positions, both directions *)
Fixpoint pairwise {A} (f : A -> A -> bool) (l : list A) : bool :=
  match l with
  | [] => true
  | x :: r => forallb (fun y => f x y && f y x) r && pairwise f r
  end.

Definition np_neqb (p q : nat * list str) : bool := negb (npath_eqb p q).

(** 1. every workspace strictly inside the study directory *)
Definition ok_inside (o : obs) : bool :=
  forallb (fun i => inside (o_root o) (o_ws i)) (o_insts o).

(** 2. nothing raised and every instance got its script *)
Definition ok_complete (o : obs) : bool :=
  negb (o_exc o) && forallb (fun i => is_some (o_script i)) (o_insts o).

(** [p] is exactly one component below [d] / at most [k] >= 1 components below [d] *)
Definition np_child (d p : nat * list str) : bool :=
  np_inside_eq d p && Nat.eqb (List.length (snd p)) (S (List.length (snd d))).
Definition np_within (k : nat) (d p : nat * list str) : bool :=
  np_inside d p && Nat.leb (List.length (snd p)) (k + List.length (snd d)).
Definition child (d p : str) : bool := np_child (npath d) (npath p).
Definition within (k : nat) (d p : str) : bool := np_within k (npath d) (npath p).

(** 3. every script is a file directly in the own workspace (with --usetmp: in
       the temp directory or in a sub-directory of it), captured output is a
       file directly in the own workspace.  "Directly": the file name adds one
       component, so the file is created in a directory Maestro made for the
       step and not in some sub-directory nobody created. *)
Definition ok_files_inside (o : obs) : bool :=
  forallb (fun i =>
    forallb (fun f => if is_empty (o_tmp o) then child (o_ws i) f else within 2 (o_tmp o) f)
            (o_scripts i) &&
    forallb (child (o_ws i)) (o_outs i)) (o_insts o).

(** 4. all files written for all instances are pairwise distinct (after
       normalisation): within one instance, and across instances *)
Definition ok_files_distinct (o : obs) : bool :=
  forallb (fun i => pairwise np_neqb (map npath (o_files i))) (o_insts o) &&
  pairwise (fun i j =>
    forallb (fun f => forallb (fun g => np_neqb (npath f) (npath g)) (o_files j)) (o_files i))
    (o_insts o).

(** 5. distinct instances: the other's workspace and files are neither the
       own workspace nor below it (in particular workspaces are distinct) *)
Definition ok_separate (o : obs) : bool :=
  pairwise (fun i j =>
    negb (inside_eq (o_ws i) (o_ws j)) &&
    forallb (fun f => negb (inside_eq (o_ws i) f)) (o_files j)) (o_insts o).

Definition C10_ok (o : obs) : bool :=
  ok_inside o && ok_complete o && ok_files_inside o && ok_files_distinct o && ok_separate o.

(* ------------------------------------------------------------------------ *)
(** * Submission: where the job of an instance is started

    [_StepRecord._execute] hands [self.workspace.value] to [adapter.submit] as
    [cwd]; every back-end has to start the job THERE: the [cwd=] keyword of the
    process it launches (local: the script itself; Slurm / LSF: the directory
    option [-D] / [--chdir] / [-cwd] of sbatch / bsub, which overrides the
    directory sbatch / bsub itself runs in), Flux: [jobspec.cwd].  The job's
    stdout / stderr files (header [--output] / [-o] / [-e] lines, jobspec
    attributes) are mostly relative names: they land where the job runs.
    [so_cwd] is the effective working directory of the started job ([None]:
    nothing fixes it -- the job inherits the conductor's directory). *)
Record sobs := mksobs {
  so_ws : str;               (* the instance's workspace (an existing directory) *)
  so_raised : bool;          (* submit raised instead of starting a job *)
  so_cwd : option str;       (* effective working directory of the started job *)
  so_outs : list str;        (* its declared stdout / stderr targets, relative or absolute *)
  so_script : option str;    (* the script the launcher is told to run, as the shell (if any)
                                reads that word; None: the command line is not readable *)
  so_script_real : str       (* the script write_script produced *)
}.

(** The job is started, in the workspace; every declared stdout / stderr target,
    resolved against the job's working directory, is a file DIRECTLY in the
    workspace (as C10_writes_inside states of the model); the launcher is
    pointed at the script that was written. *)
Definition submit_ok (o : sobs) : bool :=
  negb (so_raised o) &&
  match so_cwd o with
  | None => false
  | Some d =>
      npath_eqb (npath d) (npath (so_ws o)) &&
      forallb (fun f => child (so_ws o) (join2 d f)) (so_outs o) &&
      match so_script o with
      | None => false
      | Some p => npath_eqb (npath (join2 d p)) (npath (so_script_real o))
      end
  end.

(** the model: the job runs in the workspace, output files are plain names, the
    script is referred to by its own path *)
Definition model_sobs (ws : str) (names : list str) (script : str) : sobs :=
  mksobs ws false (Some ws) names (Some script) (join2 ws script).

(* ------------------------------------------------------------------------ *)
(** * Hygiene (decidable form) and the known-finding signatures *)

Definition is_digit (c : N) : bool := N.leb 48 c && N.leb c 57.
Definition is_hex (c : N) : bool := is_digit c || (N.leb 97 c && N.leb c 102).
Definition hexlike (x : str) : bool := negb (is_empty x) && forallb is_hex x.

(** the intended script-name source (independent of the template data) *)
Definition ref_sname := sname.

(** K1a: distinct instances whose sanitised workspace components coincide, or
    one's are a prefix of the other's *)
Definition sig_collide (h : str -> str) (st : study) : bool :=
  negb (pairwise (fun i j =>
          str_eqb (iname i) (iname j) ||
          negb (prefixb (ws_key h (s_hashws st) i) (ws_key h (s_hashws st) j)))
        (s_insts st)).

(** K1b: the name the script file is derived from contains a slash *)
Definition sig_slash (h : str -> str) (st : study) : bool :=
  existsb (fun i => memN SLASH (ref_sname h (s_hashws st) i)) (s_insts st).

(** K1c = [sig_degenerate]: a sanitised component is ".", ".." or empty *)
Definition sig_dots (h : str -> str) (st : study) : bool :=
  existsb (fun i => existsb (fun c => str_eqb c dot || str_eqb c dotdot) (ws_key h (s_hashws st) i))
          (s_insts st).

Definition sig_empty (h : str -> str) (st : study) : bool :=
  existsb (fun i => existsb is_empty (ws_key h (s_hashws st) i)) (s_insts st).
Definition sig_degenerate (h : str -> str) (st : study) : bool :=
  sig_dots h st || sig_empty h st.

(** Well-formedness that staging guarantees / the harness supplies: a step is
    either expanded or not; digests look like digests and do not collide on the
    strings of this study; the temp directory and the study directory are
    unrelated; process ids are distinct decimal numbers. *)
Definition wf_kinds (st : study) : bool :=
  forallb (fun i => forallb (fun j =>
    negb (str_eqb (i_step i) (i_step j)) ||
    Bool.eqb (is_some (i_combo i)) (is_some (i_combo j))) (s_insts st)) (s_insts st).

Definition combos (st : study) : list str :=
  flat_map (fun i => match i_combo i with Some c => [c] | None => [] end) (s_insts st).

Definition digest_ok (h : str -> str) (keys : list str) : bool :=
  forallb (fun k => hexlike (h k)) keys &&
  pairwise (fun a b => str_eqb a b || negb (str_eqb (h a) (h b))) keys.

Definition wf_digests (h : str -> str) (st : study) : bool :=
  (negb (s_hashws st) || digest_ok h (combos st)) &&
  (is_empty (s_tmp st) || digest_ok h (map iname (s_insts st))).

Definition wf_tmp (st : study) : bool :=
  is_empty (s_tmp st) ||
  (negb (inside_eq (s_root st) (s_tmp st)) && negb (inside_eq (s_tmp st) (s_root st))).

Fixpoint nodup_str (l : list str) : bool :=
  match l with
  | [] => true
  | x :: r => negb (existsb (str_eqb x) r) && nodup_str r
  end.

Definition wf_pids (st : study) : bool :=
  forallb (fun i => forallb (fun p => negb (is_empty p) && forallb is_digit p) (i_pids i) &&
                    nodup_str (i_pids i)) (s_insts st).

Definition wf_names (st : study) : bool := nodup_str (map iname (s_insts st)).

Definition wf_study (h : str -> str) (st : study) : bool :=
  wf_kinds st && wf_digests h st && wf_tmp st && wf_pids st && wf_names st.

(** H10 as a boolean: well-formed and outside every known-finding signature. *)
Definition h10b (h : str -> str) (st : study) : bool :=
  wf_study h st &&
  negb (sig_collide h st) && negb (sig_slash h st) && negb (sig_degenerate h st).

(* ------------------------------------------------------------------------ *)
(** * Hygiene H10, as the hypothesis of the C10 theorems (Prop form)

    It excludes the input classes of the known findings K1a-K1c
    (the signatures above) and states what staging / the run-time supply:
    a step is either expanded or not, instance names are distinct, digests look
    like digests and do not collide on this study's strings, the temp directory
    is unrelated to the study directory, process ids are distinct numbers. *)
Definition good (c : str) : Prop := c <> [] /\ c <> dot /\ c <> dotdot.
Definition wkey (h : str -> str) (hashws : bool) (c : str) : str := if hashws then h c else c.
Definition is_digest (x : str) : Prop := x <> [] /\ Forall (fun c => is_hex c = true) x.
Definition is_pid (x : str) : Prop := x <> [] /\ Forall (fun c => is_digit c = true) x.

Record H10 (h : str -> str) (st : study) : Prop := mkH10 {
  H_kinds : forall i j, In i (s_insts st) -> In j (s_insts st) -> i_step i = i_step j ->
            (i_combo i = None <-> i_combo j = None);
  H_names : NoDup (map iname (s_insts st));
  (* sanitisation is injective on the step names ... *)
  H_steps : forall i j, In i (s_insts st) -> In j (s_insts st) ->
            sanitize (i_step i) = sanitize (i_step j) -> i_step i = i_step j;
  (* ... and on the combination strings of each step (on their digests when hashing) *)
  H_combos : forall i j ci cj, In i (s_insts st) -> In j (s_insts st) -> i_step i = i_step j ->
            i_combo i = Some ci -> i_combo j = Some cj ->
            sanitize (wkey h (s_hashws st) ci) = sanitize (wkey h (s_hashws st) cj) -> ci = cj;
  (* no workspace component sanitises to "", "." or ".." *)
  H_good : forall i, In i (s_insts st) -> Forall good (ws_key h (s_hashws st) i);
  (* the name the file names are made from contains no '/' *)
  H_noslash : forall i, In i (s_insts st) -> ~ In SLASH (sname h (s_hashws st) i);
  (* with a temp directory: the per-record digests are digests and distinct,
     temp directory and study directory are unrelated *)
  H_tmp : s_tmp st <> [] ->
          (forall i, In i (s_insts st) -> is_digest (h (iname i))) /\
          (forall i j, In i (s_insts st) -> In j (s_insts st) ->
                       h (iname i) = h (iname j) -> iname i = iname j) /\
          inside_eq (s_root st) (s_tmp st) = false /\ inside_eq (s_tmp st) (s_root st) = false;
  H_pids : forall i, In i (s_insts st) -> NoDup (i_pids i) /\ Forall is_pid (i_pids i)
}.

(* ------------------------------------------------------------------------ *)
(** * Correspondence helpers (harness side) *)

Fixpoint lookup (tbl : list (str * str)) (k : str) : str :=
  match tbl with
  | [] => []
  | (a, b) :: r => if str_eqb a k then b else lookup r k
  end.

Definition opt_agree (lenient : bool) (m o : option str) : bool :=
  match o, m with
  | Some p, Some q => str_eqb p q
  | Some _, None => false
  | None, Some _ => lenient
  | None, None => true
  end.

(** model vs implementation, one instance; after an exception missing
    observations are tolerated (the monitor is false anyway) *)
Definition iobs_agree (exc : bool) (m o : iobs) : bool :=
  str_eqb (o_name m) (o_name o) && str_eqb (o_ws m) (o_ws o) &&
  opt_agree exc (o_script m) (o_script o) && opt_agree exc (o_restart m) (o_restart o) &&
  (exc || list_eqb (o_outs m) (o_outs o)).

Fixpoint all2 {A B} (f : A -> B -> bool) (a : list A) (b : list B) : bool :=
  match a, b with
  | [], [] => true
  | x :: a', y :: b' => f x y && all2 f a' b'
  | _, _ => false
  end.

Definition obs_agree (m o : obs) : bool :=
  str_eqb (o_root m) (o_root o) && str_eqb (o_tmp m) (o_tmp o) &&
  all2 (iobs_agree (o_exc o)) (o_insts m) (o_insts o).

(** The directory tree a complete run leaves behind.  Entries are
    (kind, components): 0 = directory below the root, 1 = file below the root,
    2 = directory below the temp directory, 3 = file below it. *)
Definition rel_to (d p : str) : option (list str) :=
  let nd := npath d in let np := npath p in
  if np_inside_eq nd np then Some (skipn (List.length (snd nd)) (snd np)) else None.

Fixpoint prefixes (l : list str) : list (list str) :=
  match l with
  | [] => []
  | x :: r => [x] :: map (cons x) (prefixes r)
  end.

Definition tree_of_file (o : obs) (f : str) : list (nat * list str) :=
  match rel_to (o_root o) f with
  | Some r => [(1, r)]
  | None =>
      match rel_to (o_tmp o) f with
      | Some r => (3, r) :: map (fun d => (2, d)) (removelast (prefixes r))
      | None => [(9, [f])]
      end
  end.

Definition tree_of (o : obs) : list (nat * list str) :=
  flat_map (fun i =>
    match rel_to (o_root o) (o_ws i) with
    | Some r => map (fun d => (0, d)) (prefixes r)
    | None => [(9, [o_ws i])]
    end ++ flat_map (tree_of_file o) (o_files i)) (o_insts o).

Definition entry_eqb (a b : nat * list str) : bool :=
  Nat.eqb (fst a) (fst b) && list_eqb (snd a) (snd b).
Definition tree_subset (a b : list (nat * list str)) : bool :=
  forallb (fun e => existsb (entry_eqb e) b) a.
Definition tree_agree (m : obs) (impl : list (nat * list str)) : bool :=
  tree_subset (tree_of m) impl && tree_subset impl (tree_of m).

(** One correspondence case: the study, the digest table, what the real run
    showed, and the tree it left (only compared for complete hygienic runs). *)
Record ccase := mkcase {
  c_study : study;
  c_md5 : list (str * str);
  c_obs : obs;
  c_tree : list (nat * list str)
}.

Definition case_agree (c : ccase) : bool :=
  obs_agree (model_obs (lookup (c_md5 c)) (c_study c)) (c_obs c).
Definition case_tree (c : ccase) : bool :=
  negb (h10b (lookup (c_md5 c)) (c_study c)) || o_exc (c_obs c) ||
  tree_agree (model_obs (lookup (c_md5 c)) (c_study c)) (c_tree c).
Definition case_monitor (c : ccase) : bool := C10_ok (c_obs c).
Definition case_wf (c : ccase) : bool := wf_study (lookup (c_md5 c)) (c_study c).
Definition case_h10 (c : ccase) : bool := h10b (lookup (c_md5 c)) (c_study c).
Definition case_fine (c : ccase) : bool :=
  case_wf c && case_agree c && case_tree c && case_monitor c.

(** path-function cases: (a, bs, expected join, expected normpath of the join) *)
Definition pathcase_fine (c : str * list str * str * str) : bool :=
  let '(a, bs, j, n) := c in
  str_eqb (join a bs) j && str_eqb (normpath j) n.

(** sanitiser cases: (base, args, expected make_safe_path) *)
Definition sancase_fine (c : str * list str * str) : bool :=
  let '(a, args, r) := c in str_eqb (make_safe_path a args) r.
